(* C17 — concrete inputs on which the faithful model (hence the code: each is replayed on the
   real handler by the harness) does NOT mirror the snapshot / does NOT leave local data alone.
   Every witness is evaluated by vm_compute. *)
From Verif Require Import Base.Prelude Peering.Model Peering.Lemmas Peering.Verbs.
Require Import Coq.Sorting.Permutation.
Local Open Scope string_scope.

(* ------------------------------------------------------------------ computable coherence *)

Definition pairs {A} (l : list A) : list (A * A) := flat_map (fun a => map (fun b => (a, b)) l) l.

Fixpoint nodup_b {A} (eqb : A -> A -> bool) (l : list A) : bool :=
  match l with
  | [] => true
  | x :: l' => negb (existsb (eqb x) l') && nodup_b eqb l'
  end.

(* the boolean reading of Snapshot.snap_coh *)
Definition coherent_b (p sn : string) (snap : list inst) : bool :=
  forallb (fun i => seqb (n_peer (i_node i)) p && seqb (s_peer (i_svc i)) p
                    && seqb (s_node (i_svc i)) (n_name (i_node i))
                    && forallb (fun k => seqb (c_peer k) p) (i_chks i)
                    && seqb (s_name (i_svc i)) sn && negb (seqb (s_id (i_svc i)) "")
                    && nodup_b seqb (map c_id (i_chks i))
                    && forallb (fun k => seqb (c_node k) (n_name (i_node i))
                                         && (seqb (c_sid k) "" || seqb (c_sid k) (s_id (i_svc i)))
                                         && negb (N.eqb (c_status k) 0)) (i_chks i)) snap
  && nodup_b (fun a b => seqb (fst a) (fst b) && seqb (snd a) (snd b))
             (map (fun i => (n_name (i_node i), s_id (i_svc i))) snap)
  && forallb (fun ij => let '(i, j) := ij in
                negb (seqb (n_name (i_node i)) (n_name (i_node j))) || node_eqb (i_node i) (i_node j)) (pairs snap)
  && forallb (fun ij => let '(i, j) := ij in
                negb (seqb (n_id (i_node j)) (n_id (i_node i))) || seqb (n_id (i_node i)) ""
                || seqb (n_name (i_node j)) (n_name (i_node i))) (pairs snap)
  && forallb (fun ij => let '(i, j) := ij in
                negb (seqb (n_name (i_node i)) (n_name (i_node j)))
                || forallb (fun k => negb (seqb (c_sid k) "") || existsb (chk_eqb k) (i_chks j)) (i_chks i)
                   && forallb (fun k => forallb (fun k' => negb (seqb (c_id k) (c_id k')) || chk_eqb k k') (i_chks j)) (i_chks i))
             (pairs snap).

Definition wf_b (c : cat) : bool :=
  nodup_b key_eqb (map node_key (nodes c)) && nodup_b key_eqb (map svc_key (svcs c))
  && nodup_b key_eqb (map chk_key (chks c)).

(* every received service row is stored afterwards *)
Definition has_all_svcs_b (c : cat) (snap : list inst) : bool :=
  forallb (fun i => existsb (svc_eqb (i_svc i)) (svcs c)) snap.

(* the checks attached to a received instance are checks the snapshot lists for it *)
Definition no_extra_chks_b (c : cat) (p : string) (snap : list inst) : bool :=
  forallb (fun i =>
    forallb (fun r => negb (seqb (c_peer r) p && seqb (c_node r) (n_name (i_node i))
                            && (seqb (c_sid r) "" || seqb (c_sid r) (s_id (i_svc i))))
                      || existsb (fun k => seqb (c_id k) (c_id r)) (i_chks i)) (chks c)) snap.

Definition all_chks_stored_b (c : cat) (snap : list inst) : bool :=
  forallb (fun i => forallb (fun k => existsb (fun r => key_eqb (chk_key r) (chk_key k) && seqb (c_sid r) (c_sid k)
                                                       && N.eqb (c_status r) (c_status k) && N.eqb (c_body r) (c_body k)) (chks c))
                            (i_chks i)) snap.

(* an iteration order: snap.Nodes visited in reverse insertion order *)
Definition rev_nodes : shuffles :=
  Shuffles (fun l => rev l) (fun l => l) (fun l => l) (fun l => l) (fun l => l) (fun l => l).

Lemma rev_nodes_ok : shuffles_ok rev_nodes.
Proof.
  repeat split; intros l; cbn; try apply Permutation_refl. apply Permutation_sym, Permutation_rev.
Qed.

Lemma id_shuffles_ok : shuffles_ok id_shuffles.
Proof. repeat split; intros l; cbn; apply Permutation_refl. Qed.

Definition pa : string := "peer-a".
Definition idX : string := "11111111-1111-1111-1111-111111111111".
Definition idZ : string := "22222222-2222-2222-2222-222222222222".

Definition mk_svc (node sid name : string) (body : N) : svc := Svc pa node sid name 7 body 0 false "" [] false.

(* ---- witness 1: a node ID moves to another name (node takeover) ----
   stored:   node a (ID X) with web1
   received: node a (ID Z) with the same web1, node b (ID X) with web1
   visiting b first renames X: the store deletes node a and its instance; a is then
   registered again, but web1 on a "has not changed" and is skipped. *)
Definition w1_before : cat :=
  Cat [Node pa "a" idX 5] [mk_svc "a" "web1" "web" 9] [] [].
Definition w1_export : list inst :=
  [Inst (Node "" "a" idZ 5) (mk_svc "a" "web1" "web" 9) [];
   Inst (Node "" "b" idX 5) (mk_svc "b" "web1" "web" 9) []].
Definition w1_snap := map (inst_set_peer pa) w1_export.
Definition w1_after := handle_update_service rev_nodes w1_before pa "web" (Some w1_export).

Lemma w1_facts :
  wf_b w1_before = true /\ coherent_b pa "web" w1_snap = true /\ h_err w1_after = None
  /\ has_all_svcs_b (h_cat w1_after) w1_snap = false
  /\ svcs (h_cat w1_after) = [mk_svc "b" "web1" "web" 9].
Proof. vm_compute. repeat split; reflexivity. Qed.

(* the other visiting order gives the right result: the outcome depends on Go's map order *)
Lemma w1_other_order :
  has_all_svcs_b (h_cat (handle_update_service id_shuffles w1_before pa "web" (Some w1_export))) w1_snap = true.
Proof. vm_compute. reflexivity. Qed.

(* ---- witness 2: a check id changes owner (node-level before, service-level now) ----
   stored:   node a with web1 and web2, node-level check "c"
   received: web1 with "c" as ITS check, web2 without it
   "c" is registered for web1; the clean-up of web2 then finds the stored node check "c"
   missing from web2's list and deregisters (a, "c"). *)
Definition w2_before : cat :=
  Cat [Node pa "a" "" 5] [mk_svc "a" "web1" "web" 9; mk_svc "a" "web2" "web" 9]
      [Chk pa "a" "c" "" "" 7 1 3] [].
Definition w2_export : list inst :=
  [Inst (Node "" "a" "" 5) (mk_svc "a" "web1" "web" 9) [Chk "" "a" "c" "web1" "web" 7 1 3];
   Inst (Node "" "a" "" 5) (mk_svc "a" "web2" "web" 9) []].
Definition w2_snap := map (inst_set_peer pa) w2_export.
Definition w2_after := handle_update_service id_shuffles w2_before pa "web" (Some w2_export).

Lemma w2_facts :
  wf_b w2_before = true /\ coherent_b pa "web" w2_snap = true /\ h_err w2_after = None
  /\ all_chks_stored_b (h_cat w2_after) w2_snap = false /\ chks (h_cat w2_after) = [].
Proof. vm_compute. repeat split; reflexivity. Qed.

(* ---- witness 3: a stale node-level check survives when no stored instance is retained ----
   stored:   node a with web1 and the node check "maint"
   received: node a with web2 only, no checks
   web1 is deregistered (`continue`), its checks are never compared, "maint" stays attached
   to the new instance web2. *)
Definition w3_before : cat :=
  Cat [Node pa "a" "" 5] [mk_svc "a" "web1" "web" 9] [Chk pa "a" "maint" "" "" 7 3 3] [].
Definition w3_export : list inst := [Inst (Node "" "a" "" 5) (mk_svc "a" "web2" "web" 9) []].
Definition w3_snap := map (inst_set_peer pa) w3_export.
Definition w3_after := handle_update_service id_shuffles w3_before pa "web" (Some w3_export).

Lemma w3_facts :
  wf_b w3_before = true /\ coherent_b pa "web" w3_snap = true /\ h_err w3_after = None
  /\ no_extra_chks_b (h_cat w3_after) pa w3_snap = false
  /\ chks (h_cat w3_after) = [Chk pa "a" "maint" "" "" 7 3 3].
Proof. vm_compute. repeat split; reflexivity. Qed.

(* ---- former witness 4 (fixed in /repo by acb191c + e4a855c): an imported connect-proxy that
   names upstreams used to rewrite the mesh-topology row of a local sidecar; updateMeshTopology
   now returns at once for an imported instance and the row is kept ---- *)
Definition w4_before : cat :=
  Cat [Node "" "l1" "" 5] [Svc "" "l1" "web-proxy" "web-proxy" 7 4 1 false "web" ["db"] false] []
      [Topo "db" "web" ["l1/web-proxy"]].
Definition w4_export : list inst :=
  [Inst (Node "" "r1" "" 5) (Svc "" "r1" "px" "web-sidecar-proxy" 7 4 1 false "web" ["db"] false) []].
Definition w4_after := handle_update_service id_shuffles w4_before pa "web-sidecar-proxy" (Some w4_export).

Lemma w4_facts :
  h_err w4_after = None /\ In (Svc pa "r1" "px" "web-sidecar-proxy" 7 4 1 false "web" ["db"] false) (svcs (h_cat w4_after))
  /\ topo (h_cat w4_after) = topo w4_before.
Proof. vm_compute. repeat split; auto. Qed.

(* ---- witness 5: a node rename takes the instances of OTHER services of the peer with it ----
   stored:   node a (ID X) with web1 (service web) and api1 (service api)
   received for web: node b (ID X) with web1 *)
Definition w5_before : cat :=
  Cat [Node pa "a" idX 5] [mk_svc "a" "web1" "web" 9; mk_svc "a" "api1" "api" 9] [] [].
Definition w5_export : list inst := [Inst (Node "" "b" idX 5) (mk_svc "b" "web1" "web" 9) []].
Definition w5_snap := map (inst_set_peer pa) w5_export.
Definition w5_after := handle_update_service id_shuffles w5_before pa "web" (Some w5_export).

Lemma w5_facts :
  wf_b w5_before = true /\ coherent_b pa "web" w5_snap = true /\ h_err w5_after = None
  /\ svcs (h_cat w5_after) = [mk_svc "b" "web1" "web" 9].
Proof. vm_compute. repeat split; reflexivity. Qed.

(* ------------------------------------------------------------------ reflection *)

From Verif Require Import Peering.Phase1 Peering.Snapshot.

Lemma nodup_b_spec {A} (eqb : A -> A -> bool) :
  (forall a b, eqb a b = true <-> a = b) -> forall l, nodup_b eqb l = true -> NoDup l.
Proof.
  intros Heq. induction l as [|x l IH]; cbn [nodup_b]; intros H; [constructor|].
  apply andb_true_iff in H as [H1 H2]. constructor; [|apply IH; exact H2].
  intros Hin. apply negb_true_iff in H1. rewrite existsb_false_iff in H1.
  specialize (H1 x Hin). assert (eqb x x = true) by (apply Heq; reflexivity). congruence.
Qed.

Lemma wf_b_spec c : wf_b c = true -> wf c.
Proof.
  unfold wf_b. intros H. apply andb_true_iff in H as [H H3]. apply andb_true_iff in H as [H1 H2].
  repeat split; unfold keys_nodup; eapply nodup_b_spec; eauto using key_eqb_eq.
Qed.

Lemma in_pairs {A} (l : list A) a b : In a l -> In b l -> In (a, b) (pairs l).
Proof.
  intros Ha Hb. unfold pairs. apply in_flat_map. exists a. split; [exact Ha|]. apply in_map. exact Hb.
Qed.

Lemma pair_eqb_eq (a b : string * string) : seqb (fst a) (fst b) && seqb (snd a) (snd b) = true <-> a = b.
Proof.
  destruct a, b. cbn. rewrite andb_true_iff, !seqb_eq. split; [intros [-> ->]; reflexivity | intros E; injection E; auto].
Qed.

Lemma coherent_b_spec p sn snap : coherent_b p sn snap = true -> snap_coh p sn snap.
Proof.
  unfold coherent_b. intros H.
  apply andb_true_iff in H as [H P4]. apply andb_true_iff in H as [H P3].
  apply andb_true_iff in H as [H P2]. apply andb_true_iff in H as [P0 P1].
  rewrite forallb_forall in P0, P2, P3, P4.
  assert (U : forall i, In i snap ->
     (n_peer (i_node i) = p /\ s_peer (i_svc i) = p /\ s_node (i_svc i) = n_name (i_node i)
      /\ forall k, In k (i_chks i) -> c_peer k = p) /\
     (s_name (i_svc i) = sn /\ s_id (i_svc i) <> "") /\ NoDup (map c_id (i_chks i)) /\
     (forall k, In k (i_chks i) -> c_node k = n_name (i_node i) /\ (c_sid k = "" \/ c_sid k = s_id (i_svc i)) /\ c_status k <> 0%N)).
  { intros i Hi. specialize (P0 i Hi). repeat (apply andb_true_iff in P0 as [P0 ?]).
    repeat match goal with H : seqb _ _ = true |- _ => apply seqb_eq in H end.
    match goal with H : negb (seqb _ "") = true |- _ => apply negb_true_iff, seqb_neq in H end.
    split; [|split; [|split]].
    - repeat split; auto. intros k Hk.
      match goal with H : forallb (fun k => seqb (c_peer k) p) _ = true |- _ => rewrite forallb_forall in H; apply seqb_eq, H, Hk end.
    - auto.
    - eapply nodup_b_spec; [apply seqb_eq | eassumption].
    - intros k Hk.
      match goal with H : forallb (fun k => seqb (c_node k) _ && _ && _) _ = true |- _ => rewrite forallb_forall in H; specialize (H k Hk) end.
      repeat match goal with H : _ && _ = true |- _ => apply andb_true_iff in H as [? ?] end.
      repeat split.
      + apply seqb_eq. assumption.
      + match goal with H : _ || _ = true |- _ => apply orb_true_iff in H as [H|H]; apply seqb_eq in H; auto end.
      + match goal with H : negb (N.eqb _ 0) = true |- _ => apply negb_true_iff, N.eqb_neq in H; exact H end. }
  split.
  - intros i Hi. apply (U i Hi).
  - intros i Hi. apply (U i Hi).
  - eapply nodup_b_spec; [|exact P1]. intros a b. apply pair_eqb_eq.
  - intros i j Hi Hj E. specialize (P2 (i, j) (in_pairs snap i j Hi Hj)). cbn in P2.
    apply orb_true_iff in P2 as [P2|P2]; [apply negb_true_iff, seqb_neq in P2; contradiction | apply node_eqb_eq; exact P2].
  - intros i j Hi Hj E Hne. specialize (P3 (i, j) (in_pairs snap i j Hi Hj)). cbn in P3.
    apply orb_true_iff in P3 as [P3|P3]; [|apply seqb_eq; exact P3].
    apply orb_true_iff in P3 as [P3|P3]; [apply negb_true_iff, seqb_neq in P3; contradiction | apply seqb_eq in P3; contradiction].
  - intros i Hi. apply (U i Hi).
  - intros i k Hi Hk. apply (U i Hi). exact Hk.
  - intros i j k Hi Hj E Hk Hs. specialize (P4 (i, j) (in_pairs snap i j Hi Hj)). cbn in P4.
    apply orb_true_iff in P4 as [P4|P4]; [apply negb_true_iff, seqb_neq in P4; contradiction|].
    apply andb_true_iff in P4 as [P4 _]. rewrite forallb_forall in P4. specialize (P4 k Hk).
    apply orb_true_iff in P4 as [P4|P4]; [apply negb_true_iff, seqb_neq in P4; contradiction|].
    apply existsb_exists in P4 as (k' & Hk' & E'). apply chk_eqb_eq in E'. subst k'. exact Hk'.
  - intros i j k k' Hi Hj E Hk Hk' Eid. specialize (P4 (i, j) (in_pairs snap i j Hi Hj)). cbn in P4.
    apply orb_true_iff in P4 as [P4|P4]; [apply negb_true_iff, seqb_neq in P4; contradiction|].
    apply andb_true_iff in P4 as [_ P4]. rewrite forallb_forall in P4. specialize (P4 k Hk).
    rewrite forallb_forall in P4. specialize (P4 k' Hk').
    apply orb_true_iff in P4 as [P4|P4]; [apply negb_true_iff, seqb_neq in P4; contradiction | apply chk_eqb_eq; exact P4].
Qed.
