(* C17 — mirror: after handleUpdateService returned without error, the rows of (peer, service)
   are exactly the rows of the received snapshot — under the hypotheses that exclude the three
   classes in which this is false of the code (Refute.v): a node ID that moves to another
   name, a check ID that changes owner, a snapshot slot whose stale checks belong to no stored
   instance of the service that the snapshot retains. *)
From Verif Require Import Base.Prelude Peering.Model Peering.Lemmas Peering.Verbs Peering.Prune
     Peering.Phase1 Peering.Phase2.
Require Import Coq.Sorting.Permutation.
Local Open Scope string_scope.

(* ------------------------------------------------------------------ lookups in the snapshot *)

Lemma find_ns_some hs x :
  NoDup (map (fun x => n_name (ns_node x)) hs) -> In x hs -> find_ns hs (n_name (ns_node x)) = Some x.
Proof.
  unfold find_ns. induction hs as [|z hs IH]; intros Hn Hx; [contradiction|]. cbn [find].
  inversion Hn as [|? ? Hnin Hn']; subst. destruct Hx as [->|Hx]; [rewrite seqb_refl; reflexivity|].
  seqb_cases (n_name (ns_node z)) (n_name (ns_node x)); [|apply IH; assumption].
  exfalso. apply Hnin. rewrite E. apply in_map_iff. exists x. auto.
Qed.

Lemma find_ns_in hs n x : find_ns hs n = Some x -> In x hs /\ n_name (ns_node x) = n.
Proof. unfold find_ns. intros H. apply find_some in H as [H1 H2]. apply seqb_eq in H2. auto. Qed.

Lemma find_ss_some x y :
  NoDup (map (fun y => s_id (ss_svc y)) (ns_svcs x)) -> In y (ns_svcs x) -> find_ss x (s_id (ss_svc y)) = Some y.
Proof.
  unfold find_ss. induction (ns_svcs x) as [|z l IH]; intros Hn Hy; [contradiction|]. cbn [find].
  inversion Hn as [|? ? Hnin Hn']; subst. destruct Hy as [->|Hy]; [rewrite seqb_refl; reflexivity|].
  seqb_cases (s_id (ss_svc z)) (s_id (ss_svc y)); [|apply IH; assumption].
  exfalso. apply Hnin. rewrite E. apply in_map_iff. exists y. auto.
Qed.

Lemma find_ss_in x sid y : find_ss x sid = Some y -> In y (ns_svcs x) /\ s_id (ss_svc y) = sid.
Proof. unfold find_ss. intros H. apply find_some in H as [H1 H2]. apply seqb_eq in H2. auto. Qed.

Lemma has_chk_true y id : has_chk y id = true <-> exists k, In k (ss_chks y) /\ c_id k = id.
Proof.
  unfold has_chk. rewrite existsb_exists. split; intros (k & Hk & E); exists k; split; auto; apply seqb_eq; exact E.
Qed.

(* ------------------------------------------------------------------ phase 1 only registers *)

Definition is_reg (o : op) : Prop := match o with OReg _ => True | ODereg _ => False end.

Lemma do_reg_regs r s : Forall is_reg (h_ops s) -> Forall is_reg (h_ops (do_reg r s)).
Proof.
  intros H. unfold do_reg. destruct (h_err s); [exact H|].
  destruct (register (h_cat s) r); cbn [h_ops]; constructor; auto; exact I.
Qed.

Lemma node_block_regs sh stored x s : Forall is_reg (h_ops s) -> Forall is_reg (h_ops (node_block sh stored x s)).
Proof.
  intros H. unfold node_block.
  set (s1 := if node_changed stored (ns_node x) then _ else s).
  assert (H1 : Forall is_reg (h_ops s1)) by (subst s1; destruct (node_changed _ _); [apply do_reg_regs|]; exact H).
  set (s2 := fold_left _ (sh_svcs sh (ns_svcs x)) s1).
  assert (H2 : Forall is_reg (h_ops s2)).
  { subst s2. generalize dependent s1. induction (sh_svcs sh (ns_svcs x)) as [|y l IH]; intros s1 H1; cbn [fold_left]; [exact H1|].
    apply IH. destruct (svc_changed _ _ _); [apply do_reg_regs|]; exact H1. }
  destruct (sh_chks sh _); [exact H2 | apply do_reg_regs; exact H2].
Qed.

Lemma node_blocks_regs sh stored : forall l s,
  Forall is_reg (h_ops s) -> Forall is_reg (h_ops (fold_left (fun s x => node_block sh stored x s) l s)).
Proof.
  induction l as [|x l IH]; intros s H; cbn [fold_left]; [exact H|]. apply IH, node_block_regs, H.
Qed.

(* ------------------------------------------------------------------ the theorem on the handler's own snapshot *)

Section Mirror.
  Variables (sh : shuffles) (p sn : string) (c0 : cat) (hs : hsnap) (stored : list inst).
  Hypothesis sh_ok : shuffles_ok sh.
  Hypothesis wf0 : wf c0.
  Hypothesis Hcsn : check_service_nodes c0 p sn = Ok stored.
  Hypothesis Hhs : hs_wf p hs.
  Hypothesis Hcoh : hs_chk_coh hs.
  Hypothesis Hid0 : forall x b, In x hs -> In b (nodes c0) -> n_peer b = p ->
                                n_id b = n_id (ns_node x) -> n_id (ns_node x) <> "" -> n_name b = n_name (ns_node x).
  Hypothesis Hid1 : forall x x', In x hs -> In x' hs -> n_id (ns_node x') = n_id (ns_node x) ->
                                 n_id (ns_node x) <> "" -> n_name (ns_node x') = n_name (ns_node x).
  (* checks name their own instance or the node *)
  Hypothesis Hsid : forall x y k, In x hs -> In y (ns_svcs x) -> In k (ss_chks y) ->
                                  c_sid k = "" \/ c_sid k = s_id (ss_svc y).
  (* node-level checks are listed under every instance of the node *)
  Hypothesis Huni : forall x y y' k, In x hs -> In y (ns_svcs x) -> In y' (ns_svcs x) ->
                                     In k (ss_chks y) -> c_sid k = "" -> In k (ss_chks y').
  Hypothesis Hsidne : forall x y, In x hs -> In y (ns_svcs x) -> s_id (ss_svc y) <> "".
  (* identifiers stored for the peer are not empty *)
  Hypothesis Hids_s : forall z, In z (svcs c0) -> s_peer z = p -> s_id z <> "".
  Hypothesis Hids_k : forall k, In k (chks c0) -> c_peer k = p -> c_id k <> "".
  (* a check id keeps its owner *)
  Hypothesis Hstable : forall k0 x y k, In k0 (chks c0) -> c_peer k0 = p -> In x hs -> In y (ns_svcs x) ->
                                        In k (ss_chks y) -> c_node k0 = n_name (ns_node x) -> c_id k0 = c_id k ->
                                        c_sid k = c_sid k0.
  (* a stored check in a snapshot slot that the snapshot does not list belongs to a stored
     instance of the service which the snapshot retains *)
  Hypothesis Howned : forall k0 x y, In k0 (chks c0) -> c_peer k0 = p -> In x hs -> In y (ns_svcs x) ->
      c_node k0 = n_name (ns_node x) -> (c_sid k0 = "" \/ c_sid k0 = s_id (ss_svc y)) -> has_chk y (c_id k0) = false ->
      exists y' z, In y' (ns_svcs x) /\ In z (svcs c0) /\ s_peer z = p /\ s_node z = n_name (ns_node x)
                   /\ s_id z = s_id (ss_svc y') /\ s_name z = sn /\ (c_sid k0 <> "" -> y' = y).

  Let s0 := HSt c0 [] None.
  Let s1 := fold_left (fun s x => node_block sh stored x s) (sh_nodes sh hs) s0.
  Let s' := phase2 sh p hs stored s1.
  Hypothesis Herr : h_err s' = None.

  Let Hst := stored_all_ok c0 p sn stored Hcsn.

  Lemma err1 : h_err s1 = None.
  Proof.
    destruct (h_err s1) eqn:E; [|reflexivity]. exfalso.
    assert (H : h_err s' = h_err s1).
    { unfold s'. apply (phase2_inv sh p hs stored sh_ok (fun s => h_err s = h_err s1)); [| | |reflexivity];
        intros; unfold do_dereg; destruct (h_err s) eqn:Es; cbn [h_err]; congruence. }
    congruence.
  Qed.

  Lemma I1 : inv1 c0 (fun d => In d hs) (h_cat s1).
  Proof. apply (phase1_spec sh p sn c0 stored hs); auto. exact err1. Qed.

  Lemma wf1 : wf (h_cat s1).
  Proof. apply (i1_wf _ _ _ I1). Qed.

  Lemma wf' : wf (h_cat s').
  Proof. apply (phase2_incl sh p hs stored sh_ok s1). exact wf1. Qed.

  (* stored identifiers *)
  Lemma stored_sid i : In i stored -> i_sid i <> "" /\ i_n i = s_node (i_svc i) /\ s_peer (i_svc i) = p.
  Proof.
    intros Hi. destruct (Hst i Hi) as [A B _ (_ & _ & D) _]. split; [apply Hids_s; auto|]. split; [exact D | exact B].
  Qed.

  Lemma stored_cid i k : In i stored -> In k (i_chks i) ->
    c_id k <> "" /\ In k (chks c0) /\ c_peer k = p /\ c_node k = i_n i /\ (c_sid k = "" \/ c_sid k = i_sid i).
  Proof.
    intros Hi Hk. destruct (Hst i Hi) as [_ _ _ (_ & _ & D) K]. apply K in Hk as (K1 & K2 & K3 & K4).
    split; [apply Hids_k; auto|]. repeat split; auto. unfold i_n. congruence.
  Qed.

  (* ---------------- survival through the clean-up ---------------- *)

  Lemma dropped_not_slot i x y : In x hs -> In y (ns_svcs x) -> dropped hs i ->
    ~ (i_n i = n_name (ns_node x) /\ i_sid i = s_id (ss_svc y)).
  Proof.
    intros Hx Hy Hd [E1 E2]. unfold dropped in Hd. rewrite E1, E2 in Hd.
    rewrite (find_ns_some hs x (hw_names p hs Hhs) Hx) in Hd.
    destruct Hd as [Hd|(x' & Hx' & Hd)]; [discriminate|]. injection Hx' as <-.
    rewrite (find_ss_some x y (hw_sids p hs Hhs x Hx) Hy) in Hd. discriminate.
  Qed.

  Lemma G1 x : In x hs -> In (ns_node x) (nodes (h_cat s')).
  Proof.
    intros Hx. unfold s'. apply (phase2_inv sh p hs stored sh_ok (fun s => In (ns_node x) (nodes (h_cat s)))).
    - intros i s Hi _ H. unfold do_dereg. destruct (h_err s); [exact H|]. cbn [h_cat].
      apply node_survives; [exact H|]. apply (stored_sid i Hi).
    - intros i k s Hi (Hk & _) H. unfold do_dereg. destruct (h_err s); [exact H|]. cbn [h_cat].
      apply node_survives; [exact H|]. apply (stored_cid i k Hi Hk).
    - intros i s Hi Hf _ _ H. unfold do_dereg. destruct (h_err s); [exact H|]. cbn [h_cat].
      apply node_survives; [exact H|]. intros E. unfold node_key in E. injection E as _ E.
      rewrite <- E, (find_ns_some hs x (hw_names p hs Hhs) Hx) in Hf. discriminate.
    - destruct (ev_es _ _ _ _ _ _ (i1_n _ _ _ I1) (ns_node x)) as (b & Hb & ->); [exists x; auto | exact Hb].
  Qed.

  Lemma G2 x y : In x hs -> In y (ns_svcs x) -> In (ss_svc y) (svcs (h_cat s')).
  Proof.
    intros Hx Hy. destruct (hw_svc p hs Hhs x y Hx Hy) as [Sp Sn'].
    unfold s'. apply (phase2_inv sh p hs stored sh_ok (fun s => In (ss_svc y) (svcs (h_cat s)))).
    - intros i s Hi Hd H. unfold do_dereg. destruct (h_err s); [exact H|]. cbn [h_cat].
      apply svc_survives; [exact H|]. split; [apply (stored_sid i Hi)|].
      intros E. unfold svc_key in E. injection E as _ E1 E2.
      apply (dropped_not_slot i x y Hx Hy Hd). split; congruence.
    - intros i k s Hi (Hk & _) H. unfold do_dereg. destruct (h_err s); [exact H|]. cbn [h_cat].
      apply svc_survives; [exact H|]. apply (stored_cid i k Hi Hk).
    - intros i s Hi _ _ Hn H. unfold do_dereg. destruct (h_err s); [exact H|]. cbn [h_cat].
      apply svc_survives; [exact H | exact Hn].
    - destruct (ev_es _ _ _ _ _ _ (i1_s _ _ _ I1) (ss_svc y)) as (b & Hb & ->); [exists x, y; auto | exact Hb].
  Qed.

  Lemma G3 x y k : In x hs -> In y (ns_svcs x) -> In k (ss_chks y) ->
    exists r, In r (chks (h_cat s')) /\ img_chk k r.
  Proof.
    intros Hx Hy Hk.
    destruct (ev_es _ _ _ _ _ _ (i1_k _ _ _ I1) k) as (r & Hr & Hi); [exists x, y; auto|].
    exists r. split; [|exact Hi]. destruct Hi as [Kk Kc].
    assert (Rn : c_node r = n_name (ns_node x)).
    { unfold chk_key in Kk. injection Kk as _ E _. rewrite E. apply (hc_node hs Hcoh x y k); auto. }
    assert (Rs : c_sid r = c_sid k) by (unfold chk_core in Kc; congruence).
    assert (Ri : c_id r = c_id k) by (unfold chk_key in Kk; congruence).
    unfold s'. apply (phase2_inv sh p hs stored sh_ok (fun s => In r (chks (h_cat s)))); [| | |exact Hr].
    - intros i s Hi Hd H. unfold do_dereg. destruct (h_err s); [exact H|]. cbn [h_cat].
      apply chk_survives; [exact H|]. destruct (stored_sid i Hi) as (Hne & _). split; [exact Hne|].
      intros (_ & E2 & E3). fold (i_n i) (i_sid i) in *.
      destruct (Hsid x y k Hx Hy Hk) as [Hs|Hs]; [congruence|].
      apply (dropped_not_slot i x y Hx Hy Hd). split; congruence.
    - intros i k0 s Hi (Hk0 & x2 & y2 & Fx & Fy & Hh) H. unfold do_dereg. destruct (h_err s); [exact H|]. cbn [h_cat].
      apply chk_survives; [exact H|].
      destruct (stored_cid i k0 Hi Hk0) as (Hne & K0 & Kp & Kn & Ks). split; [exact Hne|].
      intros E. unfold chk_key in E. injection E as _ E2 E3.
      apply find_ns_in in Fx as [Hx2 Nx2]. apply find_ss_in in Fy as [Hy2 Sy2].
      assert (x2 = x) as ->.
      { assert (F : find_ns hs (n_name (ns_node x2)) = Some x) by (rewrite Nx2, <- Kn, <- E2, Rn; apply find_ns_some; [apply (hw_names p hs Hhs)|exact Hx]).
        rewrite (find_ns_some hs x2 (hw_names p hs Hhs) Hx2) in F. congruence. }
      assert (Hst' : c_sid k = c_sid k0).
      { apply (Hstable k0 x y k); auto; congruence. }
      destruct Ks as [Ks|Ks].
      + assert (In k (ss_chks y2)) by (apply (Huni x y y2 k); auto; congruence).
        assert (has_chk y2 (c_id k0) = true) by (apply has_chk_true; exists k; split; [assumption|congruence]).
        congruence.
      + destruct (Hsid x y k Hx Hy Hk) as [Hs|Hs].
        * destruct (stored_sid i Hi) as (Hne' & _). congruence.
        * assert (y2 = y) as ->.
          { assert (F : find_ss x (s_id (ss_svc y2)) = Some y) by (rewrite Sy2, <- Ks, <- Hst', Hs; apply find_ss_some; [apply (hw_sids p hs Hhs x Hx)|exact Hy]).
            rewrite (find_ss_some x y2 (hw_sids p hs Hhs x Hx) Hy2) in F. congruence. }
          assert (has_chk y (c_id k0) = true) by (apply has_chk_true; exists k; split; [assumption|congruence]).
          congruence.
    - intros i s Hi Hf _ _ H. unfold do_dereg. destruct (h_err s); [exact H|]. cbn [h_cat].
      apply chk_survives; [exact H|]. intros (_ & E).
      rewrite <- E, Rn, (find_ns_some hs x (hw_names p hs Hhs) Hx) in Hf. discriminate.
  Qed.

  (* ---------------- what the clean-up removed ---------------- *)

  Lemma gone_dsvc i : In i stored -> dropped hs i -> gone (DSvc p (i_n i) (i_sid i)) (h_cat s').
  Proof.
    intros Hi Hd. pose proof (log_dsvc sh p hs stored s1 i err1 Hi Hd) as L.
    destruct (phase2_gone sh p hs stored sh_ok s1 _ L) as [A|A]; [|exact A]. exfalso.
    pose proof (node_blocks_regs sh stored (sh_nodes sh hs) s0 (Forall_nil _)) as R.
    rewrite Forall_forall in R. apply (R _ A).
  Qed.

  Lemma gone_dchk i k : In i stored -> stale hs i k -> gone (DChk p (c_node k) (c_id k)) (h_cat s').
  Proof.
    intros Hi Hd. pose proof (log_dchk sh p hs stored sh_ok s1 i k err1 Hi Hd) as L.
    destruct (phase2_gone sh p hs stored sh_ok s1 _ L) as [A|A]; [|exact A]. exfalso.
    pose proof (node_blocks_regs sh stored (sh_nodes sh hs) s0 (Forall_nil _)) as R.
    rewrite Forall_forall in R. apply (R _ A).
  Qed.

  Lemma G4 z : In z (svcs (h_cat s')) -> s_peer z = p -> s_name z = sn ->
    exists x y, In x hs /\ In y (ns_svcs x) /\ z = ss_svc y.
  Proof.
    intros Hz Hp Hn.
    assert (Hz1 : In z (svcs (h_cat s1))) by (apply (phase2_incl sh p hs stored sh_ok s1); exact Hz).
    destruct (ev_up _ _ _ _ _ _ (i1_s _ _ _ I1) z Hz1) as [Hz0|(b & (x & y & Hx & Hy & ->) & ->)];
      [|exists x, y; auto].
    destruct (stored_complete c0 p sn stored Hcsn z Hz0 Hp Hn) as (i & Hi & Ei).
    destruct (stored_sid i Hi) as (Hne & En & _).
    destruct (find_ns hs (i_n i)) as [x|] eqn:Fx.
    2:{ exfalso. apply (gone_dsvc i Hi (or_introl Fx) Hne z Hz). unfold svc_key, i_sid. rewrite En, Ei, Hp. reflexivity. }
    destruct (find_ss x (i_sid i)) as [y|] eqn:Fy.
    2:{ exfalso. assert (Hd : dropped hs i) by (right; exists x; auto).
        apply (gone_dsvc i Hi Hd Hne z Hz). unfold svc_key, i_sid. rewrite En, Ei, Hp. reflexivity. }
    apply find_ns_in in Fx as [Hx Nx]. apply find_ss_in in Fy as [Hy Sy].
    exists x, y. split; [exact Hx|]. split; [exact Hy|].
    destruct (hw_svc p hs Hhs x y Hx Hy) as [Sp Snode].
    apply (nodup_key_inj svc_key (svcs (h_cat s'))); [apply wf' | exact Hz | apply (G2 x y Hx Hy) |].
    unfold svc_key. rewrite Hp, Sp, Snode, Nx, Sy. unfold i_sid. rewrite En, Ei. reflexivity.
  Qed.

  Lemma G5 r x y : In r (chks (h_cat s')) -> c_peer r = p -> In x hs -> In y (ns_svcs x) ->
    c_node r = n_name (ns_node x) -> (c_sid r = "" \/ c_sid r = s_id (ss_svc y)) ->
    exists k, In k (ss_chks y) /\ img_chk k r.
  Proof.
    intros Hr Hp Hx Hy Rn Rs.
    assert (Hr1 : In r (chks (h_cat s1))) by (apply (phase2_incl sh p hs stored sh_ok s1); exact Hr).
    destruct (ev_up _ _ _ _ _ _ (i1_k _ _ _ I1) r Hr1) as [Hr0|(k' & (x' & y' & Hx' & Hy' & Hk') & Hi)].
    - (* a row from before *)
      destruct (has_chk y (c_id r)) eqn:Hh.
      + apply has_chk_true in Hh as (k & Hk & Ek). exists k. split; [exact Hk|].
        destruct (G3 x y k Hx Hy Hk) as (r' & Hr' & Hi').
        assert (r' = r) as ->; [|exact Hi'].
        apply (nodup_key_inj chk_key (chks (h_cat s'))); [apply wf' | exact Hr' | exact Hr |].
        destruct Hi' as [Kk _]. rewrite Kk. unfold chk_key.
        rewrite (hw_chk_peer p hs Hhs x y k Hx Hy Hk), (hc_node hs Hcoh x y k Hx Hy Hk), Hp, Rn, Ek. reflexivity.
      + exfalso. destruct (Howned r x y Hr0 Hp Hx Hy Rn Rs Hh) as (y' & z & Hy' & Hz & Zp & Zn & Zi & Zs & Zy).
        destruct (stored_complete c0 p sn stored Hcsn z Hz Zp Zs) as (i & Hi & Ei).
        destruct (stored_sid i Hi) as (_ & En & _).
        assert (Rk : In r (i_chks i)).
        { destruct (Hst i Hi) as [_ _ _ _ K]. apply K. rewrite Ei. repeat split; auto; try congruence.
          destruct Rs as [Rs|Rs]; [left; exact Rs|]. right.
          destruct (string_dec (c_sid r) "") as [E|E]; [rewrite E in Rs; exfalso; apply (Hsidne x y Hx Hy); congruence|].
          rewrite (Zy E) in Zi. congruence. }
        assert (Hstale : stale hs i r).
        { split; [exact Rk|]. exists x, y'. unfold i_n in En. unfold i_n, i_sid.
          rewrite En, Ei, Zn, Zi.
          split; [apply find_ns_some; [apply (hw_names p hs Hhs)|exact Hx]|].
          split; [apply find_ss_some; [apply (hw_sids p hs Hhs x Hx)|exact Hy']|].
          destruct (has_chk y' (c_id r)) eqn:Hh'; [|reflexivity]. exfalso.
          apply has_chk_true in Hh' as (k & Hk & Ek).
          pose proof (Hstable r x y' k Hr0 Hp Hx Hy' Hk Rn (eq_sym Ek)) as Es.
          destruct (string_dec (c_sid r) "") as [E|E].
          - assert (In k (ss_chks y)) by (apply (Huni x y' y k); auto; congruence).
            assert (has_chk y (c_id r) = true) by (apply has_chk_true; exists k; auto). congruence.
          - rewrite (Zy E) in Hk. assert (has_chk y (c_id r) = true) by (apply has_chk_true; exists k; auto). congruence. }
        apply (gone_dchk i r Hi Hstale (Hids_k r Hr0 Hp) r Hr). unfold chk_key. rewrite Hp. reflexivity.
    - (* a row the handler wrote: the image of a snapshot check of this node *)
      destruct Hi as [Kk Kc].
      assert (x' = x) as ->.
      { assert (E : n_name (ns_node x') = n_name (ns_node x)).
        { rewrite <- (hc_node hs Hcoh x' y' k' Hx' Hy' Hk'), <- Rn. unfold chk_key in Kk. congruence. }
        assert (F : find_ns hs (n_name (ns_node x')) = Some x) by (rewrite E; apply find_ns_some; [apply (hw_names p hs Hhs)|exact Hx]).
        rewrite (find_ns_some hs x' (hw_names p hs Hhs) Hx') in F. congruence. }
      assert (Es : c_sid r = c_sid k') by (unfold chk_core in Kc; congruence).
      destruct (string_dec (c_sid k') "") as [E|E].
      + exists k'. split; [apply (Huni x y' y k'); auto | split; assumption].
      + assert (y' = y) as ->.
        { destruct (Hsid x y' k' Hx Hy' Hk') as [H|H]; [contradiction|].
          destruct Rs as [Rs|Rs]; [congruence|].
          assert (F : find_ss x (s_id (ss_svc y')) = Some y) by (rewrite <- H, <- Es, Rs; apply find_ss_some; [apply (hw_sids p hs Hhs x Hx)|exact Hy]).
          rewrite (find_ss_some x y' (hw_sids p hs Hhs x Hx) Hy') in F. congruence. }
        exists k'. split; [exact Hk' | split; assumption].
  Qed.
End Mirror.
