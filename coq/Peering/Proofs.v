(* C17 — final assembly: the refutations of the unconditional statements and the examples
   showing that the hypotheses of the conditional theorems are met by non-trivial inputs. *)
From Verif Require Import Base.Prelude Peering.Model Peering.Lemmas Peering.Verbs Peering.Frame Peering.Prune
     Peering.Export Peering.Phase1 Peering.Phase2 Peering.Mirror Peering.Snapshot Peering.MirrorTop
     Peering.SamePeer Peering.Refute.
Require Import Coq.Sorting.Permutation.
Local Open Scope string_scope.

(* ------------------------------------------------------------------ the full statements *)

(* "after an exported-service update the catalog for (peer, service) equals the snapshot":
   for every prior state and every coherent snapshot — FALSE of the code *)
Definition mirror_statement : Prop :=
  forall sh c0 p sn export,
    shuffles_ok sh -> wf c0 -> ids_nonempty c0 p ->
    snap_coh p sn (map (inst_set_peer p) export) ->
    h_err (handle_update_service sh c0 p sn (Some export)) = None ->
    mirrors (h_cat (handle_update_service sh c0 p sn (Some export))) p sn (map (inst_set_peer p) export).

(* "other services of the same peer keep their instances" — FALSE when a node is renamed *)
Definition same_peer_statement : Prop :=
  forall sh c0 p sn export,
    shuffles_ok sh -> wf c0 -> ids_nonempty c0 p ->
    snap_coh p sn (map (inst_set_peer p) export) ->
    h_err (handle_update_service sh c0 p sn (Some export)) = None ->
    forall z, In z (svcs c0) -> s_peer z = p -> s_name z <> sn ->
              (forall i, In i (map (inst_set_peer p) export) -> svc_key (i_svc i) <> svc_key z) ->
              In z (svcs (h_cat (handle_update_service sh c0 p sn (Some export)))).

Ltac ids_ne := split; intros z Hz _; vm_compute in Hz; intuition; subst; discriminate.

Lemma mirror_refuted_node_id : ~ mirror_statement.
Proof.
  intros H. destruct w1_facts as (W & C & E & _ & S).
  specialize (H rev_nodes w1_before pa "web" w1_export rev_nodes_ok (wf_b_spec _ W)).
  assert (Hne : ids_nonempty w1_before pa).
  { ids_ne. }
  specialize (H Hne (coherent_b_spec _ _ _ C) E).
  destruct (mi_in _ _ _ _ H (inst_set_peer pa (Inst (Node "" "a" idZ 5) (mk_svc "a" "web1" "web" 9) []))) as (_ & Hs & _);
    [left; reflexivity|].
  fold w1_after in Hs. rewrite S in Hs. cbn in Hs. destruct Hs as [Hs|[]]. discriminate.
Qed.

Lemma mirror_refuted_check_owner : ~ mirror_statement.
Proof.
  intros H. destruct w2_facts as (W & C & E & _ & S).
  specialize (H id_shuffles w2_before pa "web" w2_export id_shuffles_ok (wf_b_spec _ W)).
  assert (Hne : ids_nonempty w2_before pa).
  { ids_ne. }
  specialize (H Hne (coherent_b_spec _ _ _ C) E).
  destruct (mi_in _ _ _ _ H (inst_set_peer pa (Inst (Node "" "a" "" 5) (mk_svc "a" "web1" "web" 9) [Chk "" "a" "c" "web1" "web" 7 1 3])))
    as (_ & _ & Hk); [left; reflexivity|].
  destruct (Hk (chk_set_peer pa (Chk "" "a" "c" "web1" "web" 7 1 3))) as (r & Hr & _); [left; reflexivity|].
  fold w2_after in Hr. rewrite S in Hr. destruct Hr.
Qed.

Lemma mirror_refuted_stale_node_check : ~ mirror_statement.
Proof.
  intros H. destruct w3_facts as (W & C & E & _ & S).
  specialize (H id_shuffles w3_before pa "web" w3_export id_shuffles_ok (wf_b_spec _ W)).
  assert (Hne : ids_nonempty w3_before pa).
  { ids_ne. }
  specialize (H Hne (coherent_b_spec _ _ _ C) E).
  destruct (mi_chks _ _ _ _ H (inst_set_peer pa (Inst (Node "" "a" "" 5) (mk_svc "a" "web2" "web" 9) []))
                    (Chk pa "a" "maint" "" "" 7 3 3)) as (k & [] & _); auto.
  - left. reflexivity.
  - fold w3_after. rewrite S. left. reflexivity.
Qed.

Lemma same_peer_refuted_rename : ~ same_peer_statement.
Proof.
  intros H. destruct w5_facts as (W & C & E & S).
  specialize (H id_shuffles w5_before pa "web" w5_export id_shuffles_ok (wf_b_spec _ W)).
  assert (Hne : ids_nonempty w5_before pa).
  { ids_ne. }
  specialize (H Hne (coherent_b_spec _ _ _ C) E (mk_svc "a" "api1" "api" 9)).
  fold w5_after in H. rewrite S in H. cbn in H.
  destruct H as [H|[]]; [auto|reflexivity|discriminate| |discriminate].
  intros i [<-|[]]. cbn. discriminate.
Qed.

(* ------------------------------------------------------------------ the hypotheses are satisfiable *)

(* prior state: the peer's node a with web1 and a check the exporter has dropped; a local row
   and a row of another peer under the same names.  Snapshot: node a with new content, web1
   with new content, one new check. *)
Definition ex_before : cat :=
  Cat [Node pa "a" "" 5; Node "" "a" "" 1; Node "peer-b" "a" "" 2]
      [mk_svc "a" "web1" "web" 9; Svc "" "a" "web1" "web" 7 1 0 false "" [] false;
       Svc "peer-b" "a" "web1" "web" 7 2 0 false "" [] false]
      [Chk pa "a" "old" "web1" "web" 7 1 3; Chk "" "a" "old" "web1" "web" 7 1 3]
      [].
Definition ex_export : list inst :=
  [Inst (Node "" "a" "" 6) (mk_svc "a" "web1" "web" 10) [Chk "" "a" "new" "web1" "web" 7 1 4]].
Definition ex_snap := map (inst_set_peer pa) ex_export.

Lemma ex_hypotheses :
  wf ex_before /\ snap_coh pa "web" ex_snap /\ ids_keep_names ex_before pa ex_snap /\
  check_ids_keep_owner ex_before pa ex_snap /\ slots_owned ex_before pa "web" ex_snap /\
  ids_nonempty ex_before pa /\
  h_err (handle_update_service id_shuffles ex_before pa "web" (Some ex_export)) = None.
Proof.
  split; [apply wf_b_spec; vm_compute; reflexivity|].
  split; [apply coherent_b_spec; vm_compute; reflexivity|].
  split; [|split; [|split; [|split]]].
  - intros i b [<-|[]] _ _ _ Hne. cbn in Hne. contradiction.
  - intros k0 i k Hk0 Hp [<-|[]] [<-|[]] _ Hid. cbn in Hk0, Hid.
    destruct Hk0 as [<-|[<-|[]]]; cbn in Hid; discriminate.
  - intros k0 i Hk0 Hp [<-|[]] Hn Hs Hno.
    exists (inst_set_peer pa (Inst (Node "" "a" "" 6) (mk_svc "a" "web1" "web" 10) [Chk "" "a" "new" "web1" "web" 7 1 4])),
           (mk_svc "a" "web1" "web" 9).
    cbn. repeat split; auto.
  - split.
    + intros z Hz _. cbn in Hz. intuition; subst; discriminate.
    + intros k Hk _. cbn in Hk. intuition; subst; discriminate.
  - vm_compute. reflexivity.
Qed.

(* and there the rows of the local cluster and of peer-b with the same node, service and
   check names are untouched while the peer's rows are replaced *)
Lemma ex_result :
  h_cat (handle_update_service id_shuffles ex_before pa "web" (Some ex_export)) =
  Cat [Node pa "a" "" 6; Node "" "a" "" 1; Node "peer-b" "a" "" 2]
      [mk_svc "a" "web1" "web" 10; Svc "" "a" "web1" "web" 7 1 0 false "" [] false;
       Svc "peer-b" "a" "web1" "web" 7 2 0 false "" [] false]
      [Chk pa "a" "new" "web1" "web" 7 1 4; Chk "" "a" "old" "web1" "web" 7 1 3]
      [].
Proof. vm_compute. reflexivity. Qed.

(* an exported-services entry: web for peer x, the wildcard for peer y, consul never *)
Lemma ex_export_side :
  exported_services "x" [("web", ["x"]); ("*", ["y"]); ("consul", ["x"; "y"])] ["web"; "api"; "consul"] = ["web"]
  /\ exported_services "y" [("web", ["x"]); ("*", ["y"]); ("consul", ["x"; "y"])] ["web"; "api"; "consul"] = ["web"; "api"].
Proof. vm_compute. split; reflexivity. Qed.

(* ------------------------------------------------------------------ a second example: retained IDs *)

(* prior state: the peer's node a carries a node ID and hosts web1 (check c1) and api1 of another
   service (check c9); node u hosts only api2 and a node-level check.  Snapshot of web: node a with
   the SAME node ID (new content), web1 with new content, check c1 with the same owner, new status. *)
Definition ex2_before : cat :=
  Cat [Node pa "a" idX 5; Node pa "u" "" 1]
      [mk_svc "a" "web1" "web" 9; mk_svc "a" "api1" "api" 9; mk_svc "u" "api2" "api" 9]
      [Chk pa "a" "c1" "web1" "web" 7 1 3; Chk pa "a" "c9" "api1" "api" 7 1 3; Chk pa "u" "serf" "" "" 7 1 3]
      [].
Definition ex2_export : list inst :=
  [Inst (Node "" "a" idX 6) (mk_svc "a" "web1" "web" 10) [Chk "" "a" "c1" "web1" "web" 7 2 3]].
Definition ex2_snap := map (inst_set_peer pa) ex2_export.

Lemma ex2_hypotheses :
  wf ex2_before /\ snap_coh pa "web" ex2_snap /\ ids_keep_names ex2_before pa ex2_snap /\
  check_ids_keep_owner ex2_before pa ex2_snap /\ slots_owned ex2_before pa "web" ex2_snap /\
  ids_nonempty ex2_before pa /\
  h_err (handle_update_service id_shuffles ex2_before pa "web" (Some ex2_export)) = None /\
  (* the ID hypothesis is met by a stored node that really holds the received ID *)
  (exists b i, In b (nodes ex2_before) /\ In i ex2_snap /\ n_id b = n_id (i_node i) /\ n_id b <> "") /\
  (* and the owner hypothesis by a check id that is both stored and received *)
  (exists k0 i k, In k0 (chks ex2_before) /\ In i ex2_snap /\ In k (i_chks i) /\ c_node k0 = n_name (i_node i) /\ c_id k0 = c_id k).
Proof.
  split; [apply wf_b_spec; vm_compute; reflexivity|].
  split; [apply coherent_b_spec; vm_compute; reflexivity|].
  split; [|split; [|split; [|split; [|split; [|split]]]]].
  - intros i b [<-|[]] Hb _ Hid _. cbn in Hb, Hid. destruct Hb as [<-|[<-|[]]]; [reflexivity | cbn in Hid; discriminate].
  - intros k0 i k Hk0 _ [<-|[]] [<-|[]] Hn Hid. cbn in Hk0, Hn, Hid.
    destruct Hk0 as [<-|[<-|[<-|[]]]]; cbn in Hn, Hid |- *; try reflexivity; discriminate.
  - intros k0 i Hk0 _ [<-|[]] Hn Hs Hno. cbn in Hk0, Hn, Hs. exfalso.
    destruct Hk0 as [<-|[<-|[<-|[]]]]; cbn in Hn, Hs.
    + apply (Hno (chk_set_peer pa (Chk "" "a" "c1" "web1" "web" 7 2 3))); [left; reflexivity|reflexivity].
    + destruct Hs; discriminate.
    + discriminate.
  - ids_ne.
  - vm_compute. reflexivity.
  - exists (Node pa "a" idX 5), (inst_set_peer pa (Inst (Node "" "a" idX 6) (mk_svc "a" "web1" "web" 10) [Chk "" "a" "c1" "web1" "web" 7 2 3])).
    cbn. repeat split; auto. discriminate.
  - exists (Chk pa "a" "c1" "web1" "web" 7 1 3),
           (inst_set_peer pa (Inst (Node "" "a" idX 6) (mk_svc "a" "web1" "web" 10) [Chk "" "a" "c1" "web1" "web" 7 2 3])),
           (chk_set_peer pa (Chk "" "a" "c1" "web1" "web" 7 2 3)).
    cbn. repeat split; auto.
Qed.

(* the premises of C17_same_peer_frame / C17_same_peer_uninvolved_nodes are met there: api1 is an
   instance of another service in a slot the snapshot does not send; node u is not in the snapshot
   and hosts no instance of web *)
Lemma ex2_same_peer_premises :
  (In (mk_svc "a" "api1" "api" 9) (svcs ex2_before) /\ s_name (mk_svc "a" "api1" "api" 9) <> "web" /\
   forall i, In i ex2_snap -> svc_key (i_svc i) <> svc_key (mk_svc "a" "api1" "api" 9)) /\
  ((forall i, In i ex2_snap -> n_name (i_node i) <> "u") /\
   (forall y, In y (svcs ex2_before) -> s_peer y = pa -> s_node y = "u" -> s_name y <> "web") /\
   In (Node pa "u" "" 1) (nodes ex2_before)).
Proof.
  split; [split; [cbn; auto|split; [discriminate|]]|split; [|split]].
  - intros i [<-|[]]. cbn. discriminate.
  - intros i [<-|[]]. cbn. discriminate.
  - intros y Hy _ Hn. cbn in Hy. destruct Hy as [<-|[<-|[<-|[]]]]; cbn in Hn |- *; discriminate.
  - cbn. auto.
Qed.

Lemma ex2_result :
  h_cat (handle_update_service id_shuffles ex2_before pa "web" (Some ex2_export)) =
  Cat [Node pa "a" idX 6; Node pa "u" "" 1]
      [mk_svc "a" "web1" "web" 10; mk_svc "a" "api1" "api" 9; mk_svc "u" "api2" "api" 9]
      [Chk pa "a" "c1" "web1" "web" 7 2 3; Chk pa "a" "c9" "api1" "api" 7 1 3; Chk pa "u" "serf" "" "" 7 1 3]
      [].
Proof. vm_compute. reflexivity. Qed.

(* ------------------------------------------------------------------ an exported-service list *)

(* the peer has web (with its sidecar) and api; the list now names web only *)
Definition ex3_before : cat :=
  Cat [Node pa "a" "" 5; Node pa "b" "" 5]
      [mk_svc "a" "web1" "web" 9; mk_svc "a" "px" "web-sidecar-proxy" 9; mk_svc "b" "api1" "api" 9; mk_svc "a" "api2" "api" 9]
      [Chk pa "a" "c1" "web1" "web" 7 1 3; Chk pa "b" "c2" "api1" "api" 7 1 3]
      [].

Lemma ex3_hypotheses :
  wf ex3_before /\ ids_nonempty ex3_before pa /\
  h_err (handle_exported_list id_shuffles ex3_before pa ["web"]) = None /\
  In "web-sidecar-proxy" (exported_set ["web"]).
Proof.
  split; [apply wf_b_spec; vm_compute; reflexivity|]. split; [ids_ne|]. split; [vm_compute; reflexivity|]. cbn. auto.
Qed.

Lemma ex3_result :
  h_cat (handle_exported_list id_shuffles ex3_before pa ["web"]) =
  Cat [Node pa "a" "" 5] [mk_svc "a" "web1" "web" 9; mk_svc "a" "px" "web-sidecar-proxy" 9]
      [Chk pa "a" "c1" "web1" "web" 7 1 3] [].
Proof. vm_compute. reflexivity. Qed.
