(* C17 — second half of handleUpdateService (the clean-up): which deregistrations are issued,
   what they remove and what survives them. *)
From Verif Require Import Base.Prelude Peering.Model Peering.Lemmas Peering.Verbs Peering.Prune Peering.Phase1.
Require Import Coq.Sorting.Permutation.
Local Open Scope string_scope.

(* ------------------------------------------------------------------ one deregistration *)

Lemma delete_service_chks_incl c p n i : incl (chks (delete_service c p n i)) (chks c).
Proof.
  unfold delete_service. destruct (get_svc c p n i); [|apply incl_refl].
  cbn [chks set_svcs set_chks]. intros x Hx. apply filter_In in Hx. tauto.
Qed.
Lemma delete_node_chks_incl c p n : incl (chks (delete_node c p n)) (chks c).
Proof.
  unfold delete_node. destruct (get_node c p n); [|apply incl_refl].
  cbn [chks set_svcs set_chks set_nodes]. intros x Hx. apply filter_In in Hx. tauto.
Qed.
Lemma delete_check_chks_incl c p n i : incl (chks (delete_check c p n i)) (chks c).
Proof. unfold delete_check. cbn [chks set_chks]. intros x Hx. apply in_tdel in Hx. tauto. Qed.

Lemma deregister_chks_incl c d : incl (chks (deregister c d)) (chks c).
Proof.
  destruct d as [p n i|p n i|p n]; cbn [deregister].
  - destruct (seqb i ""); [apply delete_node_chks_incl | apply delete_service_chks_incl].
  - destruct (seqb i ""); [apply delete_node_chks_incl | apply delete_check_chks_incl].
  - apply delete_node_chks_incl.
Qed.

Lemma deregister_nodes_incl c d : incl (nodes (deregister c d)) (nodes c).
Proof.
  destruct d as [p n i|p n i|p n]; cbn [deregister].
  - destruct (seqb i ""); [apply delete_node_nodes_incl | rewrite delete_service_nodes; apply incl_refl].
  - destruct (seqb i ""); [apply delete_node_nodes_incl | apply incl_refl].
  - apply delete_node_nodes_incl.
Qed.

(* the key a deregistration aims at is free afterwards *)
Definition gone (d : dereq) (c : cat) : Prop :=
  match d with
  | DSvc p n i => i <> "" -> forall y, In y (svcs c) -> svc_key y <> (p, n, i)
  | DChk p n i => i <> "" -> forall x, In x (chks c) -> chk_key x <> (p, n, i)
  | DNode _ _ => True
  end.

Lemma gone_after c d : gone d (deregister c d).
Proof.
  destruct d as [p n i|p n i|p n]; cbn [gone deregister]; [| |exact I].
  - intros Hi y Hy. apply seqb_neq in Hi. rewrite Hi in Hy.
    unfold delete_service in Hy. destruct (get_svc c p n i) eqn:G.
    + cbn [svcs set_svcs set_chks] in Hy. apply in_tdel in Hy. tauto.
    + unfold get_svc in G. rewrite tget_none in G. apply G. exact Hy.
  - intros Hi x Hx. apply seqb_neq in Hi. rewrite Hi in Hx.
    unfold delete_check in Hx. cbn [chks set_chks] in Hx. apply in_tdel in Hx. tauto.
Qed.

Lemma gone_mono c d d' : gone d c -> gone d (deregister c d').
Proof.
  destruct d as [p n i|p n i|p n]; cbn [gone]; [| |auto].
  - intros H Hi y Hy. apply H; [exact Hi|]. apply deregister_svcs_incl in Hy. exact Hy.
  - intros H Hi x Hx. apply H; [exact Hi|]. apply deregister_chks_incl in Hx. exact Hx.
Qed.

(* what survives *)
Lemma svc_survives c d y :
  In y (svcs c) ->
  match d with
  | DSvc p n i => i <> "" /\ svc_key y <> (p, n, i)
  | DChk p n i => i <> ""
  | DNode p n => node_has_services c p n = false
  end -> In y (svcs (deregister c d)).
Proof.
  intros Hy. destruct d as [p n i|p n i|p n]; cbn [deregister].
  - intros [Hi Hk]. apply seqb_neq in Hi. rewrite Hi. unfold delete_service.
    destruct (get_svc c p n i); [|exact Hy]. cbn [svcs set_svcs set_chks]. apply in_tdel. auto.
  - intros Hi. apply seqb_neq in Hi. rewrite Hi. exact Hy.
  - intros Hn. unfold delete_node. unfold node_has_services in Hn.
    destruct (get_node c p n); [|exact Hy]. cbn [svcs set_svcs set_chks set_nodes].
    apply filter_In. split; [exact Hy|]. rewrite existsb_false_iff in Hn. rewrite (Hn y Hy). reflexivity.
Qed.

Lemma node_survives c d b :
  In b (nodes c) ->
  match d with
  | DSvc p n i => i <> ""
  | DChk p n i => i <> ""
  | DNode p n => node_key b <> (p, n, "")
  end -> In b (nodes (deregister c d)).
Proof.
  intros Hb. destruct d as [p n i|p n i|p n]; cbn [deregister].
  - intros Hi. apply seqb_neq in Hi. rewrite Hi, delete_service_nodes. exact Hb.
  - intros Hi. apply seqb_neq in Hi. rewrite Hi. exact Hb.
  - intros Hk. unfold delete_node. destruct (get_node c p n); [|exact Hb].
    cbn [nodes set_svcs set_chks set_nodes]. apply in_tdel. auto.
Qed.

Lemma chk_survives c d x :
  In x (chks c) ->
  match d with
  | DSvc p n i => i <> "" /\ ~ (c_peer x = p /\ c_node x = n /\ c_sid x = i)
  | DChk p n i => i <> "" /\ chk_key x <> (p, n, i)
  | DNode p n => ~ (c_peer x = p /\ c_node x = n)
  end -> In x (chks (deregister c d)).
Proof.
  intros Hx. destruct d as [p n i|p n i|p n]; cbn [deregister].
  - intros [Hi Hk]. apply seqb_neq in Hi. rewrite Hi. unfold delete_service.
    destruct (get_svc c p n i); [|exact Hx]. cbn [chks set_svcs set_chks]. apply filter_In. split; [exact Hx|].
    apply negb_true_iff. destruct (seqb (c_peer x) p && seqb (c_node x) n && seqb (c_sid x) i) eqn:E; [|reflexivity].
    apply andb_true_iff in E as [E E3]. apply andb_true_iff in E as [E1 E2]. apply seqb_eq in E1, E2, E3. tauto.
  - intros [Hi Hk]. apply seqb_neq in Hi. rewrite Hi. unfold delete_check. cbn [chks set_chks]. apply in_tdel. auto.
  - intros Hk. unfold delete_node. destruct (get_node c p n); [|exact Hx].
    cbn [chks set_svcs set_chks set_nodes]. apply filter_In. split; [exact Hx|].
    apply negb_true_iff. destruct (seqb (c_peer x) p && seqb (c_node x) n) eqn:E; [|reflexivity].
    apply andb_true_iff in E as [E1 E2]. apply seqb_eq in E1, E2. tauto.
Qed.

(* ------------------------------------------------------------------ the three loops *)

Definition phase2 (sh : shuffles) (p : string) (hs : hsnap) (stored : list inst) (s1 : hst) : hst :=
  let a := fold_left (stored_block p hs) stored (P2 s1 [] []) in
  let s2 := fold_left (fun s ck => do_dereg (DChk p (snd ck) (fst ck)) s) (sh_dnc sh (p2_dnc a)) (p2_st a) in
  fold_left (unused_block p) (sh_unused sh (p2_unused a)) s2.

Lemma handle_update_from_unfold sh s0 p sn export stored :
  h_err s0 = None -> check_service_nodes (h_cat s0) p sn = Ok stored ->
  let h := new_health_snapshot p (match export with Some l => l | None => [] end) in
  handle_update_from sh s0 p sn export =
  phase2 sh p h stored (fold_left (fun s x => node_block sh stored x s) (sh_nodes sh h) s0).
Proof. intros He Hc h. unfold handle_update_from. rewrite He, Hc. reflexivity. Qed.

Section P2.
  Variables (sh : shuffles) (p : string) (hs : hsnap) (stored : list inst).
  Hypothesis sh_ok : shuffles_ok sh.

  Definition i_n (i : inst) : string := n_name (i_node i).
  Definition i_sid (i : inst) : string := s_id (i_svc i).

  (* the stored instance is not in the snapshot *)
  Definition dropped (i : inst) : Prop :=
    find_ns hs (i_n i) = None \/ exists x, find_ns hs (i_n i) = Some x /\ find_ss x (i_sid i) = None.
  (* the stored instance is in the snapshot, its check k is not *)
  Definition stale (i : inst) (k : chk) : Prop :=
    In k (i_chks i) /\ exists x y, find_ns hs (i_n i) = Some x /\ find_ss x (i_sid i) = Some y /\ has_chk y (c_id k) = false.

  Section Inv.
    Variable P : hst -> Prop.
    Hypothesis P_dsvc : forall i s, In i stored -> dropped i -> P s -> P (do_dereg (DSvc p (i_n i) (i_sid i)) s).
    Hypothesis P_dchk : forall i k s, In i stored -> stale i k -> P s -> P (do_dereg (DChk p (c_node k) (c_id k)) s).
    Hypothesis P_dnode : forall i s, In i stored -> find_ns hs (i_n i) = None -> h_err s = None ->
                                     node_has_services (h_cat s) p (i_n i) = false -> P s -> P (do_dereg (DNode p (i_n i)) s).

    Definition inv_A (a : p2) : Prop :=
      P (p2_st a) /\
      (forall n, In n (p2_unused a) -> exists i, In i stored /\ i_n i = n /\ find_ns hs n = None) /\
      (forall ck, In ck (p2_dnc a) -> exists i k, In i stored /\ stale i k /\ ck = (c_id k, c_node k)).

    Lemma in_add_str' x y l : In x (add_str y l) -> x = y \/ In x l.
    Proof.
      unfold add_str. destruct (existsb (seqb y) l); [auto|]. rewrite in_app_iff. cbn. intuition.
    Qed.
    Lemma in_add_pair' x y l : In x (add_pair y l) -> x = y \/ In x l.
    Proof.
      unfold add_pair. destruct (existsb _ l); [auto|]. rewrite in_app_iff. cbn. intuition.
    Qed.

    Lemma stored_block_inv_A a i : In i stored -> inv_A a -> inv_A (stored_block p hs a i).
    Proof.
      intros Hi (HP & HU & HD). unfold stored_block. fold (i_n i) (i_sid i).
      destruct (find_ns hs (i_n i)) as [x|] eqn:Fn.
      2:{ split; [|split]; cbn [p2_st p2_unused p2_dnc]; [|intros n Hn|exact HD].
          - apply P_dsvc; auto. left. exact Fn.
          - apply in_add_str' in Hn as [->|Hn]; [exists i; auto | apply HU; exact Hn]. }
      destruct (find_ss x (i_sid i)) as [y|] eqn:Fs.
      2:{ split; [|split]; cbn [p2_st p2_unused p2_dnc]; [|exact HU|exact HD].
          apply P_dsvc; auto. right. exists x. auto. }
      (* the checks of a retained instance *)
      assert (G : forall ks a0, (forall k, In k ks -> In k (i_chks i)) -> inv_A a0 ->
                inv_A (fold_left (fun a k => if has_chk y (c_id k) then a
                                             else if seqb (c_sid k) ""
                                                  then P2 (p2_st a) (p2_unused a) (add_pair (c_id k, c_node k) (p2_dnc a))
                                                  else P2 (do_dereg (DChk p (c_node k) (c_id k)) (p2_st a)) (p2_unused a) (p2_dnc a))
                                 ks a0)).
      { induction ks as [|k ks IH]; intros a0 Hks Ha0; cbn [fold_left]; [exact Ha0|].
        apply IH; [intros k' Hk'; apply Hks; right; exact Hk'|].
        destruct Ha0 as (A & B & C).
        assert (Hstale : has_chk y (c_id k) = false -> stale i k).
        { intros Hh. split; [apply Hks; left; reflexivity|]. exists x, y. auto. }
        destruct (has_chk y (c_id k)) eqn:Hh; [split; [|split]; assumption|].
        destruct (seqb (c_sid k) ""); split; try split; cbn [p2_st p2_unused p2_dnc]; auto.
        - intros ck Hck. apply in_add_pair' in Hck as [->|Hck]; [exists i, k; auto | apply C; exact Hck].
        - eapply P_dchk; eauto. }
      apply G; [auto | split; [|split]; assumption].
    Qed.

    Lemma phase2_inv s1 : P s1 -> P (phase2 sh p hs stored s1).
    Proof.
      intros H1. unfold phase2.
      set (a := fold_left (stored_block p hs) stored (P2 s1 [] [])).
      assert (Ha : inv_A a).
      { subst a. assert (G : forall l a0, (forall i, In i l -> In i stored) -> inv_A a0 ->
                                           inv_A (fold_left (stored_block p hs) l a0)).
        { induction l as [|i l IH]; intros a0 Hl Ha0; cbn [fold_left]; [exact Ha0|].
          apply IH; [intros j Hj; apply Hl; right; exact Hj|]. apply stored_block_inv_A; [apply Hl; left; reflexivity|exact Ha0]. }
        apply G; [auto|]. split; [exact H1|]. split; [intros n []|intros ck []]. }
      destruct Ha as (A & B & C). destruct sh_ok as (_ & _ & _ & Hd & Hu & _).
      set (s2 := fold_left _ (sh_dnc sh (p2_dnc a)) (p2_st a)).
      assert (H2 : P s2).
      { subst s2. assert (G : forall l s, (forall ck, In ck l -> In ck (p2_dnc a)) -> P s ->
                    P (fold_left (fun s ck => do_dereg (DChk p (snd ck) (fst ck)) s) l s)).
        { induction l as [|ck l IH]; intros s Hl Hs; cbn [fold_left]; [exact Hs|].
          apply IH; [intros c' Hc'; apply Hl; right; exact Hc'|].
          destruct (C ck (Hl ck (or_introl eq_refl))) as (i & k & Hi & Hk & ->). cbn [fst snd].
          eapply P_dchk; eauto. }
        apply G; [|exact A]. intros ck Hck. apply (Permutation_in _ (Hd _)). exact Hck. }
      assert (G : forall l s, (forall n, In n l -> In n (p2_unused a)) -> P s -> P (fold_left (unused_block p) l s)).
      { induction l as [|n l IH]; intros s Hl Hs; cbn [fold_left]; [exact Hs|].
        apply IH; [intros n' Hn'; apply Hl; right; exact Hn'|].
        unfold unused_block. destruct (h_err s) eqn:He; [exact Hs|].
        destruct (node_has_services (h_cat s) p n) eqn:Hn; [exact Hs|].
        destruct (B n (Hl n (or_introl eq_refl))) as (i & Hi & <- & Hf). apply P_dnode; auto. }
      apply G; [|exact H2]. intros n Hn. apply (Permutation_in _ (Hu _)). exact Hn.
    Qed.
  End Inv.

  (* --- phase 2 never fails and only appends deregistrations --- *)
  Lemma phase2_err s1 : h_err s1 = None -> h_err (phase2 sh p hs stored s1) = None.
  Proof.
    apply (phase2_inv (fun s => h_err s = None)); intros; apply do_dereg_ok; assumption.
  Qed.

  (* --- the log is complete --- *)
  Definition logged (o : op) (s : hst) : Prop := h_err s = None /\ In o (h_ops s).

  Lemma logged_dereg o d s : logged o s -> logged o (do_dereg d s).
  Proof. intros [He Ho]. unfold do_dereg. rewrite He. split; [reflexivity | right; exact Ho]. Qed.

  Lemma logged_new d s : h_err s = None -> logged (ODereg d) (do_dereg d s).
  Proof. intros He. unfold do_dereg. rewrite He. split; [reflexivity | left; reflexivity]. Qed.

  Lemma stored_block_logged o a i : logged o (p2_st a) -> logged o (p2_st (stored_block p hs a i)).
  Proof.
    intros H. unfold stored_block.
    destruct (find_ns hs (n_name (i_node i))) as [x|]; [|apply logged_dereg; exact H].
    destruct (find_ss x (s_id (i_svc i))) as [y|]; [|apply logged_dereg; exact H].
    generalize dependent a. induction (i_chks i) as [|k ks IH]; intros a H; cbn [fold_left]; [exact H|].
    apply IH. destruct (has_chk y (c_id k)); [exact H|]. destruct (seqb (c_sid k) ""); [exact H|].
    apply logged_dereg. exact H.
  Qed.

  Lemma stored_blocks_logged o : forall l a, logged o (p2_st a) -> logged o (p2_st (fold_left (stored_block p hs) l a)).
  Proof.
    induction l as [|i l IH]; intros a H; cbn [fold_left]; [exact H|]. apply IH, stored_block_logged, H.
  Qed.

  Lemma stored_blocks_err : forall l a, h_err (p2_st a) = None -> h_err (p2_st (fold_left (stored_block p hs) l a)) = None.
  Proof.
    intros l a H. set (o := OReg (Reg (Node "" "" "" 0) None [])).
    assert (G : forall l a, h_err (p2_st a) = None -> h_err (p2_st (fold_left (stored_block p hs) l a)) = None).
    { clear. induction l as [|i l IH]; intros a H; cbn [fold_left]; [exact H|]. apply IH.
      unfold stored_block. destruct (find_ns hs (n_name (i_node i))) as [x|]; [|apply do_dereg_ok; exact H].
      destruct (find_ss x (s_id (i_svc i))) as [y|]; [|apply do_dereg_ok; exact H].
      generalize dependent a. induction (i_chks i) as [|k ks IHk]; intros a H; cbn [fold_left]; [exact H|].
      apply IHk. destruct (has_chk y (c_id k)); [exact H|]. destruct (seqb (c_sid k) ""); [exact H|].
      apply do_dereg_ok. exact H. }
    apply G. exact H.
  Qed.

  Lemma dnc_logged o : forall l s, logged o s -> logged o (fold_left (fun s ck => do_dereg (DChk p (snd ck) (fst ck)) s) l s).
  Proof. induction l as [|ck l IH]; intros s H; cbn [fold_left]; [exact H|]. apply IH, logged_dereg, H. Qed.

  Lemma unused_logged o : forall l s, logged o s -> logged o (fold_left (unused_block p) l s).
  Proof.
    induction l as [|n l IH]; intros s H; cbn [fold_left]; [exact H|]. apply IH.
    unfold unused_block. destruct H as [He Ho]. rewrite He.
    destruct (node_has_services (h_cat s) p n); [split; assumption|]. apply logged_dereg. split; assumption.
  Qed.

  Lemma phase2_logged o s1 : logged o s1 -> logged o (phase2 sh p hs stored s1).
  Proof.
    intros H. unfold phase2. apply unused_logged, dnc_logged, stored_blocks_logged. exact H.
  Qed.

  Lemma log_dsvc s1 i :
    h_err s1 = None -> In i stored -> dropped i ->
    In (ODereg (DSvc p (i_n i) (i_sid i))) (h_ops (phase2 sh p hs stored s1)).
  Proof.
    intros He Hi Hd. unfold phase2.
    apply unused_logged, dnc_logged.
    assert (G : forall l a, In i l -> h_err (p2_st a) = None ->
                            logged (ODereg (DSvc p (i_n i) (i_sid i))) (p2_st (fold_left (stored_block p hs) l a))).
    { induction l as [|j l IH]; intros a Hin Ha; [contradiction|]. cbn [fold_left].
      destruct Hin as [->|Hin].
      - apply stored_blocks_logged. unfold stored_block. fold (i_n i) (i_sid i).
        destruct Hd as [Hd|(x & Hx & Hd)].
        + rewrite Hd. cbn [p2_st]. apply logged_new. exact Ha.
        + rewrite Hx, Hd. cbn [p2_st]. apply logged_new. exact Ha.
      - apply IH; [exact Hin|]. apply (stored_blocks_err [j] a Ha). }
    apply G; auto.
  Qed.

  Lemma log_dchk s1 i k :
    h_err s1 = None -> In i stored -> stale i k ->
    In (ODereg (DChk p (c_node k) (c_id k))) (h_ops (phase2 sh p hs stored s1)).
  Proof.
    intros He Hi (Hk & x & y & Hx & Hy & Hh). unfold phase2.
    set (o := ODereg (DChk p (c_node k) (c_id k))).
    set (a := fold_left (stored_block p hs) stored (P2 s1 [] [])).
    (* after the first loop the call is logged, or the check waits in the list of node checks *)
    assert (Ha : h_err (p2_st a) = None /\ (logged o (p2_st a) \/ In (c_id k, c_node k) (p2_dnc a))).
    { subst a.
      assert (Hmono : forall l a0, In (c_id k, c_node k) (p2_dnc a0) -> In (c_id k, c_node k) (p2_dnc (fold_left (stored_block p hs) l a0))).
      { induction l as [|j l IH]; intros a0 H0; cbn [fold_left]; [exact H0|]. apply IH.
        unfold stored_block. destruct (find_ns hs (n_name (i_node j))) as [x'|]; [|exact H0].
        destruct (find_ss x' (s_id (i_svc j))) as [y'|]; [|exact H0].
        generalize dependent a0. induction (i_chks j) as [|k' ks IHk]; intros a0 H0; cbn [fold_left]; [exact H0|].
        apply IHk. destruct (has_chk y' (c_id k')); [exact H0|]. destruct (seqb (c_sid k') ""); [|exact H0].
        cbn [p2_dnc]. unfold add_pair. destruct (existsb _ (p2_dnc a0)); [exact H0|]. apply in_app_iff. left. exact H0. }
      assert (G : forall l a0, In i l -> h_err (p2_st a0) = None ->
                  logged o (p2_st (fold_left (stored_block p hs) l a0)) \/
                  In (c_id k, c_node k) (p2_dnc (fold_left (stored_block p hs) l a0))).
      { induction l as [|j l IH]; intros a0 Hin Ha0; [contradiction|]. cbn [fold_left].
        destruct Hin as [->|Hin]; [|apply IH; [exact Hin | apply (stored_blocks_err [j] a0 Ha0)]].
        assert (B : logged o (p2_st (stored_block p hs a0 i)) \/ In (c_id k, c_node k) (p2_dnc (stored_block p hs a0 i))).
        { unfold stored_block. fold (i_n i) (i_sid i). rewrite Hx, Hy.
          assert (Gk : forall ks a1, In k ks -> h_err (p2_st a1) = None ->
                    let r := fold_left (fun a k => if has_chk y (c_id k) then a
                                             else if seqb (c_sid k) ""
                                                  then P2 (p2_st a) (p2_unused a) (add_pair (c_id k, c_node k) (p2_dnc a))
                                                  else P2 (do_dereg (DChk p (c_node k) (c_id k)) (p2_st a)) (p2_unused a) (p2_dnc a)) ks a1 in
                    logged o (p2_st r) \/ In (c_id k, c_node k) (p2_dnc r)).
          { assert (Gm : forall ks a1, (logged o (p2_st a1) \/ In (c_id k, c_node k) (p2_dnc a1)) ->
                    let r := fold_left (fun a k => if has_chk y (c_id k) then a
                                             else if seqb (c_sid k) ""
                                                  then P2 (p2_st a) (p2_unused a) (add_pair (c_id k, c_node k) (p2_dnc a))
                                                  else P2 (do_dereg (DChk p (c_node k) (c_id k)) (p2_st a)) (p2_unused a) (p2_dnc a)) ks a1 in
                    logged o (p2_st r) \/ In (c_id k, c_node k) (p2_dnc r)).
            { induction ks as [|k' ks IHk]; intros a1 H1; cbn [fold_left]; [exact H1|]. apply IHk.
              destruct (has_chk y (c_id k')); [exact H1|]. destruct (seqb (c_sid k') ""); cbn [p2_st p2_dnc].
              - destruct H1 as [H1|H1]; [left; exact H1|right]. unfold add_pair.
                destruct (existsb _ (p2_dnc a1)); [exact H1|]. apply in_app_iff. left. exact H1.
              - destruct H1 as [H1|H1]; [left; apply logged_dereg; exact H1 | right; exact H1]. }
            induction ks as [|k' ks IHk]; intros a1 Hin1 Ha1; [contradiction|]. cbn [fold_left].
            destruct Hin1 as [->|Hin1].
            - apply Gm. rewrite Hh. destruct (seqb (c_sid k) "") eqn:Es; cbn [p2_st p2_dnc].
              + right. unfold add_pair. destruct (existsb _ (p2_dnc a1)) eqn:Ex.
                * apply existsb_exists in Ex as (z & Hz & E). apply andb_true_iff in E as [E1 E2].
                  apply seqb_eq in E1, E2. cbn [fst snd] in E1, E2. destruct z as [z1 z2]. cbn in *. subst. exact Hz.
                * apply in_app_iff. right. left. reflexivity.
              + left. apply logged_new. exact Ha1.
            - apply IHk; [exact Hin1|].
              destruct (has_chk y (c_id k')); [exact Ha1|]. destruct (seqb (c_sid k') ""); cbn [p2_st]; [exact Ha1|].
              apply do_dereg_ok. exact Ha1. }
          apply Gk; auto. }
        destruct B as [B|B]; [left; apply stored_blocks_logged; exact B | right; apply Hmono; exact B]. }
      split; [apply stored_blocks_err; exact He|]. apply G; auto. }
    destruct Ha as (Hea & [Ha|Ha]).
    - apply unused_logged, dnc_logged. exact Ha.
    - apply unused_logged. destruct sh_ok as (_ & _ & _ & Hd & _).
      assert (Hin : In (c_id k, c_node k) (sh_dnc sh (p2_dnc a))).
      { apply (Permutation_in _ (Permutation_sym (Hd _))). exact Ha. }
      assert (G : forall l s, In (c_id k, c_node k) l -> h_err s = None ->
                              logged o (fold_left (fun s ck => do_dereg (DChk p (snd ck) (fst ck)) s) l s)).
      { induction l as [|ck l IH]; intros s Hl Hs; [contradiction|]. cbn [fold_left].
        destruct Hl as [->|Hl].
        - apply dnc_logged. cbn [fst snd]. apply logged_new. exact Hs.
        - apply IH; [exact Hl|]. apply do_dereg_ok. exact Hs. }
      apply G; auto.
  Qed.

  (* --- whatever a logged deregistration aimed at is gone at the end --- *)
  Definition all_gone (ops0 : list op) (s : hst) : Prop :=
    forall d, In (ODereg d) (h_ops s) -> In (ODereg d) ops0 \/ gone d (h_cat s).

  Lemma all_gone_dereg ops0 d s : all_gone ops0 s -> all_gone ops0 (do_dereg d s).
  Proof.
    intros H. unfold do_dereg. destruct (h_err s); [exact H|]. intros d' [E|Hd']; cbn [h_cat].
    - injection E as <-. right. apply gone_after.
    - destruct (H d' Hd') as [A|A]; [left; exact A | right; apply gone_mono; exact A].
  Qed.

  Lemma phase2_gone s1 : all_gone (h_ops s1) (phase2 sh p hs stored s1).
  Proof.
    apply (phase2_inv (all_gone (h_ops s1))); try (intros; apply all_gone_dereg; assumption).
    intros d Hd. left. exact Hd.
  Qed.

  (* --- tables only shrink, keys stay unique --- *)
  Lemma phase2_incl s1 :
    let s' := phase2 sh p hs stored s1 in
    incl (nodes (h_cat s')) (nodes (h_cat s1)) /\ incl (svcs (h_cat s')) (svcs (h_cat s1))
    /\ incl (chks (h_cat s')) (chks (h_cat s1)) /\ (wf (h_cat s1) -> wf (h_cat s')).
  Proof.
    apply (phase2_inv (fun s => incl (nodes (h_cat s)) (nodes (h_cat s1)) /\ incl (svcs (h_cat s)) (svcs (h_cat s1))
                                /\ incl (chks (h_cat s)) (chks (h_cat s1)) /\ (wf (h_cat s1) -> wf (h_cat s)))).
    1-3: intros; match goal with H : _ /\ _ |- _ => destruct H as (A & B & C & W) end;
         unfold do_dereg; destruct (h_err s); [split; [exact A|split; [exact B|split; [exact C|exact W]]]|];
         cbn [h_cat]; (split; [|split; [|split]]);
         [eapply incl_tran; [apply deregister_nodes_incl|exact A]
         |eapply incl_tran; [apply deregister_svcs_incl|exact B]
         |eapply incl_tran; [apply deregister_chks_incl|exact C]
         |intros W1; apply wf_deregister, W, W1].
    split; [apply incl_refl|]. split; [apply incl_refl|]. split; [apply incl_refl|]. auto.
  Qed.
End P2.
