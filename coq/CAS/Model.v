(* C10 -- conditional writes on the tables the core store model (Store/Model.v) does not cover:
   config entries, CA configuration, CA roots, the composite roots+configuration, autopilot
   configuration, ACL tokens (batch set with the CAS option) and feature gates, together with the
   FSM layer (agent/consul/fsm/commands_ce.go) that turns each outcome into the command result.

   Shaped like the Go code: the same comparisons in the same order, the same early returns, the
   same result values (a boolean, an error, or nil).  Where the code is wrong the model is wrong
   the same way (see [token_set_txn]).  std++ style.  No proofs in this file.

   Sources: agent/consul/state/{config_entry,connect_ca,autopilot,acl,feature_gate}.go.
   Abstractions: payloads the property does not look inside are numbers (protocol / meta value /
   route service for config entries, provider for the CA configuration, MaxTrailingLogs for
   autopilot, the description for tokens, the single policy setting / registry digest for feature
   gates); the config-entry graph validation is a parameter [graph_ok] of the model (instantiated
   in Run/C10.v with the router-needs-an-http-protocol rule the generated entries can trigger). *)
From stdpp Require Import gmap strings.
From RecordUpdate Require Import RecordSet.
From Coq Require Import NArith.
Import RecordSetNotations.
Local Open Scope N_scope.

(* ---------- errors and results ---------- *)
Inductive err :=
| EGraph            (* validateProposedConfigEntryInGraph rejected the proposed table *)
| ECAConfigIndex    (* "ModifyIndex did not match existing" *)
| EActiveRoots      (* "there must be exactly one active CA" *)
| EActiveReplaced   (* "the active CA root %q is replaced by a later entry with the same ID" *)
| ERootID           (* ErrMissingCARootID *)
| ENoSecret         (* ErrMissingACLTokenSecret *)
| ENoAccessor       (* ErrMissingACLTokenAccessor *)
| ESecretImmutable  (* "The ACL Token SecretID field is immutable" *)
| EFGNoStatus       (* "feature-gate update requires status" *)
| EFGNoPolicy.      (* "feature-gate status cannot exist without policy" *)

(* what the FSM command returns *)
Inductive res := RNil | RBool (b : bool) | RErr (e : err).

#[global] Instance err_eq_dec : EqDecision err. Proof. solve_decision. Defined.
#[global] Instance res_eq_dec : EqDecision res. Proof. solve_decision. Defined.

(* ---------- rows ---------- *)
Definition ckey := (string * string)%type.     (* (kind, name) *)
Record centry := CE { ce_content : N; ce_status : N; ce_create : N; ce_modify : N }.
Record caconf := CAConf { cc_cluster : string; cc_provider : N; cc_create : N; cc_modify : N }.
Record root := Root { r_active : bool; r_create : N; r_modify : N }.
Record apconf := AP { ap_payload : N; ap_create : N; ap_modify : N }.
Record token := Tok { t_secret : string; t_descr : N; t_create : N; t_modify : N }.
Record fgpol := FGP { fp_payload : N; fp_create : N; fp_modify : N }.
Record fgstat := FGS { fs_payload : N; fs_polidx : N; fs_create : N; fs_modify : N }.

#[global] Instance centry_eq_dec : EqDecision centry. Proof. solve_decision. Defined.
#[global] Instance caconf_eq_dec : EqDecision caconf. Proof. solve_decision. Defined.
#[global] Instance root_eq_dec : EqDecision root. Proof. solve_decision. Defined.
#[global] Instance apconf_eq_dec : EqDecision apconf. Proof. solve_decision. Defined.
#[global] Instance token_eq_dec : EqDecision token. Proof. solve_decision. Defined.
#[global] Instance fgpol_eq_dec : EqDecision fgpol. Proof. solve_decision. Defined.
#[global] Instance fgstat_eq_dec : EqDecision fgstat. Proof. solve_decision. Defined.

Record st := St {
  cfg : gmap ckey centry;          (* table config-entries *)
  ca_config : option caconf;       (* singleton connect-ca-config *)
  ca_roots : gmap string root;     (* table connect-ca-roots, by root ID *)
  autopilot : option apconf;       (* singleton autopilot-config *)
  tokens : gmap string token;      (* table acl-tokens, by accessor ID *)
  fg_policy : option fgpol;        (* singleton feature-gate-policy *)
  fg_status : option fgstat;       (* singleton feature-gate-status *)
  index : gmap string N            (* the index table rows these verbs write *)
}.
#[global] Instance eta_st : Settable _ :=
  settable! St <cfg; ca_config; ca_roots; autopilot; tokens; fg_policy; fg_status; index>.
#[global] Instance st_eq_dec : EqDecision st. Proof. solve_decision. Defined.

Definition st0 : st := St ∅ None ∅ None ∅ None None ∅.

Definition ix_config : string := "config-entries".
Definition ix_roots : string := "connect-ca-roots".
Definition ix_tokens : string := "acl-tokens".

(* maxIndexTxn: 0 when the row is missing *)
Definition max_index (k : string) (s : st) : N := default 0 (index s !! k).
(* tx.Insert(tableIndex, &IndexEntry{k, idx}) *)
Definition index_set (k : string) (idx : N) (s : st) : st := s <| index ::= <[k := idx]> |>.
(* indexUpdateMaxTxn *)
Definition index_max (k : string) (idx : N) (s : st) : st :=
  match index s !! k with
  | Some cur => if idx <=? cur then s else index_set k idx s   (* "if idx <= cur.Value { return nil }" *)
  | None => index_set k idx s
  end.

(* The outcome of a function that runs inside a write transaction and may decline to write:
   [Applied s'] it wrote (the caller commits s'), [Mismatch] the expected index did not match
   and nothing was written, [Failed e] an error (the caller aborts the transaction). *)
Inductive attempt := Applied (s' : st) | Mismatch | Failed (e : err).

(* ================= config entries ================= *)
Definition tcp_route : string := "tcp-route".
(* ControlledConfigEntry: of the generated kinds only tcp-route carries a Status *)
Definition controlled (k : ckey) : bool := bool_decide (k.1 = tcp_route).

Section ConfigEntries.
  (* validateProposedConfigEntryInGraph evaluated on the table as it would be after the change
     ("overrides"), for the chains the entry named by the key takes part in *)
  Variable graph_ok : gmap ckey centry -> ckey -> bool.

  (* ensureConfigEntryTxn + insertConfigEntryWithTxn (kinds without derived tables) *)
  Definition ensure_cfg (idx : N) (status_update : bool) (k : ckey) (content status : N) (s : st) : attempt :=
    let ex := cfg s !! k in
    let create := match ex with Some x => ce_create x | None => idx end in
    let stat :=
        if negb (controlled k) then 0
        else if status_update then status
        else match ex with Some x => ce_status x | None => 0 (* DefaultStatus *) end in
    let e := CE content stat create idx in
    if graph_ok (<[k := e]> (cfg s)) k
    then Applied (index_max ix_config idx (s <| cfg ::= <[k := e]> |>))
    else Failed EGraph.

  (* deleteConfigEntryTxn *)
  Definition delete_cfg (idx : N) (k : ckey) (s : st) : attempt :=
    match cfg s !! k with
    | None => Applied s
    | Some _ =>
      if graph_ok (delete k (cfg s)) k
      then Applied (index_set ix_config idx (s <| cfg ::= delete k |>))
      else Failed EGraph
    end.

  (* EnsureConfigEntryCAS / EnsureConfigEntryWithStatusCAS up to the commit: the three refusals *)
  Definition ensure_cfg_cas (idx cidx : N) (status_update : bool) (k : ckey) (content status : N) (s : st) : attempt :=
    let ex := cfg s !! k in
    if bool_decide (cidx = 0) && bool_decide (is_Some ex) then Mismatch
    else if negb (bool_decide (cidx = 0)) && negb (bool_decide (is_Some ex)) then Mismatch
    else match ex with
         | Some x => if negb (bool_decide (cidx = 0)) && negb (bool_decide (cidx = ce_modify x)) then Mismatch
                     else ensure_cfg idx status_update k content status s
         | None => ensure_cfg idx status_update k content status s
         end.

  (* DeleteConfigEntryCAS *)
  Definition delete_cfg_cas (idx cidx : N) (k : ckey) (s : st) : attempt :=
    match cfg s !! k with
    | None => Mismatch
    | Some x => if negb (bool_decide (ce_modify x = cidx)) then Mismatch else delete_cfg idx k s
    end.
End ConfigEntries.

(* ================= CA configuration ================= *)
(* caCheckConfigIndexTxn: nil (true) unless (ok && e.ModifyIndex != cidx) || (!ok && cidx != 0) *)
Definition ca_check_index (cidx : N) (s : st) : bool :=
  match ca_config s with
  | Some e => bool_decide (cc_modify e = cidx)
  | None => bool_decide (cidx = 0)
  end.

(* caSetConfigTxn: the cluster ID cannot be erased *)
Definition ca_set_config_txn (idx : N) (cluster : string) (provider : N) (s : st) : st :=
  match ca_config s with
  | Some e =>
    s <| ca_config := Some (CAConf (if bool_decide (cluster = "") then cc_cluster e else cluster)
                                   provider (cc_create e) idx) |>
  | None => s <| ca_config := Some (CAConf cluster provider idx idx) |>
  end.

(* CACheckAndSetConfig: a mismatch is an ERROR, not false *)
Definition ca_check_and_set_config (idx cidx : N) (cluster : string) (provider : N) (s : st) : attempt :=
  if ca_check_index cidx s then Applied (ca_set_config_txn idx cluster provider s)
  else Failed ECAConfigIndex.

(* ================= CA roots ================= *)
Definition rootreq := (string * bool)%type.    (* (ID, Active) *)

Definition count_active (rs : list rootreq) : nat := List.length (filter (fun r => r.2 = true) rs).

(* rows are keyed by ID: the active root must be the last entry with its ID, or the stored set
   would have no active root (the loop over "last[r.ID] != r") *)
Fixpoint active_overwritten (rs : list rootreq) : bool :=
  match rs with
  | [] => false
  | r :: rest => (r.2 && existsb (fun r' => bool_decide (r'.1 = r.1)) rest) || active_overwritten rest
  end.

(* "Insert all": a later root with the same ID replaces an earlier one; CreateIndex was looked up in
   the table as it was before "Delete all" *)
Definition insert_roots (idx : N) (old : gmap string root) (rs : list rootreq) : gmap string root :=
  foldl (fun m r => <[r.1 := Root r.2 (match old !! r.1 with Some x => r_create x | None => idx end) idx]> m) ∅ rs.

(* caRootCheckAndSetTxn *)
Definition ca_root_check_and_set (idx cidx : N) (rs : list rootreq) (s : st) : attempt :=
  if negb (bool_decide (count_active rs = 1%nat)) then Failed EActiveRoots
  else if active_overwritten rs then Failed EActiveReplaced
  else if negb (bool_decide (max_index ix_roots s = cidx)) then Mismatch
  else if existsb (fun r => bool_decide (r.1 = "")) rs then Failed ERootID
  else Applied (index_set ix_roots idx (s <| ca_roots := insert_roots idx (ca_roots s) rs |>)).

(* CARootsAndConfigCAS: one transaction; the configuration's expected index is the request's
   Config.ModifyIndex (zero = "there is none") *)
Definition ca_roots_and_config_cas (idx cidx : N) (rs : list rootreq) (cluster : string) (provider cfgidx : N)
           (s : st) : attempt :=
  match ca_root_check_and_set idx cidx rs s with
  | Applied s1 =>
    if ca_check_index cfgidx s1 then Applied (ca_set_config_txn idx cluster provider s1)
    else Failed ECAConfigIndex
  | Mismatch => Mismatch
  | Failed e => Failed e
  end.

(* ================= autopilot ================= *)
(* autopilotSetConfigTxn *)
Definition autopilot_set_txn (idx payload : N) (s : st) : st :=
  s <| autopilot := Some (AP payload (match autopilot s with Some e => ap_create e | None => idx end) idx) |>.

(* AutopilotCASConfig: "if (ok && e.ModifyIndex != cidx) || (!ok && cidx != 0) { return false, nil }"
   -- expected index zero creates the configuration when none is stored *)
Definition autopilot_cas (idx cidx payload : N) (s : st) : attempt :=
  match autopilot s with
  | None => if negb (bool_decide (cidx = 0)) then Mismatch else Applied (autopilot_set_txn idx payload s)
  | Some e => if negb (bool_decide (ap_modify e = cidx)) then Mismatch else Applied (autopilot_set_txn idx payload s)
  end.

(* ================= ACL tokens ================= *)
Record tokreq := TokReq { tq_accessor : string; tq_secret : string; tq_descr : N; tq_index : N }.

(* aclTokenSetTxn (no links, no auth method, no identities).  With opts.CAS a mismatch is
   "return nil": the caller cannot tell it from a write. *)
Definition token_set_txn (idx : N) (cas : bool) (q : tokreq) (s : st) : attempt :=
  if bool_decide (tq_secret q = "") then Failed ENoSecret
  else if bool_decide (tq_accessor q = "") then Failed ENoAccessor
  else
    let orig := tokens s !! tq_accessor q in
    let refused :=
        cas && ((bool_decide (tq_index q = 0) && bool_decide (is_Some orig))
                || (negb (bool_decide (tq_index q = 0)) && negb (bool_decide (is_Some orig)))
                || match orig with
                   | Some o => negb (bool_decide (tq_index q = 0)) && negb (bool_decide (tq_index q = t_modify o))
                   | None => false
                   end) in
    if refused then Mismatch
    else match orig with
         | Some o =>
           if negb (bool_decide (tq_secret q = t_secret o)) then Failed ESecretImmutable
           else Applied (index_max ix_tokens idx
                           (s <| tokens ::= <[tq_accessor q := Tok (tq_secret q) (tq_descr q) (t_create o) idx]> |>))
         | None =>
           Applied (index_max ix_tokens idx
                      (s <| tokens ::= <[tq_accessor q := Tok (tq_secret q) (tq_descr q) idx idx]> |>))
         end.

(* ACLTokenBatchSet: every token in one transaction; the first error aborts it; a token that was
   refused by the CAS check is silently skipped; the result is nil *)
Fixpoint token_batch_set (idx : N) (cas : bool) (qs : list tokreq) (s : st) : attempt :=
  match qs with
  | [] => Applied s
  | q :: rest =>
    match token_set_txn idx cas q s with
    | Applied s' => token_batch_set idx cas rest s'
    | Mismatch => token_batch_set idx cas rest s
    | Failed e => Failed e
    end
  end.

(* ACLTokenBatchDelete *)
Definition token_batch_delete (idx : N) (accs : list string) (s : st) : st :=
  foldl (fun s' a => match tokens s' !! a with
                     | None => s'
                     | Some _ => index_max ix_tokens idx (s' <| tokens ::= delete a |>)
                     end) s accs.

(* ================= feature gates ================= *)
(* FeatureGateUpdate: both expected indexes must match (zero = the singleton is absent) *)
Definition feature_gate_update (idx : N) (policy status : option N) (epi esi : N) (s : st) : attempt :=
  match status with
  | None => Failed EFGNoStatus
  | Some sp =>
    let pi := match fg_policy s with Some p => fp_modify p | None => 0 end in
    let si := match fg_status s with Some t => fs_modify t | None => 0 end in
    if negb (bool_decide (pi = epi)) || negb (bool_decide (si = esi)) then Mismatch
    else
      let put_status (polidx : N) (s1 : st) : st :=
          s1 <| fg_status := Some (FGS sp polidx (match fg_status s with Some t => fs_create t | None => idx end) idx) |> in
      match policy with
      | Some pp =>
        let s1 := s <| fg_policy := Some (FGP pp (match fg_policy s with Some p => fp_create p | None => idx end) idx) |> in
        Applied (put_status idx s1)
      | None =>
        match fg_policy s with
        | None => Failed EFGNoPolicy
        | Some _ => Applied (put_status epi s)
        end
      end
  end.

(* ================= the FSM layer ================= *)
Inductive cmd :=
| CfgUpsert (k : ckey) (content : N)                         (* ConfigEntryUpsert *)
| CfgUpsertCAS (k : ckey) (content cidx : N)                 (* ConfigEntryUpsertCAS *)
| CfgUpsertStatusCAS (k : ckey) (content status cidx : N)    (* ConfigEntryUpsertWithStatusCAS *)
| CfgDelete (k : ckey)                                       (* ConfigEntryDelete *)
| CfgDeleteCAS (k : ckey) (cidx : N)                         (* ConfigEntryDeleteCAS *)
| CASetConfig (cluster : string) (provider cidx : N)         (* CAOpSetConfig: cidx = Config.ModifyIndex *)
| CASetRoots (cidx : N) (rs : list rootreq)                  (* CAOpSetRoots *)
| CASetRootsAndConfig (cidx : N) (rs : list rootreq) (cluster : string) (provider cfgidx : N)
| Autopilot (cas : bool) (payload cidx : N)                  (* AutopilotSetConfigRequest *)
| TokenSet (cas : bool) (qs : list tokreq)                   (* ACLTokenBatchSetRequest *)
| TokenDelete (accs : list string)
| FeatureGate (policy status : option N) (epi esi : N)
(* the RPC endpoints ConfigEntry.Apply / ConfigEntry.Delete (agent/consul/config_endpoint.go) as far as
   they decide the reply: shouldSkipOperation, then the FSM command.  [status] is the Status field
   of the submitted entry (compared by reflect.DeepEqual, ignored by the plain upsert). *)
| RpcCfgApply (cas : bool) (k : ckey) (content status cidx : N)
| RpcCfgDelete (cas : bool) (k : ckey) (cidx : N).

(* shouldSkipOperation as repaired by fbf8c12.  An upsert is skipped when the stored entry equals the
   submitted one (reflect.DeepEqual once the submitted RaftIndex is overwritten with the stored one);
   an upsert-CAS additionally only when its expected index IS the stored ModifyIndex -- with any other
   index the state store has to refuse it.
   (For kinds with a Status the comparison also sees the stored Hash field, which a plain upsert that
   inherited the status leaves stale; that is not modelled and the harness generates this command for
   kinds without a Status only.) *)
Definition rpc_skip_upsert (cas : bool) (cidx : N) (k : ckey) (content status : N) (s : st) : bool :=
  match cfg s !! k with
  | Some x => (negb cas || bool_decide (cidx = ce_modify x))
              && bool_decide (ce_content x = content) && bool_decide (ce_status x = if controlled k then status else 0)
  | None => false
  end.
(* Delete: "return (currentEntry == nil), nil"; DeleteCAS: "return false, nil" (the store answers) *)
Definition rpc_skip_delete (cas : bool) (k : ckey) (s : st) : bool :=
  negb cas && negb (bool_decide (is_Some (cfg s !! k))).

(* a store method of the shape "(bool, error)": commit what was written and report it *)
Definition bool_result (a : attempt) (s : st) : st * res :=
  match a with
  | Applied s' => (s', RBool true)
  | Mismatch => (s, RBool false)
  | Failed e => (s, RErr e)
  end.

(* a store method of the shape "error": nil unless it failed; a declined write is invisible *)
Definition nil_result (a : attempt) (s : st) : st * res :=
  match a with
  | Applied s' => (s', RNil)
  | Mismatch => (s, RNil)
  | Failed e => (s, RErr e)
  end.

Section Apply.
  Variable graph_ok : gmap ckey centry -> ckey -> bool.

  Definition apply (idx : N) (c : cmd) (s : st) : st * res :=
    match c with
    | CfgUpsert k content =>
      (* "if err := EnsureConfigEntry(...); err != nil { return err }; return true" *)
      match ensure_cfg graph_ok idx false k content 0 s with
      | Applied s' => (s', RBool true)
      | Mismatch => (s, RBool true)
      | Failed e => (s, RErr e)
      end
    | CfgUpsertCAS k content cidx => bool_result (ensure_cfg_cas graph_ok idx cidx false k content 0 s) s
    | CfgUpsertStatusCAS k content status cidx => bool_result (ensure_cfg_cas graph_ok idx cidx true k content status s) s
    | CfgDelete k => nil_result (delete_cfg graph_ok idx k s) s
    | CfgDeleteCAS k cidx => bool_result (delete_cfg_cas graph_ok idx cidx k s) s
    | CASetConfig cluster provider cidx =>
      (* "if req.Config.ModifyIndex != 0 { CACheckAndSetConfig } else { CASetConfig }" *)
      if negb (bool_decide (cidx = 0)) then bool_result (ca_check_and_set_config idx cidx cluster provider s) s
      else (ca_set_config_txn idx cluster provider s, RNil)
    | CASetRoots cidx rs => bool_result (ca_root_check_and_set idx cidx rs s) s
    | CASetRootsAndConfig cidx rs cluster provider cfgidx =>
      bool_result (ca_roots_and_config_cas idx cidx rs cluster provider cfgidx s) s
    | Autopilot cas payload cidx =>
      if cas then bool_result (autopilot_cas idx cidx payload s) s
      else (autopilot_set_txn idx payload s, RNil)
    | TokenSet cas qs => nil_result (token_batch_set idx cas qs s) s
    | TokenDelete accs => (token_batch_delete idx accs s, RNil)
    | FeatureGate policy status epi esi => bool_result (feature_gate_update idx policy status epi esi s) s
    | RpcCfgApply cas k content status cidx =>
      (* "if skip { *reply = true; return nil }" -- no Raft command is issued *)
      if rpc_skip_upsert cas cidx k content status s then (s, RBool true)
      else if cas then bool_result (ensure_cfg_cas graph_ok idx cidx false k content 0 s) s
      else match ensure_cfg graph_ok idx false k content 0 s with
           | Applied s' => (s', RBool true)
           | Mismatch => (s, RBool true)
           | Failed e => (s, RErr e)
           end
    | RpcCfgDelete cas k cidx =>
      (* "if skip { reply.Deleted = true; return nil }" *)
      if rpc_skip_delete cas k s then (s, RBool true)
      else if cas then bool_result (delete_cfg_cas graph_ok idx cidx k s) s
      else match delete_cfg graph_ok idx k s with
           | Applied s' => (s', RBool true)
           | Mismatch => (s, RBool true)
           | Failed e => (s, RErr e)
           end
    end.

  Fixpoint run (log : list (N * cmd)) (s : st) : list (st * res) :=
    match log with
    | [] => []
    | (idx, c) :: rest => let r := apply idx c s in r :: run rest r.1
    end.
End Apply.
