(* C10 -- the schema every conditional command is an instance of.

   A conditional write is described by five functions of the state and the command:
     cw_post     the state after the FSM applied the command
     cw_ok       the command result is the success value (true / nil / no transaction error)
     cw_matched  SPECIFICATION: the caller's expected index is the entity's current one
     cw_valid    the unconditional write of the same payload would be accepted
     cw_write    the state the unconditional write produces
   [honest] says: success is reported iff the index matched (and the write is acceptable); a
   reported success is exactly the unconditional write; anything else leaves the state -- all
   tables, all index rows -- untouched.  "Applied" is the observable notion: the state changed. *)
From stdpp Require Import base decidable.

Section Schema.
  Context {S C : Type} `{EqDecision S}.

  Record cond_write := CW {
    cw_post : S -> C -> S;
    cw_ok : S -> C -> bool;
    cw_matched : S -> C -> bool;
    cw_valid : S -> C -> bool;
    cw_write : S -> C -> S
  }.

  Definition applied (W : cond_write) (s : S) (c : C) : Prop := cw_post W s c ≠ s.
  Definition unchanged (W : cond_write) (s : S) (c : C) : Prop := cw_post W s c = s.
  (* the unconditional write would be visible (it is not a rewrite of identical content) *)
  Definition effective (W : cond_write) (s : S) (c : C) : Prop := cw_write W s c ≠ s.

  (* honest on the states/commands satisfying P *)
  Record honest_on (P : S -> C -> Prop) (W : cond_write) : Prop := {
    h_reported : forall s c, P s c -> (cw_ok W s c = true <-> cw_matched W s c = true /\ cw_valid W s c = true);
    h_effect : forall s c, P s c -> cw_ok W s c = true -> cw_post W s c = cw_write W s c;
    h_unchanged : forall s c, P s c -> cw_ok W s c = false -> cw_post W s c = s
  }.
  Definition honest := honest_on (fun _ _ => True).

  Lemma applied_matched P W s c :
    honest_on P W -> P s c -> applied W s c -> cw_matched W s c = true /\ cw_valid W s c = true.
  Proof.
    intros H Hp Ha. apply (h_reported P W H s c Hp).
    destruct (cw_ok W s c) eqn:E; [reflexivity|].
    exfalso. apply Ha. apply (h_unchanged P W H s c Hp E).
  Qed.

  (* matched <-> applied *)
  Lemma matched_iff_applied P W s c :
    honest_on P W -> P s c -> effective W s c ->
    (cw_matched W s c = true /\ cw_valid W s c = true <-> applied W s c).
  Proof.
    intros H Hp He. split; [|apply (applied_matched P W s c H Hp)].
    intros Hm. apply (h_reported P W H s c Hp) in Hm.
    unfold applied. rewrite (h_effect P W H s c Hp Hm). exact He.
  Qed.

  (* reported <-> applied *)
  Lemma reported_iff_applied P W s c :
    honest_on P W -> P s c -> effective W s c -> (cw_ok W s c = true <-> applied W s c).
  Proof.
    intros H Hp He. rewrite (h_reported P W H s c Hp). apply (matched_iff_applied P W s c H Hp He).
  Qed.

  (* not applied -> nothing changed; not reported -> nothing changed *)
  Lemma not_applied_unchanged W s c : ~ applied W s c -> unchanged W s c.
  Proof. unfold applied, unchanged. intros Hn. destruct (decide (cw_post W s c = s)); [assumption|contradiction]. Qed.

  Lemma not_reported_unchanged P W s c : honest_on P W -> P s c -> cw_ok W s c = false -> unchanged W s c.
  Proof. intros H Hp. apply (h_unchanged P W H s c Hp). Qed.

  Lemma not_matched_unchanged P W s c : honest_on P W -> P s c -> cw_matched W s c = false -> unchanged W s c.
  Proof.
    intros H Hp Hm. apply (h_unchanged P W H s c Hp).
    destruct (cw_ok W s c) eqn:E; [|reflexivity].
    apply (h_reported P W H s c Hp) in E as [E _]. congruence.
  Qed.

  (* a reported success is never a partial write *)
  Lemma all_or_nothing P W s c : honest_on P W -> P s c -> cw_post W s c = s \/ cw_post W s c = cw_write W s c.
  Proof.
    intros H Hp. destruct (cw_ok W s c) eqn:E.
    - right. apply (h_effect P W H s c Hp E).
    - left. apply (h_unchanged P W H s c Hp E).
  Qed.

  Lemma honest_weaken (P Q : S -> C -> Prop) W : (forall s c, Q s c -> P s c) -> honest_on P W -> honest_on Q W.
  Proof. intros HPQ [H1 H2 H3]. split; intros s c Hq; [apply H1|apply H2|apply H3]; apply HPQ, Hq. Qed.
  (* everything honesty gives, in one statement *)
  Lemma schema (P : S -> C -> Prop) (W : cond_write) :
    honest_on P W -> forall s c, P s c ->
    (effective W s c -> (cw_matched W s c = true /\ cw_valid W s c = true <-> applied W s c)) /\
    (effective W s c -> (cw_ok W s c = true <-> applied W s c)) /\
    (applied W s c -> cw_matched W s c = true /\ cw_valid W s c = true) /\
    (~ applied W s c -> cw_post W s c = s) /\
    (cw_matched W s c = false -> cw_post W s c = s) /\
    (cw_post W s c = s \/ cw_post W s c = cw_write W s c).
  Proof.
    intros H s c Hp. split; [|split; [|split; [|split; [|split]]]].
    - intros He. apply (matched_iff_applied P W s c H Hp He).
    - intros He. apply (reported_iff_applied P W s c H Hp He).
    - apply (applied_matched P W s c H Hp).
    - apply (not_applied_unchanged W s c).
    - apply (not_matched_unchanged P W s c H Hp).
    - apply (all_or_nothing P W s c H Hp).
  Qed.
End Schema.

Arguments cond_write : clear implicits.
