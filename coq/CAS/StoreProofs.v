(* C10 -- the conditional verbs of the core store model (Store/Model.v, tied to the code by the
   correspondence checks of C03-C05 and of C10): KV set-cas / delete-cas as FSM commands and as
   transaction verbs, and the transaction verbs node / service / check cas and delete-cas, as
   instances of the schema of CAS/Spec.v.  For ALL states and requests. *)
From stdpp Require Import gmap strings.
From RecordUpdate Require Import RecordSet.
From Coq Require Import NArith.
From Verif Require Import Store.Model Store.Theorems CAS.Spec.
Import RecordSetNotations.
Local Open Scope N_scope.

#[global] Instance st_eq_dec : EqDecision st. Proof. solve_decision. Defined.

Definition is_ctrue (r : cres) : bool := match r with CBool true => true | _ => false end.
Definition txn_ok (r : cres) : bool := match r with CTxn _ [] => true | _ => false end.
Definition r_ok {A} (r : result A) : bool := match r with Ok _ => true | Err _ _ => false end.
Definition r_state (r : result st) (s : st) : st := match r with Ok s' => s' | Err _ _ => s end.

Ltac bd :=
  repeat (cbn in *; try congruence; try tauto;
          match goal with
          | H : bool_decide _ = true |- _ => apply bool_decide_eq_true_1 in H
          | H : bool_decide _ = false |- _ => apply bool_decide_eq_false_1 in H
          | |- context [bool_decide ?P] => destruct (bool_decide P) eqn:?
          | H : context [bool_decide ?P] |- _ => destruct (bool_decide P) eqn:?
          | |- _ /\ _ => split
          | |- _ <-> _ => split; intros
          | H : _ /\ _ |- _ => destruct H
          end).

(* ================= KV, the FSM commands ================= *)
Record kvc := KVC { kc_idx : N; kc_req : kvreq }.

(* set-cas: expected index zero = "must not exist" (Store.Model.cas_ok is that specification) *)
Definition W_kv_cas : cond_write st kvc :=
  CW (fun s c => (apply_kvs (kc_idx c) VCAS (kc_req c) s).1)
     (fun s c => is_ctrue (apply_kvs (kc_idx c) VCAS (kc_req c) s).2)
     (fun s c => cas_ok kv_modify (kvs s !! q_key (kc_req c)) (q_index (kc_req c)))
     (fun _ _ => true)
     (fun s c => (kvs_set (kc_idx c) (q_key (kc_req c)) (ent_of (kc_req c)) false s).1).

Theorem kv_cas_honest : honest W_kv_cas.
Proof.
  split; intros s [idx q] _; unfold W_kv_cas, apply_kvs, kvs_set_cas, cas_ok; cbn;
    destruct (kvs s !! q_key q) as [x|] eqn:Ek; bd;
    try (destruct (kvs_set _ _ _ _ _); bd).
Qed.

(* delete-cas: the variant upstream's tests pin -- an absent key is a success *)
Definition W_kv_delete_cas : cond_write st kvc :=
  CW (fun s c => (apply_kvs (kc_idx c) VDeleteCAS (kc_req c) s).1)
     (fun s c => is_ctrue (apply_kvs (kc_idx c) VDeleteCAS (kc_req c) s).2)
     (fun s c => match kvs s !! q_key (kc_req c) with
                 | Some e => bool_decide (kv_modify e = q_index (kc_req c))
                 | None => true
                 end)
     (fun _ _ => true)
     (fun s c => kvs_delete (kc_idx c) (q_key (kc_req c)) s).

Theorem kv_delete_cas_honest : honest W_kv_delete_cas.
Proof.
  split; intros s [idx q] _; unfold W_kv_delete_cas, apply_kvs, kvs_delete_cas, kvs_delete; cbn;
    destruct (kvs s !! q_key q) as [x|] eqn:Ek; bd; rewrite ?Ek; bd.
Qed.

Lemma kvs_delete_gone idx k s : kvs (kvs_delete idx k s) !! k = None.
Proof.
  unfold kvs_delete. destruct (kvs s !! k) eqn:E; [|assumption]. cbn. apply lookup_delete.
Qed.

(* reported_ok <-> key absent afterwards /\ (was present -> matched) *)
Theorem kv_delete_cas_variant s c :
  cw_ok W_kv_delete_cas s c = true <->
  kvs (cw_post W_kv_delete_cas s c) !! q_key (kc_req c) = None /\
  (forall e, kvs s !! q_key (kc_req c) = Some e -> kv_modify e = q_index (kc_req c)).
Proof.
  destruct c as [idx q]. unfold W_kv_delete_cas, apply_kvs, kvs_delete_cas; cbn.
  destruct (kvs s !! q_key q) as [x|] eqn:Ek; cbn.
  - destruct (bool_decide (kv_modify x = q_index q)) eqn:E; cbn.
    + apply bool_decide_eq_true_1 in E. split; [|reflexivity]. intros _. split; [apply kvs_delete_gone|].
      intros e He. congruence.
    + apply bool_decide_eq_false_1 in E. split; [discriminate|]. intros [_ H]. exfalso. apply E, H. reflexivity.
  - split; [|reflexivity]. intros _. split; [assumption|discriminate].
Qed.

(* ================= transactions ================= *)
Lemma seq_ops_dispatch idx ops : forall i s s' rs,
  seq_ops idx ops s = Ok (s', rs) -> txn_dispatch idx i ops s = (s', rs, []).
Proof.
  induction ops as [|op ops IH]; intros i s s' rs; cbn.
  - intros H; injection H as <- <-; reflexivity.
  - destruct (txn_op idx op s) as [[s1 r]|e p]; [|discriminate].
    destruct (seq_ops idx ops s1) as [[s2 rs2]|e p] eqn:E; [|discriminate].
    intros H; injection H as <- <-. rewrite (IH (S i) s1 s2 rs2 E). reflexivity.
Qed.

(* a transaction is committed iff every operation, run in sequence, succeeds *)
Theorem txn_ok_iff_seq idx ops s :
  txn_ok (txn_rw idx ops s).2 = true <-> r_ok (seq_ops idx ops s) = true.
Proof.
  split.
  - unfold txn_rw. destruct (txn_dispatch idx 0 ops s) as [[s1 rs] es] eqn:E.
    destruct es; cbn; [|discriminate]. intros _.
    rewrite (txn_dispatch_seq idx ops 0%nat s s1 rs E). reflexivity.
  - destruct (seq_ops idx ops s) as [[s1 rs]|e p] eqn:E; [|discriminate]. intros _.
    unfold txn_rw. rewrite (seq_ops_dispatch idx ops 0%nat s s1 rs E). reflexivity.
Qed.

Theorem txn_post idx ops s :
  (txn_rw idx ops s).1 = match seq_ops idx ops s with Ok (s', _) => s' | Err _ _ => s end.
Proof.
  destruct (seq_ops idx ops s) as [[s1 rs]|e p] eqn:E.
  - unfold txn_rw. rewrite (seq_ops_dispatch idx ops 0%nat s s1 rs E). reflexivity.
  - destruct (txn_ok (txn_rw idx ops s).2) eqn:Eok.
    + apply txn_ok_iff_seq in Eok. rewrite E in Eok. discriminate.
    + unfold txn_rw in *. destruct (txn_dispatch idx 0 ops s) as [[s1 rs] es]. destruct es; [discriminate|reflexivity].
Qed.

Lemma seq_ops_app idx ops1 : forall ops2 s,
  seq_ops idx (ops1 ++ ops2) s =
  match seq_ops idx ops1 s with
  | Ok (s1, r1) => match seq_ops idx ops2 s1 with Ok (s2, r2) => Ok (s2, r1 ++ r2) | Err e p => Err e p end
  | Err e p => Err e p
  end.
Proof.
  induction ops1 as [|op ops1 IH]; intros ops2 s; cbn.
  - destruct (seq_ops idx ops2 s) as [[s2 r2]|e p]; reflexivity.
  - destruct (txn_op idx op s) as [[s1 r]|e p]; [|reflexivity].
    rewrite IH. destruct (seq_ops idx ops1 s1) as [[s2 r2]|e p]; [|reflexivity].
    destruct (seq_ops idx ops2 s2) as [[s3 r3]|e p]; [|reflexivity]. rewrite app_assoc. reflexivity.
Qed.

(* A conditional operation anywhere in a transaction: if it fails in the state its predecessors
   produced, the whole transaction reports failure and NOTHING of it is applied -- not the
   operations before it, not those after it. *)
Theorem txn_failed_op_aborts idx ops1 op ops2 s s1 r1 :
  seq_ops idx ops1 s = Ok (s1, r1) -> r_ok (txn_op idx op s1) = false ->
  txn_ok (txn_rw idx (ops1 ++ op :: ops2) s).2 = false /\ (txn_rw idx (ops1 ++ op :: ops2) s).1 = s.
Proof.
  intros H1 Hop.
  assert (Hseq : r_ok (seq_ops idx (ops1 ++ op :: ops2) s) = false).
  { rewrite seq_ops_app, H1. cbn. destruct (txn_op idx op s1) as [[s2 r]|e p]; [discriminate|reflexivity]. }
  split.
  - destruct (txn_ok _) eqn:E; [|reflexivity]. apply txn_ok_iff_seq in E. congruence.
  - rewrite txn_post. destruct (seq_ops idx (ops1 ++ op :: ops2) s) as [[? ?]|? ?]; [discriminate|reflexivity].
Qed.

(* ---------- one conditional verb per transaction: the schema ---------- *)
Record txc := TXC { tx_idx : N; tx_op : txnop }.
Definition txn1 (c : txc) (s : st) : st * cres := txn_rw (tx_idx c) [tx_op c] s.

Lemma txn1_eq c s :
  txn1 c s = match txn_op (tx_idx c) (tx_op c) s with
             | Ok (s', r) => (s', CTxn (r ++ []) [])
             | Err e _ => (s, CTxn [] [(0%nat, e)])
             end.
Proof. unfold txn1, txn_rw. cbn. destruct (txn_op _ _ _) as [[s' r]|e p]; reflexivity. Qed.

(* the verbs, as predicates on the operation *)
Definition op_matched (op : txnop) (s : st) : bool :=
  match op with
  | TKV VCAS q => cas_ok kv_modify (kvs s !! q_key q) (q_index q)
  | TKV VDeleteCAS q => match kvs s !! q_key q with Some e => bool_decide (kv_modify e = q_index q) | None => true end
  (* the guard verbs make the whole transaction conditional; they write nothing themselves *)
  | TKV VCheckIndex q => match kvs s !! q_key q with Some e => bool_decide (kv_modify e = q_index q) | None => false end
  | TKV VCheckNotExists q => match kvs s !! q_key q with Some _ => false | None => true end
  | TKV VCheckSession q => match kvs s !! q_key q with Some e => bool_decide (kv_session e = q_session q) | None => false end
  | TNode CCAS nd _ _ cidx => cas_ok n_modify (nodes s !! nd) cidx
  | TNode CDeleteCAS nd _ _ cidx => match nodes s !! nd with Some x => bool_decide (n_modify x = cidx) | None => false end
  | TService CCAS nd svc _ _ cidx => cas_ok sv_modify (services s !! (nd, svc)) cidx
  | TService CDeleteCAS nd svc _ _ cidx =>
    match services s !! (nd, svc) with Some x => bool_decide (sv_modify x = cidx) | None => false end
  | TCheck CCAS c => cas_ok c_modify (checks s !! (cr_node c, cr_id c)) (cr_index c)
  | TCheck CDeleteCAS c =>
    match checks s !! (cr_node c, cr_id c) with Some x => bool_decide (c_modify x = cr_index c) | None => false end
  | _ => true
  end.

(* the unconditional verb each conditional one guards *)
Definition op_write (idx : N) (op : txnop) (s : st) : result st :=
  match op with
  | TKV VCAS q => Ok (kvs_set idx (q_key q) (ent_of q) false s).1
  | TKV VDeleteCAS q => Ok (kvs_delete idx (q_key q) s)
  | TNode CCAS nd id addr _ => ensure_node idx nd id addr s
  | TNode CDeleteCAS nd _ _ _ => delete_node idx nd s
  | TService CCAS nd svc name port _ => ensure_service idx nd svc name port s
  | TService CDeleteCAS nd svc _ _ _ => delete_service idx nd svc s
  | TCheck CCAS c => ensure_check idx (cr_node c) (cr_id c) (check_of c) s
  | TCheck CDeleteCAS c => delete_check idx (cr_node c) (cr_id c) s
  | _ => Ok s
  end.

Definition is_cond (op : txnop) : bool :=
  match op with
  | TKV VCAS _ | TKV VDeleteCAS _ | TKV VCheckIndex _ | TKV VCheckNotExists _ | TKV VCheckSession _
  | TNode CCAS _ _ _ _ | TNode CDeleteCAS _ _ _ _
  | TService CCAS _ _ _ _ _ | TService CDeleteCAS _ _ _ _ _ | TCheck CCAS _ | TCheck CDeleteCAS _ => true
  | _ => false
  end.

Definition is_guard (op : txnop) : bool :=
  match op with TKV VCheckIndex _ | TKV VCheckNotExists _ | TKV VCheckSession _ => true | _ => false end.
(* the error a mismatch is reported with *)
Definition mismatch_err (op : txnop) : err := if is_guard op then EGuard else EStale.

(* the heart: a conditional verb succeeds iff it matched and its write succeeded, and then its
   state is the write's state; it fails with "stale" exactly on a mismatch *)
Lemma cond_op_spec idx op s :
  is_cond op = true ->
  match txn_op idx op s with
  | Ok (s', _) => op_matched op s = true /\ op_write idx op s = Ok s'
  | Err e _ => (op_matched op s = false /\ e = mismatch_err op) \/ (op_matched op s = true /\ r_ok (op_write idx op s) = false)
  end.
Proof.
  destruct op as [v q|v nd id addr cidx|v nd svc name port cidx|v c|sid]; try discriminate;
    destruct v; try discriminate; intros _; cbn [txn_op txn_kv txn_node txn_service txn_check op_matched op_write mismatch_err is_guard].
  - (* kv delete-cas *)
    unfold kvs_delete_cas. destruct (kvs s !! q_key q) as [x|] eqn:E; cbn.
    + destruct (bool_decide (kv_modify x = q_index q)); cbn; [split; reflexivity|left; split; reflexivity].
    + split; [reflexivity|]. unfold kvs_delete. rewrite E. reflexivity.
  - (* kv cas *)
    unfold kvs_set_cas, cas_ok. cbn [kv_modify ent_of].
    destruct (kvs s !! q_key q) as [x|] eqn:E; cbn;
      destruct (bool_decide (q_index q = 0)) eqn:E0; cbn;
      try (left; split; reflexivity);
      try (destruct (bool_decide (q_index q = kv_modify x)); cbn; [|left; split; reflexivity]);
      destruct (kvs_set idx (q_key q) (ent_of q) false s) as [s1 e1]; cbn; split; reflexivity.
  - (* kv check-session *)
    destruct (kvs s !! q_key q) as [x|]; [|left; split; reflexivity].
    destruct (bool_decide (kv_session x = q_session q)); [split; reflexivity|left; split; reflexivity].
  - (* kv check-index *)
    destruct (kvs s !! q_key q) as [x|]; [|left; split; reflexivity].
    destruct (bool_decide (kv_modify x = q_index q)); [split; reflexivity|left; split; reflexivity].
  - (* kv check-not-exists *)
    destruct (kvs s !! q_key q) as [x|]; [left; split; reflexivity|split; reflexivity].
  - (* node cas *)
    destruct (cas_ok n_modify (nodes s !! nd) cidx); [|left; split; reflexivity].
    destruct (ensure_node idx nd id addr s) as [s1|e p]; cbn; [|right; split; reflexivity].
    destruct (if bool_decide (id = "") then _ else _) as [[nm n]|]; cbn; split; reflexivity.
  - (* node delete-cas *)
    destruct (nodes s !! nd) as [x|]; [|left; split; reflexivity].
    destruct (bool_decide (n_modify x = cidx)); [|left; split; reflexivity].
    destruct (delete_node idx nd s) as [s1|e p]; cbn; [split; reflexivity|right; split; reflexivity].
  - (* service cas *)
    destruct (cas_ok sv_modify (services s !! (nd, svc)) cidx); [|left; split; reflexivity].
    destruct (ensure_service idx nd svc name port s) as [s1|e p]; cbn; [|right; split; reflexivity].
    destruct (services s1 !! (nd, svc)); cbn; split; reflexivity.
  - (* service delete-cas *)
    destruct (services s !! (nd, svc)) as [x|]; [|left; split; reflexivity].
    destruct (bool_decide (sv_modify x = cidx)); [|left; split; reflexivity].
    destruct (delete_service idx nd svc s) as [s1|e p]; cbn; [split; reflexivity|right; split; reflexivity].
  - (* check cas *)
    destruct (cas_ok c_modify (checks s !! (cr_node c, cr_id c)) (cr_index c)); [|left; split; reflexivity].
    destruct (ensure_check idx (cr_node c) (cr_id c) (check_of c) s) as [s1|e p]; cbn; [|right; split; reflexivity].
    destruct (checks s1 !! (cr_node c, cr_id c)); cbn; split; reflexivity.
  - (* check delete-cas *)
    destruct (checks s !! (cr_node c, cr_id c)) as [x|]; [|left; split; reflexivity].
    destruct (bool_decide (c_modify x = cr_index c)); [|left; split; reflexivity].
    destruct (delete_check idx (cr_node c) (cr_id c) s) as [s1|e p]; cbn; [split; reflexivity|right; split; reflexivity].
Qed.

Definition W_txn : cond_write st txc :=
  CW (fun s c => (txn1 c s).1)
     (fun s c => txn_ok (txn1 c s).2)
     (fun s c => op_matched (tx_op c) s)
     (fun s c => r_ok (op_write (tx_idx c) (tx_op c) s))
     (fun s c => r_state (op_write (tx_idx c) (tx_op c) s) s).

(* one theorem for the eight conditional transaction verbs *)
Theorem txn_cond_honest : honest_on (fun _ c => is_cond (tx_op c) = true) W_txn.
Proof.
  split; intros s [idx op] Hc; cbn in Hc; unfold W_txn; cbn [cw_post cw_ok cw_matched cw_valid cw_write tx_idx tx_op];
    rewrite txn1_eq; cbn [tx_idx tx_op]; pose proof (cond_op_spec idx op s Hc) as H;
    destruct (txn_op idx op s) as [[s' r]|e p]; cbn.
  - destruct H as [Hm Hw]. rewrite Hm, Hw. cbn. tauto.
  - destruct H as [[Hm _]|[Hm Hw]]; rewrite Hm; [|rewrite Hw]; split; try discriminate; intros [? ?]; discriminate.
  - destruct H as [_ Hw]. rewrite Hw. reflexivity.
  - discriminate.
  - discriminate.
  - reflexivity.
Qed.

(* a mismatch is reported as the "stale" (guard verbs: "guard failed") error of that operation *)
Theorem txn_cond_mismatch_is_stale s c :
  is_cond (tx_op c) = true -> op_matched (tx_op c) s = false ->
  txn1 c s = (s, CTxn [] [(0%nat, mismatch_err (tx_op c))]).
Proof.
  destruct c as [idx op]. cbn. intros Hc Hm. rewrite txn1_eq. cbn.
  pose proof (cond_op_spec idx op s Hc) as H. destruct (txn_op idx op s) as [[s' r]|e p].
  - destruct H; congruence.
  - destruct H as [[_ ->]|[H _]]; [reflexivity|congruence].
Qed.

(* and anywhere inside a larger transaction *)
Theorem txn_cond_mismatch_aborts idx ops1 op ops2 s s1 r1 :
  seq_ops idx ops1 s = Ok (s1, r1) -> is_cond op = true -> op_matched op s1 = false ->
  txn_ok (txn_rw idx (ops1 ++ op :: ops2) s).2 = false /\ (txn_rw idx (ops1 ++ op :: ops2) s).1 = s.
Proof.
  intros H1 Hc Hm. apply (txn_failed_op_aborts idx ops1 op ops2 s s1 r1 H1).
  pose proof (cond_op_spec idx op s1 Hc) as H. destruct (txn_op idx op s1) as [[s' r]|e p]; [|reflexivity].
  destruct H; congruence.
Qed.

(* the success direction, for transactions of any length: a transaction is reported committed iff
   every operation succeeds when run in sequence (each on the state its predecessors produced), and
   then its state is that sequential composition; otherwise the state is untouched.  With
   [cond_op_spec]: every conditional operation of a committed transaction matched in ITS
   intermediate state. *)
Theorem txn_all_parts_or_none idx ops s :
  match seq_ops idx ops s with
  | Ok (s', _) => txn_ok (txn_rw idx ops s).2 = true /\ (txn_rw idx ops s).1 = s'
  | Err _ _ => txn_ok (txn_rw idx ops s).2 = false /\ (txn_rw idx ops s).1 = s
  end.
Proof.
  pose proof (txn_ok_iff_seq idx ops s) as Hok. pose proof (txn_post idx ops s) as Hpost.
  destruct (seq_ops idx ops s) as [[s' r]|e p]; cbn in *; split; try assumption.
  - apply Hok. reflexivity.
  - destruct (txn_ok _); [|reflexivity]. destruct Hok as [Hok _]. discriminate (Hok eq_refl).
Qed.

Theorem txn_committed_cond_op_matched idx ops1 op ops2 s s1 r1 :
  seq_ops idx ops1 s = Ok (s1, r1) -> is_cond op = true ->
  txn_ok (txn_rw idx (ops1 ++ op :: ops2) s).2 = true ->
  op_matched op s1 = true /\ r_ok (op_write idx op s1) = true.
Proof.
  intros H1 Hc Hok. apply txn_ok_iff_seq in Hok. rewrite seq_ops_app, H1 in Hok. cbn in Hok.
  pose proof (cond_op_spec idx op s1 Hc) as H. destruct (txn_op idx op s1) as [[s2 r]|e p]; [|discriminate].
  destruct H as [Hm Hw]. rewrite Hw. split; [assumption|reflexivity].
Qed.

(* ---------- visibility of the simple writes ---------- *)
Theorem kv_cas_effective s c :
  (forall x, kvs s !! q_key (kc_req c) = Some x ->
             kv_same x (KV (q_value (kc_req c)) (q_flags (kc_req c)) (kv_session x) (q_lock (kc_req c)) (kv_create x) 0) = false) ->
  effective W_kv_cas s c.
Proof.
  destruct c as [idx q]. unfold effective, W_kv_cas, kvs_set; cbn. intros Hd.
  destruct (kvs s !! q_key q) as [x|] eqn:E.
  - specialize (Hd x eq_refl). rewrite (kv_same_irrel x _ _ _ _ _ _ (kv_create x) 0). rewrite Hd. cbn.
    intros Heq. apply (f_equal (fun t => kvs t !! q_key q)) in Heq. cbn in Heq. rewrite lookup_insert, E in Heq.
    injection Heq as Heq. rewrite <- Heq in Hd. cbn in Hd.
    unfold kv_same in Hd. cbn in Hd. repeat rewrite bool_decide_eq_true_2 in Hd by reflexivity. discriminate.
  - cbn. intros Heq. apply (f_equal (fun t => kvs t !! q_key q)) in Heq. cbn in Heq. rewrite lookup_insert, E in Heq. discriminate.
Qed.

Theorem kv_delete_cas_effective s c : is_Some (kvs s !! q_key (kc_req c)) -> effective W_kv_delete_cas s c.
Proof.
  destruct c as [idx q]. unfold effective, W_kv_delete_cas; cbn. intros [x Hx] Heq.
  pose proof (kvs_delete_gone idx (q_key q) s) as Hg. rewrite Heq in Hg. congruence.
Qed.

(* ---------- non-vacuity: concrete states on which every case of the schema occurs ---------- *)
Definition ex_log : list (N * cmd) :=
  [ (2, Register "n1" "id1" 1 false (Some ("s1", "web", 80)) [CheckReq "n1" "serfHealth" 0 "" false "" 0 0; CheckReq "n1" "c1" 1 "" false "" 0 0]);
    (3, KVS VSet (KVReq "a" [1] 0 "" 0 0)) ].
Definition ex_state : st := (run ex_log st0).1.

Example ex_node_cas_matched :
  let c := TXC 7 (TNode CCAS "n1" "id1" 9 2) in
  cw_ok W_txn ex_state c = true /\ effective W_txn ex_state c /\ applied W_txn ex_state c.
Proof.
  cbv zeta. split; [vm_compute; reflexivity|]. split; intros H.
  - apply (f_equal (fun t => n_addr <$> nodes t !! "n1")) in H. vm_compute in H. discriminate.
  - apply (f_equal (fun t => n_addr <$> nodes t !! "n1")) in H. vm_compute in H. discriminate.
Qed.

Example ex_node_cas_stale :
  let c := TXC 7 (TNode CCAS "n1" "id1" 9 1) in
  txn1 c ex_state = (ex_state, CTxn [] [(0%nat, EStale)]).
Proof. apply txn_cond_mismatch_is_stale; vm_compute; reflexivity. Qed.

(* the conditional verb is NOT first: [set a; cas a <index before the set>] -- the cas sees the set's
   write, so the old index is stale, and nothing of the transaction (the set included) survives *)
Example ex_txn_cond_not_first :
  let ops1 := [TKV VSet (KVReq "a" [7] 0 "" 0 0)] in
  let op := TKV VCAS (KVReq "a" [8] 0 "" 3 0) in
  (exists s1 r1, seq_ops 7 ops1 ex_state = Ok (s1, r1) /\ op_matched op s1 = false /\ op_matched op ex_state = true) /\
  txn_ok (txn_rw 7 (ops1 ++ op :: [TKV VSet (KVReq "t" [9] 0 "" 0 0)]) ex_state).2 = false /\
  (txn_rw 7 (ops1 ++ op :: [TKV VSet (KVReq "t" [9] 0 "" 0 0)]) ex_state).1 = ex_state.
Proof.
  cbv zeta. split; [eexists; eexists; split; [vm_compute; reflexivity|split; vm_compute; reflexivity]|].
  split; vm_compute; reflexivity.
Qed.

(* a failing guard verb after a matching cas: nothing applied *)
Example ex_txn_guard_after_cas :
  let ops := [TKV VCAS (KVReq "a" [8] 0 "" 3 0); TKV VCheckIndex (KVReq "t" [] 0 "" 5 0)] in
  (txn_rw 7 ops ex_state).2 = CTxn [] [(1%nat, EGuard)] /\ (txn_rw 7 ops ex_state).1 = ex_state.
Proof. cbv zeta. split; vm_compute; reflexivity. Qed.

(* a matching index whose write is rejected (another ID for the name of a healthy node): an error,
   not "stale", and nothing applied -- the case repaired by commit 0a9dcef *)
Example ex_node_cas_rejected :
  let c := TXC 7 (TNode CCAS "n1" "id2" 9 2) in
  cw_matched W_txn ex_state c = true /\ cw_valid W_txn ex_state c = false /\
  (txn1 c ex_state).2 = CTxn [] [(0%nat, ESimilarName)] /\ cw_post W_txn ex_state c = ex_state.
Proof.
  cbv zeta. repeat split; vm_compute; reflexivity.
Qed.

Example ex_check_cas_rejected :
  let c := TXC 7 (TCheck CCAS (CheckReq "n1" "c1" 1 "nosvc" false "" 5 2)) in
  cw_matched W_txn ex_state c = true /\ (txn1 c ex_state).2 = CTxn [] [(0%nat, EMissingService)] /\
  cw_post W_txn ex_state c = ex_state.
Proof.
  cbv zeta. repeat split; vm_compute; reflexivity.
Qed.
