(* C10 -- concrete states and requests meeting the hypotheses of the theorems (non-vacuity). *)
From stdpp Require Import gmap strings.
From Coq Require Import NArith.
From Verif Require Store.Model Store.Theorems.
From Verif Require Import CAS.Spec CAS.Model CAS.Proofs CAS.StoreProofs.
Local Open Scope N_scope.

(* ---------- non-vacuity of the hypotheses ---------- *)
(* a reachable, bounded, non-empty state: a config entry, a CA configuration, roots, an autopilot
   configuration, a token and feature gates, written by a log with increasing indexes *)
Definition ex_log10 : list (N * cmd) :=
  [ (2, CfgUpsert ("service-defaults", "web") 1); (3, CASetConfig "c1" 1 0); (4, CASetRoots 0 [("r1", true)]);
    (6, Autopilot false 1 0); (7, TokenSet false [TokReq "t1" "s1" 1 0]); (9, FeatureGate (Some 1) (Some 1) 0 0) ].
Definition ex_state10 : st := final (fun _ _ => true) ex_log10 st0.

Example example_bounded : increasing 0 ex_log10 /\ bounded 9 ex_state10 /\ is_Some (autopilot ex_state10).
Proof.
  split; [cbn; lia|]. split; [|vm_compute; eexists; reflexivity].
  apply (reachable_bounded (fun _ _ => true) ex_log10 0 st0 (bounded_st0 0)). cbn; lia.
Qed.

(* on it: a matching upsert is reported and applied, a stale one is neither, for config entries ... *)
Example example_cfg :
  let W := W_cfg_upsert (fun _ _ => true) in
  let good := UReq 12 ("service-defaults", "web") 3 0 2 false in
  let stale := UReq 12 ("service-defaults", "web") 3 0 1 false in
  effective W ex_state10 good /\ cw_ok W ex_state10 good = true /\ applied W ex_state10 good /\
  cw_ok W ex_state10 stale = false /\ cw_post W ex_state10 stale = ex_state10.
Proof.
  cbv zeta. repeat split; try (vm_compute; reflexivity);
    intros H; apply (f_equal (fun t => ce_modify <$> cfg t !! ("service-defaults", "web"))) in H; vm_compute in H; discriminate.
Qed.

(* ... the composite with a matching roots index and a stale configuration index changes nothing ... *)
Example example_composite :
  let c := RCReq 12 4 [("r2", true)] "c1" 2 1 in
  cw_ok W_roots_config ex_state10 c = false /\ cw_post W_roots_config ex_state10 c = ex_state10 /\
  cw_ok W_roots_config ex_state10 (RCReq 12 4 [("r2", true)] "c1" 2 3) = true.
Proof. cbv zeta. repeat split; vm_compute; reflexivity. Qed.

(* ... and the hypotheses of the partial theorems are met by non-trivial requests *)
Example example_hypotheses :
  well_formed (tk_req tok_witness_cmd) /\ is_Some (tokens tok_witness_state !! "t1") /\
  is_cond (tx_op (TXC 7 (Store.Model.TNode Store.Model.CCAS "n1" "id1" 9 2))) = true /\
  cw_ok W_txn ex_state (TXC 7 (Store.Model.TNode Store.Model.CCAS "n1" "id1" 9 2)) = true /\
  effective W_txn ex_state (TXC 7 (Store.Model.TNode Store.Model.CCAS "n1" "id1" 9 2)).
Proof.
  split; [split; discriminate|]. split; [vm_compute; eexists; reflexivity|]. split; [reflexivity|].
  destruct ex_node_cas_matched as (H1 & H2 & _). split; assumption.
Qed.

