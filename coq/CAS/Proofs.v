(* C10 -- every conditional command of CAS/Model.v as an instance of the schema of CAS/Spec.v,
   at the FSM layer (what a client of the command sees), for ALL states and requests. *)
From stdpp Require Import gmap strings.
From RecordUpdate Require Import RecordSet.
From Coq Require Import NArith.
From Verif Require Import CAS.Model CAS.Spec.
Import RecordSetNotations.
Local Open Scope N_scope.

(* ---------- vocabulary ---------- *)
Definition att_state (a : attempt) (s : st) : st := match a with Applied s' => s' | _ => s end.
Definition att_ok (a : attempt) : bool := match a with Applied _ => true | _ => false end.
Definition is_true (r : res) : bool := match r with RBool true => true | _ => false end.
Definition is_nil (r : res) : bool := match r with RNil => true | _ => false end.

(* SPECIFICATION of "the expected index e matches": zero means "must not exist", anything else
   "must exist with exactly this modify index" (the documented set-if-not-exists convention) *)
Definition expect {A} (modify : A -> N) (ex : option A) (e : N) : bool :=
  match ex with
  | Some x => negb (bool_decide (e = 0)) && bool_decide (e = modify x)
  | None => bool_decide (e = 0)
  end.
(* the index a reader is shown: zero for an absent entity *)
Definition cur_index {A} (modify : A -> N) (ex : option A) : N :=
  match ex with Some x => modify x | None => 0 end.

(* the two notions agree on every state a Raft log can produce (stored rows carry an index >= 1) *)
Lemma expect_is_equality {A} (modify : A -> N) ex e :
  (forall x, ex = Some x -> modify x ≠ 0) -> expect modify ex e = bool_decide (cur_index modify ex = e).
Proof.
  intros Hpos. destruct ex as [x|]; cbn.
  - specialize (Hpos x eq_refl). repeat case_bool_decide; cbn; congruence.
  - repeat case_bool_decide; congruence.
Qed.

Ltac crush :=
  repeat (cbn in *; try congruence; try tauto;
          match goal with
          | H : bool_decide _ = true |- _ => apply bool_decide_eq_true_1 in H
          | H : bool_decide _ = false |- _ => apply bool_decide_eq_false_1 in H
          | |- context [bool_decide ?P] => destruct (bool_decide P) eqn:?
          | H : context [bool_decide ?P] |- _ => destruct (bool_decide P) eqn:?
          | |- _ /\ _ => split
          | |- _ <-> _ => split; intros
          | H : _ /\ _ |- _ => destruct H
          | H : is_Some None |- _ => destruct H; discriminate
          | H : ¬ is_Some (Some _) |- _ => exfalso; apply H; eexists; reflexivity
          end).

Ltac dex := repeat match goal with
                   | |- context [active_overwritten ?l] => destruct (active_overwritten l) eqn:?
                   | |- context [existsb ?f ?l] => destruct (existsb f l) eqn:?
                   end.

(* ================= config entries ================= *)
Section ConfigEntries.
  Variable graph_ok : gmap ckey centry -> ckey -> bool.

  (* upsert-cas and upsert-with-status-cas *)
  Record ureq := UReq { u_idx : N; u_key : ckey; u_content : N; u_status : N; u_cidx : N; u_with_status : bool }.
  Definition ucmd (c : ureq) : cmd :=
    if u_with_status c then CfgUpsertStatusCAS (u_key c) (u_content c) (u_status c) (u_cidx c)
    else CfgUpsertCAS (u_key c) (u_content c) (u_cidx c).
  Definition uwrite (c : ureq) (s : st) : attempt :=
    ensure_cfg graph_ok (u_idx c) (u_with_status c) (u_key c) (u_content c) (if u_with_status c then u_status c else 0) s.

  Definition W_cfg_upsert : cond_write st ureq :=
    CW (fun s c => (apply graph_ok (u_idx c) (ucmd c) s).1)
       (fun s c => is_true (apply graph_ok (u_idx c) (ucmd c) s).2)
       (fun s c => expect ce_modify (cfg s !! u_key c) (u_cidx c))
       (fun s c => att_ok (uwrite c s))
       (fun s c => att_state (uwrite c s) s).

  Theorem cfg_upsert_honest : honest W_cfg_upsert.
  Proof.
    split; intros s [idx k content status cidx ws] _; unfold W_cfg_upsert, ucmd, uwrite; cbn;
      destruct ws; cbn; unfold ensure_cfg_cas;
      destruct (cfg s !! k) as [x|] eqn:Ek; crush;
      try (destruct (ensure_cfg _ _ _ _ _ _ _); crush).
  Qed.

  (* delete-cas: there is something to delete and its index is the expected one *)
  Record dreq := DReq { d_idx : N; d_key : ckey; d_cidx : N }.
  Definition W_cfg_delete : cond_write st dreq :=
    CW (fun s c => (apply graph_ok (d_idx c) (CfgDeleteCAS (d_key c) (d_cidx c)) s).1)
       (fun s c => is_true (apply graph_ok (d_idx c) (CfgDeleteCAS (d_key c) (d_cidx c)) s).2)
       (fun s c => match cfg s !! d_key c with Some x => bool_decide (ce_modify x = d_cidx c) | None => false end)
       (fun s c => att_ok (delete_cfg graph_ok (d_idx c) (d_key c) s))
       (fun s c => att_state (delete_cfg graph_ok (d_idx c) (d_key c) s) s).

  Theorem cfg_delete_honest : honest W_cfg_delete.
  Proof.
    split; intros s [idx k cidx] _; unfold W_cfg_delete; cbn; unfold delete_cfg_cas;
      destruct (cfg s !! k) as [x|] eqn:Ek; crush;
      try (unfold delete_cfg in *; rewrite Ek in *; destruct (graph_ok _ _); crush).
  Qed.

  (* the delete variant stated on the entity: success iff it was there with the expected index, was
     allowed to go, and is gone afterwards *)
  Theorem cfg_delete_reports_removal s c :
    cw_ok W_cfg_delete s c = true ->
    is_Some (cfg s !! d_key c) /\ cfg (cw_post W_cfg_delete s c) !! d_key c = None.
  Proof.
    destruct c as [idx k cidx]. unfold W_cfg_delete; cbn. unfold delete_cfg_cas, delete_cfg.
    destruct (cfg s !! k) as [x|] eqn:Ek; cbn; [|discriminate].
    destruct (bool_decide (ce_modify x = cidx)); cbn; [|discriminate].
    destruct (graph_ok _ _); cbn; [|discriminate].
    intros _. split; [eexists; reflexivity|apply lookup_delete].
  Qed.

  (* visibility: at a fresh index an accepted upsert always changes the entry (ModifyIndex := idx) *)
  Theorem cfg_upsert_effective s c :
    (forall x, cfg s !! u_key c = Some x -> ce_modify x < u_idx c) ->
    cw_valid W_cfg_upsert s c = true -> effective W_cfg_upsert s c.
  Proof.
    destruct c as [idx k content status cidx ws]. unfold effective, W_cfg_upsert, uwrite, ensure_cfg; cbn.
    intros Hfresh. destruct (graph_ok _ _); [|discriminate]. intros _ Heq.
    apply (f_equal (fun t => cfg t !! k)) in Heq. revert Heq.
    assert (Hcfg : forall t, cfg (index_max ix_config idx t) = cfg t).
    { intros t. unfold index_max. destruct (index t !! ix_config); [destruct (_ <=? _)|]; reflexivity. }
    cbn [att_state]. rewrite Hcfg. cbn. rewrite lookup_insert. intros Heq. symmetry in Heq.
    specialize (Hfresh _ Heq). cbn in Hfresh. lia.
  Qed.

  Theorem cfg_delete_effective s c :
    is_Some (cfg s !! d_key c) -> cw_valid W_cfg_delete s c = true -> effective W_cfg_delete s c.
  Proof.
    destruct c as [idx k cidx]. unfold effective, W_cfg_delete, delete_cfg; cbn.
    intros [x Ex]. rewrite Ex. destruct (graph_ok _ _); [|discriminate]. intros _ Heq.
    apply (f_equal (fun t => cfg t !! k)) in Heq. cbn in Heq. rewrite lookup_delete in Heq. congruence.
  Qed.
  (* ---------- the RPC endpoints (what a client of ConfigEntry.Apply / Delete is told) ---------- *)
  (* The unconditional write of this layer is ConfigEntry.Apply with a plain upsert, which itself is a
     no-op when the stored entry already equals the submitted one. *)
  Definition rcmd (c : ureq) : cmd := RpcCfgApply true (u_key c) (u_content c) (u_status c) (u_cidx c).
  Definition rplain (c : ureq) : cmd := RpcCfgApply false (u_key c) (u_content c) (u_status c) 0.
  Definition W_rpc_cfg_upsert : cond_write st ureq :=
    CW (fun s c => (apply graph_ok (u_idx c) (rcmd c) s).1)
       (fun s c => is_true (apply graph_ok (u_idx c) (rcmd c) s).2)
       (fun s c => expect ce_modify (cfg s !! u_key c) (u_cidx c))
       (fun s c => is_true (apply graph_ok (u_idx c) (rplain c) s).2)
       (fun s c => (apply graph_ok (u_idx c) (rplain c) s).1).
  (* stored rows carry a Raft index, which is never zero *)
  Definition stored_positive (s : st) (c : ureq) : Prop := forall x, cfg s !! u_key c = Some x -> ce_modify x <> 0.

  Theorem rpc_cfg_upsert_honest : honest_on stored_positive W_rpc_cfg_upsert.
  Proof.
    split; intros s [idx k content status cidx ws] Hp; unfold stored_positive in Hp; cbn in Hp;
      unfold W_rpc_cfg_upsert, rcmd, rplain; cbn; unfold rpc_skip_upsert, ensure_cfg_cas;
      destruct (cfg s !! k) as [x|] eqn:Ek; try specialize (Hp x eq_refl); crush;
      try (unfold ensure_cfg in *; rewrite ?Ek in *; destruct (graph_ok _ _); crush).
  Qed.

  (* a stale, zero or future index on an entry of equal content is now answered false *)
  Theorem rpc_cfg_upsert_equal_content_mismatch s c x :
    cfg s !! u_key c = Some x -> u_cidx c <> ce_modify x ->
    apply graph_ok (u_idx c) (rcmd c) s = (s, RBool false).
  Proof.
    destruct c as [idx k content status cidx ws]; cbn. intros Hx Hne. unfold rpc_skip_upsert, ensure_cfg_cas.
    rewrite Hx. crush.
  Qed.

  (* visibility: unless the stored entry already has the submitted content/status, an accepted write shows *)
  Theorem rpc_cfg_upsert_effective s c :
    rpc_skip_upsert false 0 (u_key c) (u_content c) (u_status c) s = false ->
    (forall x, cfg s !! u_key c = Some x -> ce_modify x < u_idx c) ->
    cw_valid W_rpc_cfg_upsert s c = true -> effective W_rpc_cfg_upsert s c.
  Proof.
    destruct c as [idx k content status cidx ws]. unfold effective, W_rpc_cfg_upsert, rplain; cbn.
    intros Hs Hfresh. rewrite Hs. unfold ensure_cfg. destruct (graph_ok _ _); cbn; [|discriminate]. intros _ Heq.
    apply (f_equal (fun t => cfg t !! k)) in Heq. revert Heq.
    assert (Hcfg : forall t, cfg (index_max ix_config idx t) = cfg t).
    { intros t. unfold index_max. destruct (index t !! ix_config); [destruct (_ <=? _)|]; reflexivity. }
    rewrite Hcfg. cbn. rewrite lookup_insert. intros Heq. symmetry in Heq.
    specialize (Hfresh _ Heq). cbn in Hfresh. lia.
  Qed.

  Record rdreq := RDReq { rd_idx : N; rd_key : ckey; rd_cidx : N }.
  Definition W_rpc_cfg_delete : cond_write st rdreq :=
    CW (fun s c => (apply graph_ok (rd_idx c) (RpcCfgDelete true (rd_key c) (rd_cidx c)) s).1)
       (fun s c => is_true (apply graph_ok (rd_idx c) (RpcCfgDelete true (rd_key c) (rd_cidx c)) s).2)
       (fun s c => match cfg s !! rd_key c with Some x => bool_decide (ce_modify x = rd_cidx c) | None => false end)
       (fun s c => att_ok (delete_cfg graph_ok (rd_idx c) (rd_key c) s))
       (fun s c => att_state (delete_cfg graph_ok (rd_idx c) (rd_key c) s) s).

  Theorem rpc_cfg_delete_honest : honest W_rpc_cfg_delete.
  Proof.
    split; intros s [idx k cidx] _; unfold W_rpc_cfg_delete; cbn; unfold delete_cfg_cas;
      destruct (cfg s !! k) as [x|] eqn:Ek; crush;
      try (unfold delete_cfg in *; rewrite Ek in *; destruct (graph_ok _ _); crush).
  Qed.

  (* an absent entry: nothing to delete, Deleted = false, as the store method says *)
  Theorem rpc_cfg_delete_absent s c :
    cfg s !! rd_key c = None ->
    apply graph_ok (rd_idx c) (RpcCfgDelete true (rd_key c) (rd_cidx c)) s = (s, RBool false).
  Proof. destruct c as [idx k cidx]; cbn. intros Hn. unfold delete_cfg_cas. rewrite Hn. reflexivity. Qed.
End ConfigEntries.

(* regression: the two inputs that were answered "true" before fbf8c12 *)
Definition rpc_witness_state : st := (apply (fun _ _ => true) 5 (CfgUpsert ("service-defaults", "web") 1) st0).1.
Definition rpc_witness_cmd : ureq := UReq 9 ("service-defaults", "web") 1 0 3 false.   (* expects index 3; the entry is at 5 *)

Example rpc_regression :
  apply (fun _ _ => true) 9 (rcmd rpc_witness_cmd) rpc_witness_state = (rpc_witness_state, RBool false) /\
  apply (fun _ _ => true) 9 (RpcCfgApply true ("service-defaults", "web") 1 0 0) rpc_witness_state = (rpc_witness_state, RBool false) /\
  apply (fun _ _ => true) 9 (RpcCfgApply true ("service-defaults", "web") 1 0 5) rpc_witness_state = (rpc_witness_state, RBool true) /\
  apply (fun _ _ => true) 5 (RpcCfgDelete true ("service-defaults", "web") 3) st0 = (st0, RBool false) /\
  stored_positive rpc_witness_state rpc_witness_cmd.
Proof.
  repeat split; try (vm_compute; reflexivity).
  intros x Hx. vm_compute in Hx. injection Hx as <-. discriminate.
Qed.

(* ================= CA configuration ================= *)
Record careq := CAReq { ca_idx : N; ca_cluster : string; ca_provider : N; ca_cidx : N }.
Definition cacmd (c : careq) : cmd := CASetConfig (ca_cluster c) (ca_provider c) (ca_cidx c).

(* the store method CACheckAndSetConfig: mismatch is an error, never a silent no-op *)
Theorem ca_check_and_set_config_spec idx cidx cluster provider s :
  match ca_check_and_set_config idx cidx cluster provider s with
  | Applied s' => cur_index cc_modify (ca_config s) = cidx /\ s' = ca_set_config_txn idx cluster provider s
  | Mismatch => False
  | Failed e => e = ECAConfigIndex /\ cur_index cc_modify (ca_config s) ≠ cidx
  end.
Proof. unfold ca_check_and_set_config, ca_check_index. destruct (ca_config s); crush. Qed.

(* the FSM command: an expected index of zero means "no check" (unconditional write, result nil) *)
Definition W_ca_config : cond_write st careq :=
  CW (fun s c => (apply (fun _ _ => true) (ca_idx c) (cacmd c) s).1)
     (fun s c => let r := (apply (fun _ _ => true) (ca_idx c) (cacmd c) s).2 in is_true r || is_nil r)
     (fun s c => bool_decide (ca_cidx c = 0) || bool_decide (cur_index cc_modify (ca_config s) = ca_cidx c))
     (fun _ _ => true)
     (fun s c => ca_set_config_txn (ca_idx c) (ca_cluster c) (ca_provider c) s).

Theorem ca_config_honest : honest W_ca_config.
Proof.
  split; intros s [idx cl pr cidx] _; unfold W_ca_config; cbn;
    unfold ca_check_and_set_config, ca_check_index; destruct (ca_config s); crush.
Qed.

(* a mismatch is reported as an ERROR *)
Theorem ca_config_mismatch_is_error s c :
  cw_matched W_ca_config s c = false -> (apply (fun _ _ => true) (ca_idx c) (cacmd c) s).2 = RErr ECAConfigIndex.
Proof.
  destruct c as [idx cl pr cidx]. unfold W_ca_config; cbn.
  unfold ca_check_and_set_config, ca_check_index; destruct (ca_config s); crush.
Qed.

(* DEVIATION made explicit: at the FSM an expected index of zero is not "must be absent" (as it is for
   the same entity inside the composite command) but "no check": a stored configuration is overwritten *)
Theorem ca_config_zero_overwrites s cl pr idx :
  apply (fun _ _ => true) idx (CASetConfig cl pr 0) s = (ca_set_config_txn idx cl pr s, RNil).
Proof. reflexivity. Qed.

Theorem ca_config_effective s c :
  (forall x, ca_config s = Some x -> cc_modify x < ca_idx c) -> effective W_ca_config s c.
Proof.
  destruct c as [idx cl pr cidx]. unfold effective, W_ca_config, ca_set_config_txn; cbn.
  intros Hf Heq. apply (f_equal ca_config) in Heq. destruct (ca_config s) as [x|] eqn:E; cbn in Heq; [|discriminate].
  specialize (Hf x eq_refl). injection Heq as Heq. rewrite <- Heq in Hf. cbn in Hf. lia.
Qed.

(* ================= CA roots ================= *)
Record rreq := RReq { rr_idx : N; rr_cidx : N; rr_roots : list rootreq }.
Definition roots_valid (rs : list rootreq) : bool :=
  bool_decide (count_active rs = 1%nat) && negb (active_overwritten rs) && negb (existsb (fun r => bool_decide (r.1 = "")) rs).
Definition roots_write (idx : N) (rs : list rootreq) (s : st) : st :=
  index_set ix_roots idx (s <| ca_roots := insert_roots idx (ca_roots s) rs |>).

Definition W_ca_roots : cond_write st rreq :=
  CW (fun s c => (apply (fun _ _ => true) (rr_idx c) (CASetRoots (rr_cidx c) (rr_roots c)) s).1)
     (fun s c => is_true (apply (fun _ _ => true) (rr_idx c) (CASetRoots (rr_cidx c) (rr_roots c)) s).2)
     (fun s c => bool_decide (max_index ix_roots s = rr_cidx c))
     (fun s c => roots_valid (rr_roots c))
     (fun s c => if roots_valid (rr_roots c) then roots_write (rr_idx c) (rr_roots c) s else s).

Theorem ca_roots_honest : honest W_ca_roots.
Proof.
  split; intros s [idx cidx rs] _; unfold W_ca_roots, roots_valid, roots_write; cbn; unfold ca_root_check_and_set;
    dex; crush.
Qed.

(* a stale index is reported as false (it used to be reported as true) *)
Theorem ca_roots_stale_is_false s c :
  roots_valid (rr_roots c) = true -> cw_matched W_ca_roots s c = false ->
  apply (fun _ _ => true) (rr_idx c) (CASetRoots (rr_cidx c) (rr_roots c)) s = (s, RBool false).
Proof.
  destruct c as [idx cidx rs]. unfold W_ca_roots, roots_valid; cbn. unfold ca_root_check_and_set.
  dex; crush.
Qed.

Theorem ca_roots_effective s c :
  max_index ix_roots s < rr_idx c -> cw_valid W_ca_roots s c = true -> effective W_ca_roots s c.
Proof.
  destruct c as [idx cidx rs]. unfold effective, W_ca_roots, roots_write; cbn. intros Hf ->.
  intros Heq. unfold max_index in Hf. rewrite <- Heq in Hf. unfold index_set in Hf. cbn in Hf.
  rewrite lookup_insert in Hf. cbn in Hf. lia.
Qed.

(* ================= the composite: roots and configuration ================= *)
Record rcreq := RCReq { rc_idx : N; rc_cidx : N; rc_roots : list rootreq;
                        rc_cluster : string; rc_provider : N; rc_cfgidx : N }.
Definition rccmd (c : rcreq) : cmd :=
  CASetRootsAndConfig (rc_cidx c) (rc_roots c) (rc_cluster c) (rc_provider c) (rc_cfgidx c).
Definition rc_write (c : rcreq) (s : st) : st :=
  ca_set_config_txn (rc_idx c) (rc_cluster c) (rc_provider c) (roots_write (rc_idx c) (rc_roots c) s).

Definition W_roots_config : cond_write st rcreq :=
  CW (fun s c => (apply (fun _ _ => true) (rc_idx c) (rccmd c) s).1)
     (fun s c => is_true (apply (fun _ _ => true) (rc_idx c) (rccmd c) s).2)
     (fun s c => bool_decide (max_index ix_roots s = rc_cidx c)
                 && bool_decide (cur_index cc_modify (ca_config s) = rc_cfgidx c))
     (fun s c => roots_valid (rc_roots c))
     (fun s c => if roots_valid (rc_roots c) then rc_write c s else s).

Theorem roots_config_honest : honest W_roots_config.
Proof.
  split; intros s [idx cidx rs cl pr cfgidx] _; unfold W_roots_config, roots_valid, rc_write, roots_write; cbn;
    unfold ca_roots_and_config_cas, ca_root_check_and_set, ca_check_index;
    dex; crush; destruct (ca_config s) eqn:Ec; crush.
Qed.

(* atomicity, stated on the two parts: whatever the two expected indexes and the request are, the
   roots were replaced iff the configuration was replaced *)
Definition roots_part (s : st) := (ca_roots s, index s !! ix_roots).
Theorem roots_config_atomic s c :
  (max_index ix_roots s < rc_idx c) -> (forall x, ca_config s = Some x -> cc_modify x < rc_idx c) ->
  let s' := cw_post W_roots_config s c in
  (roots_part s' ≠ roots_part s <-> ca_config s' ≠ ca_config s).
Proof.
  intros Hr Hc s'.
  destruct (all_or_nothing _ W_roots_config s c roots_config_honest I) as [H|H]; subst s'; rewrite H.
  - tauto.
  - destruct (cw_ok W_roots_config s c) eqn:Eok.
    2:{ rewrite <- H. rewrite (h_unchanged _ _ roots_config_honest s c I Eok). tauto. }
    apply (h_reported _ _ roots_config_honest s c I) in Eok as [_ Hv].
    destruct c as [idx cidx rs cl pr cfgidx]. cbn in *. rewrite Hv.
    unfold rc_write, roots_write, roots_part, ca_set_config_txn. cbn.
    split; intros _.
    + destruct (ca_config s) as [x|] eqn:Ex; cbn; [|discriminate].
      intros Heq. injection Heq as Heq. specialize (Hc x eq_refl). rewrite <- Heq in Hc. cbn in Hc. lia.
    + intros Heq. injection Heq as _ Heq.
      destruct (ca_config s); cbn in Heq; rewrite lookup_insert in Heq;
        unfold max_index in Hr; destruct (index s !! ix_roots); cbn in Hr; try discriminate;
        injection Heq as Heq; lia.
  Qed.

(* ================= autopilot ================= *)
Record apreq := APReq { ar_idx : N; ar_payload : N; ar_cidx : N }.
Definition W_autopilot : cond_write st apreq :=
  CW (fun s c => (apply (fun _ _ => true) (ar_idx c) (Autopilot true (ar_payload c) (ar_cidx c)) s).1)
     (fun s c => is_true (apply (fun _ _ => true) (ar_idx c) (Autopilot true (ar_payload c) (ar_cidx c)) s).2)
     (fun s c => bool_decide (cur_index ap_modify (autopilot s) = ar_cidx c))
     (fun _ _ => true)
     (fun s c => autopilot_set_txn (ar_idx c) (ar_payload c) s).

(* index zero stands for "no configuration stored", as AutopilotConfig() shows it to a reader *)
Theorem autopilot_honest : honest W_autopilot.
Proof.
  split; intros s [idx p cidx] _; unfold W_autopilot; cbn; unfold autopilot_cas; destruct (autopilot s); crush.
Qed.

Theorem autopilot_effective s c :
  (forall x, autopilot s = Some x -> ap_modify x < ar_idx c) -> effective W_autopilot s c.
Proof.
  destruct c as [idx p cidx]. unfold effective, W_autopilot, autopilot_set_txn; cbn.
  intros Hf Heq. apply (f_equal autopilot) in Heq. cbn in Heq.
  destruct (autopilot s) as [x|] eqn:E; [|discriminate]. specialize (Hf x eq_refl).
  injection Heq as Heq. rewrite <- Heq in Hf. cbn in Hf. lia.
Qed.

(* ================= ACL token set with the CAS option ================= *)
Record tkreq := TKReq { tk_idx : N; tk_req : tokreq }.
Definition tkcmd (c : tkreq) : cmd := TokenSet true [tk_req c].

(* the write without the option: ACLTokenBatchSet with CAS = false *)
Definition token_write (c : tkreq) (s : st) : attempt := token_set_txn (tk_idx c) false (tk_req c) s.

Definition W_token : cond_write st tkreq :=
  CW (fun s c => (apply (fun _ _ => true) (tk_idx c) (tkcmd c) s).1)
     (fun s c => is_nil (apply (fun _ _ => true) (tk_idx c) (tkcmd c) s).2)
     (fun s c => expect t_modify (tokens s !! tq_accessor (tk_req c)) (tq_index (tk_req c)))
     (fun s c => att_ok (token_write c s))
     (fun s c => att_state (token_write c s) s).

Definition well_formed (q : tokreq) : Prop := tq_secret q ≠ "" /\ tq_accessor q ≠ "".

(* what does hold: a matching request is exactly the write, a mismatching one writes nothing ... *)
Theorem token_cas_partial s c :
  well_formed (tk_req c) ->
  (cw_matched W_token s c = true -> cw_valid W_token s c = true ->
   cw_ok W_token s c = true /\ cw_post W_token s c = cw_write W_token s c) /\
  (cw_matched W_token s c = true -> cw_valid W_token s c = false ->
   cw_ok W_token s c = false /\ cw_post W_token s c = s) /\
  (cw_matched W_token s c = false -> cw_post W_token s c = s).
Proof.
  destruct c as [idx [acc sec d cidx]]. unfold well_formed, W_token, token_write; cbn.
  unfold token_set_txn; cbn. intros [Hs Ha].
  destruct (tokens s !! acc) as [o|] eqn:Eo; crush.
Qed.

(* ... but the mismatch is reported as SUCCESS: the result is nil exactly as for a write *)
Theorem token_cas_mismatch_reports_success s c :
  well_formed (tk_req c) -> cw_matched W_token s c = false ->
  apply (fun _ _ => true) (tk_idx c) (tkcmd c) s = (s, RNil).
Proof.
  destruct c as [idx [acc sec d cidx]]. unfold well_formed, W_token; cbn.
  unfold token_set_txn; cbn. intros [Hs Ha].
  destruct (tokens s !! acc) as [o|] eqn:Eo; crush.
Qed.

Definition tok_witness_state : st := (apply (fun _ _ => true) 5 (TokenSet false [TokReq "t1" "s1" 1 0]) st0).1.
Definition tok_witness_cmd : tkreq := TKReq 9 (TokReq "t1" "s1" 2 3).   (* expects index 3; the token is at 5 *)

Theorem token_cas_honest_refuted :
  cw_ok W_token tok_witness_state tok_witness_cmd = true /\
  cw_matched W_token tok_witness_state tok_witness_cmd = false /\
  cw_valid W_token tok_witness_state tok_witness_cmd = true /\
  cw_post W_token tok_witness_state tok_witness_cmd = tok_witness_state /\
  cw_write W_token tok_witness_state tok_witness_cmd ≠ tok_witness_state.
Proof.
  repeat split; try (vm_compute; reflexivity).
  intros H. apply (f_equal (fun t => t_descr <$> tokens t !! "t1")) in H. vm_compute in H. discriminate H.
Qed.

Corollary token_cas_not_honest : ~ honest W_token.
Proof.
  intros [H _ _]. destruct token_cas_honest_refuted as (Hok & Hm & _).
  apply (H _ _ I) in Hok as [Hm' _]. congruence.
Qed.

(* in a batch the refused token is skipped silently while its neighbours are written *)
Example token_batch_skips :
  let s := tok_witness_state in
  let r := apply (fun _ _ => true) 9 (TokenSet true [TokReq "t1" "s1" 2 3; TokReq "t2" "s2" 7 0]) s in
  r.2 = RNil /\ tokens r.1 !! "t1" = tokens s !! "t1" /\ (t_descr <$> tokens r.1 !! "t2") = Some 7.
Proof. repeat split; vm_compute; reflexivity. Qed.

(* ================= feature gates ================= *)
Record fgreq := FGReq { fg_idx : N; fg_pol : option N; fg_stat : option N; fg_epi : N; fg_esi : N }.
Definition fgcmd (c : fgreq) : cmd := FeatureGate (fg_pol c) (fg_stat c) (fg_epi c) (fg_esi c).
Definition fg_valid (c : fgreq) (s : st) : bool :=
  bool_decide (is_Some (fg_stat c)) && (bool_decide (is_Some (fg_pol c)) || bool_decide (is_Some (fg_policy s))).
(* the write: status always, policy when supplied; the status names the index of the policy it was
   resolved from *)
Definition fg_write (c : fgreq) (s : st) : st :=
  match fg_stat c with
  | None => s
  | Some sp =>
    let screate := match fg_status s with Some t => fs_create t | None => fg_idx c end in
    match fg_pol c with
    | Some pp =>
      s <| fg_policy := Some (FGP pp (match fg_policy s with Some p => fp_create p | None => fg_idx c end) (fg_idx c)) |>
        <| fg_status := Some (FGS sp (fg_idx c) screate (fg_idx c)) |>
    | None =>
      match fg_policy s with
      | Some p => s <| fg_status := Some (FGS sp (fp_modify p) screate (fg_idx c)) |>
      | None => s
      end
    end
  end.

Definition W_feature_gate : cond_write st fgreq :=
  CW (fun s c => (apply (fun _ _ => true) (fg_idx c) (fgcmd c) s).1)
     (fun s c => is_true (apply (fun _ _ => true) (fg_idx c) (fgcmd c) s).2)
     (fun s c => bool_decide (cur_index fp_modify (fg_policy s) = fg_epi c)
                 && bool_decide (cur_index fs_modify (fg_status s) = fg_esi c))
     (fun s c => fg_valid c s)
     (fun s c => fg_write c s).

Theorem feature_gate_honest : honest W_feature_gate.
Proof.
  split; intros s [idx pol stat epi esi] _; unfold W_feature_gate, fg_valid, fg_write; cbn;
    unfold feature_gate_update; destruct stat as [sp|]; destruct pol as [pp|];
    destruct (fg_policy s) as [p|] eqn:Ep; destruct (fg_status s) as [t|] eqn:Et; crush;
    intros _; subst; reflexivity.
Qed.

Theorem feature_gate_effective s c :
  (forall t, fg_status s = Some t -> fs_modify t < fg_idx c) ->
  cw_valid W_feature_gate s c = true -> effective W_feature_gate s c.
Proof.
  destruct c as [idx pol stat epi esi]. unfold effective, W_feature_gate, fg_valid, fg_write; cbn.
  intros Hf Hv Heq. apply (f_equal fg_status) in Heq.
  destruct stat as [sp|]; [|crush]. destruct pol as [pp|]; [|destruct (fg_policy s); [|crush]];
    cbn in Heq; destruct (fg_status s) as [t|] eqn:Et; try discriminate;
    specialize (Hf t eq_refl); injection Heq as Heq; rewrite <- Heq in Hf; cbn in Hf; lia.
Qed.

(* ================= Raft indexes only grow: the freshness hypotheses hold on every reachable state ================= *)
Definition bounded (n : N) (s : st) : Prop :=
  map_Forall (fun _ x => ce_modify x <= n) (cfg s) /\
  from_option (fun x => cc_modify x <= n) True (ca_config s) /\
  map_Forall (fun _ x => r_modify x <= n) (ca_roots s) /\
  from_option (fun x => ap_modify x <= n) True (autopilot s) /\
  map_Forall (fun _ x => t_modify x <= n) (tokens s) /\
  from_option (fun x => fp_modify x <= n) True (fg_policy s) /\
  from_option (fun x => fs_modify x <= n) True (fg_status s) /\
  map_Forall (fun _ v => v <= n) (index s).

Lemma bounded_st0 n : bounded n st0.
Proof. repeat split; cbn; try apply map_Forall_empty; exact I. Qed.

Lemma bounded_mono n m s : n <= m -> bounded n s -> bounded m s.
Proof.
  intros Hle (H1 & H2 & H3 & H4 & H5 & H6 & H7 & H8).
  repeat split;
    try (eapply map_Forall_impl; [eassumption|cbn; intros; lia]);
    match goal with |- from_option _ _ ?o => destruct o; cbn in *; try exact I; lia end.
Qed.

Lemma bounded_index_set k n s : bounded n s -> bounded n (index_set k n s).
Proof.
  intros (H1 & H2 & H3 & H4 & H5 & H6 & H7 & H8). repeat split; try assumption.
  cbn. apply map_Forall_insert_2; [lia|assumption].
Qed.

Lemma bounded_index_max k n s : bounded n s -> bounded n (index_max k n s).
Proof.
  intros Hb. unfold index_max. destruct (index s !! k); [destruct (_ <=? _)|]; try assumption;
    apply bounded_index_set; assumption.
Qed.

Ltac bsplit Hb :=
  let H1 := fresh "Hcfg" in let H2 := fresh "Hca" in let H3 := fresh "Hroots" in let H4 := fresh "Hap" in
  let H5 := fresh "Htok" in let H6 := fresh "Hfp" in let H7 := fresh "Hfs" in let H8 := fresh "Hix" in
  destruct Hb as (H1 & H2 & H3 & H4 & H5 & H6 & H7 & H8).

Lemma insert_roots_bounded idx old rs : map_Forall (fun _ x => r_modify x <= idx) (insert_roots idx old rs).
Proof.
  unfold insert_roots. generalize (∅ : gmap string root) (map_Forall_empty (fun (_ : string) x => r_modify x <= idx)).
  induction rs as [|r rs IH]; intros m Hm; cbn; [assumption|].
  apply IH. apply map_Forall_insert_2; [cbn; lia|assumption].
Qed.

Section Bounded.
  Variable graph_ok : gmap ckey centry -> ckey -> bool.

  Lemma token_set_bounded idx cas q s s' :
    bounded idx s -> token_set_txn idx cas q s = Applied s' -> bounded idx s'.
  Proof.
    intros Hb. unfold token_set_txn.
    repeat (match goal with |- context [if ?b then _ else _] => destruct b end; try discriminate).
    destruct (tokens s !! tq_accessor q) as [o|];
      repeat (match goal with |- context [if ?b then _ else _] => destruct b end; try discriminate);
      intros Heq; injection Heq as <-; apply bounded_index_max; bsplit Hb; repeat split; try assumption;
      cbn; apply map_Forall_insert_2; cbn; try lia; assumption.
  Qed.

  Lemma token_batch_bounded idx cas qs : forall s s',
    bounded idx s -> token_batch_set idx cas qs s = Applied s' -> bounded idx s'.
  Proof.
    induction qs as [|q qs IH]; intros s s' Hb; cbn.
    - intros Heq; injection Heq as <-; assumption.
    - destruct (token_set_txn idx cas q s) as [s1| |e] eqn:E; try discriminate.
      + apply IH. eapply token_set_bounded; eassumption.
      + apply IH. assumption.
  Qed.

  Lemma token_delete_bounded idx accs : forall s, bounded idx s -> bounded idx (token_batch_delete idx accs s).
  Proof.
    unfold token_batch_delete. induction accs as [|a accs IH]; intros s Hb; cbn; [assumption|].
    apply IH. destruct (tokens s !! a); [|assumption].
    apply bounded_index_max. bsplit Hb; repeat split; try assumption. cbn. apply map_Forall_delete. assumption.
  Qed.

  Lemma bool_result_bounded idx a s :
    bounded idx s -> (forall s', a = Applied s' -> bounded idx s') -> bounded idx (bool_result a s).1.
  Proof. intros Hb H. destruct a; cbn [bool_result fst]; [apply H; reflexivity|assumption|assumption]. Qed.
  Lemma nil_result_bounded idx a s :
    bounded idx s -> (forall s', a = Applied s' -> bounded idx s') -> bounded idx (nil_result a s).1.
  Proof. intros Hb H. destruct a; cbn [nil_result fst]; [apply H; reflexivity|assumption|assumption]. Qed.

  Ltac att :=
    repeat (match goal with
            | |- context [if ?b then _ else _] => destruct b
            | |- context [match ?o with Some _ => _ | None => _ end] => destruct o eqn:?
            end; try discriminate).
  Ltac got := let H := fresh in intros H; injection H as <-.

  Lemma cfg_insert_bounded idx k e s :
    bounded idx s -> ce_modify e <= idx -> bounded idx (index_max ix_config idx (s <| cfg ::= <[k := e]> |>)).
  Proof.
    intros Hb He. apply bounded_index_max. bsplit Hb; repeat split; try assumption.
    cbn. apply map_Forall_insert_2; assumption.
  Qed.
  Lemma cfg_delete_bounded idx k s :
    bounded idx s -> bounded idx (index_set ix_config idx (s <| cfg ::= delete k |>)).
  Proof.
    intros Hb. apply bounded_index_set. bsplit Hb; repeat split; try assumption. cbn. apply map_Forall_delete. assumption.
  Qed.

  Lemma ensure_cfg_bounded idx su k content status s s' :
    bounded idx s -> ensure_cfg graph_ok idx su k content status s = Applied s' -> bounded idx s'.
  Proof. intros Hb. unfold ensure_cfg. destruct (graph_ok _ _); [|discriminate]. got. apply cfg_insert_bounded; [assumption|cbn; lia]. Qed.

  Lemma ensure_cfg_cas_bounded idx cidx su k content status s s' :
    bounded idx s -> ensure_cfg_cas graph_ok idx cidx su k content status s = Applied s' -> bounded idx s'.
  Proof.
    intros Hb. unfold ensure_cfg_cas.
    destruct (_ && _); [discriminate|]. destruct (_ && _); [discriminate|].
    destruct (cfg s !! k); [destruct (_ && _); [discriminate|]|]; apply ensure_cfg_bounded; assumption.
  Qed.

  Lemma delete_cfg_bounded idx k s s' :
    bounded idx s -> delete_cfg graph_ok idx k s = Applied s' -> bounded idx s'.
  Proof.
    intros Hb. unfold delete_cfg. destruct (cfg s !! k); [|got; assumption].
    destruct (graph_ok _ _); [|discriminate]. got. apply cfg_delete_bounded; assumption.
  Qed.

  Lemma roots_write_bounded idx rs s : bounded idx s -> bounded idx (roots_write idx rs s).
  Proof.
    intros Hb. apply bounded_index_set. bsplit Hb; repeat split; try assumption. cbn. apply insert_roots_bounded.
  Qed.

  Lemma ca_set_config_bounded idx cl pr s : bounded idx s -> bounded idx (ca_set_config_txn idx cl pr s).
  Proof. intros Hb. unfold ca_set_config_txn. bsplit Hb. destruct (ca_config s); repeat split; try assumption; cbn; lia. Qed.

  Lemma ca_root_bounded idx cidx rs s s' :
    bounded idx s -> ca_root_check_and_set idx cidx rs s = Applied s' -> bounded idx s'.
  Proof. intros Hb. unfold ca_root_check_and_set. att. got. apply roots_write_bounded; assumption. Qed.

  (* every command applied at an index above all stored ones keeps all stored indexes at or below it *)
  Theorem apply_bounded n idx c s : bounded n s -> n < idx -> bounded idx (apply graph_ok idx c s).1.
  Proof.
    intros Hb0 Hlt. assert (Hb : bounded idx s) by (eapply bounded_mono; [|eassumption]; lia). clear Hb0.
    destruct c; cbn [apply].
    - destruct (ensure_cfg graph_ok idx false k content 0 s) eqn:E; cbn [fst]; try assumption.
      eapply ensure_cfg_bounded; eassumption.
    - apply bool_result_bounded; [assumption|]. intros s'. apply ensure_cfg_cas_bounded; assumption.
    - apply bool_result_bounded; [assumption|]. intros s'. apply ensure_cfg_cas_bounded; assumption.
    - apply nil_result_bounded; [assumption|]. intros s'. apply delete_cfg_bounded; assumption.
    - apply bool_result_bounded; [assumption|]. intros s'. unfold delete_cfg_cas.
      destruct (cfg s !! k); [|discriminate]. destruct (negb _); [discriminate|]. apply delete_cfg_bounded; assumption.
    - destruct (negb _); cbn [fst]; [|apply ca_set_config_bounded; assumption].
      apply bool_result_bounded; [assumption|]. intros s'. unfold ca_check_and_set_config.
      destruct (ca_check_index _ _); [|discriminate]. got. apply ca_set_config_bounded; assumption.
    - apply bool_result_bounded; [assumption|]. intros s'. apply ca_root_bounded; assumption.
    - apply bool_result_bounded; [assumption|]. intros s'. unfold ca_roots_and_config_cas.
      destruct (ca_root_check_and_set idx cidx rs s) as [s1| |e] eqn:E; try discriminate.
      destruct (ca_check_index _ _); [|discriminate]. got. apply ca_set_config_bounded.
      eapply ca_root_bounded; eassumption.
    - assert (Hset : bounded idx (autopilot_set_txn idx payload s)).
      { unfold autopilot_set_txn. bsplit Hb. repeat split; try assumption; cbn; lia. }
      destruct cas; cbn [fst]; [|assumption].
      apply bool_result_bounded; [assumption|]. intros s'. unfold autopilot_cas.
      destruct (autopilot s); destruct (negb _); try discriminate; got; assumption.
    - apply nil_result_bounded; [assumption|]. intros s'. apply token_batch_bounded; assumption.
    - cbn [fst]. apply token_delete_bounded. assumption.
    - apply bool_result_bounded; [assumption|]. intros s'. unfold feature_gate_update.
      destruct status as [sp|]; [|discriminate]. destruct (negb _ || negb _); [discriminate|].
      destruct policy as [pp|]; [|destruct (fg_policy s) eqn:Ep; [|discriminate]]; got;
        bsplit Hb; repeat split; try assumption; cbn; try lia; try (rewrite Ep; assumption).
    - destruct (rpc_skip_upsert _ _ _ _); cbn [fst]; [assumption|]. destruct cas.
      + apply bool_result_bounded; [assumption|]. intros s'. apply ensure_cfg_cas_bounded; assumption.
      + destruct (ensure_cfg graph_ok idx false k content 0 s) eqn:E; cbn [fst]; try assumption.
        eapply ensure_cfg_bounded; eassumption.
    - destruct (rpc_skip_delete _ _); cbn [fst]; [assumption|]. destruct cas.
      + apply bool_result_bounded; [assumption|]. intros s'. unfold delete_cfg_cas.
        destruct (cfg s !! k); [|discriminate]. destruct (negb _); [discriminate|]. apply delete_cfg_bounded; assumption.
      + destruct (delete_cfg graph_ok idx k s) eqn:E; cbn [fst]; try assumption.
        eapply delete_cfg_bounded; eassumption.
  Qed.

  (* the log Raft feeds the FSM: strictly increasing indexes *)
  Fixpoint increasing (n : N) (log : list (N * cmd)) : Prop :=
    match log with
    | [] => True
    | (idx, _) :: rest => n < idx /\ increasing idx rest
    end.

  Fixpoint final (log : list (N * cmd)) (s : st) : st :=
    match log with
    | [] => s
    | (idx, c) :: rest => final rest (apply graph_ok idx c s).1
    end.
  Fixpoint last_index (n : N) (log : list (N * cmd)) : N :=
    match log with [] => n | (idx, _) :: rest => last_index idx rest end.

  Theorem reachable_bounded log : forall n s,
    bounded n s -> increasing n log -> bounded (last_index n log) (final log s).
  Proof.
    induction log as [|[idx c] log IH]; intros n s Hb Hi; cbn; [assumption|].
    destruct Hi as [Hlt Hi]. apply IH; [|assumption]. eapply apply_bounded; eassumption.
  Qed.
End Bounded.

(* bounded states satisfy the freshness hypothesis of every visibility lemma *)
Lemma bounded_fresh n idx s : bounded n s -> n < idx ->
  (forall k x, cfg s !! k = Some x -> ce_modify x < idx) /\
  (forall x, ca_config s = Some x -> cc_modify x < idx) /\
  max_index ix_roots s < idx /\
  (forall x, autopilot s = Some x -> ap_modify x < idx) /\
  (forall t, fg_status s = Some t -> fs_modify t < idx).
Proof.
  intros Hb Hlt. bsplit Hb. repeat split.
  - intros k x Hx. specialize (Hcfg k x Hx). cbn in Hcfg. lia.
  - intros x Hx. rewrite Hx in Hca. cbn in Hca. lia.
  - unfold max_index. destruct (index s !! ix_roots) as [v|] eqn:E; cbn; [|lia]. specialize (Hix _ _ E). cbn in Hix. lia.
  - intros x Hx. rewrite Hx in Hap. cbn in Hap. lia.
  - intros t Ht. rewrite Ht in Hfs. cbn in Hfs. lia.
Qed.
