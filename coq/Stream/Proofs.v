(* C11 — the property theorems, derived from the invariant [ginv], and the refutation witnesses. *)
From Coq Require Import Sorted.
From Verif Require Import Base.Prelude Stream.Model Stream.Amap Stream.Lookup Stream.Inv Stream.Preserve.
Local Open Scope N_scope.

(* ------------------------------------------------------------------ reaching the invariant *)

Lemma ginv_of_env gf c ls :
  env_ok c ls -> (gf = true -> gap_free c ls) -> ginv gf (run c ls).
Proof.
  intros (H1 & H2 & H3) H4. unfold run. apply ginv_run; [apply ginv_init|].
  unfold sched_ok. auto.
Qed.

Lemma all_from_app ok st a b :
  all_from ok st (a ++ b) = true -> all_from ok st a = true /\ all_from ok (run_from st a) b = true.
Proof.
  revert st. induction a as [|l a IH]; intros st; cbn [app all_from run_from fold_left]; [auto|].
  intros H. apply andb_true_iff in H as [H1 H2]. destruct (IH _ H2) as [H3 H4].
  split; [apply andb_true_iff; auto|exact H4].
Qed.

Lemma valid_from_all st ls : valid_from st ls = all_from step_ok st ls.
Proof. revert st. induction ls as [|l r IH]; intros st; cbn; [reflexivity|]. rewrite IH. reflexivity. Qed.

Lemma env_ok_app c a b : env_ok c (a ++ b) -> env_ok c a.
Proof.
  intros (H1 & H2 & H3). rewrite valid_from_all in H1. unfold env_ok. rewrite valid_from_all.
  apply all_from_app in H1 as [H1 _]. apply all_from_app in H2 as [H2 _]. apply all_from_app in H3 as [H3 _]. auto.
Qed.

Lemma gap_free_app c a b : gap_free c (a ++ b) -> gap_free c a.
Proof. intros H. apply all_from_app in H as [H _]. exact H. Qed.

(* ------------------------------------------------------------------ filters of projected logs *)

Lemma proj_filter T (p : N -> bool) log :
  proj T (filter (fun b => p (b_idx b)) log) = filter (fun it => p (item_idx it)) (proj T log).
Proof.
  induction log as [|b r IH]; cbn [filter proj flat_map]; [reflexivity|]. fold (proj T r).
  rewrite filter_app, <- IH. destruct (p (b_idx b)) eqn:E; cbn [proj flat_map]; fold (proj T (filter (fun b0 => p (b_idx b0)) r)).
  - destruct (evs_for T (b_evs b)); cbn [app filter item_idx]; [reflexivity|]. rewrite E. reflexivity.
  - destruct (evs_for T (b_evs b)); cbn [app filter item_idx]; [reflexivity|]. rewrite E. reflexivity.
Qed.

Lemma filter_all {A} (p : A -> bool) l : Forall (fun x => p x = true) l -> filter p l = l.
Proof. induction 1 as [|x l Hx _ IH]; cbn [filter]; [reflexivity|]. rewrite Hx, IH. reflexivity. Qed.

Lemma filter_none {A} (p : A -> bool) l : Forall (fun x => p x = false) l -> filter p l = [].
Proof. induction 1 as [|x l Hx _ IH]; cbn [filter]; [reflexivity|]. rewrite Hx, IH. reflexivity. Qed.

Lemma log_ok_filter p log : log_ok log -> log_ok (filter p log).
Proof.
  unfold log_ok. intros H. rewrite Forall_forall in *. intros b Hb. apply filter_In in Hb as [Hb _]. apply H, Hb.
Qed.

(* ------------------------------------------------------------------ the view is a committed state *)

Theorem view_exact c ls k x :
  env_ok c ls -> gap_free c ls ->
  client_of (run c ls) k = Some x -> c_idx x <> 0 -> c_epoch x = st_epoch (run c ls) ->
  forall key, aget key (c_view x) = content_at (run c ls) (c_ts x) (c_idx x) key.
Proof.
  intros He Hg Hx Hne Hep. pose proof (ginv_of_env true c ls He (fun _ => Hg)) as G.
  set (st := run c ls) in *. destruct G as [Gnd Gst Glok Ginc Ghi Gh Gr Gc Gn].
  destruct Gh as (pub & r & Hlog & Hr & Hall & Hbuf & Hcl).
  destruct (Hcl k x Hx) as (_ & _ & _ & _ & Hk & _).
  destruct Hk as [Hk|[[_ (A & B1 & B2 & D & s & Hc)]|[Hk _]]]; [contradiction| |cbn in Hk; contradiction].
  destruct Hc as [Hsp Hv Hle Hgt Hci Hss Hgf]. destruct (Hgf eq_refl) as [-> ->].
  cbn [lastidx map last] in Hci. cbn [hist_of h_log h_base] in *. cbn [app] in *. rewrite app_nil_r in *.
  intros key. rewrite (Hv key). unfold content_at. destruct (matches (c_ts x) key) eqn:Em; [|reflexivity].
  change (apply [] ?m) with m. unfold log_upto.
  rewrite (aget_all_evs_proj (c_ts x)) by (try apply log_ok_filter; assumption).
  rewrite (proj_filter (c_ts x) (fun i => N.leb i (c_idx x))), Hsp, filter_app, Hci.
  rewrite filter_all, filter_none, app_nil_r; [reflexivity| |].
  - eapply Forall_impl; [|exact Hgt]. cbn. intros it H. apply N.leb_gt. exact H.
  - eapply Forall_impl; [|exact Hle]. cbn. intros it H. apply N.leb_le. exact H.
Qed.

(* what the direct query returns now is the content at the last raft index *)
Theorem query_is_log c ls T key :
  env_ok c ls -> content_now (run c ls) T key = content_at (run c ls) T (st_hi (run c ls)) key.
Proof.
  intros He. pose proof (ginv_of_env false c ls He (fun H => ltac:(discriminate))) as G.
  set (st := run c ls) in *. destruct G as [Gnd Gst Glok Ginc Ghi Gh Gr Gc Gn].
  destruct Gh as (pub & r & Hlog & Hr & Hall & _).
  unfold content_now, content_at. destruct (matches T key); [|reflexivity]. rewrite (Gst key).
  unfold log_upto. rewrite filter_all; [reflexivity|]. eapply Forall_impl; [|exact Hall].
  cbn. intros b H. apply N.leb_le. lia.
Qed.

(* ------------------------------------------------------------------ eventually the current state *)

Theorem eventual c ls k x :
  env_ok c ls ->
  client_of (run c ls) k = Some x -> is_open x = true -> streaming x = true ->
  pending (run c ls) x = [] ->
  forall key, aget key (c_view x) = content_now (run c ls) (c_ts x) key.
Proof.
  intros He Hx Hop Hstr Hpen. pose proof (ginv_of_env false c ls He (fun H => ltac:(discriminate))) as G.
  set (st := run c ls) in *. destruct G as [Gnd Gst Glok Ginc Ghi Gh Gr Gc Gn].
  destruct Gh as (pub & r & Hlog & Hr & Hall & Hbuf & Hcl).
  destruct (Hcl k x Hx) as (_ & _ & _ & _ & _ & Hsub).
  unfold is_open in Hop. unfold streaming in Hstr. unfold pending in Hpen.
  destruct (c_sub x) as [sb|]; [|discriminate]. destruct (s_status sb); try discriminate.
  destruct Hsub as [Hl [Hst|Hsn]].
  2: { destruct Hsn as (acc & rest & A & B2 & D & s & [[Hh _]|(_ & _ & Hpre)] & _).
       - rewrite Hh in Hstr. discriminate.
       - rewrite Hpre in Hstr. destruct (c_h x); discriminate. }
  destruct Hst as (Hpre & _ & _ & A & B1 & B2 & D & s & Hc & Ht).
  rewrite Hpre in Hpen. cbn [app] in Hpen. unfold tail in Ht. cbn [hist_of h_queue] in Ht.
  assert (Hbd : B2 ++ D = []).
  { destruct Hl as (tb & Etb & _). unfold buf_items in Hpen. rewrite Etb in Hpen, Ht. cbn [ob_items] in Ht.
    rewrite <- Ht. exact Hpen. }
  apply app_eq_nil in Hbd as [-> ->].
  destruct Hc as [Hsp Hv _ _ _ _ _]. cbn [hist_of h_log h_base] in *. rewrite !app_nil_r in *.
  intros key. rewrite (Hv key). unfold content_now. destruct (matches (c_ts x) key) eqn:Em; [|reflexivity].
  rewrite (Gst key), (aget_all_evs_proj (c_ts x)) by assumption. rewrite Hsp, ievs_app.
  apply apply_replay.
Qed.

(* ------------------------------------------------------------------ nothing skipped, nothing twice *)

Theorem no_skip c ls k x :
  env_ok c ls -> gap_free c ls ->
  client_of (run c ls) k = Some x -> is_open x = true -> streaming x = true ->
  pending (run c ls) x = proj (c_ts x) (log_after (c_idx x) (st_log (run c ls))).
Proof.
  intros He Hg Hx Hop Hstr. pose proof (ginv_of_env true c ls He (fun _ => Hg)) as G.
  set (st := run c ls) in *. destruct G as [Gnd Gst Glok Ginc Ghi Gh Gr Gc Gn].
  destruct Gh as (pub & r & Hlog & Hr & Hall & Hbuf & Hcl).
  destruct (Hcl k x Hx) as (_ & _ & _ & _ & _ & Hsub).
  unfold is_open in Hop. unfold streaming in Hstr. unfold pending.
  destruct (c_sub x) as [sb|]; [|discriminate]. destruct (s_status sb); try discriminate.
  destruct Hsub as [Hl [Hst|Hsn]].
  2: { destruct Hsn as (acc & rest & A & B2 & D & s & [[Hh _]|(_ & _ & Hpre)] & _).
       - rewrite Hh in Hstr. discriminate.
       - rewrite Hpre in Hstr. destruct (c_h x); discriminate. }
  destruct Hst as (Hpre & _ & _ & A & B1 & B2 & D & s & Hc & Ht).
  destruct Hc as [Hsp Hv Hle Hgt Hci Hss Hgf]. destruct (Hgf eq_refl) as [-> ->].
  cbn [lastidx map last] in Hci. cbn [hist_of h_log h_queue] in *. cbn [app] in *. rewrite app_nil_r in *.
  rewrite Hpre. cbn [app]. unfold tail in Ht.
  destruct Hl as (tb & Etb & _). unfold buf_items. rewrite Etb in *. cbn [ob_items hist_of h_queue] in Ht. rewrite Ht.
  unfold log_after. rewrite (proj_filter (c_ts x) (fun i => N.ltb (c_idx x) i)), Hsp, filter_app, Hci.
  rewrite filter_none, filter_all; [reflexivity| |].
  - eapply Forall_impl; [|exact Hgt]. cbn. intros it H. apply N.ltb_lt. exact H.
  - eapply Forall_impl; [|exact Hle]. cbn. intros it H. apply N.ltb_ge. exact H.
Qed.

(* ------------------------------------------------------------------ delivered indexes never decrease *)

Theorem monotone c ls k x st' it x' :
  env_ok c ls -> gap_free c ls ->
  client_of (run c ls) k = Some x ->
  step (run c ls) (LNext k) = (st', ODeliver it) -> it <> INstf ->
  client_of st' k = Some x' ->
  c_idx x <= c_idx x'.
Proof.
  intros He Hg Hx Hstep Hnot Hx'. pose proof (ginv_of_env true c ls He (fun _ => Hg)) as G.
  set (st := run c ls) in *. destruct G as [Gnd Gst Glok Ginc Ghi Gh Gr Gc Gn].
  destruct Gh as (pub & r & Hlog & Hr & Hall & Hbuf & Hcl).
  destruct (Hcl k x Hx) as (_ & _ & _ & Hs & _ & Hsub).
  cbn [step] in Hstep. unfold do_next in Hstep. unfold client_of in Hx, Hx'. rewrite Hx in Hstep.
  destruct (c_sub x) as [sb|]; [|discriminate]. destruct (s_status sb) eqn:Est.
  2, 3: destruct (c_rpc x); discriminate.
  destruct Hsub as [Hl Hsub].
  destruct (s_pre sb) as [|it0 pre'] eqn:Epre.
  - (* from the topic buffer *)
    destruct (nth_error (buf_items (c_ts x) (st_bufs st)) (s_off sb)) as [it1|] eqn:Enth; [|discriminate].
    injection Hstep as <- <-. cbn [with_clients st_clients] in Hx'. rewrite find_put_client_same in Hx'.
    injection Hx' as <-.
    destruct Hsub as [Hst|Hsn].
    2: { destruct Hsn as (acc & rest & A & B2 & D & s & [[_ Hpre]|(_ & _ & Hpre)] & _);
         [destruct rest; discriminate|discriminate]. }
    destruct Hst as (_ & Hh & _ & A & B1 & B2 & D & s & Hc & Ht).
    destruct Hc as [Hsp Hv Hle Hgt Hci Hss Hgf]. destruct (Hgf eq_refl) as [-> ->].
    cbn [lastidx map last] in Hci. cbn [app] in Ht. unfold tail in Ht.
    destruct Hl as (tb & Etb & _). unfold buf_items in Enth. rewrite Etb in *. cbn [ob_items] in Ht.
    rewrite (nth_error_skipn _ _ _ Enth) in Ht. cbn [app] in Ht. destruct D as [|d D']; [discriminate|].
    injection Ht as -> _. apply Forall_cons_iff in Hgt as [Hd _].
    unfold handle. destruct Hh as [-> | ->]; destruct d; cbn [c_idx item_idx] in *; try lia.
    all: congruence.
  - (* from the snapshot *)
    injection Hstep as <- <-. cbn [with_clients st_clients] in Hx'. rewrite find_put_client_same in Hx'.
    injection Hx' as <-.
    destruct Hsub as [Hst|Hsn]; [destruct Hst as (Hp & _); discriminate|].
    destruct Hsn as (acc & rest & A & B2 & D & s & [[Hh Hpre]|(Hh & _ & Hpre)] & Hso).
    + rewrite (Hs acc Hh). lia.
    + injection Hpre as -> _. congruence.
Qed.

(* ------------------------------------------------------------------ forced resubscription *)

Lemma client_of_with st cl : client_of (with_clients st cl) = fun c => find_client c cl.
Proof. reflexivity. Qed.

Lemma release_clients T st : st_clients (release T st) = st_clients st.
Proof. unfold release. destruct (find_buf T (st_bufs st)) as [b|]; [|reflexivity]. destruct (tb_refs b) as [|[|n]]; reflexivity. Qed.

Lemma sub_core_other st k x0 q c :
  c <> k -> client_of (fst (do_subscribe_core st k x0 q)) c = client_of st c.
Proof.
  intros Hne. unfold do_subscribe_core, client_of.
  destruct (sub_path st (c_ts x0) (c_idx x0)); cbn [fst with_clients st_clients].
  - apply find_put_client_other, Hne.
  - apply find_put_client_other, Hne.
  - destruct (find_snap (c_ts x0) (st_cache st)); cbn [st_clients]; apply find_put_client_other, Hne.
  - destruct (find_snap (c_ts x0) (st_cache st)); cbn [st_clients]; apply find_put_client_other, Hne.
Qed.

Lemma unsub_other st k c : c <> k -> client_of (fst (do_unsub st k)) c = client_of st c.
Proof.
  intros Hne. unfold do_unsub, client_of. destruct (find_client k (st_clients st)) as [x|]; [|reflexivity].
  destruct (c_sub x); [|reflexivity]. cbn [fst]. rewrite release_clients. cbn [with_clients st_clients].
  apply find_put_client_other, Hne.
Qed.

(* a closed subscription stays closed until its client unsubscribes or subscribes again *)
Theorem closed_stays st c l :
  closed_for st c -> touches_client c l = false -> closed_for (fst (step st l)) c.
Proof.
  intros (x & sb & Hx & Hs & Hst) Ht. unfold closed_for, client_of in *.
  destruct l as [b| |k T tok rpc q|k|k|rows hi|T]; cbn [step fst touches_client] in *.
  - exists x, sb. auto.
  - unfold do_publish. destruct (st_queue st) as [|b q]; [exists x, sb; auto|]. cbn [fst st_clients].
    rewrite find_client_map, Hx. cbn [option_map]. unfold close_sub_acl. rewrite Hs.
    destruct (s_status sb) eqn:E; [congruence| |]; exists x, sb; rewrite ?E; auto.
  - apply N.eqb_neq in Ht. unfold do_subscribe. destruct (find_client k (st_clients st)) as [y|] eqn:Ek.
    + pose proof (sub_core_other (fst (do_unsub st k)) k (drop_sub y) q c Ht) as H1.
      pose proof (unsub_other st k c Ht) as H2. unfold client_of in H1, H2. rewrite H1, H2. exists x, sb. auto.
    + pose proof (sub_core_other st k (Client T tok rpc [] 0 (HSnap []) None (st_epoch st)) q c Ht) as H1.
      unfold client_of in H1. rewrite H1. exists x, sb. auto.
  - unfold do_next. destruct (find_client k (st_clients st)) as [y|] eqn:Ek; [|exists x, sb; auto].
    destruct (N.eq_dec k c) as [->|Hne].
    + rewrite Hx in Ek. injection Ek as <-. rewrite Hs. destruct (s_status sb) eqn:E; [congruence| |].
      all: destruct (c_rpc x); cbn [fst with_clients st_clients]; [rewrite find_put_client_same|];
        eexists _, sb; cbn [c_sub]; rewrite ?E; repeat split; eauto; congruence.
    + destruct (c_sub y) as [sby|]; [|exists x, sb; auto].
      destruct (s_status sby).
      * destruct (s_pre sby); [destruct (nth_error _ _)|]; cbn [fst with_clients st_clients];
          rewrite ?find_put_client_other by congruence; exists x, sb; auto.
      * destruct (c_rpc y); cbn [fst with_clients st_clients]; rewrite ?find_put_client_other by congruence; exists x, sb; auto.
      * destruct (c_rpc y); cbn [fst with_clients st_clients]; rewrite ?find_put_client_other by congruence; exists x, sb; auto.
  - apply N.eqb_neq in Ht. pose proof (unsub_other st k c Ht) as H2. unfold client_of in H2. rewrite H2. exists x, sb. auto.
  - cbn [do_restore st_clients]. rewrite find_client_map, Hx. cbn [option_map]. unfold force_close. rewrite Hs.
    destruct (s_status sb) eqn:E; [congruence| |]; exists x, sb; rewrite ?E; auto.
  - exists x, sb. auto.
Qed.

Theorem closed_next st c :
  closed_for st c -> exists s, snd (step st (LNext c)) = OClosed s /\ s <> Open.
Proof.
  intros (x & sb & Hx & Hs & Hst). unfold client_of in Hx. cbn [step]. unfold do_next. rewrite Hx, Hs.
  destruct (s_status sb) eqn:E; [congruence| |]; destruct (c_rpc x); cbn [snd]; eexists; split; eauto; discriminate.
Qed.

Theorem restore_closes st rows hi c x sb :
  client_of st c = Some x -> c_sub x = Some sb -> closed_for (fst (step st (LRestore rows hi))) c.
Proof.
  intros Hx Hs. unfold closed_for, client_of in *. cbn [step fst do_restore st_clients].
  rewrite find_client_map, Hx. cbn [option_map]. unfold force_close. rewrite Hs.
  destruct (s_status sb) eqn:E.
  - eexists _, _. split; [reflexivity|]. cbn [c_sub]. split; [reflexivity|]. cbn. discriminate.
  - exists x, sb. rewrite E. repeat split; auto. discriminate.
  - exists x, sb. rewrite E. repeat split; auto. discriminate.
Qed.

Theorem acl_publish_closes st b q c x sb :
  st_queue st = b :: q -> client_of st c = Some x -> c_sub x = Some sb ->
  In (c_tok x) (b_close b) -> closed_for (fst (step st LPublish)) c.
Proof.
  intros Hq Hx Hs Hin. unfold closed_for, client_of in *. cbn [step]. unfold do_publish. rewrite Hq.
  cbn [fst st_clients]. rewrite find_client_map, Hx. cbn [option_map]. unfold close_sub_acl. rewrite Hs.
  assert (existsb (N.eqb (c_tok x)) (b_close b) = true) as He.
  { apply existsb_exists. exists (c_tok x). split; [exact Hin|apply N.eqb_refl]. }
  destruct (s_status sb) eqn:E.
  - rewrite He. eexists _, _. split; [reflexivity|]. cbn [c_sub]. split; [reflexivity|]. cbn. discriminate.
  - exists x, sb. rewrite E. repeat split; auto. discriminate.
  - exists x, sb. rewrite E. repeat split; auto. discriminate.
Qed.

Fixpoint none_touch (c : N) (ls : list label) : bool :=
  match ls with [] => true | l :: r => negb (touches_client c l) && none_touch c r end.

Theorem closed_until_resubscribe st c ls :
  closed_for st c -> none_touch c ls = true ->
  exists s, snd (step (run_from st ls) (LNext c)) = OClosed s /\ s <> Open.
Proof.
  revert st. induction ls as [|l r IH]; intros st Hc Hn; cbn [run_from fold_left].
  - apply closed_next, Hc.
  - cbn [none_touch] in Hn. apply andb_true_iff in Hn as [H1 H2]. apply negb_true_iff in H1.
    apply IH; [|exact H2]. apply closed_stays; assumption.
Qed.

(* ------------------------------------------------------------------ witnesses *)

Definition T_web : ts := (0, Some 0).
Definition kA : key := (0, 0, 3).
Definition kB : key := (0, 0, 4).

(* two commits are queued, a subscription starts, then the queue is published (DESIGN.md 9, finding 11):
   snapshot@11, EndOfSnapshot@11, then the event of index 10 *)
Definition gap_sched : list label :=
  [ LCommit (Batch 10 [Ev kA (Some 1)] [] []);
    LCommit (Batch 11 [Ev kB (Some 2)] [] []);
    LSubscribe 0 T_web 0 true 11;
    LPublish; LPublish;
    LNext 0; LNext 0; LNext 0 ].

(* same gap; the second commit changes both rows: after the event of index 10 the view is
   {A:1, B:3}, which is the content at no index ({A:1} at 10, {A:2, B:3} from 11 on) *)
Definition hybrid_sched : list label :=
  [ LCommit (Batch 10 [Ev kA (Some 1)] [] []);
    LCommit (Batch 11 [Ev kA (Some 2); Ev kB (Some 3)] [] []);
    LSubscribe 0 T_web 0 true 11;
    LPublish; LPublish;
    LNext 0; LNext 0; LNext 0; LNext 0 ].

(* a second subscriber keeps the topic buffer alive across a restore: the re-subscribing client is
   spliced onto the old buffer and receives the event of index 11 of the replaced store *)
Definition restore_buffer_sched : list label :=
  [ LCommit (Batch 10 [Ev kA (Some 1)] [] []); LPublish;
    LSubscribe 0 T_web 0 true 10; LSubscribe 1 T_web 1 true 10;
    LNext 0; LNext 0;
    LCommit (Batch 11 [Ev kB (Some 2)] [] []); LPublish; LNext 0;
    LRestore [(kA, 1)] 11;
    LNext 0;
    LSubscribe 0 T_web 0 true 10;
    LNext 0; LNext 0; LNext 0 ].

(* a batch of the replaced store is still queued when the restore happens *)
Definition restore_queue_sched : list label :=
  [ LCommit (Batch 10 [Ev kA (Some 1)] [] []); LPublish;
    LCommit (Batch 11 [Ev kB (Some 2)] [] []);
    LRestore [(kA, 1)] 11;
    LSubscribe 0 T_web 0 true 10;
    LPublish;
    LNext 0; LNext 0; LNext 0 ].

(* a commit changes the query result without an event (catalog_events.go: an instance that stops
   being connect-native leaves the connect query but no event goes to the connect topic) *)
Definition T_conn : ts := (1, Some 0).
Definition kC : key := (1, 0, 3).
Definition silent_sched : list label :=
  [ LCommit (Batch 10 [Ev kC (Some 1)] [] []); LPublish;
    LSubscribe 0 T_conn 0 true 10; LNext 0; LNext 0;
    LCommit (Batch 11 [] [] [Ev kC None]); LPublish; LNext 0 ].

(* a schedule that meets every assumption and delivers a snapshot and two events *)
Definition clean_sched : list label :=
  [ LCommit (Batch 10 [Ev kA (Some 1)] [] []); LPublish;
    LSubscribe 0 T_web 0 true 10; LNext 0; LNext 0;
    LCommit (Batch 11 [Ev kB (Some 2)] [] []); LPublish; LNext 0;
    LCommit (Batch 12 [Ev kA None] [7] []); LPublish; LNext 0 ].

Definition all_ok (c : bool) (ls : list label) : bool :=
  valid_from (init c) ls && all_from events_ok (init c) ls && all_from restore_ok (init c) ls.

Lemma all_ok_env c ls : all_ok c ls = true -> env_ok c ls.
Proof.
  unfold all_ok, env_ok. intros H. apply andb_true_iff in H as [H H3]. apply andb_true_iff in H as [H1 H2]. auto.
Qed.

Lemma monotone_witness :
  exists x st' it x',
    env_ok true gap_sched /\
    client_of (run true gap_sched) 0 = Some x /\
    step (run true gap_sched) (LNext 0) = (st', ODeliver it) /\ it <> INstf /\
    client_of st' 0 = Some x' /\ c_idx x = 11 /\ c_idx x' = 10.
Proof.
  eexists _, _, _, _. split; [apply all_ok_env; vm_compute; reflexivity|].
  split; [vm_compute; reflexivity|]. split; [vm_compute; reflexivity|].
  split; [discriminate|]. split; [vm_compute; reflexivity|]. split; vm_compute; reflexivity.
Qed.

Lemma hybrid_witness :
  exists x,
    env_ok true hybrid_sched /\
    client_of (run true hybrid_sched) 0 = Some x /\ c_idx x = 10 /\
    c_epoch x = st_epoch (run true hybrid_sched) /\
    aget kB (c_view x) = Some 3 /\
    content_at (run true hybrid_sched) (c_ts x) (c_idx x) kB = None.
Proof.
  eexists. split; [apply all_ok_env; vm_compute; reflexivity|].
  split; [vm_compute; reflexivity|]. repeat split; vm_compute; reflexivity.
Qed.

Definition stale_view (c : bool) (ls : list label) : Prop :=
  exists x key,
    client_of (run c ls) 0 = Some x /\ is_open x = true /\ streaming x = true /\
    pending (run c ls) x = [] /\ aget key (c_view x) <> content_now (run c ls) (c_ts x) key.

Lemma restore_buffer_witness :
  valid_from (init true) restore_buffer_sched = true /\
  all_from events_ok (init true) restore_buffer_sched = true /\
  gap_free true restore_buffer_sched /\ st_queue (run true restore_buffer_sched) = [] /\
  stale_view true restore_buffer_sched.
Proof.
  split; [vm_compute; reflexivity|]. split; [vm_compute; reflexivity|]. split; [vm_compute; reflexivity|].
  split; [vm_compute; reflexivity|].
  eexists _, kB. split; [vm_compute; reflexivity|]. split; [vm_compute; reflexivity|].
  split; [vm_compute; reflexivity|]. split; [vm_compute; reflexivity|]. vm_compute. discriminate.
Qed.

Lemma restore_queue_witness :
  valid_from (init true) restore_queue_sched = true /\
  all_from events_ok (init true) restore_queue_sched = true /\
  st_queue (run true restore_queue_sched) = [] /\
  stale_view true restore_queue_sched.
Proof.
  split; [vm_compute; reflexivity|]. split; [vm_compute; reflexivity|].
  split; [vm_compute; reflexivity|].
  eexists _, kB. split; [vm_compute; reflexivity|]. split; [vm_compute; reflexivity|].
  split; [vm_compute; reflexivity|]. split; [vm_compute; reflexivity|]. vm_compute. discriminate.
Qed.

Lemma silent_witness :
  valid_from (init true) silent_sched = true /\
  all_from restore_ok (init true) silent_sched = true /\
  gap_free true silent_sched /\ st_queue (run true silent_sched) = [] /\
  stale_view true silent_sched.
Proof.
  split; [vm_compute; reflexivity|]. split; [vm_compute; reflexivity|]. split; [vm_compute; reflexivity|].
  split; [vm_compute; reflexivity|].
  eexists _, kC. split; [vm_compute; reflexivity|]. split; [vm_compute; reflexivity|].
  split; [vm_compute; reflexivity|]. split; [vm_compute; reflexivity|]. vm_compute. discriminate.
Qed.

Lemma clean_witness :
  exists x,
    env_ok true clean_sched /\ gap_free true clean_sched /\
    client_of (run true clean_sched) 0 = Some x /\ c_idx x = 12 /\
    c_epoch x = st_epoch (run true clean_sched) /\ is_open x = true /\ streaming x = true /\
    c_view x = [(kB, 2)] /\ pending (run true clean_sched) x = [].
Proof.
  eexists. split; [apply all_ok_env; vm_compute; reflexivity|]. split; [vm_compute; reflexivity|].
  split; [vm_compute; reflexivity|]. repeat split; vm_compute; reflexivity.
Qed.
