(* C11 — the property theorems, derived from the invariant [ginv], and the witnesses. *)
From Coq Require Import Sorted.
From Verif Require Import Base.Prelude Stream.Model Stream.Amap Stream.Lookup Stream.Inv Stream.Preserve.
Local Open Scope N_scope.

(* ------------------------------------------------------------------ reaching the invariant *)

Lemma ginv_of_env c ls : env_ok c ls -> ginv (run c ls).
Proof. intros H. unfold run. apply ginv_run; [apply ginv_init|exact H]. Qed.

(* ------------------------------------------------------------------ filters of projected logs *)

Lemma proj_filter T (p : N -> bool) log :
  proj T (filter (fun b => p (b_idx b)) log) = filter (fun it => p (item_idx it)) (proj T log).
Proof.
  induction log as [|b r IH]; cbn [filter proj flat_map]; [reflexivity|]. fold (proj T r).
  rewrite filter_app, <- IH. destruct (p (b_idx b)) eqn:E; cbn [proj flat_map]; fold (proj T (filter (fun b0 => p (b_idx b0)) r)).
  - destruct (evs_for T (b_evs b)); cbn [app filter item_idx]; [reflexivity|]. rewrite E. reflexivity.
  - destruct (evs_for T (b_evs b)); cbn [app filter item_idx]; [reflexivity|]. rewrite E. reflexivity.
Qed.

Lemma filter_all {A} (p : A -> bool) l : Forall (fun x => p x = true) l -> filter p l = l.
Proof. induction 1 as [|x l Hx _ IH]; cbn [filter]; [reflexivity|]. rewrite Hx, IH. reflexivity. Qed.

Lemma filter_none {A} (p : A -> bool) l : Forall (fun x => p x = false) l -> filter p l = [].
Proof. induction 1 as [|x l Hx _ IH]; cbn [filter]; [reflexivity|]. rewrite Hx, IH. reflexivity. Qed.

(* what Next will still deliver, in terms of the invariant's R ++ E ++ D *)
Lemma pending_stream st x sb tb A D R E :
  c_sub x = Some sb -> s_pre sb = [] -> find_buf (c_ts x) (st_bufs st) = Some tb ->
  tail (hist_of st) (c_ts x) (Some tb) (s_off sb) = R ++ E ++ D ->
  Forall (fun it => skipped (s_snap sb) it = true) R ->
  dup_of (s_snap sb) (c_idx x) A E ->
  Forall (fun it => c_idx x < item_idx it) D -> s_snap sb <= c_idx x ->
  pending st x = E ++ D.
Proof.
  intros Es Hpre Eb Ht HR HE HD Hsn. unfold pending. rewrite Es, Hpre. cbn [app].
  unfold buf_items. rewrite Eb. unfold tail in Ht. cbn [ob_items hist_of h_lq] in Ht. rewrite Ht.
  rewrite filter_app, filter_none, filter_all; [reflexivity| |].
  - apply Forall_app. split.
    + destruct HE as [->|(A' & e & -> & _ & Hei & Hcs)]; [constructor|].
      constructor; [|constructor]. rewrite not_skipped_ge by lia. reflexivity.
    + eapply Forall_impl; [|exact HD]. cbn. intros it H. rewrite not_skipped_ge by lia. reflexivity.
  - eapply Forall_impl; [|exact HR]. cbn. intros it H. rewrite H. reflexivity.
Qed.

(* the stream-phase part of the invariant of an open, streaming client *)
Lemma stream_inv c ls k x :
  env_ok c ls -> client_of (run c ls) k = Some x -> is_open x = true -> streaming x = true ->
  exists sb tb A D R E,
    c_sub x = Some sb /\ s_pre sb = [] /\ find_buf (c_ts x) (st_bufs (run c ls)) = Some tb /\
    core (hist_of (run c ls)) (c_ts x) (c_view x) (c_idx x) A D /\
    tail (hist_of (run c ls)) (c_ts x) (Some tb) (s_off sb) = R ++ E ++ D /\
    Forall (fun it => skipped (s_snap sb) it = true) R /\ dup_of (s_snap sb) (c_idx x) A E /\
    s_snap sb <= c_idx x.
Proof.
  intros He Hx Hop Hstr. pose proof (ginv_of_env c ls He) as G.
  set (st := run c ls) in *. destruct G as [Gnd Gst Ginc Ghi Gq Gh Gr Gi Gc Gn].
  destruct Gh as (pub & r & Hlog & Hr & Hall & Hbuf & Hcl).
  destruct (Hcl k x Hx) as (_ & _ & _ & _ & _ & Hsub).
  unfold is_open in Hop. unfold streaming in Hstr.
  destruct (c_sub x) as [sb|]; [|discriminate]. destruct (s_status sb); try discriminate.
  destruct Hsub as [Hl [Hst|Hsn]].
  2: { destruct Hsn as (_ & acc & rest & A & B2 & D & s & [[Hh _]|(_ & _ & Hpre)] & _).
       - rewrite Hh in Hstr. discriminate.
       - rewrite Hpre in Hstr. destruct (c_h x); discriminate. }
  destruct Hst as (Hpre & _ & _ & Hsn & A & D & R & E & Hc & Ht & HR & HE).
  destruct Hl as (tb & Etb & _). rewrite Etb in Ht.
  exists sb, tb, A, D, R, E. split; [reflexivity|]. split; [exact Hpre|]. split; [exact Etb|].
  split; [exact Hc|]. split; [exact Ht|]. split; [exact HR|]. split; [exact HE|exact Hsn].
Qed.

(* ------------------------------------------------------------------ the view is a committed state *)

Theorem view_exact c ls k x :
  env_ok c ls ->
  client_of (run c ls) k = Some x -> c_idx x <> 0 -> c_epoch x = st_epoch (run c ls) ->
  forall key, aget key (c_view x) = content_at (run c ls) (c_ts x) (c_idx x) key.
Proof.
  intros He Hx Hne Hep. pose proof (ginv_of_env c ls He) as G.
  set (st := run c ls) in *. destruct G as [Gnd Gst Ginc Ghi Gq Gh Gr Gi Gc Gn].
  destruct Gh as (pub & r & Hlog & Hr & Hall & Hbuf & Hcl).
  destruct (Hcl k x Hx) as (_ & _ & _ & _ & Hk & _).
  destruct Hk as [Hk|[[_ (A & D & Hc)]|[Hk _]]]; [contradiction| |cbn in Hk; contradiction].
  destruct Hc as [Hsp Hv Hle Hgt Hss]. cbn [hist_of h_log h_base] in *.
  intros key. rewrite (Hv key). unfold content_at. destruct (matches (c_ts x) key) eqn:Em; [|reflexivity].
  unfold log_upto. rewrite (aget_all_evs_proj (c_ts x)) by assumption.
  rewrite (proj_filter (c_ts x) (fun i => N.leb i (c_idx x))), Hsp, filter_app.
  rewrite filter_all, filter_none, app_nil_r; [reflexivity| |].
  - eapply Forall_impl; [|exact Hgt]. cbn. intros it H. apply N.leb_gt. exact H.
  - eapply Forall_impl; [|exact Hle]. cbn. intros it H. apply N.leb_le. exact H.
Qed.

(* what the direct query returns now is the content at the last raft index *)
Theorem query_is_log c ls T key :
  env_ok c ls -> content_now (run c ls) T key = content_at (run c ls) T (st_hi (run c ls)) key.
Proof.
  intros He. pose proof (ginv_of_env c ls He) as G.
  set (st := run c ls) in *. destruct G as [Gnd Gst Ginc Ghi Gq Gh Gr Gi Gc Gn].
  destruct Gh as (pub & r & Hlog & Hr & Hall & _).
  unfold content_now, content_at. destruct (matches T key); [|reflexivity]. rewrite (Gst key).
  unfold log_upto. rewrite filter_all; [reflexivity|]. eapply Forall_impl; [|exact Hall].
  cbn. intros b H. apply N.leb_le. lia.
Qed.

(* ------------------------------------------------------------------ eventually the current state *)

Theorem eventual c ls k x :
  env_ok c ls ->
  client_of (run c ls) k = Some x -> is_open x = true -> streaming x = true ->
  pending (run c ls) x = [] ->
  forall key, aget key (c_view x) = content_now (run c ls) (c_ts x) key.
Proof.
  intros He Hx Hop Hstr Hpen.
  destruct (stream_inv c ls k x He Hx Hop Hstr) as (sb & tb & A & D & R & E & Es & Hpre & Eb & Hc & Ht & HR & HE & Hsn).
  destruct Hc as [Hsp Hv Hle Hgt Hss].
  rewrite (pending_stream _ _ _ _ A D R E Es Hpre Eb Ht HR HE Hgt Hsn) in Hpen.
  apply app_eq_nil in Hpen as [_ ->].
  pose proof (ginv_of_env c ls He) as [_ Gst _ _ _ _ _ _ _ _].
  cbn [hist_of h_log h_base] in *. rewrite app_nil_r in Hsp.
  intros key. rewrite (Hv key). unfold content_now. destruct (matches (c_ts x) key) eqn:Em; [|reflexivity].
  rewrite (Gst key), (aget_all_evs_proj (c_ts x)) by assumption. rewrite Hsp. reflexivity.
Qed.

(* ------------------------------------------------------------------ nothing skipped, nothing twice *)

(* [dup]: nothing, or the single batch at the client's own index — the one at the snapshot's index,
   which the view already contains and which Next delivers once more *)
Definition dup_batch (st : state) (x : client) (dup : list item) : Prop :=
  dup = [] \/ exists e, dup = [e] /\ item_idx e = c_idx x /\ In e (proj (c_ts x) (st_log st)).

Theorem no_skip c ls k x :
  env_ok c ls ->
  client_of (run c ls) k = Some x -> is_open x = true -> streaming x = true ->
  exists dup, dup_batch (run c ls) x dup /\
              pending (run c ls) x = dup ++ proj (c_ts x) (log_after (c_idx x) (st_log (run c ls))).
Proof.
  intros He Hx Hop Hstr.
  destruct (stream_inv c ls k x He Hx Hop Hstr) as (sb & tb & A & D & R & E & Es & Hpre & Eb & Hc & Ht & HR & HE & Hsn).
  destruct Hc as [Hsp Hv Hle Hgt Hss].
  rewrite (pending_stream _ _ _ _ A D R E Es Hpre Eb Ht HR HE Hgt Hsn).
  cbn [hist_of h_log] in Hsp. exists E. split.
  { destruct HE as [->|(A' & e & -> & EA & Hei & _)]; [left; reflexivity|]. right. exists e.
    split; [reflexivity|]. split; [exact Hei|]. rewrite Hsp, EA, !in_app_iff. left; right; left; reflexivity. }
  f_equal. unfold log_after.
  rewrite (proj_filter (c_ts x) (fun i => N.ltb (c_idx x) i)), Hsp, filter_app.
  rewrite filter_none, filter_all; [reflexivity| |].
  - eapply Forall_impl; [|exact Hgt]. cbn. intros it H. apply N.ltb_lt. exact H.
  - eapply Forall_impl; [|exact Hle]. cbn. intros it H. apply N.ltb_ge. exact H.
Qed.

(* ------------------------------------------------------------------ delivered indexes never decrease *)

Theorem monotone c ls k x st' it x' :
  env_ok c ls ->
  client_of (run c ls) k = Some x ->
  step (run c ls) (LNext k) = (st', ODeliver it) -> it <> INstf ->
  client_of st' k = Some x' ->
  c_idx x <= c_idx x'.
Proof.
  intros He Hx Hstep Hnot Hx'. pose proof (ginv_of_env c ls He) as G.
  set (st := run c ls) in *. destruct G as [Gnd Gst Ginc Ghi Gq Gh Gr Gi Gc Gn].
  destruct Gh as (pub & r & Hlog & Hr & Hall & Hbuf & Hcl).
  destruct (Hcl k x Hx) as (_ & _ & _ & Hs & _ & Hsub).
  cbn [step] in Hstep. unfold do_next in Hstep. unfold client_of in Hx, Hx'. rewrite Hx in Hstep.
  destruct (c_sub x) as [sb|]; [|discriminate]. destruct (s_status sb) eqn:Est.
  2, 3: destruct (c_rpc x); discriminate.
  destruct Hsub as [Hl Hsub].
  destruct (drop_skipped (s_snap sb) (s_pre sb)) as [|it0 pre'] eqn:Epre.
  - (* from the topic buffer *)
    match type of Hstep with context [first_new _ (skipn _ ?items) _] => set (its := items) in * end.
    destruct (first_new (s_snap sb) (skipn (s_off sb) its) (s_off sb)) as [[it1 off']|] eqn:Efn; [|discriminate].
    injection Hstep as <- <-. cbn [with_clients st_clients] in Hx'. rewrite find_put_client_same in Hx'.
    injection Hx' as <-.
    destruct Hsub as [Hst|Hsn].
    2: { destruct Hsn as (Hs0 & acc & rest & A & B2 & D & s & [[_ Hpre]|(_ & _ & Hpre)] & _);
         rewrite Hs0, drop_skipped_zero, Hpre in Epre; [destruct rest; discriminate|discriminate]. }
    destruct Hst as (_ & Hh & _ & Hsn & A & D & R & E & Hc & Ht & HR & HE).
    destruct Hc as [Hsp Hv Hle Hgt Hss].
    destruct Hl as (tb & Etb & _ & Hid). unfold its in Efn. rewrite Etb, Hid, N.eqb_refl in Efn.
    rewrite Etb in Ht. unfold tail in Ht. cbn [ob_items] in Ht.
    apply app_eq_app in Ht as (l & [[HS HD]|[HRl HQ]]).
    2: { rewrite first_new_none in Efn; [discriminate|]. rewrite HRl in HR. apply Forall_app in HR. apply HR. }
    rewrite HS, first_new_skip in Efn by exact HR.
    destruct l as [|d l']; [discriminate|]. cbn [first_new] in Efn.
    assert (Hdge : s_snap sb <= item_idx d /\ c_idx x <= item_idx d).
    { destruct HE as [->|(A' & e & -> & EA & Hei & Hcs)]; cbn [app] in HD.
      - assert (In d D) as Hind by (rewrite HD; left; reflexivity).
        rewrite Forall_forall in Hgt. specialize (Hgt d Hind). lia.
      - injection HD as Hed _. subst e. lia. }
    rewrite not_skipped_ge in Efn by lia. injection Efn as <- _.
    unfold handle. destruct Hh as [-> | ->]; destruct d; cbn [c_idx item_idx] in *; try lia.
    all: congruence.
  - (* from the snapshot *)
    injection Hstep as <- <-. cbn [with_clients st_clients] in Hx'. rewrite find_put_client_same in Hx'.
    injection Hx' as <-.
    destruct Hsub as [Hst|Hsn]; [destruct Hst as (Hp & _); rewrite Hp in Epre; discriminate|].
    destruct Hsn as (Hs0 & acc & rest & A & B2 & D & s & [[Hh Hpre]|(Hh & _ & Hpre)] & Hso).
    + rewrite (Hs acc Hh). lia.
    + rewrite Hs0, drop_skipped_zero, Hpre in Epre. injection Epre as E1 _. congruence.
Qed.

(* ------------------------------------------------------------------ a batch applied twice *)

(* HealthView.Update / ConfigEntry(List)View.Update on Register/Upsert and Deregister/Delete events:
   applying the events of a batch a second time changes no row *)
Theorem batch_idempotent evs m : forall key, aget key (apply evs (apply evs m)) = aget key (apply evs m).
Proof. exact (apply_replay [] evs m). Qed.

(* ------------------------------------------------------------------ forced resubscription *)

Lemma release_clients T id st : st_clients (release T id st) = st_clients st.
Proof. apply release_hist. Qed.

Lemma sub_core_other st k x0 q c :
  c <> k -> client_of (fst (do_subscribe_core st k x0 q)) c = client_of st c.
Proof.
  intros Hne. unfold do_subscribe_core, client_of.
  destruct (sub_path st (c_ts x0) (c_idx x0)); cbn [fst with_clients st_clients].
  - apply find_put_client_other, Hne.
  - apply find_put_client_other, Hne.
  - destruct (find_snap (c_ts x0) (st_cache st)); cbn [st_clients]; apply find_put_client_other, Hne.
  - destruct (find_snap (c_ts x0) (st_cache st)); cbn [st_clients]; apply find_put_client_other, Hne.
Qed.

Lemma unsub_other st k c : c <> k -> client_of (fst (do_unsub st k)) c = client_of st c.
Proof.
  intros Hne. unfold do_unsub, client_of. destruct (find_client k (st_clients st)) as [x|]; [|reflexivity].
  destruct (c_sub x); [|reflexivity]. cbn [fst]. rewrite release_clients. cbn [with_clients st_clients].
  apply find_put_client_other, Hne.
Qed.

(* a closed subscription stays closed until its client unsubscribes or subscribes again *)
Theorem closed_stays st c l :
  closed_for st c -> touches_client c l = false -> closed_for (fst (step st l)) c.
Proof.
  intros (x & sb & Hx & Hs & Hst) Ht. unfold closed_for, client_of in *.
  destruct l as [b| |k T tok rpc q|k|k|rows hi|T]; cbn [step fst touches_client] in *.
  - exists x, sb. auto.
  - unfold do_publish. destruct (st_queue st) as [|[g b] q]; [exists x, sb; auto|].
    destruct (N.eqb g (st_epoch st)); cbn [fst st_clients]; [|exists x, sb; auto].
    rewrite find_client_map, Hx. cbn [option_map]. unfold close_sub_acl. rewrite Hs.
    destruct (s_status sb) eqn:E; [congruence| |]; exists x, sb; rewrite ?E; auto.
  - apply N.eqb_neq in Ht. unfold do_subscribe. destruct (find_client k (st_clients st)) as [y|] eqn:Ek.
    + pose proof (sub_core_other (fst (do_unsub st k)) k (drop_sub y) q c Ht) as H1.
      pose proof (unsub_other st k c Ht) as H2. unfold client_of in H1, H2. rewrite H1, H2. exists x, sb. auto.
    + pose proof (sub_core_other st k (Client T tok rpc [] 0 (HSnap []) None (st_epoch st)) q c Ht) as H1.
      unfold client_of in H1. rewrite H1. exists x, sb. auto.
  - unfold do_next. destruct (find_client k (st_clients st)) as [y|] eqn:Ek; [|exists x, sb; auto].
    destruct (N.eq_dec k c) as [->|Hne].
    + rewrite Hx in Ek. injection Ek as <-. rewrite Hs. destruct (s_status sb) eqn:E; [congruence| |].
      all: destruct (c_rpc x); cbn [fst with_clients st_clients]; [rewrite find_put_client_same|];
        eexists _, sb; cbn [c_sub]; rewrite ?E; repeat split; eauto; congruence.
    + destruct (c_sub y) as [sby|]; [|exists x, sb; auto].
      destruct (s_status sby).
      * destruct (drop_skipped (s_snap sby) (s_pre sby)); [destruct (first_new _ _ _) as [[? ?]|]|];
          cbn [fst with_clients st_clients]; rewrite ?find_put_client_other by congruence; exists x, sb; auto.
      * destruct (c_rpc y); cbn [fst with_clients st_clients]; rewrite ?find_put_client_other by congruence; exists x, sb; auto.
      * destruct (c_rpc y); cbn [fst with_clients st_clients]; rewrite ?find_put_client_other by congruence; exists x, sb; auto.
  - apply N.eqb_neq in Ht. pose proof (unsub_other st k c Ht) as H2. unfold client_of in H2. rewrite H2. exists x, sb. auto.
  - cbn [do_restore st_clients]. rewrite find_client_map, Hx. cbn [option_map]. unfold force_close. rewrite Hs.
    destruct (s_status sb) eqn:E; [congruence| |]; exists x, sb; rewrite ?E; auto.
  - exists x, sb. auto.
Qed.

Theorem closed_next st c :
  closed_for st c -> exists s, snd (step st (LNext c)) = OClosed s /\ s <> Open.
Proof.
  intros (x & sb & Hx & Hs & Hst). unfold client_of in Hx. cbn [step]. unfold do_next. rewrite Hx, Hs.
  destruct (s_status sb) eqn:E; [congruence| |]; destruct (c_rpc x); cbn [snd]; eexists; split; eauto; discriminate.
Qed.

Theorem restore_closes st rows hi c x sb :
  client_of st c = Some x -> c_sub x = Some sb -> closed_for (fst (step st (LRestore rows hi))) c.
Proof.
  intros Hx Hs. unfold closed_for, client_of in *. cbn [step fst do_restore st_clients].
  rewrite find_client_map, Hx. cbn [option_map]. unfold force_close. rewrite Hs.
  destruct (s_status sb) eqn:E.
  - eexists _, _. split; [reflexivity|]. cbn [c_sub]. split; [reflexivity|]. cbn. discriminate.
  - exists x, sb. rewrite E. repeat split; auto. discriminate.
  - exists x, sb. rewrite E. repeat split; auto. discriminate.
Qed.

(* the batch at the head of the queue belongs to the current generation and names the token *)
Theorem acl_publish_closes st b q c x sb :
  st_queue st = (st_epoch st, b) :: q -> client_of st c = Some x -> c_sub x = Some sb ->
  In (c_tok x) (b_close b) -> closed_for (fst (step st LPublish)) c.
Proof.
  intros Hq Hx Hs Hin. unfold closed_for, client_of in *. cbn [step]. unfold do_publish. rewrite Hq, N.eqb_refl.
  cbn [fst st_clients]. rewrite find_client_map, Hx. cbn [option_map]. unfold close_sub_acl. rewrite Hs.
  assert (existsb (N.eqb (c_tok x)) (b_close b) = true) as He.
  { apply existsb_exists. exists (c_tok x). split; [exact Hin|apply N.eqb_refl]. }
  destruct (s_status sb) eqn:E.
  - rewrite He. eexists _, _. split; [reflexivity|]. cbn [c_sub]. split; [reflexivity|]. cbn. discriminate.
  - exists x, sb. rewrite E. repeat split; auto. discriminate.
  - exists x, sb. rewrite E. repeat split; auto. discriminate.
Qed.

Fixpoint none_touch (c : N) (ls : list label) : bool :=
  match ls with [] => true | l :: r => negb (touches_client c l) && none_touch c r end.

Theorem closed_until_resubscribe st c ls :
  closed_for st c -> none_touch c ls = true ->
  exists s, snd (step (run_from st ls) (LNext c)) = OClosed s /\ s <> Open.
Proof.
  revert st. induction ls as [|l r IH]; intros st Hc Hn; cbn [run_from fold_left].
  - apply closed_next, Hc.
  - cbn [none_touch] in Hn. apply andb_true_iff in Hn as [H1 H2]. apply negb_true_iff in H1.
    apply IH; [|exact H2]. apply closed_stays; assumption.
Qed.

(* ------------------------------------------------------------------ witnesses *)

Definition T_web : ts := (0, Some 0).
Definition kA : key := (0, 0, 3).
Definition kB : key := (0, 0, 4).

(* the schedule of the repaired finding 11: two commits are queued, a subscription starts, then the
   queue is published.  The snapshot@11 is delivered; the queued batch 10 is skipped, the batch at the
   snapshot's own index 11 is delivered once more (same rows, same index). *)
Definition gap_sched : list label :=
  [ LCommit (Batch 10 [Ev kA (Some 1)] []);
    LCommit (Batch 11 [Ev kA (Some 2); Ev kB (Some 3)] []);
    LSubscribe 0 T_web 0 true 11;
    LPublish; LPublish;
    LNext 0; LNext 0; LNext 0; LNext 0 ].

(* a subscription on an empty subject gets the floor index 1 as its snapshot index; a write at index 1
   (upstream tests do this; Raft never does) must still be delivered.  Outside [env_ok]. *)
Definition floor_sched : list label :=
  [ LSubscribe 0 T_web 0 true 0; LNext 0;
    LCommit (Batch 1 [Ev kA (Some 1)] []); LPublish; LNext 0 ].

(* a second subscriber keeps its subscription across a restore: the topic buffer is dropped, the
   re-subscribing client gets a new buffer *)
Definition restore_buffer_sched : list label :=
  [ LCommit (Batch 10 [Ev kA (Some 1)] []); LPublish;
    LSubscribe 0 T_web 0 true 10; LSubscribe 1 T_web 1 true 10;
    LNext 0; LNext 0;
    LCommit (Batch 11 [Ev kB (Some 2)] []); LPublish; LNext 0;
    LRestore [(kA, 1)] 11;
    LNext 0;
    LSubscribe 0 T_web 0 true 10;
    LNext 0; LNext 0; LNext 0 ].

(* a batch of the replaced store is still queued when the restore happens: it is dropped *)
Definition restore_queue_sched : list label :=
  [ LCommit (Batch 10 [Ev kA (Some 1)] []); LPublish;
    LCommit (Batch 11 [Ev kB (Some 2)] []);
    LRestore [(kA, 1)] 11;
    LSubscribe 0 T_web 0 true 10;
    LPublish;
    LNext 0; LNext 0; LNext 0 ].

(* the query reports index 10 for a result that already contains commit 11 (known finding
   query-index-behind-content): the snapshot is {A, B} at "index 10" *)
Definition index_behind_sched : list label :=
  [ LCommit (Batch 10 [Ev kA (Some 1)] []); LPublish;
    LCommit (Batch 11 [Ev kB (Some 2)] []); LPublish;
    LSubscribe 0 T_web 0 true 10;
    LNext 0; LNext 0; LNext 0 ].

(* a schedule that delivers a snapshot and two events *)
Definition clean_sched : list label :=
  [ LCommit (Batch 10 [Ev kA (Some 1)] []); LPublish;
    LSubscribe 0 T_web 0 true 10; LNext 0; LNext 0;
    LCommit (Batch 11 [Ev kB (Some 2)] []); LPublish; LNext 0;
    LCommit (Batch 12 [Ev kA None] [7]); LPublish; LNext 0 ].

Definition settled (c : bool) (ls : list label) (view : amap) (idx : N) : Prop :=
  exists x,
    env_ok c ls /\ client_of (run c ls) 0 = Some x /\ is_open x = true /\ streaming x = true /\
    c_view x = view /\ c_idx x = idx /\ pending (run c ls) x = [] /\ st_queue (run c ls) = [] /\
    snd (step (run c ls) (LNext 0)) = OBlock.

Lemma gap_witness : settled true gap_sched [(kA, 2); (kB, 3)] 11.
Proof. eexists. do 8 (split; [vm_compute; reflexivity|]). vm_compute; reflexivity. Qed.

Lemma restore_buffer_witness : settled true restore_buffer_sched [(kA, 1)] 10.
Proof. eexists. do 8 (split; [vm_compute; reflexivity|]). vm_compute; reflexivity. Qed.

Lemma restore_queue_witness : settled true restore_queue_sched [(kA, 1)] 10.
Proof. eexists. do 8 (split; [vm_compute; reflexivity|]). vm_compute; reflexivity. Qed.

Lemma clean_witness : settled true clean_sched [(kB, 2)] 12.
Proof. eexists. do 8 (split; [vm_compute; reflexivity|]). vm_compute; reflexivity. Qed.

Lemma floor_witness :
  exists x, client_of (run true floor_sched) 0 = Some x /\ c_view x = [(kA, 1)] /\ c_idx x = 1 /\
            snd (step (run true floor_sched) (LNext 0)) = OBlock.
Proof. eexists. do 3 (split; [vm_compute; reflexivity|]). vm_compute; reflexivity. Qed.

(* after the re-delivery of the batch at the snapshot's index: same view, same index *)
Lemma gap_duplicate_witness :
  exists x it st',
    client_of (run true (removelast gap_sched)) 0 = Some x /\ c_idx x = 11 /\ c_view x = [(kA, 2); (kB, 3)] /\
    step (run true (removelast gap_sched)) (LNext 0) = (st', ODeliver it) /\ item_idx it = 11.
Proof. eexists _, _, _. do 4 (split; [vm_compute; reflexivity|]). vm_compute; reflexivity. Qed.

Lemma index_behind_witness :
  exists x,
    all_from raft_ok (init true) index_behind_sched = true /\
    client_of (run true index_behind_sched) 0 = Some x /\ c_idx x = 10 /\
    c_epoch x = st_epoch (run true index_behind_sched) /\
    aget kB (c_view x) = Some 2 /\
    content_at (run true index_behind_sched) (c_ts x) (c_idx x) kB = None.
Proof. eexists. do 5 (split; [vm_compute; reflexivity|]). vm_compute; reflexivity. Qed.

(* ------------------------------------------------------------------ audit additions *)

(* an open, streaming client has applied a snapshot of the CURRENT store incarnation *)
Theorem open_stream_epoch c ls k x :
  env_ok c ls -> client_of (run c ls) k = Some x -> is_open x = true -> streaming x = true ->
  c_epoch x = st_epoch (run c ls) /\ c_idx x <> 0.
Proof.
  intros He Hx Hop Hstr. pose proof (ginv_of_env c ls He) as G.
  set (st := run c ls) in *. destruct G as [Gnd Gst Ginc Ghi Gq Gh Gr Gi Gc Gn].
  destruct Gh as (pub & r & Hlog & Hr & Hall & Hbuf & Hcl).
  destruct (Hcl k x Hx) as (_ & _ & _ & _ & _ & Hsub).
  unfold is_open in Hop. unfold streaming in Hstr.
  destruct (c_sub x) as [sb|]; [|discriminate]. destruct (s_status sb); try discriminate.
  destruct Hsub as [Hl [Hst|Hsn]].
  2: { destruct Hsn as (_ & acc & rest & A & B2 & D & s & [[Hh _]|(_ & _ & Hpre)] & _).
       - rewrite Hh in Hstr. discriminate.
       - rewrite Hpre in Hstr. destruct (c_h x); discriminate. }
  destruct Hst as (_ & _ & He' & _ & A & D & R & E & Hc & _). destruct Hc as [_ _ _ _ Hss].
  split; [exact He'|lia].
Qed.

Lemma run_snoc c ls l : run c (ls ++ [l]) = fst (step (run c ls) l).
Proof. unfold run, run_from. rewrite fold_left_app. reflexivity. Qed.

Lemma valid_from_app st a b : valid_from st (a ++ b) = true -> valid_from st a = true /\ valid_from (run_from st a) b = true.
Proof.
  revert st. induction a as [|l a IH]; intros st; cbn [app valid_from run_from fold_left]; [auto|].
  intros H. apply andb_true_iff in H as [H1 H2]. destruct (IH _ H2) as [H3 H4].
  split; [apply andb_true_iff; auto|exact H4].
Qed.

Lemma env_ok_app c a b : env_ok c (a ++ b) -> env_ok c a.
Proof. unfold env_ok. intros H. apply valid_from_app in H. apply H. Qed.

(* a client whose view stems from a replaced store incarnation never resumes: when it subscribes again
   it is told to reset (NewSnapshotToFollow first) *)
Theorem stale_resubscribe c ls k T tok rpc q x x' :
  env_ok c (ls ++ [LSubscribe k T tok rpc q]) ->
  client_of (run c ls) k = Some x -> c_idx x <> 0 -> c_epoch x <> st_epoch (run c ls) ->
  client_of (run c (ls ++ [LSubscribe k T tok rpc q])) k = Some x' ->
  match c_sub x' with
  | Some sb => exists rest, s_pre sb = INstf :: rest
  | None => True
  end.
Proof.
  intros He Hx Hne Hep Hx'. pose proof (ginv_of_env c ls (env_ok_app _ _ _ He)) as G.
  rewrite run_snoc in Hx'. set (st := run c ls) in *. cbn [step] in Hx'. unfold do_subscribe in Hx'.
  unfold client_of in Hx, Hx'. rewrite Hx in Hx'.
  pose proof (ginv_unsub st k G) as G1. pose proof (unsub_hist st k) as Hh.
  pose proof (unsub_client st k x Hx) as Hx1.
  set (st1 := fst (do_unsub st k)) in *.
  destruct G1 as [_ _ _ _ _ Gh _ _ _ _]. destruct Gh as (pub & r & Hlog & Hr & Hall & Hbuf & Hcl).
  destruct (Hcl k (drop_sub x) Hx1) as (_ & _ & _ & _ & Hk & _).
  assert (Hle : c_idx x <= r).
  { destruct Hk as [Hk|[[Hk _]|[_ Hk]]]; cbn [drop_sub c_idx c_epoch] in Hk.
    - contradiction.
    - rewrite Hh in Hk. cbn [hist_of h_epoch] in Hk. contradiction.
    - exact Hk. }
  unfold do_subscribe_core in Hx'. cbn [drop_sub c_ts c_idx c_tok c_rpc c_view c_epoch] in Hx'.
  destruct (sub_path st1 (c_ts x) (c_idx x)) eqn:Ep; cbn [fst with_clients st_clients] in Hx'.
  - rewrite find_put_client_same in Hx'. injection Hx' as <-. exact I.
  - (* resume: impossible *)
    exfalso. destruct (sub_path_not_err st1 (c_ts x) (c_idx x)) as [Hp _]; [rewrite Ep; discriminate|].
    rewrite Ep in Hp.
    destruct (negb (N.eqb (c_idx x) 0) && head_has_index (buf_items (c_ts x) (st_bufs st1)) (c_idx x)) eqn:Er;
      [|destruct (find_snap (c_ts x) (st_cache st1)); discriminate].
    apply andb_true_iff in Er as [_ Er]. apply head_index_spec in Er as (l & evs & Hit).
    unfold buf_items in Hit. destruct (find_buf (c_ts x) (st_bufs st1)) as [tb|] eqn:Eb;
      [|destruct l; discriminate].
    destruct (Hbuf _ _ Eb) as [X HX].
    assert (In (IEv (c_idx x) evs) (proj (c_ts x) (st_log st1))) as Hin.
    { rewrite Hlog, proj_app, HX, Hit, !in_app_iff. left; right; right; left; reflexivity. }
    apply proj_item_batch in Hin as (b & Hb & Hi). cbn [item_idx] in Hi.
    rewrite Forall_forall in Hall. specialize (Hall b Hb). lia.
  - destruct (find_snap (c_ts x) (st_cache st1)); cbn [fst st_clients] in Hx';
      rewrite find_put_client_same in Hx'; injection Hx' as <-; cbn [c_sub s_pre];
      apply N.eqb_neq in Hne; rewrite Hne; eauto.
  - destruct (find_snap (c_ts x) (st_cache st1)); cbn [fst st_clients] in Hx';
      rewrite find_put_client_same in Hx'; injection Hx' as <-; cbn [c_sub s_pre];
      apply N.eqb_neq in Hne; rewrite Hne; eauto.
Qed.

(* ---- Next hands out [pending], item by item *)

Definition deliverable (snap : N) (it : item) : bool := negb (skipped snap it).

Lemma first_new_spec snap l off :
  match first_new snap l off with
  | Some (it, off') =>
      exists R l', l = R ++ it :: l' /\ Forall (fun i => skipped snap i = true) R /\
                   skipped snap it = false /\ off' = S (off + List.length R)
  | None => Forall (fun i => skipped snap i = true) l
  end.
Proof.
  revert off. induction l as [|a l IH]; intros off; cbn [first_new]; [constructor|].
  destruct (skipped snap a) eqn:Ea.
  - specialize (IH (S off)). destruct (first_new snap l (S off)) as [[it off']|].
    + destruct IH as (R & l' & -> & HR & Hit & ->). exists (a :: R), l'.
      split; [reflexivity|]. split; [constructor; assumption|]. split; [exact Hit|]. cbn [List.length]. lia.
    + constructor; assumption.
  - exists [], l. split; [reflexivity|]. split; [constructor|]. split; [exact Ea|]. cbn [List.length]. lia.
Qed.

Lemma filter_deliverable_skip snap R l :
  Forall (fun i => skipped snap i = true) R -> filter (deliverable snap) (R ++ l) = filter (deliverable snap) l.
Proof.
  intros H. rewrite filter_app, filter_none; [reflexivity|].
  eapply Forall_impl; [|exact H]. cbn. intros i Hi. unfold deliverable. rewrite Hi. reflexivity.
Qed.

Lemma in_skipn_in {A} n (l : list A) x : In x (skipn n l) -> In x l.
Proof.
  revert l. induction n as [|n IH]; intros l H; [exact H|].
  destruct l as [|a l]; [destruct H|]. right. apply IH, H.
Qed.

Theorem next_is_pending_head c ls k x :
  env_ok c ls -> client_of (run c ls) k = Some x -> is_open x = true -> streaming x = true ->
  live_queue (run c ls) = [] ->
  match pending (run c ls) x with
  | [] => step (run c ls) (LNext k) = (run c ls, OBlock)
  | it :: rest =>
      snd (step (run c ls) (LNext k)) = ODeliver it /\
      exists x', client_of (run c (ls ++ [LNext k])) k = Some x' /\ is_open x' = true /\ streaming x' = true /\
                 pending (run c (ls ++ [LNext k])) x' = rest /\ live_queue (run c (ls ++ [LNext k])) = []
  end.
Proof.
  intros He Hx Hop Hstr Hq.
  destruct (stream_inv c ls k x He Hx Hop Hstr) as (sb & tb & A & D & R & E & Es & Hpre & Eb & Hc & Ht & HR & HE & Hsn).
  pose proof (ginv_of_env c ls He) as G. rewrite run_snoc.
  set (st := run c ls) in *. destruct G as [_ _ _ _ _ Gh _ _ _ _].
  destruct Gh as (pub & r & Hlog & Hr & Hall & Hbuf & Hcl).
  destruct (Hcl k x Hx) as (_ & _ & _ & _ & _ & Hsub). rewrite Es in Hsub.
  unfold is_open in Hop. rewrite Es in Hop. destruct (s_status sb) eqn:Est; try discriminate.
  destruct Hsub as [(tb0 & Etb0 & _ & Hid) _]. rewrite Eb in Etb0. injection Etb0 as <-.
  assert (Hiev : Forall is_iev (tb_items tb)).
  { destruct (Hbuf _ _ Eb) as [X HX]. pose proof (proj_iev (c_ts x) pub) as H. rewrite HX in H.
    apply Forall_app in H. apply H. }
  assert (Hpend : forall st', st_bufs st' = st_bufs st -> live_queue st' = [] -> forall y sb',
            c_sub y = Some sb' -> c_ts y = c_ts x -> s_pre sb' = [] ->
            pending st' y = filter (deliverable (s_snap sb')) (skipn (s_off sb') (tb_items tb))).
  { intros st' Ebufs Eq' y sb' Ey Ety Epre'. unfold pending. rewrite Ey, Epre', Eq', Ety, Ebufs.
    unfold buf_items. rewrite Eb. cbn [proj flat_map app]. rewrite app_nil_r. reflexivity. }
  rewrite (Hpend st eq_refl Hq x sb Es eq_refl Hpre).
  cbn [step]. unfold do_next. unfold client_of in Hx. rewrite Hx, Es, Est, Hpre. cbn [drop_skipped].
  rewrite Eb, Hid, N.eqb_refl.
  pose proof (first_new_spec (s_snap sb) (skipn (s_off sb) (tb_items tb)) (s_off sb)) as Hfn.
  destruct (first_new (s_snap sb) (skipn (s_off sb) (tb_items tb)) (s_off sb)) as [[it off']|].
  - destruct Hfn as (R0 & l' & HS & HR0 & Hit & Hoff). rewrite HS, filter_deliverable_skip by exact HR0.
    cbn [filter]. unfold deliverable at 1. rewrite Hit. cbn [negb fst snd].
    split; [reflexivity|].
    assert (Hitiev : is_iev it).
    { rewrite Forall_forall in Hiev. apply Hiev. apply (in_skipn_in (s_off sb)). rewrite HS, in_app_iff. right; left; reflexivity. }
    destruct it as [i evs| |]; try contradiction.
    unfold client_of. cbn [with_clients st_clients]. rewrite find_put_client_same.
    eexists. split; [reflexivity|].
    assert (Hh : c_h x = HStream \/ c_h x = HResume).
    { unfold streaming in Hstr. destruct (c_h x); [discriminate|auto|auto]. }
    assert (Hhd : handle (st_epoch st) x (Sub Open [] off' (s_buf sb) (snap_after (s_snap sb) (IEv i evs))) (IEv i evs) =
                  Client (c_ts x) (c_tok x) (c_rpc x) (apply evs (c_view x)) i HStream
                         (Some (Sub Open [] off' (s_buf sb) (s_snap sb))) (c_epoch x)).
    { unfold handle. destruct Hh as [-> | ->]; reflexivity. }
    rewrite Hhd. split; [reflexivity|]. split; [reflexivity|]. split.
    + erewrite Hpend; [|reflexivity|exact Hq|cbn [c_sub]; reflexivity|reflexivity|reflexivity]. cbn [s_snap s_off].
      assert (skipn off' (tb_items tb) = l') as ->; [|reflexivity].
      rewrite Hoff. replace (S (s_off sb + List.length R0)) with ((List.length R0 + 1) + s_off sb)%nat by lia.
      rewrite skipn_plus, HS.
      replace (List.length R0 + 1)%nat with (List.length (R0 ++ [IEv i evs])) by (rewrite app_length; cbn; lia).
      change (R0 ++ IEv i evs :: l') with (R0 ++ [IEv i evs] ++ l'). rewrite app_assoc.
      rewrite skipn_app_le by lia. rewrite skipn_all. reflexivity.
    + exact Hq.
  - rewrite filter_none; [reflexivity|].
    eapply Forall_impl; [|exact Hfn]. cbn. intros i Hi. unfold deliverable. rewrite Hi. reflexivity.
Qed.

(* ---- examples meeting the hypotheses of the forced-resubscribe theorems *)

Definition acl_sched : list label :=
  [ LCommit (Batch 10 [Ev kA (Some 1)] []); LPublish;
    LSubscribe 0 T_web 5 true 10; LNext 0; LNext 0;
    LCommit (Batch 11 [] [5]) ].

Lemma acl_close_witness :
  exists b q x sb,
    env_ok true acl_sched /\
    st_queue (run true acl_sched) = (st_epoch (run true acl_sched), b) :: q /\
    client_of (run true acl_sched) 0 = Some x /\ c_sub x = Some sb /\ In (c_tok x) (b_close b) /\
    snd (step (run true acl_sched) (LNext 0)) = OBlock /\
    snd (step (fst (step (run true acl_sched) LPublish)) (LNext 0)) = OClosed AclClosed.
Proof.
  eexists _, _, _, _. do 4 (split; [vm_compute; reflexivity|]).
  split; [vm_compute; left; reflexivity|]. split; vm_compute; reflexivity.
Qed.

Lemma restore_close_witness :
  exists x sb x',
    client_of (run true clean_sched) 0 = Some x /\ c_sub x = Some sb /\
    snd (step (fst (step (run true clean_sched) (LRestore [(kA, 7)] 12))) (LNext 0)) = OClosed ForceClosed /\
    (* after resubscribing: reset, new snapshot, view of the new incarnation, client epoch = store epoch *)
    client_of (run true (clean_sched ++ [LRestore [(kA, 7)] 12; LNext 0; LSubscribe 0 T_web 0 true 12;
                                         LNext 0; LNext 0])) 0 = Some x' /\
    c_view x' = [(kA, 7)] /\ c_epoch x' = 1 /\
    st_epoch (run true (clean_sched ++ [LRestore [(kA, 7)] 12; LNext 0; LSubscribe 0 T_web 0 true 12;
                                        LNext 0; LNext 0])) = 1.
Proof.
  eexists _, _, _. do 6 (split; [vm_compute; reflexivity|]). vm_compute; reflexivity.
Qed.
