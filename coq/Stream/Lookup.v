(* C11 — lemmas about the association lists of the publisher state and about projected logs. *)
From Coq Require Import Sorted.
From Verif Require Import Base.Prelude Stream.Model Stream.Amap.

(* ------------------------------------------------------------------ clients *)

Lemma find_put_client_same c x l : find_client c (put_client c x l) = Some x.
Proof.
  induction l as [|[c' y] r IH]; cbn [put_client find_client].
  - rewrite N.eqb_refl. reflexivity.
  - destruct (N.eqb c c') eqn:E; cbn [find_client]; rewrite ?N.eqb_refl, ?E; auto.
Qed.

Lemma find_put_client_other c c' x l : c' <> c -> find_client c' (put_client c x l) = find_client c' l.
Proof.
  intros Hne. induction l as [|[c0 y] r IH]; cbn [put_client find_client].
  - apply N.eqb_neq in Hne. rewrite Hne. reflexivity.
  - destruct (N.eqb c c0) eqn:E; cbn [find_client].
    + apply N.eqb_eq in E; subst c0. apply N.eqb_neq in Hne. rewrite Hne. reflexivity.
    + rewrite IH. reflexivity.
Qed.

Lemma find_client_map c f l :
  find_client c (map (fun cx => (fst cx, f (snd cx))) l) = option_map f (find_client c l).
Proof.
  induction l as [|[c' y] r IH]; cbn [map find_client fst snd option_map]; [reflexivity|].
  destruct (N.eqb c c'); [reflexivity|exact IH].
Qed.

Lemma find_client_in c x l : find_client c l = Some x -> In (c, x) l.
Proof.
  induction l as [|[c' y] r IH]; cbn [find_client]; [discriminate|].
  destruct (N.eqb c c') eqn:E.
  - apply N.eqb_eq in E; subst. intros H; injection H as ->. left; reflexivity.
  - intros H; right; apply IH, H.
Qed.

(* number of clients holding a subscription (open or closed, not yet unsubscribed) attached to the
   topic buffer object [id] of T *)
Definition has_sub_on (T : ts) (id : N) (x : client) : bool :=
  match c_sub x with Some sb => ts_eqb T (c_ts x) && N.eqb id (s_buf sb) | None => false end.

Fixpoint count_subs (T : ts) (id : N) (l : list (N * client)) : nat :=
  match l with
  | [] => 0
  | (_, x) :: r => (if has_sub_on T id x then 1 else 0) + count_subs T id r
  end.

Definition b2n (b : bool) : nat := if b then 1 else 0.

Lemma count_put_client T id c x l :
  NoDup (map fst l) ->
  count_subs T id (put_client c x l) + match find_client c l with Some y => b2n (has_sub_on T id y) | None => 0 end
  = count_subs T id l + b2n (has_sub_on T id x).
Proof.
  induction l as [|[c' y] r IH]; cbn [put_client find_client count_subs map fst]; intros Hnd.
  - unfold b2n. lia.
  - inversion Hnd as [|? ? Hni Hr]; subst. destruct (N.eqb c c') eqn:E; cbn [count_subs].
    + unfold b2n. lia.
    + specialize (IH Hr). lia.
Qed.

Lemma nodup_put_client c x l : NoDup (map fst l) -> NoDup (map fst (put_client c x l)).
Proof.
  induction l as [|[c' y] r IH]; cbn [put_client map fst]; intros Hnd.
  - constructor; [intros []|constructor].
  - inversion Hnd as [|? ? Hni Hr]; subst. destruct (N.eqb c c') eqn:E; cbn [map fst].
    + apply N.eqb_eq in E; subst. constructor; assumption.
    + constructor; [|apply IH; exact Hr]. intros Hin. apply Hni.
      clear - Hin E. induction r as [|[c0 z] r IH]; cbn [put_client map fst In] in *.
      * destruct Hin as [->|[]]. rewrite N.eqb_refl in E. discriminate.
      * destruct (N.eqb c c0) eqn:E0; cbn [map fst In] in *.
        -- apply N.eqb_eq in E0; subst. destruct Hin as [->|Hin]; [rewrite N.eqb_refl in E; discriminate|right; exact Hin].
        -- destruct Hin as [->|Hin]; [left; reflexivity|right; apply IH, Hin].
Qed.

Lemma count_map T id f l :
  (forall x, has_sub_on T id (f x) = has_sub_on T id x) ->
  count_subs T id (map (fun cx => (fst cx, f (snd cx))) l) = count_subs T id l.
Proof.
  intros Hf. induction l as [|[c y] r IH]; cbn [map count_subs fst snd]; [reflexivity|].
  rewrite Hf, IH. reflexivity.
Qed.

Lemma map_fst_map {A B} (f : B -> B) (l : list (A * B)) : map fst (map (fun cx => (fst cx, f (snd cx))) l) = map fst l.
Proof. induction l as [|[a b] r IH]; cbn [map fst]; [reflexivity|]. rewrite IH. reflexivity. Qed.

(* ------------------------------------------------------------------ topic buffers *)

Lemma find_buf_ts T l b : find_buf T l = Some b -> tb_ts b = T.
Proof.
  induction l as [|b' r IH]; cbn [find_buf]; [discriminate|].
  destruct (ts_eqb T (tb_ts b')) eqn:E.
  - apply ts_eqb_eq in E. intros H; injection H as <-. auto.
  - exact IH.
Qed.

Lemma find_put_buf_same b l : find_buf (tb_ts b) (put_buf b l) = Some b.
Proof.
  induction l as [|b' r IH]; cbn [put_buf find_buf].
  - rewrite ts_eqb_refl. reflexivity.
  - destruct (ts_eqb (tb_ts b) (tb_ts b')) eqn:E; cbn [find_buf]; rewrite ?ts_eqb_refl, ?E; auto.
Qed.

Lemma find_put_buf_other T b l : T <> tb_ts b -> find_buf T (put_buf b l) = find_buf T l.
Proof.
  intros Hne. induction l as [|b' r IH]; cbn [put_buf find_buf].
  - apply ts_eqb_neq in Hne. rewrite Hne. reflexivity.
  - destruct (ts_eqb (tb_ts b) (tb_ts b')) eqn:E; cbn [find_buf].
    + apply ts_eqb_eq in E. rewrite <- E. apply ts_eqb_neq in Hne. rewrite Hne. reflexivity.
    + rewrite IH. reflexivity.
Qed.

Lemma find_del_buf_same T l : find_buf T (del_buf T l) = None.
Proof.
  induction l as [|b' r IH]; cbn [del_buf filter find_buf]; [reflexivity|].
  fold (del_buf T r). destruct (ts_eqb T (tb_ts b')) eqn:E; cbn [negb find_buf]; rewrite ?E; exact IH.
Qed.

Lemma find_del_buf_other T T' l : T' <> T -> find_buf T' (del_buf T l) = find_buf T' l.
Proof.
  intros Hne. induction l as [|b' r IH]; cbn [del_buf filter find_buf]; [reflexivity|].
  fold (del_buf T r). destruct (ts_eqb T (tb_ts b')) eqn:E; cbn [negb find_buf].
  - apply ts_eqb_eq in E. rewrite <- E. apply ts_eqb_neq in Hne. rewrite Hne. exact IH.
  - rewrite IH. reflexivity.
Qed.

Lemma find_buf_map T f l :
  (forall b, tb_ts (f b) = tb_ts b) -> find_buf T (map f l) = option_map f (find_buf T l).
Proof.
  intros Hf. induction l as [|b' r IH]; cbn [map find_buf option_map]; [reflexivity|].
  rewrite Hf. destruct (ts_eqb T (tb_ts b')); [reflexivity|exact IH].
Qed.

(* ------------------------------------------------------------------ snapshot cache *)

Lemma find_snap_ts T l s : find_snap T l = Some s -> sn_ts s = T.
Proof.
  induction l as [|s' r IH]; cbn [find_snap]; [discriminate|].
  destruct (ts_eqb T (sn_ts s')) eqn:E.
  - apply ts_eqb_eq in E. intros H; injection H as <-. auto.
  - exact IH.
Qed.

Lemma find_del_snap_same T l : find_snap T (del_snap T l) = None.
Proof.
  induction l as [|s' r IH]; cbn [del_snap filter find_snap]; [reflexivity|].
  fold (del_snap T r). destruct (ts_eqb T (sn_ts s')) eqn:E; cbn [negb find_snap]; rewrite ?E; exact IH.
Qed.

Lemma find_del_snap_other T T' l : T' <> T -> find_snap T' (del_snap T l) = find_snap T' l.
Proof.
  intros Hne. induction l as [|s' r IH]; cbn [del_snap filter find_snap]; [reflexivity|].
  fold (del_snap T r). destruct (ts_eqb T (sn_ts s')) eqn:E; cbn [negb find_snap].
  - apply ts_eqb_eq in E. rewrite <- E. apply ts_eqb_neq in Hne. rewrite Hne. exact IH.
  - rewrite IH. reflexivity.
Qed.

Lemma find_put_snap_same s l : find_snap (sn_ts s) (put_snap s l) = Some s.
Proof. unfold put_snap. cbn [find_snap]. rewrite ts_eqb_refl. reflexivity. Qed.

Lemma find_put_snap_other T s l : T <> sn_ts s -> find_snap T (put_snap s l) = find_snap T l.
Proof.
  intros Hne. unfold put_snap. cbn [find_snap]. apply ts_eqb_neq in Hne as E. rewrite E.
  apply find_del_snap_other, Hne.
Qed.

(* ------------------------------------------------------------------ items *)

Definition item_idx (it : item) : N := match it with IEv i _ => i | IEos i => i | INstf => 0%N end.

Definition ievs (l : list item) : list ev :=
  flat_map (fun it => match it with IEv _ e => e | _ => [] end) l.

Definition is_iev (it : item) : Prop := match it with IEv _ _ => True | _ => False end.

Lemma ievs_app a b : ievs (a ++ b) = ievs a ++ ievs b.
Proof. unfold ievs. apply flat_map_app. Qed.

Lemma proj_app T a b : proj T (a ++ b) = proj T a ++ proj T b.
Proof. unfold proj. apply flat_map_app. Qed.

Lemma proj_iev T log : Forall is_iev (proj T log).
Proof.
  induction log as [|b r IH]; cbn [proj flat_map]; [constructor|].
  fold (proj T r). destruct (evs_for T (b_evs b)); cbn [app]; [exact IH|constructor; [exact I|exact IH]].
Qed.

Lemma ievs_proj T log : ievs (proj T log) = evs_for T (flat_map b_evs log).
Proof.
  induction log as [|b r IH]; cbn [proj flat_map ievs]; [reflexivity|].
  fold (proj T r). unfold evs_for in *. rewrite filter_app.
  fold (ievs (proj T r)) in IH. rewrite <- IH.
  destruct (filter (fun e => matches T (e_key e)) (b_evs b)) eqn:E; cbn [app].
  - reflexivity.
  - change (ievs (IEv (b_idx b) (e :: l) :: proj T r)) with ((e :: l) ++ ievs (proj T r)). reflexivity.
Qed.

(* the T-rows of the store only depend on the T-items of the log *)
Lemma aget_all_evs_proj T k log base :
  matches T k = true ->
  aget k (apply (all_evs log) base) = aget k (apply (ievs (proj T log)) base).
Proof.
  intros Hm. rewrite !aget_apply, ievs_proj, lastev_evs_for, Hm. reflexivity.
Qed.

(* ------------------------------------------------------------------ increasing indexes *)

Definition incr (l : list N) : Prop := StronglySorted N.lt l.

Lemma incr_app_inv a b : incr (a ++ b) -> incr a /\ incr b /\ forall x y, In x a -> In y b -> (x < y)%N.
Proof.
  induction a as [|x a IH]; cbn [app]; intros H.
  - repeat split; [constructor|exact H|intros ? ? []].
  - inversion H as [|? ? Hs Hf]; subst. destruct (IH Hs) as (Ha & Hb & Hab).
    rewrite Forall_app in Hf. destruct Hf as [Hfa Hfb]. repeat split.
    + constructor; assumption.
    + exact Hb.
    + intros u y [<-|Hu] Hy; [|apply Hab; assumption]. rewrite Forall_forall in Hfb. apply Hfb, Hy.
Qed.

Lemma incr_app a b : incr a -> incr b -> (forall x y, In x a -> In y b -> (x < y)%N) -> incr (a ++ b).
Proof.
  induction a as [|x a IH]; cbn [app]; intros Ha Hb Hab; [exact Hb|].
  inversion Ha as [|? ? Hs Hf]; subst. constructor.
  - apply IH; [exact Hs|exact Hb|]. intros u y Hu Hy. apply Hab; [right; exact Hu|exact Hy].
  - rewrite Forall_app. split; [exact Hf|]. rewrite Forall_forall. intros y Hy. apply Hab; [left; reflexivity|exact Hy].
Qed.

Lemma idx_proj_in T log i : In i (map item_idx (proj T log)) -> In i (map b_idx log).
Proof.
  induction log as [|b r IH]; cbn [proj flat_map map]; [intros []|].
  fold (proj T r). rewrite map_app, in_app_iff. intros [H|H].
  - destruct (evs_for T (b_evs b)); cbn in H; [destruct H|]. destruct H as [<-|[]]. left; reflexivity.
  - right. apply IH, H.
Qed.

Lemma incr_proj T log : incr (map b_idx log) -> incr (map item_idx (proj T log)).
Proof.
  induction log as [|b r IH]; cbn [proj flat_map map]; intros H; [constructor|].
  fold (proj T r). inversion H as [|? ? Hs Hf]; subst. rewrite map_app. apply incr_app.
  - destruct (evs_for T (b_evs b)); cbn; [constructor|constructor; [constructor|constructor]].
  - apply IH, Hs.
  - intros x y Hx Hy. destruct (evs_for T (b_evs b)); cbn in Hx; [destruct Hx|].
    destruct Hx as [<-|[]]. cbn [item_idx]. rewrite Forall_forall in Hf. apply Hf. eapply idx_proj_in, Hy.
Qed.

(* a list is cut in at most one way into a part at or below a threshold and a part above it *)
Lemma split_unique (s : N) (x y x' y' : list item) :
  Forall (fun it => (item_idx it <= s)%N) x -> Forall (fun it => (s < item_idx it)%N) y ->
  Forall (fun it => (item_idx it <= s)%N) x' -> Forall (fun it => (s < item_idx it)%N) y' ->
  x ++ y = x' ++ y' -> x = x' /\ y = y'.
Proof.
  revert x'. induction x as [|a x IH]; intros x' Hx Hy Hx' Hy' Heq.
  - destruct x' as [|a' x']; [auto|]. cbn [app] in Heq. subst y.
    inversion Hy as [|? ? Ha _]; subst. inversion Hx' as [|? ? Ha' _]; subst. lia.
  - destruct x' as [|a' x']; cbn [app] in Heq.
    + subst y'. inversion Hy' as [|? ? Ha _]; subst. inversion Hx as [|? ? Ha' _]; subst. lia.
    + injection Heq as <- Heq. inversion Hx; subst. inversion Hx'; subst.
      destruct (IH x') as [-> ->]; auto.
Qed.

Definition lastidx (l : list item) (d : N) : N := last (map item_idx l) d.

Lemma lastidx_app_single l it d : lastidx (l ++ [it]) d = item_idx it.
Proof. unfold lastidx. rewrite map_app. cbn [map]. apply last_last. Qed.

Lemma incr_last_bounds (p q : list item) (c : N) :
  incr (map item_idx (p ++ q)) -> p <> [] -> lastidx p 0 = c ->
  Forall (fun it => (item_idx it <= c)%N) p /\ Forall (fun it => (c < item_idx it)%N) q.
Proof.
  intros Hinc Hne Hl. destruct (exists_last Hne) as (p' & a & ->).
  rewrite lastidx_app_single in Hl. subst c.
  rewrite map_app in Hinc. apply incr_app_inv in Hinc as (Hp & Hq & Hpq).
  rewrite map_app in Hp. apply incr_app_inv in Hp as (_ & _ & Hpa). split.
  - rewrite Forall_app. split.
    + rewrite Forall_forall. intros it Hit. apply N.lt_le_incl. apply Hpa; [apply in_map, Hit|left; reflexivity].
    + constructor; [lia|constructor].
  - rewrite Forall_forall. intros it Hit. apply Hpq; [|apply in_map, Hit].
    rewrite map_app, in_app_iff. right. left. reflexivity.
Qed.

Lemma skipn_app_le {A} n (a b : list A) : n <= List.length a -> skipn n (a ++ b) = skipn n a ++ b.
Proof.
  revert a. induction n as [|n IH]; intros a Hle; [reflexivity|].
  destruct a as [|x a]; cbn [List.length] in Hle; [lia|]. cbn [app skipn]. apply IH. lia.
Qed.

Lemma nth_error_skipn {A} n (l : list A) x : nth_error l n = Some x -> skipn n l = x :: skipn (S n) l.
Proof.
  revert l. induction n as [|n IH]; intros [|y l]; cbn [nth_error skipn]; try discriminate.
  - intros H; injection H as ->; reflexivity.
  - apply IH.
Qed.

Lemma nth_error_none_skipn {A} n (l : list A) : nth_error l n = None -> skipn n l = [].
Proof. intros H. apply nth_error_None in H. apply skipn_all2, H. Qed.
