(* C11 — lemmas about keyed rows ([amap]) and the application of event lists. *)
From Verif Require Import Base.Prelude Stream.Model.

Lemma key_eqb_eq a b : key_eqb a b = true <-> a = b.
Proof.
  destruct a as [[a1 a2] a3], b as [[b1 b2] b3]. unfold key_eqb, k_topic, k_subj, k_id; cbn [fst snd].
  rewrite !andb_true_iff, !N.eqb_eq. split.
  - intros [[-> ->] ->]; reflexivity.
  - intros H; injection H as -> -> ->; auto.
Qed.

Lemma key_eqb_refl a : key_eqb a a = true.
Proof. apply key_eqb_eq; reflexivity. Qed.

Lemma key_eqb_neq a b : key_eqb a b = false <-> a <> b.
Proof.
  split.
  - intros Hf Heq. apply key_eqb_eq in Heq. congruence.
  - intros Hn. destruct (key_eqb a b) eqn:E; [|reflexivity]. apply key_eqb_eq in E. contradiction.
Qed.

Lemma key_eqb_sym a b : key_eqb a b = key_eqb b a.
Proof.
  destruct (key_eqb a b) eqn:E.
  - apply key_eqb_eq in E; subst. symmetry; apply key_eqb_refl.
  - apply key_eqb_neq in E. symmetry; apply key_eqb_neq. congruence.
Qed.

Lemma ts_eqb_eq a b : ts_eqb a b = true <-> a = b.
Proof.
  destruct a as [a1 [a2|]], b as [b1 [b2|]]; unfold ts_eqb; cbn [fst snd option_eqb];
    rewrite andb_true_iff, ?N.eqb_eq; split.
  all: try (intros [-> ->]; reflexivity).
  all: try (intros [_ H]; discriminate).
  all: try (intros H; injection H as -> ->; auto).
  all: try (intros [-> _]; reflexivity).
  all: try (intros H; discriminate).
  all: try (intros H; injection H as ->; auto).
Qed.

Lemma ts_eqb_refl a : ts_eqb a a = true.
Proof. apply ts_eqb_eq; reflexivity. Qed.

Lemma ts_eqb_neq a b : ts_eqb a b = false <-> a <> b.
Proof.
  split.
  - intros Hf Heq. apply ts_eqb_eq in Heq. congruence.
  - intros Hn. destruct (ts_eqb a b) eqn:E; [|reflexivity]. apply ts_eqb_eq in E. contradiction.
Qed.

(* ------------------------------------------------------------------ aget / adel / aset *)

Lemma aget_adel k k' m : aget k (adel k' m) = if key_eqb k k' then None else aget k m.
Proof.
  induction m as [|[k0 v0] r IH]; cbn [adel filter aget fst].
  - destruct (key_eqb k k'); reflexivity.
  - fold (adel k' r). destruct (key_eqb k' k0) eqn:E0; cbn [negb].
    + apply key_eqb_eq in E0; subst k0. rewrite IH.
      destruct (key_eqb k k'); reflexivity.
    + cbn [aget]. rewrite IH. destruct (key_eqb k k0) eqn:E1; [|reflexivity].
      apply key_eqb_eq in E1; subst k0. rewrite key_eqb_sym, E0. reflexivity.
Qed.

Lemma aget_ains k k' v m :
  aget k' m = None -> aget k (ains k' v m) = if key_eqb k k' then Some v else aget k m.
Proof.
  induction m as [|[k0 v0] r IH]; cbn [ains aget]; intros Hn.
  - reflexivity.
  - destruct (key_eqb k' k0) eqn:E0; [discriminate|].
    destruct (key_ltb k' k0); cbn [aget].
    + reflexivity.
    + rewrite (IH Hn). destruct (key_eqb k k0) eqn:E1; [|reflexivity].
      apply key_eqb_eq in E1; subst k0.
      destruct (key_eqb k k') eqn:E2; [|reflexivity].
      rewrite key_eqb_sym, E0 in E2. discriminate.
Qed.

Lemma aget_aset k k' v m : aget k (aset k' v m) = if key_eqb k k' then Some v else aget k m.
Proof.
  unfold aset. rewrite aget_ains.
  - destruct (key_eqb k k') eqn:E; [reflexivity|]. rewrite aget_adel, E. reflexivity.
  - rewrite aget_adel, key_eqb_refl. reflexivity.
Qed.

(* ------------------------------------------------------------------ one row per key *)

Definition keys (m : amap) : list key := map fst m.

Lemma nodup_keys_spec m : nodup_keys m = true <-> NoDup (keys m).
Proof.
  induction m as [|[k v] r IH]; cbn [nodup_keys keys map fst].
  - split; [constructor|reflexivity].
  - rewrite andb_true_iff, negb_true_iff, IH. split.
    + intros [Hx Hr]. constructor; [|exact Hr]. intros Hin.
      apply in_map_iff in Hin as [[k1 v1] [Hk Hin]]. cbn in Hk; subst k1.
      assert (existsb (fun kv => key_eqb k (fst kv)) r = true) as Ht.
      { apply existsb_exists. exists (k, v1). split; [exact Hin|apply key_eqb_refl]. }
      congruence.
    + intros Hnd. inversion Hnd as [|? ? Hni Hr]; subst. split; [|exact Hr].
      destruct (existsb _ r) eqn:E; [|reflexivity]. exfalso.
      apply existsb_exists in E as [[k1 v1] [Hin Hk]]. cbn in Hk. apply key_eqb_eq in Hk; subst k1.
      apply Hni. apply in_map_iff. exists (k, v1); auto.
Qed.

Lemma keys_adel k m x : In x (keys (adel k m)) <-> In x (keys m) /\ x <> k.
Proof.
  unfold keys, adel. rewrite !in_map_iff. split.
  - intros [[k1 v1] [Hk Hin]]. cbn in Hk; subst k1. apply filter_In in Hin as [Hin Hne]. cbn in Hne.
    split; [exists (x, v1); auto|]. apply negb_true_iff, key_eqb_neq in Hne. congruence.
  - intros [[[k1 v1] [Hk Hin]] Hne]. cbn in Hk; subst k1. exists (x, v1). split; [reflexivity|].
    apply filter_In. split; [exact Hin|]. cbn. apply negb_true_iff, key_eqb_neq. congruence.
Qed.

Lemma nodup_adel k m : NoDup (keys m) -> NoDup (keys (adel k m)).
Proof.
  induction m as [|[k0 v0] r IH]; cbn [adel filter keys map fst]; intros Hnd; [constructor|].
  inversion Hnd as [|? ? Hni Hr]; subst. fold (adel k r).
  destruct (negb (key_eqb k k0)); cbn [map fst].
  - constructor; [|apply IH; exact Hr]. intros Hin. apply keys_adel in Hin as [Hin _]. contradiction.
  - apply IH; exact Hr.
Qed.

Lemma keys_ains k v m x : In x (keys (ains k v m)) <-> x = k \/ In x (keys m).
Proof.
  induction m as [|[k0 v0] r IH]; cbn [ains keys map fst].
  - cbn. intuition.
  - destruct (key_ltb k k0); cbn [map fst In].
    + intuition.
    + fold (keys (ains k v r)). rewrite IH. fold (keys r). intuition.
Qed.

Lemma nodup_ains k v m : ~ In k (keys m) -> NoDup (keys m) -> NoDup (keys (ains k v m)).
Proof.
  induction m as [|[k0 v0] r IH]; cbn [ains keys map fst]; intros Hni Hnd.
  - constructor; [intros []|constructor].
  - destruct (key_ltb k k0); cbn [map fst].
    + constructor; assumption.
    + inversion Hnd as [|? ? Hni0 Hr]; subst. constructor.
      * fold (keys (ains k v r)). rewrite keys_ains. intros [->|Hin]; [apply Hni; left; reflexivity|contradiction].
      * apply IH; [intros Hin; apply Hni; right; exact Hin|exact Hr].
Qed.

Lemma nodup_aset k v m : NoDup (keys m) -> NoDup (keys (aset k v m)).
Proof.
  intros Hnd. unfold aset. apply nodup_ains.
  - rewrite keys_adel. intros [_ Hne]. congruence.
  - apply nodup_adel; exact Hnd.
Qed.

Lemma nodup_apply1 m e : NoDup (keys m) -> NoDup (keys (apply1 m e)).
Proof. unfold apply1. destruct (e_val e); [apply nodup_aset|apply nodup_adel]. Qed.

Lemma nodup_apply evs m : NoDup (keys m) -> NoDup (keys (apply evs m)).
Proof.
  unfold apply. revert m. induction evs as [|e r IH]; cbn [fold_left]; intros m Hnd; [exact Hnd|].
  apply IH, nodup_apply1, Hnd.
Qed.

Lemma aget_in k v m : NoDup (keys m) -> (aget k m = Some v <-> In (k, v) m).
Proof.
  induction m as [|[k0 v0] r IH]; cbn [aget keys map fst]; intros Hnd.
  - split; [discriminate|intros []].
  - inversion Hnd as [|? ? Hni Hr]; subst. destruct (key_eqb k k0) eqn:E.
    + apply key_eqb_eq in E; subst k0. split.
      * intros H; injection H as ->; left; reflexivity.
      * intros [H|H]; [injection H as ->; reflexivity|].
        exfalso. apply Hni. apply in_map_iff. exists (k, v); auto.
    + rewrite (IH Hr). split; [intros H; right; exact H|].
      intros [H|H]; [|exact H]. injection H as -> ->. rewrite key_eqb_refl in E. discriminate.
Qed.

Lemma aget_none k m : aget k m = None <-> ~ In k (keys m).
Proof.
  induction m as [|[k0 v0] r IH]; cbn [aget keys map fst In].
  - intuition.
  - destruct (key_eqb k k0) eqn:E.
    + apply key_eqb_eq in E; subst. split; [discriminate|]. intros H; exfalso; apply H; left; reflexivity.
    + apply key_eqb_neq in E. rewrite IH. fold (keys r). intuition congruence.
Qed.

(* ------------------------------------------------------------------ event lists *)

(* the last thing an event list says about a key *)
Fixpoint lastev (k : key) (evs : list ev) : option (option N) :=
  match evs with
  | [] => None
  | e :: r =>
      match lastev k r with
      | Some o => Some o
      | None => if key_eqb k (e_key e) then Some (e_val e) else None
      end
  end.

Lemma lastev_app k a b :
  lastev k (a ++ b) = match lastev k b with Some o => Some o | None => lastev k a end.
Proof.
  induction a as [|e r IH]; cbn [app lastev].
  - destruct (lastev k b); reflexivity.
  - rewrite IH. destruct (lastev k b); reflexivity.
Qed.

Lemma aget_apply1 k m e :
  aget k (apply1 m e) = if key_eqb k (e_key e) then e_val e else aget k m.
Proof.
  unfold apply1. destruct (e_val e) as [v|].
  - apply aget_aset.
  - apply aget_adel.
Qed.

Lemma aget_apply k evs m :
  aget k (apply evs m) = match lastev k evs with Some o => o | None => aget k m end.
Proof.
  unfold apply. revert m. induction evs as [|e r IH]; cbn [fold_left lastev]; intros m; [reflexivity|].
  rewrite IH. destruct (lastev k r); [reflexivity|]. rewrite aget_apply1.
  destruct (key_eqb k (e_key e)); reflexivity.
Qed.

Lemma apply_app a b m : apply (a ++ b) m = apply b (apply a m).
Proof. unfold apply. apply fold_left_app. Qed.

Lemma lastev_filter k (p : key -> bool) evs :
  lastev k (filter (fun e => p (e_key e)) evs) = if p k then lastev k evs else None.
Proof.
  induction evs as [|e r IH]; cbn [filter lastev].
  - destruct (p k); reflexivity.
  - destruct (p (e_key e)) eqn:Ep; cbn [lastev]; rewrite IH.
    + destruct (p k) eqn:Epk; [reflexivity|].
      destruct (key_eqb k (e_key e)) eqn:E; [|reflexivity].
      apply key_eqb_eq in E. subst. congruence.
    + destruct (p k) eqn:Epk; [|reflexivity].
      destruct (lastev k r); [reflexivity|].
      destruct (key_eqb k (e_key e)) eqn:E; [|reflexivity].
      apply key_eqb_eq in E. subst. congruence.
Qed.

Lemma lastev_evs_for k T evs :
  lastev k (evs_for T evs) = if matches T k then lastev k evs else None.
Proof. unfold evs_for. apply (lastev_filter k (matches T)). Qed.

(* pointwise equality of row maps *)
Definition meq (a b : amap) : Prop := forall k, aget k a = aget k b.

Lemma meq_refl a : meq a a.
Proof. intros k; reflexivity. Qed.

Lemma meq_apply evs a b : meq a b -> meq (apply evs a) (apply evs b).
Proof. intros H k. rewrite !aget_apply. destruct (lastev k evs); [reflexivity|apply H]. Qed.

(* replaying a suffix of what a map was built from changes nothing *)
Lemma apply_replay x l m : meq (apply l (apply (x ++ l) m)) (apply (x ++ l) m).
Proof.
  intros k. rewrite !aget_apply, lastev_app. destruct (lastev k l); reflexivity.
Qed.

(* the rows of a snapshot, as Register events applied to nothing, are the rows *)
Definition row_ev (kv : key * N) : ev := Ev (fst kv) (Some (snd kv)).

Lemma lastev_rows k m :
  NoDup (keys m) ->
  lastev k (map row_ev m) = match aget k m with Some v => Some (Some v) | None => None end.
Proof.
  induction m as [|[k0 v0] r IH]; cbn [map lastev aget keys fst]; intros Hnd; [reflexivity|].
  inversion Hnd as [|? ? Hni Hr]; subst. rewrite (IH Hr). cbn [row_ev e_key e_val fst snd].
  destruct (key_eqb k k0) eqn:E.
  - apply key_eqb_eq in E; subst k0. apply aget_none in Hni. rewrite Hni. reflexivity.
  - destruct (aget k r); reflexivity.
Qed.

Lemma aget_filter k (p : key -> bool) m :
  aget k (filter (fun kv => p (fst kv)) m) = if p k then aget k m else None.
Proof.
  induction m as [|[k0 v0] r IH]; cbn [filter aget fst].
  - destruct (p k); reflexivity.
  - destruct (p k0) eqn:E0; cbn [aget]; rewrite IH.
    + destruct (key_eqb k k0) eqn:E; [|reflexivity]. apply key_eqb_eq in E; subst. rewrite E0. reflexivity.
    + destruct (key_eqb k k0) eqn:E; [|reflexivity]. apply key_eqb_eq in E; subst. rewrite E0. reflexivity.
Qed.

Lemma aget_rows_of k T m : aget k (rows_of T m) = if matches T k then aget k m else None.
Proof. unfold rows_of. apply (aget_filter k (matches T)). Qed.

Lemma nodup_filter (p : key * N -> bool) m : NoDup (keys m) -> NoDup (keys (filter p m)).
Proof.
  induction m as [|kv r IH]; cbn [filter keys map]; intros Hnd; [constructor|].
  inversion Hnd as [|? ? Hni Hr]; subst. destruct (p kv); cbn [map].
  - constructor; [|apply IH; exact Hr]. intros Hin. apply Hni.
    apply in_map_iff in Hin as [x [Hx Hin]]. apply filter_In in Hin as [Hin _].
    apply in_map_iff. exists x; auto.
  - apply IH; exact Hr.
Qed.

Lemma aget_apply_rows k T m :
  NoDup (keys m) ->
  aget k (apply (map row_ev (rows_of T m)) []) = if matches T k then aget k m else None.
Proof.
  intros Hnd. rewrite aget_apply, lastev_rows.
  - rewrite aget_rows_of. destruct (matches T k); [|reflexivity]. destruct (aget k m); reflexivity.
  - unfold rows_of. apply nodup_filter, Hnd.
Qed.
