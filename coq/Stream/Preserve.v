(* C11 — every step of a schedule that meets the environment assumption preserves [ginv]. *)
From Coq Require Import Sorted.
From Verif Require Import Base.Prelude Stream.Model Stream.Amap Stream.Lookup Stream.Inv.
Local Open Scope N_scope.

Lemma proj_single_idx T b : Forall (fun it => item_idx it = b_idx b) (proj T [b]).
Proof.
  cbn [proj flat_map]. destruct (evs_for T (b_evs b)); cbn [app]; [constructor|].
  constructor; [reflexivity|constructor].
Qed.

(* ---------------------------------------------------------------- the live queue *)

Lemma live_queue_app ep q1 q2 :
  map snd (filter (fun gb : N * batch => N.eqb (fst gb) ep) (q1 ++ q2)) =
  map snd (filter (fun gb => N.eqb (fst gb) ep) q1) ++ map snd (filter (fun gb => N.eqb (fst gb) ep) q2).
Proof. rewrite filter_app, map_app. reflexivity. Qed.

Lemma live_queue_none ep (q : list (N * batch)) :
  Forall (fun gb => fst gb < ep) q -> map snd (filter (fun gb => N.eqb (fst gb) ep) q) = [].
Proof.
  induction 1 as [|gb q Hlt _ IH]; cbn [filter map]; [reflexivity|].
  destruct (N.eqb (fst gb) ep) eqn:E; [apply N.eqb_eq in E; lia|exact IH].
Qed.

(* ---------------------------------------------------------------- commit *)

Definition hist_commit (h : hist) (b : batch) : hist :=
  Hist (b_idx b) (h_log h ++ [b]) (h_base h) (h_epoch h) (h_lq h ++ [b]).

Lemma live_queue_commit st b : live_queue (do_commit st b) = live_queue st ++ [b].
Proof.
  unfold live_queue. cbn [do_commit st_epoch st_queue].
  rewrite live_queue_app. cbn [filter fst]. rewrite N.eqb_refl. reflexivity.
Qed.

Lemma hist_of_commit st b : hist_of (do_commit st b) = hist_commit (hist_of st) b.
Proof. unfold hist_of, hist_commit. rewrite live_queue_commit. reflexivity. Qed.

Lemma tail_commit h T ob off b :
  tail (hist_commit h b) T ob off = tail h T ob off ++ proj T [b].
Proof. unfold tail, hist_commit; cbn [h_lq]. rewrite proj_app, app_assoc. reflexivity. Qed.

Lemma gt_single T b s : s < b_idx b -> Forall (fun it => s < item_idx it) (proj T [b]).
Proof.
  intros Hlt. eapply Forall_impl; [|apply proj_single_idx]. cbn. intros it ->. exact Hlt.
Qed.

Lemma core_commit h T view cidx A D b :
  h_hi h < b_idx b ->
  core h T view cidx A D -> core (hist_commit h b) T view cidx A (D ++ proj T [b]).
Proof.
  intros Hlt [Hsp Hv Hle Hgt Hs]. constructor; cbn [hist_commit h_log h_base h_hi]; auto.
  - rewrite proj_app, Hsp, <- !app_assoc. reflexivity.
  - rewrite Forall_app. split; [exact Hgt|]. apply gt_single. lia.
  - lia.
Qed.

Lemma snapok_commit h T ob acc rest off A B2 D s b :
  h_hi h < b_idx b ->
  snapok h T ob acc rest off A B2 D s ->
  snapok (hist_commit h b) T ob acc rest off A B2 (D ++ proj T [b]) s.
Proof.
  intros Hlt [Hsp Hr Hv Ht Hle Hgt Hs]. constructor; cbn [hist_commit h_log h_base h_hi]; auto.
  - rewrite proj_app, Hsp, <- !app_assoc. reflexivity.
  - rewrite tail_commit, Ht, <- app_assoc. reflexivity.
  - rewrite Forall_app. split; [exact Hgt|]. apply gt_single. lia.
  - lia.
Qed.

Lemma knows_commit h r x b :
  h_hi h < b_idx b -> knows h r x -> knows (hist_commit h b) r x.
Proof.
  intros Hlt [Hz|[[He (A & D & Hc)]|Ho]].
  - left; exact Hz.
  - right; left. split; [exact He|]. exists A, (D ++ proj (c_ts x) [b]). apply core_commit; assumption.
  - right; right. exact Ho.
Qed.

Lemma cinv_commit h ob r x b :
  h_hi h < b_idx b -> cinv h ob r x -> cinv (hist_commit h b) ob r x.
Proof.
  intros Hlt (Hi & Hep & Hz & Hs & Hk & Hsub). unfold cinv. cbn [hist_commit h_hi h_epoch].
  split; [lia|]. split; [exact Hep|]. split; [exact Hz|]. split; [exact Hs|].
  split; [apply knows_commit; assumption|].
  destruct (c_sub x) as [sb|]; [|exact I]. destruct (s_status sb); try exact I.
  destruct Hsub as [Hl Hsub]. split; [exact Hl|]. destruct Hsub as [Hst|Hsn].
  - left. destruct Hst as (Hp & Hh & He & Hsn & A & D & R & E & Hc & Ht & HR & HE).
    split; [exact Hp|]. split; [exact Hh|]. split; [exact He|]. split; [exact Hsn|].
    exists A, (D ++ proj (c_ts x) [b]), R, E. split; [apply core_commit; assumption|].
    split; [|split; [exact HR|exact HE]].
    rewrite tail_commit, Ht, <- !app_assoc. reflexivity.
  - right. destruct Hsn as (Hs0 & acc & rest & A & B2 & D & s & Hh & Hso). split; [exact Hs0|].
    exists acc, rest, A, B2, (D ++ proj (c_ts x) [b]), s. split; [exact Hh|].
    apply snapok_commit; assumption.
Qed.

Lemma cacheinv_commit h T ob sn b :
  h_hi h < b_idx b -> cacheinv h T ob sn -> cacheinv (hist_commit h b) T ob sn.
Proof.
  intros Hlt (Hl & body & A & B2 & D & s & Hit & Hso). split; [exact Hl|].
  exists body, A, B2, (D ++ proj T [b]), s. split; [exact Hit|]. apply snapok_commit; assumption.
Qed.

Lemma ginv_commit st b :
  ginv st -> N.ltb (st_hi st) (b_idx b) = true -> ginv (do_commit st b).
Proof.
  intros G Hlt. apply N.ltb_lt in Hlt. destruct G as [Gnd Gst Ginc Ghi Gq Gh Gr Gi Gc Gn].
  destruct Gh as (pub & r & Hlog & Hr & Hall & Hbuf & Hcl).
  constructor; rewrite ?hist_of_commit;
    cbn [do_commit st_store st_log st_base st_hi st_queue st_bufs st_clients st_cache st_epoch st_nbuf].
  - apply nodup_apply, Gnd.
  - intros k. unfold all_evs. rewrite flat_map_app. cbn [flat_map]. rewrite app_nil_r.
    rewrite (apply_app _ (b_evs b)). apply (meq_apply _ _ _ Gst k).
  - rewrite map_app. apply incr_app; [exact Ginc|repeat constructor|].
    intros u y Hu [<-|[]]. apply in_map_iff in Hu as (b0 & <- & Hb0).
    rewrite Forall_forall in Hall. specialize (Hall _ Hb0). lia.
  - lia.
  - apply Forall_app. split; [exact Gq|]. constructor; [cbn; lia|constructor].
  - exists pub, r. split.
    { rewrite live_queue_commit, Hlog, app_assoc. reflexivity. }
    split; [lia|]. split.
    + apply Forall_app. split.
      * eapply Forall_impl; [|exact Hall]. cbn. intros; lia.
      * constructor; [lia|constructor].
    + split; [exact Hbuf|]. intros c x Hf. apply cinv_commit; [exact Hlt|]. exact (Hcl c x Hf).
  - exact Gr.
  - exact Gi.
  - intros T sn Hf. apply cacheinv_commit; [exact Hlt|]. apply Gc, Hf.
  - exact Gn.
Qed.

(* ---------------------------------------------------------------- transport along equal histories *)

Lemma core_ext h h' T view cidx A D :
  h_log h' = h_log h -> h_base h' = h_base h -> h_hi h' = h_hi h ->
  core h T view cidx A D -> core h' T view cidx A D.
Proof.
  intros El Eb Eh [Hsp Hv Hle Hgt Hs]. constructor; rewrite ?El, ?Eb, ?Eh; auto.
Qed.

Lemma knows_ext h h' r x :
  h_log h' = h_log h -> h_base h' = h_base h -> h_hi h' = h_hi h -> h_epoch h' = h_epoch h ->
  knows h r x -> knows h' r x.
Proof.
  intros El Eb Eh Ee [Hz|[[He (A & D & Hc)]|Ho]].
  - left; exact Hz.
  - right; left. rewrite Ee. split; [exact He|]. exists A, D. eapply core_ext; eauto.
  - right; right. rewrite Ee. exact Ho.
Qed.

Lemma snapok_ext h h' T ob ob' acc rest off A B2 D s :
  h_log h' = h_log h -> h_base h' = h_base h -> h_hi h' = h_hi h ->
  tail h' T ob' off = tail h T ob off ->
  snapok h T ob acc rest off A B2 D s -> snapok h' T ob' acc rest off A B2 D s.
Proof.
  intros El Eb Eh Et [Hsp Hr Hv Ht Hle Hgt Hs]. constructor; rewrite ?El, ?Eb, ?Eh, ?Et; auto.
Qed.

(* the same client under a history with equal log/base/hi/epoch and an equal tail *)
Lemma cinv_ext h h' ob ob' r x :
  h_log h' = h_log h -> h_base h' = h_base h -> h_hi h' = h_hi h -> h_epoch h' = h_epoch h ->
  (forall sb, c_sub x = Some sb -> s_status sb = Open -> buf_live ob (s_off sb) (Some (s_buf sb)) ->
              buf_live ob' (s_off sb) (Some (s_buf sb)) /\
              tail h' (c_ts x) ob' (s_off sb) = tail h (c_ts x) ob (s_off sb)) ->
  cinv h ob r x -> cinv h' ob' r x.
Proof.
  intros El Eb Eh Ee Hsb (Hi & Hep & Hz & Hs & Hk & Hsub). unfold cinv. rewrite Eh, Ee.
  split; [exact Hi|]. split; [exact Hep|]. split; [exact Hz|]. split; [exact Hs|].
  split; [eapply knows_ext; eauto|].
  destruct (c_sub x) as [sb|] eqn:Es; [|exact I]. destruct (s_status sb) eqn:Est; try exact I.
  destruct Hsub as [Hl Hsub]. destruct (Hsb sb eq_refl Est Hl) as [Hl' Ht]. split; [exact Hl'|].
  destruct Hsub as [Hst|Hsn].
  - left. destruct Hst as (Hp & Hh & He & Hsn & A & D & R & E & Hc & Htl & HR & HE).
    split; [exact Hp|]. split; [exact Hh|]. rewrite Ee. split; [exact He|]. split; [exact Hsn|].
    exists A, D, R, E. split; [eapply core_ext; eauto|]. split; [|split; [exact HR|exact HE]]. rewrite Ht. exact Htl.
  - right. destruct Hsn as (Hs0 & acc & rest & A & B2 & D & s & Hh & Hso). split; [exact Hs0|].
    exists acc, rest, A, B2, D, s. split; [exact Hh|]. eapply snapok_ext; eauto.
Qed.

Lemma cacheinv_ext h h' T ob ob' sn :
  h_log h' = h_log h -> h_base h' = h_base h -> h_hi h' = h_hi h ->
  (buf_live ob (sn_off sn) None ->
   buf_live ob' (sn_off sn) None /\ tail h' T ob' (sn_off sn) = tail h T ob (sn_off sn)) ->
  cacheinv h T ob sn -> cacheinv h' T ob' sn.
Proof.
  intros El Eb Eh Hb (Hl & body & A & B2 & D & s & Hit & Hso). destruct (Hb Hl) as [Hl' Ht].
  split; [exact Hl'|]. exists body, A, B2, D, s. split; [exact Hit|]. eapply snapok_ext; eauto.
Qed.

(* dropping or closing the subscription only weakens what is asked of the client *)
Lemma cinv_weaken h ob ob' r x x' :
  c_ts x' = c_ts x -> c_view x' = c_view x -> c_idx x' = c_idx x -> c_h x' = c_h x ->
  c_epoch x' = c_epoch x ->
  match c_sub x' with Some sb => s_status sb <> Open | None => True end ->
  cinv h ob r x -> cinv h ob' r x'.
Proof.
  intros Et Ev Ei Eh Ee Hs (Hi & Hep & Hz & Hsn & Hk & Hsub). unfold cinv, knows in *.
  rewrite Et, Ev, Ei, Eh, Ee. split; [exact Hi|]. split; [exact Hep|]. split; [exact Hz|].
  split; [exact Hsn|]. split; [exact Hk|].
  destruct (c_sub x') as [sb|]; [|exact I]. destruct (s_status sb); try exact I. congruence.
Qed.

Lemma cinv_nosub h ob ob' r x :
  (match c_sub x with Some sb => s_status sb <> Open | None => True end) ->
  cinv h ob r x -> cinv h ob' r x.
Proof. intros Hc. apply cinv_weaken; auto. Qed.

Lemma live_same h T ob ob' off id tb tb' :
  ob = Some tb -> ob' = Some tb' -> tb_items tb' = tb_items tb -> tb_id tb' = tb_id tb ->
  buf_live ob off id -> buf_live ob' off id /\ tail h T ob' off = tail h T ob off.
Proof.
  intros -> -> Ei Eo (tb0 & E & Hoff & Hid). injection E as <-. split.
  - exists tb'. rewrite Ei, Eo. auto.
  - unfold tail. cbn [ob_items]. rewrite Ei. reflexivity.
Qed.

(* ---------------------------------------------------------------- publish *)

Lemma publish_items T tb b : tb_ts tb = T -> tb_items (publish_buf b tb) = tb_items tb ++ proj T [b].
Proof.
  intros <-. unfold publish_buf. cbn [proj flat_map].
  destruct (evs_for (tb_ts tb) (b_evs b)); cbn [tb_items app]; [rewrite app_nil_r|]; reflexivity.
Qed.

Lemma publish_ts b tb : tb_ts (publish_buf b tb) = tb_ts tb.
Proof. unfold publish_buf. destruct (evs_for (tb_ts tb) (b_evs b)); reflexivity. Qed.

Lemma publish_id b tb : tb_id (publish_buf b tb) = tb_id tb.
Proof. unfold publish_buf. destruct (evs_for (tb_ts tb) (b_evs b)); reflexivity. Qed.

Lemma publish_refs b tb : tb_refs (publish_buf b tb) = tb_refs tb.
Proof. unfold publish_buf. destruct (evs_for (tb_ts tb) (b_evs b)); reflexivity. Qed.

Definition hist_pub (h : hist) (q : list batch) : hist :=
  Hist (h_hi h) (h_log h) (h_base h) (h_epoch h) q.

Lemma live_publish T ob off id b q h :
  (forall tb, ob = Some tb -> tb_ts tb = T) -> h_lq h = b :: q ->
  buf_live ob off id ->
  buf_live (option_map (publish_buf b) ob) off id /\
  tail (hist_pub h q) T (option_map (publish_buf b) ob) off = tail h T ob off.
Proof.
  intros Hts Hq (tb & -> & Hoff & Hid). specialize (Hts tb eq_refl). cbn [option_map]. split.
  - exists (publish_buf b tb). split; [reflexivity|]. rewrite publish_id. split; [|exact Hid].
    rewrite (publish_items T) by exact Hts. rewrite app_length. lia.
  - unfold tail. cbn [hist_pub h_lq ob_items]. rewrite Hq, (publish_items T) by exact Hts.
    rewrite skipn_app_le by exact Hoff. change (b :: q) with ([b] ++ q). rewrite proj_app, app_assoc. reflexivity.
Qed.

Lemma close_acl_sub toks x :
  c_ts (close_sub_acl toks x) = c_ts x /\ c_view (close_sub_acl toks x) = c_view x /\
  c_idx (close_sub_acl toks x) = c_idx x /\ c_h (close_sub_acl toks x) = c_h x /\
  c_epoch (close_sub_acl toks x) = c_epoch x /\
  (c_sub (close_sub_acl toks x) = c_sub x \/
   exists sb, c_sub x = Some sb /\
              c_sub (close_sub_acl toks x) = Some (Sub AclClosed (s_pre sb) (s_off sb) (s_buf sb) (s_snap sb))).
Proof.
  unfold close_sub_acl. destruct (c_sub x) as [sb|] eqn:Es; [|rewrite Es; auto 10].
  destruct (s_status sb); try (rewrite Es; auto 10).
  destruct (existsb _ toks); cbn; [|rewrite Es; auto 10].
  repeat split; auto. right. exists sb. auto.
Qed.

Lemma has_sub_close_acl T id toks x : has_sub_on T id (close_sub_acl toks x) = has_sub_on T id x.
Proof.
  unfold has_sub_on. destruct (close_acl_sub toks x) as (Et & _ & _ & _ & _ & [Es|(sb & Es & Es')]).
  - rewrite Es, Et. reflexivity.
  - rewrite Es, Es', Et. reflexivity.
Qed.

(* closing a subscription, or leaving it as it is *)
Lemma cinv_close h ob r x x' :
  c_ts x' = c_ts x -> c_view x' = c_view x -> c_idx x' = c_idx x -> c_h x' = c_h x ->
  c_epoch x' = c_epoch x ->
  (c_sub x' = c_sub x \/ exists sb, c_sub x' = Some sb /\ s_status sb <> Open) ->
  cinv h ob r x -> cinv h ob r x'.
Proof.
  intros Et Ev Ei Eh Ee [Hs|(sb & Hs & Hne)] Hc.
  - destruct Hc as (Hi & Hep & Hz & Hsn & Hk & Hsub). unfold cinv, knows in *.
    rewrite Et, Ev, Ei, Eh, Ee, Hs. split; [exact Hi|]. split; [exact Hep|]. split; [exact Hz|].
    split; [exact Hsn|]. split; [exact Hk|].
    destruct (c_sub x) as [sb|]; [|exact I]. destruct (s_status sb); try exact I.
    unfold subinv in *. rewrite Et, Ev, Ei, Eh, Ee. exact Hsub.
  - eapply cinv_weaken; eauto. rewrite Hs. exact Hne.
Qed.

Lemma ginv_publish st : ginv st -> ginv (fst (do_publish st)).
Proof.
  intros G. unfold do_publish. destruct (st_queue st) as [|[g b] q] eqn:Eq; [exact G|].
  destruct G as [Gnd Gst Ginc Ghi Gq Gh Gr Gi Gc Gn].
  destruct Gh as (pub & r & Hlog & Hr & Hall & Hbuf & Hcl).
  rewrite Eq in Gq. apply Forall_cons_iff in Gq as [Hg Gq']. cbn [fst] in Hg.
  destruct (N.eqb g (st_epoch st)) eqn:Eg; cbn [fst].
  - (* the batch belongs to the current generation: it is published *)
    apply N.eqb_eq in Eg. subst g.
    assert (Hlq : live_queue st = b :: map snd (filter (fun gb => N.eqb (fst gb) (st_epoch st)) q)).
    { unfold live_queue. rewrite Eq. cbn [filter fst]. rewrite N.eqb_refl. reflexivity. }
    set (q' := map snd (filter (fun gb => N.eqb (fst gb) (st_epoch st)) q)) in *.
    assert (Hh : forall st', st_hi st' = st_hi st -> st_log st' = st_log st -> st_base st' = st_base st ->
                             st_epoch st' = st_epoch st -> st_queue st' = q ->
                             hist_of st' = hist_pub (hist_of st) q').
    { intros st' E1 E2 E3 E4 E5. unfold hist_of, hist_pub, live_queue. rewrite E1, E2, E3, E4, E5. reflexivity. }
    constructor; rewrite ?(Hh _ eq_refl eq_refl eq_refl eq_refl eq_refl);
      cbn [st_store st_log st_base st_hi st_queue st_bufs st_clients st_cache st_epoch st_nbuf]; auto.
    + exists (pub ++ [b]), r. split.
      { unfold live_queue. cbn [st_queue st_epoch]. fold q'. rewrite Hlog, Hlq, <- app_assoc. reflexivity. }
      split; [exact Hr|]. split; [exact Hall|]. split.
      * intros T tb' Hf. rewrite find_buf_map in Hf by apply publish_ts.
        destruct (find_buf T (st_bufs st)) as [tb|] eqn:Ef; [|discriminate]. injection Hf as <-.
        destruct (Hbuf T tb Ef) as [X HX].
        exists X. rewrite proj_app, HX, (publish_items T) by (eapply find_buf_ts; eauto).
        rewrite app_assoc. reflexivity.
      * intros c x' Hf. rewrite find_client_map in Hf.
        destruct (find_client c (st_clients st)) as [x|] eqn:Ec; [|discriminate]. injection Hf as <-.
        specialize (Hcl c x Ec). destruct (close_acl_sub (b_close b) x) as (Et & Ev & Ei & Eh & Ee & Hs).
        rewrite Et, find_buf_map by apply publish_ts.
        eapply cinv_close with (x := x); auto.
        -- destruct Hs as [Hs|(sb & Hs & Hs')]; [left; exact Hs|]. right. eexists. split; [exact Hs'|]. discriminate.
        -- eapply (cinv_ext (hist_of st)); [reflexivity|reflexivity|reflexivity|reflexivity| |exact Hcl].
           intros sb _ _ Hl. eapply live_publish; [|exact Hlq|exact Hl].
           intros tb Hf. eapply find_buf_ts; eauto.
    + intros T tb' Hf. rewrite find_buf_map in Hf by apply publish_ts.
      destruct (find_buf T (st_bufs st)) as [tb|] eqn:Ef; [|discriminate]. injection Hf as <-.
      rewrite publish_id, publish_refs, count_map by (intros; apply has_sub_close_acl). apply (Gr T tb Ef).
    + destruct Gi as [Gi1 Gi2]. split.
      * intros T tb' Hf. rewrite find_buf_map in Hf by apply publish_ts.
        destruct (find_buf T (st_bufs st)) as [tb|] eqn:Ef; [|discriminate]. injection Hf as <-.
        rewrite publish_id. apply (Gi1 T tb Ef).
      * intros c x' sb Hf Hs. rewrite find_client_map in Hf.
        destruct (find_client c (st_clients st)) as [x|] eqn:Ec; [|discriminate]. injection Hf as <-.
        destruct (close_acl_sub (b_close b) x) as (_ & _ & _ & _ & _ & [Hs'|(sb0 & Hs0 & Hs')]).
        -- rewrite Hs' in Hs. eapply Gi2; eauto.
        -- rewrite Hs' in Hs. injection Hs as <-. cbn [s_buf]. eapply Gi2; eauto.
    + intros T sn Hf. specialize (Gc T sn Hf). rewrite find_buf_map by apply publish_ts.
      eapply (cacheinv_ext (hist_of st)); [reflexivity|reflexivity|reflexivity| |exact Gc].
      intros Hl. eapply live_publish; [|exact Hlq|exact Hl]. intros tb Hf'. eapply find_buf_ts; eauto.
    + rewrite map_fst_map. exact Gn.
  - (* a batch of a replaced store: dropped *)
    apply N.eqb_neq in Eg.
    assert (Hlq : live_queue st = map snd (filter (fun gb => N.eqb (fst gb) (st_epoch st)) q)).
    { unfold live_queue. rewrite Eq. cbn [filter fst]. apply N.eqb_neq in Eg. rewrite Eg. reflexivity. }
    match goal with |- ginv ?s => set (st' := s) end.
    assert (Hh : hist_of st' = hist_of st).
    { unfold hist_of. rewrite Hlq. reflexivity. }
    constructor; rewrite ?Hh; subst st';
      cbn [st_store st_log st_base st_hi st_queue st_bufs st_clients st_cache st_epoch st_nbuf]; auto.
    exists pub, r. split.
    { unfold live_queue. cbn [st_queue st_epoch]. rewrite Hlog, Hlq. reflexivity. }
    auto.
Qed.

(* ---------------------------------------------------------------- evict *)

Lemma ginv_evict st T : ginv st -> ginv (do_evict st T).
Proof.
  intros [Gnd Gst Ginc Ghi Gq Gh Gr Gi Gc Gn].
  constructor; cbn [do_evict st_store st_log st_base st_hi st_queue st_bufs st_clients st_cache st_epoch st_nbuf]; auto.
  intros T' sn Hf. destruct (ts_eqb T' T) eqn:E.
  - apply ts_eqb_eq in E; subst T'. rewrite find_del_snap_same in Hf. discriminate.
  - apply ts_eqb_neq in E. rewrite find_del_snap_other in Hf by exact E. apply Gc, Hf.
Qed.

(* ---------------------------------------------------------------- restore *)

Lemma force_close_fields x :
  c_ts (force_close x) = c_ts x /\ c_view (force_close x) = c_view x /\
  c_idx (force_close x) = c_idx x /\ c_h (force_close x) = c_h x /\
  c_epoch (force_close x) = c_epoch x /\
  match c_sub (force_close x) with
  | Some sb => s_status sb <> Open /\ exists sb0, c_sub x = Some sb0 /\ s_buf sb0 = s_buf sb
  | None => c_sub x = None
  end.
Proof.
  unfold force_close. destruct (c_sub x) as [sb|] eqn:Es; [|rewrite Es; auto 10].
  destruct (s_status sb) eqn:Est; cbn; rewrite ?Es; repeat split; auto; try congruence; eauto.
Qed.

Lemma ginv_restore st rows hi :
  ginv st -> nodup_keys rows = true -> ginv (do_restore st rows hi).
Proof.
  intros [Gnd Gst Ginc Ghi Gq Gh Gr Gi Gc Gn] Hnd.
  destruct Gh as (pub & r & Hlog & Hr & Hall & Hbuf & Hcl).
  assert (Hlq : live_queue (do_restore st rows hi) = []).
  { unfold live_queue. cbn [do_restore st_queue st_epoch]. apply live_queue_none.
    eapply Forall_impl; [|exact Gq]. cbn. intros; lia. }
  constructor; cbn [do_restore st_store st_log st_base st_hi st_queue st_bufs st_clients st_cache st_epoch st_nbuf].
  - apply nodup_keys_spec, Hnd.
  - intros k; reflexivity.
  - constructor.
  - lia.
  - eapply Forall_impl; [|exact Gq]. cbn. intros; lia.
  - exists [], (st_hi st). rewrite Hlq. split; [reflexivity|]. split; [lia|]. split; [constructor|]. split.
    + intros T tb' Hf. discriminate.
    + intros c x' Hf. rewrite find_client_map in Hf.
      destruct (find_client c (st_clients st)) as [x|] eqn:Ec; [|discriminate]. injection Hf as <-.
      destruct (Hcl c x Ec) as (Hi & Hep & Hz & Hs & Hk & _). cbn [hist_of h_hi h_epoch] in Hi, Hep.
      destruct (force_close_fields x) as (Et & Ev & Ei & Eh & Ee & Hsub).
      unfold cinv, knows. rewrite Et, Ev, Ei, Eh, Ee. cbn [hist_of h_hi h_epoch do_restore st_hi st_epoch].
      split; [lia|]. split; [lia|]. split; [exact Hz|]. split; [exact Hs|]. split.
      * destruct (N.eq_dec (c_idx x) 0) as [E0|E0]; [left; exact E0|]. right; right. split; [lia|exact Hi].
      * destruct (c_sub (force_close x)) as [sb|]; [|exact I]. destruct Hsub as [Hne _].
        destruct (s_status sb); try exact I. congruence.
  - intros T tb Hf. discriminate.
  - destruct Gi as [Gi1 Gi2]. split; [intros T tb Hf; discriminate|].
    intros c x' sb Hf Hs. rewrite find_client_map in Hf.
    destruct (find_client c (st_clients st)) as [x|] eqn:Ec; [|discriminate]. injection Hf as <-.
    destruct (force_close_fields x) as (_ & _ & _ & _ & _ & Hsub). rewrite Hs in Hsub.
    destruct Hsub as (_ & sb0 & Hs0 & <-). eapply Gi2; eauto.
  - intros T sn Hf. discriminate.
  - rewrite map_fst_map. exact Gn.
Qed.

(* ---------------------------------------------------------------- unsubscribe *)

Lemma count_ge_one T id c y l :
  find_client c l = Some y -> has_sub_on T id y = true -> (1 <= count_subs T id l)%nat.
Proof.
  induction l as [|[c' z] r IH]; cbn [find_client count_subs]; [discriminate|].
  destruct (N.eqb c c').
  - intros H; injection H as ->. intros ->. lia.
  - intros H1 H2. specialize (IH H1 H2). lia.
Qed.

(* the client gives up its subscription (the buffer's counter is not yet touched) *)
Lemma ginv_drop_sub st c x :
  ginv st -> find_client c (st_clients st) = Some x ->
  ginv (with_clients st (put_client c (drop_sub x) (st_clients st))) /\
  forall T id, (count_subs T id (put_client c (drop_sub x) (st_clients st)) + b2n (has_sub_on T id x)
                = count_subs T id (st_clients st))%nat.
Proof.
  intros [Gnd Gst Ginc Ghi Gq Gh Gr Gi Gc Gn] Ec.
  destruct Gh as (pub & r & Hlog & Hr & Hall & Hbuf & Hcl).
  assert (Hcnt : forall T id, (count_subs T id (put_client c (drop_sub x) (st_clients st)) + b2n (has_sub_on T id x)
                               = count_subs T id (st_clients st))%nat).
  { intros T id. pose proof (count_put_client T id c (drop_sub x) _ Gn) as H. rewrite Ec in H.
    change (has_sub_on T id (drop_sub x)) with false in H. cbn [b2n] in H. lia. }
  split; [|exact Hcnt].
  constructor; cbn [with_clients st_store st_log st_base st_hi st_queue st_bufs st_clients st_cache st_epoch st_nbuf]; auto.
  - exists pub, r. split; [exact Hlog|]. split; [exact Hr|]. split; [exact Hall|]. split; [exact Hbuf|].
    intros c' y Hf. change (hist_of _) with (hist_of st). destruct (N.eq_dec c' c) as [->|Hne].
    + rewrite find_put_client_same in Hf. injection Hf as <-.
      eapply cinv_weaken with (x := x). 1-5: reflexivity. exact I. exact (Hcl c x Ec).
    + rewrite find_put_client_other in Hf by exact Hne. exact (Hcl c' y Hf).
  - intros T tb Hf. specialize (Gr T tb Hf). specialize (Hcnt T (tb_id tb)). lia.
  - destruct Gi as [Gi1 Gi2]. split; [exact Gi1|]. intros c' y sb Hf Hs.
    destruct (N.eq_dec c' c) as [->|Hne].
    + rewrite find_put_client_same in Hf. injection Hf as <-. discriminate.
    + rewrite find_put_client_other in Hf by exact Hne. eapply Gi2; eauto.
  - apply nodup_put_client, Gn.
Qed.

(* freeBuf *)
Lemma ginv_release st T id :
  ginv st ->
  (forall tb, find_buf T (st_bufs st) = Some tb -> tb_id tb = id ->
              (count_subs T id (st_clients st) + 1 <= tb_refs tb)%nat) ->
  ginv (release T id st).
Proof.
  intros G Hcnt. unfold release. destruct (find_buf T (st_bufs st)) as [tb|] eqn:Eb; [|exact G].
  destruct (N.eqb (tb_id tb) id) eqn:Eid; [|exact G]. apply N.eqb_eq in Eid.
  specialize (Hcnt tb eq_refl Eid).
  destruct G as [Gnd Gst Ginc Ghi Gq Gh Gr Gi Gc Gn].
  destruct Gh as (pub & r & Hlog & Hr & Hall & Hbuf & Hcl).
  destruct (tb_refs tb) as [|[|n]] eqn:Er.
  1, 2: (* the last reference: the buffer and its cached snapshot go away *)
    assert (Hz0 : count_subs T id (st_clients st) = 0%nat) by lia;
    constructor; cbn [st_store st_log st_base st_hi st_queue st_bufs st_clients st_cache st_epoch st_nbuf]; auto;
    [ exists pub, r; split; [exact Hlog|]; split; [exact Hr|]; split; [exact Hall|]; split;
      [ intros T' tb' Hf; destruct (ts_eqb T' T) eqn:E;
        [ apply ts_eqb_eq in E; subst T'; rewrite find_del_buf_same in Hf; discriminate
        | apply ts_eqb_neq in E; rewrite find_del_buf_other in Hf by exact E; eapply Hbuf; eauto ]
      | intros c' y Hf; change (hist_of _) with (hist_of st);
        destruct (ts_eqb (c_ts y) T) eqn:E;
        [ apply ts_eqb_eq in E; rewrite E, find_del_buf_same;
          eapply cinv_nosub; [|exact (Hcl c' y Hf)];
          destruct (c_sub y) as [sby|] eqn:Esy; [|exact I];
          destruct (s_status sby) eqn:Esty; try discriminate; exfalso;
          destruct (Hcl c' y Hf) as (_ & _ & _ & _ & _ & Hsub); rewrite Esy, Esty, E, Eb in Hsub;
          destruct Hsub as [(tb0 & Etb0 & _ & Hid0) _]; injection Etb0 as <-;
          assert (has_sub_on T id y = true) as Hy
            by (unfold has_sub_on; rewrite Esy, E, ts_eqb_refl, <- Hid0, Eid; apply N.eqb_refl);
          pose proof (count_ge_one T id c' y _ Hf Hy); lia
        | apply ts_eqb_neq in E; rewrite find_del_buf_other by exact E; exact (Hcl c' y Hf) ] ]
    | intros T' tb' Hf; destruct (ts_eqb T' T) eqn:E;
      [ apply ts_eqb_eq in E; subst T'; rewrite find_del_buf_same in Hf; discriminate
      | apply ts_eqb_neq in E; rewrite find_del_buf_other in Hf by exact E; apply Gr, Hf ]
    | destruct Gi as [Gi1 Gi2]; split; [|exact Gi2]; intros T' tb' Hf; destruct (ts_eqb T' T) eqn:E;
      [ apply ts_eqb_eq in E; subst T'; rewrite find_del_buf_same in Hf; discriminate
      | apply ts_eqb_neq in E; rewrite find_del_buf_other in Hf by exact E; eapply Gi1; eauto ]
    | intros T' sn Hf; change (hist_of _) with (hist_of st); destruct (ts_eqb T' T) eqn:E;
      [ apply ts_eqb_eq in E; subst T'; rewrite find_del_snap_same in Hf; discriminate
      | apply ts_eqb_neq in E; rewrite find_del_snap_other in Hf by exact E;
        rewrite find_del_buf_other by exact E; apply Gc, Hf ] ].
  (* other references remain: only the counter changes *)
  set (tb' := TBuf T (S n) (tb_items tb) (tb_id tb)).
  assert (Hsame : forall T', find_buf T' (put_buf tb' (st_bufs st)) =
                             if ts_eqb T' T then Some tb' else find_buf T' (st_bufs st)).
  { intros T'. destruct (ts_eqb T' T) eqn:E.
    - apply ts_eqb_eq in E; subst T'. apply (find_put_buf_same tb').
    - apply ts_eqb_neq in E. apply find_put_buf_other. exact E. }
  constructor; cbn [st_store st_log st_base st_hi st_queue st_bufs st_clients st_cache st_epoch st_nbuf]; auto.
  - exists pub, r. split; [exact Hlog|]. split; [exact Hr|]. split; [exact Hall|]. split.
    + intros T' tb0 Hf. rewrite Hsame in Hf. destruct (ts_eqb T' T) eqn:E.
      * apply ts_eqb_eq in E; subst T'. injection Hf as <-. exact (Hbuf T tb Eb).
      * eapply Hbuf; eauto.
    + intros c' y Hf. change (hist_of _) with (hist_of st). rewrite Hsame.
      destruct (ts_eqb (c_ts y) T) eqn:E; [|exact (Hcl c' y Hf)].
      apply ts_eqb_eq in E. pose proof (Hcl c' y Hf) as Hy. rewrite E, Eb in Hy.
      eapply (cinv_ext (hist_of st)); [reflexivity|reflexivity|reflexivity|reflexivity| |exact Hy].
      intros sby _ _ Hl. rewrite E. eapply live_same; [reflexivity|reflexivity|reflexivity|reflexivity|exact Hl].
  - intros T' tb0 Hf. rewrite Hsame in Hf. destruct (ts_eqb T' T) eqn:E.
    + apply ts_eqb_eq in E; subst T'. injection Hf as <-. cbn [tb_refs tb_id tb']. rewrite Eid. lia.
    + apply Gr, Hf.
  - destruct Gi as [Gi1 Gi2]. split; [|exact Gi2]. intros T' tb0 Hf. rewrite Hsame in Hf.
    destruct (ts_eqb T' T) eqn:E.
    + injection Hf as <-. cbn [tb_id tb']. eapply Gi1; eauto.
    + eapply Gi1; eauto.
  - intros T' sn Hf. change (hist_of _) with (hist_of st). rewrite Hsame. pose proof (Gc T' sn Hf) as Hc.
    destruct (ts_eqb T' T) eqn:E; [|exact Hc]. apply ts_eqb_eq in E; subst T'. rewrite Eb in Hc.
    eapply (cacheinv_ext (hist_of st)); [reflexivity|reflexivity|reflexivity| |exact Hc].
    intros Hl. eapply live_same; [reflexivity|reflexivity|reflexivity|reflexivity|exact Hl].
Qed.

Lemma ginv_unsub st c : ginv st -> ginv (fst (do_unsub st c)).
Proof.
  intros G. unfold do_unsub. destruct (find_client c (st_clients st)) as [x|] eqn:Ec; [|exact G].
  destruct (c_sub x) as [sb|] eqn:Es; [|exact G]. cbn [fst].
  destruct (ginv_drop_sub st c x G Ec) as [G1 Hcnt].
  apply ginv_release; [exact G1|]. cbn [with_clients st_bufs st_clients]. intros tb Hf Hid.
  specialize (Hcnt (c_ts x) (s_buf sb)).
  assert (has_sub_on (c_ts x) (s_buf sb) x = true) as Hx
    by (unfold has_sub_on; rewrite Es, ts_eqb_refl, N.eqb_refl; reflexivity).
  rewrite Hx in Hcnt. cbn [b2n] in Hcnt. destruct G as [_ _ _ _ _ _ Gr _ _ _].
  specialize (Gr _ _ Hf). rewrite Hid in Gr. lia.
Qed.

(* ---------------------------------------------------------------- next *)

Lemma proj_evs_match T log i evs :
  In (IEv i evs) (proj T log) -> forall e, In e evs -> matches T (e_key e) = true.
Proof.
  induction log as [|b r IH]; cbn [proj flat_map]; [intros []|]. fold (proj T r).
  rewrite in_app_iff. intros [H|H]; [|apply IH, H].
  destruct (evs_for T (b_evs b)) as [|e0 l] eqn:E; cbn in H; [destruct H|].
  destruct H as [H|[]]. injection H as _ <-. intros e He. rewrite <- E in He.
  unfold evs_for in He. apply filter_In in He. apply He.
Qed.

Lemma lastev_nomatch T k evs :
  (forall e, In e evs -> matches T (e_key e) = true) -> matches T k = false -> lastev k evs = None.
Proof.
  intros Hall Hk. induction evs as [|e r IH]; cbn [lastev]; [reflexivity|].
  rewrite IH by (intros e' He'; apply Hall; right; exact He').
  destruct (key_eqb k (e_key e)) eqn:E; [|reflexivity]. apply key_eqb_eq in E. subst k.
  rewrite (Hall e) in Hk by (left; reflexivity). discriminate.
Qed.

Lemma proj_item_batch T log it : In it (proj T log) -> exists b, In b log /\ item_idx it = b_idx b.
Proof.
  induction log as [|b r IH]; cbn [proj flat_map]; [intros []|]. fold (proj T r).
  rewrite in_app_iff. intros [H|H].
  - destruct (evs_for T (b_evs b)); cbn in H; [destruct H|]. destruct H as [<-|[]].
    exists b. split; [left; reflexivity|reflexivity].
  - destruct (IH H) as (b0 & Hb & Hi). exists b0. split; [right; exact Hb|exact Hi].
Qed.

Lemma ievs_cons_ev i evs l : ievs (IEv i evs :: l) = evs ++ ievs l.
Proof. reflexivity. Qed.

Lemma skipn_plus {A} x y (l : list A) : skipn (x + y) l = skipn x (skipn y l).
Proof.
  revert l. induction y as [|y IH]; intros l; [rewrite Nat.add_0_r; reflexivity|].
  rewrite Nat.add_succ_r. destruct l as [|a l]; cbn [skipn]; [destruct x; reflexivity|apply IH].
Qed.

Lemma skipped_zero it : skipped 0 it = false.
Proof.
  destruct it as [i evs| |]; cbn; try reflexivity. apply andb_false_iff. right. apply N.ltb_ge. lia.
Qed.

Lemma drop_skipped_zero l : drop_skipped 0 l = l.
Proof. destruct l as [|it r]; cbn [drop_skipped]; [reflexivity|]. rewrite skipped_zero. reflexivity. Qed.

Lemma first_new_skip snap R l off :
  Forall (fun it => skipped snap it = true) R ->
  first_new snap (R ++ l) off = first_new snap l (off + List.length R)%nat.
Proof.
  intros H. revert off. induction H as [|it R Hit _ IH]; intros off; cbn [app first_new List.length].
  - rewrite Nat.add_0_r. reflexivity.
  - rewrite Hit, IH. f_equal. lia.
Qed.

Lemma first_new_none snap R off :
  Forall (fun it => skipped snap it = true) R -> first_new snap R off = None.
Proof.
  intros H. rewrite <- (app_nil_r R), first_new_skip by exact H. reflexivity.
Qed.

Lemma skipped_iev snap it : is_iev it -> 1 <= item_idx it < snap -> skipped snap it = true.
Proof.
  destruct it as [i evs| |]; cbn; try contradiction. intros _ [H1 H2].
  apply andb_true_iff. split; apply N.ltb_lt; lia.
Qed.

Lemma not_skipped_ge snap it : snap <= item_idx it -> skipped snap it = false.
Proof.
  destruct it as [i evs| |]; cbn; try reflexivity. intros H.
  apply andb_false_iff. right. apply N.ltb_ge. exact H.
Qed.

(* an increasing list bounded by s: everything is below s except possibly its last element *)
Lemma split_at_top (s : N) (l : list item) :
  incr (map item_idx l) -> Forall (fun it => item_idx it <= s) l ->
  exists l1 l2, l = l1 ++ l2 /\ Forall (fun it => item_idx it < s) l1 /\
                (l2 = [] \/ exists e, l2 = [e] /\ item_idx e = s).
Proof.
  induction l as [|a l' _] using rev_ind; intros Hinc Hle.
  - exists [], []. split; [reflexivity|]. split; [constructor|left; reflexivity].
  - apply Forall_app in Hle as [Hle' Ha]. apply Forall_cons_iff in Ha as [Ha _].
    rewrite map_app in Hinc. apply incr_app_inv in Hinc as (_ & _ & Hlt).
    assert (Hl' : Forall (fun it => item_idx it < item_idx a) l').
    { rewrite Forall_forall. intros it Hit. apply Hlt; [apply in_map, Hit|left; reflexivity]. }
    destruct (N.eq_dec (item_idx a) s) as [E|E].
    + exists l', [a]. split; [reflexivity|]. split; [rewrite <- E; exact Hl'|right; exists a; auto].
    + exists (l' ++ [a]), []. split; [rewrite app_nil_r; reflexivity|]. split; [|left; reflexivity].
      apply Forall_app. split; [eapply Forall_impl; [|exact Hl']; cbn; intros; lia|constructor; [lia|constructor]].
Qed.

(* re-applying the events of a T-view on top of itself *)
Lemma view_apply T evs view M :
  (forall e, In e evs -> matches T (e_key e) = true) ->
  (forall k, aget k view = if matches T k then aget k M else None) ->
  forall k, aget k (apply evs view) = if matches T k then aget k (apply evs M) else None.
Proof.
  intros Hm HM k. rewrite (aget_apply k evs view), (aget_apply k evs M).
  destruct (matches T k) eqn:Ek.
  - destruct (lastev k evs); [reflexivity|]. rewrite HM, Ek. reflexivity.
  - rewrite (lastev_nomatch T) by assumption. rewrite HM, Ek. reflexivity.
Qed.

(* delivering the next private item (snapshot framing) *)
Lemma cinv_deliver_pre h ob r x sb it pre' :
  incr (map item_idx (proj (c_ts x) (h_log h))) ->
  (forall it', In it' (proj (c_ts x) (h_log h)) -> 1 <= item_idx it' <= h_hi h) ->
  cinv h ob r x -> c_sub x = Some sb -> s_status sb = Open ->
  drop_skipped (s_snap sb) (s_pre sb) = it :: pre' ->
  cinv h ob r (handle (h_epoch h) x (Sub Open pre' (s_off sb) (s_buf sb) (snap_after (s_snap sb) it)) it).
Proof.
  intros Hinc Hbnd (Hi & Hep & Hz & Hs & Hk & Hsub) Es Est Epre. rewrite Es, Est in Hsub.
  destruct Hsub as [Hl [Hst|Hsn]].
  { destruct Hst as (Hp & _). rewrite Hp in Epre. discriminate. }
  destruct Hsn as (Hs0 & acc & rest & A & B2 & D & s & Hh & Hso).
  rewrite Hs0, drop_skipped_zero in Epre. rewrite Hs0.
  destruct Hh as [[Hh Hpre]|(Hh & -> & Hpre)].
  - (* accumulating *)
    rewrite Epre in Hpre. destruct rest as [|it0 rest'].
    + (* EndOfSnapshot: the accumulated events become the view *)
      cbn [app] in Hpre. injection Hpre as -> ->. unfold handle. rewrite Hh. cbn [snap_after].
      destruct Hso as [Hsp Hr Hv Ht Hle Hgt Hss].
      assert (Hc : core h (c_ts x) (apply acc (c_view x)) s (A ++ B2) D).
      { constructor; auto.
        - rewrite Hsp, app_assoc. reflexivity.
        - intros k. specialize (Hv k). cbn [ievs flat_map] in Hv. rewrite app_nil_r in Hv.
          rewrite <- Hv. apply meq_apply. apply Hz. eapply Hs; eauto. }
      assert (HB2 : incr (map item_idx B2)).
      { rewrite Hsp, !map_app in Hinc. apply incr_app_inv in Hinc as (_ & Hinc & _).
        apply incr_app_inv in Hinc as (Hinc & _ & _). exact Hinc. }
      apply Forall_app in Hle as [HleA HleB].
      destruct (split_at_top s B2 HB2 HleB) as (R & E & EB & HRlt & HE).
      assert (HR : Forall (fun it => skipped s it = true) R).
      { rewrite Forall_forall. intros it Hit.
        assert (In it (proj (c_ts x) (h_log h))) as Hin by (rewrite Hsp, EB, !in_app_iff; auto).
        apply skipped_iev.
        - pose proof (proj_iev (c_ts x) (h_log h)) as Hiev. rewrite Forall_forall in Hiev. apply Hiev, Hin.
        - split; [apply Hbnd, Hin|]. rewrite Forall_forall in HRlt. apply HRlt, Hit. }
      assert (Hle : Forall (fun it => item_idx it <= s) (A ++ B2)) by (apply Forall_app; auto).
      unfold cinv, knows. cbn [c_idx c_epoch c_view c_h c_sub c_ts s_status].
      split; [lia|]. split; [lia|]. split; [intros ->; lia|]. split; [intros ? H; discriminate|].
      split; [right; left; split; [reflexivity|exists (A ++ B2), D; exact Hc]|].
      split; [exact Hl|]. left. cbn [s_pre s_off s_snap c_h c_epoch c_ts c_view c_idx].
      split; [reflexivity|]. split; [left; reflexivity|]. split; [reflexivity|]. split; [lia|].
      exists (A ++ B2), D, R, E. split; [exact Hc|]. split; [rewrite Ht, EB, <- app_assoc; reflexivity|].
      split; [exact HR|]. destruct HE as [->|(e & -> & He)]; [left; reflexivity|].
      right. exists (A ++ R), e. split; [reflexivity|]. split; [rewrite EB, app_assoc; reflexivity|auto].
    + (* one more snapshot item *)
      cbn [app] in Hpre. injection Hpre as <- ->.
      destruct Hso as [Hsp Hr Hv Ht Hle Hgt Hss]. inversion Hr as [|? ? Hit Hr']; subst.
      destruct it as [i evs| |]; try contradiction. unfold handle. rewrite Hh. cbn [snap_after].
      unfold cinv, knows. cbn [c_idx c_epoch c_view c_h c_sub c_ts s_status].
      split; [exact Hi|]. split; [exact Hep|]. split; [exact Hz|]. split; [intros ? _; eapply Hs; eauto|].
      split; [exact Hk|]. split; [exact Hl|]. right. cbn [s_snap]. split; [reflexivity|].
      exists (acc ++ evs), rest', A, B2, D, s. cbn [c_h s_pre s_off c_ts].
      split; [left; split; reflexivity|]. constructor; auto.
      intros k. rewrite <- (Hv k), ievs_cons_ev, app_assoc. reflexivity.
  - (* NewSnapshotToFollow: reset *)
    rewrite Epre in Hpre. injection Hpre as -> ->. unfold handle. rewrite Hh. cbn [snap_after].
    unfold cinv, knows. cbn [c_idx c_epoch c_view c_h c_sub c_ts s_status].
    split; [lia|]. split; [exact Hep|]. split; [intros _ k; reflexivity|]. split; [reflexivity|].
    split; [left; reflexivity|]. split; [exact Hl|]. right. cbn [s_snap]. split; [reflexivity|].
    exists [], rest, A, B2, D, s. cbn [c_h s_pre s_off c_ts]. split; [left; split; reflexivity|exact Hso].
Qed.

(* delivering the next item of the topic buffer that Next does not skip *)
Lemma cinv_deliver_buf h ob r x sb items it off' :
  incr (map item_idx (proj (c_ts x) (h_log h))) ->
  (forall it', In it' (proj (c_ts x) (h_log h)) -> 1 <= item_idx it' <= h_hi h) ->
  cinv h ob r x -> c_sub x = Some sb -> s_status sb = Open -> s_pre sb = [] ->
  (forall tb, ob = Some tb -> tb_id tb = s_buf sb -> items = tb_items tb) ->
  first_new (s_snap sb) (skipn (s_off sb) items) (s_off sb) = Some (it, off') ->
  cinv h ob r (handle (h_epoch h) x (Sub Open [] off' (s_buf sb) (snap_after (s_snap sb) it)) it).
Proof.
  intros Hinc Hbnd (Hi & Hep & Hz & Hs & Hk & Hsub) Es Est Epre Hitems Hfn. rewrite Es, Est in Hsub.
  destruct Hsub as [Hl [Hst|Hsn]].
  2: { destruct Hsn as (_ & acc & rest & A & B2 & D & s & [[_ Hpre]|(_ & _ & Hpre)] & _);
       rewrite Epre in Hpre; [destruct rest; discriminate|discriminate]. }
  destruct Hst as (_ & Hh & He & Hsn & A & D & R & E & Hc & Ht & HR & HE).
  destruct Hc as [Hsp Hv Hle Hgt Hss].
  destruct Hl as (tb & -> & Hoff & Hid). rewrite (Hitems tb eq_refl Hid) in Hfn.
  unfold tail in Ht. cbn [ob_items] in Ht.
  apply app_eq_app in Ht as (l & [[HS HD]|[HRl HQ]]).
  2: { (* the buffer holds only skipped items *)
       rewrite first_new_none in Hfn; [discriminate|]. rewrite HRl in HR. apply Forall_app in HR. apply HR. }
  rewrite HS, first_new_skip in Hfn by exact HR.
  destruct l as [|d l']; [discriminate|]. cbn [first_new] in Hfn.
  (* d is the head of E ++ D: the batch at the snapshot's own index, or a later one *)
  assert (Hdge : s_snap sb <= item_idx d /\ c_idx x <= item_idx d).
  { destruct HE as [->|(A' & e & -> & EA & Hei & Hcs)]; cbn [app] in HD.
    - assert (In d D) as Hind by (rewrite HD; left; reflexivity).
      rewrite Forall_forall in Hgt. specialize (Hgt d Hind). lia.
    - injection HD as Hed _. subst e. lia. }
  assert (Hin : In d (proj (c_ts x) (h_log h))).
  { rewrite Hsp. destruct HE as [->|(A' & e & -> & EA & _)]; cbn [app] in HD.
    - rewrite in_app_iff. right. rewrite HD. left; reflexivity.
    - injection HD as Hed _. subst e. rewrite EA, !in_app_iff. left; right; left; reflexivity. }
  rewrite not_skipped_ge in Hfn by lia. injection Hfn as <- <-.
  pose proof (proj_iev (c_ts x) (h_log h)) as Hiev. rewrite Forall_forall in Hiev.
  specialize (Hiev d Hin). destruct d as [i evs| |]; try contradiction. cbn [item_idx] in Hdge.
  pose proof (proj_evs_match _ _ _ _ Hin) as Hm.
  destruct (Hbnd _ Hin) as [Hi1 Hi2]. cbn [item_idx] in Hi1, Hi2.
  assert (Hskip : skipn (S (s_off sb + List.length R)) (tb_items tb) = l').
  { replace (S (s_off sb + List.length R)) with ((List.length R + 1) + s_off sb)%nat by lia.
    rewrite skipn_plus, HS.
    replace (List.length R + 1)%nat with (List.length (R ++ [IEv i evs])) by (rewrite app_length; cbn; lia).
    change (R ++ IEv i evs :: l') with (R ++ [IEv i evs] ++ l'). rewrite app_assoc.
    rewrite skipn_app_le by lia. rewrite skipn_all. reflexivity. }
  assert (Hx' : handle (h_epoch h) x (Sub Open [] (S (s_off sb + List.length R)) (s_buf sb) (snap_after (s_snap sb) (IEv i evs))) (IEv i evs) =
                Client (c_ts x) (c_tok x) (c_rpc x) (apply evs (c_view x)) i HStream
                       (Some (Sub Open [] (S (s_off sb + List.length R)) (s_buf sb) (s_snap sb))) (c_epoch x)).
  { unfold handle. destruct Hh as [-> | ->]; reflexivity. }
  rewrite Hx'. clear Hx'.
  assert (Hlive : buf_live (Some tb) (S (s_off sb + List.length R)) (Some (s_buf sb))).
  { exists tb. split; [reflexivity|]. split; [|exact Hid].
    assert (List.length (skipn (s_off sb) (tb_items tb)) = (List.length R + S (List.length l'))%nat) as Hlen
      by (rewrite HS, app_length; reflexivity).
    rewrite skipn_length in Hlen. lia. }
  pose proof (view_apply (c_ts x) evs (c_view x) (apply (ievs A) (h_base h)) Hm Hv) as Hview.
  destruct HE as [->|(A' & e & -> & EA & Hei & Hcs)]; cbn [app] in HD.
  - (* an event committed after everything the view contains *)
    destruct D as [|d0 D']; [discriminate|]. injection HD as Hd0 HD. subst d0.
    apply Forall_cons_iff in Hgt as [Hdgt Hgt']. cbn [item_idx] in Hdgt.
    assert (Hc' : core h (c_ts x) (apply evs (c_view x)) i (A ++ [IEv i evs]) D').
    { constructor.
      - rewrite Hsp, <- app_assoc. reflexivity.
      - intros k. rewrite ievs_app, apply_app. cbn [ievs flat_map]. rewrite app_nil_r. apply Hview.
      - apply Forall_app. split.
        + eapply Forall_impl; [|exact Hle]. cbn. intros; lia.
        + constructor; [cbn [item_idx]; lia|constructor].
      - rewrite Hsp in Hinc. rewrite map_app in Hinc. apply incr_app_inv in Hinc as (_ & Hd & _).
        cbn [map] in Hd. inversion Hd as [|? ? _ Hf]; subst. rewrite Forall_forall in *.
        intros it' Hit'. apply Hf. apply in_map, Hit'.
      - lia. }
    unfold cinv, knows. cbn [c_idx c_epoch c_view c_h c_sub c_ts s_status].
    split; [lia|]. split; [exact Hep|]. split; [intros ->; lia|]. split; [intros ? H; discriminate|].
    split; [right; left; split; [exact He|eexists _, _; exact Hc']|].
    split; [exact Hlive|].
    left. cbn [s_pre s_off s_snap c_h c_epoch c_ts c_view c_idx].
    split; [reflexivity|]. split; [left; reflexivity|]. split; [exact He|]. split; [lia|].
    exists (A ++ [IEv i evs]), D', [], []. split; [exact Hc'|]. split; [|split; [constructor|left; reflexivity]].
    unfold tail. cbn [ob_items app]. rewrite Hskip, HD. reflexivity.
  - (* the batch at the snapshot's own index, delivered once more: the view does not change *)
    injection HD as Hed HD. subst e. cbn [item_idx] in Hei.
    assert (Hc' : core h (c_ts x) (apply evs (c_view x)) i A D).
    { constructor.
      - exact Hsp.
      - intros k. rewrite (Hview k). destruct (matches (c_ts x) k); [|reflexivity].
        rewrite EA, ievs_app. cbn [ievs flat_map]. rewrite app_nil_r. apply apply_replay.
      - rewrite Hei. exact Hle.
      - rewrite Hei. exact Hgt.
      - rewrite Hei. exact Hss. }
    unfold cinv, knows. cbn [c_idx c_epoch c_view c_h c_sub c_ts s_status].
    split; [lia|]. split; [exact Hep|]. split; [intros ->; lia|]. split; [intros ? H; discriminate|].
    split; [right; left; split; [exact He|eexists _, _; exact Hc']|].
    split; [exact Hlive|].
    left. cbn [s_pre s_off s_snap c_h c_epoch c_ts c_view c_idx].
    split; [reflexivity|]. split; [left; reflexivity|]. split; [exact He|]. split; [lia|].
    exists A, D, [], []. split; [exact Hc'|]. split; [|split; [constructor|left; reflexivity]].
    unfold tail. cbn [ob_items app]. rewrite Hskip, HD. reflexivity.
Qed.

(* replacing one client by a client on the same topic/subject with the same kind of subscription *)
Lemma ginv_put st c x x' :
  ginv st -> find_client c (st_clients st) = Some x ->
  c_ts x' = c_ts x -> (forall T id, has_sub_on T id x' = has_sub_on T id x) ->
  (forall sb', c_sub x' = Some sb' -> exists sb, c_sub x = Some sb /\ s_buf sb = s_buf sb') ->
  (forall r, 1 <= r <= st_hi st -> Forall (fun b => r < b_idx b <= st_hi st) (st_log st) ->
             cinv (hist_of st) (find_buf (c_ts x) (st_bufs st)) r x ->
             cinv (hist_of st) (find_buf (c_ts x) (st_bufs st)) r x') ->
  ginv (with_clients st (put_client c x' (st_clients st))).
Proof.
  intros [Gnd Gst Ginc Ghi Gq Gh Gr Gi Gc Gn] Ec Et Hh Hb Hupd.
  destruct Gh as (pub & r & Hlog & Hr & Hall & Hbuf & Hcl).
  constructor; cbn [with_clients st_store st_log st_base st_hi st_queue st_bufs st_clients st_cache st_epoch st_nbuf]; auto.
  - exists pub, r. split; [exact Hlog|]. split; [exact Hr|]. split; [exact Hall|]. split; [exact Hbuf|].
    intros c' y Hf. change (hist_of _) with (hist_of st). destruct (N.eq_dec c' c) as [->|Hne].
    + rewrite find_put_client_same in Hf. injection Hf as <-. rewrite Et. apply Hupd; auto. exact (Hcl c x Ec).
    + rewrite find_put_client_other in Hf by exact Hne. exact (Hcl c' y Hf).
  - intros T tb Hf. pose proof (count_put_client T (tb_id tb) c x' _ Gn) as H. rewrite Ec, Hh in H.
    assert (count_subs T (tb_id tb) (put_client c x' (st_clients st)) = count_subs T (tb_id tb) (st_clients st)) as -> by lia.
    apply Gr, Hf.
  - destruct Gi as [Gi1 Gi2]. split; [exact Gi1|]. intros c' y sb Hf Hs.
    destruct (N.eq_dec c' c) as [->|Hne].
    + rewrite find_put_client_same in Hf. injection Hf as <-. destruct (Hb sb Hs) as (sb0 & Hs0 & <-). eapply Gi2; eauto.
    + rewrite find_put_client_other in Hf by exact Hne. eapply Gi2; eauto.
  - apply nodup_put_client, Gn.
Qed.

Lemma ginv_next st c : ginv st -> ginv (fst (do_next st c)).
Proof.
  intros G. unfold do_next. destruct (find_client c (st_clients st)) as [x|] eqn:Ec; [|exact G].
  destruct (c_sub x) as [sb|] eqn:Es; [|exact G].
  assert (Hinc : incr (map item_idx (proj (c_ts x) (st_log st)))) by (apply incr_proj, G).
  assert (Hbnd : forall r, Forall (fun b => r < b_idx b <= st_hi st) (st_log st) -> 1 <= r ->
                           forall it', In it' (proj (c_ts x) (st_log st)) -> 1 <= item_idx it' <= st_hi st).
  { intros r Hall Hr it' Hit'. apply proj_item_batch in Hit' as (b & Hb & ->).
    rewrite Forall_forall in Hall. specialize (Hall b Hb). lia. }
  destruct (s_status sb) eqn:Est.
  - (* open *)
    destruct (drop_skipped (s_snap sb) (s_pre sb)) as [|it pre'] eqn:Epre.
    + match goal with |- context [first_new _ (skipn _ ?items) _] => set (its := items) end.
      destruct (first_new (s_snap sb) (skipn (s_off sb) its) (s_off sb)) as [[it off']|] eqn:Efn; [|exact G].
      cbn [fst]. eapply ginv_put; eauto.
      * unfold handle. destruct (c_h x), it; reflexivity.
      * intros T id. unfold has_sub_on, handle. rewrite Es. destruct (c_h x), it; reflexivity.
      * intros sb'. unfold handle. destruct (c_h x), it; cbn [c_sub]; intros H; injection H as <-; exists sb; auto.
      * intros r Hr Hall Hc. change (st_epoch st) with (h_epoch (hist_of st)).
        assert (Hpre : s_pre sb = []).
        { destruct Hc as (_ & _ & _ & _ & _ & Hsub). rewrite Es, Est in Hsub.
          destruct Hsub as [_ [(Hp & _)|(Hs0 & acc & rest & A0 & B0 & D0 & s0 & [[_ Hp]|(_ & _ & Hp)] & _)]]; [exact Hp| |];
            rewrite Hs0, drop_skipped_zero, Hp in Epre; [destruct rest; discriminate|discriminate]. }
        eapply cinv_deliver_buf; eauto.
        -- apply (Hbnd r); [exact Hall|lia].
        -- intros tb Hob Hid. unfold its. rewrite Hob, Hid, N.eqb_refl. reflexivity.
    + cbn [fst]. eapply ginv_put; eauto.
      * unfold handle. destruct (c_h x), it; reflexivity.
      * intros T id. unfold has_sub_on, handle. rewrite Es. destruct (c_h x), it; reflexivity.
      * intros sb'. unfold handle. destruct (c_h x), it; cbn [c_sub]; intros H; injection H as <-; exists sb; auto.
      * intros r Hr Hall Hc. change (st_epoch st) with (h_epoch (hist_of st)).
        eapply cinv_deliver_pre; eauto. apply (Hbnd r); [exact Hall|lia].
  - (* force closed *)
    destruct (c_rpc x); [|exact G]. cbn [fst]. eapply ginv_put; eauto.
    + intros T id. unfold has_sub_on. cbn [c_sub c_ts]. rewrite Es. reflexivity.
    + cbn [c_sub]. intros sb' H. injection H as <-. exists sb. auto.
    + intros r Hr Hall (Hi & Hep & Hz & Hs & Hk & Hsub). unfold cinv, knows.
      cbn [c_idx c_epoch c_view c_h c_sub c_ts]. rewrite Est.
      split; [lia|]. split; [exact Hep|]. split; [intros _ k; reflexivity|]. split; [reflexivity|].
      split; [left; reflexivity|exact I].
  - (* closed after an ACL change *)
    destruct (c_rpc x); [|exact G]. cbn [fst]. eapply ginv_put; eauto.
    + intros T id. unfold has_sub_on. cbn [c_sub c_ts]. rewrite Es. reflexivity.
    + cbn [c_sub]. intros sb' H. injection H as <-. exists sb. auto.
    + intros r Hr Hall (Hi & Hep & Hz & Hs & Hk & Hsub). unfold cinv, knows.
      cbn [c_idx c_epoch c_view c_h c_sub c_ts]. rewrite Est.
      split; [lia|]. split; [exact Hep|]. split; [intros _ k; reflexivity|]. split; [reflexivity|].
      split; [left; reflexivity|exact I].
Qed.

(* ---------------------------------------------------------------- subscribe *)

Lemma put_put_client c x y l : put_client c y (put_client c x l) = put_client c y l.
Proof.
  induction l as [|[c' z] r IH]; cbn [put_client].
  - rewrite N.eqb_refl. reflexivity.
  - destruct (N.eqb c c') eqn:E; cbn [put_client]; rewrite ?N.eqb_refl, ?E; [reflexivity|]. rewrite IH. reflexivity.
Qed.

Lemma last_item_spec items :
  match last_item items with
  | Some it => exists l, items = l ++ [it]
  | None => items = []
  end.
Proof.
  unfold last_item. induction items as [|a l _] using rev_ind; [reflexivity|].
  rewrite map_app. cbn [map]. rewrite last_last. exists l. reflexivity.
Qed.

Lemma splice_len items s :
  (forall it, In it items -> item_idx it <= s) -> splice_off items s = List.length items.
Proof.
  intros H. unfold splice_off. pose proof (last_item_spec items) as Hl.
  destruct (last_item items) as [[j evs| |]|]; try reflexivity.
  destruct Hl as (l & ->). specialize (H (IEv j evs)). rewrite in_app_iff in H.
  specialize (H (or_intror (or_introl eq_refl))). cbn [item_idx] in H.
  destruct (N.ltb s j) eqn:E; [apply N.ltb_lt in E; lia|reflexivity].
Qed.

Lemma head_index_spec items i :
  head_has_index items i = true -> exists l evs, items = l ++ [IEv i evs].
Proof.
  unfold head_has_index. pose proof (last_item_spec items) as Hl.
  destruct (last_item items) as [[j evs| |]|]; try discriminate.
  destruct Hl as (l & ->). intros E. apply N.eqb_eq in E. subst j. eauto.
Qed.

Lemma snap_events_spec T m idx :
  ievs (snap_events T m idx) = map row_ev (rows_of T m) /\ Forall is_iev (snap_events T m idx).
Proof.
  unfold snap_events. destruct (per_row (fst T)).
  - induction (rows_of T m) as [|kv l IH]; cbn [map ievs flat_map]; [split; [reflexivity|constructor]|].
    destruct IH as [IH1 IH2]. split.
    + fold (ievs (map (fun kv0 => IEv idx [Ev (fst kv0) (Some (snd kv0))]) l)). rewrite IH1. reflexivity.
    + constructor; [exact I|exact IH2].
  - destruct (rows_of T m) as [|kv l]; [split; [reflexivity|constructor]|].
    cbn [ievs flat_map]. rewrite app_nil_r. split; [reflexivity|]. constructor; [exact I|constructor].
Qed.

Lemma in_find_client c y l : NoDup (map fst l) -> In (c, y) l -> find_client c l = Some y.
Proof.
  induction l as [|[c' z] r IH]; cbn [map fst find_client In]; intros Hnd; [intros []|].
  inversion Hnd as [|? ? Hni Hr]; subst. intros [H|H].
  - injection H as -> ->. rewrite N.eqb_refl. reflexivity.
  - destruct (N.eqb c c') eqn:E; [|apply IH; assumption].
    apply N.eqb_eq in E; subst. exfalso. apply Hni. apply in_map_iff. exists (c', y). auto.
Qed.

Lemma count_zero T id l :
  NoDup (map fst l) ->
  (forall c y sb, find_client c l = Some y -> c_sub y = Some sb -> s_buf sb <> id) ->
  count_subs T id l = 0%nat.
Proof.
  intros Hnd H. assert (forall c y, In (c, y) l -> has_sub_on T id y = false) as Hall.
  { intros c y Hin. unfold has_sub_on. destruct (c_sub y) as [sb|] eqn:Es; [|reflexivity].
    specialize (H c y sb (in_find_client _ _ _ Hnd Hin) Es). apply N.eqb_neq in H.
    rewrite N.eqb_sym, H. apply andb_false_r. }
  clear H Hnd. induction l as [|[c y] r IH]; cbn [count_subs]; [reflexivity|].
  rewrite (Hall c y) by (left; reflexivity). rewrite IH; [reflexivity|].
  intros c' y' Hin. apply (Hall c' y'). right. exact Hin.
Qed.

(* an idle client that knows nothing can be added *)
Lemma ginv_add_idle st c T tok rpc :
  ginv st -> find_client c (st_clients st) = None ->
  ginv (with_clients st (put_client c (Client T tok rpc [] 0 (HSnap []) None (st_epoch st)) (st_clients st))).
Proof.
  intros [Gnd Gst Ginc Ghi Gq Gh Gr Gi Gc Gn] Ec.
  destruct Gh as (pub & r & Hlog & Hr & Hall & Hbuf & Hcl).
  constructor; cbn [with_clients st_store st_log st_base st_hi st_queue st_bufs st_clients st_cache st_epoch st_nbuf]; auto.
  - exists pub, r. split; [exact Hlog|]. split; [exact Hr|]. split; [exact Hall|]. split; [exact Hbuf|].
    intros c' y Hf. change (hist_of _) with (hist_of st). destruct (N.eq_dec c' c) as [->|Hne].
    + rewrite find_put_client_same in Hf. injection Hf as <-. unfold cinv, knows.
      cbn [c_idx c_epoch c_view c_h c_sub c_ts hist_of h_hi h_epoch].
      split; [lia|]. split; [lia|]. split; [intros _ k; reflexivity|]. split; [reflexivity|].
      split; [left; reflexivity|exact I].
    + rewrite find_put_client_other in Hf by exact Hne. exact (Hcl c' y Hf).
  - intros T' tb Hf.
    pose proof (count_put_client T' (tb_id tb) c (Client T tok rpc [] 0 (HSnap []) None (st_epoch st)) _ Gn) as H.
    rewrite Ec in H.
    change (has_sub_on T' (tb_id tb) (Client T tok rpc [] 0 (HSnap []) None (st_epoch st))) with false in H.
    cbn [b2n] in H. specialize (Gr T' tb Hf). lia.
  - destruct Gi as [Gi1 Gi2]. split; [exact Gi1|]. intros c' y sb Hf Hs.
    destruct (N.eq_dec c' c) as [->|Hne].
    + rewrite find_put_client_same in Hf. injection Hf as <-. discriminate.
    + rewrite find_put_client_other in Hf by exact Hne. eapply Gi2; eauto.
  - apply nodup_put_client, Gn.
Qed.

(* the request's view of the world, as [step_ok] states it *)
Definition sub_env_ok (st : state) (T : ts) (qidx : N) : Prop :=
  match snd T, wild_ok (fst T) with
  | None, false => True
  | _, _ => Forall (fun b => touches T b = true -> b_idx b <= qidx) (st_log st) /\ qidx <= st_hi st
  end.

Lemma proj_le T log q :
  Forall (fun b => touches T b = true -> b_idx b <= q) log ->
  Forall (fun it => item_idx it <= q) (proj T log).
Proof.
  induction 1 as [|b l Hb _ IH]; cbn [proj flat_map]; [constructor|]. fold (proj T l).
  apply Forall_app. split; [|exact IH].
  unfold touches in Hb. destruct (evs_for T (b_evs b)); [constructor|].
  constructor; [cbn [item_idx]; apply Hb; reflexivity|constructor].
Qed.

Lemma sub_path_not_err st T idx :
  sub_path st T idx <> PErr ->
  sub_path st T idx =
    (if negb (N.eqb idx 0) && head_has_index (buf_items T (st_bufs st)) idx then PResume
     else match find_snap T (st_cache st) with Some _ => PCache | None => PBuild end) /\
  (snd T = None -> wild_ok (fst T) = true).
Proof.
  unfold sub_path. destruct (snd T); [intros _; split; [reflexivity|discriminate]|].
  destruct (wild_ok (fst T)); [intros _; split; reflexivity|congruence].
Qed.

Lemma attach_items st T : tb_items (attach_buf st T) = buf_items T (st_bufs st).
Proof. unfold attach_buf, buf_items. destruct (find_buf T (st_bufs st)); reflexivity. Qed.

Lemma ginv_attach st c x0 x1 sb1 cache' :
  ginv st -> find_client c (st_clients st) = Some x0 -> c_sub x0 = None ->
  c_ts x1 = c_ts x0 -> c_sub x1 = Some sb1 -> s_buf sb1 = tb_id (attach_buf st (c_ts x0)) ->
  (forall pub r,
      st_log st = pub ++ live_queue st -> 1 <= r <= st_hi st ->
      Forall (fun b => r < b_idx b <= st_hi st) (st_log st) ->
      (exists X, proj (c_ts x0) pub = X ++ tb_items (attach_buf st (c_ts x0))) ->
      cinv (hist_of st) (find_buf (c_ts x0) (st_bufs st)) r x0 ->
      cinv (hist_of st) (Some (attach_buf st (c_ts x0))) r x1 /\
      (forall T' sn, find_snap T' cache' = Some sn ->
                     find_snap T' (st_cache st) = Some sn \/
                     (T' = c_ts x0 /\ cacheinv (hist_of st) T' (Some (attach_buf st (c_ts x0))) sn))) ->
  ginv (State (st_store st) (st_queue st) (put_buf (attach_buf st (c_ts x0)) (st_bufs st)) cache'
              (put_client c x1 (st_clients st)) (st_cache_on st) (st_epoch st) (next_nbuf st (c_ts x0))
              (st_hi st) (st_log st) (st_base st)).
Proof.
  intros G Ec Es0 Et Es1 Eid Hupd. pose proof G as [Gnd Gst Ginc Ghi Gq Gh Gr Gi Gc Gn].
  destruct Gh as (pub & r & Hlog & Hr & Hall & Hbuf & Hcl). destruct Gi as [Gi1 Gi2].
  set (T := c_ts x0) in *. set (tb := attach_buf st T) in *.
  assert (Hts : tb_ts tb = T) by (unfold tb, attach_buf; destruct (find_buf T (st_bufs st)); reflexivity).
  assert (Hsame : forall T', find_buf T' (put_buf tb (st_bufs st)) =
                             if ts_eqb T' T then Some tb else find_buf T' (st_bufs st)).
  { intros T'. destruct (ts_eqb T' T) eqn:E.
    - apply ts_eqb_eq in E; subst T'. rewrite <- Hts. apply find_put_buf_same.
    - apply ts_eqb_neq in E. apply find_put_buf_other. rewrite Hts. exact E. }
  assert (HX : exists X, proj T pub = X ++ tb_items tb).
  { unfold tb, attach_buf. destruct (find_buf T (st_bufs st)) as [b|] eqn:E; cbn [tb_items].
    - apply (Hbuf T b E).
    - exists (proj T pub). rewrite app_nil_r. reflexivity. }
  destruct (Hupd pub r Hlog Hr Hall HX (Hcl c x0 Ec)) as [Hc1 Hcache].
  assert (Hlive : forall off id h, buf_live (find_buf T (st_bufs st)) off id ->
                                   buf_live (Some tb) off id /\
                                   tail h T (Some tb) off = tail h T (find_buf T (st_bufs st)) off).
  { intros off id h Hl. destruct Hl as (b & Eb & Hoff & Hid). eapply live_same; [exact Eb|reflexivity| | |].
    - unfold tb, attach_buf. rewrite Eb. reflexivity.
    - unfold tb, attach_buf. rewrite Eb. reflexivity.
    - exists b. auto. }
  assert (Hx0 : forall T' id, has_sub_on T' id x0 = false) by (intros; unfold has_sub_on; rewrite Es0; reflexivity).
  assert (Hx1 : forall T' id, has_sub_on T' id x1 = ts_eqb T' T && N.eqb id (tb_id tb))
    by (intros; unfold has_sub_on; rewrite Es1, Et, Eid; reflexivity).
  assert (Hnb : st_nbuf st <= next_nbuf st T /\ tb_id tb < next_nbuf st T).
  { unfold next_nbuf, tb, attach_buf. destruct (find_buf T (st_bufs st)) as [b|] eqn:E; cbn [tb_id].
    - split; [lia|]. eapply Gi1; eauto.
    - lia. }
  constructor; cbn [st_store st_log st_base st_hi st_queue st_bufs st_clients st_cache st_epoch st_nbuf]; auto.
  - exists pub, r. split; [exact Hlog|]. split; [exact Hr|]. split; [exact Hall|]. split.
    + intros T' tb0 Hf. rewrite Hsame in Hf. destruct (ts_eqb T' T) eqn:E.
      * apply ts_eqb_eq in E; subst T'. injection Hf as <-. exact HX.
      * eapply Hbuf; eauto.
    + intros c' y Hf. change (hist_of _) with (hist_of st). destruct (N.eq_dec c' c) as [->|Hne].
      * rewrite find_put_client_same in Hf. injection Hf as <-. rewrite Et, Hsame. fold T.
        rewrite ts_eqb_refl. exact Hc1.
      * rewrite find_put_client_other in Hf by exact Hne. rewrite Hsame.
        destruct (ts_eqb (c_ts y) T) eqn:E; [|exact (Hcl c' y Hf)].
        apply ts_eqb_eq in E. pose proof (Hcl c' y Hf) as Hy. rewrite E in Hy.
        eapply (cinv_ext (hist_of st)); [reflexivity|reflexivity|reflexivity|reflexivity| |exact Hy].
        intros sby _ _ Hl. rewrite E. apply Hlive, Hl.
  - intros T' tb0 Hf. rewrite Hsame in Hf. pose proof (count_put_client T' (tb_id tb0) c x1 _ Gn) as H.
    rewrite Ec, Hx0, Hx1 in H. cbn [b2n] in H. destruct (ts_eqb T' T) eqn:E.
    + apply ts_eqb_eq in E; subst T'. injection Hf as <-. rewrite N.eqb_refl in H. cbn [andb b2n] in H.
      unfold tb, attach_buf in *. destruct (find_buf T (st_bufs st)) as [b|] eqn:Eb; cbn [tb_refs tb_id] in *.
      * specialize (Gr T b Eb). lia.
      * assert (count_subs T (st_nbuf st) (st_clients st) = 0%nat) as Hz0.
        { apply count_zero; [exact Gn|]. intros c' y sb Hf' Hs'. specialize (Gi2 c' y sb Hf' Hs'). lia. }
        lia.
    + cbn [andb b2n] in H. specialize (Gr T' tb0 Hf). lia.
  - split.
    + intros T' tb0 Hf. rewrite Hsame in Hf. destruct (ts_eqb T' T) eqn:E.
      * injection Hf as <-. apply Hnb.
      * specialize (Gi1 T' tb0 Hf). lia.
    + intros c' y sb Hf Hs. destruct (N.eq_dec c' c) as [->|Hne].
      * rewrite find_put_client_same in Hf. injection Hf as <-. rewrite Es1 in Hs. injection Hs as <-.
        rewrite Eid. apply Hnb.
      * rewrite find_put_client_other in Hf by exact Hne. specialize (Gi2 c' y sb Hf Hs). lia.
  - intros T' sn Hf. change (hist_of _) with (hist_of st). rewrite Hsame.
    destruct (Hcache T' sn Hf) as [Hf0|[-> Hc]].
    + pose proof (Gc T' sn Hf0) as Hc. destruct (ts_eqb T' T) eqn:E; [|exact Hc].
      apply ts_eqb_eq in E; subst T'.
      eapply (cacheinv_ext (hist_of st)); [reflexivity|reflexivity|reflexivity| |exact Hc].
      intros Hl. apply Hlive, Hl.
    + fold T. rewrite ts_eqb_refl. exact Hc.
  - apply nodup_put_client, Gn.
Qed.

(* the resumed subscription: the head of the topic buffer carries the client's index *)
Lemma cinv_resume h ob0 tb r x0 pub X :
  incr (map item_idx (proj (c_ts x0) (h_log h))) ->
  h_log h = pub ++ h_lq h -> proj (c_ts x0) pub = X ++ tb_items tb ->
  (forall it, In it (proj (c_ts x0) (h_log h)) -> r < item_idx it) ->
  c_idx x0 <> 0 -> head_has_index (tb_items tb) (c_idx x0) = true ->
  cinv h ob0 r x0 ->
  cinv h (Some tb) r
       (Client (c_ts x0) (c_tok x0) (c_rpc x0) (c_view x0) (c_idx x0) (initial_handler (c_idx x0))
               (Some (Sub Open [] (List.length (tb_items tb)) (tb_id tb) 0)) (c_epoch x0)).
Proof.
  intros Hinc Hlog HX Hr Hne Hhead (Hi & Hep & Hz & Hs & Hk & _).
  apply head_index_spec in Hhead as (l & evs & Hitems).
  set (T := c_ts x0) in *. set (P := X ++ tb_items tb).
  assert (Hsplit : proj T (h_log h) = P ++ proj T (h_lq h)).
  { rewrite Hlog, proj_app, HX. reflexivity. }
  assert (HPne : P <> []).
  { unfold P. rewrite Hitems. intros H. apply app_eq_nil in H as [_ H]. apply app_eq_nil in H as [_ H]. discriminate. }
  assert (HPl : lastidx P 0 = c_idx x0).
  { unfold P. rewrite Hitems, app_assoc, lastidx_app_single. reflexivity. }
  pose proof Hinc as Hinc'. rewrite Hsplit in Hinc'.
  destruct (incr_last_bounds _ _ _ Hinc' HPne HPl) as [HPle HQgt].
  assert (Hih : initial_handler (c_idx x0) = HResume).
  { unfold initial_handler. apply N.eqb_neq in Hne. rewrite Hne. reflexivity. }
  unfold cinv, knows. cbn [c_idx c_epoch c_view c_h c_sub c_ts s_status]. fold T.
  split; [exact Hi|]. split; [exact Hep|]. split; [exact Hz|].
  split; [rewrite Hih; intros ? H; discriminate|]. split; [exact Hk|].
  split; [exists tb; cbn [s_off s_buf]; repeat split; auto; lia|]. left.
  cbn [s_pre s_off s_snap c_h c_epoch c_ts c_view c_idx]. fold T.
  split; [reflexivity|]. split; [right; exact Hih|].
  destruct Hk as [Hk|[[He (A & D & Hc)]|[_ Hle]]]; [contradiction| |].
  2: { (* a view of a replaced store: its index is below every index of the log *)
    exfalso. assert (In (IEv (c_idx x0) evs) (proj T (h_log h))) as Hin.
    { rewrite Hsplit. unfold P. rewrite Hitems, !in_app_iff. left; right; right. left; reflexivity. }
    specialize (Hr _ Hin). cbn [item_idx] in Hr. lia. }
  split; [exact He|]. split; [lia|]. fold T in Hc. destruct Hc as [Hsp Hv Hle Hgt Hss].
  rewrite Hsplit in Hsp.
  destruct (split_unique (c_idx x0) _ _ _ _ HPle HQgt Hle Hgt Hsp) as [EP EQ].
  exists A, D, [], []. split; [|split; [|split; [constructor|left; reflexivity]]].
  - constructor; auto. rewrite Hsplit, EP, EQ. reflexivity.
  - unfold tail. cbn [ob_items app]. rewrite skipn_all, EQ. reflexivity.
Qed.

(* the subscription that starts with a snapshot (fresh or cached) *)
Lemma cinv_snapshot h ob0 tb r x0 sn body A B2 D s :
  (sn_off sn <= List.length (tb_items tb))%nat ->
  sn_items sn = body ++ [IEos s] ->
  snapok h (c_ts x0) (Some tb) [] body (sn_off sn) A B2 D s ->
  cinv h ob0 r x0 ->
  cinv h (Some tb) r
       (Client (c_ts x0) (c_tok x0) (c_rpc x0) (c_view x0) (c_idx x0) (initial_handler (c_idx x0))
               (Some (Sub Open (if N.eqb (c_idx x0) 0 then sn_items sn else INstf :: sn_items sn) (sn_off sn) (tb_id tb) 0))
               (c_epoch x0)).
Proof.
  intros Hoff Hit Hso (Hi & Hep & Hz & Hs & Hk & _).
  unfold cinv, knows. cbn [c_idx c_epoch c_view c_h c_sub c_ts s_status].
  split; [exact Hi|]. split; [exact Hep|]. split; [exact Hz|]. split.
  { unfold initial_handler. destruct (N.eqb (c_idx x0) 0) eqn:E; [|intros ? H; discriminate].
    intros _ _. apply N.eqb_eq, E. }
  split; [exact Hk|]. split; [exists tb; cbn [s_off s_buf]; auto|]. right. cbn [s_snap]. split; [reflexivity|].
  exists [], body, A, B2, D, s. cbn [c_h s_pre s_off c_ts]. split; [|exact Hso].
  unfold initial_handler. destruct (N.eqb (c_idx x0) 0); rewrite Hit; [left|right]; auto.
Qed.

(* eventSnapshot.appendAndSplice on the store as it is now *)
Lemma build_snapok st T qidx pub X tb :
  ginv st -> st_log st = pub ++ live_queue st -> proj T pub = X ++ tb_items tb ->
  Forall (fun b => touches T b = true -> b_idx b <= qidx) (st_log st) -> qidx <= st_hi st ->
  let s := if N.eqb qidx 0 then 1 else qidx in
  build_snap T (st_store st) qidx (tb_items tb) =
    Snap T (snap_events T (st_store st) qidx ++ [IEos s]) (List.length (tb_items tb)) /\
  snapok (hist_of st) T (Some tb) [] (snap_events T (st_store st) qidx) (List.length (tb_items tb))
         (proj T pub) (proj T (live_queue st)) [] s.
Proof.
  intros G Hlog HX Hq Hqhi s. destruct G as [Gnd Gst Ginc Ghi _ _ _ _ _ _].
  assert (Hqs : qidx <= s) by (unfold s; destruct (N.eqb qidx 0) eqn:E; [apply N.eqb_eq in E|]; lia).
  assert (Hs1 : 1 <= s <= st_hi st).
  { unfold s. destruct (N.eqb qidx 0) eqn:E; [lia|]. apply N.eqb_neq in E. lia. }
  assert (Hle : Forall (fun it => item_idx it <= s) (proj T (st_log st))).
  { eapply Forall_impl; [|apply proj_le; exact Hq]. cbn. intros; lia. }
  split.
  - unfold build_snap. fold s. f_equal. apply splice_len. intros it Hit.
    rewrite Forall_forall in Hle. apply Hle. rewrite Hlog, proj_app, HX, !in_app_iff. left; right; exact Hit.
  - destruct (snap_events_spec T (st_store st) qidx) as [Hev Hiev].
    constructor; cbn [hist_of h_log h_base h_hi h_lq]; auto.
    + rewrite Hlog, proj_app, app_nil_r. reflexivity.
    + intros k. cbn [app]. rewrite Hev, aget_apply_rows by exact Gnd.
      destruct (matches T k) eqn:Ek; [|reflexivity].
      rewrite (Gst k), (aget_all_evs_proj T) by assumption. rewrite Hlog, proj_app. reflexivity.
    + unfold tail. cbn [ob_items hist_of h_lq]. rewrite skipn_all, app_nil_r. reflexivity.
    + rewrite <- proj_app, <- Hlog. exact Hle.
Qed.

Lemma ginv_sub_core st c x0 qidx :
  ginv st -> find_client c (st_clients st) = Some x0 -> c_sub x0 = None ->
  sub_env_ok st (c_ts x0) qidx ->
  ginv (fst (do_subscribe_core st c x0 qidx)).
Proof.
  intros G Ec Es0 Hq. unfold do_subscribe_core.
  set (T := c_ts x0) in *. set (idx := c_idx x0) in *.
  assert (Hpath : sub_path st T idx <> PErr ->
                  sub_path st T idx =
                  (if negb (N.eqb idx 0) && head_has_index (buf_items T (st_bufs st)) idx then PResume
                   else match find_snap T (st_cache st) with Some _ => PCache | None => PBuild end) /\
                  Forall (fun b => touches T b = true -> b_idx b <= qidx) (st_log st) /\ qidx <= st_hi st).
  { intros Hne. destruct (sub_path_not_err st T idx Hne) as [Hp Hw]. split; [exact Hp|].
    unfold sub_env_ok in Hq. destruct (snd T); [exact Hq|]. rewrite Hw in Hq by reflexivity. exact Hq. }
  assert (Hinc : incr (map item_idx (proj T (st_log st)))) by (apply incr_proj, G).
  destruct (sub_path st T idx) eqn:Ep.
  - (* unsupported wildcard: only the handler is re-initialised *)
    cbn [fst]. eapply ginv_put; eauto.
    + intros T' id. unfold has_sub_on. cbn [c_sub]. rewrite Es0. reflexivity.
    + cbn [c_sub]. intros sb' H. discriminate.
    + intros r _ _ (Hi & Hep & Hz & Hs & Hk & _). unfold cinv, knows.
      cbn [c_idx c_epoch c_view c_h c_sub c_ts]. fold idx.
      split; [exact Hi|]. split; [exact Hep|]. split; [exact Hz|]. split; [|split; [exact Hk|exact I]].
      unfold initial_handler. destruct (N.eqb idx 0) eqn:E; [|intros ? H; discriminate].
      intros _ _. apply N.eqb_eq, E.
  - (* resume *)
    destruct Hpath as (Hp & _ & _); [discriminate|].
    destruct (negb (N.eqb idx 0) && head_has_index (buf_items T (st_bufs st)) idx) eqn:Er;
      [|destruct (find_snap T (st_cache st)); discriminate].
    apply andb_true_iff in Er as [Er1 Er2]. apply negb_true_iff, N.eqb_neq in Er1.
    cbn [fst]. eapply ginv_attach with (x0 := x0); eauto; [reflexivity|reflexivity|].
    intros pub r Hlog Hr Hall (X & HX) Hc. fold T in HX. split.
    + eapply (cinv_resume (hist_of st)); eauto; fold T.
      * intros it Hit. apply proj_item_batch in Hit as (b & Hb & ->).
        rewrite Forall_forall in Hall. specialize (Hall b Hb). lia.
      * rewrite attach_items. exact Er2.
    + intros T' sn Hf. left; exact Hf.
  - (* cached snapshot *)
    destruct Hpath as (Hp & _ & _); [discriminate|].
    destruct (negb (N.eqb idx 0) && head_has_index (buf_items T (st_bufs st)) idx) eqn:Er; [discriminate|].
    destruct (find_snap T (st_cache st)) as [sn|] eqn:Ef; [|discriminate].
    cbn [fst]. eapply ginv_attach with (x0 := x0); eauto; [reflexivity|reflexivity|].
    intros pub r Hlog Hr Hall (X & HX) Hc. fold T in HX. split; [|intros T' sn' Hf; left; exact Hf].
    destruct G as [_ _ _ _ _ _ _ _ Gc _]. destruct (Gc T sn Ef) as (Hl & body & A & B2 & D & s & Hit & Hso).
    destruct Hl as (b & Eb & Hoff & _).
    assert (Hit' : tb_items (attach_buf st T) = tb_items b) by (unfold attach_buf; rewrite Eb; reflexivity).
    eapply cinv_snapshot; eauto; fold T.
    * rewrite Hit'. exact Hoff.
    * eapply (snapok_ext (hist_of st)); [reflexivity|reflexivity|reflexivity| |exact Hso].
      unfold tail. rewrite Eb. cbn [ob_items]. rewrite Hit'. reflexivity.
  - (* fresh snapshot *)
    destruct Hpath as (Hp & Hqle & Hqhi); [discriminate|].
    destruct (negb (N.eqb idx 0) && head_has_index (buf_items T (st_bufs st)) idx) eqn:Er; [discriminate|].
    destruct (find_snap T (st_cache st)) as [sn|] eqn:Ef; [discriminate|].
    cbn [fst]. eapply ginv_attach with (x0 := x0); eauto; [reflexivity|reflexivity|].
    intros pub r Hlog Hr Hall (X & HX) Hc. fold T in HX.
    destruct (build_snapok st T qidx pub X (attach_buf st T) G Hlog HX Hqle Hqhi) as [Hb Hso].
    split.
    + rewrite Hb. eapply cinv_snapshot; eauto. cbn [sn_items]. reflexivity.
    + intros T' sn' Hf. rewrite Hb in Hf. destruct (st_cache_on st); [|left; exact Hf].
      destruct (ts_eqb T' T) eqn:E.
      * apply ts_eqb_eq in E; subst T'. right. split; [reflexivity|].
        rewrite (find_put_snap_same (Snap T _ _)) in Hf. injection Hf as <-.
        split; [exists (attach_buf st T); cbn [sn_off]; auto|]. eexists _, _, _, _, _. split; [reflexivity|exact Hso].
      * apply ts_eqb_neq in E. left. rewrite find_put_snap_other in Hf by exact E. exact Hf.
Qed.

Lemma release_hist T id st :
  hist_of (release T id st) = hist_of st /\ st_clients (release T id st) = st_clients st.
Proof.
  unfold release. destruct (find_buf T (st_bufs st)) as [b|]; [|auto].
  destruct (N.eqb (tb_id b) id); [|auto]. destruct (tb_refs b) as [|[|n]]; auto.
Qed.

Lemma unsub_hist st c : hist_of (fst (do_unsub st c)) = hist_of st.
Proof.
  unfold do_unsub. destruct (find_client c (st_clients st)) as [x|]; [|reflexivity].
  destruct (c_sub x) as [sb|]; [|reflexivity]. cbn [fst]. destruct (release_hist (c_ts x) (s_buf sb)
    (with_clients st (put_client c (drop_sub x) (st_clients st)))) as [H _]. rewrite H. reflexivity.
Qed.

Lemma unsub_client st c x :
  find_client c (st_clients st) = Some x ->
  find_client c (st_clients (fst (do_unsub st c))) = Some (drop_sub x).
Proof.
  intros Ec. unfold do_unsub. rewrite Ec. destruct (c_sub x) as [sb|] eqn:Es; cbn [fst].
  - destruct (release_hist (c_ts x) (s_buf sb) (with_clients st (put_client c (drop_sub x) (st_clients st)))) as (_ & H).
    rewrite H. cbn [with_clients st_clients]. apply find_put_client_same.
  - rewrite Ec. f_equal. destruct x; cbn in *; subst; reflexivity.
Qed.

Lemma forallb_touches T q log :
  forallb (fun b => negb (touches T b) || N.leb (b_idx b) q) log = true ->
  Forall (fun b => touches T b = true -> b_idx b <= q) log.
Proof.
  intros H. rewrite forallb_forall in H. rewrite Forall_forall. intros b Hb Ht.
  specialize (H b Hb). rewrite Ht in H. cbn in H. apply N.leb_le, H.
Qed.

Lemma sub_core_clients st c x0 qidx :
  fst (do_subscribe_core (with_clients st (put_client c x0 (st_clients st))) c x0 qidx)
  = fst (do_subscribe_core st c x0 qidx).
Proof.
  unfold do_subscribe_core, sub_path, attach_buf, next_nbuf.
  cbn [with_clients st_store st_queue st_bufs st_cache st_clients st_cache_on st_hi st_log st_base st_epoch st_nbuf].
  destruct (snd (c_ts x0)); [|destruct (wild_ok (fst (c_ts x0))); [|cbn [fst]; rewrite put_put_client; reflexivity]].
  all: destruct (negb (N.eqb (c_idx x0) 0) && head_has_index (buf_items (c_ts x0) (st_bufs st)) (c_idx x0));
    [cbn [fst]; rewrite put_put_client; reflexivity|].
  all: destruct (find_snap (c_ts x0) (st_cache st)); cbn [fst]; rewrite put_put_client; reflexivity.
Qed.

Lemma ginv_subscribe st c T tok rpc qidx :
  ginv st -> step_ok st (LSubscribe c T tok rpc qidx) = true ->
  ginv (fst (do_subscribe st c T tok rpc qidx)).
Proof.
  intros G Hok. unfold do_subscribe. cbn [step_ok] in Hok. unfold sub_ts in *.
  destruct (find_client c (st_clients st)) as [x|] eqn:Ec.
  - pose proof (ginv_unsub st c G) as G1. pose proof (unsub_hist st c) as Hh.
    set (st1 := fst (do_unsub st c)) in *.
    assert (Hlog : st_log st1 = st_log st) by (injection Hh; auto).
    assert (Hhi : st_hi st1 = st_hi st) by (injection Hh; auto).
    apply ginv_sub_core; auto.
    + apply unsub_client, Ec.
    + unfold sub_env_ok. cbn [drop_sub c_ts]. rewrite Hlog, Hhi.
      destruct (snd (c_ts x)); [|destruct (wild_ok (fst (c_ts x))); [|exact I]].
      all: apply andb_true_iff in Hok as [H1 H2]; split; [apply forallb_touches, H1|apply N.leb_le, H2].
  - set (x0 := Client T tok rpc [] 0 (HSnap []) None (st_epoch st)).
    rewrite <- (sub_core_clients st c x0 qidx).
    apply ginv_sub_core.
    + apply ginv_add_idle; assumption.
    + cbn [with_clients st_clients]. apply find_put_client_same.
    + reflexivity.
    + unfold sub_env_ok. cbn [x0 c_ts with_clients st_log st_hi].
      destruct (snd T); [|destruct (wild_ok (fst T)); [|exact I]].
      all: apply andb_true_iff in Hok as [H1 H2]; split; [apply forallb_touches, H1|apply N.leb_le, H2].
Qed.

Theorem ginv_step st l : ginv st -> step_ok st l = true -> ginv (fst (step st l)).
Proof.
  intros G Hok. destruct l as [b| |c T tok rpc qidx|c|c|rows hi|T]; cbn [step fst].
  - apply ginv_commit; [exact G|exact Hok].
  - apply ginv_publish, G.
  - apply ginv_subscribe; assumption.
  - apply ginv_next, G.
  - apply ginv_unsub, G.
  - apply ginv_restore; [exact G|exact Hok].
  - apply ginv_evict, G.
Qed.

Theorem ginv_run st ls : ginv st -> valid_from st ls = true -> ginv (run_from st ls).
Proof.
  revert st. induction ls as [|l ls IH]; intros st G Hs; [exact G|].
  cbn [valid_from] in Hs. apply andb_true_iff in Hs as [H1 H2]. cbn [run_from fold_left].
  apply IH; [|exact H2]. apply ginv_step; assumption.
Qed.
