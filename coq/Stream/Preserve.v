(* C11 — every step of a schedule that meets the environment assumptions preserves [ginv]. *)
From Coq Require Import Sorted.
From Verif Require Import Base.Prelude Stream.Model Stream.Amap Stream.Lookup Stream.Inv.
Local Open Scope N_scope.

Lemma proj_single_idx T b : Forall (fun it => item_idx it = b_idx b) (proj T [b]).
Proof.
  cbn [proj flat_map]. destruct (evs_for T (b_evs b)); cbn [app]; [constructor|].
  constructor; [reflexivity|constructor].
Qed.

Section Preserve.
  Variable gf : bool.

  (* ---------------------------------------------------------------- commit *)

  Definition hist_commit (h : hist) (b : batch) : hist :=
    Hist (b_idx b) (h_log h ++ [b]) (h_base h) (h_epoch h) (h_queue h ++ [b]).

  Lemma tail_commit h T ob off b :
    tail (hist_commit h b) T ob off = tail h T ob off ++ proj T [b].
  Proof. unfold tail, hist_commit; cbn [h_queue]. rewrite proj_app, app_assoc. reflexivity. Qed.

  Lemma gt_single T b s : s < b_idx b -> Forall (fun it => s < item_idx it) (proj T [b]).
  Proof.
    intros Hlt. eapply Forall_impl; [|apply proj_single_idx]. cbn. intros it ->. exact Hlt.
  Qed.

  Lemma core_commit h T view cidx A B1 B2 D s b :
    h_hi h < b_idx b ->
    core gf h T view cidx A B1 B2 D s ->
    core gf (hist_commit h b) T view cidx A B1 B2 (D ++ proj T [b]) s.
  Proof.
    intros Hlt [Hsp Hv Hle Hgt Hi Hs Hg]. constructor; cbn [hist_commit h_log h_base h_hi]; auto.
    - rewrite proj_app, Hsp, <- !app_assoc. reflexivity.
    - rewrite Forall_app. split; [exact Hgt|]. apply gt_single. lia.
    - lia.
  Qed.

  Lemma snapok_commit h T ob acc rest off A B2 D s b :
    h_hi h < b_idx b ->
    snapok gf h T ob acc rest off A B2 D s ->
    snapok gf (hist_commit h b) T ob acc rest off A B2 (D ++ proj T [b]) s.
  Proof.
    intros Hlt [Hsp Hr Hv Ht Hle Hgt Hs Hg]. constructor; cbn [hist_commit h_log h_base h_hi]; auto.
    - rewrite proj_app, Hsp, <- !app_assoc. reflexivity.
    - rewrite tail_commit, Ht, <- app_assoc. reflexivity.
    - rewrite Forall_app. split; [exact Hgt|]. apply gt_single. lia.
    - lia.
  Qed.

  Lemma knows_commit h r x b :
    h_hi h < b_idx b -> knows gf h r x -> knows gf (hist_commit h b) r x.
  Proof.
    intros Hlt [Hz|[[He (A & B1 & B2 & D & s & Hc)]|Ho]].
    - left; exact Hz.
    - right; left. split; [exact He|]. exists A, B1, B2, (D ++ proj (c_ts x) [b]), s.
      apply core_commit; assumption.
    - right; right. exact Ho.
  Qed.

  Lemma cinv_commit h ob r x b :
    h_hi h < b_idx b -> cinv gf h ob r x -> cinv gf (hist_commit h b) ob r x.
  Proof.
    intros Hlt (Hi & Hep & Hz & Hs & Hk & Hsub). unfold cinv. cbn [hist_commit h_hi h_epoch].
    split; [lia|]. split; [exact Hep|]. split; [exact Hz|]. split; [exact Hs|].
    split; [apply knows_commit; assumption|].
    destruct (c_sub x) as [sb|]; [|exact I]. destruct (s_status sb); try exact I.
    destruct Hsub as [Hl Hsub]. split; [exact Hl|]. destruct Hsub as [Hst|Hsn].
    - left. destruct Hst as (Hp & Hh & He & A & B1 & B2 & D & s & Hc & Ht).
      split; [exact Hp|]. split; [exact Hh|]. split; [exact He|].
      exists A, B1, B2, (D ++ proj (c_ts x) [b]), s. split; [apply core_commit; assumption|].
      rewrite tail_commit, Ht, <- app_assoc. reflexivity.
    - right. destruct Hsn as (acc & rest & A & B2 & D & s & Hh & Hso).
      exists acc, rest, A, B2, (D ++ proj (c_ts x) [b]), s. split; [exact Hh|].
      apply snapok_commit; assumption.
  Qed.

  Lemma cacheinv_commit h T ob sn b :
    h_hi h < b_idx b -> cacheinv gf h T ob sn -> cacheinv gf (hist_commit h b) T ob sn.
  Proof.
    intros Hlt (Hl & body & A & B2 & D & s & Hit & Hso). split; [exact Hl|].
    exists body, A, B2, (D ++ proj T [b]), s. split; [exact Hit|]. apply snapok_commit; assumption.
  Qed.

  Lemma ginv_commit st b :
    ginv gf st -> N.ltb (st_hi st) (b_idx b) = true -> b_silent b = [] -> ginv gf (do_commit st b).
  Proof.
    intros G Hlt Hsil. apply N.ltb_lt in Hlt. destruct G as [Gnd Gst Glok Ginc Ghi Gh Gr Gc Gn].
    destruct Gh as (pub & r & Hlog & Hr & Hall & Hbuf & Hcl).
    constructor; cbn [do_commit st_store st_log st_base st_hi st_queue st_bufs st_clients st_cache st_epoch].
    - apply nodup_apply, Gnd.
    - intros k. unfold all_evs. rewrite flat_map_app. cbn [flat_map]. rewrite app_nil_r.
      rewrite (apply_app _ (b_evs b ++ b_silent b)). apply (meq_apply _ _ _ Gst k).
    - apply Forall_app. split; [exact Glok|]. constructor; [exact Hsil|constructor].
    - rewrite map_app. apply incr_app; [exact Ginc|repeat constructor|].
      intros u y Hu [<-|[]]. apply in_map_iff in Hu as (b0 & <- & Hb0).
      rewrite Forall_forall in Hall. specialize (Hall _ Hb0). lia.
    - lia.
    - exists pub, r. split; [rewrite Hlog, app_assoc; reflexivity|]. split; [lia|]. split.
      + apply Forall_app. split.
        * eapply Forall_impl; [|exact Hall]. cbn. intros; lia.
        * constructor; [lia|constructor].
      + split; [exact Hbuf|]. intros c x Hf.
        change (hist_of (do_commit st b)) with (hist_commit (hist_of st) b).
        apply cinv_commit; [exact Hlt|]. exact (Hcl c x Hf).
    - exact Gr.
    - intros T sn Hf. change (hist_of (do_commit st b)) with (hist_commit (hist_of st) b).
      apply cacheinv_commit; [exact Hlt|]. apply Gc, Hf.
    - exact Gn.
  Qed.

  (* ---------------------------------------------------------------- transport along equal histories *)

  Lemma core_ext h h' T view cidx A B1 B2 D s :
    h_log h' = h_log h -> h_base h' = h_base h -> h_hi h' = h_hi h ->
    core gf h T view cidx A B1 B2 D s -> core gf h' T view cidx A B1 B2 D s.
  Proof.
    intros El Eb Eh [Hsp Hv Hle Hgt Hi Hs Hg]. constructor; rewrite ?El, ?Eb, ?Eh; auto.
  Qed.

  Lemma knows_ext h h' r x :
    h_log h' = h_log h -> h_base h' = h_base h -> h_hi h' = h_hi h -> h_epoch h' = h_epoch h ->
    knows gf h r x -> knows gf h' r x.
  Proof.
    intros El Eb Eh Ee [Hz|[[He (A & B1 & B2 & D & s & Hc)]|Ho]].
    - left; exact Hz.
    - right; left. rewrite Ee. split; [exact He|]. exists A, B1, B2, D, s. eapply core_ext; eauto.
    - right; right. rewrite Ee. exact Ho.
  Qed.

  Lemma snapok_ext h h' T ob ob' acc rest off A B2 D s :
    h_log h' = h_log h -> h_base h' = h_base h -> h_hi h' = h_hi h ->
    tail h' T ob' off = tail h T ob off ->
    snapok gf h T ob acc rest off A B2 D s -> snapok gf h' T ob' acc rest off A B2 D s.
  Proof.
    intros El Eb Eh Et [Hsp Hr Hv Ht Hle Hgt Hs Hg]. constructor; rewrite ?El, ?Eb, ?Eh, ?Et; auto.
  Qed.

  (* the same client under a history with equal log/base/hi/epoch and an equal tail *)
  Lemma cinv_ext h h' ob ob' r x :
    h_log h' = h_log h -> h_base h' = h_base h -> h_hi h' = h_hi h -> h_epoch h' = h_epoch h ->
    (forall sb, c_sub x = Some sb -> s_status sb = Open -> buf_live ob (s_off sb) ->
                buf_live ob' (s_off sb) /\ tail h' (c_ts x) ob' (s_off sb) = tail h (c_ts x) ob (s_off sb)) ->
    cinv gf h ob r x -> cinv gf h' ob' r x.
  Proof.
    intros El Eb Eh Ee Hsb (Hi & Hep & Hz & Hs & Hk & Hsub). unfold cinv. rewrite Eh, Ee.
    split; [exact Hi|]. split; [exact Hep|]. split; [exact Hz|]. split; [exact Hs|].
    split; [eapply knows_ext; eauto|].
    destruct (c_sub x) as [sb|] eqn:Es; [|exact I]. destruct (s_status sb) eqn:Est; try exact I.
    destruct Hsub as [Hl Hsub]. destruct (Hsb sb eq_refl Est Hl) as [Hl' Ht]. split; [exact Hl'|].
    destruct Hsub as [Hst|Hsn].
    - left. destruct Hst as (Hp & Hh & He & A & B1 & B2 & D & s & Hc & Htl).
      split; [exact Hp|]. split; [exact Hh|]. rewrite Ee. split; [exact He|].
      exists A, B1, B2, D, s. split; [eapply core_ext; eauto|]. rewrite Ht. exact Htl.
    - right. destruct Hsn as (acc & rest & A & B2 & D & s & Hh & Hso).
      exists acc, rest, A, B2, D, s. split; [exact Hh|]. eapply snapok_ext; eauto.
  Qed.

  Lemma cacheinv_ext h h' T ob ob' sn :
    h_log h' = h_log h -> h_base h' = h_base h -> h_hi h' = h_hi h ->
    (buf_live ob (sn_off sn) ->
     buf_live ob' (sn_off sn) /\ tail h' T ob' (sn_off sn) = tail h T ob (sn_off sn)) ->
    cacheinv gf h T ob sn -> cacheinv gf h' T ob' sn.
  Proof.
    intros El Eb Eh Hb (Hl & body & A & B2 & D & s & Hit & Hso). destruct (Hb Hl) as [Hl' Ht].
    split; [exact Hl'|]. exists body, A, B2, D, s. split; [exact Hit|]. eapply snapok_ext; eauto.
  Qed.

  (* a closed or absent subscription asks nothing of the buffer *)
  Lemma cinv_nosub h ob ob' r x :
    (match c_sub x with Some sb => s_status sb <> Open | None => True end) ->
    cinv gf h ob r x -> cinv gf h ob' r x.
  Proof.
    intros Hc (Hi & Hep & Hz & Hs & Hk & Hsub). unfold cinv.
    split; [exact Hi|]. split; [exact Hep|]. split; [exact Hz|]. split; [exact Hs|]. split; [exact Hk|].
    destruct (c_sub x) as [sb|]; [|exact I]. destruct (s_status sb); try exact I. congruence.
  Qed.

  (* ---------------------------------------------------------------- publish *)

  Lemma publish_items T tb b : tb_ts tb = T -> tb_items (publish_buf b tb) = tb_items tb ++ proj T [b].
  Proof.
    intros <-. unfold publish_buf. cbn [proj flat_map].
    destruct (evs_for (tb_ts tb) (b_evs b)); cbn [tb_items app]; [rewrite app_nil_r|]; reflexivity.
  Qed.

  Lemma publish_ts b tb : tb_ts (publish_buf b tb) = tb_ts tb.
  Proof. unfold publish_buf. destruct (evs_for (tb_ts tb) (b_evs b)); reflexivity. Qed.

  Lemma publish_old b tb : tb_old (publish_buf b tb) = tb_old tb.
  Proof. unfold publish_buf. destruct (evs_for (tb_ts tb) (b_evs b)); reflexivity. Qed.

  Lemma publish_refs b tb : tb_refs (publish_buf b tb) = tb_refs tb.
  Proof. unfold publish_buf. destruct (evs_for (tb_ts tb) (b_evs b)); reflexivity. Qed.

  Definition hist_pub (h : hist) (q : list batch) : hist :=
    Hist (h_hi h) (h_log h) (h_base h) (h_epoch h) q.

  Lemma live_publish T ob off b q h :
    (forall tb, ob = Some tb -> tb_ts tb = T) -> h_queue h = b :: q ->
    buf_live ob off ->
    buf_live (option_map (publish_buf b) ob) off /\
    tail (hist_pub h q) T (option_map (publish_buf b) ob) off = tail h T ob off.
  Proof.
    intros Hts Hq (tb & -> & Hold & Hoff). specialize (Hts tb eq_refl). cbn [option_map]. split.
    - exists (publish_buf b tb). split; [reflexivity|]. rewrite publish_old. split; [exact Hold|].
      rewrite (publish_items T) by exact Hts. rewrite app_length. lia.
    - unfold tail. cbn [hist_pub h_queue ob_items]. rewrite Hq, (publish_items T) by exact Hts.
      rewrite skipn_app_le by exact Hoff. change (b :: q) with ([b] ++ q). rewrite proj_app, app_assoc. reflexivity.
  Qed.

  Lemma close_acl_sub toks x :
    c_ts (close_sub_acl toks x) = c_ts x /\ c_view (close_sub_acl toks x) = c_view x /\
    c_idx (close_sub_acl toks x) = c_idx x /\ c_h (close_sub_acl toks x) = c_h x /\
    c_epoch (close_sub_acl toks x) = c_epoch x /\
    (c_sub (close_sub_acl toks x) = c_sub x \/
     exists sb, c_sub x = Some sb /\ c_sub (close_sub_acl toks x) = Some (Sub AclClosed (s_pre sb) (s_off sb))).
  Proof.
    unfold close_sub_acl. destruct (c_sub x) as [sb|] eqn:Es; [|rewrite Es; auto 10].
    destruct (s_status sb); try (rewrite Es; auto 10).
    destruct (existsb _ toks); cbn; [|rewrite Es; auto 10].
    repeat split; auto. right. exists sb. auto.
  Qed.

  Lemma has_sub_close_acl T toks x : has_sub_on T (close_sub_acl toks x) = has_sub_on T x.
  Proof.
    unfold has_sub_on. destruct (close_acl_sub toks x) as (Et & _ & _ & _ & _ & [Es|(sb & Es & Es')]).
    - rewrite Es, Et. reflexivity.
    - rewrite Es, Es', Et. reflexivity.
  Qed.

  (* closing a subscription only weakens what is asked of the client *)
  Lemma cinv_close h ob r x x' :
    c_ts x' = c_ts x -> c_view x' = c_view x -> c_idx x' = c_idx x -> c_h x' = c_h x ->
    c_epoch x' = c_epoch x ->
    (c_sub x' = c_sub x \/ exists sb st', c_sub x' = Some sb /\ s_status sb = st' /\ st' <> Open) ->
    cinv gf h ob r x -> cinv gf h ob r x'.
  Proof.
    intros Et Ev Ei Eh Ee Hs (Hi & Hep & Hz & Hsn & Hk & Hsub). unfold cinv, knows in *.
    rewrite Et, Ev, Ei, Eh, Ee. split; [exact Hi|]. split; [exact Hep|]. split; [exact Hz|].
    split; [exact Hsn|]. split; [exact Hk|].
    destruct Hs as [->|(sb & st' & -> & Hst & Hne)].
    - destruct (c_sub x) as [sb|]; [|exact I]. destruct (s_status sb); try exact I.
      unfold subinv in *. rewrite Et, Ev, Ei, Eh, Ee. exact Hsub.
    - rewrite Hst. destruct st'; try exact I. congruence.
  Qed.

  Lemma ginv_publish st : ginv gf st -> ginv gf (fst (do_publish st)).
  Proof.
    intros G. unfold do_publish. destruct (st_queue st) as [|b q] eqn:Eq; [exact G|]. cbn [fst].
    destruct G as [Gnd Gst Glok Ginc Ghi Gh Gr Gc Gn].
    destruct Gh as (pub & r & Hlog & Hr & Hall & Hbuf & Hcl).
    constructor; cbn [st_store st_log st_base st_hi st_queue st_bufs st_clients st_cache st_epoch]; auto.
    - exists (pub ++ [b]), r. rewrite Eq in Hlog. split; [rewrite Hlog, <- app_assoc; reflexivity|].
      split; [exact Hr|]. split; [exact Hall|]. split.
      + intros T tb' Hf Hold. rewrite find_buf_map in Hf by apply publish_ts.
        destruct (find_buf T (st_bufs st)) as [tb|] eqn:Ef; [|discriminate]. injection Hf as <-.
        rewrite publish_old in Hold. destruct (Hbuf T tb Ef Hold) as [X HX].
        exists X. rewrite proj_app, HX, (publish_items T) by (eapply find_buf_ts; eauto).
        rewrite app_assoc. reflexivity.
      + intros c x' Hf. rewrite find_client_map in Hf.
        destruct (find_client c (st_clients st)) as [x|] eqn:Ec; [|discriminate]. injection Hf as <-.
        specialize (Hcl c x Ec). destruct (close_acl_sub (b_close b) x) as (Et & Ev & Ei & Eh & Ee & Hs).
        rewrite Et, find_buf_map by apply publish_ts.
        change (hist_of _) with (hist_pub (hist_of st) q).
        eapply cinv_close with (x := x); auto.
        * destruct Hs as [Hs|(sb & Hs & Hs')]; [left; exact Hs|]. right. exists (Sub AclClosed (s_pre sb) (s_off sb)), AclClosed.
          split; [exact Hs'|]. split; [reflexivity|discriminate].
        * eapply (cinv_ext (hist_of st)); [reflexivity|reflexivity|reflexivity|reflexivity| |exact Hcl].
          intros sb _ _ Hl. eapply live_publish; [|exact Eq|exact Hl].
          intros tb Hf. eapply find_buf_ts; eauto.
    - intros T. rewrite find_buf_map by apply publish_ts. specialize (Gr T).
      rewrite count_map by (intros; apply has_sub_close_acl).
      destruct (find_buf T (st_bufs st)); cbn [option_map]; [rewrite publish_refs|]; exact Gr.
    - intros T sn Hf. specialize (Gc T sn Hf). rewrite find_buf_map by apply publish_ts.
      change (hist_of _) with (hist_pub (hist_of st) q).
      eapply (cacheinv_ext (hist_of st)); [reflexivity|reflexivity|reflexivity| |exact Gc].
      intros Hl. eapply live_publish; [|exact Eq|exact Hl]. intros tb Hf'. eapply find_buf_ts; eauto.
    - rewrite map_fst_map. exact Gn.
  Qed.

  (* ---------------------------------------------------------------- evict *)

  Lemma ginv_evict st T : ginv gf st -> ginv gf (do_evict st T).
  Proof.
    intros [Gnd Gst Glok Ginc Ghi Gh Gr Gc Gn].
    constructor; cbn [do_evict st_store st_log st_base st_hi st_queue st_bufs st_clients st_cache st_epoch]; auto.
    intros T' sn Hf. destruct (ts_eqb T' T) eqn:E.
    - apply ts_eqb_eq in E; subst T'. rewrite find_del_snap_same in Hf. discriminate.
    - apply ts_eqb_neq in E. rewrite find_del_snap_other in Hf by exact E. apply Gc, Hf.
  Qed.

  (* ---------------------------------------------------------------- restore *)

  Lemma force_close_fields x :
    c_ts (force_close x) = c_ts x /\ c_view (force_close x) = c_view x /\
    c_idx (force_close x) = c_idx x /\ c_h (force_close x) = c_h x /\
    c_epoch (force_close x) = c_epoch x /\
    match c_sub (force_close x) with
    | Some sb => s_status sb <> Open /\ exists sb0, c_sub x = Some sb0
    | None => c_sub x = None
    end.
  Proof.
    unfold force_close. destruct (c_sub x) as [sb|] eqn:Es; [|rewrite Es; auto 10].
    destruct (s_status sb) eqn:Est; cbn; rewrite ?Es; repeat split; auto; try congruence; eauto.
  Qed.

  Lemma has_sub_force_close T x : has_sub_on T (force_close x) = has_sub_on T x.
  Proof.
    unfold has_sub_on. destruct (force_close_fields x) as (Et & _ & _ & _ & _ & Hs).
    rewrite Et. destruct (c_sub (force_close x)) as [sb|].
    - destruct Hs as (_ & sb0 & ->). reflexivity.
    - rewrite Hs. reflexivity.
  Qed.

  Lemma ginv_restore st rows hi :
    ginv gf st -> st_queue st = [] -> nodup_keys rows = true -> ginv gf (do_restore st rows hi).
  Proof.
    intros [Gnd Gst Glok Ginc Ghi Gh Gr Gc Gn] Hq Hnd.
    destruct Gh as (pub & r & Hlog & Hr & Hall & Hbuf & Hcl).
    constructor; cbn [do_restore st_store st_log st_base st_hi st_queue st_bufs st_clients st_cache st_epoch].
    - apply nodup_keys_spec, Hnd.
    - intros k; reflexivity.
    - constructor.
    - constructor.
    - lia.
    - exists [], (st_hi st). split; [rewrite Hq; reflexivity|]. split; [lia|]. split; [constructor|]. split.
      + intros T tb' Hf Hold. rewrite find_buf_map in Hf by reflexivity.
        destruct (find_buf T (st_bufs st)); [|discriminate]. injection Hf as <-. discriminate.
      + intros c x' Hf. rewrite find_client_map in Hf.
        destruct (find_client c (st_clients st)) as [x|] eqn:Ec; [|discriminate]. injection Hf as <-.
        destruct (Hcl c x Ec) as (Hi & Hep & Hz & Hs & Hk & _). cbn [hist_of h_hi h_epoch] in Hi, Hep.
        destruct (force_close_fields x) as (Et & Ev & Ei & Eh & Ee & Hsub).
        unfold cinv, knows. rewrite Et, Ev, Ei, Eh, Ee. cbn [hist_of h_hi h_epoch do_restore st_hi st_epoch].
        split; [lia|]. split; [lia|]. split; [exact Hz|]. split; [exact Hs|]. split.
        * destruct (N.eq_dec (c_idx x) 0) as [E0|E0]; [left; exact E0|]. right; right. split; [lia|exact Hi].
        * destruct (c_sub (force_close x)) as [sb|]; [|exact I]. destruct Hsub as [Hne _].
          destruct (s_status sb); try exact I. congruence.
    - intros T. rewrite find_buf_map by reflexivity. specialize (Gr T).
      rewrite count_map by (intros; apply has_sub_force_close).
      destruct (find_buf T (st_bufs st)); cbn [option_map tb_refs]; exact Gr.
    - intros T sn Hf. discriminate.
    - rewrite map_fst_map. exact Gn.
  Qed.

  (* ---------------------------------------------------------------- unsubscribe *)

  Lemma count_ge_one T c y l :
    find_client c l = Some y -> has_sub_on T y = true -> (1 <= count_subs T l)%nat.
  Proof.
    induction l as [|[c' z] r IH]; cbn [find_client count_subs]; [discriminate|].
    destruct (N.eqb c c').
    - intros H; injection H as ->. intros ->. lia.
    - intros H1 H2. specialize (IH H1 H2). lia.
  Qed.

  Lemma live_same h T ob ob' off tb tb' :
    ob = Some tb -> ob' = Some tb' -> tb_items tb' = tb_items tb -> tb_old tb' = tb_old tb ->
    buf_live ob off -> buf_live ob' off /\ tail h T ob' off = tail h T ob off.
  Proof.
    intros -> -> Ei Eo (tb0 & E & Hold & Hoff). injection E as <-. split.
    - exists tb'. rewrite Ei, Eo. auto.
    - unfold tail. cbn [ob_items]. rewrite Ei. reflexivity.
  Qed.

  (* dropping or closing the subscription only weakens what is asked of the client *)
  Lemma cinv_weaken h ob ob' r x x' :
    c_ts x' = c_ts x -> c_view x' = c_view x -> c_idx x' = c_idx x -> c_h x' = c_h x ->
    c_epoch x' = c_epoch x ->
    match c_sub x' with Some sb => s_status sb <> Open | None => True end ->
    cinv gf h ob r x -> cinv gf h ob' r x'.
  Proof.
    intros Et Ev Ei Eh Ee Hs (Hi & Hep & Hz & Hsn & Hk & Hsub). unfold cinv, knows in *.
    rewrite Et, Ev, Ei, Eh, Ee. split; [exact Hi|]. split; [exact Hep|]. split; [exact Hz|].
    split; [exact Hsn|]. split; [exact Hk|].
    destruct (c_sub x') as [sb|]; [|exact I]. destruct (s_status sb); try exact I. congruence.
  Qed.

  Lemma has_sub_other T' x : T' <> c_ts x -> has_sub_on T' x = false.
  Proof.
    intros Hne. unfold has_sub_on. destruct (c_sub x); [|reflexivity]. apply ts_eqb_neq, Hne.
  Qed.

  Lemma ginv_unsub st c : ginv gf st -> ginv gf (fst (do_unsub st c)).
  Proof.
    intros G. unfold do_unsub. destruct (find_client c (st_clients st)) as [x|] eqn:Ec; [|exact G].
    destruct (c_sub x) as [sb|] eqn:Es; [|exact G]. cbn [fst].
    destruct G as [Gnd Gst Glok Ginc Ghi Gh Gr Gc Gn].
    destruct Gh as (pub & r & Hlog & Hr & Hall & Hbuf & Hcl).
    set (T := c_ts x). set (cl' := put_client c (drop_sub x) (st_clients st)).
    assert (Hx : has_sub_on T x = true) by (unfold has_sub_on, T; rewrite Es; apply ts_eqb_refl).
    assert (Hd : forall T', has_sub_on T' (drop_sub x) = false) by reflexivity.
    assert (HcT : (count_subs T cl' + 1 = count_subs T (st_clients st))%nat).
    { pose proof (count_put_client T c (drop_sub x) _ Gn) as H. rewrite Ec, Hx, Hd in H. cbn [b2n] in H.
      fold cl' in H. lia. }
    assert (HcO : forall T', T' <> T -> count_subs T' cl' = count_subs T' (st_clients st)).
    { intros T' Hne. pose proof (count_put_client T' c (drop_sub x) _ Gn) as H.
      rewrite Ec, Hd, (has_sub_other T' x) in H by exact Hne. cbn [b2n] in H. fold cl' in H. lia. }
    assert (Hge : (1 <= count_subs T (st_clients st))%nat) by (eapply count_ge_one; eauto).
    unfold release. cbn [with_clients st_bufs]. fold T.
    pose proof (Gr T) as GrT. destruct (find_buf T (st_bufs st)) as [tb|] eqn:Eb; [|lia].
    assert (Hcx : forall ob', cinv gf (hist_of st) ob' r (drop_sub x)).
    { intros ob'. eapply cinv_weaken with (x := x). 1-5: reflexivity. exact I. exact (Hcl c x Ec). }
    destruct (tb_refs tb) as [|[|n]] eqn:Er.
    1, 2: (* the last reference: the buffer and its cached snapshot go away *)
      assert (Hz0 : count_subs T cl' = 0%nat) by lia;
      constructor; cbn [with_clients st_store st_log st_base st_hi st_queue st_bufs st_clients st_cache st_epoch]; auto;
      [ exists pub, r; split; [exact Hlog|]; split; [exact Hr|]; split; [exact Hall|]; split;
        [ intros T' tb' Hf Hold; destruct (ts_eqb T' T) eqn:E;
          [ apply ts_eqb_eq in E; subst T'; rewrite find_del_buf_same in Hf; discriminate
          | apply ts_eqb_neq in E; rewrite find_del_buf_other in Hf by exact E; eapply Hbuf; eauto ]
        | intros c' y Hf; destruct (N.eq_dec c' c) as [->|Hne];
          [ unfold cl' in Hf; rewrite find_put_client_same in Hf; injection Hf as <-; apply Hcx
          | unfold cl' in Hf; rewrite find_put_client_other in Hf by exact Hne;
            change (hist_of _) with (hist_of st);
            destruct (ts_eqb (c_ts y) T) eqn:E;
            [ apply ts_eqb_eq in E; rewrite E, find_del_buf_same;
              eapply cinv_nosub; [|exact (Hcl c' y Hf)];
              destruct (c_sub y) as [sby|] eqn:Esy; [|exact I]; exfalso;
              assert (has_sub_on T y = true) as Hy by (unfold has_sub_on; rewrite Esy, E; apply ts_eqb_refl);
              assert (find_client c' cl' = Some y) as Hf' by (unfold cl'; rewrite find_put_client_other by exact Hne; exact Hf);
              pose proof (count_ge_one T c' y cl' Hf' Hy); lia
            | apply ts_eqb_neq in E; rewrite find_del_buf_other by exact E; exact (Hcl c' y Hf) ] ] ]
      | intros T'; destruct (ts_eqb T' T) eqn:E;
        [ apply ts_eqb_eq in E; subst T'; rewrite find_del_buf_same; exact Hz0
        | apply ts_eqb_neq in E; rewrite find_del_buf_other by exact E; rewrite HcO by exact E; apply Gr ]
      | intros T' sn Hf; change (hist_of _) with (hist_of st); destruct (ts_eqb T' T) eqn:E;
        [ apply ts_eqb_eq in E; subst T'; rewrite find_del_snap_same in Hf; discriminate
        | apply ts_eqb_neq in E; rewrite find_del_snap_other in Hf by exact E;
          rewrite find_del_buf_other by exact E; apply Gc, Hf ]
      | apply nodup_put_client, Gn ].
    (* other references remain: only the counter changes *)
    set (tb' := TBuf T (S n) (tb_items tb) (tb_old tb)).
    assert (Hsame : forall T', find_buf T' (put_buf tb' (st_bufs st)) =
                               if ts_eqb T' T then Some tb' else find_buf T' (st_bufs st)).
    { intros T'. destruct (ts_eqb T' T) eqn:E.
      - apply ts_eqb_eq in E; subst T'. apply (find_put_buf_same tb').
      - apply ts_eqb_neq in E. apply find_put_buf_other. exact E. }
    constructor; cbn [with_clients st_store st_log st_base st_hi st_queue st_bufs st_clients st_cache st_epoch]; auto.
    - exists pub, r. split; [exact Hlog|]. split; [exact Hr|]. split; [exact Hall|]. split.
      + intros T' tb0 Hf Hold. rewrite Hsame in Hf. destruct (ts_eqb T' T) eqn:E.
        * apply ts_eqb_eq in E; subst T'. injection Hf as <-. exact (Hbuf T tb Eb Hold).
        * eapply Hbuf; eauto.
      + intros c' y Hf. change (hist_of _) with (hist_of st). destruct (N.eq_dec c' c) as [->|Hne].
        * unfold cl' in Hf. rewrite find_put_client_same in Hf. injection Hf as <-. apply Hcx.
        * unfold cl' in Hf. rewrite find_put_client_other in Hf by exact Hne. rewrite Hsame.
          destruct (ts_eqb (c_ts y) T) eqn:E; [|exact (Hcl c' y Hf)].
          apply ts_eqb_eq in E. pose proof (Hcl c' y Hf) as Hy. rewrite E, Eb in Hy.
          eapply (cinv_ext (hist_of st)); [reflexivity|reflexivity|reflexivity|reflexivity| |exact Hy].
          intros sby _ _ Hl. eapply live_same; [reflexivity|reflexivity|reflexivity|reflexivity|exact Hl].
    - intros T'. rewrite Hsame. destruct (ts_eqb T' T) eqn:E.
      + apply ts_eqb_eq in E; subst T'. cbn [tb_refs tb']. lia.
      + apply ts_eqb_neq in E. rewrite HcO by exact E. apply Gr.
    - intros T' sn Hf. change (hist_of _) with (hist_of st). rewrite Hsame. pose proof (Gc T' sn Hf) as Hc.
      destruct (ts_eqb T' T) eqn:E; [|exact Hc]. apply ts_eqb_eq in E; subst T'. rewrite Eb in Hc.
      eapply (cacheinv_ext (hist_of st)); [reflexivity|reflexivity|reflexivity| |exact Hc].
      intros Hl. eapply live_same; [reflexivity|reflexivity|reflexivity|reflexivity|exact Hl].
    - apply nodup_put_client, Gn.
  Qed.

  (* ---------------------------------------------------------------- next *)

  Lemma proj_evs_match T log i evs :
    In (IEv i evs) (proj T log) -> forall e, In e evs -> matches T (e_key e) = true.
  Proof.
    induction log as [|b r IH]; cbn [proj flat_map]; [intros []|]. fold (proj T r).
    rewrite in_app_iff. intros [H|H]; [|apply IH, H].
    destruct (evs_for T (b_evs b)) as [|e0 l] eqn:E; cbn in H; [destruct H|].
    destruct H as [H|[]]. injection H as _ <-. intros e He. rewrite <- E in He.
    unfold evs_for in He. apply filter_In in He. apply He.
  Qed.

  Lemma lastev_nomatch T k evs :
    (forall e, In e evs -> matches T (e_key e) = true) -> matches T k = false -> lastev k evs = None.
  Proof.
    intros Hall Hk. induction evs as [|e r IH]; cbn [lastev]; [reflexivity|].
    rewrite IH by (intros e' He'; apply Hall; right; exact He').
    destruct (key_eqb k (e_key e)) eqn:E; [|reflexivity]. apply key_eqb_eq in E. subst k.
    rewrite (Hall e) in Hk by (left; reflexivity). discriminate.
  Qed.

  Lemma proj_item_batch T log it : In it (proj T log) -> exists b, In b log /\ item_idx it = b_idx b.
  Proof.
    induction log as [|b r IH]; cbn [proj flat_map]; [intros []|]. fold (proj T r).
    rewrite in_app_iff. intros [H|H].
    - destruct (evs_for T (b_evs b)); cbn in H; [destruct H|]. destruct H as [<-|[]].
      exists b. split; [left; reflexivity|reflexivity].
    - destruct (IH H) as (b0 & Hb & Hi). exists b0. split; [right; exact Hb|exact Hi].
  Qed.

  Lemma last_default {A} (l : list A) d d' : l <> [] -> last l d = last l d'.
  Proof.
    induction l as [|a l IH]; [congruence|]. intros _. destruct l as [|b l]; [reflexivity|].
    cbn [last] in *. apply IH. discriminate.
  Qed.

  Lemma ievs_cons_ev i evs l : ievs (IEv i evs :: l) = evs ++ ievs l.
  Proof. reflexivity. Qed.

  (* delivering the next private item (snapshot framing) *)
  Lemma cinv_deliver_pre h ob r x sb it pre' :
    cinv gf h ob r x -> c_sub x = Some sb -> s_status sb = Open -> s_pre sb = it :: pre' ->
    cinv gf h ob r (handle (h_epoch h) x (Sub Open pre' (s_off sb)) it).
  Proof.
    intros (Hi & Hep & Hz & Hs & Hk & Hsub) Es Est Epre. rewrite Es, Est in Hsub.
    destruct Hsub as [Hl [Hst|Hsn]].
    { destruct Hst as (Hp & _). congruence. }
    destruct Hsn as (acc & rest & A & B2 & D & s & Hh & Hso).
    destruct Hh as [[Hh Hpre]|(Hh & -> & Hpre)].
    - (* accumulating *)
      rewrite Epre in Hpre. destruct rest as [|it0 rest'].
      + (* EndOfSnapshot: the accumulated events become the view *)
        cbn [app] in Hpre. injection Hpre as -> ->. unfold handle. rewrite Hh.
        destruct Hso as [Hsp Hr Hv Ht Hle Hgt Hss Hg].
        assert (Hc : core gf h (c_ts x) (apply acc (c_view x)) s A [] B2 D s).
        { constructor; auto.
          - intros k. specialize (Hv k). cbn [ievs flat_map] in Hv. rewrite app_nil_r in Hv.
            cbn [ievs flat_map app apply fold_left]. change (fold_left apply1 (ievs (A ++ B2)) (h_base h))
              with (apply (ievs (A ++ B2)) (h_base h)).
            rewrite <- Hv. apply meq_apply. apply Hz. eapply Hs; eauto. }
        unfold cinv, knows. cbn [c_idx c_epoch c_view c_h c_sub c_ts s_status].
        split; [lia|]. split; [lia|]. split; [intros ->; lia|]. split; [intros ? H; discriminate|].
        split; [right; left; split; [reflexivity|exists A, [], B2, D, s; exact Hc]|].
        split; [exact Hl|]. left. cbn [s_pre s_off c_h c_epoch c_ts c_view c_idx].
        split; [reflexivity|]. split; [left; reflexivity|]. split; [reflexivity|].
        exists A, [], B2, D, s. split; [exact Hc|exact Ht].
      + (* one more snapshot item *)
        cbn [app] in Hpre. injection Hpre as <- ->.
        destruct Hso as [Hsp Hr Hv Ht Hle Hgt Hss Hg]. inversion Hr as [|? ? Hit Hr']; subst.
        destruct it as [i evs| |]; try contradiction. unfold handle. rewrite Hh.
        unfold cinv, knows. cbn [c_idx c_epoch c_view c_h c_sub c_ts s_status].
        split; [exact Hi|]. split; [exact Hep|]. split; [exact Hz|]. split; [intros ? _; eapply Hs; eauto|].
        split; [exact Hk|]. split; [exact Hl|]. right.
        exists (acc ++ evs), rest', A, B2, D, s. cbn [c_h s_pre s_off c_ts].
        split; [left; split; reflexivity|]. constructor; auto.
        intros k. rewrite <- (Hv k), ievs_cons_ev, app_assoc. reflexivity.
    - (* NewSnapshotToFollow: reset *)
      rewrite Epre in Hpre. injection Hpre as -> ->. unfold handle. rewrite Hh.
      unfold cinv, knows. cbn [c_idx c_epoch c_view c_h c_sub c_ts s_status].
      split; [lia|]. split; [exact Hep|]. split; [intros _ k; reflexivity|]. split; [reflexivity|].
      split; [left; reflexivity|]. split; [exact Hl|]. right.
      exists [], rest, A, B2, D, s. cbn [c_h s_pre s_off c_ts]. split; [left; split; reflexivity|exact Hso].
  Qed.

  (* delivering the next item of the topic buffer *)
  Lemma cinv_deliver_buf h ob r x sb it :
    incr (map item_idx (proj (c_ts x) (h_log h))) ->
    (forall it', In it' (proj (c_ts x) (h_log h)) -> 1 <= item_idx it' <= h_hi h) ->
    cinv gf h ob r x -> c_sub x = Some sb -> s_status sb = Open -> s_pre sb = [] ->
    nth_error (ob_items ob) (s_off sb) = Some it ->
    cinv gf h ob r (handle (h_epoch h) x (Sub Open [] (S (s_off sb))) it).
  Proof.
    intros Hinc Hbnd (Hi & Hep & Hz & Hs & Hk & Hsub) Es Est Epre Enth. rewrite Es, Est in Hsub.
    destruct Hsub as [Hl [Hst|Hsn]].
    2: { destruct Hsn as (acc & rest & A & B2 & D & s & [[_ Hpre]|(_ & _ & Hpre)] & _);
         rewrite Epre in Hpre; [destruct rest; discriminate|discriminate]. }
    destruct Hst as (_ & Hh & He & A & B1 & B2 & D & s & Hc & Ht).
    destruct Hc as [Hsp Hv Hle Hgt Hci Hss Hg].
    unfold tail in Ht. rewrite (nth_error_skipn _ _ _ Enth) in Ht. cbn [app] in Ht.
    assert (Hin : In it (proj (c_ts x) (h_log h))).
    { rewrite Hsp, !in_app_iff. right; right. rewrite <- in_app_iff, <- Ht. left; reflexivity. }
    pose proof (proj_iev (c_ts x) (h_log h)) as Hiev. rewrite Forall_forall in Hiev.
    specialize (Hiev it Hin). destruct it as [i evs| |]; try contradiction.
    pose proof (proj_evs_match _ _ _ _ Hin) as Hm.
    assert (Hl' : buf_live ob (S (s_off sb))).
    { destruct Hl as (tb & -> & Hold & Hoff). exists tb. split; [reflexivity|]. split; [exact Hold|].
      cbn [ob_items] in Enth. apply nth_error_Some. congruence. }
    assert (Hx' : handle (h_epoch h) x (Sub Open [] (S (s_off sb))) (IEv i evs) =
                  Client (c_ts x) (c_tok x) (c_rpc x) (apply evs (c_view x)) i HStream
                         (Some (Sub Open [] (S (s_off sb)))) (c_epoch x)).
    { unfold handle. destruct Hh as [-> | ->]; reflexivity. }
    rewrite Hx'. clear Hx'.
    assert (Hview : forall M, (forall k, aget k (c_view x) = if matches (c_ts x) k then aget k M else None) ->
                              forall k, aget k (apply evs (c_view x)) =
                                        if matches (c_ts x) k then aget k (apply evs M) else None).
    { intros M HM k. rewrite !aget_apply. destruct (matches (c_ts x) k) eqn:Ek.
      - destruct (lastev k evs); [reflexivity|]. rewrite HM, Ek. reflexivity.
      - rewrite (lastev_nomatch (c_ts x)) by assumption. rewrite HM, Ek. reflexivity. }
    destruct (Hbnd _ Hin) as [Hi1 Hi2]. cbn [item_idx] in Hi1, Hi2.
    destruct B2 as [|b2 B2'].
    - (* an event committed after the snapshot *)
      cbn [app] in Ht. destruct D as [|d D']; [discriminate|]. injection Ht as <- Ht.
      apply Forall_cons_iff in Hgt as [Hsi Hgt']. cbn [item_idx] in Hsi.
      assert (Hc' : core gf h (c_ts x) (apply evs (c_view x)) i (A ++ B1 ++ [IEv i evs]) [] [] D' i).
      { constructor.
        - rewrite Hsp. cbn [app]. rewrite <- !app_assoc. reflexivity.
        - intros k. cbn [ievs flat_map app]. rewrite !app_nil_r, (app_assoc A B1), ievs_app, apply_app.
          cbn [ievs flat_map]. rewrite app_nil_r. change (apply [] ?m) with m.
          revert k. apply Hview. intros k. rewrite (Hv k). destruct (matches (c_ts x) k); [|reflexivity].
          rewrite app_nil_r, ievs_app. apply apply_replay.
        - cbn [app]. rewrite app_nil_r. rewrite app_assoc. apply Forall_app. split.
          + rewrite app_nil_r in Hle. eapply Forall_impl; [|exact Hle]. cbn. intros; lia.
          + constructor; [cbn [item_idx]; lia|constructor].
        - rewrite Hsp in Hinc. cbn [app] in Hinc. rewrite !app_assoc in Hinc.
          rewrite map_app in Hinc. apply incr_app_inv in Hinc as (_ & Hd & _).
          cbn [map] in Hd. inversion Hd as [|? ? _ Hf]; subst. rewrite Forall_forall in *.
          intros it' Hit'. apply Hf. apply in_map, Hit'.
        - reflexivity.
        - lia.
        - auto. }
      revert Hc'. cbn [app]. intros Hc'.
      unfold cinv, knows. cbn [c_idx c_epoch c_view c_h c_sub c_ts s_status].
      split; [lia|]. split; [exact Hep|]. split; [intros ->; lia|]. split; [intros ? H; discriminate|].
      split; [right; left; split; [exact He|eexists _, _, _, _, _; exact Hc']|].
      split; [exact Hl'|]. left. cbn [s_pre s_off c_h c_epoch c_ts c_view c_idx].
      split; [reflexivity|]. split; [left; reflexivity|]. split; [exact He|].
      eexists _, _, _, _, _. split; [exact Hc'|]. unfold tail. exact Ht.
    - (* an event that was already contained in the snapshot (replay) *)
      cbn [app] in Ht. injection Ht as <- Ht.
      assert (Hc' : core gf h (c_ts x) (apply evs (c_view x)) i A (B1 ++ [IEv i evs]) B2' D s).
      { constructor; auto.
        - rewrite Hsp, <- !app_assoc. reflexivity.
        - rewrite <- !app_assoc. cbn [app]. rewrite ievs_app, apply_app. cbn [ievs flat_map]. rewrite app_nil_r.
          apply Hview. exact Hv.
        - rewrite <- !app_assoc. exact Hle.
        - rewrite lastidx_app_single. reflexivity.
        - intros Hgf. destruct (Hg Hgf) as [_ H]. discriminate. }
      unfold cinv, knows. cbn [c_idx c_epoch c_view c_h c_sub c_ts s_status].
      split; [lia|]. split; [exact Hep|]. split; [intros ->; lia|]. split; [intros ? H; discriminate|].
      split; [right; left; split; [exact He|eexists _, _, _, _, _; exact Hc']|].
      split; [exact Hl'|]. left. cbn [s_pre s_off c_h c_epoch c_ts c_view c_idx].
      split; [reflexivity|]. split; [left; reflexivity|]. split; [exact He|].
      eexists _, _, _, _, _. split; [exact Hc'|]. unfold tail. exact Ht.
  Qed.

  (* replacing one client by a client on the same topic/subject with the same kind of subscription *)
  Lemma ginv_put st c x x' :
    ginv gf st -> find_client c (st_clients st) = Some x ->
    c_ts x' = c_ts x -> (forall T, has_sub_on T x' = has_sub_on T x) ->
    (forall r, 1 <= r <= st_hi st -> Forall (fun b => r < b_idx b <= st_hi st) (st_log st) ->
               cinv gf (hist_of st) (find_buf (c_ts x) (st_bufs st)) r x ->
               cinv gf (hist_of st) (find_buf (c_ts x) (st_bufs st)) r x') ->
    ginv gf (with_clients st (put_client c x' (st_clients st))).
  Proof.
    intros [Gnd Gst Glok Ginc Ghi Gh Gr Gc Gn] Ec Et Hh Hupd.
    destruct Gh as (pub & r & Hlog & Hr & Hall & Hbuf & Hcl).
    constructor; cbn [with_clients st_store st_log st_base st_hi st_queue st_bufs st_clients st_cache st_epoch]; auto.
    - exists pub, r. split; [exact Hlog|]. split; [exact Hr|]. split; [exact Hall|]. split; [exact Hbuf|].
      intros c' y Hf. change (hist_of _) with (hist_of st). destruct (N.eq_dec c' c) as [->|Hne].
      + rewrite find_put_client_same in Hf. injection Hf as <-. rewrite Et. apply Hupd; auto. exact (Hcl c x Ec).
      + rewrite find_put_client_other in Hf by exact Hne. exact (Hcl c' y Hf).
    - intros T. pose proof (count_put_client T c x' _ Gn) as H. rewrite Ec, Hh in H.
      assert (count_subs T (put_client c x' (st_clients st)) = count_subs T (st_clients st)) as -> by lia.
      apply Gr.
    - apply nodup_put_client, Gn.
  Qed.

  Lemma ginv_next st c : ginv gf st -> ginv gf (fst (do_next st c)).
  Proof.
    intros G. unfold do_next. destruct (find_client c (st_clients st)) as [x|] eqn:Ec; [|exact G].
    destruct (c_sub x) as [sb|] eqn:Es; [|exact G].
    assert (Hinc : incr (map item_idx (proj (c_ts x) (st_log st)))) by (apply incr_proj, G).
    destruct (s_status sb) eqn:Est.
    - (* open *)
      destruct (s_pre sb) as [|it pre'] eqn:Epre.
      + destruct (nth_error (buf_items (c_ts x) (st_bufs st)) (s_off sb)) as [it|] eqn:Enth; [|exact G].
        cbn [fst]. eapply ginv_put; eauto.
        * unfold handle. destruct (c_h x), it; reflexivity.
        * intros T. unfold has_sub_on, handle. rewrite Es. destruct (c_h x), it; reflexivity.
        * intros r Hr Hall Hc. change (st_epoch st) with (h_epoch (hist_of st)).
          eapply cinv_deliver_buf; eauto.
          intros it' Hit'. apply proj_item_batch in Hit' as (b & Hb & ->).
          rewrite Forall_forall in Hall. specialize (Hall b Hb). cbn [hist_of h_hi]. lia.
      + cbn [fst]. eapply ginv_put; eauto.
        * unfold handle. destruct (c_h x), it; reflexivity.
        * intros T. unfold has_sub_on, handle. rewrite Es. destruct (c_h x), it; reflexivity.
        * intros r Hr Hall Hc. change (st_epoch st) with (h_epoch (hist_of st)).
          eapply cinv_deliver_pre; eauto.
    - (* force closed *)
      destruct (c_rpc x); [|exact G]. cbn [fst]. eapply ginv_put; eauto.
      + intros T. unfold has_sub_on. cbn [c_sub c_ts]. rewrite Es. reflexivity.
      + intros r Hr Hall (Hi & Hep & Hz & Hs & Hk & Hsub). unfold cinv, knows.
        cbn [c_idx c_epoch c_view c_h c_sub c_ts]. rewrite Est.
        split; [lia|]. split; [exact Hep|]. split; [intros _ k; reflexivity|]. split; [reflexivity|].
        split; [left; reflexivity|exact I].
    - (* closed after an ACL change *)
      destruct (c_rpc x); [|exact G]. cbn [fst]. eapply ginv_put; eauto.
      + intros T. unfold has_sub_on. cbn [c_sub c_ts]. rewrite Es. reflexivity.
      + intros r Hr Hall (Hi & Hep & Hz & Hs & Hk & Hsub). unfold cinv, knows.
        cbn [c_idx c_epoch c_view c_h c_sub c_ts]. rewrite Est.
        split; [lia|]. split; [exact Hep|]. split; [intros _ k; reflexivity|]. split; [reflexivity|].
        split; [left; reflexivity|exact I].
  Qed.

  (* ---------------------------------------------------------------- subscribe *)

  Lemma put_put_client c x y l : put_client c y (put_client c x l) = put_client c y l.
  Proof.
    induction l as [|[c' z] r IH]; cbn [put_client].
    - rewrite N.eqb_refl. reflexivity.
    - destruct (N.eqb c c') eqn:E; cbn [put_client]; rewrite ?N.eqb_refl, ?E; [reflexivity|]. rewrite IH. reflexivity.
  Qed.

  Lemma last_item_spec items :
    match last_item items with
    | Some it => exists l, items = l ++ [it]
    | None => items = []
    end.
  Proof.
    unfold last_item. induction items as [|a l _] using rev_ind; [reflexivity|].
    rewrite map_app. cbn [map]. rewrite last_last. exists l. reflexivity.
  Qed.

  Lemma splice_len items s :
    (forall it, In it items -> item_idx it <= s) -> splice_off items s = List.length items.
  Proof.
    intros H. unfold splice_off. pose proof (last_item_spec items) as Hl.
    destruct (last_item items) as [[j evs| |]|]; try reflexivity.
    destruct Hl as (l & ->). specialize (H (IEv j evs)). rewrite in_app_iff in H.
    specialize (H (or_intror (or_introl eq_refl))). cbn [item_idx] in H.
    destruct (N.ltb s j) eqn:E; [apply N.ltb_lt in E; lia|reflexivity].
  Qed.

  Lemma head_index_spec items i :
    head_has_index items i = true -> exists l evs, items = l ++ [IEv i evs].
  Proof.
    unfold head_has_index. pose proof (last_item_spec items) as Hl.
    destruct (last_item items) as [[j evs| |]|]; try discriminate.
    destruct Hl as (l & ->). intros E. apply N.eqb_eq in E. subst j. eauto.
  Qed.

  Lemma snap_events_spec T m idx :
    ievs (snap_events T m idx) = map row_ev (rows_of T m) /\ Forall is_iev (snap_events T m idx).
  Proof.
    unfold snap_events. destruct (per_row (fst T)).
    - induction (rows_of T m) as [|kv l IH]; cbn [map ievs flat_map]; [split; [reflexivity|constructor]|].
      destruct IH as [IH1 IH2]. split.
      + fold (ievs (map (fun kv0 => IEv idx [Ev (fst kv0) (Some (snd kv0))]) l)). rewrite IH1. reflexivity.
      + constructor; [exact I|exact IH2].
    - destruct (rows_of T m) as [|kv l]; [split; [reflexivity|constructor]|].
      cbn [ievs flat_map]. rewrite app_nil_r. split; [reflexivity|]. constructor; [exact I|constructor].
  Qed.

  Lemma lastidx_app_nonempty a b d : b <> [] -> lastidx (a ++ b) d = lastidx b 0.
  Proof.
    intros Hne. destruct (exists_last Hne) as (b' & x & ->). rewrite app_assoc, !lastidx_app_single. reflexivity.
  Qed.

  (* an idle client that knows nothing can be added *)
  Lemma ginv_add_idle st c T tok rpc :
    ginv gf st -> find_client c (st_clients st) = None ->
    ginv gf (with_clients st (put_client c (Client T tok rpc [] 0 (HSnap []) None (st_epoch st)) (st_clients st))).
  Proof.
    intros [Gnd Gst Glok Ginc Ghi Gh Gr Gc Gn] Ec.
    destruct Gh as (pub & r & Hlog & Hr & Hall & Hbuf & Hcl).
    constructor; cbn [with_clients st_store st_log st_base st_hi st_queue st_bufs st_clients st_cache st_epoch]; auto.
    - exists pub, r. split; [exact Hlog|]. split; [exact Hr|]. split; [exact Hall|]. split; [exact Hbuf|].
      intros c' y Hf. change (hist_of _) with (hist_of st). destruct (N.eq_dec c' c) as [->|Hne].
      + rewrite find_put_client_same in Hf. injection Hf as <-. unfold cinv, knows.
        cbn [c_idx c_epoch c_view c_h c_sub c_ts hist_of h_hi h_epoch].
        split; [lia|]. split; [lia|]. split; [intros _ k; reflexivity|]. split; [reflexivity|].
        split; [left; reflexivity|exact I].
      + rewrite find_put_client_other in Hf by exact Hne. exact (Hcl c' y Hf).
    - intros T'. pose proof (count_put_client T' c (Client T tok rpc [] 0 (HSnap []) None (st_epoch st)) _ Gn) as H.
      rewrite Ec in H. change (has_sub_on T' (Client T tok rpc [] 0 (HSnap []) None (st_epoch st))) with false in H.
      cbn [b2n] in H.
      assert (count_subs T' (put_client c (Client T tok rpc [] 0 (HSnap []) None (st_epoch st)) (st_clients st))
              = count_subs T' (st_clients st)) as -> by lia.
      apply Gr.
    - apply nodup_put_client, Gn.
  Qed.

  (* the request's view of the world, as [step_ok] / [restore_ok] / [gapfree_ok] state it *)
  Definition sub_env_ok (st : state) (T : ts) (idx qidx : N) : Prop :=
    (match snd T, wild_ok (fst T) with
     | None, false => True
     | _, _ => Forall (fun b => touches T b = true -> b_idx b <= qidx) (st_log st) /\ qidx <= st_hi st
     end) /\
    (forall b, find_buf T (st_bufs st) = Some b -> tb_old b = false) /\
    (gf = true -> sub_path st T idx = PBuild -> st_queue st = []).

  Lemma touches_proj T b : touches T b = false -> proj T [b] = [].
  Proof.
    unfold touches. cbn [proj flat_map]. destruct (evs_for T (b_evs b)); [reflexivity|discriminate].
  Qed.

  Lemma proj_le T log q :
    Forall (fun b => touches T b = true -> b_idx b <= q) log ->
    Forall (fun it => item_idx it <= q) (proj T log).
  Proof.
    induction 1 as [|b l Hb _ IH]; cbn [proj flat_map]; [constructor|]. fold (proj T l).
    apply Forall_app. split; [|exact IH].
    unfold touches in Hb. destruct (evs_for T (b_evs b)); [constructor|].
    constructor; [cbn [item_idx]; apply Hb; reflexivity|constructor].
  Qed.

  Lemma sub_path_not_err st T idx :
    sub_path st T idx <> PErr ->
    sub_path st T idx =
      (if negb (N.eqb idx 0) && head_has_index (buf_items T (st_bufs st)) idx then PResume
       else match find_snap T (st_cache st) with Some _ => PCache | None => PBuild end) /\
    (snd T = None -> wild_ok (fst T) = true).
  Proof.
    unfold sub_path. destruct (snd T); [intros _; split; [reflexivity|discriminate]|].
    destruct (wild_ok (fst T)); [intros _; split; reflexivity|congruence].
  Qed.

  (* bufferForSubscription + refs++ for client c, whose new state x1 holds a subscription *)
  Definition attach_buf (st : state) (T : ts) : tbuf :=
    match find_buf T (st_bufs st) with
    | Some b => TBuf T (S (tb_refs b)) (tb_items b) (tb_old b)
    | None => TBuf T 1 [] false
    end.

  Lemma attach_items st T : tb_items (attach_buf st T) = buf_items T (st_bufs st).
  Proof. unfold attach_buf, buf_items. destruct (find_buf T (st_bufs st)); reflexivity. Qed.

  Lemma ginv_attach st c x0 x1 sb1 cache' :
    ginv gf st -> find_client c (st_clients st) = Some x0 -> c_sub x0 = None ->
    c_ts x1 = c_ts x0 -> c_sub x1 = Some sb1 ->
    (forall b, find_buf (c_ts x0) (st_bufs st) = Some b -> tb_old b = false) ->
    (forall pub r,
        st_log st = pub ++ st_queue st -> 1 <= r <= st_hi st ->
        Forall (fun b => r < b_idx b <= st_hi st) (st_log st) ->
        (exists X, proj (c_ts x0) pub = X ++ tb_items (attach_buf st (c_ts x0))) ->
        cinv gf (hist_of st) (find_buf (c_ts x0) (st_bufs st)) r x0 ->
        cinv gf (hist_of st) (Some (attach_buf st (c_ts x0))) r x1 /\
        (forall T' sn, find_snap T' cache' = Some sn ->
                       find_snap T' (st_cache st) = Some sn \/
                       (T' = c_ts x0 /\ cacheinv gf (hist_of st) T' (Some (attach_buf st (c_ts x0))) sn))) ->
    ginv gf (State (st_store st) (st_queue st) (put_buf (attach_buf st (c_ts x0)) (st_bufs st)) cache'
                   (put_client c x1 (st_clients st)) (st_cache_on st) (st_hi st) (st_log st) (st_base st)
                   (st_epoch st)).
  Proof.
    intros G Ec Es0 Et Es1 Hold Hupd. pose proof G as [Gnd Gst Glok Ginc Ghi Gh Gr Gc Gn].
    destruct Gh as (pub & r & Hlog & Hr & Hall & Hbuf & Hcl).
    set (T := c_ts x0) in *. set (tb := attach_buf st T) in *.
    assert (Hts : tb_ts tb = T) by (unfold tb, attach_buf; destruct (find_buf T (st_bufs st)); reflexivity).
    assert (Htold : tb_old tb = false).
    { unfold tb, attach_buf. destruct (find_buf T (st_bufs st)) as [b|] eqn:E; cbn [tb_old]; [|reflexivity].
      first [exact (Hold b E)|exact (Hold b eq_refl)]. }
    assert (Hsame : forall T', find_buf T' (put_buf tb (st_bufs st)) =
                               if ts_eqb T' T then Some tb else find_buf T' (st_bufs st)).
    { intros T'. destruct (ts_eqb T' T) eqn:E.
      - apply ts_eqb_eq in E; subst T'. rewrite <- Hts. apply find_put_buf_same.
      - apply ts_eqb_neq in E. apply find_put_buf_other. rewrite Hts. exact E. }
    assert (HX : exists X, proj T pub = X ++ tb_items tb).
    { unfold tb, attach_buf. destruct (find_buf T (st_bufs st)) as [b|] eqn:E; cbn [tb_items].
      - apply (Hbuf T b E). first [exact (Hold b E)|exact (Hold b eq_refl)].
      - exists (proj T pub). rewrite app_nil_r. reflexivity. }
    destruct (Hupd pub r Hlog Hr Hall HX (Hcl c x0 Ec)) as [Hc1 Hcache].
    assert (Hlive : forall off h, buf_live (find_buf T (st_bufs st)) off ->
                                  buf_live (Some tb) off /\
                                  tail h T (Some tb) off = tail h T (find_buf T (st_bufs st)) off).
    { intros off h Hl. destruct Hl as (b & Eb & Hob & Hoff). eapply live_same; [exact Eb|reflexivity| | |].
      - unfold tb, attach_buf. rewrite Eb. reflexivity.
      - unfold tb, attach_buf. rewrite Eb. reflexivity.
      - exists b. auto. }
    assert (Hx0 : forall T', has_sub_on T' x0 = false) by (intros; unfold has_sub_on; rewrite Es0; reflexivity).
    assert (Hx1 : forall T', has_sub_on T' x1 = ts_eqb T' T) by (intros; unfold has_sub_on; rewrite Es1, Et; reflexivity).
    constructor; cbn [st_store st_log st_base st_hi st_queue st_bufs st_clients st_cache st_epoch]; auto.
    - exists pub, r. split; [exact Hlog|]. split; [exact Hr|]. split; [exact Hall|]. split.
      + intros T' tb0 Hf Hold0. rewrite Hsame in Hf. destruct (ts_eqb T' T) eqn:E.
        * apply ts_eqb_eq in E; subst T'. injection Hf as <-. exact HX.
        * eapply Hbuf; eauto.
      + intros c' y Hf. change (hist_of _) with (hist_of st). destruct (N.eq_dec c' c) as [->|Hne].
        * rewrite find_put_client_same in Hf. injection Hf as <-. rewrite Et, Hsame. fold T.
          rewrite ts_eqb_refl. exact Hc1.
        * rewrite find_put_client_other in Hf by exact Hne. rewrite Hsame.
          destruct (ts_eqb (c_ts y) T) eqn:E; [|exact (Hcl c' y Hf)].
          apply ts_eqb_eq in E. pose proof (Hcl c' y Hf) as Hy. rewrite E in Hy.
          eapply (cinv_ext (hist_of st)); [reflexivity|reflexivity|reflexivity|reflexivity| |exact Hy].
          intros sby _ _ Hl. rewrite E. apply Hlive, Hl.
    - intros T'. rewrite Hsame. pose proof (count_put_client T' c x1 _ Gn) as H.
      rewrite Ec, Hx0, Hx1 in H. cbn [b2n] in H. specialize (Gr T'). destruct (ts_eqb T' T) eqn:E.
      + apply ts_eqb_eq in E; subst T'. cbn [b2n] in H. unfold tb, attach_buf.
        destruct (find_buf T (st_bufs st)); cbn [tb_refs]; lia.
      + cbn [b2n] in H. assert (count_subs T' (put_client c x1 (st_clients st)) = count_subs T' (st_clients st)) as -> by lia.
        exact Gr.
    - intros T' sn Hf. change (hist_of _) with (hist_of st). rewrite Hsame.
      destruct (Hcache T' sn Hf) as [Hf0|[-> Hc]].
      + pose proof (Gc T' sn Hf0) as Hc. destruct (ts_eqb T' T) eqn:E; [|exact Hc].
        apply ts_eqb_eq in E; subst T'.
        eapply (cacheinv_ext (hist_of st)); [reflexivity|reflexivity|reflexivity| |exact Hc].
        intros Hl. apply Hlive, Hl.
      + fold T. rewrite ts_eqb_refl. exact Hc.
    - apply nodup_put_client, Gn.
  Qed.

  (* the resumed subscription: the head of the topic buffer carries the client's index *)
  Lemma cinv_resume h ob0 tb r x0 pub X :
    incr (map item_idx (proj (c_ts x0) (h_log h))) ->
    h_log h = pub ++ h_queue h -> proj (c_ts x0) pub = X ++ tb_items tb -> tb_old tb = false ->
    (forall it, In it (proj (c_ts x0) (h_log h)) -> r < item_idx it) ->
    c_idx x0 <> 0 -> head_has_index (tb_items tb) (c_idx x0) = true ->
    cinv gf h ob0 r x0 ->
    cinv gf h (Some tb) r
         (Client (c_ts x0) (c_tok x0) (c_rpc x0) (c_view x0) (c_idx x0) (initial_handler (c_idx x0))
                 (Some (Sub Open [] (List.length (tb_items tb)))) (c_epoch x0)).
  Proof.
    intros Hinc Hlog HX Hold Hr Hne Hhead (Hi & Hep & Hz & Hs & Hk & _).
    apply head_index_spec in Hhead as (l & evs & Hitems).
    set (T := c_ts x0) in *. set (P := X ++ tb_items tb).
    assert (Hsplit : proj T (h_log h) = P ++ proj T (h_queue h)).
    { rewrite Hlog, proj_app, HX. reflexivity. }
    assert (HPne : P <> []).
    { unfold P. rewrite Hitems. intros H. apply app_eq_nil in H as [_ H]. apply app_eq_nil in H as [_ H]. discriminate. }
    assert (HPl : lastidx P 0 = c_idx x0).
    { unfold P. rewrite Hitems, app_assoc, lastidx_app_single. reflexivity. }
    pose proof Hinc as Hinc'. rewrite Hsplit in Hinc'.
    destruct (incr_last_bounds _ _ _ Hinc' HPne HPl) as [HPle HQgt].
    assert (Hih : initial_handler (c_idx x0) = HResume).
    { unfold initial_handler. apply N.eqb_neq in Hne. rewrite Hne. reflexivity. }
    assert (Htl : forall h', h_queue h' = h_queue h ->
                             tail h' T (Some tb) (List.length (tb_items tb)) = proj T (h_queue h)).
    { intros h' Eq. unfold tail. cbn [ob_items]. rewrite skipn_all, Eq. reflexivity. }
    unfold cinv, knows. cbn [c_idx c_epoch c_view c_h c_sub c_ts s_status]. fold T.
    split; [exact Hi|]. split; [exact Hep|]. split; [exact Hz|].
    split; [rewrite Hih; intros ? H; discriminate|]. split; [exact Hk|].
    split; [exists tb; repeat split; auto; lia|]. left. cbn [s_pre s_off c_h c_epoch c_ts c_view c_idx]. fold T.
    split; [reflexivity|]. split; [right; exact Hih|].
    destruct Hk as [Hk|[[He (A & B1 & B2 & D & s & Hc)]|[_ Hle]]]; [contradiction| |].
    2: { (* a view of a replaced store: its index is below every index of the log *)
      exfalso. assert (In (IEv (c_idx x0) evs) (proj T (h_log h))) as Hin.
      { rewrite Hsplit. unfold P. rewrite Hitems, !in_app_iff. left; right; right. left; reflexivity. }
      specialize (Hr _ Hin). cbn [item_idx] in Hr. lia. }
    split; [exact He|]. fold T in Hc. destruct Hc as [Hsp Hv Hle Hgt Hci Hss Hg].
    rewrite Hsplit in Hsp.
    destruct B1 as [|b1 B1'].
    - (* only the snapshot was applied: everything up to its index has been published *)
      cbn [lastidx map last] in Hci. cbn [app] in Hsp, Hle, Hv.
      rewrite Hci in HPle, HQgt. rewrite app_assoc in Hsp.
      destruct (split_unique s _ _ _ _ HPle HQgt Hle Hgt Hsp) as [EP EQ].
      exists (A ++ B2), [], [], D, s. split.
      + constructor; auto.
        * rewrite Hsplit, EP, EQ. reflexivity.
        * intros k. rewrite (Hv k). cbn [app]. rewrite app_nil_r. reflexivity.
        * cbn [app]. rewrite app_nil_r. exact Hle.
      + rewrite Htl by reflexivity. rewrite EQ. reflexivity.
    - (* some events were applied after the snapshot: the last one is the head of the buffer *)
      assert (HB : lastidx (A ++ b1 :: B1') 0 = c_idx x0).
      { rewrite lastidx_app_nonempty by discriminate. rewrite Hci. unfold lastidx. apply last_default.
        cbn [map]. discriminate. }
      assert (Hne' : A ++ b1 :: B1' <> []) by (destruct A; discriminate).
      pose proof Hinc' as Hinc2. rewrite Hsp in Hinc2. rewrite (app_assoc A) in Hinc2.
      destruct (incr_last_bounds _ _ _ Hinc2 Hne' HB) as [HAle HRgt].
      rewrite (app_assoc A) in Hsp.
      destruct (split_unique (c_idx x0) _ _ _ _ HPle HQgt HAle HRgt Hsp) as [EP EQ].
      exists A, (b1 :: B1'), B2, D, s. split.
      + constructor; auto. rewrite Hsplit, EP, EQ, <- app_assoc. reflexivity.
      + rewrite Htl by reflexivity. exact EQ.
  Qed.

  (* the subscription that starts with a snapshot (fresh or cached) *)
  Lemma cinv_snapshot h ob0 tb r x0 sn body A B2 D s :
    tb_old tb = false -> (sn_off sn <= List.length (tb_items tb))%nat ->
    sn_items sn = body ++ [IEos s] ->
    snapok gf h (c_ts x0) (Some tb) [] body (sn_off sn) A B2 D s ->
    cinv gf h ob0 r x0 ->
    cinv gf h (Some tb) r
         (Client (c_ts x0) (c_tok x0) (c_rpc x0) (c_view x0) (c_idx x0) (initial_handler (c_idx x0))
                 (Some (Sub Open (if N.eqb (c_idx x0) 0 then sn_items sn else INstf :: sn_items sn) (sn_off sn)))
                 (c_epoch x0)).
  Proof.
    intros Hold Hoff Hit Hso (Hi & Hep & Hz & Hs & Hk & _).
    unfold cinv, knows. cbn [c_idx c_epoch c_view c_h c_sub c_ts s_status].
    split; [exact Hi|]. split; [exact Hep|]. split; [exact Hz|]. split.
    { unfold initial_handler. destruct (N.eqb (c_idx x0) 0) eqn:E; [|intros ? H; discriminate].
      intros _ _. apply N.eqb_eq, E. }
    split; [exact Hk|]. split; [exists tb; auto|]. right.
    exists [], body, A, B2, D, s. cbn [c_h s_pre s_off c_ts]. split; [|exact Hso].
    unfold initial_handler. destruct (N.eqb (c_idx x0) 0); rewrite Hit; [left|right]; auto.
  Qed.

  (* eventSnapshot.appendAndSplice on the store as it is now *)
  Lemma build_snapok st T qidx pub X tb :
    ginv gf st -> st_log st = pub ++ st_queue st -> proj T pub = X ++ tb_items tb ->
    Forall (fun b => touches T b = true -> b_idx b <= qidx) (st_log st) -> qidx <= st_hi st ->
    (gf = true -> st_queue st = []) ->
    let s := if N.eqb qidx 0 then 1 else qidx in
    build_snap T (st_store st) qidx (tb_items tb) =
      Snap T (snap_events T (st_store st) qidx ++ [IEos s]) (List.length (tb_items tb)) /\
    snapok gf (hist_of st) T (Some tb) [] (snap_events T (st_store st) qidx) (List.length (tb_items tb))
           (proj T pub) (proj T (st_queue st)) [] s.
  Proof.
    intros G Hlog HX Hq Hqhi Hgap s. destruct G as [Gnd Gst Glok Ginc Ghi _ _ _ _].
    assert (Hqs : qidx <= s) by (unfold s; destruct (N.eqb qidx 0) eqn:E; [apply N.eqb_eq in E|]; lia).
    assert (Hs1 : 1 <= s <= st_hi st).
    { unfold s. destruct (N.eqb qidx 0) eqn:E; [lia|]. apply N.eqb_neq in E. lia. }
    assert (Hle : Forall (fun it => item_idx it <= s) (proj T (st_log st))).
    { eapply Forall_impl; [|apply proj_le; exact Hq]. cbn. intros; lia. }
    split.
    - unfold build_snap. fold s. f_equal. apply splice_len. intros it Hit.
      rewrite Forall_forall in Hle. apply Hle. rewrite Hlog, proj_app, HX, !in_app_iff. left; right; exact Hit.
    - destruct (snap_events_spec T (st_store st) qidx) as [Hev Hiev].
      constructor; cbn [hist_of h_log h_base h_hi h_queue]; auto.
      + rewrite Hlog, proj_app, app_nil_r. reflexivity.
      + intros k. cbn [app]. rewrite Hev, aget_apply_rows by exact Gnd.
        destruct (matches T k) eqn:Ek; [|reflexivity].
        rewrite (Gst k), (aget_all_evs_proj T) by assumption. rewrite Hlog, proj_app. reflexivity.
      + unfold tail. cbn [ob_items hist_of h_queue]. rewrite skipn_all, app_nil_r. reflexivity.
      + rewrite <- proj_app, <- Hlog. exact Hle.
      + intros Hgf. rewrite (Hgap Hgf). reflexivity.
  Qed.

  Lemma ginv_sub_core st c x0 qidx :
    ginv gf st -> find_client c (st_clients st) = Some x0 -> c_sub x0 = None ->
    sub_env_ok st (c_ts x0) (c_idx x0) qidx ->
    ginv gf (fst (do_subscribe_core st c x0 qidx)).
  Proof.
    intros G Ec Es0 (Hq & Hold & Hgap). unfold do_subscribe_core.
    set (T := c_ts x0) in *. set (idx := c_idx x0) in *.
    assert (Hpath : sub_path st T idx <> PErr ->
                    sub_path st T idx =
                    (if negb (N.eqb idx 0) && head_has_index (buf_items T (st_bufs st)) idx then PResume
                     else match find_snap T (st_cache st) with Some _ => PCache | None => PBuild end) /\
                    Forall (fun b => touches T b = true -> b_idx b <= qidx) (st_log st) /\ qidx <= st_hi st).
    { intros Hne. destruct (sub_path_not_err st T idx Hne) as [Hp Hw]. split; [exact Hp|].
      destruct (snd T); [exact Hq|]. rewrite Hw in Hq by reflexivity. exact Hq. }
    assert (Hinc : incr (map item_idx (proj T (st_log st)))) by (apply incr_proj, G).
    destruct (sub_path st T idx) eqn:Ep.
    - (* unsupported wildcard: only the handler is re-initialised *)
      cbn [fst]. eapply ginv_put; eauto.
      + intros T'. unfold has_sub_on. cbn [c_sub]. rewrite Es0. reflexivity.
      + intros r _ _ (Hi & Hep & Hz & Hs & Hk & _). unfold cinv, knows.
        cbn [c_idx c_epoch c_view c_h c_sub c_ts]. fold idx.
        split; [exact Hi|]. split; [exact Hep|]. split; [exact Hz|]. split; [|split; [exact Hk|exact I]].
        unfold initial_handler. destruct (N.eqb idx 0) eqn:E; [|intros ? H; discriminate].
        intros _ _. apply N.eqb_eq, E.
    - (* resume *)
      destruct Hpath as (Hp & _ & _); [discriminate|].
      destruct (negb (N.eqb idx 0) && head_has_index (buf_items T (st_bufs st)) idx) eqn:Er;
        [|destruct (find_snap T (st_cache st)); discriminate].
      apply andb_true_iff in Er as [Er1 Er2]. apply negb_true_iff, N.eqb_neq in Er1.
      cbn [fst]. change (match find_buf T (st_bufs st) with
                         | Some b => TBuf T (S (tb_refs b)) (tb_items b) (tb_old b)
                         | None => TBuf T 1 [] false
                         end) with (attach_buf st T).
      eapply ginv_attach with (x0 := x0); eauto; [reflexivity|].
      intros pub r Hlog Hr Hall (X & HX) Hc. fold T in HX. split.
      + eapply (cinv_resume (hist_of st)); eauto; fold T.
        * unfold attach_buf. destruct (find_buf T (st_bufs st)) as [b|] eqn:E; cbn [tb_old]; auto.
        * intros it Hit. apply proj_item_batch in Hit as (b & Hb & ->).
          rewrite Forall_forall in Hall. specialize (Hall b Hb). lia.
        * rewrite attach_items. exact Er2.
      + intros T' sn Hf. left; exact Hf.
    - (* cached snapshot *)
      destruct Hpath as (Hp & _ & _); [discriminate|].
      destruct (negb (N.eqb idx 0) && head_has_index (buf_items T (st_bufs st)) idx) eqn:Er; [discriminate|].
      destruct (find_snap T (st_cache st)) as [sn|] eqn:Ef; [|discriminate].
      cbn [fst]. change (match find_buf T (st_bufs st) with
                         | Some b => TBuf T (S (tb_refs b)) (tb_items b) (tb_old b)
                         | None => TBuf T 1 [] false
                         end) with (attach_buf st T).
      eapply ginv_attach with (x0 := x0); eauto; [reflexivity|].
      intros pub r Hlog Hr Hall (X & HX) Hc. fold T in HX. split; [|intros T' sn' Hf; left; exact Hf].
      destruct G as [_ _ _ _ _ _ _ Gc _]. destruct (Gc T sn Ef) as (Hl & body & A & B2 & D & s & Hit & Hso).
      destruct Hl as (b & Eb & Hob & Hoff).
      assert (Hit' : tb_items (attach_buf st T) = tb_items b) by (unfold attach_buf; rewrite Eb; reflexivity).
      eapply cinv_snapshot; eauto; fold T.
      * unfold attach_buf. rewrite Eb. exact Hob.
      * rewrite Hit'. exact Hoff.
      * eapply (snapok_ext (hist_of st)); [reflexivity|reflexivity|reflexivity| |exact Hso].
        unfold tail. rewrite Eb. cbn [ob_items]. rewrite Hit'. reflexivity.
    - (* fresh snapshot *)
      destruct Hpath as (Hp & Hqle & Hqhi); [discriminate|].
      destruct (negb (N.eqb idx 0) && head_has_index (buf_items T (st_bufs st)) idx) eqn:Er; [discriminate|].
      destruct (find_snap T (st_cache st)) as [sn|] eqn:Ef; [discriminate|].
      cbn [fst]. change (match find_buf T (st_bufs st) with
                         | Some b => TBuf T (S (tb_refs b)) (tb_items b) (tb_old b)
                         | None => TBuf T 1 [] false
                         end) with (attach_buf st T).
      eapply ginv_attach with (x0 := x0); eauto; [reflexivity|].
      intros pub r Hlog Hr Hall (X & HX) Hc. fold T in HX.
      assert (Hgap' : gf = true -> st_queue st = []) by (intros Hgf; apply Hgap; [exact Hgf|reflexivity]).
      destruct (build_snapok st T qidx pub X (attach_buf st T) G Hlog HX Hqle Hqhi Hgap') as [Hb Hso].
      assert (Htold : tb_old (attach_buf st T) = false).
      { unfold attach_buf. destruct (find_buf T (st_bufs st)) as [b|] eqn:E; cbn [tb_old]; auto. }
      split.
      + rewrite Hb. eapply cinv_snapshot; eauto. cbn [sn_items]. reflexivity.
      + intros T' sn' Hf. rewrite Hb in Hf. destruct (st_cache_on st); [|left; exact Hf].
        destruct (ts_eqb T' T) eqn:E.
        * apply ts_eqb_eq in E; subst T'. right. split; [reflexivity|].
          rewrite (find_put_snap_same (Snap T _ _)) in Hf. injection Hf as <-.
          split; [exists (attach_buf st T); auto|]. eexists _, _, _, _, _. split; [reflexivity|exact Hso].
        * apply ts_eqb_neq in E. left. rewrite find_put_snap_other in Hf by exact E. exact Hf.
  Qed.

  Lemma release_hist T st :
    hist_of (release T st) = hist_of st /\ st_clients (release T st) = st_clients st /\
    st_cache_on (release T st) = st_cache_on st /\ st_store (release T st) = st_store st.
  Proof.
    unfold release. destruct (find_buf T (st_bufs st)) as [b|]; [|auto].
    destruct (tb_refs b) as [|[|n]]; auto.
  Qed.

  Lemma unsub_hist st c : hist_of (fst (do_unsub st c)) = hist_of st.
  Proof.
    unfold do_unsub. destruct (find_client c (st_clients st)) as [x|]; [|reflexivity].
    destruct (c_sub x); [|reflexivity]. cbn [fst]. destruct (release_hist (c_ts x)
      (with_clients st (put_client c (drop_sub x) (st_clients st)))) as [H _]. rewrite H. reflexivity.
  Qed.

  Lemma unsub_client st c x :
    find_client c (st_clients st) = Some x ->
    find_client c (st_clients (fst (do_unsub st c))) = Some (drop_sub x).
  Proof.
    intros Ec. unfold do_unsub. rewrite Ec. destruct (c_sub x) eqn:Es; cbn [fst].
    - destruct (release_hist (c_ts x) (with_clients st (put_client c (drop_sub x) (st_clients st)))) as (_ & H & _).
      rewrite H. cbn [with_clients st_clients]. apply find_put_client_same.
    - rewrite Ec. f_equal. destruct x; cbn in *; subst; reflexivity.
  Qed.

  Lemma forallb_touches T q log :
    forallb (fun b => negb (touches T b) || N.leb (b_idx b) q) log = true ->
    Forall (fun b => touches T b = true -> b_idx b <= q) log.
  Proof.
    intros H. rewrite forallb_forall in H. rewrite Forall_forall. intros b Hb Ht.
    specialize (H b Hb). rewrite Ht in H. cbn in H. apply N.leb_le, H.
  Qed.

  Lemma sub_core_clients st c x0 qidx :
    fst (do_subscribe_core (with_clients st (put_client c x0 (st_clients st))) c x0 qidx)
    = fst (do_subscribe_core st c x0 qidx).
  Proof.
    unfold do_subscribe_core, sub_path.
    cbn [with_clients st_store st_queue st_bufs st_cache st_clients st_cache_on st_hi st_log st_base st_epoch].
    destruct (snd (c_ts x0)); [|destruct (wild_ok (fst (c_ts x0))); [|cbn [fst]; rewrite put_put_client; reflexivity]].
    all: destruct (negb (N.eqb (c_idx x0) 0) && head_has_index (buf_items (c_ts x0) (st_bufs st)) (c_idx x0));
      [cbn [fst]; rewrite put_put_client; reflexivity|].
    all: destruct (find_snap (c_ts x0) (st_cache st)); cbn [fst]; rewrite put_put_client; reflexivity.
  Qed.

  Lemma ginv_subscribe st c T tok rpc qidx :
    ginv gf st ->
    step_ok st (LSubscribe c T tok rpc qidx) = true ->
    restore_ok st (LSubscribe c T tok rpc qidx) = true ->
    (gf = true -> gapfree_ok st (LSubscribe c T tok rpc qidx) = true) ->
    ginv gf (fst (do_subscribe st c T tok rpc qidx)).
  Proof.
    intros G Hok Hres Hgap. unfold do_subscribe.
    cbn [step_ok restore_ok gapfree_ok] in Hok, Hres, Hgap. unfold sub_ts, sub_idx, pre_sub_state in *.
    destruct (find_client c (st_clients st)) as [x|] eqn:Ec.
    - pose proof (ginv_unsub st c G) as G1. pose proof (unsub_hist st c) as Hh.
      set (st1 := fst (do_unsub st c)) in *.
      assert (Hlog : st_log st1 = st_log st) by (injection Hh; auto).
      assert (Hhi : st_hi st1 = st_hi st) by (injection Hh; auto).
      assert (Hq : st_queue st1 = st_queue st) by (injection Hh; auto).
      apply ginv_sub_core; auto.
      + apply unsub_client, Ec.
      + cbn [drop_sub c_ts c_idx]. split; [|split].
        * rewrite Hlog, Hhi. destruct (snd (c_ts x)); [|destruct (wild_ok (fst (c_ts x))); [|exact I]].
          all: apply andb_true_iff in Hok as [H1 H2]; split; [apply forallb_touches, H1|apply N.leb_le, H2].
        * intros b Eb. rewrite Eb in Hres. apply negb_true_iff, Hres.
        * intros Hgf Hp. specialize (Hgap Hgf). rewrite Hp in Hgap. rewrite Hq.
          destruct (st_queue st); [reflexivity|discriminate].
    - set (x0 := Client T tok rpc [] 0 (HSnap []) None (st_epoch st)).
      rewrite <- (sub_core_clients st c x0 qidx).
      assert (Hu : fst (do_unsub st c) = st) by (unfold do_unsub; rewrite Ec; reflexivity).
      rewrite Hu in *.
      apply ginv_sub_core.
      + apply ginv_add_idle; assumption.
      + cbn [with_clients st_clients]. apply find_put_client_same.
      + reflexivity.
      + cbn [x0 c_ts c_idx]. split; [|split].
        * cbn [with_clients st_log st_hi]. destruct (snd T); [|destruct (wild_ok (fst T)); [|exact I]].
          all: apply andb_true_iff in Hok as [H1 H2]; split; [apply forallb_touches, H1|apply N.leb_le, H2].
        * cbn [with_clients st_bufs]. intros b Eb. rewrite Eb in Hres. apply negb_true_iff, Hres.
        * intros Hgf Hp. specialize (Hgap Hgf).
          change (sub_path (with_clients st (put_client c x0 (st_clients st))) T 0) with (sub_path st T 0) in Hp.
          rewrite Hp in Hgap. cbn [with_clients st_queue]. destruct (st_queue st); [reflexivity|discriminate].
  Qed.

  Theorem ginv_step st l :
    ginv gf st ->
    step_ok st l = true -> events_ok st l = true -> restore_ok st l = true ->
    (gf = true -> gapfree_ok st l = true) ->
    ginv gf (fst (step st l)).
  Proof.
    intros G Hok Hev Hres Hgap. destruct l as [b| |c T tok rpc qidx|c|c|rows hi|T]; cbn [step fst].
    - apply ginv_commit; [exact G|exact Hok|]. cbn [events_ok] in Hev. destruct (b_silent b); [reflexivity|discriminate].
    - apply ginv_publish, G.
    - apply ginv_subscribe; assumption.
    - apply ginv_next, G.
    - apply ginv_unsub, G.
    - cbn [restore_ok step_ok] in *. apply ginv_restore; [exact G| |exact Hok].
      destruct (st_queue st); [reflexivity|discriminate].
    - apply ginv_evict, G.
  Qed.

  (* the four assumptions along a whole schedule *)
  Definition sched_ok (st : state) (ls : list label) : Prop :=
    valid_from st ls = true /\ all_from events_ok st ls = true /\ all_from restore_ok st ls = true /\
    (gf = true -> all_from gapfree_ok st ls = true).

  Lemma sched_ok_cons st l ls :
    sched_ok st (l :: ls) ->
    (step_ok st l = true /\ events_ok st l = true /\ restore_ok st l = true /\
     (gf = true -> gapfree_ok st l = true)) /\ sched_ok (fst (step st l)) ls.
  Proof.
    intros (H1 & H2 & H3 & H4). cbn [valid_from all_from] in *.
    apply andb_true_iff in H1 as [H1a H1b]. apply andb_true_iff in H2 as [H2a H2b].
    apply andb_true_iff in H3 as [H3a H3b].
    split; [|split; [exact H1b|split; [exact H2b|split; [exact H3b|]]]].
    - repeat split; auto. intros Hgf. specialize (H4 Hgf). apply andb_true_iff in H4. apply H4.
    - intros Hgf. specialize (H4 Hgf). apply andb_true_iff in H4. apply H4.
  Qed.

  Theorem ginv_run st ls : ginv gf st -> sched_ok st ls -> ginv gf (run_from st ls).
  Proof.
    revert st. induction ls as [|l ls IH]; intros st G Hs; [exact G|].
    apply sched_ok_cons in Hs as [(H1 & H2 & H3 & H4) Hs']. cbn [run_from fold_left].
    apply IH; [|exact Hs']. apply ginv_step; assumption.
  Qed.
End Preserve.
