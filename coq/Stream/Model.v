(* C11 — model of consul's event publisher (agent/consul/stream), the commit/publish hand-off of
   agent/consul/state/memdb.go and the client-side materializer (agent/submatview), as an
   explicit-schedule machine.  No proofs in this file.

   One [step] per schedule label:
     LCommit b    txn.Commit: the store changes, the batch of events computed from the change set is
                  sent to publishCh (EventPublisher.Publish) AFTER the commit — it is only queued
     LPublish     one iteration of EventPublisher.Run: publishBatch on the oldest queued batch (dropped
                  when the state store was replaced since it was queued)
     LSubscribe   Materializer.Run: Unsubscribe the previous subscription, initialHandler(index),
                  EventPublisher.Subscribe with the materializer's index (resume / cached snapshot /
                  fresh snapshot spliced onto the topic buffer)
     LNext        Subscription.Next (non blocking; batches strictly older than the subscription's snapshot
                  are skipped) + the materializer's handler on the delivered event
     LUnsub       Subscription.Unsubscribe (freeBuf)
     LRestore     fsm.Restore: new store, RefreshAllTopics (caches and topic buffers dropped, every
                  subscription force-closed, publisher generation incremented)
     LEvict       the snapshot-cache TTL timer

   Fields marked "ghost" do not influence any other field or any output; they exist so that the
   theorems can talk about the history (which commits happened, in which store incarnation). *)
From Verif Require Import Base.Prelude.

(* ------------------------------------------------------------------ keyed rows *)

Definition key := (N * N * N)%type.           (* topic, subject, instance id *)
Definition k_topic (k : key) : N := fst (fst k).
Definition k_subj (k : key) : N := snd (fst k).
Definition k_id (k : key) : N := snd k.

Definition key_eqb (a b : key) : bool :=
  N.eqb (k_topic a) (k_topic b) && N.eqb (k_subj a) (k_subj b) && N.eqb (k_id a) (k_id b).

Definition key_ltb (a b : key) : bool :=
  if N.ltb (k_topic a) (k_topic b) then true
  else if N.ltb (k_topic b) (k_topic a) then false
  else if N.ltb (k_subj a) (k_subj b) then true
  else if N.ltb (k_subj b) (k_subj a) then false
  else N.ltb (k_id a) (k_id b).

(* rows kept sorted by key, one row per key *)
Definition amap := list (key * N).

Fixpoint aget (k : key) (m : amap) : option N :=
  match m with
  | [] => None
  | (k', v) :: r => if key_eqb k k' then Some v else aget k r
  end.

Definition adel (k : key) (m : amap) : amap :=
  filter (fun kv => negb (key_eqb k (fst kv))) m.

Fixpoint ains (k : key) (v : N) (m : amap) : amap :=
  match m with
  | [] => [(k, v)]
  | (k', v') :: r => if key_ltb k k' then (k, v) :: m else (k', v') :: ains k v r
  end.

Definition aset (k : key) (v : N) (m : amap) : amap := ains k v (adel k m).

(* ------------------------------------------------------------------ events *)

(* Register / upsert (Some v) or Deregister / delete (None) of one row *)
Record ev := Ev { e_key : key; e_val : option N }.

Definition apply1 (m : amap) (e : ev) : amap :=
  match e_val e with
  | Some v => aset (e_key e) v m
  | None => adel (e_key e) m
  end.

(* HealthView.Update / ConfigEntry(List)View.Update, and the effect of a commit on the rows *)
Definition apply (evs : list ev) (m : amap) : amap := fold_left apply1 evs m.

(* topic/subject of a buffer or subscription; subject None is stream.SubjectWildcard *)
Definition ts := (N * option N)%type.

Definition ts_eqb (a b : ts) : bool :=
  N.eqb (fst a) (fst b) && option_eqb N.eqb (snd a) (snd b).

(* fsm.registerStreamSnapshotHandlers: the two service-health topics (0, 1) are registered without
   wildcard support, the config-entry topics (2...) with it *)
Definition wild_ok (t : N) : bool := N.leb 2 t.

(* ServiceHealthSnapshot appends one buffer item per row; configEntrySnapshot one item with all rows *)
Definition per_row (t : N) : bool := N.ltb t 2.

(* publishEvent: an event goes to the buffer of its own (topic, subject) and to the wildcard buffer *)
Definition matches (T : ts) (k : key) : bool :=
  N.eqb (k_topic k) (fst T) &&
  match snd T with None => true | Some s => N.eqb (k_subj k) s end.

Definition evs_for (T : ts) (evs : list ev) : list ev :=
  filter (fun e => matches T (e_key e)) evs.

(* one raft apply: index, the events computed from the change set (ServiceHealthEventsFromChanges,
   ConfigEntryEventsFromChanges) and the secret IDs of the closeSubscription event
   (aclChangeUnsubscribeEvent) *)
Record batch := Batch { b_idx : N; b_evs : list ev; b_close : list N }.

Inductive item :=
| IEv (idx : N) (evs : list ev)
| IEos (idx : N)                 (* endOfSnapshot *)
| INstf.                         (* newSnapshotToFollow *)

(* ------------------------------------------------------------------ publisher state *)

Record tbuf := TBuf {
  tb_ts : ts;
  tb_refs : nat;
  tb_items : list item;          (* what was appended since the buffer was created *)
  tb_id : N                      (* identity of the *topicBuffer object (freeBuf compares pointers) *)
}.

(* a cached eventSnapshot: its own items, then the topic buffer from offset sn_off *)
Record snap := Snap { sn_ts : ts; sn_items : list item; sn_off : nat }.

Inductive status := Open | ForceClosed | AclClosed.

(* a Subscription: currentItem = first the private items, then the topic buffer s_buf from s_off;
   s_snap = Subscription.snapshotIndex *)
Record sub := Sub { s_status : status; s_pre : list item; s_off : nat; s_buf : N; s_snap : N }.

(* submatview/handler.go *)
Inductive handler := HSnap (acc : list ev) | HStream | HResume.

Record client := Client {
  c_ts : ts;
  c_tok : N;
  c_rpc : bool;                  (* RPC materializer: resets its view when the server aborts the stream *)
  c_view : amap;
  c_idx : N;                     (* materializer.index *)
  c_h : handler;
  c_sub : option sub;
  c_epoch : N                    (* ghost: store incarnation of the last snapshot applied *)
}.

Record state := State {
  st_store : amap;
  st_queue : list (N * batch);   (* publishCh: publishBatch{generation, events} *)
  st_bufs : list tbuf;           (* topicBuffers *)
  st_cache : list snap;          (* snapCache *)
  st_clients : list (N * client);
  st_cache_on : bool;            (* snapCacheTTL <> 0 *)
  st_epoch : N;                  (* EventPublisher.generation = number of restores *)
  st_nbuf : N;                   (* number of topicBuffer objects created so far (next identity) *)
  st_hi : N;                     (* ghost: largest raft index used so far *)
  st_log : list batch;           (* ghost: commits into the current store incarnation, oldest first *)
  st_base : amap                 (* ghost: rows of the current incarnation when it was installed *)
}.

Definition init (cache_on : bool) : state :=
  State [] [] [] [] [] cache_on 0 0 1 [] [].

Inductive label :=
| LCommit (b : batch)
| LPublish
| LSubscribe (c : N) (T : ts) (tok : N) (rpc : bool) (qidx : N)
| LNext (c : N)
| LUnsub (c : N)
| LRestore (rows : amap) (hi : N)             (* hi: the raft index after installing the snapshot *)
| LEvict (T : ts).

Inductive out :=
| ONone
| OPub (did : bool)
| OSubErr
| OSubOk
| ODeliver (it : item)
| OClosed (s : status)
| OBlock
| ONoSub.

(* ------------------------------------------------------------------ small lookups *)

Fixpoint find_client (c : N) (l : list (N * client)) : option client :=
  match l with
  | [] => None
  | (c', x) :: r => if N.eqb c c' then Some x else find_client c r
  end.

Fixpoint put_client (c : N) (x : client) (l : list (N * client)) : list (N * client) :=
  match l with
  | [] => [(c, x)]
  | (c', y) :: r => if N.eqb c c' then (c, x) :: r else (c', y) :: put_client c x r
  end.

Fixpoint find_buf (T : ts) (l : list tbuf) : option tbuf :=
  match l with
  | [] => None
  | b :: r => if ts_eqb T (tb_ts b) then Some b else find_buf T r
  end.

Fixpoint put_buf (b : tbuf) (l : list tbuf) : list tbuf :=
  match l with
  | [] => [b]
  | b' :: r => if ts_eqb (tb_ts b) (tb_ts b') then b :: r else b' :: put_buf b r
  end.

Definition del_buf (T : ts) (l : list tbuf) : list tbuf :=
  filter (fun b => negb (ts_eqb T (tb_ts b))) l.

Fixpoint find_snap (T : ts) (l : list snap) : option snap :=
  match l with
  | [] => None
  | s :: r => if ts_eqb T (sn_ts s) then Some s else find_snap T r
  end.

Definition del_snap (T : ts) (l : list snap) : list snap :=
  filter (fun s => negb (ts_eqb T (sn_ts s))) l.

Definition put_snap (s : snap) (l : list snap) : list snap := s :: del_snap (sn_ts s) l.

Definition buf_items (T : ts) (l : list tbuf) : list item :=
  match find_buf T l with Some b => tb_items b | None => [] end.

(* ------------------------------------------------------------------ commit / publish *)

(* txn.Commit, then EventPublisher.Publish: the batch is queued with the publisher's generation *)
Definition do_commit (st : state) (b : batch) : state :=
  State (apply (b_evs b) (st_store st)) (st_queue st ++ [(st_epoch st, b)]) (st_bufs st) (st_cache st)
        (st_clients st) (st_cache_on st) (st_epoch st) (st_nbuf st)
        (b_idx b) (st_log st ++ [b]) (st_base st).

(* closeSubscriptionsForTokens -> Subscription.closeACLChanged (CAS from open) *)
Definition close_sub_acl (toks : list N) (c : client) : client :=
  match c_sub c with
  | Some s =>
      match s_status s with
      | Open =>
          if existsb (N.eqb (c_tok c)) toks
          then Client (c_ts c) (c_tok c) (c_rpc c) (c_view c) (c_idx c) (c_h c)
                      (Some (Sub AclClosed (s_pre s) (s_off s) (s_buf s) (s_snap s))) (c_epoch c)
          else c
      | _ => c
      end
  | None => c
  end.

(* bufferForPublishing(groupKey).Append(events) for every existing buffer with a non-empty group *)
Definition publish_buf (b : batch) (tb : tbuf) : tbuf :=
  match evs_for (tb_ts tb) (b_evs b) with
  | [] => tb
  | evs => TBuf (tb_ts tb) (tb_refs tb) (tb_items tb ++ [IEv (b_idx b) evs]) (tb_id tb)
  end.

(* publishBatch: a batch queued under an older generation is dropped *)
Definition do_publish (st : state) : state * out :=
  match st_queue st with
  | [] => (st, OPub false)
  | (g, b) :: q =>
      if N.eqb g (st_epoch st) then
        (State (st_store st) q (map (publish_buf b) (st_bufs st)) (st_cache st)
               (map (fun cx => (fst cx, close_sub_acl (b_close b) (snd cx))) (st_clients st))
               (st_cache_on st) (st_epoch st) (st_nbuf st) (st_hi st) (st_log st) (st_base st),
         OPub true)
      else
        (State (st_store st) q (st_bufs st) (st_cache st) (st_clients st)
               (st_cache_on st) (st_epoch st) (st_nbuf st) (st_hi st) (st_log st) (st_base st),
         OPub true)
  end.

(* ------------------------------------------------------------------ subscribe *)

(* freeBuf of a subscription attached to the buffer object [id]: refs--, and when it reaches zero the
   buffer and the cached snapshot are dropped — only if the map still holds that object (a buffer
   dropped by RefreshAllTopics is no longer in the map; its counter no longer matters) *)
Definition release (T : ts) (id : N) (st : state) : state :=
  match find_buf T (st_bufs st) with
  | None => st
  | Some b =>
      if N.eqb (tb_id b) id then
        match tb_refs b with
        | S (S n) =>
            State (st_store st) (st_queue st)
                  (put_buf (TBuf T (S n) (tb_items b) (tb_id b)) (st_bufs st)) (st_cache st)
                  (st_clients st) (st_cache_on st) (st_epoch st) (st_nbuf st) (st_hi st) (st_log st) (st_base st)
        | _ =>
            State (st_store st) (st_queue st) (del_buf T (st_bufs st)) (del_snap T (st_cache st))
                  (st_clients st) (st_cache_on st) (st_epoch st) (st_nbuf st) (st_hi st) (st_log st) (st_base st)
        end
      else st
  end.

Definition rows_of (T : ts) (m : amap) : amap := filter (fun kv => matches T (fst kv)) m.

(* the SnapshotFunc of the topic: Register/Upsert events for the rows of the subject, all at idx *)
Definition snap_events (T : ts) (m : amap) (idx : N) : list item :=
  let rows := rows_of T m in
  if per_row (fst T) then map (fun kv => IEv idx [Ev (fst kv) (Some (snd kv))]) rows
  else match rows with
       | [] => []
       | _ => [IEv idx (map (fun kv => Ev (fst kv) (Some (snd kv))) rows)]
       end.

Definition last_item (l : list item) : option item := last (map Some l) None.

(* bufferItem.HasEventIndex on the head of the topic buffer *)
Definition head_has_index (items : list item) (i : N) : bool :=
  match last_item items with
  | Some (IEv j _) => N.eqb i j
  | _ => false
  end.

(* spliceFromTopicBuffer started at the head of the topic buffer (Subscribe holds the lock, so the
   head has no successor): the head itself if its index is larger than the snapshot's, else what follows *)
Definition splice_off (items : list item) (idx : N) : nat :=
  match last_item items with
  | Some (IEv j _) => if N.ltb idx j then Nat.pred (List.length items) else List.length items
  | _ => List.length items
  end.

(* eventSnapshot.appendAndSplice *)
Definition build_snap (T : ts) (store : amap) (qidx : N) (items : list item) : snap :=
  let idx := if N.eqb qidx 0 then 1%N else qidx in
  Snap T (snap_events T store qidx ++ [IEos idx]) (splice_off items idx).

Inductive path := PErr | PResume | PCache | PBuild.

(* which way EventPublisher.Subscribe goes for a request (T, index) *)
Definition sub_path (st : state) (T : ts) (idx : N) : path :=
  match snd T with
  | None => if wild_ok (fst T) then
              if negb (N.eqb idx 0) && head_has_index (buf_items T (st_bufs st)) idx then PResume
              else match find_snap T (st_cache st) with Some _ => PCache | None => PBuild end
            else PErr
  | Some _ =>
      if negb (N.eqb idx 0) && head_has_index (buf_items T (st_bufs st)) idx then PResume
      else match find_snap T (st_cache st) with Some _ => PCache | None => PBuild end
  end.

(* submatview.initialHandler *)
Definition initial_handler (idx : N) : handler := if N.eqb idx 0 then HSnap [] else HResume.

Definition with_clients (st : state) (cl : list (N * client)) : state :=
  State (st_store st) (st_queue st) (st_bufs st) (st_cache st) cl (st_cache_on st)
        (st_epoch st) (st_nbuf st) (st_hi st) (st_log st) (st_base st).

(* bufferForSubscription; refs++ (a new topicBuffer object gets the next identity) *)
Definition attach_buf (st : state) (T : ts) : tbuf :=
  match find_buf T (st_bufs st) with
  | Some b => TBuf T (S (tb_refs b)) (tb_items b) (tb_id b)
  | None => TBuf T 1 [] (st_nbuf st)
  end.

Definition next_nbuf (st : state) (T : ts) : N :=
  match find_buf T (st_bufs st) with Some _ => st_nbuf st | None => N.succ (st_nbuf st) end.

(* EventPublisher.Subscribe for client x (whose previous subscription is already gone) *)
Definition do_subscribe_core (st : state) (c : N) (x : client) (qidx : N) : state * out :=
  let T := c_ts x in
  let idx := c_idx x in
  let x0 := Client T (c_tok x) (c_rpc x) (c_view x) idx (initial_handler idx) None (c_epoch x) in
  match sub_path st T idx with
  | PErr => (with_clients st (put_client c x0 (st_clients st)), OSubErr)
  | p =>
      let tb := attach_buf st T in
      let bufs := put_buf tb (st_bufs st) in
      let items := tb_items tb in
      match p with
      | PResume =>
          let x1 := Client T (c_tok x) (c_rpc x) (c_view x) idx (initial_handler idx)
                           (Some (Sub Open [] (List.length items) (tb_id tb) 0)) (c_epoch x) in
          (State (st_store st) (st_queue st) bufs (st_cache st) (put_client c x1 (st_clients st))
                 (st_cache_on st) (st_epoch st) (next_nbuf st T) (st_hi st) (st_log st) (st_base st), OSubOk)
      | _ =>
          let '(sn, cache) :=
            match find_snap T (st_cache st) with
            | Some sn => (sn, st_cache st)
            | None =>
                let sn := build_snap T (st_store st) qidx items in
                (sn, if st_cache_on st then put_snap sn (st_cache st) else st_cache st)
            end in
          let pre := if N.eqb idx 0 then sn_items sn else INstf :: sn_items sn in
          let x1 := Client T (c_tok x) (c_rpc x) (c_view x) idx (initial_handler idx)
                           (Some (Sub Open pre (sn_off sn) (tb_id tb) 0)) (c_epoch x) in
          (State (st_store st) (st_queue st) bufs cache (put_client c x1 (st_clients st))
                 (st_cache_on st) (st_epoch st) (next_nbuf st T) (st_hi st) (st_log st) (st_base st), OSubOk)
      end
  end.

Definition drop_sub (x : client) : client :=
  Client (c_ts x) (c_tok x) (c_rpc x) (c_view x) (c_idx x) (c_h x) None (c_epoch x).

(* Subscription.Unsubscribe of client c's subscription, if it has one *)
Definition do_unsub (st : state) (c : N) : state * out :=
  match find_client c (st_clients st) with
  | Some x =>
      match c_sub x with
      | Some sb =>
          (release (c_ts x) (s_buf sb) (with_clients st (put_client c (drop_sub x) (st_clients st))), ONone)
      | None => (st, ONoSub)
      end
  | None => (st, ONoSub)
  end.

Definition do_subscribe (st : state) (c : N) (T : ts) (tok : N) (rpc : bool) (qidx : N) : state * out :=
  match find_client c (st_clients st) with
  | Some x =>
      let st1 := fst (do_unsub st c) in
      do_subscribe_core st1 c (drop_sub x) qidx
  | None =>
      do_subscribe_core st c (Client T tok rpc [] 0 (HSnap []) None (st_epoch st)) qidx
  end.

(* ------------------------------------------------------------------ next *)

(* the materializer's handler state machine on one delivered event.
   Unreachable combinations (a framing event in the wrong handler state) are given the behaviour
   of the config-entry views (which ignore payloads they do not know); see Proofs: they never occur. *)
Definition handle (epoch : N) (x : client) (s : sub) (it : item) : client :=
  let mk view idx h ep := Client (c_ts x) (c_tok x) (c_rpc x) view idx h (Some s) ep in
  match c_h x, it with
  | HSnap acc, IEos i => mk (apply acc (c_view x)) i HStream epoch     (* updateView(h.events, index) *)
  | HSnap acc, IEv _ evs => mk (c_view x) (c_idx x) (HSnap (acc ++ evs)) (c_epoch x)
  | HSnap acc, INstf => mk (c_view x) (c_idx x) (HSnap acc) (c_epoch x)
  | HResume, INstf => mk [] 0%N (HSnap []) (c_epoch x)                 (* reset(); newSnapshotHandler() *)
  | _, IEv i evs => mk (apply evs (c_view x)) i HStream (c_epoch x)    (* updateView sets the index unconditionally *)
  | _, IEos i => mk (c_view x) i HStream (c_epoch x)
  | HStream, INstf => mk (c_view x) 0%N HStream (c_epoch x)
  end.

(* Subscription.Next (f559b0f amended by 716731d):
   "event.Index > 0 && event.Index < s.snapshotIndex && !event.IsFramingEvent()" — a batch at the
   snapshot's own index is delivered (again), only strictly older ones are skipped *)
Definition skipped (snap : N) (it : item) : bool :=
  match it with
  | IEv i _ => N.ltb 0 i && N.ltb i snap
  | _ => false
  end.

(* the first item Next delivers among l (the buffer from offset off on), and the offset after it *)
Fixpoint first_new (snap : N) (l : list item) (off : nat) : option (item * nat) :=
  match l with
  | [] => None
  | it :: r => if skipped snap it then first_new snap r (S off) else Some (it, S off)
  end.

Fixpoint drop_skipped (snap : N) (l : list item) : list item :=
  match l with
  | it :: r => if skipped snap it then drop_skipped snap r else l
  | [] => []
  end.

(* Next records the index of the EndOfSnapshot event it returns *)
Definition snap_after (snap : N) (it : item) : N :=
  match it with IEos i => i | _ => snap end.

Definition do_next (st : state) (c : N) : state * out :=
  match find_client c (st_clients st) with
  | None => (st, ONoSub)
  | Some x =>
      match c_sub x with
      | None => (st, ONoSub)
      | Some s =>
          match s_status s with
          | Open =>
              match drop_skipped (s_snap s) (s_pre s) with
              | it :: pre =>
                  let x' := handle (st_epoch st) x (Sub Open pre (s_off s) (s_buf s) (snap_after (s_snap s) it)) it in
                  (with_clients st (put_client c x' (st_clients st)), ODeliver it)
              | [] =>
                  (* the subscription reads the buffer object it is attached to; a dropped one gets nothing more *)
                  let items := match find_buf (c_ts x) (st_bufs st) with
                               | Some b => if N.eqb (tb_id b) (s_buf s) then tb_items b else []
                               | None => []
                               end in
                  match first_new (s_snap s) (skipn (s_off s) items) (s_off s) with
                  | Some (it, off') =>
                      let x' := handle (st_epoch st) x (Sub Open [] off' (s_buf s) (snap_after (s_snap s) it)) it in
                      (with_clients st (put_client c x' (st_clients st)), ODeliver it)
                  | None => (st, OBlock)
                  end
              end
          | stt =>
              (* ErrSubForceClosed / ErrACLChanged; the RPC materializer resets on codes.Aborted *)
              if c_rpc x then
                let x' := Client (c_ts x) (c_tok x) true [] 0 (c_h x) (c_sub x) (c_epoch x) in
                (with_clients st (put_client c x' (st_clients st)), OClosed stt)
              else (st, OClosed stt)
          end
      end
  end.

(* ------------------------------------------------------------------ restore / evict *)

(* Subscription.forceClose (CAS from open) *)
Definition force_close (x : client) : client :=
  match c_sub x with
  | Some s =>
      match s_status s with
      | Open => Client (c_ts x) (c_tok x) (c_rpc x) (c_view x) (c_idx x) (c_h x)
                       (Some (Sub ForceClosed (s_pre s) (s_off s) (s_buf s) (s_snap s))) (c_epoch x)
      | _ => x
      end
  | None => x
  end.

(* fsm.Restore: the store is replaced; RefreshAllTopics increments the generation (so that what is
   still queued will be dropped), evicts every cached snapshot, drops every topic buffer and
   force-closes every subscription. *)
Definition do_restore (st : state) (rows : amap) (hi : N) : state :=
  State rows (st_queue st) [] []
        (map (fun cx => (fst cx, force_close (snd cx))) (st_clients st))
        (st_cache_on st) (N.succ (st_epoch st)) (st_nbuf st) (N.max (st_hi st) hi) [] rows.

Definition do_evict (st : state) (T : ts) : state :=
  State (st_store st) (st_queue st) (st_bufs st) (del_snap T (st_cache st)) (st_clients st)
        (st_cache_on st) (st_epoch st) (st_nbuf st) (st_hi st) (st_log st) (st_base st).

Definition step (st : state) (l : label) : state * out :=
  match l with
  | LCommit b => (do_commit st b, ONone)
  | LPublish => do_publish st
  | LSubscribe c T tok rpc qidx => do_subscribe st c T tok rpc qidx
  | LNext c => do_next st c
  | LUnsub c => do_unsub st c
  | LRestore rows hi => (do_restore st rows hi, ONone)
  | LEvict T => (do_evict st T, ONone)
  end.

Definition run_from (st : state) (ls : list label) : state :=
  fold_left (fun s l => fst (step s l)) ls st.

(* ------------------------------------------------------------------ what the environment guarantees *)

(* batches of the log that carry an event for T *)
Definition touches (T : ts) (b : batch) : bool :=
  match evs_for T (b_evs b) with [] => false | _ => true end.

Fixpoint nodup_keys (m : amap) : bool :=
  match m with
  | [] => true
  | (k, _) :: r => negb (existsb (fun kv => key_eqb k (fst kv)) r) && nodup_keys r
  end.

(* the topic/subject a Subscribe label is about: the client's own when it already exists *)
Definition sub_ts (st : state) (c : N) (T : ts) : ts :=
  match find_client c (st_clients st) with Some x => c_ts x | None => T end.

Definition sub_idx (st : state) (c : N) : N :=
  match find_client c (st_clients st) with Some x => c_idx x | None => 0%N end.

(* Raft indexes grow strictly (and 1 is never user data); the index a query reports is not smaller
   than the index of any commit that touched the subject and not larger than the last raft index;
   a store has one row per key *)
Definition step_ok (st : state) (l : label) : bool :=
  match l with
  | LCommit b => N.ltb (st_hi st) (b_idx b)
  | LSubscribe c T _ _ qidx =>
      let T' := sub_ts st c T in
      match snd T', wild_ok (fst T') with
      | None, false => true            (* Subscribe fails before any query is made *)
      | _, _ => forallb (fun b => negb (touches T' b) || N.leb (b_idx b) qidx) (st_log st)
                && N.leb qidx (st_hi st)
      end
  | LRestore rows _ => nodup_keys rows
  | _ => true
  end.

Fixpoint valid_from (st : state) (ls : list label) : bool :=
  match ls with
  | [] => true
  | l :: r => step_ok st l && valid_from (fst (step st l)) r
  end.

(* ------------------------------------------------------------------ vocabulary of the theorems *)

(* rows of T after the commits of the current incarnation with index <= i *)
Definition log_upto (i : N) (log : list batch) : list batch :=
  filter (fun b => N.leb (b_idx b) i) log.

Definition all_evs (log : list batch) : list ev := flat_map b_evs log.

Definition content_at (st : state) (T : ts) (i : N) (k : key) : option N :=
  if matches T k then aget k (apply (all_evs (log_upto i (st_log st))) (st_base st)) else None.

(* what the direct query returns now *)
Definition content_now (st : state) (T : ts) (k : key) : option N :=
  if matches T k then aget k (st_store st) else None.

(* buffer items a batch list produces for T *)
Definition proj (T : ts) (log : list batch) : list item :=
  flat_map (fun b => match evs_for T (b_evs b) with [] => [] | evs => [IEv (b_idx b) evs] end) log.

(* the queued batches that will still be published (those of the current generation) *)
Definition live_queue (st : state) : list batch :=
  map snd (filter (fun gb => N.eqb (fst gb) (st_epoch st)) (st_queue st)).

(* everything Next will still hand to client x if nothing else is committed *)
Definition pending (st : state) (x : client) : list item :=
  match c_sub x with
  | Some s => s_pre s ++
              filter (fun it => negb (skipped (s_snap s) it))
                     (skipn (s_off s) (buf_items (c_ts x) (st_bufs st)) ++ proj (c_ts x) (live_queue st))
  | None => []
  end.

Definition is_open (x : client) : bool :=
  match c_sub x with Some s => match s_status s with Open => true | _ => false end | None => false end.

Definition streaming (x : client) : bool :=
  match c_h x with
  | HSnap _ => false
  | _ => match c_sub x with Some s => match s_pre s with [] => true | _ => false end | None => true end
  end.

(* ------------------------------------------------------------------ schedules from the initial state *)

Definition run (cache_on : bool) (ls : list label) : state := run_from (init cache_on) ls.

(* the environment behaves: Raft indexes grow strictly, a query's index covers every commit that
   touched its subject, a restored store has one row per key ([step_ok] at every step) *)
Definition env_ok (cache_on : bool) (ls : list label) : Prop :=
  valid_from (init cache_on) ls = true.

Definition client_of (st : state) (c : N) : option client := find_client c (st_clients st).

(* commits of the current store incarnation with an index above i *)
Definition log_after (i : N) (log : list batch) : list batch :=
  filter (fun b => N.ltb i (b_idx b)) log.

(* client c holds a subscription that the server has closed *)
Definition closed_for (st : state) (c : N) : Prop :=
  exists x sb, client_of st c = Some x /\ c_sub x = Some sb /\ s_status sb <> Open.

Definition touches_client (c : N) (l : label) : bool :=
  match l with
  | LSubscribe c' _ _ _ _ => N.eqb c c'
  | LUnsub c' => N.eqb c c'
  | _ => false
  end.

(* [step_ok] without its clause about the index a query reports *)
Definition raft_ok (st : state) (l : label) : bool :=
  match l with
  | LSubscribe _ _ _ _ _ => true
  | _ => step_ok st l
  end.

Fixpoint all_from (ok : state -> label -> bool) (st : state) (ls : list label) : bool :=
  match ls with
  | [] => true
  | l :: r => ok st l && all_from ok (fst (step st l)) r
  end.
