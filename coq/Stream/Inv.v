(* C11 — the invariant of the publisher/subscriber machine: what every client's view, index and
   pending items have to do with the log of commits, under the environment assumptions
   ([step_ok], [events_ok], [restore_ok], and [gapfree_ok] when the parameter [gf] is true). *)
From Coq Require Import Sorted.
From Verif Require Import Base.Prelude Stream.Model Stream.Amap Stream.Lookup.
Local Open Scope N_scope.

(* the part of the state the client invariants read, besides the client's own topic buffer *)
Record hist := Hist { h_hi : N; h_log : list batch; h_base : amap; h_epoch : N; h_queue : list batch }.

Definition hist_of (st : state) : hist :=
  Hist (st_hi st) (st_log st) (st_base st) (st_epoch st) (st_queue st).

Definition ob_items (ob : option tbuf) : list item :=
  match ob with Some b => tb_items b | None => [] end.

(* what a subscription positioned at [off] in its topic buffer will still be handed *)
Definition tail (h : hist) (T : ts) (ob : option tbuf) (off : nat) : list item :=
  skipn off (ob_items ob) ++ proj T (h_queue h).

Section Inv.
  Variable gf : bool.

  (* The T-items of the log are A ++ B1 ++ B2 ++ D.  The view was built from a snapshot that already
     contained A ++ B1 ++ B2 (everything up to the snapshot's index s); B1 has since been re-applied
     to it (the replay caused by subscribing in the commit/publish gap), B2 is still to be replayed,
     D is what was committed after the snapshot.  Without a gap B1 = B2 = []. *)
  Record core (h : hist) (T : ts) (view : amap) (cidx : N) (A B1 B2 D : list item) (s : N) : Prop := {
    co_split : proj T (h_log h) = A ++ B1 ++ B2 ++ D;
    co_view : forall k, aget k view =
                        if matches T k
                        then aget k (apply (ievs B1) (apply (ievs (A ++ B1 ++ B2)) (h_base h)))
                        else None;
    co_le : Forall (fun it => item_idx it <= s) (A ++ B1 ++ B2);
    co_gt : Forall (fun it => s < item_idx it) D;
    co_idx : cidx = lastidx B1 s;
    co_s : 1 <= s <= h_hi h;
    co_gf : gf = true -> B1 = [] /\ B2 = []
  }.

  (* what a client's (view, index) mean: nothing yet; a state of the current store incarnation;
     or a leftover of a replaced incarnation (whose index is below every index of the new log) *)
  Definition knows (h : hist) (r : N) (x : client) : Prop :=
    c_idx x = 0 \/
    (c_epoch x = h_epoch h /\
     exists A B1 B2 D s, core h (c_ts x) (c_view x) (c_idx x) A B1 B2 D s) \/
    (c_epoch x <> h_epoch h /\ c_idx x <= r).

  (* a snapshot (events [acc] already accumulated, items [rest] still to come, then EndOfSnapshot s)
     positioned at [off] in the topic buffer *)
  Record snapok (h : hist) (T : ts) (ob : option tbuf) (acc : list ev) (rest : list item) (off : nat)
         (A B2 D : list item) (s : N) : Prop := {
    so_split : proj T (h_log h) = A ++ B2 ++ D;
    so_rest : Forall is_iev rest;
    so_view : forall k, aget k (apply (acc ++ ievs rest) []) =
                        if matches T k then aget k (apply (ievs (A ++ B2)) (h_base h)) else None;
    so_tail : tail h T ob off = B2 ++ D;
    so_le : Forall (fun it => item_idx it <= s) (A ++ B2);
    so_gt : Forall (fun it => s < item_idx it) D;
    so_s : 1 <= s <= h_hi h;
    so_gf : gf = true -> B2 = []
  }.

  Definition buf_live (ob : option tbuf) (off : nat) : Prop :=
    exists tb, ob = Some tb /\ tb_old tb = false /\ (off <= List.length (tb_items tb))%nat.

  Definition subinv (h : hist) (ob : option tbuf) (x : client) (sb : sub) : Prop :=
    buf_live ob (s_off sb) /\
    ((s_pre sb = [] /\ (c_h x = HStream \/ c_h x = HResume) /\ c_epoch x = h_epoch h /\
      exists A B1 B2 D s, core h (c_ts x) (c_view x) (c_idx x) A B1 B2 D s /\
                          tail h (c_ts x) ob (s_off sb) = B2 ++ D)
     \/
     (exists acc rest A B2 D s,
         ((c_h x = HSnap acc /\ s_pre sb = rest ++ [IEos s]) \/
          (c_h x = HResume /\ acc = [] /\ s_pre sb = INstf :: rest ++ [IEos s])) /\
         snapok h (c_ts x) ob acc rest (s_off sb) A B2 D s)).

  Definition cinv (h : hist) (ob : option tbuf) (r : N) (x : client) : Prop :=
    c_idx x <= h_hi h /\ c_epoch x <= h_epoch h /\
    (c_idx x = 0 -> meq (c_view x) []) /\
    (forall acc, c_h x = HSnap acc -> c_idx x = 0) /\
    knows h r x /\
    match c_sub x with
    | Some sb => match s_status sb with Open => subinv h ob x sb | _ => True end
    | None => True
    end.

  Definition cacheinv (h : hist) (T : ts) (ob : option tbuf) (sn : snap) : Prop :=
    buf_live ob (sn_off sn) /\
    exists body A B2 D s, sn_items sn = body ++ [IEos s] /\ snapok h T ob [] body (sn_off sn) A B2 D s.

  Record ginv (st : state) : Prop := {
    gi_store_nd : NoDup (keys (st_store st));
    gi_store : meq (st_store st) (apply (all_evs (st_log st)) (st_base st));
    gi_logok : log_ok (st_log st);
    gi_incr : incr (map b_idx (st_log st));
    gi_hi : 1 <= st_hi st;
    gi_hist : exists pub r,
        st_log st = pub ++ st_queue st /\ 1 <= r <= st_hi st /\
        Forall (fun b => r < b_idx b <= st_hi st) (st_log st) /\
        (forall T tb, find_buf T (st_bufs st) = Some tb -> tb_old tb = false ->
                      exists X, proj T pub = X ++ tb_items tb) /\
        (forall c x, find_client c (st_clients st) = Some x ->
                     cinv (hist_of st) (find_buf (c_ts x) (st_bufs st)) r x);
    gi_refs : forall T, match find_buf T (st_bufs st) with
                        | Some tb => (count_subs T (st_clients st) <= tb_refs tb)%nat
                        | None => count_subs T (st_clients st) = 0%nat
                        end;
    gi_cache : forall T sn, find_snap T (st_cache st) = Some sn ->
                            cacheinv (hist_of st) T (find_buf T (st_bufs st)) sn;
    gi_nd : NoDup (map fst (st_clients st))
  }.

  Lemma ginv_init c : ginv (init c).
  Proof.
    constructor; cbn.
    - constructor.
    - intros k; reflexivity.
    - constructor.
    - constructor.
    - lia.
    - exists [], 1. split; [reflexivity|]. split; [lia|]. split; [constructor|].
      split; intros; discriminate.
    - intros T; reflexivity.
    - intros T sn H; discriminate.
    - constructor.
  Qed.
End Inv.
