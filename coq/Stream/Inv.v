(* C11 — the invariant of the publisher/subscriber machine: what every client's view, index and
   pending items have to do with the log of commits, under the environment assumption [step_ok]. *)
From Coq Require Import Sorted.
From Verif Require Import Base.Prelude Stream.Model Stream.Amap Stream.Lookup.
Local Open Scope N_scope.

(* the part of the state the client invariants read, besides the client's own topic buffer;
   h_lq = the queued batches of the current generation *)
Record hist := Hist { h_hi : N; h_log : list batch; h_base : amap; h_epoch : N; h_lq : list batch }.

Definition hist_of (st : state) : hist :=
  Hist (st_hi st) (st_log st) (st_base st) (st_epoch st) (live_queue st).

Definition ob_items (ob : option tbuf) : list item :=
  match ob with Some b => tb_items b | None => [] end.

(* what a subscription positioned at [off] in its topic buffer has in front of it (before Next's filter) *)
Definition tail (h : hist) (T : ts) (ob : option tbuf) (off : nat) : list item :=
  skipn off (ob_items ob) ++ proj T (h_lq h).

(* The T-items of the log are A ++ D; the view is the base with A applied; cidx separates A from D. *)
Record core (h : hist) (T : ts) (view : amap) (cidx : N) (A D : list item) : Prop := {
  co_split : proj T (h_log h) = A ++ D;
  co_view : forall k, aget k view =
                      if matches T k then aget k (apply (ievs A) (h_base h)) else None;
  co_le : Forall (fun it => item_idx it <= cidx) A;
  co_gt : Forall (fun it => cidx < item_idx it) D;
  co_s : 1 <= cidx <= h_hi h
}.

(* what a client's (view, index) mean: nothing yet; a state of the current store incarnation;
   or a leftover of a replaced incarnation (whose index is below every index of the new log) *)
Definition knows (h : hist) (r : N) (x : client) : Prop :=
  c_idx x = 0 \/
  (c_epoch x = h_epoch h /\ exists A D, core h (c_ts x) (c_view x) (c_idx x) A D) \/
  (c_epoch x <> h_epoch h /\ c_idx x <= r).

(* a snapshot (events [acc] already accumulated, items [rest] still to come, then EndOfSnapshot s)
   positioned at [off] in the topic buffer: the snapshot contains A ++ B2; B2 was committed before
   the snapshot was taken but is published after it (Next will skip it); D is what comes after *)
Record snapok (h : hist) (T : ts) (ob : option tbuf) (acc : list ev) (rest : list item) (off : nat)
       (A B2 D : list item) (s : N) : Prop := {
  so_split : proj T (h_log h) = A ++ B2 ++ D;
  so_rest : Forall is_iev rest;
  so_view : forall k, aget k (apply (acc ++ ievs rest) []) =
                      if matches T k then aget k (apply (ievs (A ++ B2)) (h_base h)) else None;
  so_tail : tail h T ob off = B2 ++ D;
  so_le : Forall (fun it => item_idx it <= s) (A ++ B2);
  so_gt : Forall (fun it => s < item_idx it) D;
  so_s : 1 <= s <= h_hi h
}.

(* E: the batch at the snapshot's own index, if it is still in front of the subscription: it is the
   last item of A (already in the view) and will be delivered once more *)
Definition dup_of (snap cidx : N) (A E : list item) : Prop :=
  E = [] \/ exists A' e, E = [e] /\ A = A' ++ [e] /\ item_idx e = cidx /\ cidx = snap.

Definition buf_live (ob : option tbuf) (off : nat) (id : option N) : Prop :=
  exists tb, ob = Some tb /\ (off <= List.length (tb_items tb))%nat /\
             match id with Some i => tb_id tb = i | None => True end.

Definition subinv (h : hist) (ob : option tbuf) (x : client) (sb : sub) : Prop :=
  buf_live ob (s_off sb) (Some (s_buf sb)) /\
  ((s_pre sb = [] /\ (c_h x = HStream \/ c_h x = HResume) /\ c_epoch x = h_epoch h /\
    s_snap sb <= c_idx x /\
    exists A D R E, core h (c_ts x) (c_view x) (c_idx x) A D /\
                    tail h (c_ts x) ob (s_off sb) = R ++ E ++ D /\
                    Forall (fun it => skipped (s_snap sb) it = true) R /\
                    dup_of (s_snap sb) (c_idx x) A E)
   \/
   (s_snap sb = 0 /\
    exists acc rest A B2 D s,
      ((c_h x = HSnap acc /\ s_pre sb = rest ++ [IEos s]) \/
       (c_h x = HResume /\ acc = [] /\ s_pre sb = INstf :: rest ++ [IEos s])) /\
      snapok h (c_ts x) ob acc rest (s_off sb) A B2 D s)).

Definition cinv (h : hist) (ob : option tbuf) (r : N) (x : client) : Prop :=
  c_idx x <= h_hi h /\ c_epoch x <= h_epoch h /\
  (c_idx x = 0 -> meq (c_view x) []) /\
  (forall acc, c_h x = HSnap acc -> c_idx x = 0) /\
  knows h r x /\
  match c_sub x with
  | Some sb => match s_status sb with Open => subinv h ob x sb | _ => True end
  | None => True
  end.

Definition cacheinv (h : hist) (T : ts) (ob : option tbuf) (sn : snap) : Prop :=
  buf_live ob (sn_off sn) None /\
  exists body A B2 D s, sn_items sn = body ++ [IEos s] /\ snapok h T ob [] body (sn_off sn) A B2 D s.

Record ginv (st : state) : Prop := {
  gi_store_nd : NoDup (keys (st_store st));
  gi_store : meq (st_store st) (apply (all_evs (st_log st)) (st_base st));
  gi_incr : incr (map b_idx (st_log st));
  gi_hi : 1 <= st_hi st;
  gi_queue : Forall (fun gb => fst gb <= st_epoch st) (st_queue st);
  gi_hist : exists pub r,
      st_log st = pub ++ live_queue st /\ 1 <= r <= st_hi st /\
      Forall (fun b => r < b_idx b <= st_hi st) (st_log st) /\
      (forall T tb, find_buf T (st_bufs st) = Some tb -> exists X, proj T pub = X ++ tb_items tb) /\
      (forall c x, find_client c (st_clients st) = Some x ->
                   cinv (hist_of st) (find_buf (c_ts x) (st_bufs st)) r x);
  gi_refs : forall T tb, find_buf T (st_bufs st) = Some tb ->
                         (count_subs T (tb_id tb) (st_clients st) <= tb_refs tb)%nat;
  gi_ids : (forall T tb, find_buf T (st_bufs st) = Some tb -> tb_id tb < st_nbuf st) /\
           (forall c x sb, find_client c (st_clients st) = Some x -> c_sub x = Some sb ->
                           s_buf sb < st_nbuf st);
  gi_cache : forall T sn, find_snap T (st_cache st) = Some sn ->
                          cacheinv (hist_of st) T (find_buf T (st_bufs st)) sn;
  gi_nd : NoDup (map fst (st_clients st))
}.

Lemma ginv_init c : ginv (init c).
Proof.
  constructor; cbn.
  - constructor.
  - intros k; reflexivity.
  - constructor.
  - lia.
  - constructor.
  - exists [], 1. split; [reflexivity|]. split; [lia|]. split; [constructor|].
    split; intros; discriminate.
  - intros; discriminate.
  - split; intros; discriminate.
  - intros T sn H; discriminate.
  - constructor.
Qed.
