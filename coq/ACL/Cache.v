(* C08 — the two caches of ACLPolicies.Compile never change a decision.
   Caches reachable by resolving any tokens whose policies come from one versioned policy store,
   interleaved with arbitrary evictions and purges, give every token the authorizer it would get
   from freshly parsed policies in an empty cache. *)
From Verif Require Import Base.Prelude.
From Verif Require Import ACL.Model.
From Verif Require Import ACL.Assoc.

(* the policy store is versioned: (ID, ModifyIndex) determines the content hash, and the content
   hash determines the rules text (hence whether it decodes, and to what) *)
Definition versioned (W : pentry -> Prop) : Prop :=
  forall e1 e2, W e1 -> W e2 ->
    (e_id e1 = e_id e2 -> e_idx e1 = e_idx e2 -> e_hash e1 = e_hash e2)
    /\ (e_hash e1 = e_hash e2 -> e_ok e1 = e_ok e2 /\ e_pol e1 = e_pol e2).

(* what Compile computes without any cache *)
Fixpoint parse_all (es : list pentry) (acc : list policy) : option (list policy) :=
  match es with
  | [] => Some (rev acc)
  | e :: es' => match parse e with Some p => parse_all es' (p :: acc) | None => None end
  end.

Definition compile_pure (es : list pentry) : option authorizer :=
  match parse_all es [] with
  | Some parsed => new_policy_authorizer parsed
  | None => None
  end.

Definition cache_ok (W : pentry -> Prop) (c : caches) : Prop :=
  (forall h p, alookup N.eqb h (c_parsed c) = Some p -> forall e, W e -> e_hash e = h -> parse e = Some p)
  /\ (forall k a, alookup akey_eqb k (c_authz c) = Some a ->
        forall es, Forall W es -> hash_key es = k -> compile_pure es = Some a).

Lemma parse_same W e1 e2 : versioned W -> W e1 -> W e2 -> e_hash e1 = e_hash e2 -> parse e1 = parse e2.
Proof.
  intros V W1 W2 Hh. destruct (V e1 e2 W1 W2) as [_ H]. destruct (H Hh) as [Ho Hp].
  unfold parse. rewrite Ho, Hp. reflexivity.
Qed.

Lemma resolve_with_cache_ok W (V : versioned W) es : forall c acc,
  (forall h p, alookup N.eqb h (c_parsed c) = Some p -> forall e, W e -> e_hash e = h -> parse e = Some p) ->
  Forall W es ->
  snd (resolve_with_cache c es acc) = parse_all es acc
  /\ c_authz (fst (resolve_with_cache c es acc)) = c_authz c
  /\ (forall h p, alookup N.eqb h (c_parsed (fst (resolve_with_cache c es acc))) = Some p ->
        forall e, W e -> e_hash e = h -> parse e = Some p).
Proof.
  induction es as [|e es IH]; intros c acc Hc HW; cbn [resolve_with_cache parse_all].
  - auto.
  - inversion HW as [|? ? We HW']; subst.
    destruct (alookup N.eqb (e_hash e) (c_parsed c)) as [p|] eqn:L.
    + rewrite (Hc _ _ L e We eq_refl). apply IH; assumption.
    + destruct (parse e) as [p|] eqn:P; [|cbn; auto].
      apply (IH (Caches (aset N.eqb (e_hash e) p (c_parsed c)) (c_authz c))); [|assumption].
      cbn [c_parsed]. intros h q. rewrite (alookup_aset _ N.eqb_eq).
      destruct (N.eqb h (e_hash e)) eqn:E; [|apply Hc].
      apply N.eqb_eq in E. intros [= <-] e' We' Hh. rewrite <- P. apply (parse_same W); auto. congruence.
Qed.

Lemma parse_all_same W (V : versioned W) es1 : forall es2 acc,
  Forall W es1 -> Forall W es2 -> hash_key es1 = hash_key es2 -> parse_all es1 acc = parse_all es2 acc.
Proof.
  induction es1 as [|e1 es1 IH]; intros [|e2 es2] acc H1 H2 Hk; cbn in Hk; try discriminate; [reflexivity|].
  inversion H1; inversion H2; subst. injection Hk as Hi Hx Hk. cbn [parse_all].
  destruct (V e1 e2) as [Hh _]; try assumption.
  rewrite (parse_same W e1 e2) by auto. destruct (parse e2); [|reflexivity]. apply IH; assumption.
Qed.

Lemma compile_ok W (V : versioned W) c es :
  cache_ok W c -> Forall W es ->
  snd (compile c es) = compile_pure es /\ cache_ok W (fst (compile c es)).
Proof.
  intros [Cp Ca] HW. unfold compile.
  destruct (alookup akey_eqb (hash_key es) (c_authz c)) as [a|] eqn:L.
  - cbn [fst snd]. split; [symmetry; apply (Ca _ _ L es HW eq_refl)|split; assumption].
  - destruct (resolve_with_cache_ok W V es c [] Cp HW) as (R1 & R2 & R3).
    destruct (resolve_with_cache c es []) as [c1 res]. cbn [fst snd] in R1, R2, R3.
    unfold compile_pure. rewrite <- R1.
    destruct res as [parsed|]; [|cbn [fst snd]; split; [reflexivity|split; [exact R3|rewrite R2; exact Ca]]].
    destruct (new_policy_authorizer parsed) as [a|] eqn:Na;
      [|cbn [fst snd]; split; [reflexivity|split; [exact R3|rewrite R2; exact Ca]]].
    cbn [fst snd]. split; [reflexivity|]. split; [exact R3|]. cbn [c_authz].
    intros k a'. rewrite (alookup_aset _ akey_eqb_eq), R2.
    destruct (akey_eqb k (hash_key es)) eqn:E; [|apply Ca].
    apply akey_eqb_eq in E. intros [= <-] es' HW' Hk. unfold compile_pure.
    rewrite (parse_all_same W V es' es []) by (auto; congruence). rewrite <- R1. exact Na.
Qed.

Lemma cache_ok_empty W : cache_ok W caches_empty.
Proof. split; intros ? ? [=]. Qed.

Lemma compile_empty W (V : versioned W) es : Forall W es -> snd (compile caches_empty es) = compile_pure es.
Proof. intros HW. apply (compile_ok W V caches_empty es (cache_ok_empty W) HW). Qed.

(* caches reachable from the empty one *)
Inductive reach (W : pentry -> Prop) : caches -> Prop :=
| reach_empty : reach W caches_empty
| reach_compile c es : reach W c -> Forall W es -> reach W (fst (compile c es))   (* another token resolved *)
| reach_evict_parsed c h : reach W c -> reach W (Caches (aremove N.eqb h (c_parsed c)) (c_authz c))
| reach_evict_authz c k : reach W c -> reach W (Caches (c_parsed c) (aremove akey_eqb k (c_authz c)))
| reach_purge c : reach W c -> reach W caches_empty.

Lemma reach_ok W (V : versioned W) c : reach W c -> cache_ok W c.
Proof.
  induction 1 as [|c es _ IH HW|c h _ [Cp Ca]|c k _ [Cp Ca]|c _ _].
  - apply cache_ok_empty.
  - apply (compile_ok W V c es IH HW).
  - split; [|exact Ca]. cbn [c_parsed]. intros h' p. rewrite (alookup_aremove _ N.eqb_eq).
    destruct (N.eqb h h'); [discriminate|apply Cp].
  - split; [exact Cp|]. cbn [c_authz]. intros k' a. rewrite (alookup_aremove _ akey_eqb_eq).
    destruct (akey_eqb k k'); [discriminate|apply Ca].
  - apply cache_ok_empty.
Qed.

(* the authorizer a token gets does not depend on the cache *)
Theorem compile_cache_independent W c c' es :
  versioned W -> reach W c -> reach W c' -> Forall W es ->
  snd (compile c es) = snd (compile c' es).
Proof.
  intros V R R' HW.
  rewrite (proj1 (compile_ok W V c es (reach_ok W V c R) HW)).
  rewrite (proj1 (compile_ok W V c' es (reach_ok W V c' R') HW)). reflexivity.
Qed.

Theorem resolve_decide_pure W c es s m :
  versioned W -> reach W c -> Forall W es ->
  resolve_decide c es s m = resolve_decide caches_empty es s m.
Proof.
  intros V R HW. unfold resolve_decide.
  rewrite (compile_cache_independent W c caches_empty es V R (reach_empty W) HW). reflexivity.
Qed.
