(* C08 — the identity layer (ACL/Identity.v): what a token's policies are, that they come from
   the world only, and how they relate to the documented union of the token's own and inherited
   policies and identities. *)
From Verif Require Import Base.Prelude.
From Verif Require Import ACL.Model.
From Verif Require Import ACL.Spec.
From Verif Require Import ACL.Assoc.
From Verif Require Import ACL.Proofs.
From Verif Require Import ACL.Cache.
From Verif Require Import ACL.EndToEnd.
From Verif Require Import ACL.Identity.

(* ---------------------------------------------------------------- sorting, merging, dedup *)

Lemma insert_n_In x y l : In x (insert_n y l) <-> x = y \/ In x l.
Proof.
  induction l as [|z l IH]; cbn [insert_n In]; [intuition|].
  destruct (N.leb y z); cbn [In]; [intuition|]. rewrite IH. intuition.
Qed.

Lemma sort_n_In x l : In x (sort_n l) <-> In x l.
Proof.
  induction l as [|y l IH]; cbn [sort_n fold_right In]; [reflexivity|].
  fold (sort_n l). rewrite insert_n_In, IH. intuition.
Qed.

Lemma sort_n_nil l : sort_n l = [] <-> l = [].
Proof.
  split; [|intros ->; reflexivity]. destruct l as [|y l]; [reflexivity|]. intros H.
  assert (Hin : In y (sort_n (y :: l))) by (apply sort_n_In; left; reflexivity). rewrite H in Hin. destruct Hin.
Qed.

Lemma unique_adjacent_In x l : In x (unique_adjacent l) <-> In x l.
Proof.
  induction l as [|y l IH]; [reflexivity|]. cbn [unique_adjacent]. destruct l as [|z l]; [reflexivity|].
  destruct (N.eqb y z) eqn:E.
  - apply N.eqb_eq in E; subst z. rewrite IH. cbn [In]. intuition.
  - cbn [In] in *. rewrite IH. reflexivity.
Qed.

Lemma dedupe_ids_In x l : In x (dedupe_ids l) <-> In x l.
Proof.
  destruct l as [|a [|b l]]; try reflexivity. unfold dedupe_ids. rewrite unique_adjacent_In, sort_n_In. reflexivity.
Qed.

Lemma merge_sorted_In x a : forall b, In x (merge_sorted a b) <-> In x a \/ In x b.
Proof.
  induction a as [|y a IHa]; intros b.
  - destruct b; cbn; intuition.
  - induction b as [|z b IHb].
    + cbn. intuition.
    + cbn [merge_sorted]. destruct (N.ltb y z) eqn:E1; [|destruct (N.ltb z y) eqn:E2].
      * cbn [In]. rewrite IHa. cbn [In]. intuition.
      * cbn [In]. change ((fix go (b0 : list N) : list N := match b0 with
                            | [] => y :: a
                            | y0 :: b' => if N.ltb y y0 then y :: merge_sorted a b0
                                          else if N.ltb y0 y then y0 :: go b' else y :: merge_sorted a b'
                            end) b) with (merge_sorted (y :: a) b).
        rewrite IHb. cbn [In]. intuition.
      * assert (y = z) by (apply N.ltb_ge in E1; apply N.ltb_ge in E2; lia). subst z.
        cbn [In]. rewrite IHa. intuition.
Qed.

Lemma merge_sorted_nil a b : merge_sorted a b = [] <-> a = [] /\ b = [].
Proof.
  split; [|intros [-> ->]; reflexivity]. intros H.
  destruct a as [|x a]; [destruct b; [auto|discriminate]|].
  exfalso. assert (Hin : In x (merge_sorted (x :: a) b)) by (apply merge_sorted_In; left; left; reflexivity).
  rewrite H in Hin. destruct Hin.
Qed.

Lemma in_scope_spec dc l : in_scope dc l = true <-> l = [] \/ In dc l.
Proof.
  destruct l as [|y l]; [cbn; intuition|]. unfold in_scope. rewrite existsb_exists. split.
  - intros (x & Hin & E). apply N.eqb_eq in E; subst. right; exact Hin.
  - intros [H|H]; [discriminate|]. exists dc. split; [exact H|apply N.eqb_refl].
Qed.

Lemma nident_eqb_eq a b : nident_eqb a b = true <-> a = b.
Proof.
  destruct a, b. unfold nident_eqb. cbn. rewrite andb_true_iff, !N.eqb_eq. split; [intros [-> ->]; reflexivity|intros [= -> ->]; auto].
Qed.

Lemma dedup_nis_from_In x l : forall seen, In x (dedup_nis_from seen l) <-> In x l /\ ~ In x seen.
Proof.
  induction l as [|y l IH]; intros seen; cbn [dedup_nis_from In]; [intuition|].
  destruct (existsb (nident_eqb y) seen) eqn:E.
  - apply existsb_exists in E as (z & Hz & Ez). apply nident_eqb_eq in Ez; subst z.
    rewrite IH. split; [intuition|]. intros [[->|H] Hn]; [contradiction|auto].
  - assert (Hy : ~ In y seen).
    { intros H. assert (existsb (nident_eqb y) seen = true) by (apply existsb_exists; exists y; split; [exact H|apply nident_eqb_eq; reflexivity]). congruence. }
    cbn [In]. rewrite IH. cbn [In]. split.
    + intros [->|[H Hn]]; [auto|]. split; [auto|]. intros H'; apply Hn; right; exact H'.
    + intros [[->|H] Hn]; [auto|].
      destruct (nident_eqb y x) eqn:Eyx; [apply nident_eqb_eq in Eyx; auto|].
      right. split; [exact H|]. intros [->|H']; [|contradiction].
      rewrite (proj2 (nident_eqb_eq x x) eq_refl) in Eyx. discriminate.
Qed.

Lemma dedup_nis_In x l : In x (dedup_nis l) <-> In x l.
Proof. unfold dedup_nis. rewrite dedup_nis_from_In. cbn. intuition. Qed.

Lemma tkey_eqb_eq a b : tkey_eqb a b = true <-> a = b.
Proof.
  destruct a, b. unfold tkey_eqb. cbn. rewrite andb_true_iff, !N.eqb_eq. split; [intros [-> ->]; reflexivity|intros [= -> ->]; auto].
Qed.

(* ---- Deduplicate of service identities, seen through lookups ---- *)

Definition occ (n : N) (l : list sident) : list sident := filter (fun s => N.eqb (si_name s) n) l.

Definition mstep (o : option (list N)) (s : sident) : option (list N) :=
  Some (match o with None => sort_n (si_dcs s) | Some acc => merge_dcs (si_dcs s) acc end).

Lemma sis_step_lookup m s n :
  alookup N.eqb n (sis_step m s)
  = if N.eqb n (si_name s) then mstep (alookup N.eqb (si_name s) m) s else alookup N.eqb n m.
Proof.
  unfold sis_step, mstep. destruct (alookup N.eqb (si_name s) m); rewrite (alookup_aset _ N.eqb_eq); reflexivity.
Qed.

Lemma sis_step_nodup m s : NoDup (map fst m) -> NoDup (map fst (sis_step m s)).
Proof. intros H. unfold sis_step. destruct (alookup N.eqb (si_name s) m); apply (aset_nodup _ N.eqb_eq), H. Qed.

Lemma dedup_fold_nodup l : forall m, NoDup (map fst m) -> NoDup (map fst (fold_left sis_step l m)).
Proof. induction l as [|s l IH]; intros m H; cbn [fold_left]; [exact H|]. apply IH, sis_step_nodup, H. Qed.

Lemma dedup_fold_lookup l : forall m n,
  alookup N.eqb n (fold_left sis_step l m) = fold_left mstep (occ n l) (alookup N.eqb n m).
Proof.
  induction l as [|s l IH]; intros m n; cbn [fold_left occ filter]; [reflexivity|].
  rewrite IH, sis_step_lookup. fold (occ n l). rewrite (N.eqb_sym (si_name s) n).
  destruct (N.eqb n (si_name s)) eqn:E; [|reflexivity]. apply N.eqb_eq in E; subst n. reflexivity.
Qed.

Lemma in_scope_sort dc l : in_scope dc (sort_n l) = in_scope dc l.
Proof.
  apply bool_eq_iff. rewrite !in_scope_spec, sort_n_nil, sort_n_In. reflexivity.
Qed.

(* merging two identities of one name: valid here iff one of them is *)
Lemma merge_dcs_scope dc d acc : in_scope dc (merge_dcs d acc) = in_scope dc acc || in_scope dc d.
Proof.
  unfold merge_dcs. destruct acc as [|a acc]; [reflexivity|]. destruct d as [|x d]; [cbn [is_nil orb]; rewrite orb_true_r; reflexivity|].
  cbn [is_nil orb]. apply bool_eq_iff. rewrite orb_true_iff, !in_scope_spec, merge_sorted_nil, merge_sorted_In, sort_n_In, sort_n_nil.
  split.
  - intros [[H _]|[H|H]]; [discriminate|right; right; exact H|left; right; exact H].
  - intros [[H|H]|[H|H]]; try discriminate; right; auto.
Qed.

Lemma mstep_fold_scope dc l : forall acc,
  exists r, fold_left mstep l (Some acc) = Some r
    /\ in_scope dc r = in_scope dc acc || existsb (fun s => in_scope dc (si_dcs s)) l.
Proof.
  induction l as [|s l IH]; intros acc; cbn [fold_left existsb].
  - exists acc. rewrite orb_false_r. auto.
  - unfold mstep at 2. destruct (IH (merge_dcs (si_dcs s) acc)) as (r & E & Hr). exists r. split; [exact E|].
    rewrite Hr, merge_dcs_scope, orb_assoc. reflexivity.
Qed.

(* ---------------------------------------------------------------- everything comes from the world *)

Definition in_world (w : world) (e : pentry) : Prop :=
  (exists id wp, In (id, wp) (w_pols w) /\ wp_entry wp = e)
  \/ (exists n, In (n, e) (w_synth_svc w)) \/ (exists n, In (n, e) (w_synth_node w))
  \/ (exists k, In (k, e) (w_synth_tp w)).

Lemma policies_for_identity_in_world w t : Forall (in_world w) (policies_for_identity w t).
Proof.
  apply Forall_forall. intros e He. unfold policies_for_identity in He.
  assert (G : forall pids sis nis tps,
    In e (map fst (filter (fun pd => in_scope (w_dc w) (snd pd))
      (flat_map (fun id => match alookup N.eqb id (w_pols w) with Some wp => [(wp_entry wp, wp_dcs wp)] | None => [] end) pids
       ++ (flat_map (fun e => match alookup N.eqb (fst e) (w_synth_svc w) with Some p => [(p, snd e)] | None => [] end) sis
           ++ flat_map (fun n => match alookup N.eqb (ni_name n) (w_synth_node w) with Some p => [(p, [ni_dc n])] | None => [] end) nis
           ++ flat_map (fun e => match alookup tkey_eqb (fst e) (w_synth_tp w) with Some p => [(p, snd e)] | None => [] end) tps)))) ->
    in_world w e).
  { intros pids sis nis tps H. apply in_map_iff in H as ([e' d] & <- & H). apply filter_In in H as [H _].
    apply in_app_or in H as [H|H]; [|apply in_app_or in H as [H|H]; [|apply in_app_or in H as [H|H]]];
      apply in_flat_map in H as (x & _ & H).
    - destruct (alookup N.eqb x (w_pols w)) as [wp|] eqn:L; [|destruct H]. destruct H as [[= <- <-]|[]].
      left. exists x, wp. split; [apply (alookup_In _ N.eqb_eq), L|reflexivity].
    - destruct (alookup N.eqb (fst x) (w_synth_svc w)) as [p|] eqn:L; [|destruct H]. destruct H as [[= <- <-]|[]].
      right; left. exists (fst x). apply (alookup_In _ N.eqb_eq), L.
    - destruct (alookup N.eqb (ni_name x) (w_synth_node w)) as [p|] eqn:L; [|destruct H]. destruct H as [[= <- <-]|[]].
      right; right; left. exists (ni_name x). apply (alookup_In _ N.eqb_eq), L.
    - destruct (alookup tkey_eqb (fst x) (w_synth_tp w)) as [p|] eqn:L; [|destruct H]. destruct H as [[= <- <-]|[]].
      right; right; right. exists (fst x). apply (alookup_In _ tkey_eqb_eq), L. }
  destruct (tk_pols t), (tk_roles t), (tk_sis t), (tk_nis t), (tk_tps t); try (destruct He; fail); eapply G; exact He.
Qed.

(* the decisions of a token do not depend on what was resolved before *)
Theorem token_decide_pure w c t s m :
  versioned (in_world w) -> reach (in_world w) c ->
  token_decide w c t s m = token_decide w caches_empty t s m.
Proof.
  intros V R. unfold token_decide. apply (resolve_decide_pure (in_world w)); [exact V|exact R|].
  apply policies_for_identity_in_world.
Qed.

(* resolving a token keeps the caches reachable: any sequence of tokens of the world *)
Lemma token_compile_reach w c t : reach (in_world w) c -> reach (in_world w) (fst (token_compile w c t)).
Proof. intros R. apply reach_compile; [exact R|apply policies_for_identity_in_world]. Qed.

(* ---------------------------------------------------------------- the documented union *)

(* everything the token holds itself or inherits from its roles, each item valid here or not on
   its own: the rule lists the documented rule is applied to *)
Definition union_policies (w : world) (t : wtoken) : list policy :=
  let roles := roles_of w t in
  flat_map (fun id => match alookup N.eqb id (w_pols w) with
                      | Some wp => if in_scope (w_dc w) (wp_dcs wp) then [e_pol (wp_entry wp)] else []
                      | None => [] end) (tk_pols t ++ flat_map ro_pols roles)
  ++ flat_map (fun s => if in_scope (w_dc w) (si_dcs s)
                        then olist' (option_map e_pol (alookup N.eqb (si_name s) (w_synth_svc w))) else [])
              (tk_sis t ++ flat_map ro_sis roles)
  ++ flat_map (fun n => if N.eqb (w_dc w) (ni_dc n)
                        then olist' (option_map e_pol (alookup N.eqb (ni_name n) (w_synth_node w))) else [])
              (tk_nis t ++ flat_map ro_nis roles)
  ++ flat_map (fun x => if in_scope (w_dc w) (tp_dcs x)
                        then olist' (option_map e_pol (alookup tkey_eqb (tp_key x) (w_synth_tp w))) else [])
              (tk_tps t ++ flat_map ro_tps roles).

Lemma occ_In s n l : In s (occ n l) <-> In s l /\ si_name s = n.
Proof. unfold occ. rewrite filter_In, N.eqb_eq. reflexivity. Qed.

(* a merged service identity is valid here iff one of the merged ones is *)
Lemma dedup_sis_scope dc l n dcs :
  alookup N.eqb n (dedup_sis l) = Some dcs ->
  (in_scope dc dcs = true <-> exists s, In s l /\ si_name s = n /\ in_scope dc (si_dcs s) = true).
Proof.
  intros L. unfold dedup_sis in L. rewrite dedup_fold_lookup in L. cbn [alookup] in L.
  destruct (occ n l) as [|s0 rest] eqn:Eo; [discriminate|]. cbn [fold_left] in L. unfold mstep at 2 in L.
  destruct (mstep_fold_scope dc rest (sort_n (si_dcs s0))) as (r & E & Hr). rewrite E in L. injection L as <-.
  rewrite Hr, in_scope_sort, orb_true_iff, existsb_exists.
  assert (Hall : forall s, In s (s0 :: rest) <-> In s l /\ si_name s = n) by (intros s; rewrite <- Eo; apply occ_In).
  split.
  - intros [H|(s & Hs & H)].
    + exists s0. destruct (proj1 (Hall s0) (or_introl eq_refl)). auto.
    + exists s. destruct (proj1 (Hall s) (or_intror Hs)). auto.
  - intros (s & Hs & Hn & H). destruct (proj2 (Hall s) (conj Hs Hn)) as [<-|Hr']; [left; exact H|right; eauto].
Qed.

Lemma dedup_sis_lookup_some l s : In s l -> exists dcs, alookup N.eqb (si_name s) (dedup_sis l) = Some dcs.
Proof.
  intros H. unfold dedup_sis. rewrite dedup_fold_lookup. cbn [alookup].
  assert (Ho : In s (occ (si_name s) l)) by (apply occ_In; auto).
  destruct (occ (si_name s) l) as [|s0 rest]; [destruct Ho|]. cbn [fold_left]. unfold mstep at 2.
  destruct (mstep_fold_scope 0%N rest (sort_n (si_dcs s0))) as (r & E & _). eauto.
Qed.

Lemma dedup_sis_lookup_occ l n dcs : alookup N.eqb n (dedup_sis l) = Some dcs -> exists s, In s l /\ si_name s = n.
Proof.
  unfold dedup_sis. rewrite dedup_fold_lookup. cbn [alookup]. intros L.
  destruct (occ n l) as [|s0 rest] eqn:Eo; [discriminate|]. exists s0. apply occ_In. rewrite Eo. left; reflexivity.
Qed.

(* ---- Deduplicate of templated policies, seen through lookups ---- *)

Definition tocc (k : tkey) (l : list tpol) : list tpol := filter (fun x => tkey_eqb (tp_key x) k) l.

Definition tstep (o : option (list N)) (x : tpol) : option (list N) :=
  Some (match o with None => tp_dcs x | Some kept => tmerge (tp_dcs x) kept end).

Lemma tkey_eqb_sym a b : tkey_eqb a b = tkey_eqb b a.
Proof. apply bool_eq_iff. rewrite !tkey_eqb_eq. split; congruence. Qed.

Lemma tps_step_lookup m x k :
  alookup tkey_eqb k (tps_step m x)
  = if tkey_eqb k (tp_key x) then tstep (alookup tkey_eqb (tp_key x) m) x else alookup tkey_eqb k m.
Proof.
  unfold tps_step, tstep. destruct (alookup tkey_eqb (tp_key x) m); rewrite (alookup_aset _ tkey_eqb_eq); reflexivity.
Qed.

Lemma tps_fold_nodup l : forall m, NoDup (map fst m) -> NoDup (map fst (fold_left tps_step l m)).
Proof.
  induction l as [|x l IH]; intros m H; cbn [fold_left]; [exact H|]. apply IH. unfold tps_step.
  destruct (alookup tkey_eqb (tp_key x) m); apply (aset_nodup _ tkey_eqb_eq), H.
Qed.

Lemma tps_fold_lookup l : forall m k,
  alookup tkey_eqb k (fold_left tps_step l m) = fold_left tstep (tocc k l) (alookup tkey_eqb k m).
Proof.
  induction l as [|x l IH]; intros m k; cbn [fold_left tocc filter]; [reflexivity|].
  rewrite IH, tps_step_lookup. fold (tocc k l). rewrite (tkey_eqb_sym (tp_key x) k).
  destruct (tkey_eqb k (tp_key x)) eqn:E; [|reflexivity]. apply tkey_eqb_eq in E; subst k. reflexivity.
Qed.

Lemma tmerge_scope dc d kept : in_scope dc (tmerge d kept) = in_scope dc kept || in_scope dc d.
Proof.
  unfold tmerge. destruct kept as [|a kept]; [reflexivity|]. destruct d as [|x d]; [cbn [is_nil]; rewrite orb_true_r; reflexivity|].
  cbn [is_nil]. apply bool_eq_iff. rewrite orb_true_iff, !in_scope_spec, merge_sorted_nil, merge_sorted_In, !sort_n_In, !sort_n_nil.
  split.
  - intros [[H _]|[H|H]]; [discriminate|left; right; exact H|right; right; exact H].
  - intros [[H|H]|[H|H]]; try discriminate; right; auto.
Qed.

Lemma tstep_fold_scope dc l : forall acc,
  exists r, fold_left tstep l (Some acc) = Some r
    /\ in_scope dc r = in_scope dc acc || existsb (fun x => in_scope dc (tp_dcs x)) l.
Proof.
  induction l as [|x l IH]; intros acc; cbn [fold_left existsb].
  - exists acc. rewrite orb_false_r. auto.
  - unfold tstep at 2. destruct (IH (tmerge (tp_dcs x) acc)) as (r & E & Hr). exists r. split; [exact E|].
    rewrite Hr, tmerge_scope, orb_assoc. reflexivity.
Qed.

Lemma tocc_In x k l : In x (tocc k l) <-> In x l /\ tp_key x = k.
Proof. unfold tocc. rewrite filter_In, tkey_eqb_eq. reflexivity. Qed.

(* a merged templated policy is valid here iff one of the merged ones is *)
Lemma dedup_tps_scope dc l k dcs :
  alookup tkey_eqb k (dedup_tps l) = Some dcs ->
  (in_scope dc dcs = true <-> exists x, In x l /\ tp_key x = k /\ in_scope dc (tp_dcs x) = true).
Proof.
  intros L. unfold dedup_tps in L. rewrite tps_fold_lookup in L. cbn [alookup] in L.
  destruct (tocc k l) as [|x0 rest] eqn:Eo; [discriminate|]. cbn [fold_left] in L. unfold tstep at 2 in L.
  destruct (tstep_fold_scope dc rest (tp_dcs x0)) as (r & E & Hr). rewrite E in L. injection L as <-.
  rewrite Hr, orb_true_iff, existsb_exists.
  assert (Hall : forall x, In x (x0 :: rest) <-> In x l /\ tp_key x = k) by (intros x; rewrite <- Eo; apply tocc_In).
  split.
  - intros [H|(x & Hx & H)].
    + exists x0. destruct (proj1 (Hall x0) (or_introl eq_refl)). auto.
    + exists x. destruct (proj1 (Hall x) (or_intror Hx)). auto.
  - intros (x & Hx & Hk & H). destruct (proj2 (Hall x) (conj Hx Hk)) as [<-|Hr']; [left; exact H|right; eauto].
Qed.

Lemma dedup_tps_lookup_some l x : In x l -> exists dcs, alookup tkey_eqb (tp_key x) (dedup_tps l) = Some dcs.
Proof.
  intros H. unfold dedup_tps. rewrite tps_fold_lookup. cbn [alookup].
  assert (Ho : In x (tocc (tp_key x) l)) by (apply tocc_In; auto).
  destruct (tocc (tp_key x) l) as [|x0 rest]; [destruct Ho|]. cbn [fold_left]. unfold tstep at 2.
  destruct (tstep_fold_scope 0%N rest (tp_dcs x0)) as (r & E & _). eauto.
Qed.

(* the token's policies are, as a set, the documented union *)
Theorem policies_are_union w t :
  sameset (map e_pol (policies_for_identity w t)) (union_policies w t).
Proof.
  intros p. unfold policies_for_identity, union_policies.
  set (roles := roles_of w t). set (sis := tk_sis t ++ flat_map ro_sis roles).
  set (nis := tk_nis t ++ flat_map ro_nis roles). set (pids := tk_pols t ++ flat_map ro_pols roles).
  set (tps := tk_tps t ++ flat_map ro_tps roles).
  assert (Hnd : NoDup (map fst (dedup_sis sis))) by (apply dedup_fold_nodup; constructor).
  assert (Hndt : NoDup (map fst (dedup_tps tps))) by (apply tps_fold_nodup; constructor).
  assert (G :
    In p (map e_pol (map fst (filter (fun pd => in_scope (w_dc w) (snd pd))
      (flat_map (fun id => match alookup N.eqb id (w_pols w) with Some wp => [(wp_entry wp, wp_dcs wp)] | None => [] end) (dedupe_ids pids)
       ++ (flat_map (fun e => match alookup N.eqb (fst e) (w_synth_svc w) with Some p => [(p, snd e)] | None => [] end) (dedup_sis sis)
           ++ flat_map (fun n => match alookup N.eqb (ni_name n) (w_synth_node w) with Some p => [(p, [ni_dc n])] | None => [] end) (dedup_nis nis)
           ++ flat_map (fun e => match alookup tkey_eqb (fst e) (w_synth_tp w) with Some p => [(p, snd e)] | None => [] end) (dedup_tps tps))))))
    <-> In p (flat_map (fun id => match alookup N.eqb id (w_pols w) with
                      | Some wp => if in_scope (w_dc w) (wp_dcs wp) then [e_pol (wp_entry wp)] else []
                      | None => [] end) pids
        ++ flat_map (fun s => if in_scope (w_dc w) (si_dcs s)
                        then olist' (option_map e_pol (alookup N.eqb (si_name s) (w_synth_svc w))) else []) sis
        ++ flat_map (fun n => if N.eqb (w_dc w) (ni_dc n)
                        then olist' (option_map e_pol (alookup N.eqb (ni_name n) (w_synth_node w))) else []) nis
        ++ flat_map (fun x => if in_scope (w_dc w) (tp_dcs x)
                        then olist' (option_map e_pol (alookup tkey_eqb (tp_key x) (w_synth_tp w))) else []) tps)).
  { rewrite map_map, in_map_iff. rewrite !in_app_iff. split.
    - intros ([e d] & <- & H). cbn [fst]. apply filter_In in H as [H Hsc]. cbn [snd] in Hsc.
      apply in_app_or in H as [H|H]; [|apply in_app_or in H as [H|H]; [|apply in_app_or in H as [H|H]]];
        apply in_flat_map in H as (x & Hx & H).
      + left. apply in_flat_map. exists x. split; [apply dedupe_ids_In, Hx|].
        destruct (alookup N.eqb x (w_pols w)) as [wp|]; [|destruct H]. destruct H as [[= <- <-]|[]]. rewrite Hsc. left; reflexivity.
      + right; left. destruct x as [n dcs]. cbn [fst snd] in H.
        destruct (alookup N.eqb n (w_synth_svc w)) as [q|] eqn:Lq; [|destruct H]. destruct H as [[= <- <-]|[]].
        assert (L : alookup N.eqb n (dedup_sis sis) = Some dcs) by (apply (In_alookup _ N.eqb_eq); assumption).
        destruct (proj1 (dedup_sis_scope (w_dc w) sis n dcs L) Hsc) as (s & Hs & Hn & Hss).
        apply in_flat_map. exists s. split; [exact Hs|]. rewrite Hss, Hn, Lq. left; reflexivity.
      + right; right; left. apply in_flat_map. exists x. split; [apply dedup_nis_In, Hx|].
        destruct (alookup N.eqb (ni_name x) (w_synth_node w)) as [q|]; [|destruct H]. destruct H as [[= <- <-]|[]].
        cbn [in_scope existsb] in Hsc. rewrite orb_false_r in Hsc. rewrite Hsc. left; reflexivity.
      + right; right; right. destruct x as [k dcs]. cbn [fst snd] in H.
        destruct (alookup tkey_eqb k (w_synth_tp w)) as [q|] eqn:Lq; [|destruct H]. destruct H as [[= <- <-]|[]].
        assert (L : alookup tkey_eqb k (dedup_tps tps) = Some dcs) by (apply (In_alookup _ tkey_eqb_eq); assumption).
        destruct (proj1 (dedup_tps_scope (w_dc w) tps k dcs L) Hsc) as (x & Hx' & Hk & Hss).
        apply in_flat_map. exists x. split; [exact Hx'|]. rewrite Hss, Hk, Lq. left; reflexivity.
    - intros [H|[H|[H|H]]]; apply in_flat_map in H as (x & Hx & H).
      + destruct (alookup N.eqb x (w_pols w)) as [wp|] eqn:L; [|destruct H].
        destruct (in_scope (w_dc w) (wp_dcs wp)) eqn:Hsc; [|destruct H]. destruct H as [<-|[]].
        exists (wp_entry wp, wp_dcs wp). split; [reflexivity|]. apply filter_In. split; [|exact Hsc].
        apply in_or_app. left. apply in_flat_map. exists x. split; [apply dedupe_ids_In, Hx|]. rewrite L. left; reflexivity.
      + destruct (in_scope (w_dc w) (si_dcs x)) eqn:Hsc; [|destruct H].
        destruct (alookup N.eqb (si_name x) (w_synth_svc w)) as [q|] eqn:Lq; [|destruct H]. destruct H as [<-|[]].
        destruct (dedup_sis_lookup_some sis x Hx) as [dcs L].
        exists (q, dcs). split; [reflexivity|]. apply filter_In. split.
        * apply in_or_app. right. apply in_or_app. left. apply in_flat_map. exists (si_name x, dcs).
          split; [apply (alookup_In _ N.eqb_eq), L|]. cbn [fst snd]. rewrite Lq. left; reflexivity.
        * cbn [snd]. apply (dedup_sis_scope (w_dc w) sis (si_name x) dcs L). eauto.
      + destruct (N.eqb (w_dc w) (ni_dc x)) eqn:Hsc; [|destruct H].
        destruct (alookup N.eqb (ni_name x) (w_synth_node w)) as [q|] eqn:Lq; [|destruct H]. destruct H as [<-|[]].
        exists (q, [ni_dc x]). split; [reflexivity|]. apply filter_In. split.
        * apply in_or_app. right. apply in_or_app. right. apply in_or_app. left. apply in_flat_map. exists x.
          split; [apply dedup_nis_In, Hx|]. rewrite Lq. left; reflexivity.
        * cbn. rewrite Hsc. reflexivity.
      + destruct (in_scope (w_dc w) (tp_dcs x)) eqn:Hsc; [|destruct H].
        destruct (alookup tkey_eqb (tp_key x) (w_synth_tp w)) as [q|] eqn:Lq; [|destruct H]. destruct H as [<-|[]].
        destruct (dedup_tps_lookup_some tps x Hx) as [dcs L].
        exists (q, dcs). split; [reflexivity|]. apply filter_In. split.
        * apply in_or_app. right. apply in_or_app. right. apply in_or_app. right. apply in_flat_map. exists (tp_key x, dcs).
          split; [apply (alookup_In _ tkey_eqb_eq), L|]. cbn [fst snd]. rewrite Lq. left; reflexivity.
        * cbn [snd]. apply (dedup_tps_scope (w_dc w) tps (tp_key x) dcs L). eauto. }
  destruct (tk_pols t) eqn:E1, (tk_roles t) eqn:E2, (tk_sis t) eqn:E3, (tk_nis t) eqn:E4, (tk_tps t) eqn:E5; try exact G.
  (* nothing held and no roles: both sides are empty *)
  subst roles sis nis pids tps. unfold roles_of. rewrite E2. cbn. reflexivity.
Qed.

(* hence the documented rule applied to the token's resolved policies is the documented rule
   applied to the union *)
Theorem identity_union_spec w t m :
  spec_decide (map e_pol (policies_for_identity w t)) m = spec_decide (union_policies w t) m.
Proof. apply spec_decide_sameset, policies_are_union. Qed.

(* end to end: whatever was resolved before, the caller sees the documented rule applied to the
   union of what the token holds and inherits *)
Theorem token_semantics w c t s m :
  versioned (in_world w) -> reach (in_world w) c ->
  forallb (fun e => e_ok e && validate (e_pol e)) (policies_for_identity w t) = true ->
  token_decide w c t s m = Some (spec_chain (union_policies w t) s m).
Proof.
  intros V R Hok. unfold token_decide.
  rewrite (semantics_through_caches (in_world w) c _ s m V R (policies_for_identity_in_world w t) Hok).
  unfold spec_chain. rewrite (identity_union_spec w t m). reflexivity.
Qed.

(* ---------------------------------------------------------------- order of links, several worlds *)

From Coq Require Import Permutation.

(* the same links and identities, listed in another order *)
Definition token_equiv (t t' : wtoken) : Prop :=
  Permutation (tk_pols t) (tk_pols t') /\ Permutation (tk_roles t) (tk_roles t')
  /\ Permutation (tk_sis t) (tk_sis t') /\ Permutation (tk_nis t) (tk_nis t') /\ Permutation (tk_tps t) (tk_tps t').

Lemma held_sameset {A} w t t' (own : wtoken -> list A) (inh : wrole -> list A) :
  Permutation (own t) (own t') -> Permutation (tk_roles t) (tk_roles t') ->
  sameset (own t ++ flat_map inh (roles_of w t)) (own t' ++ flat_map inh (roles_of w t')).
Proof.
  intros P1 P2. apply Permutation_sameset, Permutation_app; [exact P1|].
  apply Permutation_flat_map. unfold roles_of. apply Permutation_flat_map, P2.
Qed.

Lemma union_policies_equiv w t t' : token_equiv t t' -> sameset (union_policies w t) (union_policies w t').
Proof.
  intros (P1 & P2 & P3 & P4 & P5) p. unfold union_policies. rewrite !in_app_iff.
  rewrite (sameset_flat_map _ _ _ (held_sameset w t t' tk_pols ro_pols P1 P2) p).
  rewrite (sameset_flat_map _ _ _ (held_sameset w t t' tk_sis ro_sis P3 P2) p).
  rewrite (sameset_flat_map _ _ _ (held_sameset w t t' tk_nis ro_nis P4 P2) p).
  rewrite (sameset_flat_map _ _ _ (held_sameset w t t' tk_tps ro_tps P5 P2) p).
  reflexivity.
Qed.

(* the order in which a token lists its policy links, role links and identities does not matter *)
Theorem token_order_independent w c c' t t' s m :
  versioned (in_world w) -> reach (in_world w) c -> reach (in_world w) c' ->
  token_equiv t t' ->
  forallb (fun e => e_ok e && validate (e_pol e)) (policies_for_identity w t) = true ->
  forallb (fun e => e_ok e && validate (e_pol e)) (policies_for_identity w t') = true ->
  token_decide w c t s m = token_decide w c' t' s m.
Proof.
  intros V R R' E H H'.
  rewrite (token_semantics w c t s m V R H), (token_semantics w c' t' s m V R' H').
  unfold spec_chain. rewrite (spec_decide_sameset _ _ m (union_policies_equiv w t t' E)). reflexivity.
Qed.

(* caches stay reachable when the store grows: histories over several worlds (a policy, role or
   token edited between two resolutions) are histories over the union of the worlds *)
Lemma reach_mono (W W' : pentry -> Prop) c : (forall e, W e -> W' e) -> reach W c -> reach W' c.
Proof.
  intros Hsub R. induction R as [|c es _ IH HW|c h _ IH|c k _ IH|c _ IH].
  - apply reach_empty.
  - apply reach_compile; [exact IH|]. eapply Forall_impl; [exact Hsub|exact HW].
  - apply reach_evict_parsed, IH.
  - apply reach_evict_authz, IH.
  - apply (reach_purge _ c), IH.
Qed.

Theorem token_decide_pure_store (W : pentry -> Prop) w c t s m :
  versioned W -> (forall e, in_world w e -> W e) -> reach W c ->
  token_decide w c t s m = token_decide w caches_empty t s m.
Proof.
  intros V Hsub R. unfold token_decide. apply (resolve_decide_pure W); [exact V|exact R|].
  eapply Forall_impl; [exact Hsub|apply policies_for_identity_in_world].
Qed.
