(* Association-list and string-prefix lemmas used by the C08 proofs. Stdlib only. *)
From Verif Require Import Base.Prelude.
From Verif Require Import ACL.Model.
From Coq Require Import Permutation.

Lemma bool_eq_iff (a b : bool) : (a = true <-> b = true) -> a = b.
Proof. destruct a, b; intros [H1 H2]; try reflexivity; [symmetry; apply H1|apply H2]; reflexivity. Qed.

Section Assoc.
  Context {K V : Type} (eqb : K -> K -> bool).
  Hypothesis eqb_eq : forall a b, eqb a b = true <-> a = b.

  Lemma eqb_refl' a : eqb a a = true.
  Proof. apply eqb_eq; reflexivity. Qed.

  Lemma eqb_neq a b : eqb a b = false <-> a <> b.
  Proof.
    split.
    - intros E H. apply eqb_eq in H. congruence.
    - intros H. destruct (eqb a b) eqn:E; [apply eqb_eq in E; contradiction|reflexivity].
  Qed.

  Lemma alookup_aset k k' (v : V) l :
    alookup eqb k' (aset eqb k v l) = if eqb k' k then Some v else alookup eqb k' l.
  Proof.
    induction l as [|[k0 v0] l IH]; cbn [aset alookup].
    - reflexivity.
    - destruct (eqb k k0) eqn:E0; cbn [alookup].
      + apply eqb_eq in E0; subst k0. destruct (eqb k' k); reflexivity.
      + destruct (eqb k' k0) eqn:E1.
        * apply eqb_eq in E1; subst k0.
          destruct (eqb k' k) eqn:E2; [|reflexivity].
          apply eqb_eq in E2; subst. rewrite eqb_refl' in E0. discriminate.
        * exact IH.
  Qed.

  Lemma aset_keys k (v : V) l :
    forall x, In x (map fst (aset eqb k v l)) <-> x = k \/ In x (map fst l).
  Proof.
    induction l as [|[k0 v0] l IH]; intros x; cbn [aset map fst In].
    - intuition.
    - destruct (eqb k k0) eqn:E0; cbn [map fst In].
      + apply eqb_eq in E0; subst. intuition.
      + rewrite IH. intuition.
  Qed.

  Lemma aset_nodup k (v : V) l : NoDup (map fst l) -> NoDup (map fst (aset eqb k v l)).
  Proof.
    induction l as [|[k0 v0] l IH]; intros H; cbn [aset map fst].
    - constructor; [intros []|constructor].
    - inversion H as [|? ? Hn Hd]; subst.
      destruct (eqb k k0) eqn:E0; cbn [map fst].
      + apply eqb_eq in E0; subst. constructor; assumption.
      + constructor; [|apply IH; assumption].
        intros Hin. apply aset_keys in Hin as [->|Hin]; [|contradiction].
        rewrite eqb_refl' in E0; discriminate.
  Qed.

  Lemma alookup_In k (v : V) l : alookup eqb k l = Some v -> In (k, v) l.
  Proof.
    induction l as [|[k0 v0] l IH]; cbn [alookup]; [discriminate|].
    destruct (eqb k k0) eqn:E.
    - apply eqb_eq in E; subst. intros [= ->]. left; reflexivity.
    - intros H. right. apply IH, H.
  Qed.

  Lemma In_alookup k (v : V) l : NoDup (map fst l) -> In (k, v) l -> alookup eqb k l = Some v.
  Proof.
    induction l as [|[k0 v0] l IH]; intros Hd Hin; [destruct Hin|].
    inversion Hd as [|? ? Hn Hd']; subst. cbn [alookup].
    destruct Hin as [[= -> ->]|Hin].
    - rewrite eqb_refl'. reflexivity.
    - destruct (eqb k k0) eqn:E; [|apply IH; assumption].
      apply eqb_eq in E; subst. exfalso. apply Hn.
      change k0 with (fst (k0, v)). apply in_map, Hin.
  Qed.

  Lemma alookup_None k l : alookup eqb k l = None <-> ~ In k (map (@fst K V) l).
  Proof.
    induction l as [|[k0 v0] l IH]; cbn [alookup map fst In].
    - intuition.
    - destruct (eqb k k0) eqn:E.
      + apply eqb_eq in E; subst. split; [discriminate|]. intros H; exfalso; apply H; left; reflexivity.
      + rewrite IH. apply eqb_neq in E. intuition.
  Qed.

  Lemma alookup_aremove k k' (l : list (K * V)) :
    alookup eqb k' (aremove eqb k l) = if eqb k k' then None else alookup eqb k' l.
  Proof.
    induction l as [|[k0 v0] l IH]; cbn [aremove alookup].
    - destruct (eqb k k'); reflexivity.
    - destruct (eqb k k0) eqn:E0.
      + apply eqb_eq in E0; subst k0. rewrite IH.
        destruct (eqb k k') eqn:E1; [reflexivity|].
        destruct (eqb k' k) eqn:E2; [|reflexivity].
        apply eqb_eq in E2; subst. rewrite eqb_refl' in E1; discriminate.
      + cbn [alookup]. destruct (eqb k' k0) eqn:E1; [|exact IH].
        apply eqb_eq in E1; subst k0. rewrite E0. reflexivity.
  Qed.
End Assoc.

(* ---------------------------------------------------------------- equality tests *)

Lemma rkind_eqb_eq a b : rkind_eqb a b = true <-> a = b.
Proof. destruct a, b; cbn; split; intros H; try reflexivity; try discriminate. Qed.

Lemma string_eqb_eq a b : String.eqb a b = true <-> a = b.
Proof. apply String.eqb_eq. Qed.

Lemma rkey_eqb_eq (a b : rkey) : rkey_eqb a b = true <-> a = b.
Proof.
  destruct a as [[k1 p1] n1], b as [[k2 p2] n2]. unfold rkey_eqb.
  rewrite !andb_true_iff, rkind_eqb_eq, Bool.eqb_true_iff, String.eqb_eq.
  split; [intros [[-> ->] ->]; reflexivity|intros [= -> -> ->]; auto].
Qed.

Lemma akey_eqb_eq (a b : akey) : akey_eqb a b = true <-> a = b.
Proof.
  revert b; induction a as [|[i x] a IH]; intros [|[j y] b]; cbn [akey_eqb]; split;
    try congruence; try reflexivity.
  - rewrite !andb_true_iff, !N.eqb_eq, IH. intros [[-> ->] ->]; reflexivity.
  - intros [= -> -> ->]. rewrite !andb_true_iff, !N.eqb_eq, IH. auto.
Qed.

(* ---------------------------------------------------------------- prefixes *)

Lemma prefixes_In p s : In p (prefixes s) <-> String.prefix p s = true.
Proof.
  revert p; induction s as [|c s IH]; intros p; cbn [prefixes].
  - destruct p; cbn; intuition; discriminate.
  - destruct p as [|d p]; cbn [In String.prefix].
    + split; auto.
    + rewrite in_map_iff. split.
      * intros [H|[x [Hx Hin]]]; [discriminate|]. injection Hx as -> ->.
        apply IH in Hin. destruct (ascii_dec d d); [assumption|contradiction].
      * intros H. right. destruct (ascii_dec d c) as [->|]; [|discriminate].
        exists p. split; [reflexivity|]. apply IH, H.
Qed.

(* prefixes s ends with s itself and nothing before it equals s *)
Lemma prefixes_snoc s : exists pre, prefixes s = pre ++ [s] /\ forall x, In x pre -> x <> s.
Proof.
  induction s as [|c s (pre & E & Hne)]; cbn [prefixes].
  - exists []. split; [reflexivity|intros ? []].
  - exists (EmptyString :: map (String c) pre). split.
    + rewrite E, map_app. reflexivity.
    + intros x [<-|Hin]; [discriminate|]. apply in_map_iff in Hin as (y & <- & Hy).
      intros [= ->]. exact (Hne _ Hy eq_refl).
Qed.

(* along prefixes s the length strictly grows *)
Lemma prefixes_lengths s l1 p l2 :
  prefixes s = l1 ++ p :: l2 -> forall q, In q l2 -> String.length p < String.length q.
Proof.
  revert l1 p l2; induction s as [|c s IH]; intros l1 p l2 E q Hq; cbn [prefixes] in E.
  - destruct l1 as [|? [|? ?]]; cbn in E; try discriminate. injection E as <- <-. destruct Hq.
  - destruct l1 as [|x l1]; cbn [app] in E.
    + injection E as <- <-. apply in_map_iff in Hq as (y & <- & _). cbn. lia.
    + injection E as <- E. apply map_eq_app in E as (m1 & m2 & E1 & <- & E2).
      destruct m2 as [|y m2]; [discriminate|]. cbn [map] in E2. injection E2 as <- <-.
      apply in_map_iff in Hq as (z & <- & Hz). cbn [String.length].
      apply -> Nat.succ_lt_mono. eapply IH; eassumption.
Qed.

Lemma prefix_refl s : String.prefix s s = true.
Proof. induction s as [|c s IH]; cbn; [reflexivity|]. destruct (ascii_dec c c); [exact IH|contradiction]. Qed.
