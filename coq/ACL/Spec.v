(* C08 — the documented ACL rule, stated over plain lists of rules.  No trees, no merge, no
   caches: this is the reference the model (ACL/Model.v) is proved equal to in ACL/Proofs.v.

     * several policies giving a rule for the same (kind, exact/prefix, name):
       deny overrides write overrides list overrides read                      [strongest]
     * for a resource name: the exact-match rule wins, otherwise the rule of the
       longest prefix of the name that has a prefix rule                        [applicable]
     * no applicable rule: the authorizer says Default and the chain falls through to the
       default policy                                                           [spec_chain]
   No proofs about the model here (only facts about the reference itself). *)
From Verif Require Import Base.Prelude.
From Verif Require Import ACL.Model.

(* ---------------------------------------------------------------- precedence *)

Definition rank (l : level) : nat :=
  match l with LRead => 1 | LList => 2 | LWrite => 3 | LDeny => 4 end.

Definition stronger (a b : level) : level := if rank b <=? rank a then a else b.

(* the winner among the levels several policies give for the same name *)
Definition strongest (ls : list level) : option level :=
  fold_left (fun o l => Some (match o with None => l | Some m => stronger l m end)) ls None.

(* the level a policy string stands for under the documented, case-insensitive reading *)
Definition doc_level (p : pstr) : option level :=
  match p with PCanon l | POdd l => Some l | PEmpty | PBad => None end.

Definition olist {A} (o : option A) : list A := match o with Some a => [a] | None => [] end.

(* what a level grants *)
Definition grants (l : level) (need : access) : bool :=
  match l, need with
  | LWrite, _ => true
  | LList, (AList | ARead) => true
  | LRead, ARead => true
  | _, _ => false
  end.

Definition dec_of (o : option level) (need : access) : decision :=
  match o with
  | Some l => if grants l need then Allow else Deny
  | None => Default
  end.

(* ---------------------------------------------------------------- effective rules *)

Definition all_rules (ps : list policy) : list rule := flat_map p_rules ps.

Definition matching (rs : list rule) (k : rkind) (pf : bool) (n : string) : list rule :=
  filter (fun r => rkey_eqb (rule_key r) (k, pf, n)) rs.

(* the rule in force for (kind, exact/prefix, name) *)
Definition eff (rs : list rule) (k : rkind) (pf : bool) (n : string) : option level :=
  strongest (flat_map (fun r => olist (doc_level (r_pol r))) (matching rs k pf n)).

(* intentions on a service name: the strongest explicit `intentions` of the service rules for
   that name; when none is given the service rule in force decides: read or write -> read,
   otherwise deny *)
Definition eff_int (rs : list rule) (pf : bool) (n : string) : option level :=
  match eff rs KService pf n with
  | None => None
  | Some s =>
      match strongest (flat_map (fun r => olist (doc_level (r_int r))) (matching rs KService pf n)) with
      | Some i => Some i
      | None => Some (match s with LRead | LWrite => LRead | _ => LDeny end)
      end
  end.

(* a resource seen as its two rule maps: exact (false) and prefix (true) *)
Definition view := bool -> string -> option level.

(* the rule of the longest prefix of n that has a prefix rule *)
Definition longest_prefix (v : view) (n : string) : option level :=
  fold_left (fun cur p => match v true p with Some l => Some l | None => cur end) (prefixes n) None.

(* exact match wins, else longest prefix *)
Definition applicable (v : view) (n : string) : option level :=
  match v false n with
  | Some l => Some l
  | None => longest_prefix v n
  end.

(* all rules (exact and prefix) of the names in S *)
Definition rules_at (v : view) (S : list string) : list level :=
  flat_map (fun n => olist (v false n) ++ olist (v true n)) S.

Definition is_some {A} (o : option A) : bool := match o with Some _ => true | None => false end.

(* "some rule grants it": Allow if any rule grants; else Deny when a catch-all "" prefix rule
   exists; else Default *)
Definition spec_any (v : view) (S : list string) (need : access) : decision :=
  if existsb (fun l => grants l need) (rules_at v S) then Allow
  else if is_some (v true EmptyString) then Deny else Default.

(* "every rule grants it": Deny if any rule does not grant; else Allow when a catch-all ""
   prefix rule exists; else Default *)
Definition spec_all (v : view) (S : list string) (need : access) : decision :=
  if existsb (fun l => negb (grants l need)) (rules_at v S) then Deny
  else if is_some (v true EmptyString) then Allow else Default.

(* a whole subtree: the prefix rule applying to p itself must be good, and so must every rule
   (exact or prefix) whose name starts with p *)
Definition spec_subtree (good : level -> bool) (v : view) (S : list string) (p : string) : decision :=
  let base := longest_prefix v p in
  if match base with Some l => negb (good l) | None => false end then Deny
  else if existsb (fun l => negb (good l)) (rules_at v (filter (String.prefix p) S)) then Deny
  else match base with Some _ => Allow | None => Default end.

Definition is_write (l : level) : bool := match l with LWrite => true | _ => false end.
Definition is_rw (l : level) : bool := match l with LRead | LWrite => true | _ => false end.

(* ---------------------------------------------------------------- the reference decision *)

Definition names_of (rs : list rule) (k : rkind) : list string :=
  map r_name (filter (fun r => rkind_eqb (r_kind r) k) rs).

Definition scalar (f : policy -> pstr) (ps : list policy) : option level :=
  strongest (flat_map (fun p => olist (doc_level (f p))) ps).

Definition no_view : view := fun _ _ => None.

(* what the token's own policies say about a request (Default = they say nothing) *)
Definition spec_decide (ps : list policy) (m : meth) : decision :=
  let rs := all_rules ps in
  let v k := eff rs k in
  let vi := eff_int rs in
  let S k := names_of rs k in
  let look k n need := dec_of (applicable (v k) n) need in
  let oper need := dec_of (scalar p_operator ps) need in
  let or_oper o need := match o with Some l => dec_of (Some l) need | None => oper need end in
  let peer_read k :=
      match spec_any (v KService) (S KService) AWrite with
      | Allow => Allow
      | _ => spec_all (v k) (S k) ARead
      end in
  match m with
  | MACLRead => dec_of (scalar p_acl ps) ARead
  | MACLWrite | MSnapshot => dec_of (scalar p_acl ps) AWrite
  | MAgentRead n => look KAgent n ARead
  | MAgentWrite n => look KAgent n AWrite
  | MEventRead n => look KEvent n ARead
  | MEventWrite n => look KEvent n AWrite
  | MIntentionDefaultAllow => Default
  | MIntentionRead n =>
      if String.eqb n star then spec_any vi (S KService) ARead else dec_of (applicable vi n) ARead
  | MIntentionWrite n =>
      if String.eqb n star then spec_all vi (S KService) AWrite else dec_of (applicable vi n) AWrite
  | MTrafficPermissionsRead _ | MTrafficPermissionsWrite _ => Default
  | MKeyList n => look KKey n AList
  | MKeyRead n => look KKey n ARead
  | MKeyWrite n => look KKey n AWrite
  | MKeyWritePrefix n => spec_subtree is_write (v KKey) (S KKey) n
  | MKeyringRead => dec_of (scalar p_keyring ps) ARead
  | MKeyringWrite => dec_of (scalar p_keyring ps) AWrite
  | MOperatorRead => oper ARead
  | MOperatorWrite => oper AWrite
  | MMeshRead => or_oper (scalar p_mesh ps) ARead
  | MMeshWrite => or_oper (scalar p_mesh ps) AWrite
  | MPeeringRead => or_oper (scalar p_peering ps) ARead
  | MPeeringWrite => or_oper (scalar p_peering ps) AWrite
  | MNodeRead n peer => if peer then peer_read KNode else look KNode n ARead
  | MNodeReadAll => spec_all (v KNode) (S KNode) ARead
  | MNodeWrite n => look KNode n AWrite
  | MPreparedQueryRead n => look KQuery n ARead
  | MPreparedQueryWrite n => look KQuery n AWrite
  | MServiceRead n peer => if peer then peer_read KService else look KService n ARead
  | MServiceReadAll => spec_all (v KService) (S KService) ARead
  | MServiceReadPrefix n => spec_subtree is_rw (v KService) (S KService) n
  | MServiceWrite n => look KService n AWrite
  | MServiceWriteAny => spec_any (v KService) (S KService) AWrite
  | MSessionRead n => look KSession n ARead
  | MSessionWrite n => look KSession n AWrite
  end.

(* the default policy: "allow" / "deny" never grant ACL management or snapshots *)
Definition spec_default (s : static) (m : meth) : decision :=
  match m with
  | MACLRead | MACLWrite | MSnapshot => if allow_manage s then Allow else Deny
  | _ => if default_allow s then Allow else Deny
  end.

(* the decision a caller sees: the token's policies, the default policy when they are silent *)
Definition spec_chain (ps : list policy) (s : static) (m : meth) : decision :=
  match spec_decide ps m with
  | Default => spec_default s m
  | d => d
  end.

(* ---------------------------------------------------------------- policies the theorems cover *)

(* Every rule's access string names a level (any spelling) and a service rule's `intentions` is
   empty or names a level: what PolicyRules.Validate guarantees for every policy that parses
   (ACL/Proofs.v validate_levelled).  Nothing is asked of the scalar rules. *)
Definition has_level (p : pstr) : bool := is_some (doc_level p).
Definition lev_or_empty (p : pstr) : bool := match p with PBad => false | _ => true end.
Definition levelled_rule (r : rule) : bool :=
  has_level (r_pol r) && match r_kind r with KService => lev_or_empty (r_int r) | _ => true end.
Definition levelled (p : policy) : bool := forallb levelled_rule (p_rules p).
