(* C08 — model of consul's ACL policy evaluation (acl/policy.go, policy_merger.go,
   policy_authorizer.go, chained_authorizer.go, static_authorizer.go) and of the two caches of
   agent/structs/acl.go (ACLPolicies.Compile / resolveWithCache).

   Shaped like the code: policy strings are kept as strings up to the only distinctions the code
   makes (see [pstr]); MergePolicies is the fold with takesPrecedenceOver over a name-keyed
   context; loadRules inserts the filled rules into one tree per resource kind with an exact and a
   prefix slot per name; getPolicy is the WalkPath loop; the any/all/prefix walks are the loops of
   the code.  The radix tree itself (armon/go-radix) is abstracted to a finite map from names to
   leaves with the three traversals the code uses:
     WalkPath seg   = the entries stored at the prefixes of seg, shortest first,
     WalkPrefix p   = the entries whose name starts with p,
     Walk           = all entries.
   No proofs in this file. *)
From Verif Require Import Base.Prelude.

(* ---------------------------------------------------------------- access levels, strings *)

(* acl.AccessLevel *)
Inductive access := AUnknown | ADeny | ARead | AList | AWrite.

(* the four valid levels *)
Inductive level := LDeny | LRead | LList | LWrite.

Definition acc (l : level) : access :=
  match l with LDeny => ADeny | LRead => ARead | LList => AList | LWrite => AWrite end.

Definition level_eqb (a b : level) : bool :=
  match a, b with
  | LDeny, LDeny | LRead, LRead | LList, LList | LWrite, LWrite => true
  | _, _ => false
  end.

Definition access_eqb (a b : access) : bool :=
  match a, b with
  | AUnknown, AUnknown | ADeny, ADeny | ARead, ARead | AList, AList | AWrite, AWrite => true
  | _, _ => false
  end.

(* A policy string as the code distinguishes them:
     PEmpty     ""
     PCanon l   exactly "deny" / "read" / "list" / "write"   (the constants PolicyDeny ...)
     POdd l     any other spelling that strings.ToLower maps to one of them ("Deny", "WRITE")
     PBad       anything else ("foo").
   AccessLevelFromString, takesPrecedenceOver and the intention defaulting all lowercase before
   comparing with the lowercase constants (the last two since commit e3d2ecc). *)
Inductive pstr := PEmpty | PCanon (l : level) | POdd (l : level) | PBad.

(* acl.AccessLevelFromString (None = error) *)
Definition access_level_from_string (p : pstr) : option access :=
  match p with
  | PCanon l | POdd l => Some (acc l)
  | PEmpty | PBad => None
  end.

(* p == PolicyXxx *)
Definition is_const (p : pstr) (l : level) : bool :=
  match p with PCanon l' => level_eqb l l' | _ => false end.

(* strings.ToLower on a policy string ("FOO" becomes "foo": still none of the constants) *)
Definition to_lower (p : pstr) : pstr :=
  match p with POdd l => PCanon l | _ => p end.

(* acl.takesPrecedenceOver: `a, b = strings.ToLower(a), strings.ToLower(b)`, then the chain of
   comparisons with the lowercase constants *)
Definition takes_precedence_over (a b : pstr) : bool :=
  let a := to_lower a in
  let b := to_lower b in
  if is_const a LDeny then true else if is_const b LDeny then false else
  if is_const a LWrite then true else if is_const b LWrite then false else
  if is_const a LList then true else if is_const b LList then false else
  if is_const a LRead then true else if is_const b LRead then false else
  false.

Inductive decision := Deny | Allow | Default.

Definition decision_eqb (a b : decision) : bool :=
  match a, b with
  | Deny, Deny | Allow, Allow | Default, Default => true
  | _, _ => false
  end.

(* acl.enforce *)
Definition enforce (rule required : access) : decision :=
  match rule with
  | AWrite => Allow
  | AList => match required with AList | ARead => Allow | _ => Deny end
  | ARead => match required with ARead => Allow | _ => Deny end
  | ADeny => Deny
  | AUnknown => Default
  end.

(* acl.defaultIsAllow *)
Definition default_is_allow (d : decision) : decision :=
  match d with Allow | Default => Allow | Deny => Deny end.

(* ---------------------------------------------------------------- parsed policies *)

Inductive rkind := KAgent | KKey | KNode | KService | KSession | KEvent | KQuery.

Definition rkind_eqb (a b : rkind) : bool :=
  match a, b with
  | KAgent, KAgent | KKey, KKey | KNode, KNode | KService, KService
  | KSession, KSession | KEvent, KEvent | KQuery, KQuery => true
  | _, _ => false
  end.

(* One rule block of a policy: `key "a" {policy = ...}`, `service_prefix "" {policy intentions}`.
   [r_prefix] tells the _prefix list from the exact list.  [r_int] is the Intentions string of a
   service rule and "" for every other kind. *)
Record rule := Rule {
  r_kind : rkind; r_prefix : bool; r_name : string; r_pol : pstr; r_int : pstr }.

(* acl.PolicyRules (identity rules are zeroed by Validate and never read by loadRules). *)
Record policy := Policy {
  p_acl : pstr; p_keyring : pstr; p_operator : pstr; p_mesh : pstr; p_peering : pstr;
  p_rules : list rule }.

(* acl.isPolicyValid *)
Definition is_policy_valid (p : pstr) (allow_list : bool) : bool :=
  match access_level_from_string p with
  | None => false
  | Some AList => allow_list
  | Some _ => true
  end.

Definition scalar_valid (p : pstr) : bool :=
  match p with PEmpty => true | _ => is_policy_valid p false end.

Definition rule_valid (r : rule) : bool :=
  match r_kind r with
  | KKey => is_policy_valid (r_pol r) true
  | KService => is_policy_valid (r_pol r) false && scalar_valid (r_int r)
  | _ => is_policy_valid (r_pol r) false
  end.

(* PolicyRules.Validate *)
Definition validate (p : policy) : bool :=
  scalar_valid (p_acl p) && scalar_valid (p_keyring p) && scalar_valid (p_operator p)
  && scalar_valid (p_mesh p) && scalar_valid (p_peering p) && forallb rule_valid (p_rules p).

(* ---------------------------------------------------------------- MergePolicies *)

(* The merge context keeps one Go map per rule list; here one association list keyed by
   (kind, prefix?, name).  Order = order of first insertion (Go: unspecified map order, see
   [C08_map_order_independent]). *)
Definition rkey := (rkind * bool * string)%type.

Definition rkey_eqb (a b : rkey) : bool :=
  let '(k1, p1, n1) := a in let '(k2, p2, n2) := b in
  rkind_eqb k1 k2 && Bool.eqb p1 p2 && String.eqb n1 n2.

Definition rule_key (r : rule) : rkey := (r_kind r, r_prefix r, r_name r).

Record mval := MVal { v_pol : pstr; v_int : pstr }.

Fixpoint alookup {K V} (eqb : K -> K -> bool) (k : K) (l : list (K * V)) : option V :=
  match l with
  | [] => None
  | (k', v) :: l' => if eqb k k' then Some v else alookup eqb k l'
  end.

(* m[k] = v *)
Fixpoint aset {K V} (eqb : K -> K -> bool) (k : K) (v : V) (l : list (K * V)) : list (K * V) :=
  match l with
  | [] => [(k, v)]
  | (k', v') :: l' => if eqb k k' then (k, v) :: l' else (k', v') :: aset eqb k v l'
  end.

Fixpoint aremove {K V} (eqb : K -> K -> bool) (k : K) (l : list (K * V)) : list (K * V) :=
  match l with
  | [] => []
  | (k', v') :: l' => if eqb k k' then aremove eqb k l' else (k', v') :: aremove eqb k l'
  end.

Record mctx := MCtx {
  m_acl : pstr; m_keyring : pstr; m_operator : pstr; m_mesh : pstr; m_peering : pstr;
  m_rules : list (rkey * mval) }.

(* policyRulesMergeContext.init *)
Definition mctx_init : mctx := MCtx PEmpty PEmpty PEmpty PEmpty PEmpty [].

(* `if takesPrecedenceOver(policy.X, p.xRule) { p.xRule = policy.X }` *)
Definition merge_scalar (new cur : pstr) : pstr :=
  if takes_precedence_over new cur then new else cur.

(* One iteration of one of the `for _, r := range policy.<List>` loops. *)
Definition merge_rule (rs : list (rkey * mval)) (r : rule) : list (rkey * mval) :=
  let k := rule_key r in
  match r_kind r with
  | KService =>
      (* service / service_prefix: a COPY of the first rule is stored; later rules overwrite
         its Policy and Intentions fields separately *)
      match alookup rkey_eqb k rs with
      | None => aset rkey_eqb k (MVal (r_pol r) (r_int r)) rs
      | Some ex =>
          let pol := if takes_precedence_over (r_pol r) (v_pol ex) then r_pol r else v_pol ex in
          let int := if takes_precedence_over (r_int r) (v_int ex) then r_int r else v_int ex in
          aset rkey_eqb k (MVal pol int) rs
      end
  | _ =>
      (* every other kind: the map entry is replaced by the incoming rule when it wins *)
      let update := match alookup rkey_eqb k rs with
                    | None => true
                    | Some ex => takes_precedence_over (r_pol r) (v_pol ex)
                    end in
      if update then aset rkey_eqb k (MVal (r_pol r) (r_int r)) rs else rs
  end.

(* policyRulesMergeContext.merge *)
Definition merge_policy (c : mctx) (p : policy) : mctx :=
  MCtx (merge_scalar (p_acl p) (m_acl c))
       (merge_scalar (p_keyring p) (m_keyring c))
       (merge_scalar (p_operator p) (m_operator c))
       (merge_scalar (p_mesh p) (m_mesh c))
       (merge_scalar (p_peering p) (m_peering c))
       (fold_left merge_rule (p_rules p) (m_rules c)).

(* policyRulesMergeContext.fill *)
Definition fill (c : mctx) : policy :=
  Policy (m_acl c) (m_keyring c) (m_operator c) (m_mesh c) (m_peering c)
         (map (fun e => let '((k, pf, n), v) := e in Rule k pf n (v_pol v) (v_int v)) (m_rules c)).

(* acl.MergePolicies *)
Definition merge_policies (ps : list policy) : policy :=
  fill (fold_left merge_policy ps mctx_init).

(* ---------------------------------------------------------------- the policy authorizer *)

(* policyAuthorizerRadixLeaf *)
Record leaf := Leaf { l_exact : option access; l_prefix : option access }.

Definition tree := list (string * leaf).

Definition tree_get (n : string) (t : tree) : option leaf := alookup String.eqb n t.

(* insertPolicyIntoRadix (None = error from AccessLevelFromString) *)
Definition insert_policy_into_radix (segment : string) (pol : pstr) (t : tree) (prefix : bool)
  : option tree :=
  match access_level_from_string pol with
  | None => None
  | Some al =>
      let lf := match tree_get segment t with Some lf => lf | None => Leaf None None end in
      let lf' := if prefix then Leaf (l_exact lf) (Some al) else Leaf (Some al) (l_prefix lf) in
      Some (aset String.eqb segment lf' t)
  end.

Record authorizer := Authorizer {
  a_acl : option access;
  a_agent : tree; a_intention : tree; a_traffic : tree; a_key : tree; a_node : tree;
  a_service : tree; a_session : tree; a_event : tree; a_query : tree;
  a_keyring : option access; a_operator : option access; a_mesh : option access;
  a_peering : option access }.

(* newPolicyAuthorizerFromRules before loadRules *)
Definition authorizer_empty : authorizer :=
  Authorizer None [] [] [] [] [] [] [] [] [] None None None None.

Definition tree_of (a : authorizer) (k : rkind) : tree :=
  match k with
  | KAgent => a_agent a | KKey => a_key a | KNode => a_node a | KService => a_service a
  | KSession => a_session a | KEvent => a_event a | KQuery => a_query a
  end.

Definition set_tree (a : authorizer) (k : rkind) (t : tree) : authorizer :=
  match k with
  | KAgent => Authorizer (a_acl a) t (a_intention a) (a_traffic a) (a_key a) (a_node a) (a_service a) (a_session a) (a_event a) (a_query a) (a_keyring a) (a_operator a) (a_mesh a) (a_peering a)
  | KKey => Authorizer (a_acl a) (a_agent a) (a_intention a) (a_traffic a) t (a_node a) (a_service a) (a_session a) (a_event a) (a_query a) (a_keyring a) (a_operator a) (a_mesh a) (a_peering a)
  | KNode => Authorizer (a_acl a) (a_agent a) (a_intention a) (a_traffic a) (a_key a) t (a_service a) (a_session a) (a_event a) (a_query a) (a_keyring a) (a_operator a) (a_mesh a) (a_peering a)
  | KService => Authorizer (a_acl a) (a_agent a) (a_intention a) (a_traffic a) (a_key a) (a_node a) t (a_session a) (a_event a) (a_query a) (a_keyring a) (a_operator a) (a_mesh a) (a_peering a)
  | KSession => Authorizer (a_acl a) (a_agent a) (a_intention a) (a_traffic a) (a_key a) (a_node a) (a_service a) t (a_event a) (a_query a) (a_keyring a) (a_operator a) (a_mesh a) (a_peering a)
  | KEvent => Authorizer (a_acl a) (a_agent a) (a_intention a) (a_traffic a) (a_key a) (a_node a) (a_service a) (a_session a) t (a_query a) (a_keyring a) (a_operator a) (a_mesh a) (a_peering a)
  | KQuery => Authorizer (a_acl a) (a_agent a) (a_intention a) (a_traffic a) (a_key a) (a_node a) (a_service a) (a_session a) (a_event a) t (a_keyring a) (a_operator a) (a_mesh a) (a_peering a)
  end.

Definition set_intention (a : authorizer) (t : tree) : authorizer :=
  Authorizer (a_acl a) (a_agent a) t (a_traffic a) (a_key a) (a_node a) (a_service a) (a_session a) (a_event a) (a_query a) (a_keyring a) (a_operator a) (a_mesh a) (a_peering a).

(* the `intention := sp.Intentions; if intention == "" { switch strings.ToLower(sp.Policy) {...} }`
   of loadRules *)
Definition intention_of (pol int : pstr) : pstr :=
  match int with
  | PEmpty => if is_const (to_lower pol) LRead || is_const (to_lower pol) LWrite
              then PCanon LRead else PCanon LDeny
  | _ => int
  end.

(* one iteration of a loop of loadRules *)
Definition load_rule (oa : option authorizer) (r : rule) : option authorizer :=
  match oa with
  | None => None
  | Some a =>
      match insert_policy_into_radix (r_name r) (r_pol r) (tree_of a (r_kind r)) (r_prefix r) with
      | None => None
      | Some t =>
          let a1 := set_tree a (r_kind r) t in
          match r_kind r with
          | KService =>
              match insert_policy_into_radix (r_name r) (intention_of (r_pol r) (r_int r))
                                             (a_intention a1) (r_prefix r) with
              | None => None
              | Some ti => Some (set_intention a1 ti)
              end
          | _ => Some a1
          end
      end
  end.

(* `if policy.X != "" { access, err := AccessLevelFromString(policy.X); ...; p.xRule = ... }` *)
Definition load_scalar (p : pstr) : option (option access) :=
  match p with
  | PEmpty => Some None
  | _ => match access_level_from_string p with Some a => Some (Some a) | None => None end
  end.

(* policyAuthorizer.loadRules *)
Definition load_rules (p : policy) : option authorizer :=
  match fold_left load_rule (p_rules p) (Some authorizer_empty) with
  | None => None
  | Some a =>
      match load_scalar (p_acl p), load_scalar (p_keyring p), load_scalar (p_operator p),
            load_scalar (p_mesh p), load_scalar (p_peering p) with
      | Some xa, Some xk, Some xo, Some xm, Some xp =>
          Some (Authorizer xa (a_agent a) (a_intention a) (a_traffic a) (a_key a) (a_node a)
                           (a_service a) (a_session a) (a_event a) (a_query a) xk xo xm xp)
      | _, _, _, _, _ => None
      end
  end.

(* acl.newPolicyAuthorizer *)
Definition new_policy_authorizer (ps : list policy) : option authorizer :=
  load_rules (merge_policies ps).

(* ---------------------------------------------------------------- tree traversals *)

(* all prefixes of s, shortest first: "" ... s — the keys WalkPath can visit *)
Fixpoint prefixes (s : string) : list string :=
  EmptyString :: match s with
                 | EmptyString => []
                 | String c s' => map (String c) (prefixes s')
                 end.

(* the leaves WalkPath visits, in order, with their keys *)
Definition walk_path (seg : string) (t : tree) : list (string * leaf) :=
  flat_map (fun p => match tree_get p t with Some lf => [(p, lf)] | None => [] end) (prefixes seg).

(* the leaves WalkPrefix visits *)
Definition walk_prefix (p : string) (t : tree) : list (string * leaf) :=
  filter (fun e => String.prefix p (fst e)) t.

(* acl.getPolicy: the callback folded over the visited leaves; [Some] = found *)
Fixpoint get_policy_loop (segment : string) (visited : list (string * leaf)) (cur : option access)
  : option access :=
  match visited with
  | [] => cur
  | (path, lf) :: rest =>
      match l_exact lf with
      | Some e =>
          if String.eqb path segment then Some e            (* found, return true: stop *)
          else get_policy_loop segment rest
                 (match l_prefix lf with Some p => Some p | None => cur end)
      | None =>
          get_policy_loop segment rest
            (match l_prefix lf with Some p => Some p | None => cur end)
      end
  end.

Definition get_policy (segment : string) (t : tree) : option access :=
  get_policy_loop segment (walk_path segment t) None.

(* the pattern `if rule, ok := getPolicy(name, tree); ok { return enforce(rule.access, X) }; return Default` *)
Definition lookup_decide (t : tree) (name : string) (need : access) : decision :=
  match get_policy name t with
  | Some a => enforce a need
  | None => Default
  end.

Definition is_none {A} (o : option A) : bool := match o with None => true | Some _ => false end.

(* the enforceCallback of policyAuthorizer.anyAllowed *)
Definition leaf_any (need : access) (lf : leaf) (prefix_only : bool) : decision :=
  let d := match l_prefix lf with Some a => enforce a need | None => Default end in
  if prefix_only || decision_eqb d Allow || is_none (l_exact lf) then d
  else match l_exact lf with Some e => enforce e need | None => d end.

(* the enforceCallback of policyAuthorizer.allAllowed *)
Definition leaf_all (need : access) (lf : leaf) (prefix_only : bool) : decision :=
  let pd := match l_prefix lf with Some a => enforce a need | None => Default end in
  if prefix_only || decision_eqb pd Deny || is_none (l_exact lf) then pd
  else match l_exact lf with
       | Some e => let d := enforce e need in
                   match d with Default => pd | _ => d end
       | None => pd
       end.

(* acl.anyAllowed *)
Definition any_allowed (t : tree) (need : access) : decision :=
  let d0 := match tree_get EmptyString t with Some lf => leaf_any need lf true | None => Default end in
  if decision_eqb d0 Allow then Allow
  else if existsb (fun e => decision_eqb (leaf_any need (snd e) false) Allow) t then Allow
  else d0.

(* acl.allAllowed *)
Definition all_allowed (t : tree) (need : access) : decision :=
  let d0 := match tree_get EmptyString t with Some lf => leaf_all need lf true | None => Default end in
  if decision_eqb d0 Deny then Deny
  else if existsb (fun e => decision_eqb (leaf_all need (snd e) false) Deny) t then Deny
  else d0.

(* the WalkPath loop of KeyWritePrefix: last prefix rule on the path *)
Fixpoint kwp_base (visited : list (string * leaf)) (cur : decision) : decision :=
  match visited with
  | [] => cur
  | (_, lf) :: rest =>
      kwp_base rest (match l_prefix lf with
                     | Some a => if access_eqb a AWrite then Allow else Deny
                     | None => cur
                     end)
  end.

Definition not_write (o : option access) : bool :=
  match o with Some a => negb (access_eqb a AWrite) | None => false end.

(* policyAuthorizer.KeyWritePrefix *)
Definition key_write_prefix (t : tree) (prefix : string) : decision :=
  let base := kwp_base (walk_path prefix t) Default in
  if decision_eqb base Deny then Deny
  else if existsb (fun e => not_write (l_prefix (snd e)) || not_write (l_exact (snd e)))
                  (walk_prefix prefix t)
       then Deny
       else base.

Definition read_or_write (a : access) : bool :=
  match a with ARead | AWrite => true | _ => false end.

Fixpoint srp_base (visited : list (string * leaf)) (cur : decision) : decision :=
  match visited with
  | [] => cur
  | (_, lf) :: rest =>
      srp_base rest (match l_prefix lf with
                     | Some a => if read_or_write a then Allow else Deny
                     | None => cur
                     end)
  end.

Definition not_rw (o : option access) : bool :=
  match o with Some a => negb (read_or_write a) | None => false end.

(* policyAuthorizer.ServiceReadPrefix *)
Definition service_read_prefix (t : tree) (prefix : string) : decision :=
  let access := srp_base (walk_path prefix t) Default in
  if existsb (fun e => not_rw (l_prefix (snd e)) || not_rw (l_exact (snd e))) (walk_prefix prefix t)
  then Deny else access.

(* ---------------------------------------------------------------- the Authorizer interface *)

(* every method of acl.Authorizer with its arguments; [peer] = ctx.PeerOrEmpty() != "" *)
Inductive meth :=
| MACLRead | MACLWrite
| MAgentRead (n : string) | MAgentWrite (n : string)
| MEventRead (n : string) | MEventWrite (n : string)
| MIntentionDefaultAllow
| MIntentionRead (n : string) | MIntentionWrite (n : string)
| MKeyList (n : string) | MKeyRead (n : string) | MKeyWrite (n : string) | MKeyWritePrefix (n : string)
| MKeyringRead | MKeyringWrite
| MMeshRead | MMeshWrite
| MPeeringRead | MPeeringWrite
| MNodeRead (n : string) (peer : bool) | MNodeReadAll | MNodeWrite (n : string)
| MOperatorRead | MOperatorWrite
| MPreparedQueryRead (n : string) | MPreparedQueryWrite (n : string)
| MServiceRead (n : string) (peer : bool) | MServiceReadAll | MServiceReadPrefix (n : string)
| MServiceWrite (n : string) | MServiceWriteAny
| MSessionRead (n : string) | MSessionWrite (n : string)
| MSnapshot
| MTrafficPermissionsRead (n : string) | MTrafficPermissionsWrite (n : string).

Definition scalar_decide (r : option access) (need : access) : decision :=
  match r with Some a => enforce a need | None => Default end.

Definition star : string := String (ascii_of_N 42) EmptyString.   (* "*" *)

(* the methods of *policyAuthorizer *)
Definition policy_decide (a : authorizer) (m : meth) : decision :=
  match m with
  | MACLRead => scalar_decide (a_acl a) ARead
  | MACLWrite => scalar_decide (a_acl a) AWrite
  | MAgentRead n => lookup_decide (a_agent a) n ARead
  | MAgentWrite n => lookup_decide (a_agent a) n AWrite
  | MSnapshot => scalar_decide (a_acl a) AWrite
  | MEventRead n => lookup_decide (a_event a) n ARead
  | MEventWrite n => lookup_decide (a_event a) n AWrite
  | MIntentionDefaultAllow => Default
  | MIntentionRead n =>
      if String.eqb n star then any_allowed (a_intention a) ARead
      else lookup_decide (a_intention a) n ARead
  | MIntentionWrite n =>
      if String.eqb n star then all_allowed (a_intention a) AWrite
      else lookup_decide (a_intention a) n AWrite
  | MTrafficPermissionsRead n =>
      if String.eqb n star then any_allowed (a_traffic a) ARead
      else lookup_decide (a_traffic a) n ARead
  | MTrafficPermissionsWrite n =>
      if String.eqb n star then all_allowed (a_traffic a) AWrite
      else lookup_decide (a_traffic a) n AWrite
  | MKeyRead n => lookup_decide (a_key a) n ARead
  | MKeyList n => lookup_decide (a_key a) n AList
  | MKeyWrite n =>
      match get_policy n (a_key a) with
      | Some r => let d := enforce r AWrite in
                  match d with
                  | Allow => default_is_allow Default   (* CE: enterprise enforce = Default *)
                  | _ => d
                  end
      | None => Default
      end
  | MKeyWritePrefix n => key_write_prefix (a_key a) n
  | MKeyringRead => scalar_decide (a_keyring a) ARead
  | MKeyringWrite => scalar_decide (a_keyring a) AWrite
  | MOperatorRead => scalar_decide (a_operator a) ARead
  | MOperatorWrite => scalar_decide (a_operator a) AWrite
  | MMeshRead => match a_mesh a with Some r => enforce r ARead | None => scalar_decide (a_operator a) ARead end
  | MMeshWrite => match a_mesh a with Some r => enforce r AWrite | None => scalar_decide (a_operator a) AWrite end
  | MPeeringRead => match a_peering a with Some r => enforce r ARead | None => scalar_decide (a_operator a) ARead end
  | MPeeringWrite => match a_peering a with Some r => enforce r AWrite | None => scalar_decide (a_operator a) AWrite end
  | MNodeRead n peer =>
      if peer then
        if decision_eqb (any_allowed (a_service a) AWrite) Allow then Allow
        else all_allowed (a_node a) ARead
      else lookup_decide (a_node a) n ARead
  | MNodeReadAll => all_allowed (a_node a) ARead
  | MNodeWrite n => lookup_decide (a_node a) n AWrite
  | MPreparedQueryRead n => lookup_decide (a_query a) n ARead
  | MPreparedQueryWrite n => lookup_decide (a_query a) n AWrite
  | MServiceRead n peer =>
      if peer then
        if decision_eqb (any_allowed (a_service a) AWrite) Allow then Allow
        else all_allowed (a_service a) ARead
      else lookup_decide (a_service a) n ARead
  | MServiceReadAll => all_allowed (a_service a) ARead
  | MServiceReadPrefix n => service_read_prefix (a_service a) n
  | MServiceWrite n => lookup_decide (a_service a) n AWrite
  | MServiceWriteAny => any_allowed (a_service a) AWrite
  | MSessionRead n => lookup_decide (a_session a) n ARead
  | MSessionWrite n => lookup_decide (a_session a) n AWrite
  end.

(* staticAuthorizer: allowAll / denyAll / manageAll *)
Record static := Static { allow_manage : bool; default_allow : bool }.
Definition allow_all := Static false true.
Definition deny_all := Static false false.
Definition manage_all := Static true true.

Definition bool_decision (b : bool) : decision := if b then Allow else Deny.

Definition static_decide (s : static) (m : meth) : decision :=
  match m with
  | MACLRead | MACLWrite | MSnapshot => bool_decision (allow_manage s)
  | _ => bool_decision (default_allow s)
  end.

(* ChainedAuthorizer.executeChain over [token authorizer; default policy] *)
Fixpoint execute_chain (ds : list decision) : decision :=
  match ds with
  | [] => Deny
  | d :: rest => match d with Default => execute_chain rest | _ => d end
  end.

Definition chain_decide (a : authorizer) (s : static) (m : meth) : decision :=
  execute_chain [policy_decide a m; static_decide s m].

(* ---------------------------------------------------------------- caches, Compile *)

(* structs.ACLPolicy as Compile sees it: ID, ModifyIndex (authorizer cache key), content hash
   (parsed-policy cache key), whether the HCL decoder accepts the rules text (external), and the
   decoded rules. *)
Record pentry := PEntry {
  e_id : N; e_idx : N; e_hash : N; e_ok : bool; e_pol : policy }.

Definition akey := list (N * N).

Fixpoint akey_eqb (a b : akey) : bool :=
  match a, b with
  | [], [] => true
  | (i, x) :: a', (j, y) :: b' => N.eqb i j && N.eqb x y && akey_eqb a' b'
  | _, _ => false
  end.

Record caches := Caches {
  c_parsed : list (N * policy);           (* content hash -> parsed policy *)
  c_authz : list (akey * authorizer) }.   (* HashKey(ID, ModifyIndex ...) -> authorizer *)

Definition caches_empty : caches := Caches [] [].

(* ACLPolicies.HashKey *)
Definition hash_key (es : list pentry) : akey := map (fun e => (e_id e, e_idx e)) es.

(* acl.NewPolicyFromSource: decode, then Validate *)
Definition parse (e : pentry) : option policy :=
  if e_ok e && validate (e_pol e) then Some (e_pol e) else None.

(* ACLPolicies.resolveWithCache: parsed policies so far (reversed), cache updated on the way;
   an error keeps the entries already put *)
Fixpoint resolve_with_cache (c : caches) (es : list pentry) (acc : list policy)
  : caches * option (list policy) :=
  match es with
  | [] => (c, Some (rev acc))
  | e :: es' =>
      match alookup N.eqb (e_hash e) (c_parsed c) with
      | Some p => resolve_with_cache c es' (p :: acc)
      | None =>
          match parse e with
          | None => (c, None)
          | Some p =>
              resolve_with_cache (Caches (aset N.eqb (e_hash e) p (c_parsed c)) (c_authz c)) es' (p :: acc)
          end
      end
  end.

(* ACLPolicies.Compile *)
Definition compile (c : caches) (es : list pentry) : caches * option authorizer :=
  let key := hash_key es in
  match alookup akey_eqb key (c_authz c) with
  | Some a => (c, Some a)
  | None =>
      match resolve_with_cache c es [] with
      | (c1, None) => (c1, None)
      | (c1, Some parsed) =>
          match new_policy_authorizer parsed with
          | None => (c1, None)
          | Some a => (Caches (c_parsed c1) (aset akey_eqb key a (c_authz c1)), Some a)
          end
      end
  end.

(* ACLResolver.ResolveToken after the policies are known: Compile, then chain with the default
   policy's static authorizer.  The decisions a caller observes. *)
Definition resolve_decide (c : caches) (es : list pentry) (s : static) (m : meth) : option decision :=
  match snd (compile c es) with
  | Some a => Some (chain_decide a s m)
  | None => None
  end.
