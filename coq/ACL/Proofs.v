(* C08 — the model (ACL/Model.v) computes the documented rule (ACL/Spec.v).
   Part 1: MergePolicies.  Part 2: loadRules and the trees.  Part 3: the traversals and every
   Authorizer method.  Part 4: the theorems (semantics, order independence). *)
From Verif Require Import Base.Prelude.
From Verif Require Import ACL.Model.
From Verif Require Import ACL.Spec.
From Verif Require Import ACL.Assoc.
From Coq Require Import Permutation.

(* ================================================================ Part 1: precedence, merge *)

Definition pmax (a b : pstr) : pstr := if takes_precedence_over a b then a else b.
Definition pstep (o : option pstr) (p : pstr) : option pstr :=
  Some (match o with None => p | Some e => pmax p e end).
Definition sstep (o : option level) (l : level) : option level :=
  Some (match o with None => l | Some m => stronger l m end).
Definition omax (a b : option level) : option level :=
  match a, b with
  | Some x, Some y => Some (stronger x y)
  | Some x, None => Some x
  | None, _ => b
  end.

(* takesPrecedenceOver only looks at the levels the two strings stand for, whatever their spelling *)
Lemma lv_pmax a b : doc_level (pmax a b) = omax (doc_level a) (doc_level b).
Proof. destruct a as [|[]|[]|], b as [|[]|[]|]; reflexivity. Qed.

Lemma pmax_lev_or_empty p cur : lev_or_empty cur = true -> lev_or_empty (pmax p cur) = true.
Proof. destruct p as [|[]|[]|], cur as [|[]|[]|]; cbn; auto. Qed.

Lemma alfs_lv p : access_level_from_string p = option_map acc (doc_level p).
Proof. destruct p; reflexivity. Qed.

(* the strongest level: it occurs in the list and nothing in the list outranks it *)
Lemma strongest_fold_spec ls : forall o,
  match fold_left sstep ls o with
  | None => o = None /\ ls = []
  | Some m => (o = Some m \/ In m ls) /\ (forall l, o = Some l \/ In l ls -> rank l <= rank m)
  end.
Proof.
  induction ls as [|x ls IH]; intros o; cbn [fold_left].
  - destruct o as [m|]; [|auto]. split; [auto|]. intros l [[= ->]|[]]. lia.
  - specialize (IH (sstep o x)).
    destruct (fold_left sstep ls (sstep o x)) as [m|] eqn:E.
    + destruct IH as [Hin Hmax]. split.
      * destruct Hin as [Hs|Hin]; [|right; right; exact Hin].
        unfold sstep in Hs. injection Hs as Hs. destruct o as [e|].
        -- unfold stronger in Hs. destruct (rank e <=? rank x); subst; [right; left; reflexivity|left; reflexivity].
        -- right; left; exact Hs.
      * intros l Hl.
        assert (Hx : rank x <= rank m /\ (forall e, o = Some e -> rank e <= rank m)).
        { assert (Hs := Hmax). unfold sstep in Hs. destruct o as [e|].
          - specialize (Hs (stronger x e) (or_introl eq_refl)). unfold stronger in Hs.
            destruct (rank e <=? rank x) eqn:Hr; split; try intros ? [= <-]; lia.
          - specialize (Hs x (or_introl eq_refl)). split; [lia|discriminate]. }
        destruct Hx as [Hx1 Hx2].
        destruct Hl as [Hl|[<-|Hl]]; [apply Hx2, Hl|exact Hx1|apply Hmax; right; exact Hl].
    + destruct IH as [Hs _]. discriminate.
Qed.

Lemma strongest_spec ls :
  match strongest ls with
  | None => ls = []
  | Some m => In m ls /\ forall l, In l ls -> rank l <= rank m
  end.
Proof.
  change (strongest ls) with (fold_left sstep ls None).
  assert (H := strongest_fold_spec ls None).
  destruct (fold_left sstep ls None) as [m|].
  - destruct H as [[H|H] Hm]; [discriminate|]. split; [exact H|]. intros l Hl. apply Hm; auto.
  - destruct H as [_ H]. exact H.
Qed.

Lemma rank_inj a b : rank a = rank b -> a = b.
Proof. destruct a, b; cbn; intros; try reflexivity; lia. Qed.

(* hence it does not depend on the order of the list *)
Lemma strongest_perm l1 l2 : Permutation l1 l2 -> strongest l1 = strongest l2.
Proof.
  intros P. assert (H1 := strongest_spec l1). assert (H2 := strongest_spec l2).
  destruct (strongest l1) as [a|], (strongest l2) as [b|].
  - destruct H1 as [I1 M1], H2 as [I2 M2]. f_equal. apply rank_inj.
    assert (rank a <= rank b) by (apply M2; eapply Permutation_in; eassumption).
    assert (rank b <= rank a) by (apply M1; eapply Permutation_in; [apply Permutation_sym|]; eassumption).
    lia.
  - subst l2. apply Permutation_sym, Permutation_nil in P. subst. destruct H1 as [[] _].
  - subst l1. apply Permutation_nil in P. subst. destruct H2 as [[] _].
  - reflexivity.
Qed.

Definition plevels (ps : list pstr) : list level := flat_map (fun p => olist (doc_level p)) ps.

(* folding takesPrecedenceOver over policy strings computes the strongest of their levels *)
Lemma pfold_levels ps : forall e,
  option_map doc_level (fold_left pstep ps (Some e)) = Some (fold_left sstep (plevels ps) (doc_level e)).
Proof.
  induction ps as [|p ps IH]; intros e; cbn [fold_left plevels flat_map]; [reflexivity|].
  fold (plevels ps). unfold pstep at 2. rewrite IH, fold_left_app, lv_pmax. do 2 f_equal.
  destruct (doc_level p) as [l|]; cbn [olist fold_left omax]; [|reflexivity].
  destruct (doc_level e); reflexivity.
Qed.

Lemma pfold_levels_none ps :
  option_map doc_level (fold_left pstep ps None)
  = match ps with [] => None | _ => Some (strongest (plevels ps)) end.
Proof.
  destruct ps as [|p ps]; [reflexivity|]. cbn [fold_left]. unfold pstep at 2. rewrite pfold_levels.
  f_equal. unfold strongest. cbn [plevels flat_map]. fold (plevels ps). rewrite fold_left_app. f_equal.
  destruct (doc_level p); reflexivity.
Qed.

(* ---- one merge step, seen through lookups ---- *)

Definition combine (ex : option mval) (r : rule) : mval :=
  match ex with
  | None => MVal (r_pol r) (r_int r)
  | Some e =>
      match r_kind r with
      | KService => MVal (pmax (r_pol r) (v_pol e)) (pmax (r_int r) (v_int e))
      | _ => if takes_precedence_over (r_pol r) (v_pol e) then MVal (r_pol r) (r_int r) else e
      end
  end.

Notation lookup := (alookup rkey_eqb).

Lemma merge_rule_lookup rs r key :
  lookup key (merge_rule rs r)
  = if rkey_eqb key (rule_key r) then Some (combine (lookup (rule_key r) rs) r) else lookup key rs.
Proof.
  unfold merge_rule, combine.
  destruct (r_kind r) eqn:Ek;
    try (destruct (lookup (rule_key r) rs) as [ex|] eqn:El;
         [destruct (takes_precedence_over (r_pol r) (v_pol ex)) eqn:Et|];
         rewrite ?(alookup_aset _ rkey_eqb_eq); try reflexivity;
         destruct (rkey_eqb key (rule_key r)) eqn:E; [apply rkey_eqb_eq in E; subst; exact El|reflexivity]).
  destruct (lookup (rule_key r) rs) as [ex|] eqn:El; rewrite (alookup_aset _ rkey_eqb_eq); reflexivity.
Qed.

Lemma combine_pol ex r : v_pol (combine ex r) = match ex with None => r_pol r | Some e => pmax (r_pol r) (v_pol e) end.
Proof.
  unfold combine, pmax. destruct ex as [e|]; [|reflexivity].
  destruct (r_kind r); try reflexivity; destruct (takes_precedence_over (r_pol r) (v_pol e)); reflexivity.
Qed.

Lemma combine_int ex r : r_kind r = KService ->
  v_int (combine ex r) = match ex with None => r_int r | Some e => pmax (r_int r) (v_int e) end.
Proof. intros Hk. unfold combine. rewrite Hk. destruct ex; reflexivity. Qed.

Lemma merge_rule_nodup rs r : NoDup (map fst rs) -> NoDup (map fst (merge_rule rs r)).
Proof.
  intros H. unfold merge_rule.
  destruct (r_kind r); try (destruct (lookup (rule_key r) rs) as [ex|];
    [destruct (takes_precedence_over (r_pol r) (v_pol ex))|]; try assumption;
    apply (aset_nodup _ rkey_eqb_eq); assumption).
Qed.

Lemma merge_fold_nodup rs : forall ctx, NoDup (map fst ctx) -> NoDup (map fst (fold_left merge_rule rs ctx)).
Proof. induction rs as [|r rs IH]; intros ctx H; cbn [fold_left]; [exact H|]. apply IH, merge_rule_nodup, H. Qed.

Definition keyed (rs : list rule) (key : rkey) : list rule :=
  filter (fun r => rkey_eqb (rule_key r) key) rs.

Lemma rkey_eqb_sym a b : rkey_eqb a b = rkey_eqb b a.
Proof.
  apply bool_eq_iff. rewrite !rkey_eqb_eq. split; congruence.
Qed.

(* the Policy field of the context entry for a key is the pstep-fold of the matching rules *)
Lemma merge_fold_pol rs : forall ctx key,
  option_map v_pol (lookup key (fold_left merge_rule rs ctx))
  = fold_left pstep (map r_pol (keyed rs key)) (option_map v_pol (lookup key ctx)).
Proof.
  induction rs as [|r rs IH]; intros ctx key; cbn [fold_left keyed filter map]; [reflexivity|].
  rewrite IH, merge_rule_lookup. fold (keyed rs key). rewrite (rkey_eqb_sym (rule_key r) key).
  destruct (rkey_eqb key (rule_key r)) eqn:E; [|reflexivity].
  apply rkey_eqb_eq in E; subst key. cbn [map fold_left option_map]. rewrite combine_pol.
  f_equal. destruct (lookup (rule_key r) ctx); reflexivity.
Qed.

Lemma merge_fold_int rs : forall ctx pf n,
  option_map v_int (lookup (KService, pf, n) (fold_left merge_rule rs ctx))
  = fold_left pstep (map r_int (keyed rs (KService, pf, n))) (option_map v_int (lookup (KService, pf, n) ctx)).
Proof.
  induction rs as [|r rs IH]; intros ctx pf n; cbn [fold_left keyed filter map]; [reflexivity|].
  rewrite IH, merge_rule_lookup. fold (keyed rs (KService, pf, n)).
  rewrite (rkey_eqb_sym (rule_key r) (KService, pf, n)).
  destruct (rkey_eqb (KService, pf, n) (rule_key r)) eqn:E; [|reflexivity].
  apply rkey_eqb_eq in E. cbn [map fold_left option_map]. rewrite combine_int.
  - rewrite <- E. f_equal. destruct (lookup (KService, pf, n) ctx); reflexivity.
  - unfold rule_key in E. congruence.
Qed.

(* the context after all policies = one fold over all their rules *)
Lemma merge_policies_rules ps : forall c,
  m_rules (fold_left merge_policy ps c) = fold_left merge_rule (all_rules ps) (m_rules c).
Proof.
  induction ps as [|p ps IH]; intros c; cbn [fold_left all_rules flat_map]; [reflexivity|].
  rewrite IH. cbn [merge_policy m_rules]. rewrite fold_left_app. reflexivity.
Qed.

Lemma merge_policies_scalar (f : policy -> pstr) (g : mctx -> pstr) :
  (forall c p, g (merge_policy c p) = merge_scalar (f p) (g c)) ->
  forall ps c, g (fold_left merge_policy ps c) = fold_left (fun cur p => pmax p cur) (map f ps) (g c).
Proof.
  intros Hg. induction ps as [|p ps IH]; intros c; cbn [fold_left map]; [reflexivity|].
  rewrite IH, Hg. reflexivity.
Qed.

(* ================================================================ Part 2: loadRules, trees *)

Definition slot_of (t : tree) (pf : bool) (n : string) : option access :=
  match tree_get n t with
  | Some lf => if pf then l_prefix lf else l_exact lf
  | None => None
  end.

Definition wf_tree (t : tree) : Prop := NoDup (map fst t).

Definition kslot (a : authorizer) (k : rkind) := slot_of (tree_of a k).
Definition islot (a : authorizer) := slot_of (a_intention a).

Definition wf_auth (a : authorizer) : Prop :=
  (forall k, wf_tree (tree_of a k)) /\ wf_tree (a_intention a) /\ a_traffic a = [].

Lemma insert_slot seg pol t pf t' :
  insert_policy_into_radix seg pol t pf = Some t' ->
  forall pf' n, slot_of t' pf' n
    = if String.eqb n seg && Bool.eqb pf' pf then access_level_from_string pol else slot_of t pf' n.
Proof.
  unfold insert_policy_into_radix. destruct (access_level_from_string pol) as [al|]; [|discriminate].
  intros [= <-] pf' n. unfold slot_of, tree_get. rewrite (alookup_aset _ String.eqb_eq).
  destruct (String.eqb n seg) eqn:E; [|reflexivity].
  apply String.eqb_eq in E; subst n.
  destruct (alookup String.eqb seg t) as [lf|]; destruct pf, pf'; reflexivity.
Qed.

Lemma insert_wf seg pol t pf t' :
  insert_policy_into_radix seg pol t pf = Some t' -> wf_tree t -> wf_tree t'.
Proof.
  unfold insert_policy_into_radix. destruct (access_level_from_string pol); [|discriminate].
  intros [= <-] H. apply (aset_nodup _ String.eqb_eq), H.
Qed.

Lemma tree_of_set_tree a k t k' : tree_of (set_tree a k t) k' = if rkind_eqb k' k then t else tree_of a k'.
Proof. destruct k, k'; reflexivity. Qed.

Lemma intention_set_tree a k t : a_intention (set_tree a k t) = a_intention a.
Proof. destruct k; reflexivity. Qed.

Lemma traffic_set_tree a k t : a_traffic (set_tree a k t) = a_traffic a.
Proof. destruct k; reflexivity. Qed.

Lemma tree_of_set_intention a t k : tree_of (set_intention a t) k = tree_of a k.
Proof. destruct k; reflexivity. Qed.

Lemma rkey_eqb_unfold k pf n r :
  rkey_eqb (k, pf, n) (rule_key r) = rkind_eqb k (r_kind r) && Bool.eqb pf (r_prefix r) && String.eqb n (r_name r).
Proof. reflexivity. Qed.

Lemma load_rule_spec a r a' : load_rule (Some a) r = Some a' ->
  (forall k pf n, kslot a' k pf n
     = if rkey_eqb (k, pf, n) (rule_key r) then access_level_from_string (r_pol r) else kslot a k pf n)
  /\ (forall pf n, islot a' pf n
     = if rkey_eqb (KService, pf, n) (rule_key r)
       then access_level_from_string (intention_of (r_pol r) (r_int r)) else islot a pf n)
  /\ (wf_auth a -> wf_auth a').
Proof.
  cbn [load_rule].
  destruct (insert_policy_into_radix (r_name r) (r_pol r) (tree_of a (r_kind r)) (r_prefix r)) as [t|] eqn:E1;
    [|discriminate].
  assert (Hk : forall a1, (forall k, tree_of a1 k = tree_of (set_tree a (r_kind r) t) k) ->
                forall k pf n, kslot a1 k pf n
                = if rkey_eqb (k, pf, n) (rule_key r) then access_level_from_string (r_pol r) else kslot a k pf n).
  { intros a1 Ht k pf n. unfold kslot. rewrite Ht, tree_of_set_tree, rkey_eqb_unfold.
    destruct (rkind_eqb k (r_kind r)) eqn:Ek; [|reflexivity].
    apply rkind_eqb_eq in Ek; subst k. rewrite (insert_slot _ _ _ _ _ E1).
    rewrite andb_comm. reflexivity. }
  assert (Hw : forall k, wf_auth a -> wf_tree (tree_of (set_tree a (r_kind r) t) k)).
  { intros k [W _]. rewrite tree_of_set_tree. destruct (rkind_eqb k (r_kind r)); [|apply W].
    eapply insert_wf; [exact E1|apply W]. }
  destruct (r_kind r) eqn:Ekind;
    try (intros [= <-]; split; [apply Hk; reflexivity|]; split;
         [intros pf n; unfold islot; rewrite rkey_eqb_unfold, Ekind; reflexivity|];
         intros W; split; [intros k; apply Hw, W|]; apply W).
  destruct (insert_policy_into_radix (r_name r) (intention_of (r_pol r) (r_int r))
              (a_intention (set_tree a KService t)) (r_prefix r)) as [ti|] eqn:E2; [|discriminate].
  intros [= <-]. split; [apply Hk; intros k; apply tree_of_set_intention|]. split.
  - intros pf n. unfold islot. change (a_intention (set_intention (set_tree a KService t) ti)) with ti.
    rewrite (insert_slot _ _ _ _ _ E2), intention_set_tree, rkey_eqb_unfold, Ekind.
    cbn [rkind_eqb andb]. rewrite andb_comm. reflexivity.
  - intros W. split; [intros k; rewrite tree_of_set_intention; apply Hw, W|]. split.
    + change (a_intention (set_intention (set_tree a KService t) ti)) with ti.
      eapply insert_wf; [exact E2|]. rewrite intention_set_tree. apply W.
    + apply W.
Qed.

Lemma load_fold_none rs : fold_left load_rule rs None = None.
Proof. induction rs; cbn; auto. Qed.

(* with one rule per key (what fill produces), in ANY order, each slot holds its rule's level *)
Lemma load_fold_spec rs : NoDup (map rule_key rs) -> forall a a',
  fold_left load_rule rs (Some a) = Some a' ->
  (forall r, In r rs ->
     kslot a' (r_kind r) (r_prefix r) (r_name r) = access_level_from_string (r_pol r)
     /\ (r_kind r = KService ->
         islot a' (r_prefix r) (r_name r) = access_level_from_string (intention_of (r_pol r) (r_int r))))
  /\ (forall k pf n, ~ In (k, pf, n) (map rule_key rs) ->
        kslot a' k pf n = kslot a k pf n /\ (k = KService -> islot a' pf n = islot a pf n))
  /\ (wf_auth a -> wf_auth a').
Proof.
  induction rs as [|r0 rs IH]; intros Hnd a a' Hf.
  - cbn in Hf. injection Hf as <-. split; [intros ? []|]. split; auto.
  - cbn [fold_left] in Hf. destruct (load_rule (Some a) r0) as [a1|] eqn:E1;
      [|rewrite load_fold_none in Hf; discriminate].
    cbn [map] in Hnd. inversion Hnd as [|? ? Hnotin Hnd']; subst.
    destruct (load_rule_spec _ _ _ E1) as (K1 & I1 & W1).
    destruct (IH Hnd' _ _ Hf) as (R & N & W). split; [|split].
    + intros r [<-|Hin]; [|apply R, Hin].
      destruct (N (r_kind r0) (r_prefix r0) (r_name r0) Hnotin) as [Nk Ni]. split.
      * rewrite Nk, K1. change (r_kind r0, r_prefix r0, r_name r0) with (rule_key r0).
        rewrite (proj2 (rkey_eqb_eq _ _) eq_refl). reflexivity.
      * intros Hs. rewrite (Ni Hs), I1. rewrite <- Hs. change (r_kind r0, r_prefix r0, r_name r0) with (rule_key r0).
        rewrite (proj2 (rkey_eqb_eq _ _) eq_refl). reflexivity.
    + intros k pf n Hn. cbn [map In] in Hn.
      assert (Hne : rkey_eqb (k, pf, n) (rule_key r0) = false).
      { apply (eqb_neq _ rkey_eqb_eq). intros E. apply Hn. left. symmetry. exact E. }
      destruct (N k pf n) as [Nk Ni]; [intros H; apply Hn; right; exact H|]. split.
      * rewrite Nk, K1, Hne. reflexivity.
      * intros ->. rewrite (Ni eq_refl), I1, Hne. reflexivity.
    + intros Wa. apply W, W1, Wa.
Qed.

Lemma load_scalar_lv p : lev_or_empty p = true -> load_scalar p = Some (option_map acc (doc_level p)).
Proof. destruct p; try discriminate; reflexivity. Qed.

(* the level loadRules gives the intentions of a service rule *)
Lemma intention_level pol int : lev_or_empty int = true ->
  access_level_from_string (intention_of pol int)
  = Some (acc (match doc_level int with
               | Some i => i
               | None => match doc_level pol with Some LRead | Some LWrite => LRead | _ => LDeny end
               end)).
Proof. destruct int as [|i|i|]; try discriminate; intros _; [|reflexivity|reflexivity]. destruct pol as [|[]|[]|]; reflexivity. Qed.

Lemma load_rule_some a r : levelled_rule r = true -> exists a', load_rule (Some a) r = Some a'.
Proof.
  unfold levelled_rule. intros H. apply andb_true_iff in H as [Hp Hi].
  assert (Hl : exists l, access_level_from_string (r_pol r) = Some l).
  { rewrite alfs_lv. unfold has_level in Hp. destruct (doc_level (r_pol r)); [cbn; eauto|discriminate]. }
  destruct Hl as [l Hl]. cbn [load_rule]. unfold insert_policy_into_radix at 1. rewrite Hl.
  revert Hi. destruct (r_kind r); intros Hi; try (eexists; reflexivity).
  unfold insert_policy_into_radix. rewrite (intention_level _ _ Hi). eexists; reflexivity.
Qed.

Lemma load_fold_some rs : forallb levelled_rule rs = true -> forall a,
  exists a', fold_left load_rule rs (Some a) = Some a'.
Proof.
  induction rs as [|r rs IH]; intros H a; cbn [fold_left]; [eauto|].
  cbn [forallb] in H. apply andb_true_iff in H as [Hr H].
  destruct (load_rule_some a r Hr) as [a1 ->]. apply IH, H.
Qed.

Lemma authorizer_empty_wf : wf_auth authorizer_empty.
Proof. split; [intros []; constructor|split; [constructor|reflexivity]]. Qed.

(* ================================================================ Part 3: traversals, methods *)

(* a tree holds exactly the rules of a view *)
Definition repr (t : tree) (v : view) : Prop :=
  forall pf n, slot_of t pf n = option_map acc (v pf n).

(* S lists (at least) every name that has a rule *)
Definition covers (S : list string) (v : view) : Prop := forall pf n, v pf n <> None -> In n S.

Lemma acc_inj a b : acc a = acc b -> a = b.
Proof. destruct a, b; cbn; congruence. Qed.

Lemma omap_acc_none (o : option level) : option_map acc o = None -> o = None.
Proof. destruct o; [discriminate|reflexivity]. Qed.

Lemma repr_some t v n lf : repr t v -> tree_get n t = Some lf ->
  l_exact lf = option_map acc (v false n) /\ l_prefix lf = option_map acc (v true n).
Proof.
  intros R G. split; [rewrite <- (R false n)|rewrite <- (R true n)]; unfold slot_of; rewrite G; reflexivity.
Qed.

Lemma repr_none t v n : repr t v -> tree_get n t = None -> v false n = None /\ v true n = None.
Proof.
  intros R G. split; apply omap_acc_none; [rewrite <- (R false n)|rewrite <- (R true n)];
    unfold slot_of; rewrite G; reflexivity.
Qed.

Lemma enforce_grants l need : enforce (acc l) need = if grants l need then Allow else Deny.
Proof. destruct l, need; reflexivity. Qed.

Lemma existsb_ext' {A} (f g : A -> bool) l : (forall x, f x = g x) -> existsb f l = existsb g l.
Proof. intros H. induction l as [|x l IH]; cbn; [reflexivity|]. rewrite H, IH. reflexivity. Qed.

Lemma existsb_filter {A} (g h : A -> bool) l : existsb g (filter h l) = existsb (fun x => h x && g x) l.
Proof.
  induction l as [|x l IH]; cbn; [reflexivity|]. destruct (h x); cbn; rewrite IH; reflexivity.
Qed.

Lemma existsb_flat_map {A B} (g : B -> bool) (f : A -> list B) l :
  existsb g (flat_map f l) = existsb (fun x => existsb g (f x)) l.
Proof. induction l as [|x l IH]; cbn; [reflexivity|]. rewrite existsb_app, IH. reflexivity. Qed.

(* ---- WalkPath ---- *)

Definition wp (L : list string) (t : tree) : list (string * leaf) :=
  flat_map (fun p => match tree_get p t with Some lf => [(p, lf)] | None => [] end) L.

Definition lp_step (v : view) (cur : option level) (p : string) : option level :=
  match v true p with Some l => Some l | None => cur end.

Lemma gp_pre seg t v : repr t v -> forall L, (forall x, In x L -> x <> seg) -> forall rest cur,
  get_policy_loop seg (wp L t ++ rest) (option_map acc cur)
  = get_policy_loop seg rest (option_map acc (fold_left (lp_step v) L cur)).
Proof.
  intros R. induction L as [|x L IH]; intros Hne rest cur; [reflexivity|].
  cbn [wp flat_map fold_left]. fold (wp L t).
  assert (Hx : String.eqb x seg = false).
  { apply (eqb_neq _ String.eqb_eq). apply Hne. left; reflexivity. }
  assert (HL : forall y, In y L -> y <> seg) by (intros y Hy; apply Hne; right; exact Hy).
  destruct (tree_get x t) as [lf|] eqn:G.
  - destruct (repr_some _ _ _ _ R G) as [_ Hp]. cbn [app get_policy_loop]. rewrite Hx.
    assert (E : match l_prefix lf with Some p => Some p | None => option_map acc cur end
                = option_map acc (lp_step v cur x)).
    { rewrite Hp. unfold lp_step. destruct (v true x); reflexivity. }
    destruct (l_exact lf); rewrite E; apply IH, HL.
  - destruct (repr_none _ _ _ R G) as [_ Hp]. cbn [app]. unfold lp_step at 2. rewrite Hp. apply IH, HL.
Qed.

Lemma get_policy_spec t v seg : repr t v -> get_policy seg t = option_map acc (applicable v seg).
Proof.
  intros R. unfold get_policy, walk_path, applicable, longest_prefix.
  destruct (prefixes_snoc seg) as (pre & -> & Hne).
  change (flat_map _ (pre ++ [seg])) with (wp (pre ++ [seg]) t).
  unfold wp. rewrite flat_map_app. fold (wp pre t). fold (wp [seg] t).
  change (get_policy_loop seg (wp pre t ++ wp [seg] t) None)
    with (get_policy_loop seg (wp pre t ++ wp [seg] t) (option_map acc None)).
  rewrite (gp_pre seg t v R pre Hne (wp [seg] t) None), fold_left_app. cbn [fold_left wp flat_map].
  fold (lp_step v).
  destruct (tree_get seg t) as [lf|] eqn:G.
  - destruct (repr_some _ _ _ _ R G) as [He Hp]. cbn [app get_policy_loop]. rewrite He, Hp, String.eqb_refl.
    destruct (v false seg); cbn [option_map]; [reflexivity|].
    unfold lp_step at 2. destruct (v true seg); reflexivity.
  - destruct (repr_none _ _ _ R G) as [He Hp]. cbn [app get_policy_loop]. rewrite He.
    unfold lp_step at 1. rewrite Hp. reflexivity.
Qed.

Lemma lookup_decide_spec t v n need : repr t v -> lookup_decide t n need = dec_of (applicable v n) need.
Proof.
  intros R. unfold lookup_decide. rewrite (get_policy_spec t v n R).
  destruct (applicable v n); cbn [option_map dec_of]; [apply enforce_grants|reflexivity].
Qed.

Definition base_dec (good : level -> bool) (o : option level) : decision :=
  match o with Some l => if good l then Allow else Deny | None => Default end.

Lemma kwp_base_spec t v : repr t v -> forall L cur,
  kwp_base (wp L t) (base_dec is_write cur) = base_dec is_write (fold_left (lp_step v) L cur).
Proof.
  intros R. induction L as [|x L IH]; intros cur; [reflexivity|].
  cbn [wp flat_map fold_left]. fold (wp L t). destruct (tree_get x t) as [lf|] eqn:G.
  - destruct (repr_some _ _ _ _ R G) as [_ Hp]. cbn [app kwp_base]. rewrite <- IH. f_equal.
    rewrite Hp. unfold lp_step. destruct (v true x) as [[]|]; reflexivity.
  - destruct (repr_none _ _ _ R G) as [_ Hp]. cbn [app].
    replace (lp_step v cur x) with cur by (unfold lp_step; rewrite Hp; reflexivity). apply IH.
Qed.

Lemma srp_base_spec t v : repr t v -> forall L cur,
  srp_base (wp L t) (base_dec is_rw cur) = base_dec is_rw (fold_left (lp_step v) L cur).
Proof.
  intros R. induction L as [|x L IH]; intros cur; [reflexivity|].
  cbn [wp flat_map fold_left]. fold (wp L t). destruct (tree_get x t) as [lf|] eqn:G.
  - destruct (repr_some _ _ _ _ R G) as [_ Hp]. cbn [app srp_base]. rewrite <- IH. f_equal.
    rewrite Hp. unfold lp_step. destruct (v true x) as [[]|]; reflexivity.
  - destruct (repr_none _ _ _ R G) as [_ Hp]. cbn [app].
    replace (lp_step v cur x) with cur by (unfold lp_step; rewrite Hp; reflexivity). apply IH.
Qed.

(* ---- Walk / WalkPrefix: a test over the stored leaves is a test over the rules ---- *)

Lemma tree_existsb t v S (F : string -> option access -> option access -> bool) :
  wf_tree t -> repr t v -> covers S v -> (forall k, F k None None = false) ->
  existsb (fun e => F (fst e) (l_exact (snd e)) (l_prefix (snd e))) t
  = existsb (fun n => F n (option_map acc (v false n)) (option_map acc (v true n))) S.
Proof.
  intros W R C F0. apply bool_eq_iff. rewrite !existsb_exists. split.
  - intros ([k lf] & Hin & HF). cbn [fst snd] in HF.
    assert (G : tree_get k t = Some lf) by (apply (In_alookup _ String.eqb_eq); assumption).
    destruct (repr_some _ _ _ _ R G) as [He Hp]. exists k. rewrite <- He, <- Hp. split; [|exact HF].
    destruct (v false k) as [l|] eqn:E1; [apply (C false k); congruence|].
    destruct (v true k) as [l|] eqn:E2; [apply (C true k); congruence|].
    cbn in He, Hp. rewrite He, Hp, F0 in HF. discriminate.
  - intros (n & Hin & HF). destruct (tree_get n t) as [lf|] eqn:G.
    + destruct (repr_some _ _ _ _ R G) as [He Hp]. exists (n, lf). split.
      * apply (alookup_In _ String.eqb_eq), G.
      * cbn [fst snd]. rewrite He, Hp. exact HF.
    + destruct (repr_none _ _ _ R G) as [He Hp]. rewrite He, Hp in HF. cbn in HF. rewrite F0 in HF. discriminate.
Qed.

Lemma leaf_eta lf : lf = Leaf (l_exact lf) (l_prefix lf).
Proof. destruct lf; reflexivity. Qed.

Lemma covers_empty S v l : covers S v -> v true EmptyString = Some l -> In EmptyString S.
Proof. intros C E. apply (C true). congruence. Qed.

Lemma any_allowed_spec t v S need :
  wf_tree t -> repr t v -> covers S v -> any_allowed t need = spec_any v S need.
Proof.
  intros W R C. unfold any_allowed, spec_any.
  assert (D0 : match tree_get EmptyString t with Some lf => leaf_any need lf true | None => Default end
               = dec_of (v true EmptyString) need).
  { destruct (tree_get EmptyString t) as [lf|] eqn:G.
    - destruct (repr_some _ _ _ _ R G) as [_ Hp]. unfold leaf_any. rewrite Hp. cbn [orb].
      destruct (v true EmptyString); cbn [option_map dec_of]; [apply enforce_grants|reflexivity].
    - destruct (repr_none _ _ _ R G) as [_ Hp]. rewrite Hp. reflexivity. }
  rewrite D0.
  assert (E1 : existsb (fun e => decision_eqb (leaf_any need (snd e) false) Allow) t
               = existsb (fun n => decision_eqb (leaf_any need (Leaf (option_map acc (v false n)) (option_map acc (v true n))) false) Allow) S).
  { rewrite <- (tree_existsb t v S (fun _ e p => decision_eqb (leaf_any need (Leaf e p) false) Allow) W R C) by reflexivity.
    apply existsb_ext'. intros [k lf]. cbn [fst snd]. rewrite <- leaf_eta. reflexivity. }
  rewrite E1. unfold rules_at.
  rewrite existsb_flat_map.
  assert (E : forall n, decision_eqb (leaf_any need (Leaf (option_map acc (v false n)) (option_map acc (v true n))) false) Allow
                      = existsb (fun l => grants l need) (olist (v false n) ++ olist (v true n))).
  { intros n. unfold leaf_any. cbn [l_exact l_prefix].
    destruct (v false n) as [le|], (v true n) as [lp|]; cbn [option_map olist app existsb is_none orb];
      rewrite ?enforce_grants; repeat match goal with |- context [grants ?l need] => destruct (grants l need) end;
      reflexivity. }
  rewrite (existsb_ext' _ _ S E).
  destruct (existsb (fun x => existsb (fun l => grants l need) (olist (v false x) ++ olist (v true x))) S) eqn:Ex.
  - destruct (decision_eqb (dec_of (v true EmptyString) need) Allow); reflexivity.
  - destruct (v true EmptyString) as [l|] eqn:E0; cbn [dec_of is_some]; [|reflexivity].
    destruct (grants l need) eqn:Gl; [|reflexivity]. exfalso.
    assert (Hin := covers_empty S v l C E0).
    assert (existsb (fun x => existsb (fun l => grants l need) (olist (v false x) ++ olist (v true x))) S = true).
    { apply existsb_exists. exists EmptyString. split; [exact Hin|]. rewrite existsb_app, E0. cbn. rewrite Gl.
      apply orb_true_r. }
    congruence.
Qed.

Lemma all_allowed_spec t v S need :
  wf_tree t -> repr t v -> covers S v -> all_allowed t need = spec_all v S need.
Proof.
  intros W R C. unfold all_allowed, spec_all.
  assert (D0 : match tree_get EmptyString t with Some lf => leaf_all need lf true | None => Default end
               = dec_of (v true EmptyString) need).
  { destruct (tree_get EmptyString t) as [lf|] eqn:G.
    - destruct (repr_some _ _ _ _ R G) as [_ Hp]. unfold leaf_all. rewrite Hp. cbn [orb].
      destruct (v true EmptyString); cbn [option_map dec_of]; [apply enforce_grants|reflexivity].
    - destruct (repr_none _ _ _ R G) as [_ Hp]. rewrite Hp. reflexivity. }
  rewrite D0.
  assert (E1 : existsb (fun e => decision_eqb (leaf_all need (snd e) false) Deny) t
               = existsb (fun n => decision_eqb (leaf_all need (Leaf (option_map acc (v false n)) (option_map acc (v true n))) false) Deny) S).
  { rewrite <- (tree_existsb t v S (fun _ e p => decision_eqb (leaf_all need (Leaf e p) false) Deny) W R C) by reflexivity.
    apply existsb_ext'. intros [k lf]. cbn [fst snd]. rewrite <- leaf_eta. reflexivity. }
  rewrite E1. unfold rules_at.
  rewrite existsb_flat_map.
  assert (E : forall n, decision_eqb (leaf_all need (Leaf (option_map acc (v false n)) (option_map acc (v true n))) false) Deny
                      = existsb (fun l => negb (grants l need)) (olist (v false n) ++ olist (v true n))).
  { intros n. unfold leaf_all. cbn [l_exact l_prefix].
    destruct (v false n) as [le|], (v true n) as [lp|]; cbn [option_map olist app existsb is_none orb];
      rewrite ?enforce_grants; repeat match goal with |- context [grants ?l need] => destruct (grants l need) end;
      reflexivity. }
  rewrite (existsb_ext' _ _ S E).
  destruct (existsb (fun x => existsb (fun l => negb (grants l need)) (olist (v false x) ++ olist (v true x))) S) eqn:Ex.
  - destruct (decision_eqb (dec_of (v true EmptyString) need) Deny); reflexivity.
  - destruct (v true EmptyString) as [l|] eqn:E0; cbn [dec_of is_some]; [|reflexivity].
    destruct (grants l need) eqn:Gl; [reflexivity|]. exfalso.
    assert (Hin := covers_empty S v l C E0).
    assert (existsb (fun x => existsb (fun l => negb (grants l need)) (olist (v false x) ++ olist (v true x))) S = true).
    { apply existsb_exists. exists EmptyString. split; [exact Hin|]. rewrite existsb_app, E0. cbn. rewrite Gl.
      apply orb_true_r. }
    congruence.
Qed.

(* the WalkPrefix half shared by KeyWritePrefix and ServiceReadPrefix *)
Lemma below_spec (bad : option access -> bool) (good : level -> bool) t v S p :
  wf_tree t -> repr t v -> covers S v -> bad None = false ->
  (forall l, bad (Some (acc l)) = negb (good l)) ->
  existsb (fun e => bad (l_prefix (snd e)) || bad (l_exact (snd e))) (walk_prefix p t)
  = existsb (fun l => negb (good l)) (rules_at v (filter (String.prefix p) S)).
Proof.
  intros W R C B0 B1. unfold walk_prefix, rules_at. rewrite existsb_filter, existsb_flat_map, existsb_filter.
  rewrite (tree_existsb t v S (fun k e pf => String.prefix p k && (bad pf || bad e)) W R C)
    by (intros k; rewrite B0; apply andb_false_r).
  apply existsb_ext'. intros n. f_equal. rewrite existsb_app.
  destruct (v false n), (v true n); cbn [option_map olist existsb]; rewrite ?B0, ?B1, ?orb_false_r;
    try reflexivity; apply orb_comm.
Qed.

Lemma not_write_spec l : not_write (Some (acc l)) = negb (is_write l).
Proof. destruct l; reflexivity. Qed.
Lemma not_rw_spec l : not_rw (Some (acc l)) = negb (is_rw l).
Proof. destruct l; reflexivity. Qed.

Lemma key_write_prefix_spec t v S p :
  wf_tree t -> repr t v -> covers S v -> key_write_prefix t p = spec_subtree is_write v S p.
Proof.
  intros W R C. unfold key_write_prefix, spec_subtree, walk_path.
  change (flat_map _ (prefixes p)) with (wp (prefixes p) t).
  assert (B : kwp_base (wp (prefixes p) t) Default = base_dec is_write (longest_prefix v p))
    by apply (kwp_base_spec t v R (prefixes p) None).
  rewrite !B.
  rewrite (below_spec not_write is_write t v S p W R C eq_refl not_write_spec).
  destruct (longest_prefix v p) as [l|]; cbn [base_dec]; [destruct (is_write l)|]; cbn [negb decision_eqb];
    try reflexivity;
    destruct (existsb (fun l => negb (is_write l)) (rules_at v (filter (String.prefix p) S))); reflexivity.
Qed.

Lemma service_read_prefix_spec t v S p :
  wf_tree t -> repr t v -> covers S v -> service_read_prefix t p = spec_subtree is_rw v S p.
Proof.
  intros W R C. unfold service_read_prefix, spec_subtree, walk_path.
  change (flat_map _ (prefixes p)) with (wp (prefixes p) t).
  assert (B : srp_base (wp (prefixes p) t) Default = base_dec is_rw (longest_prefix v p))
    by apply (srp_base_spec t v R (prefixes p) None).
  rewrite !B.
  rewrite (below_spec not_rw is_rw t v S p W R C eq_refl not_rw_spec).
  destruct (longest_prefix v p) as [l|]; cbn [base_dec]; [destruct (is_rw l)|]; cbn [negb];
    destruct (existsb (fun l => negb (is_rw l)) (rules_at v (filter (String.prefix p) S))); reflexivity.
Qed.

(* ================================================================ Part 4: the authorizer of a policy list *)

Lemma pfold_some ps : forall x,
  fold_left pstep ps (Some x) = Some (fold_left (fun cur p => pmax p cur) ps x).
Proof. induction ps as [|p ps IH]; intros x; cbn [fold_left]; [reflexivity|]. apply IH. Qed.

Lemma plevels_map {A} (f : A -> pstr) l : plevels (map f l) = flat_map (fun x => olist (doc_level (f x))) l.
Proof. unfold plevels. rewrite flat_map_concat_map, map_map, <- flat_map_concat_map. reflexivity. Qed.

Lemma forallb_filter {A} (f g : A -> bool) l : forallb f l = true -> forallb f (filter g l) = true.
Proof.
  rewrite !forallb_forall. intros H x Hx. apply filter_In in Hx as [Hx _]. apply H, Hx.
Qed.

Lemma all_rules_levelled ps : forallb levelled ps = true -> forallb levelled_rule (all_rules ps) = true.
Proof.
  induction ps as [|p ps IH]; intros H; [reflexivity|].
  cbn [forallb] in H. apply andb_true_iff in H as [Hp H].
  cbn [all_rules flat_map]. rewrite forallb_app. fold (all_rules ps). rewrite (IH H), andb_true_r. exact Hp.
Qed.

Lemma option_map_map {A B C} (f : A -> B) (g : B -> C) o : option_map g (option_map f o) = option_map (fun x => g (f x)) o.
Proof. destruct o; reflexivity. Qed.

(* the merged scalar rules need no hypothesis: a string only ever wins when it names a level *)
Lemma scalar_fold ps : forall cur, lev_or_empty cur = true ->
  lev_or_empty (fold_left (fun cur p => pmax p cur) ps cur) = true.
Proof. induction ps as [|p ps IH]; intros cur H; cbn [fold_left]; [exact H|]. apply IH, pmax_lev_or_empty, H. Qed.

Section Merged.
  Variable ps : list policy.
  Hypothesis Hlev : forallb levelled ps = true.

  Let rs := all_rules ps.
  Let ctx := fold_left merge_rule rs [].

  Lemma ctx_nodup : NoDup (map fst ctx).
  Proof. apply merge_fold_nodup. constructor. Qed.

  Lemma rs_lev k pf n : forallb levelled_rule (matching rs k pf n) = true.
  Proof. apply forallb_filter, all_rules_levelled, Hlev. Qed.

  Lemma ctx_pol k pf n :
    option_map (fun v => doc_level (v_pol v)) (lookup (k, pf, n) ctx)
    = match matching rs k pf n with [] => None | _ => Some (eff rs k pf n) end.
  Proof.
    rewrite <- (option_map_map v_pol doc_level). unfold ctx. rewrite merge_fold_pol. cbn [alookup option_map].
    change (keyed rs (k, pf, n)) with (matching rs k pf n). rewrite pfold_levels_none, plevels_map.
    unfold eff. destruct (matching rs k pf n); reflexivity.
  Qed.

  Lemma eff_some k pf n : matching rs k pf n <> [] -> exists l, eff rs k pf n = Some l.
  Proof.
    intros Hne. assert (Hl := rs_lev k pf n). unfold eff. assert (S := strongest_spec
      (flat_map (fun r => olist (doc_level (r_pol r))) (matching rs k pf n))).
    destruct (strongest _) as [l|]; [eauto|]. exfalso.
    destruct (matching rs k pf n) as [|r l]; [contradiction|].
    cbn [forallb] in Hl. apply andb_true_iff in Hl as [Hr _]. unfold levelled_rule in Hr.
    apply andb_true_iff in Hr as [Hp _]. unfold has_level in Hp. cbn [flat_map] in S.
    destruct (doc_level (r_pol r)); [discriminate|discriminate].
  Qed.

  Lemma eff_none k pf n : matching rs k pf n = [] -> eff rs k pf n = None.
  Proof. intros E. unfold eff. rewrite E. reflexivity. Qed.

  Lemma ctx_int pf n val : lookup (KService, pf, n) ctx = Some val ->
    doc_level (v_int val) = strongest (flat_map (fun r => olist (doc_level (r_int r))) (matching rs KService pf n)).
  Proof.
    intros L. assert (H := merge_fold_int rs [] pf n). fold ctx in H. rewrite L in H.
    cbn [alookup option_map] in H. change (keyed rs (KService, pf, n)) with (matching rs KService pf n) in H.
    assert (H' := f_equal (option_map doc_level) H). rewrite pfold_levels_none, plevels_map in H'.
    cbn [option_map] in H'. destruct (map r_int (matching rs KService pf n)) eqn:E; [discriminate|]. congruence.
  Qed.

  (* the Intentions field of every service entry is empty or names a level *)
  Lemma ctx_int_lev pf n val : lookup (KService, pf, n) ctx = Some val -> lev_or_empty (v_int val) = true.
  Proof.
    assert (G : forall l c, forallb levelled_rule l = true ->
                (forall pf n val, alookup rkey_eqb (KService, pf, n) c = Some val -> lev_or_empty (v_int val) = true) ->
                forall pf n val, alookup rkey_eqb (KService, pf, n) (fold_left merge_rule l c) = Some val -> lev_or_empty (v_int val) = true).
    { induction l as [|r l IH]; intros c Hl Hc pf0 n0 val0; cbn [fold_left]; [apply Hc|].
      cbn [forallb] in Hl. apply andb_true_iff in Hl as [Hr Hl]. apply IH; [exact Hl|].
      intros pf' n' val'. rewrite merge_rule_lookup. destruct (rkey_eqb (KService, pf', n') (rule_key r)) eqn:E; [|apply Hc].
      apply rkey_eqb_eq in E. assert (Hk : r_kind r = KService) by (unfold rule_key in E; congruence).
      intros [= <-]. unfold levelled_rule in Hr. rewrite Hk in Hr. apply andb_true_iff in Hr as [_ Hri].
      unfold combine. rewrite Hk. destruct (alookup rkey_eqb (rule_key r) c) as [e|] eqn:Le; [|exact Hri].
      cbn [v_int]. apply pmax_lev_or_empty. rewrite <- E in Le. apply (Hc _ _ _ Le). }
    apply (G rs [] (all_rules_levelled ps Hlev)). intros ? ? ? [=].
  Qed.

  Lemma merged_ctx : m_rules (fold_left merge_policy ps mctx_init) = ctx.
  Proof. apply merge_policies_rules. Qed.

  Lemma merged_scalar (f : policy -> pstr) (g : mctx -> pstr) :
    (forall c p, g (merge_policy c p) = merge_scalar (f p) (g c)) -> g mctx_init = PEmpty ->
    doc_level (g (fold_left merge_policy ps mctx_init)) = scalar f ps
    /\ lev_or_empty (g (fold_left merge_policy ps mctx_init)) = true.
  Proof.
    intros Hg H0. rewrite (merge_policies_scalar f g Hg), H0. split; [|apply scalar_fold; reflexivity].
    assert (H := pfold_levels (map f ps) PEmpty). rewrite pfold_some in H. cbn [option_map] in H.
    injection H as H. rewrite H. unfold scalar. rewrite <- plevels_map. reflexivity.
  Qed.

  (* any policy whose scalars are the merged ones and whose rules are the merged rules in some
     order (Go's map iteration order in fill) *)
  Variable p' : policy.
  Hypothesis Hacl : p_acl p' = p_acl (merge_policies ps).
  Hypothesis Hkeyring : p_keyring p' = p_keyring (merge_policies ps).
  Hypothesis Hoperator : p_operator p' = p_operator (merge_policies ps).
  Hypothesis Hmesh : p_mesh p' = p_mesh (merge_policies ps).
  Hypothesis Hpeering : p_peering p' = p_peering (merge_policies ps).
  Hypothesis Hperm : Permutation (p_rules p') (p_rules (merge_policies ps)).

  Definition entry_rule (e : rkey * mval) : rule :=
    let '((k, pf, n), v) := e in Rule k pf n (v_pol v) (v_int v).

  Lemma filled_rules : p_rules (merge_policies ps) = map entry_rule ctx.
  Proof. unfold merge_policies, fill. cbn [p_rules]. rewrite merged_ctx. reflexivity. Qed.

  Lemma filled_keys : map rule_key (map entry_rule ctx) = map fst ctx.
  Proof. rewrite map_map. apply map_ext. intros [[[k pf] n] v]. reflexivity. Qed.

  Lemma rules'_nodup : NoDup (map rule_key (p_rules p')).
  Proof.
    eapply Permutation_NoDup; [apply Permutation_sym, Permutation_map, Hperm|].
    rewrite filled_rules, filled_keys. apply ctx_nodup.
  Qed.

  Lemma rules'_in r : In r (p_rules p') <-> exists val, lookup (rule_key r) ctx = Some val /\ r = entry_rule (rule_key r, val).
  Proof.
    split.
    - intros H. eapply Permutation_in in H; [|exact Hperm]. rewrite filled_rules in H.
      apply in_map_iff in H as ([[[k pf] n] val] & <- & Hin). exists val. split; [|reflexivity].
      apply (In_alookup _ rkey_eqb_eq); [apply ctx_nodup|exact Hin].
    - intros (val & L & E). eapply Permutation_in; [apply Permutation_sym, Hperm|]. rewrite filled_rules.
      apply in_map_iff. exists (rule_key r, val). split; [symmetry; exact E|].
      apply (alookup_In _ rkey_eqb_eq), L.
  Qed.

  Lemma rules'_keys key : In key (map rule_key (p_rules p')) <-> lookup key ctx <> None.
  Proof.
    split.
    - intros H. apply in_map_iff in H as (r & <- & Hr). apply rules'_in in Hr as (val & L & _). congruence.
    - intros H. destruct (lookup key ctx) as [val|] eqn:L; [|contradiction].
      apply in_map_iff. exists (entry_rule (key, val)). destruct key as [[k pf] n]. split; [reflexivity|].
      apply rules'_in. exists val. split; [exact L|reflexivity].
  Qed.

  Lemma rules'_levelled : forallb levelled_rule (p_rules p') = true.
  Proof.
    apply forallb_forall. intros r Hr. apply rules'_in in Hr as (val & L & E).
    destruct (rule_key r) as [[k pf] n] eqn:Ek. rewrite E. cbn [entry_rule]. unfold levelled_rule. cbn [r_pol r_int r_kind].
    assert (Hp := ctx_pol k pf n). rewrite L in Hp. cbn [option_map] in Hp.
    apply andb_true_iff. split.
    - destruct (matching rs k pf n) eqn:M; [discriminate|]. injection Hp as Hp.
      destruct (eff_some k pf n) as [lv El]; [rewrite M; discriminate|]. unfold has_level. rewrite Hp, El. reflexivity.
    - destruct k; try reflexivity. apply (ctx_int_lev pf n val L).
  Qed.

  Variable a : authorizer.
  Hypothesis Hload : load_rules p' = Some a.

  Lemma load_inv : exists a1,
    fold_left load_rule (p_rules p') (Some authorizer_empty) = Some a1
    /\ (forall k, tree_of a k = tree_of a1 k) /\ a_intention a = a_intention a1 /\ a_traffic a = a_traffic a1
    /\ load_scalar (p_acl p') = Some (a_acl a) /\ load_scalar (p_keyring p') = Some (a_keyring a)
    /\ load_scalar (p_operator p') = Some (a_operator a) /\ load_scalar (p_mesh p') = Some (a_mesh a)
    /\ load_scalar (p_peering p') = Some (a_peering a).
  Proof.
    unfold load_rules in Hload.
    destruct (fold_left load_rule (p_rules p') (Some authorizer_empty)) as [a1|]; [|discriminate].
    destruct (load_scalar (p_acl p')), (load_scalar (p_keyring p')), (load_scalar (p_operator p')),
             (load_scalar (p_mesh p')), (load_scalar (p_peering p')); try discriminate.
    injection Hload as <-. exists a1. repeat split; try reflexivity; try (intros []; reflexivity).
  Qed.

  Lemma auth_wf : wf_auth a.
  Proof.
    destruct load_inv as (a1 & F & T & I & Tr & _).
    destruct (load_fold_spec _ rules'_nodup _ _ F) as (_ & _ & W). specialize (W authorizer_empty_wf).
    destruct W as (W1 & W2 & W3). split; [intros k; rewrite T; apply W1|]. split; congruence.
  Qed.

  Lemma auth_kslot k pf n : kslot a k pf n = option_map acc (eff rs k pf n).
  Proof.
    destruct load_inv as (a1 & F & T & I & Tr & _).
    destruct (load_fold_spec _ rules'_nodup _ _ F) as (R & N & _).
    unfold kslot. rewrite T. fold (kslot a1 k pf n).
    assert (Hp := ctx_pol k pf n).
    destruct (lookup (k, pf, n) ctx) as [val|] eqn:L.
    - assert (Hin : In (entry_rule ((k, pf, n), val)) (p_rules p')).
      { apply rules'_in. exists val. split; [exact L|reflexivity]. }
      destruct (R _ Hin) as [Rk _]. cbn [entry_rule r_kind r_prefix r_name r_pol] in Rk. rewrite Rk, alfs_lv.
      cbn [option_map] in Hp. destruct (matching rs k pf n); [discriminate|]. injection Hp as ->. reflexivity.
    - destruct (N k pf n) as [Nk _]; [rewrite rules'_keys, L; auto|]. rewrite Nk.
      cbn [option_map] in Hp. destruct (matching rs k pf n) eqn:M; [|discriminate].
      rewrite (eff_none _ _ _ M). destruct k; reflexivity.
  Qed.

  Lemma auth_islot pf n : islot a pf n = option_map acc (eff_int rs pf n).
  Proof.
    destruct load_inv as (a1 & F & T & I & Tr & _).
    destruct (load_fold_spec _ rules'_nodup _ _ F) as (R & N & _).
    unfold islot. rewrite I. fold (islot a1 pf n).
    assert (Hp := ctx_pol KService pf n). unfold eff_int.
    destruct (lookup (KService, pf, n) ctx) as [val|] eqn:L.
    - assert (Hin : In (entry_rule ((KService, pf, n), val)) (p_rules p')).
      { apply rules'_in. exists val. split; [exact L|reflexivity]. }
      destruct (R _ Hin) as [_ Ri]. specialize (Ri eq_refl).
      cbn [entry_rule r_kind r_prefix r_name r_pol r_int] in Ri.
      rewrite Ri, (intention_level _ _ (ctx_int_lev pf n val L)), (ctx_int pf n val L).
      cbn [option_map] in Hp. destruct (matching rs KService pf n) eqn:M; [discriminate|]. injection Hp as Hp.
      destruct (eff_some KService pf n) as [s Es]; [rewrite M; discriminate|]. rewrite Hp, Es.
      destruct (strongest _) as [i|]; [reflexivity|]. destruct s; reflexivity.
    - destruct (N KService pf n) as [_ Ni]; [rewrite rules'_keys, L; auto|]. rewrite (Ni eq_refl).
      cbn [option_map] in Hp. destruct (matching rs KService pf n) eqn:M; [|discriminate].
      rewrite (eff_none _ _ _ M). reflexivity.
  Qed.

  Lemma auth_traffic : a_traffic a = [].
  Proof. apply auth_wf. Qed.

  Lemma merged_scalars :
    (doc_level (p_acl p') = scalar p_acl ps /\ lev_or_empty (p_acl p') = true)
    /\ (doc_level (p_keyring p') = scalar p_keyring ps /\ lev_or_empty (p_keyring p') = true)
    /\ (doc_level (p_operator p') = scalar p_operator ps /\ lev_or_empty (p_operator p') = true)
    /\ (doc_level (p_mesh p') = scalar p_mesh ps /\ lev_or_empty (p_mesh p') = true)
    /\ (doc_level (p_peering p') = scalar p_peering ps /\ lev_or_empty (p_peering p') = true).
  Proof.
    rewrite Hacl, Hkeyring, Hoperator, Hmesh, Hpeering. unfold merge_policies, fill.
    cbn [p_acl p_keyring p_operator p_mesh p_peering].
    split; [|split; [|split; [|split]]]; apply merged_scalar; reflexivity.
  Qed.

  Lemma auth_scalars :
    a_acl a = option_map acc (scalar p_acl ps) /\ a_keyring a = option_map acc (scalar p_keyring ps)
    /\ a_operator a = option_map acc (scalar p_operator ps) /\ a_mesh a = option_map acc (scalar p_mesh ps)
    /\ a_peering a = option_map acc (scalar p_peering ps).
  Proof.
    destruct load_inv as (a1 & _ & _ & _ & _ & L1 & L2 & L3 & L4 & L5).
    destruct merged_scalars as ((E1 & V1) & (E2 & V2) & (E3 & V3) & (E4 & V4) & (E5 & V5)).
    rewrite (load_scalar_lv _ V1), E1 in L1. rewrite (load_scalar_lv _ V2), E2 in L2.
    rewrite (load_scalar_lv _ V3), E3 in L3. rewrite (load_scalar_lv _ V4), E4 in L4.
    rewrite (load_scalar_lv _ V5), E5 in L5. repeat split; congruence.
  Qed.
End Merged.

Lemma strongest_nil_none {A} (f : A -> list level) l : strongest (flat_map f l) <> None -> l <> [].
Proof. intros H ->. apply H. reflexivity. Qed.

Lemma covers_eff rs k : covers (names_of rs k) (eff rs k).
Proof.
  intros pf n H. unfold eff in H. apply strongest_nil_none in H.
  destruct (matching rs k pf n) as [|r l] eqn:E; [contradiction|].
  assert (Hin : In r (matching rs k pf n)) by (rewrite E; left; reflexivity).
  apply filter_In in Hin as [Hin Hk]. apply rkey_eqb_eq in Hk. unfold rule_key in Hk. injection Hk as Hk _ Hn.
  unfold names_of. apply in_map_iff. exists r. split; [exact Hn|]. apply filter_In. split; [exact Hin|].
  apply rkind_eqb_eq, Hk.
Qed.

Lemma covers_eff_int rs : covers (names_of rs KService) (eff_int rs).
Proof.
  intros pf n H. apply (covers_eff rs KService pf n). intros E. apply H. unfold eff_int. rewrite E. reflexivity.
Qed.

Lemma scalar_decide_spec o need : scalar_decide (option_map acc o) need = dec_of o need.
Proof. destruct o; cbn; [apply enforce_grants|reflexivity]. Qed.

Lemma lookup_decide_nil n need : lookup_decide [] n need = Default.
Proof.
  rewrite (lookup_decide_spec [] no_view n need) by (intros pf x; reflexivity).
  unfold applicable, longest_prefix, no_view. generalize (prefixes n). intros L.
  induction L as [|x L IH]; [reflexivity|exact IH].
Qed.

(* The authorizer built from a policy list decides every request as the documented rule does;
   this holds for whatever order Go's map iteration hands the merged rules to loadRules. *)
Theorem policy_authorizer_spec ps p' a :
  forallb levelled ps = true ->
  p_acl p' = p_acl (merge_policies ps) -> p_keyring p' = p_keyring (merge_policies ps) ->
  p_operator p' = p_operator (merge_policies ps) -> p_mesh p' = p_mesh (merge_policies ps) ->
  p_peering p' = p_peering (merge_policies ps) ->
  Permutation (p_rules p') (p_rules (merge_policies ps)) ->
  load_rules p' = Some a ->
  forall m, policy_decide a m = spec_decide ps m.
Proof.
  intros Hc H1 H2 H3 H4 H5 HP HL m.
  assert (Rk : forall k, repr (tree_of a k) (eff (all_rules ps) k))
    by (intros k pf n; apply (auth_kslot ps p' HP a HL)).
  assert (Ri : repr (a_intention a) (eff_int (all_rules ps)))
    by (intros pf n; apply (auth_islot ps Hc p' HP a HL)).
  destruct (auth_wf ps p' HP a HL) as (Wk & Wi & Wt).
  destruct (auth_scalars ps p' H1 H2 H3 H4 H5 a HL) as (S1 & S2 & S3 & S4 & S5).
  assert (Ck := covers_eff (all_rules ps)). assert (Ci := covers_eff_int (all_rules ps)).
  assert (Look : forall k n need, lookup_decide (tree_of a k) n need = dec_of (applicable (eff (all_rules ps) k) n) need)
    by (intros; apply lookup_decide_spec, Rk).
  assert (Any : forall k need, any_allowed (tree_of a k) need = spec_any (eff (all_rules ps) k) (names_of (all_rules ps) k) need)
    by (intros; apply any_allowed_spec; auto).
  assert (All : forall k need, all_allowed (tree_of a k) need = spec_all (eff (all_rules ps) k) (names_of (all_rules ps) k) need)
    by (intros; apply all_allowed_spec; auto).
  destruct m; cbn [policy_decide spec_decide];
    rewrite ?S1, ?S2, ?S3, ?S4, ?S5, ?Wt, ?scalar_decide_spec;
    try reflexivity;
    try (apply (Look KAgent)); try (apply (Look KKey)); try (apply (Look KNode)); try (apply (Look KService));
    try (apply (Look KSession)); try (apply (Look KEvent)); try (apply (Look KQuery)).
  - (* IntentionRead *)
    destruct (String.eqb n star); [apply any_allowed_spec; auto|apply lookup_decide_spec, Ri].
  - (* IntentionWrite *)
    destruct (String.eqb n star); [apply all_allowed_spec; auto|apply lookup_decide_spec, Ri].
  - (* KeyWrite *)
    change (a_key a) with (tree_of a KKey). rewrite (get_policy_spec _ _ n (Rk KKey)).
    destruct (applicable (eff (all_rules ps) KKey) n) as [l|]; cbn [option_map dec_of]; [|reflexivity].
    rewrite enforce_grants. destruct (grants l AWrite); reflexivity.
  - (* KeyWritePrefix *) apply (key_write_prefix_spec (tree_of a KKey)); auto.
  - (* MeshRead *) destruct (scalar p_mesh ps); cbn [option_map dec_of]; [apply enforce_grants|reflexivity].
  - (* MeshWrite *) destruct (scalar p_mesh ps); cbn [option_map dec_of]; [apply enforce_grants|reflexivity].
  - (* PeeringRead *) destruct (scalar p_peering ps); cbn [option_map dec_of]; [apply enforce_grants|reflexivity].
  - (* PeeringWrite *) destruct (scalar p_peering ps); cbn [option_map dec_of]; [apply enforce_grants|reflexivity].
  - (* NodeRead *)
    destruct peer; [|apply (Look KNode)].
    change (a_service a) with (tree_of a KService). change (a_node a) with (tree_of a KNode). rewrite Any, All.
    destruct (spec_any _ _ AWrite); reflexivity.
  - (* NodeReadAll *) apply (All KNode).
  - (* ServiceRead *)
    destruct peer; [|apply (Look KService)].
    change (a_service a) with (tree_of a KService). rewrite Any, All.
    destruct (spec_any _ _ AWrite); reflexivity.
  - (* ServiceReadAll *) apply (All KService).
  - (* ServiceReadPrefix *) apply (service_read_prefix_spec (tree_of a KService)); auto.
  - (* ServiceWriteAny *) apply (Any KService).
  - (* TrafficPermissionsRead *) destruct (String.eqb n star); [reflexivity|apply lookup_decide_nil].
  - (* TrafficPermissionsWrite *) destruct (String.eqb n star); [reflexivity|apply lookup_decide_nil].
Qed.

(* ---- the authorizer exists for every lowercase policy list ---- *)

Lemma load_rules_some ps p' :
  forallb levelled ps = true ->
  p_acl p' = p_acl (merge_policies ps) -> p_keyring p' = p_keyring (merge_policies ps) ->
  p_operator p' = p_operator (merge_policies ps) -> p_mesh p' = p_mesh (merge_policies ps) ->
  p_peering p' = p_peering (merge_policies ps) ->
  Permutation (p_rules p') (p_rules (merge_policies ps)) ->
  exists a, load_rules p' = Some a.
Proof.
  intros Hc H1 H2 H3 H4 H5 HP. unfold load_rules.
  destruct (load_fold_some _ (rules'_levelled ps Hc p' HP) authorizer_empty) as [a1 ->].
  destruct (merged_scalars ps p' H1 H2 H3 H4 H5) as ((_ & V1) & (_ & V2) & (_ & V3) & (_ & V4) & (_ & V5)).
  rewrite (load_scalar_lv _ V1), (load_scalar_lv _ V2), (load_scalar_lv _ V3), (load_scalar_lv _ V4), (load_scalar_lv _ V5).
  eexists; reflexivity.
Qed.

Lemma new_policy_authorizer_some ps :
  forallb levelled ps = true -> exists a, new_policy_authorizer ps = Some a.
Proof. intros Hc. apply (load_rules_some ps (merge_policies ps)); auto. Qed.

Lemma static_decide_spec s m : static_decide s m = spec_default s m.
Proof. destruct m; cbn; unfold bool_decision; reflexivity. Qed.

Lemma chain_decide_spec a s m ps :
  policy_decide a m = spec_decide ps m -> chain_decide a s m = spec_chain ps s m.
Proof.
  intros E. unfold chain_decide, spec_chain. cbn [execute_chain]. rewrite E, static_decide_spec.
  destruct (spec_decide ps m); try reflexivity.
  destruct m; cbn [spec_default]; repeat match goal with |- context [if ?b then _ else _] => destruct b end; reflexivity.
Qed.

(* ================================================================ Part 5: order and multiplicity independence *)

(* two lists with the same elements (order and multiplicity ignored) *)
Definition sameset {A} (l l' : list A) : Prop := forall x, In x l <-> In x l'.

Lemma Permutation_sameset {A} (l l' : list A) : Permutation l l' -> sameset l l'.
Proof. intros P x. split; apply Permutation_in; [|apply Permutation_sym]; exact P. Qed.

Lemma sameset_filter {A} (f : A -> bool) l l' : sameset l l' -> sameset (filter f l) (filter f l').
Proof. intros H x. rewrite !filter_In, (H x). reflexivity. Qed.

Lemma sameset_flat_map {A B} (f : A -> list B) l l' : sameset l l' -> sameset (flat_map f l) (flat_map f l').
Proof.
  intros H y. rewrite !in_flat_map. split; intros (x & Hx & Hy); exists x; (split; [apply H, Hx|exact Hy]).
Qed.

Lemma sameset_map {A B} (f : A -> B) l l' : sameset l l' -> sameset (map f l) (map f l').
Proof.
  intros H y. rewrite !in_map_iff. split; intros (x & Hy & Hx); exists x; (split; [exact Hy|apply H, Hx]).
Qed.

Lemma existsb_sameset {A} (f : A -> bool) l l' : sameset l l' -> existsb f l = existsb f l'.
Proof.
  intros P. apply bool_eq_iff. rewrite !existsb_exists.
  split; intros (x & Hin & Hx); exists x; (split; [apply P, Hin|exact Hx]).
Qed.

(* the strongest level only depends on which levels occur *)
Lemma strongest_sameset l1 l2 : sameset l1 l2 -> strongest l1 = strongest l2.
Proof.
  intros P. assert (H1 := strongest_spec l1). assert (H2 := strongest_spec l2).
  destruct (strongest l1) as [a|], (strongest l2) as [b|].
  - destruct H1 as [I1 M1], H2 as [I2 M2]. f_equal. apply rank_inj.
    assert (rank a <= rank b) by (apply M2, P, I1).
    assert (rank b <= rank a) by (apply M1, P, I2).
    lia.
  - subst l2. destruct H1 as [I1 _]. apply P in I1. destruct I1.
  - subst l1. destruct H2 as [I2 _]. apply P in I2. destruct I2.
  - reflexivity.
Qed.

Section SameSet.
  Variables ps ps' : list policy.
  Hypothesis HP : sameset ps ps'.

  Lemma rules_same : sameset (all_rules ps) (all_rules ps').
  Proof. apply sameset_flat_map, HP. Qed.

  Lemma eff_same k pf n : eff (all_rules ps) k pf n = eff (all_rules ps') k pf n.
  Proof. apply strongest_sameset, sameset_flat_map, sameset_filter, rules_same. Qed.

  Lemma eff_int_same pf n : eff_int (all_rules ps) pf n = eff_int (all_rules ps') pf n.
  Proof.
    unfold eff_int. rewrite eff_same.
    assert (P : sameset (flat_map (fun r => olist (doc_level (r_int r))) (matching (all_rules ps) KService pf n))
                        (flat_map (fun r => olist (doc_level (r_int r))) (matching (all_rules ps') KService pf n)))
      by apply sameset_flat_map, sameset_filter, rules_same.
    rewrite (strongest_sameset _ _ P). reflexivity.
  Qed.

  Lemma names_same k : sameset (names_of (all_rules ps) k) (names_of (all_rules ps') k).
  Proof. apply sameset_map, sameset_filter, rules_same. Qed.

  Lemma scalar_same f : scalar f ps = scalar f ps'.
  Proof. apply strongest_sameset, sameset_flat_map, HP. Qed.
End SameSet.

Lemma longest_prefix_ext v v' n : (forall pf x, v pf x = v' pf x) -> longest_prefix v n = longest_prefix v' n.
Proof.
  intros E. unfold longest_prefix. generalize (@None level). induction (prefixes n) as [|x L IH]; intros o; [reflexivity|].
  cbn [fold_left]. rewrite E. apply IH.
Qed.

Lemma applicable_ext v v' n : (forall pf x, v pf x = v' pf x) -> applicable v n = applicable v' n.
Proof. intros E. unfold applicable. rewrite E, (longest_prefix_ext v v' n E). reflexivity. Qed.

Lemma rules_at_ext v v' S S' : (forall pf x, v pf x = v' pf x) -> sameset S S' ->
  sameset (rules_at v S) (rules_at v' S').
Proof.
  intros E P. unfold rules_at.
  rewrite (flat_map_ext _ (fun n => olist (v' false n) ++ olist (v' true n))) by (intros x; rewrite !E; reflexivity).
  apply sameset_flat_map, P.
Qed.

Lemma spec_any_ext v v' S S' need : (forall pf x, v pf x = v' pf x) -> sameset S S' ->
  spec_any v S need = spec_any v' S' need.
Proof. intros E P. unfold spec_any. rewrite (existsb_sameset _ _ _ (rules_at_ext v v' S S' E P)), E. reflexivity. Qed.

Lemma spec_all_ext v v' S S' need : (forall pf x, v pf x = v' pf x) -> sameset S S' ->
  spec_all v S need = spec_all v' S' need.
Proof. intros E P. unfold spec_all. rewrite (existsb_sameset _ _ _ (rules_at_ext v v' S S' E P)), E. reflexivity. Qed.

Lemma spec_subtree_ext good v v' S S' p : (forall pf x, v pf x = v' pf x) -> sameset S S' ->
  spec_subtree good v S p = spec_subtree good v' S' p.
Proof.
  intros E P. unfold spec_subtree. rewrite (longest_prefix_ext v v' p E).
  rewrite (existsb_sameset _ _ _ (rules_at_ext v v' _ _ E (sameset_filter (String.prefix p) _ _ P))). reflexivity.
Qed.

(* the documented rule only looks at WHICH policies a token has: not at their order, not at how
   often one occurs *)
Theorem spec_decide_sameset ps ps' m : sameset ps ps' -> spec_decide ps m = spec_decide ps' m.
Proof.
  intros HP.
  assert (Ek := eff_same ps ps' HP). assert (Ei := eff_int_same ps ps' HP).
  assert (En := names_same ps ps' HP). assert (Es := scalar_same ps ps' HP).
  assert (A : forall k n, applicable (eff (all_rules ps) k) n = applicable (eff (all_rules ps') k) n)
    by (intros; apply applicable_ext; intros; apply Ek).
  assert (Ai : forall n, applicable (eff_int (all_rules ps)) n = applicable (eff_int (all_rules ps')) n)
    by (intros; apply applicable_ext; intros; apply Ei).
  assert (Any : forall k need, spec_any (eff (all_rules ps) k) (names_of (all_rules ps) k) need
                             = spec_any (eff (all_rules ps') k) (names_of (all_rules ps') k) need)
    by (intros; apply spec_any_ext; [intros; apply Ek|apply En]).
  assert (All : forall k need, spec_all (eff (all_rules ps) k) (names_of (all_rules ps) k) need
                             = spec_all (eff (all_rules ps') k) (names_of (all_rules ps') k) need)
    by (intros; apply spec_all_ext; [intros; apply Ek|apply En]).
  assert (Anyi : forall need, spec_any (eff_int (all_rules ps)) (names_of (all_rules ps) KService) need
                            = spec_any (eff_int (all_rules ps')) (names_of (all_rules ps') KService) need)
    by (intros; apply spec_any_ext; [intros; apply Ei|apply En]).
  assert (Alli : forall need, spec_all (eff_int (all_rules ps)) (names_of (all_rules ps) KService) need
                            = spec_all (eff_int (all_rules ps')) (names_of (all_rules ps') KService) need)
    by (intros; apply spec_all_ext; [intros; apply Ei|apply En]).
  assert (Sub : forall good k p, spec_subtree good (eff (all_rules ps) k) (names_of (all_rules ps) k) p
                               = spec_subtree good (eff (all_rules ps') k) (names_of (all_rules ps') k) p)
    by (intros; apply spec_subtree_ext; [intros; apply Ek|apply En]).
  destruct m; cbn [spec_decide]; rewrite ?A, ?Ai, ?Any, ?All, ?Anyi, ?Alli, ?Sub, ?Es; reflexivity.
Qed.

Theorem spec_decide_perm ps ps' m : Permutation ps ps' -> spec_decide ps m = spec_decide ps' m.
Proof. intros HP. apply spec_decide_sameset, Permutation_sameset, HP. Qed.

(* ---- "longest": the prefix rule chosen is the one with the longest name ---- *)

Lemma longest_prefix_fold v L : forall cur,
  match fold_left (lp_step v) L cur with
  | Some l => (cur = Some l /\ forall x, In x L -> v true x = None)
              \/ exists l1 p l2, L = l1 ++ p :: l2 /\ v true p = Some l /\ forall x, In x l2 -> v true x = None
  | None => cur = None /\ forall x, In x L -> v true x = None
  end.
Proof.
  induction L as [|x L IH]; intros cur; cbn [fold_left].
  - destruct cur; [left|]; split; auto; intros ? [].
  - specialize (IH (lp_step v cur x)). destruct (fold_left (lp_step v) L (lp_step v cur x)) as [l|].
    + destruct IH as [[Hc Hn]|(l1 & p & l2 & -> & Hp & Hn)].
      * unfold lp_step in Hc. destruct (v true x) as [lx|] eqn:Ex.
        -- right. exists [], x, L. injection Hc as ->. auto.
        -- left. split; [exact Hc|]. intros y [<-|Hy]; auto.
      * right. exists (x :: l1), p, l2. auto.
    + destruct IH as [Hc Hn]. unfold lp_step in Hc. destruct (v true x) eqn:Ex; [discriminate|].
      split; [exact Hc|]. intros y [<-|Hy]; auto.
Qed.

Theorem longest_prefix_spec v n :
  match longest_prefix v n with
  | Some l => exists p, String.prefix p n = true /\ v true p = Some l
                /\ forall q, String.prefix q n = true -> v true q <> None -> String.length q <= String.length p
  | None => forall q, String.prefix q n = true -> v true q = None
  end.
Proof.
  change (longest_prefix v n) with (fold_left (lp_step v) (prefixes n) None).
  assert (H := longest_prefix_fold v (prefixes n) None).
  destruct (fold_left (lp_step v) (prefixes n) None) as [l|].
  - destruct H as [[H _]|(l1 & p & l2 & E & Hp & Hn)]; [discriminate|].
    exists p. split; [apply prefixes_In; rewrite E; apply in_or_app; right; left; reflexivity|].
    split; [exact Hp|]. intros q Hq Hv. apply prefixes_In in Hq. rewrite E in Hq.
    apply in_app_or in Hq as [Hq|[<-|Hq]].
    + (* q comes earlier: it is shorter *)
      apply in_split in Hq as (m1 & m2 & ->). rewrite <- app_assoc in E. cbn [app] in E.
      apply Nat.lt_le_incl. eapply (prefixes_lengths n m1 q (m2 ++ p :: l2) E). apply in_or_app. right; left; reflexivity.
    + lia.
    + exfalso. apply Hv, Hn, Hq.
  - destruct H as [_ Hn]. intros q Hq. apply Hn, prefixes_In, Hq.
Qed.

(* ================================================================ Part 6: packaged statements *)

Theorem semantics ps :
  forallb levelled ps = true ->
  exists a, new_policy_authorizer ps = Some a
    /\ forall m, policy_decide a m = spec_decide ps m
    /\ forall s, chain_decide a s m = spec_chain ps s m.
Proof.
  intros Hc. destruct (new_policy_authorizer_some ps Hc) as [a Ha]. exists a. split; [exact Ha|].
  intros m.
  assert (E : policy_decide a m = spec_decide ps m)
    by (apply (policy_authorizer_spec ps (merge_policies ps) a); auto).
  split; [exact E|]. intros s. apply chain_decide_spec, E.
Qed.

Theorem order_independent ps ps' a a' :
  forallb levelled ps = true -> Permutation ps ps' ->
  new_policy_authorizer ps = Some a -> new_policy_authorizer ps' = Some a' ->
  forall m, policy_decide a m = policy_decide a' m /\ forall s, chain_decide a s m = chain_decide a' s m.
Proof.
  intros Hc HP Ha Ha' m.
  assert (Hc' : forallb levelled ps' = true).
  { apply forallb_forall. intros p Hp. revert p Hp. rewrite <- Forall_forall.
    eapply Permutation_Forall; [exact HP|]. apply Forall_forall. apply forallb_forall. exact Hc. }
  destruct (semantics ps Hc) as (b & Hb & Sb). destruct (semantics ps' Hc') as (b' & Hb' & Sb').
  assert (b = a) by congruence. assert (b' = a') by congruence. subst b b'.
  destruct (Sb m) as [E1 C1]. destruct (Sb' m) as [E2 C2].
  split; [rewrite E1, E2; apply spec_decide_perm, HP|].
  intros s. rewrite C1, C2. unfold spec_chain. rewrite (spec_decide_perm ps ps' m HP). reflexivity.
Qed.

(* Go's map iteration order in policyRulesMergeContext.fill does not matter *)
Theorem map_order_independent ps p' a a' :
  forallb levelled ps = true ->
  p_acl p' = p_acl (merge_policies ps) -> p_keyring p' = p_keyring (merge_policies ps) ->
  p_operator p' = p_operator (merge_policies ps) -> p_mesh p' = p_mesh (merge_policies ps) ->
  p_peering p' = p_peering (merge_policies ps) ->
  Permutation (p_rules p') (p_rules (merge_policies ps)) ->
  new_policy_authorizer ps = Some a -> load_rules p' = Some a' ->
  forall m, policy_decide a' m = policy_decide a m.
Proof.
  intros Hc H1 H2 H3 H4 H5 HP Ha Ha' m.
  rewrite (policy_authorizer_spec ps p' a' Hc H1 H2 H3 H4 H5 HP Ha' m).
  symmetry. apply (policy_authorizer_spec ps (merge_policies ps) a); auto.
Qed.

(* ---- what the list-level tests of the reference mean, for ALL names ---- *)

Lemma rules_at_exists v S (P : level -> bool) : covers S v ->
  (existsb P (rules_at v S) = true <-> exists pf n l, v pf n = Some l /\ P l = true).
Proof.
  intros C. unfold rules_at. rewrite existsb_exists. split.
  - intros (l & Hin & HP). apply in_flat_map in Hin as (n & _ & Hl). apply in_app_or in Hl as [Hl|Hl].
    + exists false, n, l. destruct (v false n) as [x|]; [|destruct Hl]. destruct Hl as [->|[]]. auto.
    + exists true, n, l. destruct (v true n) as [x|]; [|destruct Hl]. destruct Hl as [->|[]]. auto.
  - intros (pf & n & l & Hv & HP). exists l. split; [|exact HP]. apply in_flat_map. exists n. split.
    + apply (C pf). congruence.
    + apply in_or_app. destruct pf; [right|left]; rewrite Hv; left; reflexivity.
Qed.

Lemma rules_below_exists v S p (P : level -> bool) : covers S v ->
  (existsb P (rules_at v (filter (String.prefix p) S)) = true
   <-> exists pf n l, String.prefix p n = true /\ v pf n = Some l /\ P l = true).
Proof.
  intros C. unfold rules_at. rewrite existsb_exists. split.
  - intros (l & Hin & HP). apply in_flat_map in Hin as (n & Hn & Hl). apply filter_In in Hn as [_ Hpre].
    apply in_app_or in Hl as [Hl|Hl].
    + exists false, n, l. destruct (v false n) as [x|]; [|destruct Hl]. destruct Hl as [->|[]]. auto.
    + exists true, n, l. destruct (v true n) as [x|]; [|destruct Hl]. destruct Hl as [->|[]]. auto.
  - intros (pf & n & l & Hpre & Hv & HP). exists l. split; [|exact HP]. apply in_flat_map. exists n. split.
    + apply filter_In. split; [apply (C pf); congruence|exact Hpre].
    + apply in_or_app. destruct pf; [right|left]; rewrite Hv; left; reflexivity.
Qed.

Theorem spec_any_meaning v S need : covers S v ->
  (spec_any v S need = Allow <-> exists pf n l, v pf n = Some l /\ grants l need = true)
  /\ (spec_any v S need = Default <-> (forall pf n l, v pf n = Some l -> grants l need = false) /\ v true EmptyString = None).
Proof.
  intros C. unfold spec_any. assert (H := rules_at_exists v S (fun l => grants l need) C).
  destruct (existsb (fun l => grants l need) (rules_at v S)) eqn:E.
  - split; [split; [intros _; apply H; reflexivity|reflexivity]|].
    split; [discriminate|]. intros [Hn _]. exfalso. destruct (proj1 H eq_refl) as (pf & n & l & Hv & Hg).
    rewrite (Hn _ _ _ Hv) in Hg. discriminate.
  - assert (Hn : forall pf n l, v pf n = Some l -> grants l need = false).
    { intros pf n l Hv. destruct (grants l need) eqn:G; [|reflexivity].
      assert (false = true) by (apply H; eauto). discriminate. }
    split.
    + split; [destruct (is_some (v true EmptyString)); discriminate|].
      intros (pf & n & l & Hv & Hg). rewrite (Hn _ _ _ Hv) in Hg. discriminate.
    + destruct (v true EmptyString); cbn [is_some]; split; try discriminate; auto. intros [_ [=]].
Qed.

Theorem spec_all_meaning v S need : covers S v ->
  (spec_all v S need = Deny <-> exists pf n l, v pf n = Some l /\ grants l need = false)
  /\ (spec_all v S need = Allow <-> (forall pf n l, v pf n = Some l -> grants l need = true) /\ v true EmptyString <> None).
Proof.
  intros C. unfold spec_all. assert (H := rules_at_exists v S (fun l => negb (grants l need)) C).
  destruct (existsb (fun l => negb (grants l need)) (rules_at v S)) eqn:E.
  - destruct (proj1 H eq_refl) as (pf & n & l & Hv & Hg). apply negb_true_iff in Hg.
    split; [split; [eauto|reflexivity]|]. split; [discriminate|]. intros [Hn _]. rewrite (Hn _ _ _ Hv) in Hg. discriminate.
  - assert (Hn : forall pf n l, v pf n = Some l -> grants l need = true).
    { intros pf n l Hv. destruct (grants l need) eqn:G; [reflexivity|].
      assert (false = true) by (apply H; exists pf, n, l; rewrite G; auto). discriminate. }
    split.
    + split; [destruct (is_some (v true EmptyString)); discriminate|].
      intros (pf & n & l & Hv & Hg). rewrite (Hn _ _ _ Hv) in Hg. discriminate.
    + destruct (v true EmptyString); cbn [is_some]; split; try discriminate; auto; try (intros [_ Hx]; congruence).
      intros _. split; [exact Hn|discriminate].
Qed.

(* KeyWritePrefix / ServiceReadPrefix: the rule applying to the prefix itself and EVERY rule whose
   name lies below the prefix must be good *)
Theorem spec_subtree_meaning good v S p : covers S v ->
  (spec_subtree good v S p = Deny <->
     (exists l, longest_prefix v p = Some l /\ good l = false)
     \/ (exists pf n l, String.prefix p n = true /\ v pf n = Some l /\ good l = false))
  /\ (spec_subtree good v S p = Allow <->
     (exists l, longest_prefix v p = Some l /\ good l = true)
     /\ (forall pf n l, String.prefix p n = true -> v pf n = Some l -> good l = true)).
Proof.
  intros C. unfold spec_subtree. assert (H := rules_below_exists v S p (fun l => negb (good l)) C).
  destruct (longest_prefix v p) as [b|]; [destruct (good b) eqn:Gb|]; cbn [negb].
  - destruct (existsb (fun l => negb (good l)) (rules_at v (filter (String.prefix p) S))) eqn:E.
    + destruct (proj1 H eq_refl) as (pf & n & l & Hp & Hv & Hg). apply negb_true_iff in Hg. split.
      * split; [intros _; right; eauto 6|reflexivity].
      * split; [discriminate|]. intros [_ Hall]. rewrite (Hall _ _ _ Hp Hv) in Hg. discriminate.
    + assert (Hall : forall pf n l, String.prefix p n = true -> v pf n = Some l -> good l = true).
      { intros pf n l Hp Hv. destruct (good l) eqn:G; [reflexivity|].
        assert (false = true) by (apply H; exists pf, n, l; rewrite G; auto). discriminate. }
      split.
      * split; [discriminate|]. intros [(l & [= <-] & Hg)|(pf & n & l & Hp & Hv & Hg)]; [congruence|].
        rewrite (Hall _ _ _ Hp Hv) in Hg. discriminate.
      * split; [intros _; split; [eauto|exact Hall]|reflexivity].
  - split.
    + split; [intros _; left; eauto|reflexivity].
    + split; [discriminate|]. intros [(l & [= <-] & Hg) _]. congruence.
  - destruct (existsb (fun l => negb (good l)) (rules_at v (filter (String.prefix p) S))) eqn:E.
    + destruct (proj1 H eq_refl) as (pf & n & l & Hp & Hv & Hg). apply negb_true_iff in Hg. split.
      * split; [intros _; right; eauto 6|reflexivity].
      * split; [discriminate|]. intros [(l' & [=] & _) _].
    + split.
      * split; [discriminate|]. intros [(l & [=] & _)|(pf & n & l & Hp & Hv & Hg)].
        assert (false = true) by (apply H; exists pf, n, l; rewrite Hg; auto). discriminate.
      * split; [discriminate|]. intros [(l & [=] & _) _].
Qed.

(* every policy PolicyRules.Validate accepts is levelled: the theorems cover all policies that parse *)
Lemma validate_levelled p : validate p = true -> levelled p = true.
Proof.
  unfold validate, levelled. intros H. apply andb_true_iff in H as [_ H].
  apply forallb_forall. intros r Hr. assert (Hv := proj1 (forallb_forall _ _) H r Hr).
  unfold rule_valid in Hv. unfold levelled_rule.
  assert (V : forall s b, is_policy_valid s b = true -> has_level s = true).
  { intros s b. unfold is_policy_valid, has_level. rewrite alfs_lv. destruct (doc_level s); [reflexivity|discriminate]. }
  destruct (r_kind r); try (rewrite (V _ _ Hv); reflexivity).
  apply andb_true_iff in Hv as [Hp Hi]. rewrite (V _ _ Hp). cbn [andb].
  destruct (r_int r); try reflexivity. cbn in Hi. discriminate.
Qed.
