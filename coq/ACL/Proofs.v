(* C08 — the model (ACL/Model.v) computes the documented rule (ACL/Spec.v).
   Part 1: MergePolicies.  Part 2: loadRules and the trees.  Part 3: the traversals and every
   Authorizer method.  Part 4: the theorems (semantics, order independence). *)
From Verif Require Import Base.Prelude ACL.Model ACL.Spec ACL.Assoc.
From Coq Require Import Permutation.

(* ================================================================ Part 1: precedence, merge *)

Definition pmax (a b : pstr) : pstr := if takes_precedence_over a b then a else b.
Definition pstep (o : option pstr) (p : pstr) : option pstr :=
  Some (match o with None => p | Some e => pmax p e end).
Definition sstep (o : option level) (l : level) : option level :=
  Some (match o with None => l | Some m => stronger l m end).
Definition pstr_of (o : option level) : pstr := match o with Some l => PCanon l | None => PEmpty end.

Lemma pmax_canon a b : pmax (PCanon a) (PCanon b) = PCanon (stronger a b).
Proof. destruct a, b; reflexivity. Qed.

Lemma pmax_empty_l e : pmax PEmpty e = e.
Proof. destruct e as [|[]|[]|]; reflexivity. Qed.

Lemma pmax_canon_empty a : pmax (PCanon a) PEmpty = PCanon a.
Proof. destruct a; reflexivity. Qed.

(* the strongest level: it occurs in the list and nothing in the list outranks it *)
Lemma strongest_fold_spec ls : forall o,
  (forall m, o = Some m -> True) ->
  match fold_left sstep ls o with
  | None => o = None /\ ls = []
  | Some m => (o = Some m \/ In m ls) /\ (forall l, o = Some l \/ In l ls -> rank l <= rank m)
  end.
Proof.
  induction ls as [|x ls IH]; intros o _; cbn [fold_left].
  - destruct o as [m|]; [|auto]. split; [auto|]. intros l [[= ->]|[]]. lia.
  - specialize (IH (sstep o x) (fun _ _ => I)).
    destruct (fold_left sstep ls (sstep o x)) as [m|] eqn:E.
    + destruct IH as [Hin Hmax]. split.
      * destruct Hin as [Hs|Hin]; [|right; right; exact Hin].
        unfold sstep in Hs. injection Hs as Hs. destruct o as [e|].
        -- unfold stronger in Hs. destruct (rank e <=? rank x); subst; [right; left; reflexivity|left; reflexivity].
        -- right; left; exact Hs.
      * intros l Hl.
        assert (Hx : rank x <= rank m /\ (forall e, o = Some e -> rank e <= rank m)).
        { assert (Hs := Hmax). unfold sstep in Hs. destruct o as [e|].
          - specialize (Hs (stronger x e) (or_introl eq_refl)). unfold stronger in Hs.
            destruct (rank e <=? rank x) eqn:Hr; split; try intros ? [= <-]; lia.
          - specialize (Hs x (or_introl eq_refl)). split; [lia|discriminate]. }
        destruct Hx as [Hx1 Hx2].
        destruct Hl as [Hl|[<-|Hl]]; [apply Hx2, Hl|exact Hx1|apply Hmax; right; exact Hl].
    + destruct IH as [Hs _]. discriminate.
Qed.

Lemma strongest_spec ls :
  match strongest ls with
  | None => ls = []
  | Some m => In m ls /\ forall l, In l ls -> rank l <= rank m
  end.
Proof.
  change (strongest ls) with (fold_left sstep ls None).
  assert (H := strongest_fold_spec ls None (fun _ _ => I)).
  destruct (fold_left sstep ls None) as [m|].
  - destruct H as [[H|H] Hm]; [discriminate|]. split; [exact H|]. intros l Hl. apply Hm; auto.
  - destruct H as [_ H]. exact H.
Qed.

Lemma rank_inj a b : rank a = rank b -> a = b.
Proof. destruct a, b; cbn; intros; try reflexivity; lia. Qed.

(* hence it does not depend on the order of the list *)
Lemma strongest_perm l1 l2 : Permutation l1 l2 -> strongest l1 = strongest l2.
Proof.
  intros P. assert (H1 := strongest_spec l1). assert (H2 := strongest_spec l2).
  destruct (strongest l1) as [a|], (strongest l2) as [b|].
  - destruct H1 as [I1 M1], H2 as [I2 M2]. f_equal. apply rank_inj.
    assert (rank a <= rank b) by (apply M2; eapply Permutation_in; eassumption).
    assert (rank b <= rank a) by (apply M1; eapply Permutation_in; [apply Permutation_sym|]; eassumption).
    lia.
  - subst l2. apply Permutation_sym, Permutation_nil in P. subst. destruct H1 as [[] _].
  - subst l1. apply Permutation_nil in P. subst. destruct H2 as [[] _].
  - reflexivity.
Qed.

(* folding takesPrecedenceOver over lowercase strings computes the strongest level *)
Lemma pfold_canon ls : forall o,
  fold_left pstep (map PCanon ls) (option_map PCanon o) = option_map PCanon (fold_left sstep ls o).
Proof.
  induction ls as [|l ls IH]; intros o; cbn [fold_left map]; [reflexivity|].
  rewrite <- IH. f_equal. destruct o as [m|]; unfold pstep, sstep; cbn [option_map]; [rewrite pmax_canon|]; reflexivity.
Qed.

Definition plevels (ps : list pstr) : list level := flat_map (fun p => olist (doc_level p)) ps.

Lemma pfold_canon_or_empty ps : forallb canon_or_empty ps = true -> forall o,
  fold_left pstep ps (Some (pstr_of o)) = Some (pstr_of (fold_left sstep (plevels ps) o)).
Proof.
  induction ps as [|p ps IH]; intros Hc o; cbn [fold_left plevels flat_map]; [reflexivity|].
  cbn [forallb] in Hc. apply andb_true_iff in Hc as [Hp Hc].
  destruct p as [|l|l|]; try discriminate; cbn [doc_level olist app].
  - unfold pstep at 2. rewrite pmax_empty_l. apply IH, Hc.
  - cbn [fold_left]. fold (plevels ps). rewrite <- (IH Hc). f_equal.
    destruct o as [m|]; unfold pstep, sstep, pstr_of; [rewrite pmax_canon|rewrite pmax_canon_empty]; reflexivity.
Qed.

Lemma pfold_canon_or_empty_none ps : forallb canon_or_empty ps = true ->
  fold_left pstep ps None = match ps with [] => None | _ => Some (pstr_of (strongest (plevels ps))) end.
Proof.
  destruct ps as [|p ps]; [reflexivity|]. intros Hc. cbn [forallb] in Hc.
  apply andb_true_iff in Hc as [Hp Hc]. cbn [fold_left]. unfold strongest.
  destruct p as [|l|l|]; try discriminate; cbn [plevels flat_map doc_level olist app pstep].
  - apply (pfold_canon_or_empty ps Hc None).
  - apply (pfold_canon_or_empty ps Hc (Some l)).
Qed.

(* ---- one merge step, seen through lookups ---- *)

Definition combine (ex : option mval) (r : rule) : mval :=
  match ex with
  | None => MVal (r_pol r) (r_int r)
  | Some e =>
      match r_kind r with
      | KService => MVal (pmax (r_pol r) (v_pol e)) (pmax (r_int r) (v_int e))
      | _ => if takes_precedence_over (r_pol r) (v_pol e) then MVal (r_pol r) (r_int r) else e
      end
  end.

Notation lookup := (alookup rkey_eqb).

Lemma merge_rule_lookup rs r key :
  lookup key (merge_rule rs r)
  = if rkey_eqb key (rule_key r) then Some (combine (lookup (rule_key r) rs) r) else lookup key rs.
Proof.
  unfold merge_rule, combine.
  destruct (r_kind r) eqn:Ek;
    try (destruct (lookup (rule_key r) rs) as [ex|] eqn:El;
         [destruct (takes_precedence_over (r_pol r) (v_pol ex)) eqn:Et|];
         rewrite ?(alookup_aset _ rkey_eqb_eq); try reflexivity;
         destruct (rkey_eqb key (rule_key r)) eqn:E; [apply rkey_eqb_eq in E; subst; exact El|reflexivity]).
  destruct (lookup (rule_key r) rs) as [ex|] eqn:El; rewrite (alookup_aset _ rkey_eqb_eq); reflexivity.
Qed.

Lemma combine_pol ex r : v_pol (combine ex r) = match ex with None => r_pol r | Some e => pmax (r_pol r) (v_pol e) end.
Proof.
  unfold combine, pmax. destruct ex as [e|]; [|reflexivity].
  destruct (r_kind r); try reflexivity; destruct (takes_precedence_over (r_pol r) (v_pol e)); reflexivity.
Qed.

Lemma combine_int ex r : r_kind r = KService ->
  v_int (combine ex r) = match ex with None => r_int r | Some e => pmax (r_int r) (v_int e) end.
Proof. intros Hk. unfold combine. rewrite Hk. destruct ex; reflexivity. Qed.

Lemma merge_rule_nodup rs r : NoDup (map fst rs) -> NoDup (map fst (merge_rule rs r)).
Proof.
  intros H. unfold merge_rule.
  destruct (r_kind r); try (destruct (lookup (rule_key r) rs) as [ex|];
    [destruct (takes_precedence_over (r_pol r) (v_pol ex))|]; try assumption;
    apply (aset_nodup _ rkey_eqb_eq); assumption).
Qed.

Lemma merge_fold_nodup rs : forall ctx, NoDup (map fst ctx) -> NoDup (map fst (fold_left merge_rule rs ctx)).
Proof. induction rs as [|r rs IH]; intros ctx H; cbn [fold_left]; [exact H|]. apply IH, merge_rule_nodup, H. Qed.

Definition keyed (rs : list rule) (key : rkey) : list rule :=
  filter (fun r => rkey_eqb (rule_key r) key) rs.

Lemma rkey_eqb_sym a b : rkey_eqb a b = rkey_eqb b a.
Proof.
  apply bool_eq_iff. rewrite !rkey_eqb_eq. split; congruence.
Qed.

(* the Policy field of the context entry for a key is the pstep-fold of the matching rules *)
Lemma merge_fold_pol rs : forall ctx key,
  option_map v_pol (lookup key (fold_left merge_rule rs ctx))
  = fold_left pstep (map r_pol (keyed rs key)) (option_map v_pol (lookup key ctx)).
Proof.
  induction rs as [|r rs IH]; intros ctx key; cbn [fold_left keyed filter map]; [reflexivity|].
  rewrite IH, merge_rule_lookup. fold (keyed rs key). rewrite (rkey_eqb_sym (rule_key r) key).
  destruct (rkey_eqb key (rule_key r)) eqn:E; [|reflexivity].
  apply rkey_eqb_eq in E; subst key. cbn [map fold_left option_map]. rewrite combine_pol.
  f_equal. destruct (lookup (rule_key r) ctx); reflexivity.
Qed.

Lemma merge_fold_int rs : forall ctx pf n,
  option_map v_int (lookup (KService, pf, n) (fold_left merge_rule rs ctx))
  = fold_left pstep (map r_int (keyed rs (KService, pf, n))) (option_map v_int (lookup (KService, pf, n) ctx)).
Proof.
  induction rs as [|r rs IH]; intros ctx pf n; cbn [fold_left keyed filter map]; [reflexivity|].
  rewrite IH, merge_rule_lookup. fold (keyed rs (KService, pf, n)).
  rewrite (rkey_eqb_sym (rule_key r) (KService, pf, n)).
  destruct (rkey_eqb (KService, pf, n) (rule_key r)) eqn:E; [|reflexivity].
  apply rkey_eqb_eq in E. cbn [map fold_left option_map]. rewrite combine_int.
  - rewrite <- E. f_equal. destruct (lookup (KService, pf, n) ctx); reflexivity.
  - unfold rule_key in E. congruence.
Qed.

(* the context after all policies = one fold over all their rules *)
Lemma merge_policies_rules ps : forall c,
  m_rules (fold_left merge_policy ps c) = fold_left merge_rule (all_rules ps) (m_rules c).
Proof.
  induction ps as [|p ps IH]; intros c; cbn [fold_left all_rules flat_map]; [reflexivity|].
  rewrite IH. cbn [merge_policy m_rules]. rewrite fold_left_app. reflexivity.
Qed.

Lemma merge_policies_scalar (f : policy -> pstr) (g : mctx -> pstr) :
  (forall c p, g (merge_policy c p) = merge_scalar (f p) (g c)) ->
  forall ps c, g (fold_left merge_policy ps c) = fold_left (fun cur p => pmax p cur) (map f ps) (g c).
Proof.
  intros Hg. induction ps as [|p ps IH]; intros c; cbn [fold_left map]; [reflexivity|].
  rewrite IH, Hg. reflexivity.
Qed.

(* ================================================================ Part 2: loadRules, trees *)

Definition slot_of (t : tree) (pf : bool) (n : string) : option access :=
  match tree_get n t with
  | Some lf => if pf then l_prefix lf else l_exact lf
  | None => None
  end.

Definition wf_tree (t : tree) : Prop := NoDup (map fst t).

Definition kslot (a : authorizer) (k : rkind) := slot_of (tree_of a k).
Definition islot (a : authorizer) := slot_of (a_intention a).

Definition wf_auth (a : authorizer) : Prop :=
  (forall k, wf_tree (tree_of a k)) /\ wf_tree (a_intention a) /\ a_traffic a = [].

Lemma insert_slot seg pol t pf t' :
  insert_policy_into_radix seg pol t pf = Some t' ->
  forall pf' n, slot_of t' pf' n
    = if String.eqb n seg && Bool.eqb pf' pf then access_level_from_string pol else slot_of t pf' n.
Proof.
  unfold insert_policy_into_radix. destruct (access_level_from_string pol) as [al|]; [|discriminate].
  intros [= <-] pf' n. unfold slot_of, tree_get. rewrite (alookup_aset _ String.eqb_eq).
  destruct (String.eqb n seg) eqn:E; [|reflexivity].
  apply String.eqb_eq in E; subst n.
  destruct (alookup String.eqb seg t) as [lf|]; destruct pf, pf'; reflexivity.
Qed.

Lemma insert_wf seg pol t pf t' :
  insert_policy_into_radix seg pol t pf = Some t' -> wf_tree t -> wf_tree t'.
Proof.
  unfold insert_policy_into_radix. destruct (access_level_from_string pol); [|discriminate].
  intros [= <-] H. apply (aset_nodup _ String.eqb_eq), H.
Qed.

Lemma tree_of_set_tree a k t k' : tree_of (set_tree a k t) k' = if rkind_eqb k' k then t else tree_of a k'.
Proof. destruct k, k'; reflexivity. Qed.

Lemma intention_set_tree a k t : a_intention (set_tree a k t) = a_intention a.
Proof. destruct k; reflexivity. Qed.

Lemma traffic_set_tree a k t : a_traffic (set_tree a k t) = a_traffic a.
Proof. destruct k; reflexivity. Qed.

Lemma tree_of_set_intention a t k : tree_of (set_intention a t) k = tree_of a k.
Proof. destruct k; reflexivity. Qed.

Lemma rkey_eqb_unfold k pf n r :
  rkey_eqb (k, pf, n) (rule_key r) = rkind_eqb k (r_kind r) && Bool.eqb pf (r_prefix r) && String.eqb n (r_name r).
Proof. reflexivity. Qed.

Lemma load_rule_spec a r a' : load_rule (Some a) r = Some a' ->
  (forall k pf n, kslot a' k pf n
     = if rkey_eqb (k, pf, n) (rule_key r) then access_level_from_string (r_pol r) else kslot a k pf n)
  /\ (forall pf n, islot a' pf n
     = if rkey_eqb (KService, pf, n) (rule_key r)
       then access_level_from_string (intention_of (r_pol r) (r_int r)) else islot a pf n)
  /\ (wf_auth a -> wf_auth a').
Proof.
  cbn [load_rule].
  destruct (insert_policy_into_radix (r_name r) (r_pol r) (tree_of a (r_kind r)) (r_prefix r)) as [t|] eqn:E1;
    [|discriminate].
  assert (Hk : forall a1, (forall k, tree_of a1 k = tree_of (set_tree a (r_kind r) t) k) ->
                forall k pf n, kslot a1 k pf n
                = if rkey_eqb (k, pf, n) (rule_key r) then access_level_from_string (r_pol r) else kslot a k pf n).
  { intros a1 Ht k pf n. unfold kslot. rewrite Ht, tree_of_set_tree, rkey_eqb_unfold.
    destruct (rkind_eqb k (r_kind r)) eqn:Ek; [|reflexivity].
    apply rkind_eqb_eq in Ek; subst k. rewrite (insert_slot _ _ _ _ _ E1).
    rewrite andb_comm. reflexivity. }
  assert (Hw : forall k, wf_auth a -> wf_tree (tree_of (set_tree a (r_kind r) t) k)).
  { intros k [W _]. rewrite tree_of_set_tree. destruct (rkind_eqb k (r_kind r)); [|apply W].
    eapply insert_wf; [exact E1|apply W]. }
  destruct (r_kind r) eqn:Ekind;
    try (intros [= <-]; split; [apply Hk; reflexivity|]; split;
         [intros pf n; unfold islot; rewrite rkey_eqb_unfold, Ekind; reflexivity|];
         intros W; split; [intros k; apply Hw, W|]; apply W).
  destruct (insert_policy_into_radix (r_name r) (intention_of (r_pol r) (r_int r))
              (a_intention (set_tree a KService t)) (r_prefix r)) as [ti|] eqn:E2; [|discriminate].
  intros [= <-]. split; [apply Hk; intros k; apply tree_of_set_intention|]. split.
  - intros pf n. unfold islot. change (a_intention (set_intention (set_tree a KService t) ti)) with ti.
    rewrite (insert_slot _ _ _ _ _ E2), intention_set_tree, rkey_eqb_unfold, Ekind.
    cbn [rkind_eqb andb]. rewrite andb_comm. reflexivity.
  - intros W. split; [intros k; rewrite tree_of_set_intention; apply Hw, W|]. split.
    + change (a_intention (set_intention (set_tree a KService t) ti)) with ti.
      eapply insert_wf; [exact E2|]. rewrite intention_set_tree. apply W.
    + apply W.
Qed.

Lemma load_fold_none rs : fold_left load_rule rs None = None.
Proof. induction rs; cbn; auto. Qed.

(* with one rule per key (what fill produces), in ANY order, each slot holds its rule's level *)
Lemma load_fold_spec rs : NoDup (map rule_key rs) -> forall a a',
  fold_left load_rule rs (Some a) = Some a' ->
  (forall r, In r rs ->
     kslot a' (r_kind r) (r_prefix r) (r_name r) = access_level_from_string (r_pol r)
     /\ (r_kind r = KService ->
         islot a' (r_prefix r) (r_name r) = access_level_from_string (intention_of (r_pol r) (r_int r))))
  /\ (forall k pf n, ~ In (k, pf, n) (map rule_key rs) ->
        kslot a' k pf n = kslot a k pf n /\ (k = KService -> islot a' pf n = islot a pf n))
  /\ (wf_auth a -> wf_auth a').
Proof.
  induction rs as [|r0 rs IH]; intros Hnd a a' Hf.
  - cbn in Hf. injection Hf as <-. split; [intros ? []|]. split; auto.
  - cbn [fold_left] in Hf. destruct (load_rule (Some a) r0) as [a1|] eqn:E1;
      [|rewrite load_fold_none in Hf; discriminate].
    cbn [map] in Hnd. inversion Hnd as [|? ? Hnotin Hnd']; subst.
    destruct (load_rule_spec _ _ _ E1) as (K1 & I1 & W1).
    destruct (IH Hnd' _ _ Hf) as (R & N & W). split; [|split].
    + intros r [<-|Hin]; [|apply R, Hin].
      destruct (N (r_kind r0) (r_prefix r0) (r_name r0) Hnotin) as [Nk Ni]. split.
      * rewrite Nk, K1. change (r_kind r0, r_prefix r0, r_name r0) with (rule_key r0).
        rewrite (proj2 (rkey_eqb_eq _ _) eq_refl). reflexivity.
      * intros Hs. rewrite (Ni Hs), I1. rewrite <- Hs. change (r_kind r0, r_prefix r0, r_name r0) with (rule_key r0).
        rewrite (proj2 (rkey_eqb_eq _ _) eq_refl). reflexivity.
    + intros k pf n Hn. cbn [map In] in Hn.
      assert (Hne : rkey_eqb (k, pf, n) (rule_key r0) = false).
      { apply (eqb_neq _ rkey_eqb_eq). intros E. apply Hn. left. symmetry. exact E. }
      destruct (N k pf n) as [Nk Ni]; [intros H; apply Hn; right; exact H|]. split.
      * rewrite Nk, K1, Hne. reflexivity.
      * intros ->. rewrite (Ni eq_refl), I1, Hne. reflexivity.
    + intros Wa. apply W, W1, Wa.
Qed.

Lemma load_scalar_canon p : canon_or_empty p = true -> load_scalar p = Some (option_map acc (doc_level p)).
Proof. destruct p; try discriminate; reflexivity. Qed.

Lemma load_rule_some a r : canonical_rule r = true -> exists a', load_rule (Some a) r = Some a'.
Proof.
  unfold canonical_rule. intros H. apply andb_true_iff in H as [Hp Hi].
  destruct (r_pol r) as [|l| |] eqn:Ep; try discriminate.
  cbn [load_rule]. rewrite Ep. unfold insert_policy_into_radix at 1. cbn [access_level_from_string].
  destruct (r_kind r); try (eexists; reflexivity).
  assert (Hc : exists i, intention_of (PCanon l) (r_int r) = PCanon i).
  { destruct (r_int r) as [|i| |]; try discriminate; [|cbn; eauto].
    destruct l; cbn; eauto. }
  destruct Hc as [i ->]. unfold insert_policy_into_radix. cbn [access_level_from_string]. eexists; reflexivity.
Qed.

Lemma load_fold_some rs : forallb canonical_rule rs = true -> forall a,
  exists a', fold_left load_rule rs (Some a) = Some a'.
Proof.
  induction rs as [|r rs IH]; intros H a; cbn [fold_left]; [eauto|].
  cbn [forallb] in H. apply andb_true_iff in H as [Hr H].
  destruct (load_rule_some a r Hr) as [a1 ->]. apply IH, H.
Qed.

Lemma authorizer_empty_wf : wf_auth authorizer_empty.
Proof. split; [intros []; constructor|split; [constructor|reflexivity]]. Qed.
