(* C08 — model of the layer above ACLPolicies.Compile: ACLResolver.resolvePoliciesForIdentity
   (agent/consul/acl.go) with ACLServiceIdentities.Deduplicate / ACLNodeIdentities.Deduplicate
   (agent/structs/acl.go), dedupeStringSlice, synthetic policies and filterPoliciesByScope.

   A token holds policy links, role links and its own service / node identities; a role holds
   policy links and identities.  Names of services / nodes and datacenters are numbers (the
   harness maps them to strings whose order is the numeric order).  The text template that turns
   an identity into a synthetic policy is external: the world carries, per name, the policy entry
   the implementation generated ([w_synth_svc], [w_synth_node]; its ID is an injective function
   of the rules, its ModifyIndex is 0).  Templated policies (builtin/service, builtin/node with a name; builtin/dns without) are
   deduplicated as ACLTemplatedPolicies.Deduplicate does since b8a4eb3: one per (template,
   variables), valid in the union of the datacenters of its occurrences (everywhere if one is unscoped).  No proofs here. *)
From Verif Require Import Base.Prelude.
From Verif Require Import ACL.Model.

Record sident := SIdent { si_name : N; si_dcs : list N }.   (* Datacenters = [] : every datacenter *)
Record nident := NIdent { ni_name : N; ni_dc : N }.

Record tpol := TPol { tp_tmpl : N; tp_name : N; tp_dcs : list N }.   (* name 0 for templates without variables *)

Record wpolicy := WPolicy { wp_entry : pentry; wp_dcs : list N }.
Record wrole := WRole { ro_pols : list N; ro_sis : list sident; ro_nis : list nident; ro_tps : list tpol }.
Record wtoken := WToken { tk_pols : list N; tk_roles : list N; tk_sis : list sident; tk_nis : list nident;
                          tk_tps : list tpol }.

Record world := World {
  w_dc : N;                                  (* the resolver's datacenter *)
  w_pols : list (N * wpolicy);               (* policy ID -> policy *)
  w_roles : list (N * wrole);                (* role ID -> role *)
  w_synth_svc : list (N * pentry);           (* service name -> its synthetic policy *)
  w_synth_node : list (N * pentry);          (* node name -> its synthetic policy *)
  w_synth_tp : list ((N * N) * pentry) }.    (* (template, name) -> its synthetic policy *)

(* sort.Strings *)
Fixpoint insert_n (x : N) (l : list N) : list N :=
  match l with
  | [] => [x]
  | y :: l' => if N.leb x y then x :: l else y :: insert_n x l'
  end.
Definition sort_n (l : list N) : list N := fold_right insert_n [] l.

(* the in-place loop of dedupeStringSlice on a sorted slice *)
Fixpoint unique_adjacent (l : list N) : list N :=
  match l with
  | [] => []
  | x :: l' => match l' with
               | [] => [x]
               | y :: _ => if N.eqb x y then unique_adjacent l' else x :: unique_adjacent l'
               end
  end.

(* dedupeStringSlice *)
Definition dedupe_ids (l : list N) : list N :=
  match l with
  | [] | [_] => l
  | _ => unique_adjacent (sort_n l)
  end.

(* stringslice.MergeSorted: zipper merge dropping cross-list duplicates; an empty list yields the
   other one *)
Fixpoint merge_sorted (a : list N) : list N -> list N :=
  fix go (b : list N) : list N :=
    match a, b with
    | [], _ => b
    | _, [] => a
    | x :: a', y :: b' =>
        if N.ltb x y then x :: merge_sorted a' b
        else if N.ltb y x then y :: go b'
        else x :: merge_sorted a' b'
    end.

(* one iteration of the loop of ACLServiceIdentities.Deduplicate; the map keeps first-insertion
   order here (Go: unspecified, see C08_order_independent) *)
Definition is_nil {A} (l : list A) : bool := match l with [] => true | _ => false end.

(* the Datacenters of the merged entry: an empty list means "every datacenter", so when either
   side is unscoped the merged identity is unscoped (commit 0b8ae30); otherwise the sorted union *)
Definition merge_dcs (new old : list N) : list N :=
  if is_nil old || is_nil new then [] else merge_sorted (sort_n new) old.

Definition sis_step (m : list (N * list N)) (s : sident) : list (N * list N) :=
  match alookup N.eqb (si_name s) m with
  | Some dcs => aset N.eqb (si_name s) (merge_dcs (si_dcs s) dcs) m
  | None => aset N.eqb (si_name s) (sort_n (si_dcs s)) m
  end.

Definition dedup_sis (l : list sident) : list (N * list N) := fold_left sis_step l [].

Definition nident_eqb (a b : nident) : bool := N.eqb (ni_name a) (ni_name b) && N.eqb (ni_dc a) (ni_dc b).

(* ACLNodeIdentities.Deduplicate: first occurrence of each (name, datacenter) *)
Fixpoint dedup_nis_from (seen : list nident) (l : list nident) : list nident :=
  match l with
  | [] => []
  | x :: l' => if existsb (nident_eqb x) seen then dedup_nis_from seen l'
               else x :: dedup_nis_from (x :: seen) l'
  end.
Definition dedup_nis (l : list nident) : list nident := dedup_nis_from [] l.

Definition tkey := (N * N)%type.
Definition tkey_eqb (a b : tkey) : bool := N.eqb (fst a) (fst b) && N.eqb (snd a) (snd b).
Definition tp_key (t : tpol) : tkey := (tp_tmpl t, tp_name t).

(* the Datacenters of the kept templated policy after meeting a duplicate (commit b8a4eb3): an
   unscoped one stays unscoped, an unscoped duplicate makes it unscoped, otherwise the sorted union *)
Definition tmerge (new kept : list N) : list N :=
  if is_nil kept then [] else if is_nil new then [] else merge_sorted (sort_n kept) (sort_n new).

(* one iteration of the loop of ACLTemplatedPolicies.Deduplicate: [index]/[out] as one association
   list in first-occurrence order *)
Definition tps_step (m : list (tkey * list N)) (x : tpol) : list (tkey * list N) :=
  match alookup tkey_eqb (tp_key x) m with
  | Some kept => aset tkey_eqb (tp_key x) (tmerge (tp_dcs x) kept) m
  | None => aset tkey_eqb (tp_key x) (tp_dcs x) m
  end.

Definition dedup_tps (l : list tpol) : list (tkey * list N) := fold_left tps_step l [].

(* one policy of filterPoliciesByScope *)
Definition in_scope (dc : N) (dcs : list N) : bool :=
  match dcs with [] => true | _ => existsb (N.eqb dc) dcs end.

Definition olist' {A} (o : option A) : list A := match o with Some a => [a] | None => [] end.

(* collectRolesForIdentity with everything local: in link order, unknown roles skipped *)
Definition roles_of (w : world) (t : wtoken) : list wrole :=
  flat_map (fun id => olist' (alookup N.eqb id (w_roles w))) (tk_roles t).

(* ACLResolver.resolvePoliciesForIdentity *)
Definition policies_for_identity (w : world) (t : wtoken) : list pentry :=
  match tk_pols t, tk_roles t, tk_sis t, tk_nis t, tk_tps t with
  | [], [], [], [], [] => []          (* only the default policy is in effect *)
  | _, _, _, _, _ =>
      let roles := roles_of w t in
      let pids := dedupe_ids (tk_pols t ++ flat_map ro_pols roles) in
      let sis := dedup_sis (tk_sis t ++ flat_map ro_sis roles) in
      let nis := dedup_nis (tk_nis t ++ flat_map ro_nis roles) in
      let tps := dedup_tps (tk_tps t ++ flat_map ro_tps roles) in
      let synthetic :=
          flat_map (fun e => match alookup N.eqb (fst e) (w_synth_svc w) with
                             | Some p => [(p, snd e)] | None => [] end) sis
          ++ flat_map (fun n => match alookup N.eqb (ni_name n) (w_synth_node w) with
                                | Some p => [(p, [ni_dc n])] | None => [] end) nis
          ++ flat_map (fun e => match alookup tkey_eqb (fst e) (w_synth_tp w) with
                                | Some p => [(p, snd e)] | None => [] end) tps in
      let policies :=
          flat_map (fun id => match alookup N.eqb id (w_pols w) with
                              | Some wp => [(wp_entry wp, wp_dcs wp)] | None => [] end) pids
          ++ synthetic in
      map fst (filter (fun pd => in_scope (w_dc w) (snd pd)) policies)
  end.

(* ACLResolver.ResolveToken for a locally known token: its policies, Compile through the shared
   caches, chain with the default policy *)
Definition token_decide (w : world) (c : caches) (t : wtoken) (s : static) (m : meth) : option decision :=
  resolve_decide c (policies_for_identity w t) s m.

Definition token_compile (w : world) (c : caches) (t : wtoken) : caches * option authorizer :=
  compile c (policies_for_identity w t).
