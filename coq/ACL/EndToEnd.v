(* C08 — semantics and cache independence combined. *)
From Verif Require Import Base.Prelude.
From Verif Require Import ACL.Model.
From Verif Require Import ACL.Spec.
From Verif Require Import ACL.Assoc.
From Verif Require Import ACL.Proofs.
From Verif Require Import ACL.Cache.

Lemma parse_all_ok es : forall acc,
  forallb (fun e => e_ok e && validate (e_pol e)) es = true ->
  parse_all es acc = Some (rev acc ++ map e_pol es).
Proof.
  induction es as [|e es IH]; intros acc H; cbn [parse_all map].
  - rewrite app_nil_r. reflexivity.
  - cbn [forallb] in H. apply andb_true_iff in H as [He H]. unfold parse. rewrite He.
    rewrite (IH _ H). cbn [rev]. rewrite <- app_assoc. reflexivity.
Qed.

Theorem semantics_through_caches W c es s m :
  versioned W -> reach W c -> Forall W es ->
  forallb (fun e => e_ok e && validate (e_pol e)) es = true ->
  resolve_decide c es s m = Some (spec_chain (map e_pol es) s m).
Proof.
  intros V R HW Hok.
  assert (Hc : forallb levelled (map e_pol es) = true).
  { apply forallb_forall. intros p Hp. apply in_map_iff in Hp as (e & <- & He).
    apply validate_levelled. assert (H := proj1 (forallb_forall _ _) Hok e He).
    apply andb_true_iff in H as [_ H]. exact H. } rewrite (resolve_decide_pure W c es s m V R HW). unfold resolve_decide.
  rewrite (compile_empty W V es HW). unfold compile_pure. rewrite (parse_all_ok es [] Hok). cbn [rev app].
  destruct (semantics _ Hc) as (a & -> & Sa). destruct (Sa m) as [_ Ch]. rewrite Ch. reflexivity.
Qed.
