(* Model of snapshot/archive.go at the tar-member level (property C20).

   A tar stream, as Go's archive/tar hands it to [read], is a list of members
   (name, data, was the data read completely?) followed by a terminator:
   [true] when [Next] ends with io.EOF, [false] when it ends with an error
   (framing damage, truncation inside a header).  The mapping from damaged
   bytes to this view is done by the real archive/tar in the harness.

   The running SHA-256 states of [hashList] are modelled by the bytes fed to
   them so far; [H] is applied when the sums are compared.  [H], the
   SHA256SUMS line codec and the JSON codec of the metadata are Section
   variables: the theorems state what they assume of them. *)
From Verif Require Import Base.Prelude.

Inductive rerr :=
| EGzipHeader      (* gzip.NewReader failed *)
| EFraming         (* "failed reading snapshot": tar.Next returned an error *)
| EReadMeta        (* "failed to read snapshot metadata" *)
| EDecodeMeta      (* "failed to decode snapshot metadata" *)
| EReadState       (* "failed to read or write snapshot data" *)
| EReadSums        (* "failed to read snapshot hashes" *)
| EUnexpected      (* "unexpected file %q in snapshot" *)
| ESumsParse       (* Sscanf error on a SHA256SUMS line *)
| EListMissing     (* "list missing hash for %q" *)
| EHashMismatch    (* "hash check failed for %q" *)
| EFileMissing     (* "file missing for %q" *)
| EGzipTrailer     (* concludeGzipRead: checksum error or trailing bytes *)
| ENotInArchive    (* "file %q is not in the archive": hashes matched but a hashed file never appeared *)
| ESumsScan.       (* bufio.Scanner error (s.Err(), a SHA256SUMS line longer than 64 KiB) *)

Inductive result (A : Type) := Ok (a : A) | Err (e : rerr).
Arguments Ok {A} a.
Arguments Err {A} e.

Record member := Member { m_name : string; m_data : bytes; m_intact : bool }.

Definition n_meta : string := "meta.json".
Definition n_state : string := "state.bin".
Definition n_sums : string := "SHA256SUMS".

Section Archive.
  Context {digest : Type}.
  Variable deqb : digest -> digest -> bool.
  Variable H : bytes -> digest.

  Context {Meta : Type}.
  Variable meta0 : Meta.                              (* the zero raft.SnapshotMeta *)
  Variable enc_meta : Meta -> bytes.                  (* json.Encoder.Encode *)
  Variable dec_meta : Meta -> bytes -> option Meta.   (* json.Unmarshal into the current struct *)

  (* SHA256SUMS codec: one entry per scanned line, [None] = Sscanf error. *)
  Variable print_sums : list (digest * string) -> bytes.
  Variable parse_sums : bytes -> list (option (digest * string)).
  (* [scan_err b]: bufio.Scanner stopped on [b] with an error (bufio.ErrTooLong); [parse_sums b]
     then holds the lines scanned before it. *)
  Variable scan_err : bytes -> bool.

  (* ---- write ----
     [s] is the payload the writer copies: the first [metadata.Size] bytes of the snapshot
     reader (io.CopyN); raft sets Size to the length of the snapshot. *)
  Definition sums_lines (ord : bool) (m : Meta) (s : bytes) : list (digest * string) :=
    if ord then [(H (enc_meta m), n_meta); (H s, n_state)]
    else [(H s, n_state); (H (enc_meta m), n_meta)].       (* Go map order *)

  Definition write (ord : bool) (m : Meta) (s : bytes) : list member :=
    [ Member n_meta (enc_meta m) true;
      Member n_state s true;
      Member n_sums (print_sums (sums_lines ord m s)) true ].

  (* ---- read ---- *)
  (* [a_seen_meta] / [a_seen_state]: the member appeared in the archive (the `found` map) *)
  Record acc := Acc { a_meta : bytes; a_state : bytes; a_sums : bytes; a_md : Meta;
                      a_seen_meta : bool; a_seen_state : bool }.
  Definition acc0 : acc := Acc [] [] [] meta0 false false.

  Fixpoint read_members (ms : list member) (a : acc) : result acc :=
    match ms with
    | [] => Ok a
    | mb :: rest =>
      if String.eqb (m_name mb) n_meta then
        if negb (m_intact mb) then Err EReadMeta else
        match dec_meta (a_md a) (m_data mb) with
        | None => Err EDecodeMeta
        | Some md => read_members rest (Acc (a_meta a ++ m_data mb) (a_state a) (a_sums a) md true (a_seen_state a))
        end
      else if String.eqb (m_name mb) n_state then
        if negb (m_intact mb) then Err EReadState else
        read_members rest (Acc (a_meta a) (a_state a ++ m_data mb) (a_sums a) (a_md a) (a_seen_meta a) true)
      else if String.eqb (m_name mb) n_sums then
        if negb (m_intact mb) then Err EReadSums else
        read_members rest (Acc (a_meta a) (a_state a) (a_sums a ++ m_data mb) (a_md a) (a_seen_meta a) (a_seen_state a))
      else Err EUnexpected
    end.

  Definition lookup_hash (a : acc) (f : string) : option digest :=
    if String.eqb f n_meta then Some (H (a_meta a))
    else if String.eqb f n_state then Some (H (a_state a))
    else None.

  (* DecodeAndVerify, first loop: returns the list of names seen. *)
  Fixpoint verify_lines (a : acc) (ls : list (option (digest * string))) (seen : list string)
    : result (list string) :=
    match ls with
    | [] => Ok seen
    | None :: _ => Err ESumsParse
    | Some (d, f) :: rest =>
      match lookup_hash a f with
      | None => Err EListMissing
      | Some h => if deqb d h then verify_lines a rest (f :: seen) else Err EHashMismatch
      end
    end.

  Definition mem_str (f : string) (l : list string) : bool := existsb (String.eqb f) l.

  Definition decode_and_verify (a : acc) : result unit :=
    match verify_lines a (parse_sums (a_sums a)) [] with
    | Err e => Err e
    | Ok seen =>
      if scan_err (a_sums a) then Err ESumsScan else        (* s.Err() after the loop *)
      if mem_str n_meta seen && mem_str n_state seen then Ok tt else Err EFileMissing
    end.

  (* [read]: members, then the terminator, then the integrity check.
     On success the caller holds the decoded metadata and the bytes written to [snap]. *)
  Definition read (ms : list member) (term : bool) : result (Meta * bytes) :=
    match read_members ms acc0 with
    | Err e => Err e
    | Ok a =>
      if negb term then Err EFraming else
      match decode_and_verify a with
      | Err e => Err e
      | Ok _ => if a_seen_meta a && a_seen_state a then Ok (a_md a, a_state a) else Err ENotInArchive
      end
    end.

  (* snapshot.Read / snapshot.Verify: gzip wrapper around [read].
     [hdr]: gzip.NewReader succeeded; [trailer]: after the tar reader stopped, the rest of the
     gzip stream is empty and its checksum is right. *)
  Definition read_gz (hdr : bool) (ms : list member) (term : bool) (trailer : bool)
    : result (Meta * bytes) :=
    if negb hdr then Err EGzipHeader else
    match read ms term with
    | Err e => Err e
    | Ok r => if trailer then Ok r else Err EGzipTrailer
    end.

  (* snapshot.Restore: Raft's restore is invoked only with what [read_gz] accepted. *)
  Definition restore (hdr : bool) (ms : list member) (term : bool) (trailer : bool)
    : option (Meta * bytes) :=
    match read_gz hdr ms term trailer with
    | Ok r => Some r
    | Err _ => None
    end.
End Archive.

(* ---- a decidable over-approximation test for "one corruption" between two member views ----
   [corruptb L L' t]: the view (L', t) is one step of Proofs.corrupt away from L (or is L itself,
   which is the identity permutation).  Soundness is Decide.corruptb_sound.  Evaluated by
   Run/C20.v on every generated (intact view, damaged view) pair. *)
Definition member_eqb (a b : member) : bool :=
  String.eqb (m_name a) (m_name b) && bytes_eqb (m_data a) (m_data b) && Bool.eqb (m_intact a) (m_intact b).

Definition mlist_eqb : list member -> list member -> bool := list_eqb member_eqb.

(* [L'] is a prefix of [L]; [strict]: a proper one *)
Fixpoint prefixb (strict : bool) (L' L : list member) : bool :=
  match L', L with
  | [], [] => negb strict
  | [], _ :: _ => true
  | x :: l', y :: l => member_eqb x y && prefixb strict l' l
  | _ :: _, [] => false
  end.

(* [L'] is [L] without one of its members *)
Fixpoint removed1 (L L' : list member) : bool :=
  match L with
  | [] => false
  | x :: l =>
    mlist_eqb l L' ||
    match L' with
    | y :: l' => member_eqb x y && removed1 l l'
    | [] => false
    end
  end.

(* same length, exactly one position differs, and there [ok old new] holds *)
Fixpoint changed1 (ok : member -> member -> bool) (L L' : list member) : bool :=
  match L, L' with
  | x :: l, y :: l' => (ok x y && mlist_eqb l l') || (member_eqb x y && changed1 ok l l')
  | _, _ => false
  end.

Definition ok_data (x y : member) : bool :=
  String.eqb (m_name x) (m_name y) && m_intact y && negb (bytes_eqb (m_data x) (m_data y)).
Definition ok_rename (x y : member) : bool :=
  negb (String.eqb (m_name y) (m_name x)) && m_intact y && bytes_eqb (m_data x) (m_data y).

Fixpoint remove_first (x : member) (l : list member) : option (list member) :=
  match l with
  | [] => None
  | y :: r => if member_eqb x y then Some r
              else match remove_first x r with Some r' => Some (y :: r') | None => None end
  end.

Fixpoint permb (L L' : list member) : bool :=
  match L with
  | [] => match L' with [] => true | _ => false end
  | x :: l => match remove_first x L' with Some r => permb l r | None => false end
  end.

(* [L' = pre ++ [Member (m_name mb) d false]] with [L = pre ++ mb :: post] *)
Fixpoint truncmb (L L' : list member) : bool :=
  match L, L' with
  | x :: l, y :: l' =>
    match l' with
    | [] => String.eqb (m_name x) (m_name y) && negb (m_intact y)
    | _ => member_eqb x y && truncmb l l'
    end
  | _, _ => false
  end.

Definition corruptb (L L' : list member) (t : bool) : bool :=
  if t then
    changed1 ok_data L L' || prefixb true L' L || removed1 L L' || removed1 L' L
    || permb L L' || changed1 ok_rename L L'
  else prefixb false L' L || truncmb L L'.

(* the gzip level: the stream may be damaged in several places at once; every view that is not
   a member-level corruption is one the reader refuses for a reason visible in the view itself *)
Definition faultb (L : list member) (hdr : bool) (L' : list member) (t trailer : bool) : bool :=
  negb hdr || negb trailer || negb t || existsb (fun mb => negb (m_intact mb)) L' || corruptb L L' t.
