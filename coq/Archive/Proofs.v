(* Proofs about the archive model (C20). *)
From Verif Require Import Base.Prelude Archive.Model.
From Coq Require Import Permutation.

Section Proofs.
  Context {digest : Type} (deqb : digest -> digest -> bool) (H : bytes -> digest).
  Context {Meta : Type} (meta0 : Meta) (enc_meta : Meta -> bytes)
          (dec_meta : Meta -> bytes -> option Meta).
  Context (print_sums : list (digest * string) -> bytes)
          (parse_sums : bytes -> list (option (digest * string)))
          (scan_err : bytes -> bool).

  Notation read := (read deqb H meta0 dec_meta parse_sums scan_err).
  Notation read_gz := (read_gz deqb H meta0 dec_meta parse_sums scan_err).
  Notation read_members := (read_members dec_meta).
  Notation write := (write H enc_meta print_sums).
  Notation sums_lines := (sums_lines H enc_meta).
  Notation verify_lines := (@verify_lines digest deqb H Meta).
  Notation decode_and_verify := (decode_and_verify deqb H parse_sums scan_err).
  Notation lookup_hash := (@lookup_hash digest H Meta).

  (* What the theorems assume of the external pieces.  Each theorem depends only on the
     hypotheses its proof uses (the Section discharges the others); Properties/C20.v shows,
     per theorem, exactly which ones are passed. *)
  Hypothesis deqb_spec : forall a b, deqb a b = true <-> a = b.
  Hypothesis H_inj : forall a b, H a = H b -> a = b.                 (* collision freedom *)
  Hypothesis dec_enc : forall m, dec_meta meta0 (enc_meta m) = Some m. (* JSON round trip *)
  Hypothesis dec_empty : forall m, dec_meta m [] = None.              (* json.Unmarshal("") fails *)
  Hypothesis enc_nonempty : forall m, enc_meta m <> [].
  (* an encoding cut into three parts: the first two (non-empty) do not both decode
     (encoding/json: one JSON object and a newline) *)
  Hypothesis dec_pieces : forall m a b c md md',
    a ++ b ++ c = enc_meta m -> a <> [] -> b <> [] ->
    dec_meta md a = None \/ dec_meta md' b = None.
  (* the line codec, on the lines the writer writes only *)
  Hypothesis parse_print : forall ord m s,
    parse_sums (print_sums (sums_lines ord m s)) = map Some (sums_lines ord m s).
  Hypothesis scan_print : forall ord m s, scan_err (print_sums (sums_lines ord m s)) = false.
  Hypothesis parse_empty : parse_sums [] = [].

  Definition datas (n : string) (L : list member) : list bytes :=
    map m_data (filter (fun mb => String.eqb (m_name mb) n) L).
  Definition cat (n : string) (L : list member) : bytes := List.concat (datas n L).

  Fixpoint dec_all (md : Meta) (ds : list bytes) : option Meta :=
    match ds with
    | [] => Some md
    | d :: r => match dec_meta md d with None => None | Some md' => dec_all md' r end
    end.

  Definition expected (n : string) : Prop := n = n_meta \/ n = n_state \/ n = n_sums.
  Definition member_ok (mb : member) : Prop := expected (m_name mb) /\ m_intact mb = true.

  Lemma datas_cons n mb L :
    datas n (mb :: L) = if String.eqb (m_name mb) n then m_data mb :: datas n L else datas n L.
  Proof. unfold datas; cbn [filter]. destruct (String.eqb (m_name mb) n); reflexivity. Qed.

  Lemma cat_cons n mb L :
    cat n (mb :: L) = if String.eqb (m_name mb) n then m_data mb ++ cat n L else cat n L.
  Proof. unfold cat; rewrite datas_cons. destruct (String.eqb (m_name mb) n); reflexivity. Qed.

  Lemma datas_app n L1 L2 : datas n (L1 ++ L2) = datas n L1 ++ datas n L2.
  Proof. unfold datas. rewrite filter_app, map_app. reflexivity. Qed.

  Lemma cat_app n L1 L2 : cat n (L1 ++ L2) = cat n L1 ++ cat n L2.
  Proof. unfold cat. rewrite datas_app, concat_app. reflexivity. Qed.

  (* ---- inversion of a successful member loop ---- *)
  Definition nonempty {A} (l : list A) : bool := match l with [] => false | _ => true end.

  Lemma read_members_inv L : forall a a',
    read_members L a = Ok a' ->
    Forall member_ok L /\
    a_meta a' = a_meta a ++ cat n_meta L /\
    a_state a' = a_state a ++ cat n_state L /\
    a_sums a' = a_sums a ++ cat n_sums L /\
    dec_all (a_md a) (datas n_meta L) = Some (a_md a') /\
    a_seen_meta a' = a_seen_meta a || nonempty (datas n_meta L) /\
    a_seen_state a' = a_seen_state a || nonempty (datas n_state L).
  Proof.
    induction L as [|mb L IH]; intros a a' Hr.
    - cbn in Hr. injection Hr as <-. cbn. rewrite !app_nil_r, !orb_false_r. repeat split; constructor.
    - cbn [Model.read_members] in Hr. rewrite !cat_cons, !datas_cons.
      destruct (String.eqb (m_name mb) n_meta) eqn:Em.
      { apply String.eqb_eq in Em.
        destruct (m_intact mb) eqn:Ei; cbn [negb] in Hr; [|discriminate].
        destruct (dec_meta (a_md a) (m_data mb)) as [md|] eqn:Ed; [|discriminate].
        apply IH in Hr as (Hall & Hm & Hs & Hq & Hd & Hsm & Hss).
        cbn [a_meta a_state a_sums a_md a_seen_meta a_seen_state] in *.
        rewrite Em. change (String.eqb n_meta n_state) with false.
        change (String.eqb n_meta n_sums) with false. cbn [dec_all nonempty]. rewrite Ed.
        rewrite Hm, <- app_assoc, Hss, orb_true_r. repeat split; try assumption.
        constructor; [|assumption]. split; [left; assumption|assumption]. }
      destruct (String.eqb (m_name mb) n_state) eqn:Es.
      { apply String.eqb_eq in Es.
        destruct (m_intact mb) eqn:Ei; cbn [negb] in Hr; [|discriminate].
        apply IH in Hr as (Hall & Hm & Hs & Hq & Hd & Hsm & Hss).
        cbn [a_meta a_state a_sums a_md a_seen_meta a_seen_state] in *.
        rewrite Es. change (String.eqb n_state n_sums) with false. cbn [nonempty].
        rewrite Hs, <- app_assoc, Hsm, orb_true_r. repeat split; try assumption.
        constructor; [|assumption]. split; [right; left; assumption|assumption]. }
      destruct (String.eqb (m_name mb) n_sums) eqn:Eq; [|discriminate].
      { apply String.eqb_eq in Eq.
        destruct (m_intact mb) eqn:Ei; cbn [negb] in Hr; [|discriminate].
        apply IH in Hr as (Hall & Hm & Hs & Hq & Hd & Hsm & Hss).
        cbn [a_meta a_state a_sums a_md a_seen_meta a_seen_state] in *.
        rewrite Hq, <- app_assoc. repeat split; try assumption.
        constructor; [|assumption]. split; [right; right; assumption|assumption]. }
  Qed.

  (* ---- inversion of the integrity check ---- *)
  Lemma verify_lines_inv a ls : forall seen seen',
    verify_lines a ls seen = Ok seen' ->
    (forall d f, In (Some (d, f)) ls -> lookup_hash a f = Some d) /\
    (forall f, In f seen' -> In f seen \/ exists d, In (Some (d, f)) ls).
  Proof.
    induction ls as [|l ls IH]; intros seen seen' Hv.
    - cbn in Hv. injection Hv as <-. split; [intros d f []|intros f Hf; left; exact Hf].
    - cbn [Model.verify_lines] in Hv. destruct l as [[d f]|]; [|discriminate].
      destruct (lookup_hash a f) as [h|] eqn:El; [|discriminate].
      destruct (deqb d h) eqn:Ed; [|discriminate].
      apply deqb_spec in Ed. subst h.
      apply IH in Hv as [Hall Hseen]. split.
      + intros d' f' [Heq|Hin]; [injection Heq as <- <-; exact El|apply Hall; exact Hin].
      + intros f' Hf'. destruct (Hseen f' Hf') as [[<-|Hs]|[d' Hd']].
        * right. exists d. left. reflexivity.
        * left. exact Hs.
        * right. exists d'. right. exact Hd'.
  Qed.

  Lemma mem_str_In f l : mem_str f l = true -> In f l.
  Proof.
    unfold mem_str. intros Hx. apply existsb_exists in Hx as (x & Hin & Heq).
    apply String.eqb_eq in Heq. subst x. exact Hin.
  Qed.

  Lemma decode_ok_inv a :
    decode_and_verify a = Ok tt ->
    let ls := parse_sums (a_sums a) in
    (forall d f, In (Some (d, f)) ls -> lookup_hash a f = Some d) /\
    (exists d, In (Some (d, n_meta)) ls) /\ (exists d, In (Some (d, n_state)) ls).
  Proof.
    unfold Model.decode_and_verify. intros Hd.
    destruct (verify_lines a (parse_sums (a_sums a)) []) as [seen|e] eqn:Ev; [|discriminate].
    destruct (scan_err (a_sums a)); [discriminate|].
    destruct (mem_str n_meta seen && mem_str n_state seen) eqn:Em; [|discriminate].
    apply andb_true_iff in Em as [Hm Hs]. apply mem_str_In in Hm, Hs.
    apply verify_lines_inv in Ev as [Hall Hseen]. split; [exact Hall|]. split.
    - destruct (Hseen _ Hm) as [[]|Hx]; exact Hx.
    - destruct (Hseen _ Hs) as [[]|Hx]; exact Hx.
  Qed.

  (* ---- the main inversion: what acceptance implies, for EVERY member list ---- *)
  Theorem read_ok_inv L t m' s' :
    read L t = Ok (m', s') ->
    t = true /\ Forall member_ok L /\
    s' = cat n_state L /\
    dec_all meta0 (datas n_meta L) = Some m' /\
    datas n_meta L <> [] /\ datas n_state L <> [] /\
    (exists d, In (Some (d, n_meta)) (parse_sums (cat n_sums L))) /\
    (exists d, In (Some (d, n_state)) (parse_sums (cat n_sums L))) /\
    (forall d, In (Some (d, n_meta)) (parse_sums (cat n_sums L)) -> d = H (cat n_meta L)) /\
    (forall d, In (Some (d, n_state)) (parse_sums (cat n_sums L)) -> d = H (cat n_state L)).
  Proof.
    unfold Model.read. intros Hr.
    destruct (read_members L (acc0 meta0)) as [a|e] eqn:Erm; [|discriminate].
    destruct t; cbn [negb] in Hr; [|discriminate].
    destruct (decode_and_verify a) as [[]|e] eqn:Edv; [|discriminate].
    destruct (a_seen_meta a && a_seen_state a) eqn:Eseen; [|discriminate].
    injection Hr as <- <-.
    apply read_members_inv in Erm as (Hall & Hm & Hs & Hq & Hd & Hsm & Hss).
    cbn in Hm, Hs, Hq, Hd, Hsm, Hss.
    apply andb_true_iff in Eseen as [E1 E2]. rewrite Hsm in E1. rewrite Hss in E2.
    apply decode_ok_inv in Edv as (Hlk & Hem & Hes). rewrite Hq in *.
    repeat split; try assumption.
    - intros Hx. rewrite Hx in E1. discriminate.
    - intros Hx. rewrite Hx in E2. discriminate.
    - intros d Hin. apply Hlk in Hin. unfold Model.lookup_hash in Hin.
      change (String.eqb n_meta n_meta) with true in Hin. rewrite Hm in Hin. congruence.
    - intros d Hin. apply Hlk in Hin. unfold Model.lookup_hash in Hin.
      change (String.eqb n_state n_meta) with false in Hin.
      change (String.eqb n_state n_state) with true in Hin. rewrite Hs in Hin. congruence.
  Qed.

  (* ---- "lacks a member or its checksum": for EVERY member list ---- *)
  Theorem no_meta_rejected L t r : datas n_meta L = [] -> read L t = Ok r -> False.
  Proof.
    intros Hx Hr. destruct r as [m' s'].
    apply read_ok_inv in Hr as (_ & _ & _ & _ & Hm & _). exact (Hm Hx).
  Qed.

  Theorem no_state_rejected L t r : datas n_state L = [] -> read L t = Ok r -> False.
  Proof.
    intros Hx Hr. destruct r as [m' s'].
    apply read_ok_inv in Hr as (_ & _ & _ & _ & _ & Hs & _). exact (Hs Hx).
  Qed.

  (* no parsed checksum line names meta.json / state.bin *)
  Theorem no_meta_line_rejected L t r :
    (forall d, ~ In (Some (d, n_meta)) (parse_sums (cat n_sums L))) -> read L t = Ok r -> False.
  Proof.
    intros Hx Hr. destruct r as [m' s'].
    apply read_ok_inv in Hr as (_ & _ & _ & _ & _ & _ & [d Hd] & _). exact (Hx d Hd).
  Qed.

  Theorem no_state_line_rejected L t r :
    (forall d, ~ In (Some (d, n_state)) (parse_sums (cat n_sums L))) -> read L t = Ok r -> False.
  Proof.
    intros Hx Hr. destruct r as [m' s'].
    apply read_ok_inv in Hr as (_ & _ & _ & _ & _ & _ & _ & [d Hd] & _). exact (Hx d Hd).
  Qed.

  (* the checksum bytes are empty: the member is absent, or every SHA256SUMS member is empty *)
  Theorem no_sums_rejected L t r : cat n_sums L = [] -> read L t = Ok r -> False.
  Proof.
    intros Hq. apply no_meta_line_rejected. intros d Hd. rewrite Hq, parse_empty in Hd. destruct Hd.
  Qed.

  Theorem no_sums_member_rejected L t r : datas n_sums L = [] -> read L t = Ok r -> False.
  Proof. intros Hq. apply no_sums_rejected. unfold cat. rewrite Hq. reflexivity. Qed.

  (* a recorded checksum that is not the hash of the member's bytes *)
  Theorem wrong_meta_sum_rejected L t r d :
    In (Some (d, n_meta)) (parse_sums (cat n_sums L)) -> d <> H (cat n_meta L) ->
    read L t = Ok r -> False.
  Proof.
    intros Hin Hd Hr. destruct r as [m' s'].
    apply read_ok_inv in Hr as (_ & _ & _ & _ & _ & _ & _ & _ & Hm & _). exact (Hd (Hm d Hin)).
  Qed.

  Theorem wrong_state_sum_rejected L t r d :
    In (Some (d, n_state)) (parse_sums (cat n_sums L)) -> d <> H (cat n_state L) ->
    read L t = Ok r -> False.
  Proof.
    intros Hin Hd Hr. destruct r as [m' s'].
    apply read_ok_inv in Hr as (_ & _ & _ & _ & _ & _ & _ & _ & _ & Hs). exact (Hd (Hs d Hin)).
  Qed.

  (* ---- round trip ---- *)
  Lemma deqb_refl d : deqb d d = true.
  Proof. apply deqb_spec; reflexivity. Qed.

  Lemma verify_written ord m s (md : Meta) sm ss :
    decode_and_verify (Acc (enc_meta m) s (print_sums (sums_lines ord m s)) md sm ss) = Ok tt.
  Proof.
    unfold Model.decode_and_verify. cbn [a_sums]. rewrite parse_print, scan_print.
    destruct ord; unfold Model.sums_lines; cbn [map Model.verify_lines];
      unfold Model.lookup_hash; cbn [a_meta a_state];
      change (String.eqb n_meta n_meta) with true;
      change (String.eqb n_state n_meta) with false;
      change (String.eqb n_state n_state) with true;
      cbv beta iota; rewrite !deqb_refl; reflexivity.
  Qed.

  (* what is read back is whatever the metadata codec decodes from its own encoding: the state
     bytes always, the metadata exactly when encoding/json round-trips on it *)
  Theorem roundtrip_codec ord m s m' :
    dec_meta meta0 (enc_meta m) = Some m' -> read (write ord m s) true = Ok (m', s).
  Proof.
    intros Hdec.
    unfold Model.read, Model.write. cbn [Model.read_members m_name m_data m_intact].
    change (String.eqb n_meta n_meta) with true.
    change (String.eqb n_state n_meta) with false.
    change (String.eqb n_state n_state) with true.
    change (String.eqb n_sums n_meta) with false.
    change (String.eqb n_sums n_state) with false.
    change (String.eqb n_sums n_sums) with true.
    cbn [negb acc0 a_md a_meta a_state a_sums a_seen_meta a_seen_state app]. rewrite Hdec.
    cbn [negb acc0 a_md a_meta a_state a_sums a_seen_meta a_seen_state app].
    rewrite verify_written. reflexivity.
  Qed.

  Theorem roundtrip ord m s : read (write ord m s) true = Ok (m, s).
  Proof. apply roundtrip_codec, dec_enc. Qed.

  (* a metadata value the codec does not give back (encoding/json: a string that is not valid
     UTF-8) is NOT read back, although the archive verifies: the open finding *)
  Theorem roundtrip_lossy ord m s m' :
    dec_meta meta0 (enc_meta m) = Some m' -> m' <> m ->
    exists r, read (write ord m s) true = Ok r /\ r <> (m, s).
  Proof.
    intros Hdec Hne. exists (m', s). split; [apply roundtrip_codec; exact Hdec|].
    intros Heq. injection Heq as Hx. exact (Hne Hx).
  Qed.

  (* ---- checksums untouched => payload untouched ---- *)
  Lemma In_sums_meta ord m s d :
    In (Some (d, n_meta)) (map Some (sums_lines ord m s)) -> d = H (enc_meta m).
  Proof.
    unfold Model.sums_lines. destruct ord; cbn [map In]; intros [Hx|[Hx|[]]];
      try (injection Hx as <-; reflexivity); discriminate Hx.
  Qed.
  Lemma In_sums_state ord m s d :
    In (Some (d, n_state)) (map Some (sums_lines ord m s)) -> d = H s.
  Proof.
    unfold Model.sums_lines. destruct ord; cbn [map In]; intros [Hx|[Hx|[]]];
      try (injection Hx as <-; reflexivity); discriminate Hx.
  Qed.

  Theorem sums_intact_sound ord m s L t m' s' :
    cat n_sums L = print_sums (sums_lines ord m s) ->
    read L t = Ok (m', s') ->
    s' = s /\ cat n_state L = s /\ cat n_meta L = enc_meta m.
  Proof.
    intros Hq Hr. apply read_ok_inv in Hr as (_ & _ & Hs & _ & _ & _ & [dm Hdm] & [ds Hds] & Hm1 & Hs1).
    rewrite Hq, parse_print in *.
    pose proof (Hm1 _ Hdm) as E1. pose proof (Hs1 _ Hds) as E2.
    apply In_sums_meta in Hdm. apply In_sums_state in Hds. subst dm ds.
    apply H_inj in E1, E2. subst s'. repeat split; congruence.
  Qed.

  (* pieces that all decode and concatenate to an encoding: there is one piece, the encoding *)
  Lemma dec_all_some_nonempty ds : forall md m', dec_all md ds = Some m' -> Forall (fun d => d <> []) ds.
  Proof.
    induction ds as [|d ds IH]; intros md m' Hd; [constructor|].
    cbn in Hd. destruct (dec_meta md d) as [md'|] eqn:E; [|discriminate].
    constructor; [|eapply IH; eassumption].
    intros ->. rewrite dec_empty in E. discriminate.
  Qed.

  Lemma dec_all_encoding m ds m' :
    dec_all meta0 ds = Some m' -> List.concat ds = enc_meta m -> m' = m.
  Proof.
    intros Hd Hc. pose proof (dec_all_some_nonempty _ _ _ Hd) as Hne.
    destruct ds as [|a [|b rest]].
    - cbn in Hc. symmetry in Hc. destruct (enc_nonempty _ Hc).
    - cbn in Hc. rewrite app_nil_r in Hc. subst a. cbn in Hd. rewrite dec_enc in Hd. congruence.
    - exfalso. cbn [List.concat] in Hc. cbn [dec_all] in Hd.
      destruct (dec_meta meta0 a) as [md1|] eqn:E1; [|discriminate].
      destruct (dec_meta md1 b) as [md2|] eqn:E2; [|discriminate].
      inversion Hne as [|? ? Ha Hne']; subst. inversion Hne' as [|? ? Hb _]; subst.
      destruct (dec_pieces m a b (List.concat rest) meta0 md1 Hc Ha Hb); congruence.
  Qed.

  (* For EVERY member list: acceptance with untouched checksum bytes means the original state
     bytes and the original metadata, however the members are cut or repeated. *)
  Theorem accept_sound ord m s L t m' s' :
    cat n_sums L = print_sums (sums_lines ord m s) ->
    read L t = Ok (m', s') ->
    m' = m /\ s' = s /\ cat n_state L = s /\ cat n_meta L = enc_meta m.
  Proof.
    intros Hq Hr. pose proof Hr as Hr2.
    apply (sums_intact_sound ord m s) in Hr as (Hs & Hst & Hm); [|exact Hq].
    apply read_ok_inv in Hr2 as (_ & _ & _ & Hd & _).
    split; [|auto]. eapply dec_all_encoding; [exact Hd|exact Hm].
  Qed.

  (* payload members untouched (exactly one of each, as written) => extraction identical,
     whatever happened to the SHA256SUMS member(s) *)
  Theorem payload_intact_sound m s L t m' s' :
    datas n_meta L = [enc_meta m] -> datas n_state L = [s] ->
    read L t = Ok (m', s') -> m' = m /\ s' = s.
  Proof.
    intros Hm Hs Hr. apply read_ok_inv in Hr as (_ & _ & Hs' & Hd & _).
    rewrite Hm in Hd. cbn in Hd. rewrite dec_enc in Hd. injection Hd as <-.
    unfold cat in Hs'. rewrite Hs in Hs'. cbn in Hs'. rewrite app_nil_r in Hs'. auto.
  Qed.

  (* ---- single corruptions of a written archive ---- *)
  Definition inserted {A} (x : A) (L L' : list A) : Prop :=
    exists a b, L = a ++ b /\ L' = a ++ x :: b.

  Inductive corrupt (L : list member) : list member -> bool -> Prop :=
  | c_data pre mb post d :                 (* the bytes of one member are altered *)
      L = pre ++ mb :: post -> d <> m_data mb ->
      corrupt L (pre ++ Member (m_name mb) d true :: post) true
  | c_trunc_member pre mb post d :         (* cut inside a member's data *)
      L = pre ++ mb :: post ->
      corrupt L (pre ++ [Member (m_name mb) d false]) false
  | c_trunc_header pre post :              (* cut / damage inside a header: Next fails *)
      L = pre ++ post -> corrupt L pre false
  | c_trunc_clean pre post :               (* cut exactly between members *)
      L = pre ++ post -> post <> [] -> corrupt L pre true
  | c_remove pre mb post :
      L = pre ++ mb :: post -> corrupt L (pre ++ post) true
  | c_inject x L' :                        (* a member is injected (duplication included) *)
      inserted x L L' -> corrupt L L' true
  | c_reorder L' :
      Permutation L L' -> corrupt L L' true
  | c_rename pre mb post n' :              (* to ANY other name, the three expected ones included *)
      L = pre ++ mb :: post -> n' <> m_name mb ->
      corrupt L (pre ++ Member n' (m_data mb) true :: post) true.

  Lemma three_split {A} (x y z : A) pre mb post :
    [x; y; z] = pre ++ mb :: post ->
    (pre = [] /\ mb = x /\ post = [y; z]) \/
    (pre = [x] /\ mb = y /\ post = [z]) \/
    (pre = [x; y] /\ mb = z /\ post = []).
  Proof.
    destruct pre as [|a [|b [|c pre]]]; cbn; intros Heq.
    - injection Heq as <- <-. auto.
    - injection Heq as <- <- <-. auto.
    - injection Heq as <- <- <- <-. auto.
    - exfalso. injection Heq as _ _ _ Heq. destruct pre; discriminate.
  Qed.

  Lemma app_eq_self_l {A} (a b : list A) : a ++ b = a -> b = [].
  Proof. intros Hx. rewrite <- (app_nil_r a) in Hx at 2. apply app_inv_head in Hx. exact Hx. Qed.
  Lemma app_eq_self_r {A} (a b : list A) : b ++ a = a -> b = [].
  Proof.
    intros Hx. assert (Hl : List.length (b ++ a) = List.length a) by (rewrite Hx; reflexivity).
    rewrite app_length in Hl. destruct b; [reflexivity|cbn in Hl; clear - Hl; lia].
  Qed.

  Local Ltac names :=
    cbn [m_name m_data m_intact];
    change (String.eqb n_meta n_meta) with true in *;
    change (String.eqb n_state n_state) with true in *;
    change (String.eqb n_sums n_sums) with true in *;
    change (String.eqb n_meta n_state) with false in *;
    change (String.eqb n_meta n_sums) with false in *;
    change (String.eqb n_state n_meta) with false in *;
    change (String.eqb n_state n_sums) with false in *;
    change (String.eqb n_sums n_meta) with false in *;
    change (String.eqb n_sums n_state) with false in *;
    cbv beta iota in *.

  Lemma write_cat_sums ord m s : cat n_sums (write ord m s) = print_sums (sums_lines ord m s).
  Proof. unfold Model.write. rewrite !cat_cons. names. unfold cat, datas; cbn. apply app_nil_r. Qed.
  Lemma write_datas_meta ord m s : datas n_meta (write ord m s) = [enc_meta m].
  Proof. unfold Model.write. rewrite !datas_cons. names. reflexivity. Qed.
  Lemma write_datas_state ord m s : datas n_state (write ord m s) = [s].
  Proof. unfold Model.write. rewrite !datas_cons. names. reflexivity. Qed.
  Lemma write_datas_sums ord m s : datas n_sums (write ord m s) = [print_sums (sums_lines ord m s)].
  Proof. unfold Model.write. rewrite !datas_cons. names. reflexivity. Qed.

  Lemma filter_perm_singleton {A} (f : A -> bool) L L' x :
    Permutation L L' -> filter f L = [x] -> filter f L' = [x].
  Proof.
    intros Hp Hf.
    assert (Hpf : Permutation (filter f L) (filter f L')).
    { clear Hf. induction Hp; cbn.
      - constructor.
      - destruct (f x0); [constructor|]; assumption.
      - destruct (f x0), (f y); try apply Permutation_refl; apply perm_swap.
      - eapply Permutation_trans; eassumption. }
    rewrite Hf in Hpf. apply Permutation_length_1_inv in Hpf. exact Hpf.
  Qed.

  Lemma datas_perm_singleton n L L' d :
    Permutation L L' -> datas n L = [d] -> datas n L' = [d].
  Proof.
    unfold datas. intros Hp Hd.
    destruct (filter (fun mb => String.eqb (m_name mb) n) L) as [|x [|y l]] eqn:Ef;
      cbn in Hd; try discriminate.
    injection Hd as <-.
    rewrite (filter_perm_singleton _ _ _ _ Hp Ef). reflexivity.
  Qed.

  (* removing any member of a written archive is rejected (the empty state included) *)
  Theorem remove_rejected ord m s pre mb post t r :
    write ord m s = pre ++ mb :: post -> read (pre ++ post) t = Ok r -> False.
  Proof.
    intros Hw Hr. unfold Model.write in Hw.
    apply three_split in Hw as [(->&->&->)|[(->&->&->)|(->&->&->)]]; cbn [app] in Hr.
    - eapply no_meta_rejected; [|exact Hr]. rewrite !datas_cons. names. reflexivity.
    - eapply no_state_rejected; [|exact Hr]. rewrite !datas_cons. names. reflexivity.
    - eapply no_sums_member_rejected; [|exact Hr]. rewrite !datas_cons. names. reflexivity.
  Qed.

  (* renaming any member of a written archive to any other name is rejected *)
  Theorem rename_rejected ord m s pre mb post n' t r :
    write ord m s = pre ++ mb :: post -> n' <> m_name mb ->
    read (pre ++ Member n' (m_data mb) true :: post) t = Ok r -> False.
  Proof.
    intros Hw Hn Hr. unfold Model.write in Hw.
    apply three_split in Hw as [(->&->&->)|[(->&->&->)|(->&->&->)]];
      cbn [app m_name m_data] in Hr, Hn; apply String.eqb_neq in Hn.
    - eapply no_meta_rejected; [|exact Hr]. rewrite !datas_cons. cbn [m_name]. rewrite Hn. names. reflexivity.
    - eapply no_state_rejected; [|exact Hr]. rewrite !datas_cons. cbn [m_name]. rewrite Hn. names. reflexivity.
    - eapply no_sums_member_rejected; [|exact Hr]. rewrite !datas_cons. cbn [m_name]. rewrite Hn. names. reflexivity.
  Qed.

  (* an archive that stops, even cleanly, before its last member is rejected *)
  Theorem clean_cut_rejected ord m s pre post t r :
    write ord m s = pre ++ post -> post <> [] -> read pre t = Ok r -> False.
  Proof.
    intros Hw Hp Hr. eapply no_sums_member_rejected; [|exact Hr].
    unfold Model.write in Hw.
    destruct pre as [|a [|b [|c pre]]]; cbn in Hw; try reflexivity.
    - injection Hw as <- _. rewrite datas_cons. names. reflexivity.
    - injection Hw as <- <- _. rewrite !datas_cons. names. reflexivity.
    - injection Hw as <- <- <- Hw. destruct pre; [|discriminate]. cbn in Hw. subst post. contradiction.
  Qed.

  Theorem tamper ord m s L' t' r :
    corrupt (write ord m s) L' t' -> read L' t' = Ok r -> r = (m, s).
  Proof.
    clear enc_nonempty dec_pieces scan_print.    (* not needed: keep them out of the statement *)
    intros Hc Hr. destruct r as [m' s'].
    pose proof (write_cat_sums ord m s) as Wq.
    pose proof (write_datas_meta ord m s) as Wm.
    pose proof (write_datas_state ord m s) as Ws.
    pose proof (write_datas_sums ord m s) as Wqs.
    inversion Hc; subst; clear Hc.
    - (* c_data *)
      unfold Model.write in H0. apply three_split in H0 as [(->&->&->)|[(->&->&->)|(->&->&->)]];
        cbn [m_name m_data app] in *.
      + (* meta altered: checksums intact => rejected *)
        exfalso. eapply sums_intact_sound with (ord := ord) (m := m) (s := s) in Hr as (_ & _ & Hm).
        * rewrite cat_cons in Hm. names. rewrite !cat_cons in Hm. names.
          unfold cat, datas in Hm; cbn in Hm. rewrite app_nil_r in Hm. congruence.
        * rewrite !cat_cons. names. unfold cat, datas; cbn. apply app_nil_r.
      + exfalso. eapply sums_intact_sound with (ord := ord) (m := m) (s := s) in Hr as (_ & Hs & _).
        * rewrite !cat_cons in Hs. names. unfold cat, datas in Hs; cbn in Hs.
          rewrite app_nil_r in Hs. congruence.
        * rewrite !cat_cons. names. unfold cat, datas; cbn. apply app_nil_r.
      + (* checksum member altered: payload members untouched *)
        eapply payload_intact_sound in Hr as [-> ->]; [reflexivity| |];
          rewrite !datas_cons; names; reflexivity.
    - (* c_trunc_member *) apply read_ok_inv in Hr as (Ht & _). discriminate.
    - (* c_trunc_header *) apply read_ok_inv in Hr as (Ht & _). discriminate.
    - (* c_trunc_clean: the checksum member is gone *)
      exfalso. eapply clean_cut_rejected; [exact H0|exact H1|exact Hr].
    - (* c_remove: whichever member goes, the archive lacks it *)
      exfalso. eapply remove_rejected; [exact H0|exact Hr].
    - (* c_inject *)
      destruct H0 as (a & b & Hab & ->).
      pose proof Hr as Hr2.
      apply read_ok_inv in Hr2 as (_ & Hall & _ & Hd & _).
      assert (Hx : member_ok x).
      { rewrite Forall_forall in Hall. apply Hall. apply in_or_app. right. left. reflexivity. }
      destruct Hx as [[Hn|[Hn|Hn]] Hi].
      + (* an extra meta.json: only the empty one keeps the hash, and it does not decode *)
        exfalso.
        eapply sums_intact_sound with (ord := ord) (m := m) (s := s) in Hr as (_ & _ & Hm).
        * rewrite cat_app, cat_cons, Hn in Hm. names.
          assert (Hw : cat n_meta a ++ cat n_meta b = enc_meta m).
          { rewrite <- cat_app, <- Hab. unfold cat. rewrite Wm. cbn. apply app_nil_r. }
          assert (Hx0 : m_data x = []).
          { rewrite <- Hw in Hm. apply app_inv_head in Hm. apply app_eq_self_r in Hm. exact Hm. }
          rewrite datas_app, datas_cons, Hn in Hd. names.
          clear - Hd Hx0 dec_empty.
          revert Hd. generalize meta0. induction (datas n_meta a) as [|d0 l IH]; intros md Hd.
          -- cbn in Hd. rewrite Hx0, dec_empty in Hd. discriminate.
          -- cbn in Hd. destruct (dec_meta md d0); [|discriminate]. eapply IH; eassumption.
        * rewrite cat_app, cat_cons, Hn. names. rewrite <- cat_app, <- Hab. exact Wq.
      + (* an extra state.bin: only the empty one keeps the hash *)
        pose proof Hr as Hr3.
        eapply sums_intact_sound with (ord := ord) (m := m) (s := s) in Hr as (-> & _ & _).
        * rewrite datas_app, datas_cons, Hn in Hd. names. rewrite <- datas_app, <- Hab, Wm in Hd.
          cbn in Hd. rewrite dec_enc in Hd. congruence.
        * rewrite cat_app, cat_cons, Hn. names. rewrite <- cat_app, <- Hab. exact Wq.
      + (* an extra SHA256SUMS: payload members untouched *)
        eapply payload_intact_sound in Hr as [-> ->]; [reflexivity| |].
        * rewrite datas_app, datas_cons, Hn. names. rewrite <- datas_app, <- Hab. exact Wm.
        * rewrite datas_app, datas_cons, Hn. names. rewrite <- datas_app, <- Hab. exact Ws.
    - (* c_reorder *)
      eapply payload_intact_sound in Hr as [-> ->]; [reflexivity| |].
      + eapply datas_perm_singleton; eassumption.
      + eapply datas_perm_singleton; eassumption.
    - (* c_rename: the archive lacks the member under its own name *)
      exfalso. eapply rename_rejected; [exact H0|exact H1|exact Hr].
  Qed.

  (* ---- sharper statements for the classes the property names ---- *)
  Theorem payload_change_rejected ord m s pre mb post d t r :
    write ord m s = pre ++ mb :: post -> m_name mb <> n_sums -> d <> m_data mb ->
    read (pre ++ Member (m_name mb) d true :: post) t = Ok r -> False.
  Proof.
    intros Hw Hn Hd Hr. destruct r as [m' s'].
    unfold Model.write in Hw. apply three_split in Hw as [(->&->&->)|[(->&->&->)|(->&->&->)]];
      cbn [m_name m_data app] in *.
    - eapply sums_intact_sound with (ord := ord) (m := m) (s := s) in Hr as (_ & _ & Hm).
      + rewrite !cat_cons in Hm. names. unfold cat, datas in Hm; cbn in Hm.
        rewrite app_nil_r in Hm. congruence.
      + rewrite !cat_cons. names. unfold cat, datas; cbn. apply app_nil_r.
    - eapply sums_intact_sound with (ord := ord) (m := m) (s := s) in Hr as (_ & Hs & _).
      + rewrite !cat_cons in Hs. names. unfold cat, datas in Hs; cbn in Hs.
        rewrite app_nil_r in Hs. congruence.
      + rewrite !cat_cons. names. unfold cat, datas; cbn. apply app_nil_r.
    - contradiction.
  Qed.

  Theorem unexpected_member_rejected L t r :
    (exists mb, In mb L /\ ~ expected (m_name mb)) -> read L t = Ok r -> False.
  Proof.
    intros (mb & Hin & Hn) Hr. destruct r as [m' s'].
    apply read_ok_inv in Hr as (_ & Hall & _). rewrite Forall_forall in Hall.
    apply Hall in Hin as [He _]. contradiction.
  Qed.

  Theorem incomplete_rejected L r : read L false = Ok r -> False.
  Proof. destruct r as [m' s']. intros Hr. apply read_ok_inv in Hr as (Ht & _). discriminate. Qed.

  Theorem damaged_member_rejected L t r :
    (exists mb, In mb L /\ m_intact mb = false) -> read L t = Ok r -> False.
  Proof.
    intros (mb & Hin & Hn) Hr. destruct r as [m' s'].
    apply read_ok_inv in Hr as (_ & Hall & _). rewrite Forall_forall in Hall.
    apply Hall in Hin as [_ Hi]. congruence.
  Qed.

  (* the empty-state archive without its state.bin member: its hashes all match, and it is
     refused because the member never appeared (before the repair 782406e, recorded as fixed in
     known_findings.json, it was accepted) *)
  Theorem missing_state_empty_refused ord m :
    read [Member n_meta (enc_meta m) true; Member n_sums (print_sums (sums_lines ord m [])) true] true
      = Err ENotInArchive.
  Proof.
    unfold Model.read. cbn [Model.read_members m_name m_data m_intact]. names.
    cbn [negb acc0 a_md a_meta a_state a_sums a_seen_meta a_seen_state app]. rewrite dec_enc.
    cbn [negb acc0 a_md a_meta a_state a_sums a_seen_meta a_seen_state app].
    rewrite verify_written. reflexivity.
  Qed.

  (* an injected member with an EXPECTED name (a second SHA256SUMS, an empty extra state.bin, a
     state.bin that is not a regular file and so has no data): accepted or not, the extraction is
     the original *)
  Theorem expected_extra_member_same_extraction ord m s x L' r :
    inserted x (write ord m s) L' -> expected (m_name x) ->
    read L' true = Ok r -> r = (m, s).
  Proof. intros Hi _ Hr. eapply tamper; [eapply c_inject; exact Hi|exact Hr]. Qed.

  (* restore is fed only what the reader accepted *)
  Theorem verify_before_restore hdr L t tr r :
    restore deqb H meta0 dec_meta parse_sums scan_err hdr L t tr = Some r ->
    hdr = true /\ tr = true /\ read L t = Ok r.
  Proof.
    unfold restore, Model.read_gz. destruct hdr; cbn [negb]; [|discriminate].
    destruct (read L t) as [r0|e]; [|discriminate].
    destruct tr; [|discriminate]. intros Hx; injection Hx as <-. auto.
  Qed.

  Theorem read_gz_ok_inv hdr L t tr r :
    read_gz hdr L t tr = Ok r -> hdr = true /\ tr = true /\ read L t = Ok r.
  Proof.
    unfold Model.read_gz. destruct hdr; cbn [negb]; [|discriminate].
    destruct (read L t) as [r0|e]; [|discriminate].
    destruct tr; [|discriminate]. intros Hx; injection Hx as <-. auto.
  Qed.
End Proofs.
