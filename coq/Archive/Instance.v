(* A concrete instance of every Section variable of the archive model, satisfying every
   hypothesis of Archive/Proofs.v: the hypotheses are jointly satisfiable (non-vacuity),
   and the instantiated theorems compute. *)
From Verif Require Import Base.Prelude Archive.Model Archive.Proofs.

Definition idigest := bytes.
Definition iH (b : bytes) : idigest := b.
Definition iMeta := bytes.
Definition imeta0 : iMeta := [].
(* a length-prefixed metadata codec: no encoding splits into two pieces that both decode *)
Definition ienc (m : iMeta) : bytes := N.of_nat (List.length m) :: m.
Definition idec (_ : iMeta) (d : bytes) : option iMeta :=
  match d with
  | n :: r => if Nat.eqb (List.length r) (N.to_nat n) then Some r else None
  | [] => None
  end.
Definition iscan (_ : bytes) : bool := false.

Fixpoint iprint (l : list (idigest * string)) : bytes :=
  match l with
  | [] => []
  | (d, f) :: r =>
    N.of_nat (List.length d) :: d ++
    N.of_nat (List.length (bytes_of_string f)) :: bytes_of_string f ++ iprint r
  end.

Fixpoint iparse_fuel (fuel : nat) (b : bytes) : list (option (idigest * string)) :=
  match fuel with
  | O => []
  | S k =>
    match b with
    | [] => []
    | n :: r =>
      let ln := N.to_nat n in
      match skipn ln r with
      | [] => [None]
      | k2 :: r2 =>
        let lf := N.to_nat k2 in
        Some (firstn ln r, bs (firstn lf r2)) :: iparse_fuel k (skipn lf r2)
      end
    end
  end.
Definition iparse (b : bytes) : list (option (idigest * string)) := iparse_fuel (List.length b) b.

Lemma bs_bytes_of_string f : bs (bytes_of_string f) = f.
Proof.
  induction f as [|a f IH]; [reflexivity|].
  cbn [bytes_of_string bs fold_right]. fold (bs (bytes_of_string f)).
  rewrite IH, ascii_N_embedding. reflexivity.
Qed.

Lemma firstn_len_app {A} (a b : list A) : firstn (List.length a) (a ++ b) = a.
Proof. induction a as [|x a IH]; cbn; [destruct b; reflexivity|rewrite IH; reflexivity]. Qed.
Lemma skipn_len_app {A} (a b : list A) : skipn (List.length a) (a ++ b) = b.
Proof. induction a as [|x a IH]; cbn; [reflexivity|exact IH]. Qed.

Lemma iparse_fuel_print l : forall fuel, (List.length l <= fuel)%nat ->
  iparse_fuel fuel (iprint l) = map Some l.
Proof.
  induction l as [|[d f] l IH]; intros fuel Hf.
  - destruct fuel; reflexivity.
  - destruct fuel as [|fuel]; [cbn in Hf; lia|].
    cbn [iprint iparse_fuel map]. rewrite !Nat2N.id.
    rewrite skipn_len_app, firstn_len_app. rewrite !Nat2N.id.
    rewrite skipn_len_app, firstn_len_app, bs_bytes_of_string.
    rewrite IH; [reflexivity|cbn in Hf; lia].
Qed.

Lemma iprint_length l : (List.length l <= List.length (iprint l))%nat.
Proof.
  induction l as [|[d f] l IH]; cbn [iprint List.length]; [lia|].
  rewrite app_length. cbn [List.length]. rewrite app_length. lia.
Qed.

Lemma iparse_print l : iparse (iprint l) = map Some l.
Proof. unfold iparse. apply iparse_fuel_print, iprint_length. Qed.

Lemma iH_inj a b : iH a = iH b -> a = b.
Proof. exact (fun e => e). Qed.
Lemma idec_enc m : idec imeta0 (ienc m) = Some m.
Proof. unfold idec, ienc. rewrite Nat2N.id, Nat.eqb_refl. reflexivity. Qed.
Lemma idec_empty m : idec m [] = None.
Proof. reflexivity. Qed.
Lemma ienc_nonempty m : ienc m <> [].
Proof. discriminate. Qed.
Lemma iparse_empty : iparse [] = [].
Proof. reflexivity. Qed.
Lemma idec_pieces (m : iMeta) (a b c : list N) (md md' : iMeta) :
  a ++ b ++ c = ienc m -> a <> [] -> b <> [] -> idec md a = None \/ idec md' b = None.
Proof.
  intros He Ha Hb. left. destruct a as [|n a']; [contradiction|].
  unfold ienc in He. cbn [app] in He. injection He as Hn Hm.
  unfold idec. destruct (Nat.eqb (List.length a') (N.to_nat n)) eqn:E; [|reflexivity].
  exfalso. apply Nat.eqb_eq in E. subst n. rewrite Nat2N.id in E.
  apply (f_equal (@List.length N)) in Hm. rewrite !app_length in Hm.
  destruct b; [contradiction|]. cbn [List.length] in Hm. lia.
Qed.
Lemma iparse_print_lines ord m s :
  iparse (iprint (sums_lines iH ienc ord m s)) = map Some (sums_lines iH ienc ord m s).
Proof. apply iparse_print. Qed.
Lemma iscan_print ord m s : iscan (iprint (sums_lines iH ienc ord m s)) = false.
Proof. reflexivity. Qed.

(* The instantiated theorems. *)
Definition iread := read bytes_eqb iH imeta0 idec iparse iscan.
Definition iwrite := write iH ienc iprint.

Theorem instance_roundtrip ord m s : iread (iwrite ord m s) true = Ok (m, s).
Proof.
  exact (roundtrip bytes_eqb iH imeta0 ienc idec iprint iparse iscan bytes_eqb_eq idec_enc
                   iparse_print_lines iscan_print ord m s).
Qed.

Theorem instance_tamper ord m s L' t' r :
  corrupt (iwrite ord m s) L' t' -> iread L' t' = Ok r -> r = (m, s).
Proof.
  exact (tamper bytes_eqb iH imeta0 ienc idec iprint iparse iscan bytes_eqb_eq iH_inj idec_enc
                idec_empty iparse_print_lines iparse_empty ord m s L' t' r).
Qed.

(* every Section hypothesis at once: the strongest theorem (it uses all but [scan_print]) *)
Theorem instance_accept_sound ord m s L t m' s' :
  cat n_sums L = iprint (sums_lines iH ienc ord m s) ->
  iread L t = Ok (m', s') -> m' = m /\ s' = s /\ cat n_state L = s /\ cat n_meta L = ienc m.
Proof.
  exact (accept_sound bytes_eqb iH imeta0 ienc idec iprint iparse iscan bytes_eqb_eq iH_inj idec_enc
                      idec_empty ienc_nonempty idec_pieces iparse_print_lines ord m s L t m' s').
Qed.

(* A concrete, non-trivial archive: it reads back; flipping a state byte is rejected;
   dropping state.bin of an empty state is refused (it was accepted before the repair 782406e). *)
Example ex_roundtrip :
  iread (iwrite true [1; 2; 3]%N [10; 20; 30; 40]%N) true = Ok ([1; 2; 3]%N, [10; 20; 30; 40]%N).
Proof. vm_compute. reflexivity. Qed.

Example ex_flip_rejected :
  iread [ Member n_meta (ienc [1; 2; 3]%N) true;
          Member n_state [10; 21; 30; 40]%N true;
          Member n_sums (iprint (sums_lines iH ienc true [1; 2; 3]%N [10; 20; 30; 40]%N)) true ] true
  = Err EHashMismatch.
Proof. vm_compute. reflexivity. Qed.

Example ex_empty_state_without_member_refused :
  iread [ Member n_meta (ienc [1]%N) true;
          Member n_sums (iprint (sums_lines iH ienc false [1]%N [])) true ] true
  = Err ENotInArchive.
Proof. vm_compute. reflexivity. Qed.

(* A lossy metadata codec (it stores byte 255 as 253, as encoding/json stores an invalid UTF-8 byte
   as U+FFFD) satisfying every hypothesis of [roundtrip_lossy]: the archive of [255] verifies and
   reads back as [253]. *)
Definition lenc (m : iMeta) : bytes := ienc (map (fun x => if N.eqb x 255 then 253%N else x) m).
Example ex_lossy_roundtrip :
  read bytes_eqb iH imeta0 idec iparse iscan (write iH lenc iprint true [255]%N [7]%N) true
  = Ok ([253]%N, [7]%N).
Proof. vm_compute. reflexivity. Qed.

(* The non-trivial branch of [tamper]: corrupted archives that ARE accepted, with the original
   extraction.  (1) an empty extra state.bin injected between the members; (2) a second
   SHA256SUMS with a valid line appended; (3) the members reordered. *)
Definition ex_m : iMeta := [1; 2; 3]%N.
Definition ex_s : bytes := [10; 20; 30; 40]%N.
Definition ex_inj_state : list member :=
  [ Member n_meta (ienc ex_m) true; Member n_state [] true; Member n_state ex_s true;
    Member n_sums (iprint (sums_lines iH ienc true ex_m ex_s)) true ].
Definition ex_inj_sums : list member :=
  iwrite true ex_m ex_s ++ [Member n_sums (iprint [(iH ex_s, n_state)]) true].
Definition ex_reordered : list member :=
  [ Member n_sums (iprint (sums_lines iH ienc true ex_m ex_s)) true;
    Member n_state ex_s true; Member n_meta (ienc ex_m) true ].

Example ex_corrupt_accepted_inject_state :
  corrupt (iwrite true ex_m ex_s) ex_inj_state true /\ ex_inj_state <> iwrite true ex_m ex_s /\
  iread ex_inj_state true = Ok (ex_m, ex_s).
Proof.
  split; [|split; [discriminate|vm_compute; reflexivity]].
  eapply (c_inject _ (Member n_state [] true)).
  exists [Member n_meta (ienc ex_m) true],
         [Member n_state ex_s true; Member n_sums (iprint (sums_lines iH ienc true ex_m ex_s)) true].
  split; reflexivity.
Qed.

Example ex_corrupt_accepted_inject_sums :
  corrupt (iwrite true ex_m ex_s) ex_inj_sums true /\ iread ex_inj_sums true = Ok (ex_m, ex_s).
Proof.
  split; [|vm_compute; reflexivity].
  eapply (c_inject _ (Member n_sums (iprint [(iH ex_s, n_state)]) true)).
  exists (iwrite true ex_m ex_s), []. split; [rewrite app_nil_r; reflexivity|reflexivity].
Qed.

Example ex_corrupt_accepted_reorder :
  corrupt (iwrite true ex_m ex_s) ex_reordered true /\ iread ex_reordered true = Ok (ex_m, ex_s).
Proof.
  split; [|vm_compute; reflexivity].
  apply c_reorder. unfold iwrite, write, ex_reordered.
  eapply Permutation.perm_trans; [apply Permutation.perm_swap|].
  eapply Permutation.perm_trans; [apply Permutation.perm_skip, Permutation.perm_swap|].
  eapply Permutation.perm_trans; [apply Permutation.perm_swap|]. apply Permutation.Permutation_refl.
Qed.
