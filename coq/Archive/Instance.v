(* A concrete instance of every Section variable of the archive model, satisfying every
   hypothesis of Archive/Proofs.v: the hypotheses are jointly satisfiable (non-vacuity),
   and the instantiated theorems compute. *)
From Verif Require Import Base.Prelude Archive.Model Archive.Proofs.

Definition idigest := bytes.
Definition iH (b : bytes) : idigest := b.
Definition iMeta := bytes.
Definition imeta0 : iMeta := [].
Definition ienc (m : iMeta) : bytes := 123%N :: m.
Definition idec (_ : iMeta) (d : bytes) : option iMeta :=
  match d with 123%N :: r => Some r | _ => None end.

Fixpoint iprint (l : list (idigest * string)) : bytes :=
  match l with
  | [] => []
  | (d, f) :: r =>
    N.of_nat (List.length d) :: d ++
    N.of_nat (List.length (bytes_of_string f)) :: bytes_of_string f ++ iprint r
  end.

Fixpoint iparse_fuel (fuel : nat) (b : bytes) : list (option (idigest * string)) :=
  match fuel with
  | O => []
  | S k =>
    match b with
    | [] => []
    | n :: r =>
      let ln := N.to_nat n in
      match skipn ln r with
      | [] => [None]
      | k2 :: r2 =>
        let lf := N.to_nat k2 in
        Some (firstn ln r, bs (firstn lf r2)) :: iparse_fuel k (skipn lf r2)
      end
    end
  end.
Definition iparse (b : bytes) : list (option (idigest * string)) := iparse_fuel (List.length b) b.

Lemma bs_bytes_of_string f : bs (bytes_of_string f) = f.
Proof.
  induction f as [|a f IH]; [reflexivity|].
  cbn [bytes_of_string bs fold_right]. fold (bs (bytes_of_string f)).
  rewrite IH, ascii_N_embedding. reflexivity.
Qed.

Lemma firstn_len_app {A} (a b : list A) : firstn (List.length a) (a ++ b) = a.
Proof. induction a as [|x a IH]; cbn; [destruct b; reflexivity|rewrite IH; reflexivity]. Qed.
Lemma skipn_len_app {A} (a b : list A) : skipn (List.length a) (a ++ b) = b.
Proof. induction a as [|x a IH]; cbn; [reflexivity|exact IH]. Qed.

Lemma iparse_fuel_print l : forall fuel, (List.length l <= fuel)%nat ->
  iparse_fuel fuel (iprint l) = map Some l.
Proof.
  induction l as [|[d f] l IH]; intros fuel Hf.
  - destruct fuel; reflexivity.
  - destruct fuel as [|fuel]; [cbn in Hf; lia|].
    cbn [iprint iparse_fuel map]. rewrite !Nat2N.id.
    rewrite skipn_len_app, firstn_len_app. rewrite !Nat2N.id.
    rewrite skipn_len_app, firstn_len_app, bs_bytes_of_string.
    rewrite IH; [reflexivity|cbn in Hf; lia].
Qed.

Lemma iprint_length l : (List.length l <= List.length (iprint l))%nat.
Proof.
  induction l as [|[d f] l IH]; cbn [iprint List.length]; [lia|].
  rewrite app_length. cbn [List.length]. rewrite app_length. lia.
Qed.

Lemma iparse_print l : iparse (iprint l) = map Some l.
Proof. unfold iparse. apply iparse_fuel_print, iprint_length. Qed.

Lemma iH_inj a b : iH a = iH b -> a = b.
Proof. exact (fun e => e). Qed.
Lemma idec_enc m : idec imeta0 (ienc m) = Some m.
Proof. reflexivity. Qed.
Lemma idec_empty m : idec m [] = None.
Proof. reflexivity. Qed.
Lemma ienc_nonempty m : ienc m <> [].
Proof. discriminate. Qed.
Lemma iparse_empty : iparse [] = [].
Proof. reflexivity. Qed.

(* The instantiated theorems. *)
Definition iread := read bytes_eqb iH imeta0 idec iparse.
Definition iwrite := write iH ienc iprint.

Theorem instance_roundtrip ord m s : iread (iwrite ord m s) true = Ok (m, s).
Proof.
  exact (roundtrip bytes_eqb iH imeta0 ienc idec iprint iparse bytes_eqb_eq idec_enc
                   iparse_print ord m s).
Qed.

Theorem instance_tamper ord m s L' t' r :
  corrupt (iwrite ord m s) L' t' -> iread L' t' = Ok r -> r = (m, s).
Proof.
  exact (tamper bytes_eqb iH imeta0 ienc idec iprint iparse bytes_eqb_eq iH_inj idec_enc
                idec_empty ienc_nonempty iparse_print iparse_empty ord m s L' t' r).
Qed.

(* A concrete, non-trivial archive: it reads back; flipping a state byte is rejected;
   dropping state.bin of an empty state is accepted (the known finding). *)
Example ex_roundtrip :
  iread (iwrite true [1; 2; 3]%N [10; 20; 30; 40]%N) true = Ok ([1; 2; 3]%N, [10; 20; 30; 40]%N).
Proof. vm_compute. reflexivity. Qed.

Example ex_flip_rejected :
  iread [ Member n_meta (ienc [1; 2; 3]%N) true;
          Member n_state [10; 21; 30; 40]%N true;
          Member n_sums (iprint (sums_lines iH ienc true [1; 2; 3]%N [10; 20; 30; 40]%N)) true ] true
  = Err EHashMismatch.
Proof. vm_compute. reflexivity. Qed.

Example ex_empty_state_without_member_refused :
  iread [ Member n_meta (ienc [1]%N) true;
          Member n_sums (iprint (sums_lines iH ienc false [1]%N [])) true ] true
  = Err ENotInArchive.
Proof. vm_compute. reflexivity. Qed.
