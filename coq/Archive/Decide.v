(* Soundness of the decidable corruption test of Archive/Model.v (C20): a pair of member views
   that passes [corruptb] is one step of [Proofs.corrupt] (the identity view passes as the trivial
   permutation), and a gzip-level view that passes [faultb] is rejected or extracts the original. *)
From Verif Require Import Base.Prelude Archive.Model Archive.Proofs.
From Coq Require Import Permutation.

Lemma member_eqb_eq a b : member_eqb a b = true <-> a = b.
Proof.
  unfold member_eqb. destruct a as [n d i], b as [n' d' i']; cbn [m_name m_data m_intact]. split.
  - intros Hx. apply andb_true_iff in Hx as [Hx Hi]. apply andb_true_iff in Hx as [Hn Hd].
    apply String.eqb_eq in Hn. apply bytes_eqb_eq in Hd. apply Bool.eqb_prop in Hi. congruence.
  - intros Hx. injection Hx as -> -> ->.
    rewrite String.eqb_refl, bytes_eqb_refl, Bool.eqb_reflx. reflexivity.
Qed.

Lemma mlist_eqb_eq a b : mlist_eqb a b = true <-> a = b.
Proof. apply list_eqb_eq. exact member_eqb_eq. Qed.

Lemma prefixb_spec st L' : forall L,
  prefixb st L' L = true -> exists post, L = L' ++ post /\ (st = true -> post <> []).
Proof.
  induction L' as [|x l' IH]; intros [|y l] Hp; cbn [prefixb] in Hp; try discriminate.
  - exists []. split; [reflexivity|]. intros ->. discriminate.
  - exists (y :: l). split; [reflexivity|]. intros _. discriminate.
  - apply andb_true_iff in Hp as [Hxy Hp]. apply member_eqb_eq in Hxy. subst y.
    destruct (IH _ Hp) as (post & -> & Hs). exists post. split; [reflexivity|exact Hs].
Qed.

Lemma removed1_spec L : forall L',
  removed1 L L' = true -> exists pre mb post, L = pre ++ mb :: post /\ L' = pre ++ post.
Proof.
  induction L as [|x l IH]; intros L' Hr; cbn [removed1] in Hr; [discriminate|].
  apply orb_true_iff in Hr as [Hr|Hr].
  - apply mlist_eqb_eq in Hr. subst L'. exists [], x, l. split; reflexivity.
  - destruct L' as [|y l']; [discriminate|].
    apply andb_true_iff in Hr as [Hxy Hr]. apply member_eqb_eq in Hxy. subst y.
    destruct (IH _ Hr) as (pre & mb & post & -> & ->).
    exists (x :: pre), mb, post. split; reflexivity.
Qed.

Lemma changed1_spec ok L : forall L',
  changed1 ok L L' = true ->
  exists pre x y post, L = pre ++ x :: post /\ L' = pre ++ y :: post /\ ok x y = true.
Proof.
  induction L as [|x l IH]; intros [|y l'] Hc; cbn [changed1] in Hc; try discriminate.
  apply orb_true_iff in Hc as [Hc|Hc].
  - apply andb_true_iff in Hc as [Hok Hl]. apply mlist_eqb_eq in Hl. subst l'.
    exists [], x, y, l. repeat split; assumption.
  - apply andb_true_iff in Hc as [Hxy Hc]. apply member_eqb_eq in Hxy. subst y.
    destruct (IH _ Hc) as (pre & a & b & post & -> & -> & Hok).
    exists (x :: pre), a, b, post. repeat split; assumption.
Qed.

Lemma remove_first_spec x l : forall r, remove_first x l = Some r -> Permutation l (x :: r).
Proof.
  induction l as [|y l IH]; intros r Hr; cbn [remove_first] in Hr; [discriminate|].
  destruct (member_eqb x y) eqn:E.
  - apply member_eqb_eq in E. subst y. injection Hr as <-. apply Permutation_refl.
  - destruct (remove_first x l) as [r'|]; [|discriminate]. injection Hr as <-.
    eapply Permutation_trans; [apply perm_skip; apply IH; reflexivity|apply perm_swap].
Qed.

Lemma permb_spec L : forall L', permb L L' = true -> Permutation L L'.
Proof.
  induction L as [|x l IH]; intros L' Hp; cbn [permb] in Hp.
  - destruct L'; [constructor|discriminate].
  - destruct (remove_first x L') as [r|] eqn:E; [|discriminate].
    apply remove_first_spec in E. apply IH in Hp.
    eapply Permutation_trans; [apply perm_skip; exact Hp|apply Permutation_sym; exact E].
Qed.

Lemma truncmb_spec L : forall L',
  truncmb L L' = true ->
  exists pre mb post d, L = pre ++ mb :: post /\ L' = pre ++ [Member (m_name mb) d false].
Proof.
  induction L as [|x l IH]; intros [|y l'] Ht; cbn [truncmb] in Ht; try discriminate.
  destruct l' as [|z l''].
  - apply andb_true_iff in Ht as [Hn Hi]. apply String.eqb_eq in Hn.
    destruct y as [yn yd yi]. cbn [m_name m_intact] in Hn, Hi. subst yn.
    destruct yi; [discriminate|].
    exists [], x, l, yd. split; reflexivity.
  - apply andb_true_iff in Ht as [Hxy Ht]. apply member_eqb_eq in Hxy. subst y.
    destruct (IH _ Ht) as (pre & mb & post & d & -> & Hl).
    exists (x :: pre), mb, post, d. split; [reflexivity|]. cbn [app]. rewrite Hl. reflexivity.
Qed.

Theorem corruptb_sound L L' t : corruptb L L' t = true -> corrupt L L' t.
Proof.
  unfold corruptb. destruct t.
  - intros Hc. repeat (apply orb_true_iff in Hc as [Hc|Hc]).
    + apply changed1_spec in Hc as (pre & x & y & post & -> & -> & Hok).
      unfold ok_data in Hok. apply andb_true_iff in Hok as [Hok Hd].
      apply andb_true_iff in Hok as [Hn Hi]. apply String.eqb_eq in Hn.
      apply negb_true_iff, bytes_eqb_neq in Hd.
      destruct y as [yn yd yi]. cbn [m_name m_data m_intact] in *. subst yn yi.
      eapply c_data; [reflexivity|]. intros Hx. apply Hd. symmetry. exact Hx.
    + apply prefixb_spec in Hc as (post & -> & Hs). eapply c_trunc_clean; [reflexivity|auto].
    + apply removed1_spec in Hc as (pre & mb & post & -> & ->). eapply c_remove. reflexivity.
    + apply removed1_spec in Hc as (pre & mb & post & -> & ->). eapply (c_inject _ mb).
      exists pre, post. split; reflexivity.
    + apply c_reorder. apply permb_spec. exact Hc.
    + apply changed1_spec in Hc as (pre & x & y & post & -> & -> & Hok).
      unfold ok_rename in Hok. apply andb_true_iff in Hok as [Hok Hd].
      apply andb_true_iff in Hok as [Hn Hi]. apply negb_true_iff, String.eqb_neq in Hn.
      apply bytes_eqb_eq in Hd.
      destruct y as [yn yd yi]. cbn [m_name m_data m_intact] in *. subst yd yi.
      eapply c_rename; [reflexivity|exact Hn].
  - intros Hc. apply orb_true_iff in Hc as [Hc|Hc].
    + apply prefixb_spec in Hc as (post & -> & _). eapply c_trunc_header. reflexivity.
    + apply truncmb_spec in Hc as (pre & mb & post & d & -> & ->).
      eapply c_trunc_member. reflexivity.
Qed.

(* the identity view passes the test (it is the trivial permutation) *)
Lemma permb_refl L : permb L L = true.
Proof.
  induction L as [|x l IH]; [reflexivity|]. cbn [permb remove_first].
  assert (E : member_eqb x x = true) by (apply member_eqb_eq; reflexivity).
  rewrite E. exact IH.
Qed.

Lemma corruptb_identity L : corruptb L L true = true.
Proof. unfold corruptb. rewrite permb_refl. rewrite !orb_true_r. reflexivity. Qed.

Section Fault.
  Context {digest : Type} (deqb : digest -> digest -> bool) (H : bytes -> digest).
  Context {Meta : Type} (meta0 : Meta) (enc_meta : Meta -> bytes)
          (dec_meta : Meta -> bytes -> option Meta).
  Context (print_sums : list (digest * string) -> bytes)
          (parse_sums : bytes -> list (option (digest * string)))
          (scan_err : bytes -> bool).
  Hypothesis deqb_spec : forall a b, deqb a b = true <-> a = b.
  Hypothesis H_inj : forall a b, H a = H b -> a = b.
  Hypothesis dec_enc : forall m, dec_meta meta0 (enc_meta m) = Some m.
  Hypothesis dec_empty : forall m, dec_meta m [] = None.
  Hypothesis parse_print : forall ord m s,
    parse_sums (print_sums (sums_lines H enc_meta ord m s)) = map Some (sums_lines H enc_meta ord m s).
  Hypothesis parse_empty : parse_sums [] = [].

  Notation read := (read deqb H meta0 dec_meta parse_sums scan_err).
  Notation read_gz := (read_gz deqb H meta0 dec_meta parse_sums scan_err).
  Notation write := (write H enc_meta print_sums).

  (* every pair the correspondence check passes through [corruptb] is covered by [tamper] *)
  Theorem corruptb_tamper ord m s L' t r :
    corruptb (write ord m s) L' t = true -> read L' t = Ok r -> r = (m, s).
  Proof.
    intros Hc Hr. apply corruptb_sound in Hc.
    exact (tamper deqb H meta0 enc_meta dec_meta print_sums parse_sums scan_err deqb_spec H_inj
                  dec_enc dec_empty parse_print parse_empty ord m s L' t r Hc Hr).
  Qed.

  Theorem faultb_sound ord m s hdr L' t tr r :
    faultb (write ord m s) hdr L' t tr = true -> read_gz hdr L' t tr = Ok r -> r = (m, s).
  Proof.
    intros Hf Hr.
    apply (read_gz_ok_inv deqb H meta0 dec_meta parse_sums scan_err) in Hr as (-> & -> & Hr).
    unfold faultb in Hf. cbn [negb orb] in Hf.
    apply orb_true_iff in Hf as [Hf|Hf]; [|eapply corruptb_tamper; eassumption].
    exfalso. apply orb_true_iff in Hf as [Hf|Hf].
    - apply negb_true_iff in Hf. subst t.
      exact (incomplete_rejected deqb H meta0 dec_meta parse_sums scan_err deqb_spec L' r Hr).
    - apply existsb_exists in Hf as (mb & Hin & Hi). apply negb_true_iff in Hi.
      refine (damaged_member_rejected deqb H meta0 dec_meta parse_sums scan_err deqb_spec L' t r _ Hr).
      exists mb. split; assumption.
  Qed.
End Fault.
