(* C18, part 1b: version CAS, lifetimes and row monotonicity for the Raft-backed path.
   raft.Backend.Apply calls Store.WriteCAS(res, presented) with res.Version = the log index, so the
   new version is chosen by the caller ([OWriteS]); a restore (snapshot install) replaces the table.
   The discipline Raft provides, and the only thing assumed here: every log index exceeds every
   version stored so far ([raft_ok], a condition on the schedule alone), restores included: after a
   restore the bound is raised to the largest version it installed. *)
From Verif Require Import Base.Prelude Resource.Model Resource.TableProofs Resource.CasProofs.
Local Open Scope N_scope.

Definition maxver (B : N) (l : list resource) : N := fold_left (fun b r => N.max b (r_version r)) l B.

(* the highest version in use after a schedule, starting from bound B *)
Fixpoint raft_bound (B : N) (ops : list op) : N :=
  match ops with
  | [] => B
  | OWriteS r _ :: t => raft_bound (r_version r) t
  | ORestore l :: t => raft_bound (maxver B l) t
  | _ :: t => raft_bound B t
  end.

(* a schedule of the Raft-backed store: no Backend-counter writes, every written version is a fresh
   index, restored rows carry a version (>= 1) *)
Fixpoint raft_ok (B : N) (ops : list op) : Prop :=
  match ops with
  | [] => True
  | OWrite _ :: _ => False
  | OWriteS r _ :: t => B < r_version r /\ raft_ok (r_version r) t
  | ORestore l :: t => (forall r, In r l -> 1 <= r_version r) /\ raft_ok (maxver B l) t
  | _ :: t => raft_ok B t
  end.

Definition vbb (B : N) (st : store) : Prop := forall k r, lk k st = Some r -> 1 <= r_version r <= B.

Lemma maxver_spec l : forall B, B <= maxver B l /\ forall r, In r l -> r_version r <= maxver B l.
Proof.
  unfold maxver. induction l as [|x l IH]; intros B; cbn; [split; [lia|intros r []]|].
  destruct (IH (N.max B (r_version x))) as [H1 H2]. split; [lia|]. intros r [<-|Hr]; [lia|auto].
Qed.

Lemma in_restore_table r l : In r (restore_table l) -> In r l.
Proof.
  unfold restore_table. assert (G : forall t, In r (fold_left (fun t r => upsert r t) l t) -> In r t \/ In r l).
  { induction l as [|x l IH]; intros t H; cbn in *; [auto|]. apply IH in H as [H|H]; [|auto].
    apply in_upsert in H as [->|[H _]]; auto. }
  intros H. apply G in H as [[]|H]. exact H.
Qed.

Lemma raft_bound_app a : forall B c, raft_bound B (a ++ c) = raft_bound (raft_bound B a) c.
Proof. induction a as [|o a IH]; intros B c; [reflexivity|]. destruct o; cbn; apply IH. Qed.

Lemma raft_ok_app a : forall B c, raft_ok B (a ++ c) <-> raft_ok B a /\ raft_ok (raft_bound B a) c.
Proof.
  induction a as [|o a IH]; intros B c; cbn [app]; [cbn; tauto|].
  destruct o; cbn [raft_ok raft_bound]; try apply IH; try tauto; rewrite IH; tauto.
Qed.

(* one step: the bound grows, the table stays under it, and a row changes only to a fresh version *)
Lemma raft_step B st o t : vbb B st -> raft_ok B (o :: t) ->
  B <= raft_bound B [o] /\ vbb (raft_bound B [o]) (fst (step st o)) /\
  (no_restore o = true -> forall k,
     lk k (fst (step st o)) = lk k st \/ lk k (fst (step st o)) = None \/
     exists r, lk k (fst (step st o)) = Some r /\ B < r_version r /\ r_version r = raft_bound B [o]).
Proof.
  intros Hv Hok.
  assert (Hframe : table_op o = false -> raft_bound B [o] = B ->
            B <= raft_bound B [o] /\ vbb (raft_bound B [o]) (fst (step st o)) /\
            (no_restore o = true -> forall k, lk k (fst (step st o)) = lk k st \/ lk k (fst (step st o)) = None \/
               exists r, lk k (fst (step st o)) = Some r /\ B < r_version r /\ r_version r = raft_bound B [o])).
  { intros Ht Hb. rewrite Hb. destruct (step_frame st o Ht) as [Hr _]. split; [lia|]. split.
    - intros k r. unfold lk. rewrite Hr. apply Hv.
    - intros _ k. left. unfold lk. rewrite Hr. reflexivity. }
  destruct o; try (apply Hframe; reflexivity); cbn [raft_ok raft_bound] in *.
  - contradiction.
  - (* OWriteS *) destruct Hok as [Hfresh _]. split; [lia|].
    assert (Hk : forall k, lk k (fst (step st (OWriteS r vsn))) = lk k st \/ lk k (fst (step st (OWriteS r vsn))) = None \/
               exists x, lk k (fst (step st (OWriteS r vsn))) = Some x /\ B < r_version x /\ r_version x = r_version r).
    { intros k. destruct (step_lookup st (OWriteS r vsn) k eq_refl) as [H|[H|(x & H & -> & _ & _)]]; auto.
      right; right. exists r. auto. }
    split; [|intros _; exact Hk]. intros k x Hl. destruct (Hk k) as [H|[H|(y & H & H1 & H2)]]; rewrite H in Hl.
    + specialize (Hv k x Hl). lia.
    + discriminate.
    + injection Hl as <-. specialize (Hv k). lia.
  - (* ODelete *) split; [lia|].
    assert (Hk : forall k0, lk k0 (fst (step st (ODelete k uid vsn))) = lk k0 st \/ lk k0 (fst (step st (ODelete k uid vsn))) = None).
    { intros k0. destruct (step_lookup st (ODelete k uid vsn) k0 eq_refl) as [H|[H|(x & _ & [])]]; auto. }
    split; [|intros _ k0; destruct (Hk k0); auto]. intros k0 x Hl. destruct (Hk k0) as [H|H]; rewrite H in Hl; [eauto|discriminate].
  - (* ORestore *) destruct Hok as [Hpos _]. destruct (maxver_spec l B) as [H1 H2]. split; [exact H1|]. split; [|discriminate].
    intros k x Hl. unfold lk in Hl. cbn in Hl. apply lookup_in, in_restore_table in Hl. split; auto.
Qed.

Lemma raft_run a : forall B st c, vbb B st -> raft_ok B (a ++ c) ->
  B <= raft_bound B a /\ vbb (raft_bound B a) (run st a) /\ raft_ok (raft_bound B a) c.
Proof.
  induction a as [|o a IH]; intros B st c Hv Hok; cbn [app run] in *; [cbn; split; [lia|auto]|].
  destruct (raft_step B st o (a ++ c) Hv Hok) as (H1 & H2 & _).
  assert (Hok' : raft_ok (raft_bound B [o]) (a ++ c)) by (destruct o; cbn in *; tauto).
  destruct (IH _ _ c H2 Hok') as (H3 & H4 & H5).
  assert (E : raft_bound B (o :: a) = raft_bound (raft_bound B [o]) a) by (destruct o; reflexivity).
  rewrite E. split; [lia|auto].
Qed.

(* every row of k is above v, and so is every version still to come *)
Definition aboveB (k : rid) (v B : N) (st : store) : Prop := v <= B /\ forall r, lk k st = Some r -> v < r_version r.
Definition atleastB (k : rid) (v B : N) (st : store) : Prop := v <= B /\ forall r, lk k st = Some r -> v <= r_version r.

Lemma raft_run_above k v ops : forall B st, forallb no_restore ops = true -> vbb B st -> raft_ok B ops ->
  (aboveB k v B st -> aboveB k v (raft_bound B ops) (run st ops)) /\
  (atleastB k v B st -> atleastB k v (raft_bound B ops) (run st ops)).
Proof.
  induction ops as [|o ops IH]; intros B st Hnr Hv Hok; [cbn; tauto|].
  cbn [forallb] in Hnr. apply andb_true_iff in Hnr as [Ho Hnr].
  destruct (raft_step B st o ops Hv Hok) as (H1 & H2 & H3). specialize (H3 Ho).
  assert (Hok' : raft_ok (raft_bound B [o]) ops) by (destruct o; cbn in *; tauto).
  assert (E : raft_bound B (o :: ops) = raft_bound (raft_bound B [o]) ops) by (destruct o; reflexivity).
  rewrite E. cbn [run]. destruct (IH _ _ Hnr H2 Hok') as [IHa IHb]. split.
  - intros [Hle Hr]. apply IHa. split; [lia|]. intros r Hl. destruct (H3 k) as [H|[H|(x & H & Hx & _)]]; rewrite H in Hl.
    + auto. + discriminate. + injection Hl as <-. lia.
  - intros [Hle Hr]. apply IHb. split; [lia|]. intros r Hl. destruct (H3 k) as [H|[H|(x & H & Hx & _)]]; rewrite H in Hl.
    + auto. + discriminate. + injection Hl as <-. lia.
Qed.

Lemma store_write_out st r v : snd (step st (OWriteS r v)) = OutOk ->
  accept st r v /\ s_res (fst (step st (OWriteS r v))) = upsert r (s_res st).
Proof.
  cbn [step]. destruct (store_write_cases st r v) as [[Ha He]|(_ & _ & [Ho|Ho])]; try (rewrite Ho; discriminate).
  rewrite He. auto.
Qed.

(* ================= CAS exclusion, Raft path ================= *)
Theorem raft_cas_exclusive B st a r1 v b r2 :
  vbb B st -> raft_ok B (a ++ OWriteS r1 v :: b ++ [OWriteS r2 v]) -> forallb no_restore b = true ->
  r_id r1 = r_id r2 ->
  let s1 := run st a in
  let s1' := fst (step s1 (OWriteS r1 v)) in
  let s2 := run s1' b in
  snd (step s1 (OWriteS r1 v)) = OutOk ->
  snd (step s2 (OWriteS r2 v)) = OutOk ->
  v = 0 /\ exists b1 d b2, b = b1 ++ d :: b2 /\ effective_delete (run s1' b1) d (r_id r1).
Proof.
  intros Hv Hok Hnr Hid s1 s1' s2 H1 H2.
  destruct (raft_run a B st _ Hv Hok) as (_ & Hv1 & Hok1). set (B1 := raft_bound B a) in *.
  change (OWriteS r1 v :: b ++ [OWriteS r2 v]) with ([OWriteS r1 v] ++ b ++ [OWriteS r2 v]) in Hok1.
  destruct (raft_run [OWriteS r1 v] B1 s1 _ Hv1 Hok1) as (_ & Hv1' & Hokb). cbn [run raft_bound] in Hv1', Hokb. fold s1' in Hv1'.
  assert (Hfresh1 : B1 < r_version r1) by (cbn in Hok1; tauto).
  destruct (raft_run b (r_version r1) s1' _ Hv1' Hokb) as (_ & Hv2 & _). fold s2 in Hv2.
  apply store_write_out in H1 as [Hacc1 Hres1]. apply store_write_out in H2 as [Hacc2 _].
  assert (Hl1 : lk (r_id r1) s1' = Some r1) by (unfold lk, s1'; rewrite Hres1; apply lookup_upsert_same).
  unfold accept in Hacc1, Hacc2. rewrite <- Hid in Hacc2.
  destruct (N.eq_dec v 0) as [Hz|Hnz].
  - split; [exact Hz|]. destruct (lk (r_id r1) s2) as [ex|] eqn:E2.
    + exfalso. destruct Hacc2 as [_ He]. specialize (Hv2 _ _ E2). lia.
    + apply (present_absent_delete (r_id r1) b s1'); [exact Hnr|congruence|exact E2].
  - exfalso.
    assert (Hab : aboveB (r_id r1) v (r_version r1) s1').
    { destruct (lk (r_id r1) s1) as [ex|] eqn:E1; [|contradiction]. destruct Hacc1 as [_ He]. specialize (Hv1 _ _ E1).
      split; [lia|]. intros r Hr. rewrite Hl1 in Hr. injection Hr as <-. lia. }
    assert (Hokb' : raft_ok (r_version r1) b) by (apply raft_ok_app in Hokb; tauto).
    apply (proj1 (raft_run_above _ _ b _ _ Hnr Hv1' Hokb')) in Hab. fold s2 in Hab. destruct Hab as [_ Hab].
    destruct (lk (r_id r1) s2) as [ex|] eqn:E2; [|congruence]. destruct Hacc2 as [_ He]. specialize (Hab ex eq_refl). lia.
Qed.

(* ================= new lifetime, Raft path ================= *)
Theorem raft_new_lifetime B st a b c r_old :
  vbb B st -> raft_ok B (a ++ b ++ c) -> forallb no_restore (b ++ c) = true ->
  let k := r_id r_old in
  let s_i := run st a in
  let s_j := run s_i b in
  let s_m := run s_j c in
  lk k s_i = Some r_old -> lk k s_j = None ->
  (forall r, r_id r = k -> raft_bound B (a ++ b ++ c) < r_version r ->
     (snd (step s_m (OWriteS r (r_version r_old))) = OutErr ECAS \/ snd (step s_m (OWriteS r (r_version r_old))) = OutErr EWrongUid) /\
     fst (step s_m (OWriteS r (r_version r_old))) = s_m) /\
  (forall uid, s_res (fst (step s_m (ODelete k uid (r_version r_old)))) = s_res s_m).
Proof.
  intros Hv Hok Hnr k s_i s_j s_m Hi Hj.
  rewrite forallb_app in Hnr. apply andb_true_iff in Hnr as [Hnb Hnc].
  destruct (raft_run a B st _ Hv Hok) as (_ & Hvi & Hok1). fold s_i in Hvi.
  destruct (raft_run b _ s_i _ Hvi Hok1) as (Hle & Hvj & Hok2). fold s_j in Hvj.
  pose proof (Hvi _ _ Hi) as Hold.
  assert (Hab : aboveB k (r_version r_old) (raft_bound (raft_bound B a) b) s_j) by (split; [lia|intros r Hr; congruence]).
  apply (proj1 (raft_run_above _ _ c _ _ Hnc Hvj Hok2)) in Hab. fold s_m in Hab. destruct Hab as [_ Hab]. split.
  - intros r Hk _. cbn [step]. destruct (store_write_cases s_m r (r_version r_old)) as [[Hacc _]|(_ & Hs & Ho)]; [exfalso|auto].
    unfold accept in Hacc. rewrite Hk in Hacc. destruct (lk k s_m) as [ex|] eqn:E.
    + destruct Hacc as [_ He]. specialize (Hab ex eq_refl). lia.
    + lia.
  - intros uid. cbn [step]. destruct (store_delete_cases s_m k uid (r_version r_old)) as [(ex & Hl & _ & Hve & _)|(_ & ->)]; [exfalso|reflexivity].
    specialize (Hab ex Hl). lia.
Qed.

(* ================= a version that a write consumed cannot be used by a later delete ================= *)
(* both paths: after a successful write presenting v <> "", a delete presenting v changes nothing *)
Theorem raft_write_then_delete B st a r v b uid :
  vbb B st -> raft_ok B (a ++ OWriteS r v :: b) -> forallb no_restore b = true -> v <> 0 ->
  let s1 := run st a in
  let s2 := run (fst (step s1 (OWriteS r v))) b in
  snd (step s1 (OWriteS r v)) = OutOk ->
  s_res (fst (step s2 (ODelete (r_id r) uid v))) = s_res s2.
Proof.
  intros Hv Hok Hnr Hnz s1 s2 H1.
  destruct (raft_run a B st _ Hv Hok) as (_ & Hv1 & Hok1).
  change (OWriteS r v :: b) with ([OWriteS r v] ++ b) in Hok1.
  destruct (raft_run [OWriteS r v] _ s1 _ Hv1 Hok1) as (_ & Hv1' & Hokb). cbn [run raft_bound] in Hv1', Hokb.
  assert (Hfresh : raft_bound B a < r_version r) by (cbn in Hok1; tauto).
  apply store_write_out in H1 as [Hacc Hres]. unfold accept in Hacc.
  assert (Hab : aboveB (r_id r) v (r_version r) (fst (step s1 (OWriteS r v)))).
  { destruct (lk (r_id r) s1) as [ex|] eqn:E1; [|contradiction]. destruct Hacc as [_ He]. specialize (Hv1 _ _ E1). split; [lia|].
    intros x Hx. unfold lk in Hx. rewrite Hres, lookup_upsert_same in Hx. injection Hx as <-. lia. }
  apply (proj1 (raft_run_above _ _ b _ _ Hnr Hv1' Hokb)) in Hab. fold s2 in Hab. destruct Hab as [_ Hab].
  cbn [step]. destruct (store_delete_cases s2 (r_id r) uid v) as [(ex & Hl & _ & Hve & _)|(_ & ->)]; [exfalso|reflexivity].
  specialize (Hab ex Hl). lia.
Qed.

Theorem cas_write_then_delete st a r b uid x :
  vb st -> forallb backend_op (a ++ OWrite r :: b) = true -> r_version r <> 0 ->
  let s1 := run st a in
  let s2 := run (fst (step s1 (OWrite r))) b in
  snd (step s1 (OWrite r)) = OutRes x ->
  s_res (fst (step s2 (ODelete (r_id r) uid (r_version r)))) = s_res s2.
Proof.
  intros Hvb Hb Hnz s1 s2 H1. rewrite forallb_app in Hb. apply andb_true_iff in Hb as [Hba Hb]. cbn in Hb.
  assert (Hv1 : vb s1) by (apply run_vb; assumption).
  cbn [step] in H1. apply backend_write_out in H1 as (-> & Hacc & Hres). unfold accept in Hacc. cbn [r_id with_version] in Hacc.
  assert (Hab : above (r_id r) (r_version r) (fst (step s1 (OWrite r)))).
  { destruct (lk (r_id r) s1) as [ex|] eqn:E1; [|contradiction]. destruct Hacc as [_ He]. specialize (Hv1 _ _ E1).
    cbn [step]. destruct (backend_write_cases s1 r) as [Hvs _]. split; [lia|].
    intros y Hy. unfold lk in Hy. rewrite Hres in Hy. rewrite (lookup_upsert_same (with_version r (s_vsn s1 + 1))) in Hy. injection Hy as <-. cbn. lia. }
  apply (run_above _ _ b) in Hab; [|exact Hb]. fold s2 in Hab. destruct Hab as [_ Hab].
  cbn [step]. destruct (store_delete_cases s2 (r_id r) uid (r_version r)) as [(ex & Hl & _ & Hve & _)|(_ & ->)]; [exfalso|reflexivity].
  specialize (Hab ex Hl). lia.
Qed.

(* rows only move forward, Raft path *)
Lemma raft_row_monotone B k r c st :
  vbb B st -> lk k st = Some r -> raft_ok B c -> forallb no_restore c = true ->
  match lk k (run st c) with
  | Some r' => r_version r <= r_version r'
  | None => exists c1 d c2, c = c1 ++ d :: c2 /\ effective_delete (run st c1) d k
  end.
Proof.
  intros Hv Hl Hok Hnr. destruct (lk k (run st c)) as [r'|] eqn:E.
  - assert (Ha : atleastB k (r_version r) B st).
    { split; [apply (Hv k r Hl)|]. intros x Hx. rewrite Hl in Hx. injection Hx as <-. lia. }
    apply (proj2 (raft_run_above _ _ c _ _ Hnr Hv Hok)) in Ha. destruct Ha as [_ Ha]. auto.
  - apply present_absent_delete; [exact Hnr|congruence|exact E].
Qed.

(* the bound hypothesis is met by the empty store with any bound, and after any restore of rows with
   versions in 1..B' *)
Lemma vbb_init B : vbb B init.
Proof. intros k r H. discriminate. Qed.

Lemma vb_restore st l : (forall r, In r l -> 1 <= r_version r <= s_vsn st) -> vb (fst (step st (ORestore l))).
Proof.
  intros H k r Hl. unfold lk in Hl. cbn in Hl. apply lookup_in, in_restore_table in Hl. cbn. auto.
Qed.

Lemma restore_keys_nodup st l : NoDup (keys (s_res (fst (step st (ORestore l))))).
Proof. cbn. apply restore_table_nodup. Qed.
