(* C18: concrete schedules.  The two restore schedules below are the former counterexamples of the
   watch statement (a batch of the replaced database still queued at the restore: the stale upsert of
   "a" used to be delivered after end-of-snapshot, and the first commit of the new database, which
   gets index 3 again, used to be filtered out).  Since d82b299 the restore makes the publisher drop
   what is queued; they now document the repaired behaviour and meet the theorem's hypotheses. *)
From Verif Require Import Base.Prelude Resource.Model Resource.TableProofs Resource.CasProofs
     Resource.WatchDefs.
Local Open Scope N_scope.

Definition xk (nm : str) : rid := RId (RType [103] [107]) (Ten [112] [110]) nm.
Definition xres (nm uid : str) (ver data : N) : resource := Res (xk nm) [118;49] uid ver data None.
Definition xq : query := Query (RType [103] [107]) (Ten [112] [110]) [].

Definition after_restore (pre : list op) : store := fst (step (run init pre) (ORestore [])).

(* a batch committed before the restore is still queued when the new watch subscribes *)
Definition pre_a : list op := [OWrite (xres [97] [117;49] 0 1)].
Definition post_a : list op := [ONext 0; ONext 0; OPublish; ONext 0].

Lemma queued_batch_dropped :
  deliv 0 (after_restore pre_a) (OWatch xq :: post_a) = [EndOfSnapshot] /\
  outs (after_restore pre_a) (OWatch xq :: post_a)
    = [OutWatch 0; OutEvent EndOfSnapshot; OutNoEvent; OutBool true; OutNoEvent].
Proof. vm_compute. split; reflexivity. Qed.

(* an unreleased watch of the old database and a queued batch; then a commit in the new database *)
Definition pre_b : list op := [OWatch xq; OWrite (xres [97] [117;49] 0 1)].
Definition post_b : list op := [OPublish; ONext 1; ONext 1; OWrite (xres [98] [117;50] 0 2); OPublish; ONext 1; ONext 0].

Lemma new_commit_delivered :
  deliv 1 (after_restore pre_b) (OWatch xq :: post_b) = [EndOfSnapshot; Upsert (xres [98] [117;50] 2 2)] /\
  glog (after_restore pre_b) (OWatch xq :: post_b) = [(3, Upsert (xres [98] [117;50] 2 2))] /\
  last (outs (after_restore pre_b) (OWatch xq :: post_b)) OutOk = OutErr EWatchClosed.
Proof. vm_compute. repeat split; reflexivity. Qed.

(* non-vacuity of the hypotheses used in Properties/C18.v *)
Lemma clean_init : clean init.
Proof. unfold clean, init. cbn. repeat split; try constructor. lia. Qed.

(* EVERY restore gives a clean state: whatever was queued is dropped, whatever watches are unreleased *)
Lemma restore_clean st l : clean (fst (step st (ORestore l))).
Proof.
  unfold clean. cbn. repeat split; try lia.
  apply Forall_forall. intros w Hw. apply in_map_iff in Hw as (x & <- & _). cbn. split; [reflexivity|].
  destruct (w_state x); discriminate.
Qed.

(* and a run on which the watch theorem delivers something: two commits in the gap, then one more *)
Definition demo : list op :=
  [OWrite (xres [97] [117;49] 0 1); OWrite (xres [97] [117;49] 1 2); OWatch xq; ONext 0; ONext 0; OPublish; OPublish;
   ONext 0; OWrite (xres [97] [117;49] 2 3); OPublish; ONext 0].
Lemma demo_deliv : deliv 0 init demo = [Upsert (xres [97] [117;49] 2 2); EndOfSnapshot; Upsert (xres [97] [117;49] 3 3)].
Proof. vm_compute. reflexivity. Qed.
