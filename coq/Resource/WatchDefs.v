(* C18, part 2 (definitions): the ghost log of commits, what a watch has been given, and the
   sequence it ought to be given.  Used by the statements in Properties/C18.v. *)
From Verif Require Import Base.Prelude Resource.Model Resource.TableProofs Resource.CasProofs.
Local Open Scope N_scope.

Definition cev := (N * wev)%type.             (* a commit: its event index and the event *)

(* the event a step commits, read off its OUTPUT (a successful write / a delete that hit the row) *)
Definition commit_ev (st : store) (o : op) : option wev :=
  match o with
  | OWrite r => match snd (step st o) with OutRes x => Some (Upsert x) | _ => None end
  | OWriteS r v => match snd (step st o) with OutOk => Some (Upsert r) | _ => None end
  | ODelete k uid v =>
      match lk k st with
      | Some ex => if str_eqb uid (r_uid ex) && N.eqb v (r_version ex) then Some (Delete ex) else None
      | None => None
      end
  | _ => None
  end.

Definition commit_of (st : store) (o : op) : list cev :=
  match commit_ev st o with Some e => [(s_idx st + 1, e)] | None => [] end.

(* the commits of a run, in order *)
Fixpoint glog (st : store) (ops : list op) : list cev :=
  match ops with
  | [] => []
  | o :: ops' => commit_of st o ++ glog (fst (step st o)) ops'
  end.

Definition next_of (n : nat) (st : store) (o : op) : list wev :=
  match o, snd (step st o) with
  | ONext m, OutEvent e => if Nat.eqb m n then [e] else []
  | _, _ => []
  end.

(* the events watch n returned from Next, in order *)
Fixpoint deliv (n : nat) (st : store) (ops : list op) : list wev :=
  match ops with
  | [] => []
  | o :: ops' => next_of n st o ++ deliv n (fst (step st o)) ops'
  end.

(* the table after a list of commits *)
Fixpoint replay (t : table) (l : list cev) : table :=
  match l with
  | [] => t
  | (_, Upsert r) :: l' => replay (upsert r t) l'
  | (_, Delete r) :: l' => replay (remove (r_id r) t) l'
  | (_, EndOfSnapshot) :: l' => replay t l'
  end.

(* a resource is in the scope of a watch: its type, tenancy (with wildcards) and name prefix *)
Definition wmatch (q : query) (r : resource) : bool :=
  rtype_eqb (q_type q) (i_type (r_id r)) && matches q r.

Definition ev_match (q : query) (e : wev) : bool :=
  match ev_resource e with Some r => wmatch q r | None => false end.

(* what a watch with query q ought to be given when its snapshot reflects table t and the commits
   [la] follow: the full match set, the end-of-snapshot marker, then the matching commits in order *)
Definition ideal (q : query) (t : table) (la : list cev) : list wev :=
  map Upsert (filter (wmatch q) t) ++ [EndOfSnapshot] ++ filter (ev_match q) (map snd la).

(* a state from which the watch theorem starts: nothing queued, no topic buffers, no cached
   snapshots, every earlier watch released; the event index is at least 2 (event_index.go) *)
Definition clean (st : store) : Prop :=
  s_queue st = [] /\ s_bufs st = [] /\ s_cache st = [] /\
  Forall (fun w => w_freed w = true /\ w_state w <> WOpen) (s_watches st) /\ 2 <= s_idx st.
