(* C18: the row after an event, Raft-backed path (Store-level writes with log-index versions). *)
From Verif Require Import Base.Prelude Resource.Model Resource.TableProofs Resource.CasProofs Resource.RaftProofs
     Resource.WatchDefs Resource.WatchProofs Resource.Examples.
Local Open Scope N_scope.

Theorem raft_row_after_event B st0 a n e b :
  clean st0 -> vbb B st0 -> NoDup (keys (s_res st0)) ->
  raft_ok B (a ++ ONext n :: b) -> forallb no_restore (a ++ ONext n :: b) = true ->
  (List.length (s_watches st0) <= n)%nat ->
  let s1 := run st0 a in
  snd (step s1 (ONext n)) = OutEvent e ->
  let s2 := run (fst (step s1 (ONext n))) b in
  match e with
  | Upsert r =>
      exists a1 a2, a = a1 ++ a2 /\ lk (r_id r) (run st0 a1) = Some r /\
        match lk (r_id r) s2 with
        | Some r' => r_version r <= r_version r'
        | None => exists c1 d c2, a2 ++ ONext n :: b = c1 ++ d :: c2 /\ effective_delete (run (run st0 a1) c1) d (r_id r)
        end
  | Delete r => match lk (r_id r) s2 with Some r' => r_version r < r_version r' | None => True end
  | EndOfSnapshot => True
  end.
Proof.
  intros Hclean Hvb Hnd Hok Hnr Hge s1 Hout s2.
  assert (Hnra : forallb no_restore a = true) by (rewrite forallb_app in Hnr; apply andb_true_iff in Hnr; tauto).
  pose proof (event_row_point st0 a n e Hclean Hnd Hnra Hge Hout) as Hp.
  assert (Hs2 : forall a1 a2, a = a1 ++ a2 -> s2 = run (run st0 a1) (a2 ++ ONext n :: b)).
  { intros a1 a2 ->. unfold s2, s1. rewrite !run_app. reflexivity. }
  destruct e as [r|r|]; [| |exact I].
  - destruct Hp as (a1 & a2 & Ha & Hl). exists a1, a2. split; [exact Ha|]. split; [exact Hl|].
    rewrite Ha, <- app_assoc in Hok, Hnr. destruct (raft_run a1 B st0 _ Hvb Hok) as (_ & Hv1 & Hok1).
    rewrite forallb_app in Hnr. apply andb_true_iff in Hnr as [_ Hnr2]. rewrite (Hs2 a1 a2 Ha).
    exact (raft_row_monotone _ (r_id r) r _ _ Hv1 Hl Hok1 Hnr2).
  - destruct Hp as (a1 & o & a2 & Ha & Hl & Hl').
    assert (Ha' : a = (a1 ++ [o]) ++ a2) by (rewrite <- app_assoc; exact Ha).
    rewrite Ha' in Hok, Hnr. rewrite <- !app_assoc in Hok, Hnr.
    destruct (raft_run a1 B st0 _ Hvb Hok) as (_ & Hv1 & Hok1).
    change ([o] ++ a2 ++ ONext n :: b) with (o :: a2 ++ ONext n :: b) in Hok1.
    destruct (raft_step _ (run st0 a1) o _ Hv1 Hok1) as (Hle & Hv1' & _).
    assert (Hok2 : raft_ok (raft_bound (raft_bound B a1) [o]) (a2 ++ ONext n :: b)) by (destruct o; cbn in *; tauto).
    rewrite forallb_app in Hnr. apply andb_true_iff in Hnr as [_ Hnr2]. cbn [app forallb] in Hnr2. apply andb_true_iff in Hnr2 as [_ Hnr2].
    assert (Hab : aboveB (r_id r) (r_version r) (raft_bound (raft_bound B a1) [o]) (fst (step (run st0 a1) o))).
    { pose proof (Hv1 _ _ Hl). split; [lia|]. intros x Hx. congruence. }
    apply (proj1 (raft_run_above _ _ (a2 ++ ONext n :: b) _ _ Hnr2 Hv1' Hok2)) in Hab.
    assert (Es2 : s2 = run (fst (step (run st0 a1) o)) (a2 ++ ONext n :: b)).
    { rewrite (Hs2 _ _ Ha'). rewrite (run_app st0 a1 [o]). reflexivity. }
    rewrite <- Es2 in Hab. destruct Hab as [_ Hab]. destruct (lk (r_id r) s2) as [r'|]; [apply Hab; reflexivity|exact I].
Qed.

(* ---------- examples: the hypotheses are met by non-empty states and schedules ---------- *)
Definition zk (nm : str) : rid := RId (RType [103] [107]) (Ten [112] [110]) nm.
Definition zres (nm uid : str) (ver data : N) : resource := Res (zk nm) [118;49] uid ver data None.

(* a Raft-shaped schedule with a restore in the middle: log indexes 3, 5, restore of the snapshot taken
   after index 3, then index 9 *)
Definition raft_demo : list op :=
  [OWriteS (zres [97] [117;49] 3 1) 0; OWriteS (zres [97] [117;49] 5 2) 3;
   ORestore [zres [97] [117;49] 3 1]; OWriteS (zres [97] [117;49] 9 3) 3].

Lemma raft_demo_ok : raft_ok 0 raft_demo /\ outs init raft_demo = [OutOk; OutOk; OutOk; OutOk] /\ raft_bound 0 raft_demo = 9.
Proof. cbn. repeat split; try lia. intros r [<-|[]]. cbn. lia. Qed.

(* clean, version-bounded and duplicate-free together, on a non-empty table: after a restore *)
Lemma hyps_after_restore :
  let st := fst (step (run init [OWrite (zres [97] [117;49] 0 1); OWrite (zres [98] [117;50] 0 2)])
                      (ORestore [zres [97] [117;49] 1 1; zres [98] [117;50] 2 2])) in
  clean st /\ vb st /\ NoDup (keys (s_res st)) /\ s_res st <> [].
Proof.
  cbn zeta. split; [apply restore_clean|]. split; [|split; [apply restore_keys_nodup|vm_compute; discriminate]].
  apply vb_restore. intros r [<-|[<-|[]]]; vm_compute; split; discriminate.
Qed.

(* the completeness clause of the watch theorem with a non-empty tail of commits: for [demo] the snapshot
   point is after the first two commits, the third follows, nothing is queued and Next blocks *)
Lemma demo_complete :
  exists Lp La, glog init demo = Lp ++ La /\ List.length Lp = 2%nat /\ List.length La = 1%nat /\
    s_queue (run init demo) = [] /\ snd (step (run init demo) (ONext 0)) = OutNoEvent /\
    deliv 0 init demo = ideal xq (replay (s_res init) Lp) La.
Proof.
  exists [(3, Upsert (xres [97] [117;49] 1 1)); (4, Upsert (xres [97] [117;49] 2 2))], [(5, Upsert (xres [97] [117;49] 3 3))].
  vm_compute. repeat split; reflexivity.
Qed.

(* the hypotheses of the lifetime theorem: the row is there, then gone, then a new lifetime exists and the
   old version is refused *)
Lemma lifetime_demo :
  let a := [OWrite (zres [97] [117;49] 0 1)] in
  let b := [ODelete (zk [97]) [117;49] 1] in
  let c := [OWrite (zres [97] [117;50] 0 2)] in
  forallb backend_op (a ++ b ++ c) = true /\
  lk (zk [97]) (run init a) = Some (zres [97] [117;49] 1 1) /\ lk (zk [97]) (run (run init a) b) = None /\
  lk (zk [97]) (run (run (run init a) b) c) = Some (zres [97] [117;50] 2 2) /\
  snd (step (run (run (run init a) b) c) (OWrite (zres [97] [117;50] 1 9))) = OutErr ECAS.
Proof. vm_compute. repeat split; reflexivity. Qed.

(* the liveness hypothesis of uid_stable on a two-step run *)
Lemma uid_stable_demo :
  let st := run init [OWrite (zres [97] [117;49] 0 1)] in
  let ops := [OWrite (zres [97] [117;49] 1 2); ORead (zk [97]) [118;49] []] in
  forallb no_restore ops = true /\ (forall p q, ops = p ++ q -> lk (zk [97]) (run st p) <> None) /\
  exists r r', lk (zk [97]) st = Some r /\ lk (zk [97]) (run st ops) = Some r' /\ r_version r <> r_version r'.
Proof.
  cbn zeta. split; [reflexivity|]. split.
  - intros p q H. destruct p as [|o1 [|o2 [|o3 p]]]; cbn in H.
    + vm_compute. discriminate.
    + injection H as <- _. vm_compute. discriminate.
    + injection H as <- <- _. vm_compute. discriminate.
    + destruct q; discriminate.
  - eexists _, _. vm_compute. repeat split; discriminate.
Qed.
