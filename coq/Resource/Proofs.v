(* C18 — index of the proof files of the Resource area (the theorems are stated in Properties/C18.v):
     TableProofs   keys and the resources table
     CasProofs     version CAS, stable UIDs, lifetimes            (cas_exclusive, uid_stable, new_lifetime ...)
     WatchDefs     ghost commit log, deliveries, the ideal sequence, clean states
     WatchLemmas   what a watch will be given as a function of the raw items ahead of it
     WatchInv      the invariant tying publisher state, commit log and deliveries, preserved by every step
     WatchProofs   watch_complete_ordered, delivered_committed, read_after_event
     Examples      concrete schedules (the former restore counterexamples, now repaired; non-vacuity) *)
From Verif Require Export Resource.TableProofs Resource.CasProofs Resource.WatchDefs Resource.WatchLemmas
     Resource.WatchInv Resource.WatchProofs Resource.Examples Resource.RaftProofs Resource.RaftWatch.
