(* C18, part 2 (theorems): watches are complete and ordered on restore-free runs from a clean
   state; a read after an event is not older than the event. *)
From Verif Require Import Base.Prelude Resource.Model Resource.TableProofs Resource.CasProofs
     Resource.WatchDefs Resource.WatchLemmas Resource.WatchInv.
Local Open Scope N_scope.

(* ---------- one step preserves the invariant ---------- *)
Definition step_D (D : nat -> list wev) (st : store) (o : op) : nat -> list wev :=
  fun m => D m ++ next_of m st o.

Lemma INV_same T0 i0 n0 st L D L' D' :
  INV T0 i0 n0 st L D -> L' = L -> (forall m, D' m = D m) -> INV T0 i0 n0 st L' D'.
Proof. intros H -> HD. eapply INV_ext; eassumption. Qed.

Lemma INV_step T0 i0 n0 st L D o :
  INV T0 i0 n0 st L D -> no_restore o = true ->
  INV T0 i0 n0 (fst (step st o)) (L ++ commit_of st o) (step_D D st o).
Proof.
  intros HI Hnr.
  assert (Hnil : forall (st1 : store), INV T0 i0 n0 st1 L D -> commit_of st o = [] -> (forall m, next_of m st o = []) ->
                 INV T0 i0 n0 st1 (L ++ commit_of st o) (step_D D st o)).
  { intros st1 H1 Hc Hn. eapply INV_same; [exact H1|rewrite Hc; apply app_nil_r|]. intros m. unfold step_D. rewrite Hn. apply app_nil_r. }
  destruct o; try discriminate; cbn [step fst].
  - (* OWrite *)
    destruct (backend_write_cases st r) as [Hv [(Hacc & Ho & Hr & Hi)|(_ & Hr & Hi & Ho)]].
    + unfold backend_write in *.
      destruct (store_write_cases (set_vsn st (s_vsn st + 1)) (with_version r (s_vsn st + 1)) (r_version r)) as [[_ He]|(Hn & _)]; [|contradiction].
      rewrite He in *. cbn [fst snd] in *.
      eapply INV_same; [eapply (INV_commit T0 i0 n0 (set_vsn st (s_vsn st + 1)) L D (Upsert (with_version r (s_vsn st + 1))) (with_version r (s_vsn st + 1))); [apply INV_vsn; exact HI|reflexivity|reflexivity]| |].
      * unfold commit_of, commit_ev. cbn [step]. unfold backend_write. rewrite He. reflexivity.
      * intros m. unfold step_D, next_of. apply app_nil_r.
    + apply Hnil.
      * assert (fst (backend_write st r) = set_vsn st (s_vsn st + 1)) as ->.
        { unfold backend_write. destruct (store_write_cases (set_vsn st (s_vsn st + 1)) (with_version r (s_vsn st + 1)) (r_version r)) as [[Ha He]|(_ & Hs & _)].
          - exfalso. unfold backend_write in Ho. rewrite He in Ho. cbn in Ho. destruct Ho; discriminate.
          - destruct (store_write (set_vsn st (s_vsn st + 1)) (with_version r (s_vsn st + 1)) (r_version r)) as [s1 o1]. cbn in Hs. subst s1.
            destruct o1; reflexivity. }
        apply INV_vsn. exact HI.
      * unfold commit_of, commit_ev. cbn [step]. destruct Ho as [-> | ->]; reflexivity.
      * intros m. reflexivity.
  - (* OWriteS *)
    destruct (store_write_cases st r vsn) as [[_ He]|(_ & Hs & Ho)].
    + rewrite He. cbn [fst].
      eapply INV_same; [eapply (INV_commit T0 i0 n0 st L D (Upsert r) r); [exact HI|reflexivity|reflexivity]| |].
      * unfold commit_of, commit_ev. cbn [step]. rewrite He. reflexivity.
      * intros m. unfold step_D, next_of. apply app_nil_r.
    + rewrite Hs. apply Hnil; [exact HI| |intros m; reflexivity].
      unfold commit_of, commit_ev. cbn [step]. destruct Ho as [-> | ->]; reflexivity.
  - (* ODelete *)
    destruct (store_delete_cases st k uid vsn) as [(ex & Hl & Hu & Hv & He)|(Hn & Hs)].
    + rewrite He. cbn [fst].
      eapply INV_same; [eapply (INV_commit T0 i0 n0 st L D (Delete ex) ex); [exact HI|reflexivity|cbn [replay]; unfold lk in Hl; rewrite (lookup_some_id _ _ _ Hl); reflexivity]| |].
      * unfold commit_of, commit_ev. rewrite Hl. subst uid vsn. rewrite str_eqb_refl, N.eqb_refl. reflexivity.
      * intros m. unfold step_D, next_of. apply app_nil_r.
    + rewrite Hs. apply Hnil; [exact HI| |intros m; reflexivity].
      unfold commit_of, commit_ev. destruct (lk k st) as [ex|] eqn:Hl; [|reflexivity].
      destruct (str_eqb uid (r_uid ex) && N.eqb vsn (r_version ex)) eqn:E; [|reflexivity].
      exfalso. apply Hn. apply andb_true_iff in E as [E1 E2]. apply str_eqb_eq in E1. apply N.eqb_eq in E2. exists ex. auto.
  - apply Hnil; [exact HI|reflexivity|intros m; reflexivity].
  - apply Hnil; [exact HI|reflexivity|intros m; reflexivity].
  - apply Hnil; [exact HI|reflexivity|intros m; reflexivity].
  - (* OWatch *) apply Hnil; [apply INV_open; exact HI|reflexivity|intros m; reflexivity].
  - (* ONext *)
    eapply INV_same; [apply (INV_next T0 i0 n0 st L D n HI)|apply app_nil_r|].
    intros m. unfold step_D, next_of, next_D. cbn [step]. rewrite (Nat.eqb_sym n m). destruct (snd (watch_next st n)); reflexivity.
  - (* OClose *) apply Hnil; [apply INV_close; exact HI|reflexivity|intros m; reflexivity].
  - (* OPublish *)
    unfold publish_one. destruct (s_stale st) as [|k] eqn:Ek.
    2:{ cbn [fst]. apply Hnil; [exact HI|reflexivity|intros m; reflexivity]. }
    destruct (s_queue st) as [|b q'] eqn:Eq; cbn [fst].
    + apply Hnil; [exact HI|reflexivity|intros m; reflexivity].
    + apply Hnil; [rewrite <- Ek; apply INV_publish; assumption|reflexivity|intros m; reflexivity].
  - apply Hnil; [exact HI|reflexivity|intros m; reflexivity].
  - (* OEvict *) apply Hnil; [apply INV_evict; exact HI|reflexivity|intros m; reflexivity].
Qed.

Lemma INV_run T0 i0 n0 ops : forall st L D,
  INV T0 i0 n0 st L D -> forallb no_restore ops = true ->
  INV T0 i0 n0 (run st ops) (L ++ glog st ops) (fun m => D m ++ deliv m st ops).
Proof.
  induction ops as [|o ops IH]; intros st L D HI Hnr; cbn [run glog deliv].
  - eapply INV_same; [exact HI|apply app_nil_r|intros m; apply app_nil_r].
  - cbn in Hnr. apply andb_true_iff in Hnr as [Ho Hnr].
    eapply INV_same; [apply (IH _ _ _ (INV_step _ _ _ _ _ _ _ HI Ho) Hnr)|apply app_assoc|].
    intros m. unfold step_D. rewrite app_assoc. reflexivity.
Qed.

Lemma INV_clean st0 : clean st0 ->
  INV (s_res st0) (s_idx st0) (List.length (s_watches st0)) st0 [] (fun _ => []).
Proof.
  intros (Hq & Hb & Hc & Hw & Hi). rewrite Forall_forall in Hw.
  assert (Hw' : forall n w, nth_error (s_watches st0) n = Some w -> w_freed w = true /\ w_state w <> WOpen).
  { intros n w Hn. apply Hw. eapply nth_error_In. eassumption. }
  unfold INV. split; [|split; [|split; [|split; [|split; [|split; [|split; [|split]]]]]]].
  - unfold table_ok. cbn. split; [reflexivity|]. split; [lia|]. split; [exact I|exact Hi].
  - exists [], []. rewrite Hq. auto.
  - unfold bounded. rewrite Hq, Hb, Hc. cbn. split; [intros b e []|]. split; [intros; discriminate|]. split; [intros; discriminate|].
    intros n w Hn Ho. apply Hw' in Hn. tauto.
  - intros s sn. rewrite Hc. discriminate.
  - intros n w Hn Hge. assert (n < List.length (s_watches st0))%nat by (apply nth_error_Some; congruence). lia.
  - intros n w Hn _. eapply Hw'. eassumption.
  - unfold refs_ok. rewrite Hb. cbn. split; [intros; discriminate|]. split.
    + intros s Hpos. exfalso. unfold count in Hpos. destruct (filter (unfreed s) (s_watches st0)) as [|x l] eqn:E; [cbn in Hpos; lia|].
      assert (In x (filter (unfreed s) (s_watches st0))) as Hin by (rewrite E; left; reflexivity).
      apply filter_In in Hin as [Hin Hu]. apply Hw in Hin as [Hf _]. unfold unfreed in Hu. rewrite Hf in Hu. discriminate.
    + intros n w Hn Ho. apply Hw' in Hn. tauto.
  - lia.
  - reflexivity.
Qed.

(* ---------- a watch keeps its query, subject and snapshot ---------- *)
Definition same_static (w w' : watch) : Prop :=
  w_query w' = w_query w /\ w_snap w' = w_snap w /\ w_subj w' = w_subj w.

Lemma set_watch_static st m n w0 w w1 :
  nth_error (s_watches st) m = Some w0 -> nth_error (s_watches st) n = Some w -> same_static w0 w1 ->
  exists w', nth_error (s_watches (set_watch st m w1)) n = Some w' /\ same_static w w'.
Proof.
  intros Hm Hn Hs. unfold set_watch. cbn [s_watches].
  change (firstn m (s_watches st) ++ w1 :: skipn (S m) (s_watches st)) with (set_nth m w1 (s_watches st)).
  rewrite (nth_error_set_nth m n w1 w0 _ Hm). destruct (Nat.eqb n m) eqn:E.
  - apply Nat.eqb_eq in E. subst. rewrite Hm in Hn. injection Hn as <-. eauto.
  - exists w. split; [assumption|]. repeat split.
Qed.

Lemma watch_static st o n w : nth_error (s_watches st) n = Some w ->
  exists w', nth_error (s_watches (fst (step st o))) n = Some w' /\ same_static w w'.
Proof.
  intros Hn.
  assert (Hid : exists w', nth_error (s_watches st) n = Some w' /\ same_static w w') by (exists w; split; [assumption|repeat split]).
  destruct o; cbn [step fst]; try exact Hid.
  - assert (fst (backend_write st r) = fst (store_write (set_vsn st (s_vsn st + 1)) (with_version r (s_vsn st + 1)) (r_version r))) as ->.
    { unfold backend_write. destruct (store_write _ _ _) as [s1 o1]. destruct o1; reflexivity. }
    destruct (store_write_cases (set_vsn st (s_vsn st + 1)) (with_version r (s_vsn st + 1)) (r_version r)) as [[_ ->]|(_ & -> & _)]; exact Hid.
  - destruct (store_write_cases st r vsn) as [[_ ->]|(_ & -> & _)]; exact Hid.
  - destruct (store_delete_cases st k uid vsn) as [(ex & _ & _ & _ & ->)|(_ & ->)]; exact Hid.
  - unfold watch_open. break_match; cbn [fst s_watches]; exists w; (split; [|repeat split]);
      rewrite nth_error_app1; try assumption; apply nth_error_Some; congruence.
  - unfold watch_next. destruct (nth_error (s_watches st) n0) as [w0|] eqn:Hm; [|exact Hid].
    break_match; cbn [fst]; eapply set_watch_static; try eassumption; repeat split.
  - unfold watch_close. destruct (nth_error (s_watches st) n0) as [w0|] eqn:Hm; [|exact Hid].
    assert (Hs : forall x, same_static w0 (Watch (w_subj w0) (w_query w0) x true (w_snap w0) (w_pos w0) (w_events w0) (w_idx w0)))
      by (intros; repeat split).
    break_match; cbn [fst s_watches]; try (eapply set_watch_static; try eassumption; apply Hs);
      destruct (set_watch_static st n0 n w0 w _ Hm Hn (Hs (match w_state w0 with WOpen => WUnsub | x => x end))) as (w' & H1 & H2);
      exists w'; (split; [exact H1|exact H2]).
  - unfold publish_one. break_match; cbn [fst s_watches]; exact Hid.
  - unfold restore. cbn [fst s_watches]. exists (force_close w). split; [|repeat split].
    rewrite nth_error_map, Hn. reflexivity.
Qed.

Lemma same_static_trans a b c : same_static a b -> same_static b c -> same_static a c.
Proof. unfold same_static. intros (A1 & A2 & A3) (B1 & B2 & B3). repeat split; congruence. Qed.

Lemma watch_static_run ops : forall st n w, nth_error (s_watches st) n = Some w ->
  exists w', nth_error (s_watches (run st ops)) n = Some w' /\ same_static w w'.
Proof.
  induction ops as [|o ops IH]; intros st n w Hn; cbn [run]; [exists w; split; [assumption|repeat split]|].
  destruct (watch_static st o n w Hn) as (w1 & H1 & S1). destruct (IH _ n w1 H1) as (w2 & H2 & S2).
  exists w2. split; [assumption|]. eapply same_static_trans; eassumption.
Qed.

(* ---------- from the invariant's terms to the client's terms ---------- *)
Lemma str_eqb_sym a b : str_eqb a b = str_eqb b a.
Proof. destruct (str_eqb a b) eqn:E.
  - apply str_eqb_eq in E. subst. symmetry. apply str_eqb_refl.
  - apply str_eqb_neq in E. symmetry. apply str_eqb_neq. congruence.
Qed.

Lemma sroutes_wmatch q r : sroutes (watch_subject q) r && matches q r = wmatch q r.
Proof.
  unfold watch_subject, wmatch, matches, sroutes.
  destruct (str_eqb (tn_part (q_ten q)) star) eqn:E1; destruct (str_eqb (tn_ns (q_ten q)) star) eqn:E2;
    cbn [orb subject_eqb]; try (rewrite orb_false_r; reflexivity).
  rewrite (str_eqb_sym (tn_part (i_ten (r_id r)))), (str_eqb_sym (tn_ns (i_ten (r_id r)))).
  destruct (rtype_eqb (q_type q) (i_type (r_id r))), (str_eqb (tn_part (q_ten q)) (tn_part (i_ten (r_id r)))),
    (str_eqb (tn_ns (q_ten q)) (tn_ns (i_ten (r_id r)))), (has_prefix (q_prefix q) (i_name (r_id r))); reflexivity.
Qed.

Lemma scan_wmatch q r :
  (scan (subject_query (watch_subject q)) r && matches (subject_query (watch_subject q)) r) && matches q r = wmatch q r.
Proof.
  unfold watch_subject, wmatch.
  destruct (str_eqb (tn_part (q_ten q)) star) eqn:E1; destruct (str_eqb (tn_ns (q_ten q)) star) eqn:E2; cbn [orb subject_query];
    try (unfold scan, matches at 1; cbn [q_type q_ten q_prefix tn_part tn_ns has_prefix]; rewrite (str_eqb_refl star);
         cbn [orb andb]; rewrite !andb_true_r; reflexivity).
  unfold scan, matches. cbn [q_type q_ten q_prefix has_prefix]. rewrite E1, E2. cbn [orb].
  rewrite (str_eqb_sym (tn_part (i_ten (r_id r)))), (str_eqb_sym (tn_ns (i_ten (r_id r)))).
  destruct (rtype_eqb (q_type q) (i_type (r_id r))), (str_eqb (tn_part (q_ten q)) (tn_part (i_ten (r_id r)))),
    (str_eqb (tn_ns (q_ten q)) (tn_ns (i_ten (r_id r)))), (has_prefix (q_prefix q) (i_name (r_id r))); reflexivity.
Qed.

Lemma filter_filter {A} (f g : A -> bool) l : filter f (filter g l) = filter (fun x => g x && f x) l.
Proof. induction l as [|x l IH]; cbn; [reflexivity|]. destruct (g x); cbn; [destruct (f x); rewrite IH; reflexivity|exact IH]. Qed.

Lemma evs_snapshot q i T :
  evs q (snapshot_batch (watch_subject q) i T) = map Upsert (filter (wmatch q) T) ++ [EndOfSnapshot].
Proof.
  unfold evs, snapshot_batch. rewrite filter_app, map_app. cbn [filter deliverable ev_resource pe_ev map]. f_equal.
  unfold list_txn. set (s := watch_subject q).
  assert (forall l, map pe_ev (filter (deliverable q) (map (fun r => PEv s i (Upsert r)) l)) = map Upsert (filter (matches q) l)) as H.
  { induction l as [|r l IH]; cbn [map filter]; [reflexivity|].
    change (deliverable q (PEv s i (Upsert r))) with (matches q r).
    destruct (matches q r); cbn [map pe_ev]; rewrite IH; reflexivity. }
  rewrite H, filter_filter. f_equal. apply filter_ext. intros r. apply scan_wmatch.
Qed.

Lemma contrib_ev_match q c :
  contrib (watch_subject q) q c = if ev_match q (snd c) then [snd c] else [].
Proof.
  unfold contrib, lbatch, ev_match. destruct c as [i e]. cbn [fst snd]. destruct (ev_resource e) as [r|] eqn:E; [|reflexivity].
  rewrite route_commit, <- sroutes_wmatch. destruct (sroutes (watch_subject q) r); [|reflexivity].
  unfold evs. cbn [filter]. unfold deliverable. cbn [pe_ev]. rewrite E. destruct (matches q r); reflexivity.
Qed.

Lemma flat_contrib q La : flat_map (contrib (watch_subject q) q) La = filter (ev_match q) (map snd La).
Proof. induction La as [|c La IH]; cbn; [reflexivity|]. rewrite contrib_ev_match, IH. destruct (ev_match q (snd c)); reflexivity. Qed.

Lemma glog_app a : forall st b, glog st (a ++ b) = glog st a ++ glog (run st a) b.
Proof. induction a as [|o a IH]; intros st b; cbn; [reflexivity|]. rewrite IH, app_assoc. reflexivity. Qed.

(* ================= C18_watch_complete_ordered: one epoch (restore-free run from a clean state) ================= *)
Lemma watch_epoch_core st0 pre q post :
  clean st0 -> forallb no_restore (pre ++ OWatch q :: post) = true ->
  let ops := pre ++ OWatch q :: post in
  let n := List.length (s_watches (run st0 pre)) in
  snd (step (run st0 pre) (OWatch q)) = OutWatch n /\
  exists Lp La,
    glog st0 ops = Lp ++ La /\ (List.length Lp <= List.length (glog st0 pre))%nat /\
    (exists w rest, nth_error (s_watches (run st0 ops)) n = Some w /\ w_query w = q /\
        deliv n st0 ops ++ evs q (w_events w) ++ rest = ideal q (replay (s_res st0) Lp) La) /\
    (s_queue (run st0 ops) = [] -> snd (step (run st0 ops) (ONext n)) = OutNoEvent ->
     deliv n st0 ops = ideal q (replay (s_res st0) Lp) La).
Proof.
  intros Hclean Hnr ops n.
  set (T0 := s_res st0). set (i0 := s_idx st0). set (n0 := List.length (s_watches st0)).
  pose proof (INV_clean st0 Hclean) as H0. fold T0 i0 n0 in H0.
  assert (Hnr1 : forallb no_restore (pre ++ [OWatch q]) = true).
  { rewrite forallb_app in *. apply andb_true_iff in Hnr as [-> _]. reflexivity. }
  (* right after the open *)
  pose proof (INV_run T0 i0 n0 _ _ _ _ H0 Hnr1) as Hopen. cbn [app] in Hopen.
  rewrite run_app, glog_app in Hopen. cbn [run glog] in Hopen. set (s_pre := run st0 pre) in *.
  assert (Hco : commit_of s_pre (OWatch q) = []) by reflexivity. rewrite Hco in Hopen. cbn [app] in Hopen. rewrite app_nil_r in Hopen.
  set (s_open := fst (step s_pre (OWatch q))) in *.
  assert (Hnew : exists w, nth_error (s_watches s_open) n = Some w /\ w_query w = q /\ w_state w = WOpen /\
                           snd (step s_pre (OWatch q)) = OutWatch n).
  { unfold s_open, n. cbn [step]. unfold watch_open. destruct (cache_get (watch_subject q) (s_cache s_pre)); cbn [fst snd s_watches];
      eexists; (split; [rewrite nth_error_app2 by lia; rewrite Nat.sub_diag; reflexivity|cbn; auto]). }
  destruct Hnew as (w1 & Hn1 & Hq1 & Ho1 & Hout). split; [exact Hout|].
  destruct Hopen as ((_ & Hidx1 & _) & _ & (_ & _ & _ & Hb4) & _ & _ & _ & _ & _ & _).
  destruct (Hb4 n w1 Hn1 Ho1) as [_ Hsb].
  (* at the end *)
  pose proof (INV_run T0 i0 n0 _ _ _ _ H0 Hnr) as Hend. cbn [app] in Hend. fold ops in Hend.
  assert (Hrun : run st0 ops = run s_open post) by (unfold ops; rewrite run_app; reflexivity).
  destruct (watch_static_run post s_open n w1 Hn1) as (w & Hn2 & Hq2 & Hs2 & Hsu2). rewrite <- Hrun in Hn2.
  pose proof Hend as (_ & _ & _ & _ & Hw & _ & _ & _ & _).
  assert (Hge : (n0 <= n)%nat).
  { pose proof (INV_run T0 i0 n0 pre _ _ _ H0) as Hp. rewrite forallb_app in Hnr. apply andb_true_iff in Hnr as [Hnr0 _].
    specialize (Hp Hnr0). destruct Hp as (_ & _ & _ & _ & _ & _ & _ & Hlen & _). exact Hlen. }
  destruct (Hw n w Hn2 Hge) as (Hsubj & La & rest & (Lp & HL & Hsi & Hsb2) & Heq & Hop).
  assert (Hqw : w_query w = q) by congruence. rewrite Hqw in *. rewrite Hsubj in *.
  exists Lp, La. split; [exact HL|]. split.
  { (* the snapshot point is not after the open *)
    assert (sn_idx (w_snap w) <= s_idx s_open).
    { rewrite Hs2. destruct (snapshot_batch_head (watch_subject q) (sn_idx (w_snap w1)) (replay T0 Lp)) as (e0 & b & Hb' & He0).
      rewrite <- Hs2 in Hb'. rewrite <- Hsb2 in Hb'. rewrite Hs2 in Hb'. specialize (Hsb e0). rewrite Hb' in Hsb. rewrite <- He0. apply Hsb. left; reflexivity. }
    rewrite Hsi, Hidx1 in H. lia. }
  assert (Hideal : evs q (sn_batch (w_snap w)) ++ flat_map (contrib (watch_subject q) q) La = ideal q (replay T0 Lp) La).
  { rewrite Hsb2, evs_snapshot, flat_contrib. unfold ideal. rewrite <- app_assoc. reflexivity. }
  rewrite Hideal in Heq. cbn [app] in Heq. split.
  - exists w, rest. split; [exact Hn2|]. split; [exact Hqw|exact Heq].
  - intros Hqe Hno. cbn [step] in Hno. unfold watch_next in Hno. rewrite Hn2 in Hno. rewrite Hqw in Hno.
    destruct (drain q (w_events w)) as [[e r']|] eqn:Ed; [discriminate|].
    rewrite (drain_none _ _ Ed) in Heq. cbn [app] in Heq.
    destruct (w_state w) eqn:Est; try discriminate.
    destruct (Hop eq_refl) as (tb & G1 & G2 & G3 & G4 & G5). rewrite Hsubj in G1.
    unfold watch_items in Hno. rewrite Hsubj, G1 in Hno.
    destruct (scan_raws q (w_idx w) (skipn (w_pos w) (vstream (w_snap w) (b_items tb))) 0) as [[widx' k] res] eqn:Es.
    destruct res as [[e r']|]; [discriminate|].
    destruct (scan_raws_spec _ _ _ _ _ _ _ (qraws (watch_subject q) (s_queue (run st0 ops))) Es) as (c & _ & _ & _ & Hres).
    rewrite Hqw, Hsubj in G5. rewrite Hres, Hqe in G5. cbn in G5. subst rest. rewrite app_nil_r in Heq. exact Heq.
Qed.

Theorem watch_complete_ordered st0 pre q post :
  clean st0 -> forallb no_restore (pre ++ OWatch q :: post) = true ->
  let ops := pre ++ OWatch q :: post in
  let n := List.length (s_watches (run st0 pre)) in
  snd (step (run st0 pre) (OWatch q)) = OutWatch n /\
  exists Lp La,
    glog st0 ops = Lp ++ La /\ (List.length Lp <= List.length (glog st0 pre))%nat /\
    (exists rest, deliv n st0 ops ++ rest = ideal q (replay (s_res st0) Lp) La) /\
    (s_queue (run st0 ops) = [] -> snd (step (run st0 ops) (ONext n)) = OutNoEvent ->
     deliv n st0 ops = ideal q (replay (s_res st0) Lp) La).
Proof.
  intros Hc Hnr ops n. destruct (watch_epoch_core st0 pre q post Hc Hnr) as (H1 & Lp & La & H2 & H3 & (w & rest & _ & _ & H4) & H5).
  split; [exact H1|]. exists Lp, La. repeat (split; [assumption|]). split; [|exact H5].
  exists (evs q (w_events w) ++ rest). exact H4.
Qed.

(* ---------- a watch that is no longer open only hands out what it had already received ---------- *)
Definition closed_prefix (n : nat) (q : query) (X : list wev) (st : store) (D : list wev) : Prop :=
  exists w, nth_error (s_watches st) n = Some w /\ w_query w = q /\ w_state w <> WOpen /\
            exists rest, D ++ evs q (w_events w) ++ rest = X.

Lemma watches_other st o :
  match o with OWatch _ | ONext _ | OClose _ | ORestore _ => True | _ => s_watches (fst (step st o)) = s_watches st end.
Proof.
  destruct o; try exact I; cbn [step fst]; try reflexivity.
  - assert (fst (backend_write st r) = fst (store_write (set_vsn st (s_vsn st + 1)) (with_version r (s_vsn st + 1)) (r_version r))) as ->.
    { unfold backend_write. destruct (store_write _ _ _) as [s1 o1]. destruct o1; reflexivity. }
    destruct (store_write_cases (set_vsn st (s_vsn st + 1)) (with_version r (s_vsn st + 1)) (r_version r)) as [[_ ->]|(_ & -> & _)]; reflexivity.
  - destruct (store_write_cases st r vsn) as [[_ ->]|(_ & -> & _)]; reflexivity.
  - destruct (store_delete_cases st k uid vsn) as [(ex & _ & _ & _ & ->)|(_ & ->)]; reflexivity.
  - unfold publish_one. break_match; reflexivity.
Qed.

Lemma closed_step n q X st D o :
  closed_prefix n q X st D -> closed_prefix n q X (fst (step st o)) (D ++ next_of n st o).
Proof.
  intros (w & Hn & Hq & Hs & rest & Heq).
  assert (Hsame : s_watches (fst (step st o)) = s_watches st -> next_of n st o = [] ->
                  closed_prefix n q X (fst (step st o)) (D ++ next_of n st o)).
  { intros Hw Hno. rewrite Hno, app_nil_r. exists w. rewrite Hw. eauto. }
  pose proof (watches_other st o) as Hwo.
  destruct o; try (apply Hsame; [exact Hwo|reflexivity]).
  - (* OWatch *) rewrite app_nil_r. exists w. split; [|eauto]. cbn [step]. unfold watch_open.
    destruct (cache_get (watch_subject q0) (s_cache st)); cbn [fst s_watches]; (rewrite nth_error_app1; [exact Hn|apply nth_error_Some; congruence]).
  - (* ONext *) unfold next_of. cbn [step]. unfold watch_next.
    destruct (nth_error (s_watches st) n0) as [w0|] eqn:Hm.
    2:{ cbn [fst snd]. rewrite app_nil_r. exists w. eauto. }
    destruct (Nat.eqb n0 n) eqn:E.
    + apply Nat.eqb_eq in E. subst n0. rewrite Hn in Hm. injection Hm as <-. rewrite Hq.
      destruct (drain q (w_events w)) as [[e r']|] eqn:Ed; cbn [fst snd].
      * eexists. unfold set_watch. cbn [s_watches]. change (firstn n (s_watches st) ++ ?x :: skipn (S n) (s_watches st)) with (set_nth n x (s_watches st)).
        rewrite (nth_error_set_nth n n _ w _ Hn), Nat.eqb_refl. split; [reflexivity|]. cbn [w_query w_state w_events]. split; [first [exact Hq|reflexivity]|]. split; [exact Hs|].
        exists rest. rewrite (drain_some _ _ _ _ Ed) in Heq. rewrite <- Heq, <- !app_assoc. reflexivity.
      * rewrite (drain_none _ _ Ed) in Heq. destruct (w_state w) eqn:Est; [contradiction| |]; cbn [fst snd]; rewrite app_nil_r;
          (eexists; unfold set_watch; cbn [s_watches];
           change (firstn n (s_watches st) ++ ?x :: skipn (S n) (s_watches st)) with (set_nth n x (s_watches st));
           rewrite (nth_error_set_nth n n _ w _ Hn), Nat.eqb_refl; split; [reflexivity|]; cbn [w_query w_state w_events];
           split; [first [exact Hq|reflexivity]|]; split; [discriminate|]; exists rest; exact Heq).
    + (* another watch *)
      match goal with |- closed_prefix _ _ _ (fst ?x) _ => remember x as res eqn:Hres end.
      apply Nat.eqb_neq in E.
      assert (Hkeep : forall w1, nth_error (s_watches (set_watch st n0 w1)) n = Some w).
      { intros w1. unfold set_watch. cbn [s_watches]. change (firstn n0 (s_watches st) ++ w1 :: skipn (S n0) (s_watches st)) with (set_nth n0 w1 (s_watches st)).
        rewrite (nth_error_set_nth n0 n w1 w0 _ Hm). assert (Nat.eqb n n0 = false) as -> by (apply Nat.eqb_neq; congruence). exact Hn. }
      assert (Hf : exists w1, fst res = set_watch st n0 w1) by (subst res; break_match; cbn [fst]; eauto).
      destruct Hf as (w1 & Hf). rewrite Hf.
      match goal with |- closed_prefix _ _ _ _ (D ++ ?t) => replace t with (@nil wev) by (destruct (snd res); reflexivity) end.
      rewrite app_nil_r. exists w. split; [apply Hkeep|eauto].
  - (* OClose *) rewrite app_nil_r. cbn [step]. unfold watch_close. destruct (nth_error (s_watches st) n0) as [w0|] eqn:Hm; [|exists w; eauto].
    set (w1 := Watch (w_subj w0) (w_query w0) (match w_state w0 with WOpen => WUnsub | x => x end) true (w_snap w0) (w_pos w0) (w_events w0) (w_idx w0)).
    assert (Hres : exists w', nth_error (s_watches (set_watch st n0 w1)) n = Some w' /\ w_query w' = q /\ w_state w' <> WOpen /\ w_events w' = w_events w).
    { unfold set_watch. cbn [s_watches]. change (firstn n0 (s_watches st) ++ w1 :: skipn (S n0) (s_watches st)) with (set_nth n0 w1 (s_watches st)).
      rewrite (nth_error_set_nth n0 n w1 w0 _ Hm). destruct (Nat.eqb n n0) eqn:E.
      - apply Nat.eqb_eq in E. subst n0. rewrite Hn in Hm. injection Hm as <-. exists w1. split; [reflexivity|]. cbn. split; [exact Hq|]. split; [destruct (w_state w); discriminate|reflexivity].
      - exists w. auto. }
    destruct Hres as (w' & H1 & H2 & H3 & H4).
    exists w'. split; [|split; [exact H2|split; [exact H3|exists rest; rewrite H4; exact Heq]]].
    break_match; cbn [fst s_watches]; exact H1.
  - (* ORestore *) rewrite app_nil_r. exists (force_close w).
    change (s_watches (fst (step st (ORestore l)))) with (map force_close (s_watches st)). rewrite nth_error_map, Hn. split; [reflexivity|].
    cbn. split; [exact Hq|]. split; [destruct (w_state w); discriminate|eauto].
Qed.

Lemma closed_run n q X ops : forall st D,
  closed_prefix n q X st D -> closed_prefix n q X (run st ops) (D ++ deliv n st ops).
Proof.
  induction ops as [|o ops IH]; intros st D H; cbn [run deliv]; [rewrite app_nil_r; exact H|].
  rewrite app_assoc. apply IH. apply closed_step. exact H.
Qed.

Lemma deliv_app n a : forall st b, deliv n st (a ++ b) = deliv n st a ++ deliv n (run st a) b.
Proof. induction a as [|o a IH]; intros st b; cbn; [reflexivity|]. rewrite IH, app_assoc. reflexivity. Qed.

(* ================= C18_watch_complete_ordered: all schedules =================
   [pre ++ OWatch q :: mid] is the restore-free stretch around the open, starting in a clean state
   (the initial state, or the state right after ANY restore: restore_clean); [post] is whatever
   follows, beginning with the next restore (if any) and arbitrary after it. *)
Theorem watch_complete_ordered_all st0 pre q mid post :
  clean st0 -> forallb no_restore (pre ++ OWatch q :: mid) = true ->
  (post = [] \/ exists l post', post = ORestore l :: post') ->
  let ops1 := pre ++ OWatch q :: mid in
  let n := List.length (s_watches (run st0 pre)) in
  snd (step (run st0 pre) (OWatch q)) = OutWatch n /\
  exists Lp La,
    glog st0 ops1 = Lp ++ La /\ (List.length Lp <= List.length (glog st0 pre))%nat /\
    (exists rest, deliv n st0 (ops1 ++ post) ++ rest = ideal q (replay (s_res st0) Lp) La) /\
    (s_queue (run st0 ops1) = [] -> snd (step (run st0 ops1) (ONext n)) = OutNoEvent ->
     deliv n st0 ops1 = ideal q (replay (s_res st0) Lp) La).
Proof.
  intros Hc Hnr Hpost ops1 n.
  destruct (watch_epoch_core st0 pre q mid Hc Hnr) as (H1 & Lp & La & H2 & H3 & (w & rest & Hn & Hq & H4) & H5).
  fold ops1 in H2, Hn, H4, H5. fold n in Hn, H4, H5. split; [exact H1|]. exists Lp, La. repeat (split; [assumption|]). split; [|exact H5].
  destruct Hpost as [->|(l & post' & ->)].
  - rewrite app_nil_r. exists (evs q (w_events w) ++ rest). exact H4.
  - rewrite deliv_app. cbn [deliv]. change (next_of n (run st0 ops1) (ORestore l)) with (@nil wev). cbn [app].
    assert (Hcl : closed_prefix n q (ideal q (replay (s_res st0) Lp) La) (fst (step (run st0 ops1) (ORestore l))) (deliv n st0 ops1)).
    { exists (force_close w). change (s_watches (fst (step (run st0 ops1) (ORestore l)))) with (map force_close (s_watches (run st0 ops1))). rewrite nth_error_map, Hn. split; [reflexivity|]. cbn.
      split; [exact Hq|]. split; [destruct (w_state w); discriminate|]. exists rest. exact H4. }
    apply (closed_run _ _ _ post') in Hcl. destruct Hcl as (w' & _ & _ & _ & rest' & Heq).
    exists (evs q (w_events w') ++ rest'). exact Heq.
Qed.

(* ---------- what a watch returns has been committed ---------- *)
Lemma in_replay r L : forall T, In r (replay T L) -> In r T \/ In (Upsert r) (map snd L).
Proof.
  induction L as [|[i e] L IH]; intros T H; cbn [replay] in H; [auto|]. cbn [map snd In].
  destruct e as [x|x|]; apply IH in H as [H|H]; auto.
  - apply in_upsert in H as [->|[H _]]; auto.
  - apply in_remove in H as [H _]. auto.
Qed.

Theorem delivered_committed st0 ops n e :
  clean st0 -> forallb no_restore ops = true -> (List.length (s_watches st0) <= n)%nat ->
  In e (deliv n st0 ops) ->
  match e with
  | Upsert r => In r (s_res st0) \/ In (Upsert r) (map snd (glog st0 ops))
  | Delete r => In (Delete r) (map snd (glog st0 ops))
  | EndOfSnapshot => True
  end.
Proof.
  intros Hclean Hnr Hge Hin.
  pose proof (INV_run _ _ _ _ _ _ _ (INV_clean st0 Hclean) Hnr) as HI. cbn [app] in HI.
  destruct HI as (_ & _ & _ & _ & Hw & _ & _ & _ & Hd).
  destruct (nth_error (s_watches (run st0 ops)) n) as [w|] eqn:Hn.
  2:{ apply nth_error_None in Hn. rewrite (Hd n Hn) in Hin. contradiction. }
  destruct (Hw n w Hn Hge) as (Hsubj & La & rest & (Lp & HL & Hsi & Hsb) & Heq & _).
  rewrite Hsubj in Heq, Hsb. rewrite Hsb, evs_snapshot, flat_contrib in Heq.
  assert (Hin2 : In e (map Upsert (filter (wmatch (w_query w)) (replay (s_res st0) Lp)) ++ [EndOfSnapshot]
                        ++ filter (ev_match (w_query w)) (map snd La))).
  { rewrite <- app_assoc in Heq. rewrite <- Heq. apply in_app_iff. left. exact Hin. }
  rewrite HL, map_app. apply in_app_iff in Hin2 as [H|[<-|H]]; [| exact I |].
  - apply in_map_iff in H as (r & <- & Hr). apply filter_In in Hr as [Hr _].
    apply in_replay in Hr as [Hr|Hr]; [auto|]. right. apply in_app_iff. auto.
  - apply filter_In in H as [H Hm]. destruct e as [r|r|]; [right| |exact I]; apply in_app_iff; auto.
Qed.

(* a committed event was produced by a step of the run *)
Lemma glog_event_state e ops : forall st, In e (map snd (glog st ops)) ->
  exists a1 o a2, ops = a1 ++ o :: a2 /\ commit_ev (run st a1) o = Some e.
Proof.
  induction ops as [|o ops IH]; intros st H; cbn [glog] in H; [contradiction|].
  rewrite map_app in H. apply in_app_iff in H as [H|H].
  - unfold commit_of in H. destruct (commit_ev st o) as [e'|] eqn:E; [|contradiction].
    destruct H as [<-|[]]. exists [], o, ops. auto.
  - destruct (IH _ H) as (a1 & o' & a2 & -> & Hc). exists (o :: a1), o', a2. auto.
Qed.

Lemma commit_upsert_row st o r : commit_ev st o = Some (Upsert r) -> lk (r_id r) (fst (step st o)) = Some r.
Proof.
  destruct o; cbn [commit_ev]; try discriminate.
  - destruct (snd (step st (OWrite r0))) eqn:E; try discriminate. intros H; injection H as <-.
    cbn [step] in *. apply backend_write_out in E as (-> & _ & Hr). unfold lk. rewrite Hr. apply lookup_upsert_same.
  - destruct (snd (step st (OWriteS r0 vsn))) eqn:E; try discriminate. intros H; injection H as <-.
    cbn [step] in *. destruct (store_write_cases st r0 vsn) as [[_ He]|(_ & _ & [Ho|Ho])]; try (rewrite Ho in E; discriminate).
    rewrite He. unfold lk. cbn. apply lookup_upsert_same.
  - destruct (lk k st); [|discriminate]. destruct (_ && _); discriminate.
Qed.

Lemma commit_delete_row st o r : commit_ev st o = Some (Delete r) ->
  lk (r_id r) st = Some r /\ lk (r_id r) (fst (step st o)) = None.
Proof.
  destruct o; cbn [commit_ev]; try discriminate.
  - destruct (snd (step st (OWrite r0))); discriminate.
  - destruct (snd (step st (OWriteS r0 vsn))); discriminate.
  - destruct (lk k st) as [ex|] eqn:Hl; [|discriminate].
    destruct (str_eqb uid (r_uid ex) && N.eqb vsn (r_version ex)) eqn:E; [|discriminate]. intros H; injection H as <-.
    apply andb_true_iff in E as [E1 E2]. apply str_eqb_eq in E1. apply N.eqb_eq in E2.
    pose proof (lookup_some_id _ _ _ Hl) as Hk. rewrite Hk. split; [exact Hl|]. cbn [step].
    destruct (store_delete_cases st k uid vsn) as [(ex' & _ & _ & _ & He)|(Hn & _)].
    + rewrite He. unfold lk. cbn. apply lookup_remove_same.
    + exfalso. apply Hn. exists ex. auto.
Qed.

(* ---------- rows only move forward ---------- *)
Definition atleast (k : rid) (v : N) (st : store) : Prop :=
  v <= s_vsn st /\ forall r, lk k st = Some r -> v <= r_version r.

Lemma run_atleast k v ops : forall st, forallb backend_op ops = true -> atleast k v st -> atleast k v (run st ops).
Proof.
  induction ops as [|o ops IH]; intros st Hb Ha; cbn [run]; [assumption|].
  cbn in Hb. apply andb_true_iff in Hb as [Ho Hb]. apply IH; [assumption|].
  destruct Ha as [Hle Hr]. pose proof (step_vsn_mono st o) as Hm. split; [lia|]. intros r Hl.
  destruct (step_lookup_backend st o k Ho) as [H|[H|(r' & H & Hv & _)]]; rewrite H in Hl.
  - auto.
  - discriminate.
  - injection Hl as <-. lia.
Qed.

Lemma row_monotone k r c st :
  vb st -> lk k st = Some r -> forallb backend_op c = true ->
  match lk k (run st c) with
  | Some r' => r_version r <= r_version r'
  | None => exists c1 d c2, c = c1 ++ d :: c2 /\ effective_delete (run st c1) d k
  end.
Proof.
  intros Hvb Hl Hb. destruct (lk k (run st c)) as [r'|] eqn:E.
  - assert (Ha : atleast k (r_version r) st).
    { split; [apply (Hvb k r Hl)|]. intros x Hx. rewrite Hl in Hx. injection Hx as <-. lia. }
    apply (run_atleast _ _ c) in Ha; [|assumption]. destruct Ha as [_ Ha]. auto.
  - apply present_absent_delete; [|congruence|exact E].
    rewrite forallb_forall in *. intros o Ho. apply backend_no_restore. auto.
Qed.

Lemma read_row st k gv : 
  match lk k st with
  | Some r => snd (step st (ORead k gv [])) = OutRes r \/ snd (step st (ORead k gv [])) = OutGVM r
  | None => snd (step st (ORead k gv [])) = OutErr ENotFound
  end.
Proof.
  cbn [step snd]. unfold store_read, lk. destruct (lookup k (s_res st)) as [r|]; [|reflexivity].
  cbn [str_eqb str_cmp negb andb]. destruct (negb (str_eqb gv (r_gv r))); auto.
Qed.

Definition read_sees (st : store) (k : rid) (gv : str) (r' : resource) : Prop :=
  snd (step st (ORead k gv [])) = OutRes r' \/ snd (step st (ORead k gv [])) = OutGVM r'.

(* ---------- where an event comes from: the row it carries was the stored row at an earlier point ---------- *)
Lemma event_row_point st0 a n e :
  clean st0 -> NoDup (keys (s_res st0)) -> forallb no_restore a = true -> (List.length (s_watches st0) <= n)%nat ->
  snd (step (run st0 a) (ONext n)) = OutEvent e ->
  match e with
  | Upsert r => exists a1 a2, a = a1 ++ a2 /\ lk (r_id r) (run st0 a1) = Some r
  | Delete r => exists a1 o a2, a = a1 ++ o :: a2 /\ lk (r_id r) (run st0 a1) = Some r /\
                                lk (r_id r) (fst (step (run st0 a1) o)) = None
  | EndOfSnapshot => True
  end.
Proof.
  intros Hclean Hnd Hnr0 Hge Hout.
  assert (Hnr : forallb no_restore (a ++ [ONext n]) = true) by (rewrite forallb_app, Hnr0; reflexivity).
  assert (Hin : In e (deliv n st0 (a ++ [ONext n]))).
  { assert (G : forall st, snd (step (run st a) (ONext n)) = OutEvent e -> In e (deliv n st (a ++ [ONext n]))); [|apply G; exact Hout].
    clear. induction a as [|o a IH]; intros st0 Hout; cbn [app deliv].
    - unfold next_of. cbn [run] in Hout. rewrite Hout, Nat.eqb_refl. left; reflexivity.
    - apply in_app_iff. right. apply IH. exact Hout. }
  pose proof (delivered_committed st0 _ n e Hclean Hnr Hge Hin) as Hc.
  assert (Hgl : glog st0 (a ++ [ONext n]) = glog st0 a) by (rewrite glog_app; cbn; apply app_nil_r).
  rewrite Hgl in Hc. destruct e as [r|r|]; [| |exact I].
  - destruct Hc as [Hc|Hc].
    + exists [], a. split; [reflexivity|]. cbn. unfold lk. apply in_lookup; assumption.
    + apply glog_event_state in Hc as (a1 & o & a2 & -> & Hce). exists (a1 ++ [o]), a2. rewrite <- app_assoc. split; [reflexivity|].
      rewrite run_app. cbn [run]. apply commit_upsert_row. exact Hce.
  - apply glog_event_state in Hc as (a1 & o & a2 & Ha & Hce). apply commit_delete_row in Hce as [Hl Hl'].
    exists a1, o, a2. auto.
Qed.

(* Store.Read in terms of the stored row, uid-qualified reads included *)
Lemma read_spec st k gv uid :
  snd (step st (ORead k gv uid)) =
  match lk k st with
  | None => OutErr ENotFound
  | Some r => if negb (str_eqb uid []) && negb (str_eqb (r_uid r) uid) then OutErr ENotFound
              else if negb (str_eqb gv (r_gv r)) then OutGVM r else OutRes r
  end.
Proof. reflexivity. Qed.

Lemma read_stale_uid_notfound st k gv uid r :
  lk k st = Some r -> uid <> [] -> uid <> r_uid r -> snd (step st (ORead k gv uid)) = OutErr ENotFound.
Proof.
  intros Hl H1 H2. rewrite read_spec, Hl. apply str_eqb_neq in H1. rewrite H1.
  assert (str_eqb (r_uid r) uid = false) as -> by (apply str_eqb_neq; congruence). reflexivity.
Qed.

(* ================= the row after an event (inmem.Backend path) ================= *)
Theorem row_after_event st0 a n e b :
  clean st0 -> vb st0 -> NoDup (keys (s_res st0)) ->
  forallb backend_op (a ++ ONext n :: b) = true -> (List.length (s_watches st0) <= n)%nat ->
  let s1 := run st0 a in
  snd (step s1 (ONext n)) = OutEvent e ->
  let s2 := run (fst (step s1 (ONext n))) b in
  match e with
  | Upsert r =>
      exists a1 a2, a = a1 ++ a2 /\ lk (r_id r) (run st0 a1) = Some r /\
        match lk (r_id r) s2 with
        | Some r' => r_version r <= r_version r'
        | None => exists c1 d c2, a2 ++ ONext n :: b = c1 ++ d :: c2 /\ effective_delete (run (run st0 a1) c1) d (r_id r)
        end
  | Delete r => match lk (r_id r) s2 with Some r' => r_version r < r_version r' | None => True end
  | EndOfSnapshot => True
  end.
Proof.
  intros Hclean Hvb Hnd Hb Hge s1 Hout s2.
  assert (Hnra : forallb no_restore a = true).
  { rewrite forallb_forall in *. intros o Ho. apply backend_no_restore. apply Hb. apply in_app_iff. auto. }
  pose proof (event_row_point st0 a n e Hclean Hnd Hnra Hge Hout) as Hp.
  assert (Hs2 : forall a1 a2, a = a1 ++ a2 -> s2 = run (run st0 a1) (a2 ++ ONext n :: b)).
  { intros a1 a2 ->. unfold s2, s1. rewrite !run_app. reflexivity. }
  assert (Hbk : forall a1 a2, a = a1 ++ a2 -> forallb backend_op a1 = true /\ forallb backend_op (a2 ++ ONext n :: b) = true).
  { intros a1 a2 ->. rewrite <- app_assoc, forallb_app in Hb. apply andb_true_iff in Hb. exact Hb. }
  destruct e as [r|r|]; [| |exact I].
  - destruct Hp as (a1 & a2 & Ha & Hl). exists a1, a2. split; [exact Ha|]. split; [exact Hl|].
    destruct (Hbk a1 a2 Ha) as [Hb1 Hb2]. rewrite (Hs2 a1 a2 Ha).
    exact (row_monotone (r_id r) r (a2 ++ ONext n :: b) (run st0 a1) (run_vb _ _ Hb1 Hvb) Hl Hb2).
  - destruct Hp as (a1 & o & a2 & Ha & Hl & Hl').
    assert (Ha' : a = (a1 ++ [o]) ++ a2) by (rewrite <- app_assoc; exact Ha).
    destruct (Hbk _ _ Ha') as [Hb1 Hb2]. rewrite forallb_app in Hb1. apply andb_true_iff in Hb1 as [Hb1 Hbo]. cbn in Hbo.
    assert (Hvb1 : vb (run st0 a1)) by (apply run_vb; assumption).
    assert (Hab : above (r_id r) (r_version r) (fst (step (run st0 a1) o))).
    { pose proof (step_vsn_mono (run st0 a1) o). pose proof (Hvb1 _ _ Hl). split; [lia|]. intros x Hx. congruence. }
    apply (run_above _ _ (a2 ++ ONext n :: b)) in Hab; [|assumption].
    assert (Es2 : s2 = run (fst (step (run st0 a1) o)) (a2 ++ ONext n :: b)).
    { rewrite (Hs2 _ _ Ha'). rewrite (run_app st0 a1 [o]). reflexivity. }
    rewrite <- Es2 in Hab. destruct Hab as [_ Hab]. destruct (lk (r_id r) s2) as [r'|]; [apply Hab; reflexivity|exact I].
Qed.

(* ================= C18_read_after_event ================= *)
Theorem read_after_event st0 a n e b gv :
  clean st0 -> vb st0 -> NoDup (keys (s_res st0)) ->
  forallb backend_op (a ++ ONext n :: b) = true -> (List.length (s_watches st0) <= n)%nat ->
  let s1 := run st0 a in
  snd (step s1 (ONext n)) = OutEvent e ->
  let s2 := run (fst (step s1 (ONext n))) b in
  match e with
  | Upsert r =>
      (exists r', read_sees s2 (r_id r) gv r' /\ r_version r <= r_version r') \/
      (snd (step s2 (ORead (r_id r) gv [])) = OutErr ENotFound /\
       exists c1 d c2, a ++ ONext n :: b = c1 ++ d :: c2 /\ effective_delete (run st0 c1) d (r_id r))
  | Delete r =>
      (exists r', read_sees s2 (r_id r) gv r' /\ r_version r < r_version r') \/
      snd (step s2 (ORead (r_id r) gv [])) = OutErr ENotFound
  | EndOfSnapshot => True
  end.
Proof.
  intros Hclean Hvb Hnd Hb Hge s1 Hout s2.
  pose proof (row_after_event st0 a n e b Hclean Hvb Hnd Hb Hge Hout) as H. fold s1 s2 in H. cbn zeta in H.
  destruct e as [r|r|]; [| |exact I].
  - destruct H as (a1 & a2 & Ha & Hl & H). pose proof (read_row s2 (r_id r) gv) as Hr.
    destruct (lk (r_id r) s2) as [r'|].
    + left. exists r'. split; [exact Hr|exact H].
    + right. split; [exact Hr|]. destruct H as (c1 & d & c2 & Hc12 & Hd).
      exists (a1 ++ c1), d, c2. rewrite run_app. split; [|exact Hd]. rewrite Ha, <- !app_assoc, <- Hc12. reflexivity.
  - pose proof (read_row s2 (r_id r) gv) as Hr. destruct (lk (r_id r) s2) as [r'|]; [left; exists r'; split; [exact Hr|exact H]|right; exact Hr].
Qed.
