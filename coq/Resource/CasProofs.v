(* C18, part 1: version CAS, stable UIDs, lifetimes.  These depend on the resources table and the
   backend's version counter only. *)
From Verif Require Import Base.Prelude Resource.Model Resource.TableProofs.
Local Open Scope N_scope.

Definition lk (k : rid) (st : store) : option resource := lookup k (s_res st).

Definition no_restore (o : op) : bool := match o with ORestore _ => false | _ => true end.
(* operations of the storage.Backend API plus the publisher/timer steps: no restore and no
   Store-level write with a caller-chosen version *)
Definition backend_op (o : op) : bool :=
  match o with ORestore _ | OWriteS _ _ => false | _ => true end.

Lemma backend_no_restore o : backend_op o = true -> no_restore o = true.
Proof. destruct o; cbn; congruence. Qed.

(* versions in the table were handed out by the counter *)
Definition vb (st : store) : Prop := forall k r, lk k st = Some r -> 1 <= r_version r <= s_vsn st.

(* ---------- store_write / store_delete ---------- *)
Definition accept (st : store) (r : resource) (v : N) : Prop :=
  match lk (r_id r) st with
  | None => v = 0
  | Some ex => r_uid ex = r_uid r /\ r_version ex = v
  end.

Lemma store_write_cases st r v :
  (accept st r v /\ store_write st r v =
     (set_res st (upsert r (s_res st)) (s_idx st + 1) (s_queue st ++ [commit_batch (s_idx st + 1) (Upsert r) r]), OutOk))
  \/ (~ accept st r v /\ fst (store_write st r v) = st /\
      (snd (store_write st r v) = OutErr ECAS \/ snd (store_write st r v) = OutErr EWrongUid)).
Proof.
  unfold store_write, accept, lk. destruct (lookup (r_id r) (s_res st)) as [ex|].
  - destruct (str_eqb (r_uid ex) (r_uid r)) eqn:E1; cbn.
    + apply str_eqb_eq in E1. destruct (N.eqb (r_version ex) v) eqn:E2; cbn.
      * apply N.eqb_eq in E2. left; auto.
      * apply N.eqb_neq in E2. right. split; [tauto|auto].
    + apply str_eqb_neq in E1. right. split; [tauto|auto].
  - destruct (N.eqb v 0) eqn:E; cbn.
    + apply N.eqb_eq in E. left; auto.
    + apply N.eqb_neq in E. right; auto.
Qed.

Lemma store_write_wronguid st r v ex :
  lk (r_id r) st = Some ex -> r_uid ex <> r_uid r -> store_write st r v = (st, OutErr EWrongUid).
Proof. unfold store_write, lk. intros -> H. apply str_eqb_neq in H. rewrite H. reflexivity. Qed.

Definition hits (st : store) (k : rid) (uid : str) (v : N) : Prop :=
  exists ex, lk k st = Some ex /\ uid = r_uid ex /\ v = r_version ex.

Lemma store_delete_cases st k uid v :
  (exists ex, lk k st = Some ex /\ uid = r_uid ex /\ v = r_version ex /\ store_delete st k uid v =
     (set_res st (remove k (s_res st)) (s_idx st + 1) (s_queue st ++ [commit_batch (s_idx st + 1) (Delete ex) ex]), OutOk))
  \/ (~ hits st k uid v /\ fst (store_delete st k uid v) = st).
Proof.
  unfold store_delete, hits, lk. destruct (lookup k (s_res st)) as [ex|].
  - destruct (str_eqb uid (r_uid ex)) eqn:E1; cbn.
    + apply str_eqb_eq in E1. destruct (N.eqb v (r_version ex)) eqn:E2; cbn.
      * apply N.eqb_eq in E2. left. exists ex; auto.
      * apply N.eqb_neq in E2. right. split; [|reflexivity]. intros (e & He & _ & Hv). congruence.
    + apply str_eqb_neq in E1. right. split; [|reflexivity]. intros (e & He & Hu & _). congruence.
  - right. split; [|reflexivity]. intros (e & He & _). congruence.
Qed.

(* ---------- every other step leaves table, counter and event index alone ---------- *)
Definition table_op (o : op) : bool :=
  match o with OWrite _ | OWriteS _ _ | ODelete _ _ _ | ORestore _ => true | _ => false end.

Ltac break_match :=
  repeat match goal with
         | |- context [match ?x with _ => _ end] => destruct x eqn:?
         | |- context [if ?x then _ else _] => destruct x eqn:?
         end.

Lemma step_frame st o : table_op o = false ->
  s_res (fst (step st o)) = s_res st /\ s_vsn (fst (step st o)) = s_vsn st /\ s_idx (fst (step st o)) = s_idx st.
Proof.
  destruct o; cbn [table_op]; try congruence; intros _; cbn [step fst];
    unfold watch_open, watch_next, watch_close, publish_one, set_watch; break_match; cbn; auto.
Qed.

(* what a step can do to the row of one key *)
Lemma backend_write_cases st r :
  let v := s_vsn st + 1 in
  let stored := with_version r v in
  s_vsn (fst (backend_write st r)) = v /\
  ((accept st stored (r_version r) /\ snd (backend_write st r) = OutRes stored /\
    s_res (fst (backend_write st r)) = upsert stored (s_res st) /\ s_idx (fst (backend_write st r)) = s_idx st + 1)
   \/ (~ accept st stored (r_version r) /\ s_res (fst (backend_write st r)) = s_res st /\
       s_idx (fst (backend_write st r)) = s_idx st /\
       (snd (backend_write st r) = OutErr ECAS \/ snd (backend_write st r) = OutErr EWrongUid))).
Proof.
  cbn zeta. unfold backend_write.
  destruct (store_write_cases (set_vsn st (s_vsn st + 1)) (with_version r (s_vsn st + 1)) (r_version r))
    as [[Ha He]|[Hn [Hs Ho]]].
  - rewrite He. cbn. split; [reflexivity|]. left. auto.
  - destruct (store_write (set_vsn st (s_vsn st + 1)) (with_version r (s_vsn st + 1)) (r_version r)) as [st' o] eqn:E.
    cbn in Hs, Ho. subst st'. split.
    + destruct Ho as [->| ->]; reflexivity.
    + right. destruct Ho as [->| ->]; cbn; auto.
Qed.

Lemma backend_write_out st r x : snd (backend_write st r) = OutRes x ->
  x = with_version r (s_vsn st + 1) /\ accept st x (r_version r) /\
  s_res (fst (backend_write st r)) = upsert x (s_res st).
Proof.
  intros H. destruct (backend_write_cases st r) as [_ [(Ha & Ho & Hr & _)|(_ & _ & _ & [Ho|Ho])]];
    rewrite Ho in H; try discriminate. injection H as <-. auto.
Qed.

Lemma step_lookup st o k : no_restore o = true ->
  lk k (fst (step st o)) = lk k st
  \/ lk k (fst (step st o)) = None
  \/ (exists r, lk k (fst (step st o)) = Some r /\
        match o with
        | OWrite x => r = with_version x (s_vsn st + 1) /\ k = r_id x /\ accept st r (r_version x)
        | OWriteS x v => r = x /\ k = r_id x /\ accept st x v
        | _ => False
        end).
Proof.
  intros Hnr. destruct (table_op o) eqn:Ht.
  2:{ left. unfold lk. destruct (step_frame st o Ht) as [-> _]. reflexivity. }
  destruct o; try discriminate; cbn [step].
  - (* OWrite *)
    destruct (backend_write_cases st r) as [_ [(Ha & Ho & Hr & _)|(_ & Hr & _)]]; unfold lk; rewrite Hr.
    + destruct (rid_eqb k (r_id r)) eqn:E.
      * apply rid_eqb_eq in E. subst k. right; right. exists (with_version r (s_vsn st + 1)).
        split; [apply (lookup_upsert_same (with_version r (s_vsn st + 1)))|]. auto.
      * apply rid_eqb_neq in E. left. apply lookup_upsert_other. exact E.
    + left; reflexivity.
  - (* OWriteS *)
    destruct (store_write_cases st r vsn) as [[Ha He]|(_ & Hs & _)]; unfold lk.
    + rewrite He. cbn. destruct (rid_eqb k (r_id r)) eqn:E.
      * apply rid_eqb_eq in E. subst k. right; right. exists r. split; [apply lookup_upsert_same|auto].
      * apply rid_eqb_neq in E. left. apply lookup_upsert_other. exact E.
    + rewrite Hs. left; reflexivity.
  - (* ODelete *)
    destruct (store_delete_cases st k0 uid vsn) as [(ex & Hl & _ & _ & He)|(_ & Hs)]; unfold lk.
    + rewrite He. cbn. destruct (rid_eqb k k0) eqn:E.
      * apply rid_eqb_eq in E. subst. right; left. apply lookup_remove_same.
      * apply rid_eqb_neq in E. left. apply lookup_remove_other. exact E.
    + rewrite Hs. left; reflexivity.
Qed.

Lemma step_vsn_mono st o : s_vsn st <= s_vsn (fst (step st o)).
Proof.
  destruct (table_op o) eqn:Ht.
  2:{ destruct (step_frame st o Ht) as (_ & -> & _). lia. }
  destruct o; try discriminate; cbn [step].
  - destruct (backend_write_cases st r) as [-> _]. lia.
  - destruct (store_write_cases st r vsn) as [[_ ->]|(_ & -> & _)]; cbn; lia.
  - destruct (store_delete_cases st k uid vsn) as [(ex & _ & _ & _ & ->)|(_ & ->)]; cbn; lia.
  - cbn. lia.
Qed.

Lemma run_vsn_mono ops : forall st, s_vsn st <= s_vsn (run st ops).
Proof. induction ops as [|o ops IH]; intros st; cbn; [lia|]. specialize (IH (fst (step st o))). pose proof (step_vsn_mono st o). lia. Qed.

Lemma run_app st a b : run st (a ++ b) = run (run st a) b.
Proof. revert st; induction a as [|o a IH]; intros st; cbn; [reflexivity|apply IH]. Qed.

(* the row of k after a backend step: unchanged, gone, or freshly written with version counter+1 *)
Lemma step_lookup_backend st o k : backend_op o = true ->
  lk k (fst (step st o)) = lk k st \/ lk k (fst (step st o)) = None
  \/ (exists r, lk k (fst (step st o)) = Some r /\ r_version r = s_vsn st + 1 /\ s_vsn (fst (step st o)) = s_vsn st + 1).
Proof.
  intros Hb. destruct (step_lookup st o k (backend_no_restore o Hb)) as [H|[H|(r & Hl & H)]]; auto.
  right; right. exists r. split; [exact Hl|]. destruct o; try contradiction; try discriminate.
  destruct H as (-> & _ & _). cbn [step]. destruct (backend_write_cases st r0) as [-> _]. cbn. auto.
Qed.

Lemma step_vb st o : backend_op o = true -> vb st -> vb (fst (step st o)).
Proof.
  intros Hb Hv k r Hl. pose proof (step_vsn_mono st o) as Hm.
  destruct (step_lookup_backend st o k Hb) as [H|[H|(r' & H & Hr & Hs)]]; rewrite H in Hl.
  - specialize (Hv k r Hl). lia.
  - discriminate.
  - injection Hl as <-. lia.
Qed.

Lemma run_vb ops : forall st, forallb backend_op ops = true -> vb st -> vb (run st ops).
Proof. induction ops as [|o ops IH]; intros st Hb Hv; cbn; [assumption|].
  cbn in Hb. apply andb_true_iff in Hb as [Ho Hb]. apply IH; [assumption|]. apply step_vb; assumption. Qed.

Lemma init_vb : vb init.
Proof. intros k r H. discriminate. Qed.

(* ---------- versions above a mark ---------- *)
(* every row of k (if any) has a version above v0, and so will every version handed out from now on *)
Definition above (k : rid) (v0 : N) (st : store) : Prop :=
  v0 <= s_vsn st /\ forall r, lk k st = Some r -> v0 < r_version r.

Lemma step_above k v0 st o : backend_op o = true -> above k v0 st -> above k v0 (fst (step st o)).
Proof.
  intros Hb [Hle Hr]. pose proof (step_vsn_mono st o) as Hmono. split; [lia|]. intros r Hl.
  destruct (step_lookup_backend st o k Hb) as [H|[H|(r' & H & Hv & _)]]; rewrite H in Hl.
  - auto.
  - discriminate.
  - injection Hl as <-. lia.
Qed.

Lemma run_above k v0 ops : forall st, forallb backend_op ops = true -> above k v0 st -> above k v0 (run st ops).
Proof. induction ops as [|o ops IH]; intros st Hb Ha; cbn; [assumption|].
  cbn in Hb. apply andb_true_iff in Hb as [Ho Hb]. apply IH; [assumption|]. apply step_above; assumption. Qed.

(* ---------- a row that disappears was deleted ---------- *)
Definition effective_delete (st : store) (o : op) (k : rid) : Prop :=
  (exists uid v, o = ODelete k uid v) /\ lk k st <> None /\ lk k (fst (step st o)) = None.

Lemma present_absent_delete k ops : forall st,
  forallb no_restore ops = true -> lk k st <> None -> lk k (run st ops) = None ->
  exists b1 d b2, ops = b1 ++ d :: b2 /\ effective_delete (run st b1) d k.
Proof.
  induction ops as [|o ops IH]; intros st Hnr Hp Ha; cbn in *; [contradiction|].
  apply andb_true_iff in Hnr as [Ho Hnr].
  destruct (lk k (fst (step st o))) eqn:E.
  - destruct (IH (fst (step st o)) Hnr) as (b1 & d & b2 & -> & Hd); [congruence|assumption|].
    exists (o :: b1), d, b2. split; [reflexivity|exact Hd].
  - exists [], o, ops. split; [reflexivity|]. cbn. split; [|split; assumption].
    destruct (step_lookup st o k Ho) as [H|[H|(r0 & H & _)]].
    + congruence.
    + destruct (table_op o) eqn:Ht.
      2:{ unfold lk in *. destruct (step_frame st o Ht) as [Hs _]. rewrite Hs in E. contradiction. }
      destruct o; try discriminate; cbn [step] in *.
      * destruct (backend_write_cases st r) as [_ [(_ & _ & Hr & _)|(_ & Hr & _)]]; unfold lk in *; rewrite Hr in E.
        -- destruct (rid_eqb k (r_id r)) eqn:Ek.
           ++ apply rid_eqb_eq in Ek. subst. rewrite (lookup_upsert_same (with_version r (s_vsn st + 1))) in E. discriminate.
           ++ apply rid_eqb_neq in Ek. rewrite lookup_upsert_other in E by assumption. contradiction.
        -- contradiction.
      * destruct (store_write_cases st r vsn) as [[_ He]|(_ & Hs & _)]; unfold lk in *.
        -- rewrite He in E. cbn in E. destruct (rid_eqb k (r_id r)) eqn:Ek.
           ++ apply rid_eqb_eq in Ek. subst. rewrite lookup_upsert_same in E. discriminate.
           ++ apply rid_eqb_neq in Ek. rewrite lookup_upsert_other in E by assumption. contradiction.
        -- rewrite Hs in E. contradiction.
      * destruct (rid_eqb k k0) eqn:Ek.
        -- apply rid_eqb_eq in Ek. subst. eauto.
        -- apply rid_eqb_neq in Ek. exfalso.
           destruct (store_delete_cases st k0 uid vsn) as [(ex & _ & _ & _ & He)|(_ & Hs)]; unfold lk in *.
           ++ rewrite He in E. cbn in E. rewrite lookup_remove_other in E by assumption. contradiction.
           ++ rewrite Hs in E. contradiction.
    + congruence.
Qed.

(* ================= C18_cas_exclusive ================= *)
Theorem cas_exclusive st a r1 b r2 x y :
  vb st -> forallb backend_op (a ++ OWrite r1 :: b) = true ->
  r_id r1 = r_id r2 -> r_version r1 = r_version r2 ->
  let s1 := run st a in
  let s1' := fst (step s1 (OWrite r1)) in
  let s2 := run s1' b in
  snd (step s1 (OWrite r1)) = OutRes x ->
  snd (step s2 (OWrite r2)) = OutRes y ->
  r_version r1 = 0 /\
  exists b1 d b2, b = b1 ++ d :: b2 /\ effective_delete (run s1' b1) d (r_id r1).
Proof.
  intros Hvb Hb Hid Hver s1 s1' s2 H1 H2.
  rewrite forallb_app in Hb. apply andb_true_iff in Hb as [Hba Hb]. cbn in Hb.
  pose proof Hb as Hbb.
  assert (Hv1 : vb s1) by (apply run_vb; assumption).
  cbn [step] in H1, H2.
  apply backend_write_out in H1 as (-> & Hacc1 & Hres1).
  apply backend_write_out in H2 as (-> & Hacc2 & _).
  assert (Hl1 : lk (r_id r1) s1' = Some (with_version r1 (s_vsn s1 + 1))).
  { unfold lk, s1'. cbn [step]. rewrite Hres1. apply (lookup_upsert_same (with_version r1 (s_vsn s1 + 1))). }
  assert (Hvs1' : s_vsn s1' = s_vsn s1 + 1).
  { unfold s1'. cbn [step]. destruct (backend_write_cases s1 r1) as [-> _]. reflexivity. }
  assert (Hv2 : vb s2).
  { apply run_vb; [assumption|]. apply step_vb; [reflexivity|assumption]. }
  unfold accept in Hacc1, Hacc2. cbn [r_id with_version] in Hacc1, Hacc2.
  destruct (N.eq_dec (r_version r1) 0) as [Hz|Hnz].
  - split; [assumption|].
    (* the second create found the id absent: a delete happened in between *)
    rewrite <- Hid in Hacc2. destruct (lk (r_id r1) s2) as [ex|] eqn:E2.
    + exfalso. destruct Hacc2 as [_ Hv]. specialize (Hv2 _ _ E2). lia.
    + apply (present_absent_delete (r_id r1) b s1'); [|congruence|exact E2].
      rewrite forallb_forall in *. intros o Ho. apply backend_no_restore. auto.
  - exfalso.
    (* after the first success every version of the id is above the presented one *)
    assert (Hab : above (r_id r1) (r_version r1) s1').
    { destruct (lk (r_id r1) s1) as [ex|] eqn:E1; [|contradiction].
      destruct Hacc1 as [_ Hv]. specialize (Hv1 _ _ E1). split; [lia|].
      intros r Hr. rewrite Hl1 in Hr. injection Hr as <-. cbn. lia. }
    apply (run_above _ _ b) in Hab; [|assumption]. fold s2 in Hab. destruct Hab as [_ Hab].
    rewrite <- Hid in Hacc2. destruct (lk (r_id r1) s2) as [ex|] eqn:E2.
    + destruct Hacc2 as [_ Hv]. specialize (Hab ex eq_refl). lia.
    + congruence.
Qed.

(* ================= C18_uid_stable ================= *)
(* a successful write leaves the uid of a stored row as it was *)
Theorem uid_write_keeps st r x ex :
  lk (r_id r) st = Some ex -> snd (step st (OWrite r)) = OutRes x -> r_uid x = r_uid ex /\ r_uid r = r_uid ex.
Proof.
  intros Hl H. cbn [step] in H. apply backend_write_out in H as (-> & Hacc & _).
  unfold accept in Hacc. cbn in Hacc. rewrite Hl in Hacc. destruct Hacc as [Hu _]. cbn. auto.
Qed.

(* a write carrying another uid is refused and changes nothing in the table *)
Theorem uid_mismatch_rejected st r ex :
  lk (r_id r) st = Some ex -> r_uid r <> r_uid ex ->
  snd (step st (OWrite r)) = OutErr EWrongUid /\ s_res (fst (step st (OWrite r))) = s_res st.
Proof.
  intros Hl Hn. cbn [step]. unfold backend_write.
  rewrite (store_write_wronguid (set_vsn st (s_vsn st + 1)) (with_version r (s_vsn st + 1)) (r_version r) ex);
    [split; reflexivity| exact Hl | cbn; congruence].
Qed.

Lemma step_uid st o k r r' : no_restore o = true ->
  lk k st = Some r -> lk k (fst (step st o)) = Some r' -> r_uid r' = r_uid r.
Proof.
  intros Hnr Hl Hl'. destruct (step_lookup st o k Hnr) as [H|[H|(x & H & Hx)]]; rewrite H in Hl'.
  - congruence.
  - discriminate.
  - injection Hl' as <-. destruct o; try contradiction.
    + destruct Hx as (-> & -> & Hacc). unfold accept in Hacc. cbn in Hacc. rewrite Hl in Hacc. cbn. symmetry; tauto.
    + destruct Hx as (-> & -> & Hacc). unfold accept in Hacc. rewrite Hl in Hacc. symmetry; tauto.
Qed.

(* over any restore-free run in which the id stays stored, its uid never changes *)
Theorem uid_stable k ops : forall st r r',
  forallb no_restore ops = true ->
  (forall p q, ops = p ++ q -> lk k (run st p) <> None) ->
  lk k st = Some r -> lk k (run st ops) = Some r' -> r_uid r' = r_uid r.
Proof.
  induction ops as [|o ops IH]; intros st r r' Hnr Hlive Hl Hl'; cbn in *; [congruence|].
  apply andb_true_iff in Hnr as [Ho Hnr].
  destruct (lk k (fst (step st o))) as [m|] eqn:E.
  - rewrite (IH (fst (step st o)) m r' Hnr); [eapply step_uid; eassumption| |exact E|exact Hl'].
    intros p q Hpq. specialize (Hlive (o :: p) q). cbn in Hlive. apply Hlive. congruence.
  - exfalso. apply (Hlive [o] ops eq_refl). exact E.
Qed.

(* ================= C18_new_lifetime ================= *)
(* once an id that carried version v_old has been absent, nothing presenting v_old is accepted again *)
Theorem new_lifetime st a b c r_old :
  vb st -> forallb backend_op (a ++ b ++ c) = true ->
  let k := r_id r_old in
  let s_i := run st a in
  let s_j := run s_i b in
  let s_m := run s_j c in
  lk k s_i = Some r_old -> lk k s_j = None ->
  (forall r, r_id r = k -> r_version r = r_version r_old ->
     (snd (step s_m (OWrite r)) = OutErr ECAS \/ snd (step s_m (OWrite r)) = OutErr EWrongUid) /\
     s_res (fst (step s_m (OWrite r))) = s_res s_m) /\
  (forall uid, s_res (fst (step s_m (ODelete k uid (r_version r_old)))) = s_res s_m).
Proof.
  intros Hvb Hb k s_i s_j s_m Hi Hj.
  rewrite !forallb_app in Hb. apply andb_true_iff in Hb as [Hba Hb]. apply andb_true_iff in Hb as [Hbb Hbc].
  assert (Hvi : vb s_i) by (apply run_vb; assumption).
  pose proof (Hvi _ _ Hi) as Hold.
  assert (Habove : above k (r_version r_old) s_m).
  { apply run_above; [assumption|]. split.
    - pose proof (run_vsn_mono b s_i). fold s_j in H. lia.
    - intros r Hr. congruence. }
  destruct Habove as [_ Hab]. split.
  - intros r Hk Hv. cbn [step].
    destruct (backend_write_cases s_m r) as [_ [(Hacc & _)|(_ & Hr & _ & Ho)]]; [exfalso|auto].
    unfold accept in Hacc. cbn in Hacc. rewrite Hk in Hacc. destruct (lk k s_m) as [ex|] eqn:E.
    + destruct Hacc as [_ He]. specialize (Hab ex eq_refl). lia.
    + lia.
  - intros uid. cbn [step].
    destruct (store_delete_cases s_m k uid (r_version r_old)) as [(ex & Hl & _ & Hv & _)|(_ & ->)]; [exfalso|reflexivity].
    specialize (Hab ex Hl). lia.
Qed.

(* a stale uid can neither write nor delete the new lifetime *)
Theorem stale_uid_powerless st k r_new uid :
  lk k st = Some r_new -> uid <> r_uid r_new ->
  (forall r, r_id r = k -> r_uid r = uid ->
     snd (step st (OWrite r)) = OutErr EWrongUid /\ s_res (fst (step st (OWrite r))) = s_res st) /\
  (forall v, step st (ODelete k uid v) = (st, OutOk)).
Proof.
  intros Hl Hn. split.
  - intros r Hk Hu. apply (uid_mismatch_rejected st r r_new); congruence.
  - intros v. cbn [step]. unfold store_delete. unfold lk in Hl. rewrite Hl.
    apply str_eqb_neq in Hn. rewrite Hn. reflexivity.
Qed.
