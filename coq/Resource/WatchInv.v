(* C18, part 2 (invariant): the relation between the store's publisher state, the ghost log of
   commits and what every watch has been given, for restore-free runs from a clean state. *)
From Verif Require Import Base.Prelude Resource.Model Resource.TableProofs Resource.CasProofs
     Resource.WatchDefs Resource.WatchLemmas.
Local Open Scope N_scope.

Section Inv.
  Variables (T0 : table) (i0 : N) (n0 : nat).
  (* T0, i0: table and event index of the clean state the run starts from; n0: watches it already has *)

  Fixpoint log_wf (i : N) (L : list cev) : Prop :=
    match L with
    | [] => True
    | c :: L' => fst c = i + 1 /\ ev_resource (snd c) <> None /\ log_wf (i + 1) L'
    end.

  Lemma log_wf_snoc L : forall i c, log_wf i (L ++ [c]) <->
    log_wf i L /\ fst c = i + N.of_nat (List.length L) + 1 /\ ev_resource (snd c) <> None.
  Proof.
    induction L as [|x L IH]; intros i c; cbn [app log_wf List.length].
    - rewrite N.add_0_r. tauto.
    - rewrite IH. replace (i + 1 + N.of_nat (List.length L) + 1) with (i + N.of_nat (S (List.length L)) + 1) by lia. tauto.
  Qed.

  Definition bounded (st : store) : Prop :=
    (forall b e, In b (s_queue st) -> In e b -> pe_idx e <= s_idx st) /\
    (forall s tb it e, buf_get s (s_bufs st) = Some tb -> In it (b_items tb) -> In e it -> pe_idx e <= s_idx st) /\
    (forall s sn, cache_get s (s_cache st) = Some sn ->
        sn_idx sn <= s_idx st /\ forall e, In e (sn_batch sn) -> pe_idx e <= s_idx st) /\
    (forall n w, nth_error (s_watches st) n = Some w -> w_state w = WOpen ->
        w_idx w <= s_idx st /\ forall e, In e (sn_batch (w_snap w)) -> pe_idx e <= s_idx st).

  Definition snap_ok (L : list cev) (s : subject) (sn : snapshot) (La : list cev) : Prop :=
    exists Lp, L = Lp ++ La /\ sn_idx sn = i0 + N.of_nat (List.length Lp) /\
               sn_batch sn = snapshot_batch s (sn_idx sn) (replay T0 Lp).

  Definition cache_ok (st : store) (L : list cev) : Prop :=
    forall s sn, cache_get s (s_cache st) = Some sn ->
      exists tb La, buf_get s (s_bufs st) = Some tb /\ (sn_pos sn <= List.length (b_items tb))%nat /\
        snap_ok L s sn La /\
        forall q, fut_raws q (sn_idx sn) (map RBatch (skipn (sn_pos sn) (b_items tb)) ++ qraws s (s_queue st))
                  = flat_map (contrib s q) La.

  Definition open_ok (st : store) (w : watch) (rest : list wev) : Prop :=
    exists tb, buf_get (w_subj w) (s_bufs st) = Some tb /\ w_freed w = false /\
      (w_pos w <= List.length (vstream (w_snap w) (b_items tb)))%nat /\
      (sn_pos (w_snap w) <= List.length (b_items tb))%nat /\
      rest = fut_raws (w_query w) (w_idx w)
               (skipn (w_pos w) (vstream (w_snap w) (b_items tb)) ++ qraws (w_subj w) (s_queue st)).

  Definition watch_ok (st : store) (L : list cev) (D : nat -> list wev) : Prop :=
    forall n w, nth_error (s_watches st) n = Some w -> (n0 <= n)%nat ->
      w_subj w = watch_subject (w_query w) /\
      exists La rest, snap_ok L (w_subj w) (w_snap w) La /\
        D n ++ evs (w_query w) (w_events w) ++ rest
          = evs (w_query w) (sn_batch (w_snap w)) ++ flat_map (contrib (w_subj w) (w_query w)) La /\
        (w_state w = WOpen -> open_ok st w rest).

  Definition old_ok (st : store) : Prop :=
    forall n w, nth_error (s_watches st) n = Some w -> (n < n0)%nat -> w_freed w = true /\ w_state w <> WOpen.

  Definition unfreed (s : subject) (w : watch) : bool := negb (w_freed w) && subject_eqb s (w_subj w).
  Definition count (s : subject) (ws : list watch) : nat := List.length (filter (unfreed s) ws).

  Definition refs_ok (st : store) : Prop :=
    (forall s tb, buf_get s (s_bufs st) = Some tb -> b_refs tb = count s (s_watches st)) /\
    (forall s, (0 < count s (s_watches st))%nat -> buf_get s (s_bufs st) <> None) /\
    (forall n w, nth_error (s_watches st) n = Some w -> w_state w = WOpen -> w_freed w = false).

  Definition queue_ok (st : store) (L : list cev) : Prop :=
    exists Lpub Lq, L = Lpub ++ Lq /\ s_queue st = map lbatch Lq.

  Definition table_ok (st : store) (L : list cev) : Prop :=
    s_res st = replay T0 L /\ s_idx st = i0 + N.of_nat (List.length L) /\ log_wf i0 L /\ 2 <= i0.

  Definition INV (st : store) (L : list cev) (D : nat -> list wev) : Prop :=
    table_ok st L /\ queue_ok st L /\ bounded st /\ cache_ok st L /\ watch_ok st L D /\ old_ok st /\
    refs_ok st /\ (n0 <= List.length (s_watches st))%nat /\
    (forall n, (List.length (s_watches st) <= n)%nat -> D n = []).

  (* the invariant does not look at the version counter *)
  Lemma INV_vsn st v L D : INV (set_vsn st v) L D <-> INV st L D.
  Proof. reflexivity. Qed.

  Lemma INV_ext st L D D' : (forall n, D' n = D n) -> INV st L D -> INV st L D'.
  Proof.
    intros He (Ht & Hq & Hb & Hc & Hw & Ho & Hr & Hn & Hd).
    unfold INV. repeat (split; [assumption|]). split; [|repeat (split; [assumption|])].
    - intros n w Hn' Hge. destruct (Hw n w Hn' Hge) as (Hs & La & rest & H1 & H2 & H3).
      split; [assumption|]. exists La, rest. rewrite He. auto.
    - intros n Hl. rewrite He. auto.
  Qed.

  Lemma replay_snoc L : forall t c, replay t (L ++ [c]) = replay (replay t L) [c].
  Proof. induction L as [|x L IH]; intros t c; [reflexivity|]. cbn [app replay]. destruct x as [i [r|r|]]; apply IH. Qed.

  Lemma snap_ok_snoc L s sn La c : snap_ok L s sn La -> snap_ok (L ++ [c]) s sn (La ++ [c]).
  Proof. intros (Lp & -> & H1 & H2). exists Lp. rewrite app_assoc. auto. Qed.

  Lemma flat_map_snoc {A B} (f : A -> list B) l x : flat_map f (l ++ [x]) = flat_map f l ++ f x.
  Proof. rewrite flat_map_app. cbn. rewrite app_nil_r. reflexivity. Qed.

  (* ---------- a commit ---------- *)
  Lemma INV_commit st L D e r T' :
    INV st L D -> ev_resource e = Some r ->
    T' = replay (s_res st) [(s_idx st + 1, e)] ->
    INV (set_res st T' (s_idx st + 1) (s_queue st ++ [commit_batch (s_idx st + 1) e r]))
        (L ++ [(s_idx st + 1, e)]) D.
  Proof.
    intros (Ht & Hq & Hb & Hc & Hw & Ho & Hr & Hn & Hd) He ->.
    destruct Ht as (Hres & Hidx & Hwf & Hi0).
    set (c := (s_idx st + 1, e)).
    assert (Hlb : lbatch c = commit_batch (s_idx st + 1) e r) by (unfold lbatch, c; cbn; rewrite He; reflexivity).
    destruct Hb as (Hb1 & Hb2 & Hb3 & Hb4).
    assert (Hnew : forall x, In x (commit_batch (s_idx st + 1) e r) -> pe_idx x <= s_idx st + 1).
    { intros x [<-|[<-|[]]]; cbn; lia. }
    (* what the new batch adds to any reader positioned with an index <= s_idx *)
    assert (Hadd : forall s q widx raws, widx <= s_idx st -> Forall (raw_le (s_idx st)) raws ->
              fut_raws q widx (raws ++ qraws s (s_queue st ++ [commit_batch (s_idx st + 1) e r]))
              = fut_raws q widx (raws ++ qraws s (s_queue st)) ++ contrib s q c).
    { intros s q widx raws Hle Hf. rewrite qraws_app, app_assoc, fut_raws_app.
      replace (qraws s [commit_batch (s_idx st + 1) e r]) with (qraw s (lbatch c))
        by (unfold qraws; cbn [flat_map]; rewrite app_nil_r, Hlb; reflexivity).
      assert (Hend : end_idx widx (raws ++ qraws s (s_queue st)) < fst c).
      { apply N.le_lt_trans with (s_idx st); [|unfold c; cbn; lia].
        apply end_idx_le; [assumption|]. apply Forall_app. split; [assumption|].
        apply raw_le_qraws. exact Hb1. }
      destruct (fut_raws_qraw_new s q _ c Hend) as [-> _]. reflexivity. }
    unfold INV, set_res.
    split; [|split; [|split; [|split; [|split]]]].
    - (* table *) unfold table_ok. cbn [s_res s_idx]. split; [|split; [|split]].
      + rewrite replay_snoc, <- Hres. reflexivity.
      + rewrite app_length. cbn [List.length]. lia.
      + apply log_wf_snoc. split; [assumption|]. unfold c. cbn [fst snd]. split; [lia|]. rewrite He. discriminate.
      + assumption.
    - (* queue *) destruct Hq as (Lpub & Lq & -> & Hqq). exists Lpub, (Lq ++ [c]). cbn [s_queue].
      split; [rewrite app_assoc; reflexivity|]. rewrite map_app, Hqq. cbn [map]. rewrite Hlb. reflexivity.
    - (* bounded *) unfold bounded. cbn [s_queue s_idx s_bufs s_cache s_watches]. split; [|split; [|split]].
      + intros b x Hin Hx. apply in_app_iff in Hin as [Hin|[<-|[]]]; [specialize (Hb1 b x Hin Hx); lia|auto].
      + intros s tb it x H1 H2 H3. specialize (Hb2 s tb it x H1 H2 H3). lia.
      + intros s sn H1. destruct (Hb3 s sn H1) as [H2 H3]. split; [lia|]. intros x Hx. specialize (H3 x Hx). lia.
      + intros n w H1 H2. destruct (Hb4 n w H1 H2) as [H3 H4]. split; [lia|]. intros x Hx. specialize (H4 x Hx). lia.
    - (* cache *) intros s sn Hg. destruct (Hc s sn Hg) as (tb & La & Hbuf & Hpos & Hsn & Hfut).
      exists tb, (La ++ [c]). cbn [s_bufs s_queue]. split; [assumption|]. split; [assumption|].
      split; [apply snap_ok_snoc; assumption|]. intros q. rewrite flat_map_snoc, <- Hfut.
      apply Hadd; [apply (Hb3 s sn Hg)|].
      apply Forall_forall. intros x Hx. apply in_map_iff in Hx as (it & <- & Hit). cbn. intros y Hy.
      apply (Hb2 s tb it y Hbuf); [|assumption]. eapply In_skipn. eassumption.
    - (* watches *) intros n w Hn' Hge. destruct (Hw n w Hn' Hge) as (Hs & La & rest & Hsn & Heq & Hop).
      split; [assumption|]. destruct (w_state w) eqn:Est.
      + destruct (Hop eq_refl) as (tb & Hbuf & Hfr & Hpos & Hsp & ->).
        exists (La ++ [c]). eexists. split; [apply snap_ok_snoc; assumption|]. split.
        2:{ intros _. exists tb. cbn [s_bufs s_queue]. repeat (split; [assumption|]). reflexivity. }
        rewrite flat_map_snoc, !app_assoc, <- (app_assoc (D n)), <- Heq, Hadd.
        * rewrite !app_assoc. reflexivity.
        * apply (Hb4 n w Hn' Est).
        * apply Forall_forall. intros x Hx. apply In_skipn in Hx. unfold vstream in Hx.
          destruct Hx as [<-|[<-|Hx]]; cbn; [apply (Hb4 n w Hn' Est)|exact I|].
          apply in_map_iff in Hx as (it & <- & Hit). cbn. intros y Hy.
          apply (Hb2 _ tb it y Hbuf); [|assumption]. eapply In_skipn. eassumption.
      + exists (La ++ [c]), (rest ++ contrib (w_subj w) (w_query w) c). split; [apply snap_ok_snoc; assumption|].
        split; [|discriminate]. rewrite flat_map_snoc, !app_assoc, <- (app_assoc (D n)), <- Heq, !app_assoc. reflexivity.
      + exists (La ++ [c]), (rest ++ contrib (w_subj w) (w_query w) c). split; [apply snap_ok_snoc; assumption|].
        split; [|discriminate]. rewrite flat_map_snoc, !app_assoc, <- (app_assoc (D n)), <- Heq, !app_assoc. reflexivity.
    - split; [exact Ho|]. split; [exact Hr|]. split; [exact Hn|exact Hd].
  Qed.

  (* ---------- publishing one batch ---------- *)
  Definition pub_tb (s : subject) (b : batch) (tb : tbuf) : tbuf :=
    match route s b with [] => tb | g => TBuf (b_refs tb) (b_items tb ++ [g]) end.

  Lemma pub_tb_refs s b tb : b_refs (pub_tb s b tb) = b_refs tb.
  Proof. unfold pub_tb. destruct (route s b); reflexivity. Qed.

  Lemma pub_tb_len s b tb : (List.length (b_items tb) <= List.length (b_items (pub_tb s b tb)))%nat.
  Proof. unfold pub_tb. destruct (route s b); cbn; [lia|]. rewrite app_length. cbn. lia. Qed.

  Lemma pub_tb_items s b tb q' p : (p <= List.length (b_items tb))%nat ->
    map RBatch (skipn p (b_items (pub_tb s b tb))) ++ qraws s q'
    = map RBatch (skipn p (b_items tb)) ++ qraws s (b :: q').
  Proof.
    intros Hp. unfold pub_tb, qraws. cbn [flat_map]. unfold qraw at 2. destruct (route s b) as [|g0 g]; [reflexivity|].
    cbn [b_items]. rewrite skipn_app_le by assumption. rewrite map_app, <- app_assoc. reflexivity.
  Qed.

  Lemma pub_tb_vstream s b tb q' sn wp : (sn_pos sn <= List.length (b_items tb))%nat ->
    (wp <= List.length (vstream sn (b_items tb)))%nat ->
    skipn wp (vstream sn (b_items (pub_tb s b tb))) ++ qraws s q'
    = skipn wp (vstream sn (b_items tb)) ++ qraws s (b :: q') /\
    (wp <= List.length (vstream sn (b_items (pub_tb s b tb))))%nat.
  Proof.
    intros Hsp Hwp. unfold pub_tb, qraws. cbn [flat_map]. unfold qraw at 2. destruct (route s b) as [|g0 g]; [auto|].
    cbn [b_items]. unfold vstream in *. rewrite skipn_app_le by assumption. rewrite map_app.
    change (RBatch (sn_batch sn) :: RFrame :: map RBatch (skipn (sn_pos sn) (b_items tb)) ++ map RBatch [g0 :: g])
      with ((RBatch (sn_batch sn) :: RFrame :: map RBatch (skipn (sn_pos sn) (b_items tb))) ++ [RBatch (g0 :: g)]).
    rewrite skipn_app_le by assumption. rewrite <- app_assoc. split; [reflexivity|]. rewrite app_length. lia.
  Qed.

  Lemma in_pub_tb s b tb it : In it (b_items (pub_tb s b tb)) -> In it (b_items tb) \/ it = route s b.
  Proof. unfold pub_tb. destruct (route s b) eqn:E; [auto|]. cbn. intros H. apply in_app_iff in H as [H|[<-|[]]]; auto. Qed.

  Lemma INV_publish st L D b q' :
    INV st L D -> s_queue st = b :: q' ->
    INV (Store (s_res st) (s_idx st) (s_vsn st) (s_stale st) q' (publish_batch b (s_bufs st)) (s_cache st) (s_watches st)) L D.
  Proof.
    intros (Ht & Hq & Hb & Hc & Hw & Ho & Hr & Hn & Hd) Hqe.
    assert (Hget : forall s, buf_get s (publish_batch b (s_bufs st)) = option_map (pub_tb s b) (buf_get s (s_bufs st))).
    { intros s. rewrite buf_get_publish. destruct (buf_get s (s_bufs st)); reflexivity. }
    destruct Hb as (Hb1 & Hb2 & Hb3 & Hb4).
    unfold INV. split; [exact Ht|]. split; [|split; [|split; [|split; [|split; [|split]]]]].
    - destruct Hq as (Lpub & Lq & -> & Hqq). rewrite Hqe in Hqq. destruct Lq as [|c Lq]; [discriminate|].
      cbn in Hqq. injection Hqq as _ Hqq. exists (Lpub ++ [c]), Lq. cbn [s_queue]. rewrite <- app_assoc. auto.
    - unfold bounded. cbn [s_queue s_idx s_bufs s_cache s_watches]. split; [|split; [|split]].
      + intros x e Hin. apply Hb1. rewrite Hqe. right; assumption.
      + intros s tb' it e Hg Hit He. rewrite Hget in Hg. destruct (buf_get s (s_bufs st)) as [tb|] eqn:E; [|discriminate].
        injection Hg as <-. apply in_pub_tb in Hit as [Hit| ->].
        * eapply Hb2; eassumption.
        * apply (Hb1 b e); [rewrite Hqe; left; reflexivity|]. unfold route in He. apply filter_In in He. tauto.
      + exact Hb3.
      + exact Hb4.
    - intros s sn Hg. destruct (Hc s sn Hg) as (tb & La & Hbuf & Hpos & Hsn & Hfut).
      exists (pub_tb s b tb), La. cbn [s_bufs s_queue]. rewrite Hget, Hbuf. split; [reflexivity|].
      split; [pose proof (pub_tb_len s b tb); lia|]. split; [assumption|].
      intros q. rewrite pub_tb_items by assumption. rewrite <- Hqe. apply Hfut.
    - intros n w Hn' Hge. destruct (Hw n w Hn' Hge) as (Hs & La & rest & Hsn & Heq & Hop).
      split; [assumption|]. exists La, rest. split; [assumption|]. split; [assumption|].
      intros Est. destruct (Hop Est) as (tb & Hbuf & Hfr & Hpos & Hsp & ->).
      exists (pub_tb (w_subj w) b tb). cbn [s_bufs s_queue]. rewrite Hget, Hbuf. split; [reflexivity|]. split; [assumption|].
      destruct (pub_tb_vstream (w_subj w) b tb q' (w_snap w) (w_pos w) Hsp Hpos) as [He Hl].
      split; [assumption|]. split; [pose proof (pub_tb_len (w_subj w) b tb); lia|]. rewrite He, <- Hqe. reflexivity.
    - exact Ho.
    - destruct Hr as (Hr1 & Hr2 & Hr3). unfold refs_ok. cbn [s_bufs s_watches]. split; [|split].
      + intros s tb' Hg. rewrite Hget in Hg. destruct (buf_get s (s_bufs st)) as [tb|] eqn:E; [|discriminate].
        injection Hg as <-. rewrite pub_tb_refs. auto.
      + intros s Hc0. rewrite Hget. specialize (Hr2 s Hc0). destruct (buf_get s (s_bufs st)); [discriminate|contradiction].
      + exact Hr3.
    - split; [exact Hn|exact Hd].
  Qed.

  (* ---------- the cache timer ---------- *)
  Lemma cache_get_del_some s s' l sn : cache_get s' (cache_del s l) = Some sn -> cache_get s' l = Some sn.
  Proof.
    destruct (subject_eqb s' s) eqn:E.
    - apply subject_eqb_eq in E. subst. rewrite cache_get_del_same. discriminate.
    - apply subject_eqb_neq in E. rewrite cache_get_del_other by assumption. auto.
  Qed.

  Lemma INV_evict st L D s :
    INV st L D ->
    INV (Store (s_res st) (s_idx st) (s_vsn st) (s_stale st) (s_queue st) (s_bufs st) (cache_del s (s_cache st)) (s_watches st)) L D.
  Proof.
    intros (Ht & Hq & Hb & Hc & Hw & Ho & Hr & Hn & Hd).
    unfold INV. split; [exact Ht|]. split; [exact Hq|]. split; [|split; [|split; [|split; [|split]]]]; try assumption.
    - destruct Hb as (Hb1 & Hb2 & Hb3 & Hb4). unfold bounded. cbn [s_queue s_idx s_bufs s_cache s_watches].
      repeat (split; [assumption|]). split; [|assumption]. intros s' sn Hg. apply Hb3 with s'. eapply cache_get_del_some; eassumption.
    - intros s' sn Hg. apply cache_get_del_some in Hg. exact (Hc s' sn Hg).
    - split; assumption.
  Qed.

  (* ---------- changing one watch (Next) ---------- *)
  Lemma count_set_nth s n w w' ws : nth_error ws n = Some w ->
    w_freed w' = w_freed w -> w_subj w' = w_subj w -> count s (set_nth n w' ws) = count s ws.
  Proof.
    intros H Hf Hs. unfold count. pose proof (filter_length_set_nth (unfreed s) n w' w ws H) as E.
    assert (unfreed s w' = unfreed s w) as Hu by (unfold unfreed; rewrite Hf, Hs; reflexivity).
    rewrite Hu in E. lia.
  Qed.

  Lemma set_watch_frame st L D D' n w w' :
    INV st L D -> nth_error (s_watches st) n = Some w ->
    w_subj w' = w_subj w -> w_query w' = w_query w -> w_state w' = w_state w ->
    w_freed w' = w_freed w -> w_snap w' = w_snap w ->
    (w_state w = WOpen -> w_idx w' <= s_idx st) ->
    (forall m, m <> n -> D' m = D m) ->
    ((n0 <= n)%nat -> exists La rest, snap_ok L (w_subj w) (w_snap w) La /\
        D' n ++ evs (w_query w) (w_events w') ++ rest
          = evs (w_query w) (sn_batch (w_snap w)) ++ flat_map (contrib (w_subj w) (w_query w)) La /\
        (w_state w = WOpen -> open_ok st w' rest)) ->
    INV (set_watch st n w') L D'.
  Proof.
    intros (Ht & Hq & Hb & Hc & Hw & Ho & Hr & Hn & Hd) Hnth Hsu Hqu Hst Hfr Hsn Hidx HD Hwn.
    assert (Hlt : (n < List.length (s_watches st))%nat) by (apply nth_error_Some; congruence).
    unfold INV, set_watch. change (firstn n (s_watches st) ++ w' :: skipn (S n) (s_watches st)) with (set_nth n w' (s_watches st)).
    split; [exact Ht|]. split; [exact Hq|]. split; [|split; [exact Hc|split; [|split; [|split; [|split]]]]].
    - destruct Hb as (Hb1 & Hb2 & Hb3 & Hb4). unfold bounded. cbn [s_queue s_idx s_bufs s_cache s_watches].
      repeat (split; [assumption|]). intros m x Hm Hx. rewrite (nth_error_set_nth n m w' w _ Hnth) in Hm.
      destruct (Nat.eqb m n) eqn:E; [|eauto]. injection Hm as <-. rewrite Hst in Hx. rewrite Hsn. split; [auto|]. apply (Hb4 n w Hnth Hx).
    - intros m x Hm Hge. cbn [s_watches] in Hm. rewrite (nth_error_set_nth n m w' w _ Hnth) in Hm.
      destruct (Nat.eqb m n) eqn:E.
      + apply Nat.eqb_eq in E. subst m. injection Hm as <-. destruct (Hw n w Hnth Hge) as (Hs & _).
        destruct (Hwn Hge) as (La & rest & H1 & H2 & H3). rewrite Hsu, Hqu, Hsn, Hst. split; [assumption|]. exists La, rest.
        split; [assumption|]. split; [assumption|]. intros Eo. specialize (H3 Eo). unfold open_ok in *. cbn [s_bufs s_queue]. exact H3.
      + apply Nat.eqb_neq in E. rewrite (HD m E). destruct (Hw m x Hm Hge) as (Hs & La & rest & H1 & H2 & H3).
        split; [assumption|]. exists La, rest. split; [assumption|]. split; [assumption|]. intros Eo. exact (H3 Eo).
    - intros m x Hm Hl. cbn [s_watches] in Hm. rewrite (nth_error_set_nth n m w' w _ Hnth) in Hm.
      destruct (Nat.eqb m n) eqn:E; [|eauto]. apply Nat.eqb_eq in E. subst m. injection Hm as <-.
      rewrite Hfr, Hst. exact (Ho n w Hnth Hl).
    - destruct Hr as (Hr1 & Hr2 & Hr3). unfold refs_ok. cbn [s_bufs s_watches]. split; [|split].
      + intros s tb Hg. rewrite (count_set_nth s n w w' _ Hnth Hfr Hsu). auto.
      + intros s. rewrite (count_set_nth s n w w' _ Hnth Hfr Hsu). auto.
      + intros m x Hm Hx. rewrite (nth_error_set_nth n m w' w _ Hnth) in Hm.
        destruct (Nat.eqb m n) eqn:E; [|eauto]. injection Hm as <-. rewrite Hfr. rewrite Hst in Hx. eauto.
    - cbn [s_watches]. rewrite (length_set_nth n w' w _ Hnth). exact Hn.
    - cbn [s_watches]. rewrite (length_set_nth n w' w _ Hnth). intros m Hm. rewrite HD by lia. auto.
  Qed.

  Definition next_D (D : nat -> list wev) (n : nat) (o : out) : nat -> list wev :=
    fun m => D m ++ match o with OutEvent e => if Nat.eqb m n then [e] else [] | _ => [] end.

  Lemma raws_bounded st n w tb :
    bounded st -> nth_error (s_watches st) n = Some w -> w_state w = WOpen ->
    buf_get (w_subj w) (s_bufs st) = Some tb ->
    Forall (raw_le (s_idx st)) (skipn (w_pos w) (vstream (w_snap w) (b_items tb))).
  Proof.
    intros (Hb1 & Hb2 & Hb3 & Hb4) Hn Ho Hg. apply Forall_forall. intros x Hx. apply In_skipn in Hx.
    destruct Hx as [<-|[<-|Hx]]; cbn; [apply (Hb4 n w Hn Ho)|exact I|].
    apply in_map_iff in Hx as (it & <- & Hit). cbn. intros y Hy.
    apply (Hb2 _ tb it y Hg); [|assumption]. eapply In_skipn. eassumption.
  Qed.

  Lemma INV_next st L D n :
    INV st L D -> INV (fst (watch_next st n)) L (next_D D n (snd (watch_next st n))).
  Proof.
    intros HI. unfold watch_next. destruct (nth_error (s_watches st) n) as [w|] eqn:Hnth.
    2:{ cbn [fst snd]. apply (INV_ext st L D); [|assumption]. intros m. unfold next_D. apply app_nil_r. }
    pose proof HI as (Ht & Hq & Hb & Hc & Hw & Ho & Hr & Hn & Hd).
    destruct (drain (w_query w) (w_events w)) as [[e rest']|] eqn:Ed.
    - (* an event kept from an earlier batch *)
      cbn [fst snd]. eapply set_watch_frame; try eassumption; try reflexivity.
      + cbn. intros Eo. destruct Hb as (_ & _ & _ & Hb4). apply (Hb4 n w Hnth Eo).
      + intros m Hm. unfold next_D. apply Nat.eqb_neq in Hm. rewrite Hm. apply app_nil_r.
      + intros Hge. destruct (Hw n w Hnth Hge) as (Hs & La & rest & H1 & H2 & H3). exists La, rest.
        split; [assumption|]. cbn [w_events]. unfold next_D. rewrite Nat.eqb_refl.
        rewrite (drain_some _ _ _ _ Ed) in H2. rewrite <- H2. split; [rewrite <- !app_assoc; reflexivity|].
        intros Eo. destruct (H3 Eo) as (tb & G1 & G2 & G3 & G4 & G5). exists tb. cbn. auto.
    - pose proof (drain_none _ _ Ed) as Hev.
      destruct (w_state w) eqn:Est.
      + (* open: read the subscription *)
        assert (Hfr : w_freed w = false) by (destruct Hr as (_ & _ & Hr3); eauto).
        destruct Hr as (Hr1 & Hr2 & Hr3).
        assert (Hbuf : exists tb, buf_get (w_subj w) (s_bufs st) = Some tb).
        { destruct (buf_get (w_subj w) (s_bufs st)) eqn:E; [eauto|]. exfalso. apply (Hr2 (w_subj w)); [|exact E].
          unfold count. destruct (set_nth_split n w w _ Hnth) as (l1 & l2 & -> & _ & _).
          rewrite filter_app, app_length. cbn [filter]. unfold unfreed at 2. rewrite Hfr, subject_eqb_refl. cbn. lia. }
        destruct Hbuf as (tb & Hbuf). unfold watch_items. rewrite Hbuf.
        set (raws := skipn (w_pos w) (vstream (w_snap w) (b_items tb))).
        pose proof (raws_bounded st n w tb Hb Hnth Est Hbuf) as Hrb. fold raws in Hrb.
        assert (Hwi : w_idx w <= s_idx st) by (destruct Hb as (_ & _ & _ & Hb4); apply (Hb4 n w Hnth Est)).
        destruct (scan_raws (w_query w) (w_idx w) raws 0) as [[widx' k] res] eqn:Es.
        pose proof (scan_raws_idx _ _ _ _ _ _ _ _ Es Hwi Hrb) as Hwi'.
        destruct res as [[e rest']|]; cbn [fst snd].
        * eapply set_watch_frame; try eassumption; try reflexivity; try (cbn [w_state]; congruence).
          -- cbn. auto.
          -- intros m Hm. unfold next_D. apply Nat.eqb_neq in Hm. rewrite Hm. apply app_nil_r.
          -- intros Hge. destruct (Hw n w Hnth Hge) as (Hs & La & rest & H1 & H2 & H3). rewrite Est in *.
             destruct (H3 eq_refl) as (tb' & G1 & G2 & G3 & G4 & G5). rewrite Hbuf in G1. injection G1 as <-.
             destruct (scan_raws_spec _ _ _ _ _ _ _ (qraws (w_subj w) (s_queue st)) Es) as (c & -> & Hc' & Hres).
             fold raws in G5. rewrite Hres in G5. exists La. eexists. split; [assumption|]. split.
             ++ cbn [w_events]. unfold next_D. rewrite Nat.eqb_refl. rewrite Hev in H2. cbn [app] in H2.
                rewrite <- H2, G5. rewrite <- !app_assoc. cbn [app]. reflexivity.
             ++ intros _. exists tb. cbn [w_subj w_freed w_pos w_snap w_query w_idx]. split; [assumption|]. split; [assumption|].
                unfold raws in Hc'. rewrite skipn_length in Hc'. split; [lia|]. split; [assumption|].
                cbn [plus]. rewrite skipn_add. reflexivity.
        * eapply set_watch_frame; try eassumption; try reflexivity; try (cbn [w_state]; congruence).
          -- cbn. auto.
          -- intros m Hm. unfold next_D. apply app_nil_r.
          -- intros Hge. destruct (Hw n w Hnth Hge) as (Hs & La & rest & H1 & H2 & H3). rewrite Est in *.
             destruct (H3 eq_refl) as (tb' & G1 & G2 & G3 & G4 & G5). rewrite Hbuf in G1. injection G1 as <-.
             destruct (scan_raws_spec _ _ _ _ _ _ _ (qraws (w_subj w) (s_queue st)) Es) as (c & -> & Hc' & -> & Hres).
             fold raws in G5. rewrite Hres in G5. exists La. eexists. split; [assumption|]. split.
             ++ cbn [w_events]. unfold next_D. rewrite app_nil_r. unfold evs at 1. cbn [filter map app].
                rewrite Hev in H2. cbn [app] in H2. rewrite <- H2, G5. reflexivity.
             ++ intros _. exists tb. cbn [w_subj w_freed w_pos w_snap w_query w_idx]. split; [assumption|]. split; [assumption|].
                split; [unfold raws; rewrite skipn_length; lia|]. split; [assumption|].
                cbn [plus]. rewrite skipn_add. fold raws. rewrite skipn_all. reflexivity.
      + (* force-closed *)
        cbn [fst snd]. eapply set_watch_frame; try eassumption; try reflexivity; try (cbn [w_state]; congruence).
        * intros m Hm. unfold next_D. apply app_nil_r.
        * intros Hge. destruct (Hw n w Hnth Hge) as (Hs & La & rest & H1 & H2 & H3). exists La, rest.
          split; [assumption|]. cbn [w_events]. unfold next_D. rewrite app_nil_r. rewrite Hev in H2. split; [exact H2|]. congruence.
      + cbn [fst snd]. eapply set_watch_frame; try eassumption; try reflexivity; try (cbn [w_state]; congruence).
        * intros m Hm. unfold next_D. apply app_nil_r.
        * intros Hge. destruct (Hw n w Hnth Hge) as (Hs & La & rest & H1 & H2 & H3). exists La, rest.
          split; [assumption|]. cbn [w_events]. unfold next_D. rewrite app_nil_r. rewrite Hev in H2. split; [exact H2|]. congruence.
  Qed.

  (* ---------- opening a watch ---------- *)
  Lemma last_some_in {A} (l : list A) x : last (map Some l) None = Some x -> In x l.
  Proof.
    induction l as [|y l IH]; cbn; [discriminate|]. destruct l as [|z l].
    - cbn. intros H; injection H as <-. auto.
    - intros H. right. apply IH. exact H.
  Qed.

  Lemma splice_pos_all items idx :
    (forall it e, In it items -> In e it -> pe_idx e <= idx) -> splice_pos items idx = List.length items.
  Proof.
    intros H. unfold splice_pos, batch in *. destruct (last (map Some items) None) as [it|] eqn:E.
    - apply last_some_in in E. destruct it as [|e0 b]; cbn; [reflexivity|].
      assert (pe_idx e0 <= idx) as Hle by (apply (H _ e0 E); left; reflexivity).
      assert (N.ltb idx (pe_idx e0) = false) as -> by (apply N.ltb_ge; lia). reflexivity.
    - destruct items as [|y l]; [reflexivity|]. exfalso. clear H. revert y E. induction l as [|z l IH]; intros y; cbn; [discriminate|]. apply IH.
  Qed.

  Lemma snapshot_batch_head s i t : exists e0 b, snapshot_batch s i t = e0 :: b /\ pe_idx e0 = i.
  Proof.
    unfold snapshot_batch. destruct (list_txn (subject_query s) t) as [|r l]; cbn; eauto.
  Qed.

  Lemma snapshot_batch_idx s i t e : In e (snapshot_batch s i t) -> pe_idx e = i.
  Proof.
    unfold snapshot_batch. intros H. apply in_app_iff in H as [H|[<-|[]]]; [|reflexivity].
    apply in_map_iff in H as (r & <- & _). reflexivity.
  Qed.

  Lemma count_app s a b : count s (a ++ b) = (count s a + count s b)%nat.
  Proof. unfold count. rewrite filter_app, app_length. reflexivity. Qed.

  Lemma INV_open st L D q :
    INV st L D -> INV (fst (watch_open st q)) L D.
  Proof.
    intros (Ht & Hq & Hb & Hc & Hw & Ho & Hr & Hn & Hd).
    destruct Hb as (Hb1 & Hb2 & Hb3 & Hb4). destruct Hr as (Hr1 & Hr2 & Hr3).
    destruct Ht as (Hres & Hidx & Hwf & Hi0).
    unfold watch_open. set (s := watch_subject q).
    set (tb0 := match buf_get s (s_bufs st) with Some b => b | None => TBuf 0 [] end).
    set (tb' := TBuf (S (b_refs tb0)) (b_items tb0)).
    assert (Htb0 : forall tb, buf_get s (s_bufs st) = Some tb -> tb0 = tb) by (intros tb E; unfold tb0; rewrite E; reflexivity).
    assert (Hitems0 : forall it e, In it (b_items tb0) -> In e it -> pe_idx e <= s_idx st).
    { unfold tb0. destruct (buf_get s (s_bufs st)) as [tb|] eqn:E; [|intros it e []]. intros it e. apply (Hb2 s tb it e E). }
    (* the buffers after the open, seen through buf_get *)
    assert (Hget : forall s', buf_get s' (buf_set s tb' (s_bufs st)) = if subject_eqb s' s then Some tb' else buf_get s' (s_bufs st)).
    { intros s'. destruct (subject_eqb s' s) eqn:E.
      - apply subject_eqb_eq in E. subst. apply buf_get_set_same.
      - apply subject_eqb_neq in E. apply buf_get_set_other. exact E. }
    assert (Hsame : forall s' tb, buf_get s' (s_bufs st) = Some tb ->
              exists tb2, buf_get s' (buf_set s tb' (s_bufs st)) = Some tb2 /\ b_items tb2 = b_items tb).
    { intros s' tb E. rewrite Hget. destruct (subject_eqb s' s) eqn:E2; [|eauto].
      apply subject_eqb_eq in E2. subst s'. exists tb'. split; [reflexivity|]. cbn. rewrite (Htb0 tb E). reflexivity. }
    (* the snapshot the new watch starts on *)
    set (fresh := Snap (s_idx st) (snapshot_batch s (s_idx st) (s_res st)) (splice_pos (b_items tb0) (s_idx st))).
    set (snap := match cache_get s (s_cache st) with Some sn => sn | None => fresh end).
    set (cache' := match cache_get s (s_cache st) with Some sn => s_cache st | None => s_cache st ++ [(s, fresh)] end).
    assert (Hst' : fst (let '(snap0, cache0) := match cache_get s (s_cache st) with
                                 | Some sn => (sn, s_cache st)
                                 | None => (fresh, s_cache st ++ [(s, fresh)]) end in
                   (Store (s_res st) (s_idx st) (s_vsn st) (s_stale st) (s_queue st) (buf_set s tb' (s_bufs st)) cache0
                          (s_watches st ++ [Watch s q WOpen false snap0 0 [] 0]), OutWatch (List.length (s_watches st))))
                 = Store (s_res st) (s_idx st) (s_vsn st) (s_stale st) (s_queue st) (buf_set s tb' (s_bufs st)) cache'
                         (s_watches st ++ [Watch s q WOpen false snap 0 [] 0])).
    { unfold snap, cache'. destruct (cache_get s (s_cache st)); reflexivity. }
    fold s tb0 tb' fresh. rewrite Hst'. clear Hst'.
    (* cache entries after the open *)
    assert (Hfresh_pos : sn_pos fresh = List.length (b_items tb0)) by (apply splice_pos_all; exact Hitems0).
    assert (Hcache' : forall s' sn, cache_get s' cache' = Some sn ->
              cache_get s' (s_cache st) = Some sn \/ (s' = s /\ sn = fresh /\ cache_get s (s_cache st) = None)).
    { intros s' sn. unfold cache'. destruct (cache_get s (s_cache st)) eqn:E; [auto|].
      rewrite (cache_get_app_new s s' fresh _ E). destruct (subject_eqb s' s) eqn:E2; [|auto].
      apply subject_eqb_eq in E2. subst s'. rewrite E. intros H; injection H as <-. auto. }
    assert (Hcok : forall s' sn, cache_get s' cache' = Some sn ->
              exists tb La, buf_get s' (buf_set s tb' (s_bufs st)) = Some tb /\ (sn_pos sn <= List.length (b_items tb))%nat /\
                snap_ok L s' sn La /\
                forall q0, fut_raws q0 (sn_idx sn) (map RBatch (skipn (sn_pos sn) (b_items tb)) ++ qraws s' (s_queue st))
                           = flat_map (contrib s' q0) La).
    { intros s' sn Hg. destruct (Hcache' s' sn Hg) as [Hold|(-> & -> & Hnone)].
      - destruct (Hc s' sn Hold) as (tb & La & Hbuf & Hpos & Hsn & Hfut).
        destruct (Hsame s' tb Hbuf) as (tb2 & Hb2' & Hit). exists tb2, La. rewrite Hit. auto.
      - exists tb', []. rewrite Hget, subject_eqb_refl. split; [reflexivity|]. cbn [b_items tb'].
        split; [rewrite Hfresh_pos; lia|]. split.
        + exists L. rewrite app_nil_r. split; [reflexivity|]. cbn [fresh sn_idx sn_batch]. split; [exact Hidx|]. rewrite Hres. reflexivity.
        + intros q0. rewrite Hfresh_pos, skipn_all. cbn [map app flat_map fresh sn_idx].
          apply fut_raws_all_le. apply raw_le_qraws. exact Hb1. }
    assert (Hsnap : cache_get s cache' = Some snap).
    { unfold cache', snap. destruct (cache_get s (s_cache st)) eqn:E; [exact E|].
      rewrite (cache_get_app_new s s fresh _ E), subject_eqb_refl, E. reflexivity. }
    assert (Hsnap_b : sn_idx snap <= s_idx st /\ forall e, In e (sn_batch snap) -> pe_idx e <= s_idx st).
    { unfold snap. destruct (cache_get s (s_cache st)) eqn:E; [exact (Hb3 s _ E)|]. cbn. split; [lia|].
      intros e He. apply snapshot_batch_idx in He. lia. }
    assert (Hcount : forall s', count s' (s_watches st ++ [Watch s q WOpen false snap 0 [] 0])
                       = (count s' (s_watches st) + if subject_eqb s' s then 1 else 0)%nat).
    { intros s'. rewrite count_app. unfold count at 2. cbn [filter]. unfold unfreed. cbn [w_freed w_subj negb andb].
      destruct (subject_eqb s' s); reflexivity. }
    unfold INV. split; [|split; [|split; [|split; [|split; [|split; [|split; [|split]]]]]]].
    - unfold table_ok. cbn. auto.
    - exact Hq.
    - unfold bounded. cbn [s_queue s_idx s_bufs s_cache s_watches]. split; [exact Hb1|]. split; [|split].
      + intros s' tb it e Hg. rewrite Hget in Hg. destruct (subject_eqb s' s) eqn:E; [|eauto].
        injection Hg as <-. cbn [tb' b_items]. apply Hitems0.
      + intros s' sn Hg. destruct (Hcache' s' sn Hg) as [Hold|(-> & -> & _)]; [eauto|]. cbn. split; [lia|].
        intros e He. apply snapshot_batch_idx in He. lia.
      + intros n w Hn' Ho'. destruct (Nat.lt_ge_cases n (List.length (s_watches st))) as [Hlt|Hge].
        * rewrite nth_error_app1 in Hn' by assumption. eauto.
        * rewrite nth_error_app2 in Hn' by assumption. destruct (n - List.length (s_watches st))%nat as [|k]; [|destruct k; discriminate].
          injection Hn' as <-. cbn [w_idx w_snap]. split; [lia|apply Hsnap_b].
    - exact Hcok.
    - intros n w Hn' Hge. cbn [s_watches] in Hn'. destruct (Nat.lt_ge_cases n (List.length (s_watches st))) as [Hlt|Hge2].
      + rewrite nth_error_app1 in Hn' by assumption. destruct (Hw n w Hn' Hge) as (Hs & La & rest & H1 & H2 & H3).
        split; [assumption|]. exists La, rest. split; [assumption|]. split; [assumption|]. intros Eo.
        destruct (H3 Eo) as (tb & G1 & G2 & G3 & G4 & G5). destruct (Hsame _ tb G1) as (tb2 & G1' & Hit).
        exists tb2. cbn [s_bufs s_queue]. rewrite Hit. auto.
      + rewrite nth_error_app2 in Hn' by assumption. destruct (n - List.length (s_watches st))%nat as [|k] eqn:En; [|destruct k; discriminate].
        injection Hn' as <-. cbn [w_subj w_query w_snap w_events w_state w_idx w_pos w_freed].
        split; [reflexivity|]. destruct (Hcok s snap Hsnap) as (tb & La & G1 & G2 & G3 & G4).
        exists La. eexists. split; [exact G3|]. split.
        2:{ intros _. exists tb. cbn [w_subj w_query w_snap w_events w_state w_idx w_pos w_freed s_bufs s_queue].
            split; [exact G1|]. split; [reflexivity|]. split; [lia|]. split; [exact G2|]. reflexivity. }
        assert (n = List.length (s_watches st)) as -> by lia. rewrite (Hd _ (Nat.le_refl _)).
        cbn [app skipn]. unfold evs at 1. cbn [filter map app]. unfold vstream.
        destruct G3 as (Lp & _ & Hsi & Hsb). destruct (snapshot_batch_head s (sn_idx snap) (replay T0 Lp)) as (e0 & b & Hb' & He0).
        rewrite Hsb, Hb'. cbn [app fut_raws]. rewrite He0.
        assert (N.leb (sn_idx snap) 0 = false) as -> by (apply N.leb_gt; lia).
        rewrite <- Hb'. cbn [fut_raws]. rewrite <- Hsb at 2. rewrite <- (G4 q). rewrite Hsb. reflexivity.
    - intros n w Hn' Hlt. cbn [s_watches] in Hn'. rewrite nth_error_app1 in Hn' by lia. eauto.
    - unfold refs_ok. cbn [s_bufs s_watches]. split; [|split].
      + intros s' tb Hg. rewrite Hcount. rewrite Hget in Hg. destruct (subject_eqb s' s) eqn:E.
        * apply subject_eqb_eq in E. subst s'. injection Hg as <-. cbn [tb' b_refs].
          unfold tb0. destruct (buf_get s (s_bufs st)) as [tb|] eqn:E.
          -- rewrite (Hr1 s tb E). lia.
          -- cbn. destruct (count s (s_watches st)) eqn:Ec; [reflexivity|]. exfalso. apply (Hr2 s); [lia|exact E].
        * rewrite (Hr1 s' tb Hg). lia.
      + intros s'. rewrite Hcount, Hget. destruct (subject_eqb s' s); [discriminate|]. rewrite Nat.add_0_r. apply Hr2.
      + intros n w Hn' Ho'. destruct (Nat.lt_ge_cases n (List.length (s_watches st))) as [Hlt|Hge].
        * rewrite nth_error_app1 in Hn' by assumption. eauto.
        * rewrite nth_error_app2 in Hn' by assumption. destruct (n - List.length (s_watches st))%nat as [|k]; [|destruct k; discriminate].
          injection Hn' as <-. reflexivity.
    - cbn [s_watches]. rewrite app_length. lia.
    - cbn [s_watches]. rewrite app_length. intros n Hn'. apply Hd. lia.
  Qed.

  (* ---------- closing a watch ---------- *)
  Lemma count_two s ws n m w x : nth_error ws n = Some w -> nth_error ws m = Some x -> m <> n ->
    unfreed s w = true -> unfreed s x = true -> (2 <= count s ws)%nat.
  Proof.
    intros Hn Hm Hne Hw Hx. destruct (set_nth_split n w w ws Hn) as (l1 & l2 & -> & Hl & _). subst n.
    rewrite count_app. unfold count at 2. cbn [filter]. rewrite Hw. cbn [List.length].
    destruct (Nat.lt_ge_cases m (List.length l1)).
    - rewrite nth_error_app1 in Hm by assumption. apply nth_error_In in Hm.
      assert (In x (filter (unfreed s) l1)) as Hin by (apply filter_In; auto).
      unfold count at 1. destruct (filter (unfreed s) l1); [contradiction|]. cbn. lia.
    - rewrite nth_error_app2 in Hm by assumption. destruct (m - List.length l1)%nat as [|k] eqn:E; [lia|]. cbn in Hm.
      apply nth_error_In in Hm. assert (In x (filter (unfreed s) l2)) as Hin by (apply filter_In; auto).
      fold (count s l2). unfold count. destruct (filter (unfreed s) l2); [contradiction|]. cbn. lia.
  Qed.

  Lemma INV_close_gen st L D n w tb bufs' cache' :
    INV st L D -> nth_error (s_watches st) n = Some w -> w_freed w = false ->
    buf_get (w_subj w) (s_bufs st) = Some tb ->
    (forall s', s' <> w_subj w -> buf_get s' bufs' = buf_get s' (s_bufs st)) ->
    buf_get (w_subj w) bufs' = (if Nat.eqb (b_refs tb) 1 then None else Some (TBuf (b_refs tb - 1) (b_items tb))) ->
    (forall s' sn, cache_get s' cache' = Some sn -> cache_get s' (s_cache st) = Some sn /\ (b_refs tb = 1%nat -> s' <> w_subj w)) ->
    INV (Store (s_res st) (s_idx st) (s_vsn st) (s_stale st) (s_queue st) bufs' cache'
               (set_nth n (Watch (w_subj w) (w_query w) (match w_state w with WOpen => WUnsub | x => x end) true
                                 (w_snap w) (w_pos w) (w_events w) (w_idx w)) (s_watches st))) L D.
  Proof.
    intros (Ht & Hq & Hb & Hc & Hw & Ho & Hr & Hn & Hd) Hnth Hfr Hbuf P1 P2 P3.
    destruct Hb as (Hb1 & Hb2 & Hb3 & Hb4). destruct Hr as (Hr1 & Hr2 & Hr3).
    set (w' := Watch (w_subj w) (w_query w) (match w_state w with WOpen => WUnsub | x => x end) true
                     (w_snap w) (w_pos w) (w_events w) (w_idx w)).
    assert (Hnotopen : w_state w' <> WOpen) by (cbn; destruct (w_state w); discriminate).
    assert (Hrefs : b_refs tb = count (w_subj w) (s_watches st)) by (apply Hr1; exact Hbuf).
    assert (Hun : unfreed (w_subj w) w = true) by (unfold unfreed; rewrite Hfr, subject_eqb_refl; reflexivity).
    assert (Hcount : forall s', (count s' (set_nth n w' (s_watches st)) + (if subject_eqb s' (w_subj w) then 1 else 0) = count s' (s_watches st))%nat).
    { intros s'. unfold count. pose proof (filter_length_set_nth (unfreed s') n w' w _ Hnth) as E.
      assert (unfreed s' w' = false) as E1 by reflexivity.
      assert (unfreed s' w = subject_eqb s' (w_subj w)) as E2 by (unfold unfreed; rewrite Hfr; reflexivity).
      rewrite E1, E2 in E. destruct (subject_eqb s' (w_subj w)); lia. }
    (* buffers seen through buf_get: same items wherever a buffer is still needed *)
    assert (Hsame : forall s' tb1, buf_get s' (s_bufs st) = Some tb1 -> (s' = w_subj w -> b_refs tb <> 1%nat) ->
              exists tb2, buf_get s' bufs' = Some tb2 /\ b_items tb2 = b_items tb1).
    { intros s' tb1 E Hne. destruct (subject_eqb s' (w_subj w)) eqn:E2.
      - apply subject_eqb_eq in E2. subst s'. rewrite P2. rewrite Hbuf in E. injection E as <-.
        destruct (Nat.eqb (b_refs tb) 1) eqn:E3; [apply Nat.eqb_eq in E3; exfalso; apply Hne; auto|]. eexists; split; reflexivity.
      - apply subject_eqb_neq in E2. rewrite P1 by assumption. eauto. }
    assert (Hback : forall s' tb2, buf_get s' bufs' = Some tb2 -> exists tb1, buf_get s' (s_bufs st) = Some tb1 /\ b_items tb2 = b_items tb1).
    { intros s' tb2 E. destruct (subject_eqb s' (w_subj w)) eqn:E2.
      - apply subject_eqb_eq in E2. subst s'. rewrite P2 in E. destruct (Nat.eqb (b_refs tb) 1); [discriminate|].
        injection E as <-. exists tb. auto.
      - apply subject_eqb_neq in E2. rewrite P1 in E by assumption. eauto. }
    unfold INV. split; [exact Ht|]. split; [exact Hq|]. split; [|split; [|split; [|split; [|split; [|split]]]]].
    - unfold bounded. cbn [s_queue s_idx s_bufs s_cache s_watches]. split; [exact Hb1|]. split; [|split].
      + intros s' tb2 it e Hg Hit. destruct (Hback s' tb2 Hg) as (tb1 & G1 & G2). rewrite G2 in Hit. eapply Hb2; eassumption.
      + intros s' sn Hg. apply P3 in Hg as [Hg _]. eauto.
      + intros m x Hm Hx. rewrite (nth_error_set_nth n m w' w _ Hnth) in Hm. destruct (Nat.eqb m n); [|eauto].
        injection Hm as <-. contradiction.
    - intros s' sn Hg. destruct (P3 s' sn Hg) as [Hg' Hne]. destruct (Hc s' sn Hg') as (tb1 & La & G1 & G2 & G3 & G4).
      destruct (Hsame s' tb1 G1) as (tb2 & G1' & Hit); [intros -> E; exact (Hne E eq_refl)|].
      exists tb2, La. cbn [s_bufs s_queue]. rewrite Hit. auto.
    - intros m x Hm Hge. cbn [s_watches] in Hm. rewrite (nth_error_set_nth n m w' w _ Hnth) in Hm.
      destruct (Nat.eqb m n) eqn:E.
      + apply Nat.eqb_eq in E. subst m. injection Hm as <-. destruct (Hw n w Hnth Hge) as (Hs & La & rest & H1 & H2 & _).
        cbn [w' w_subj w_query w_snap w_events w_state]. split; [assumption|]. exists La, rest. split; [assumption|]. split; [assumption|].
        intros Eo. exfalso. apply Hnotopen. exact Eo.
      + apply Nat.eqb_neq in E. destruct (Hw m x Hm Hge) as (Hs & La & rest & H1 & H2 & H3).
        split; [assumption|]. exists La, rest. split; [assumption|]. split; [assumption|]. intros Eo.
        destruct (H3 Eo) as (tb1 & G1 & G2 & G3 & G4 & G5).
        destruct (Hsame (w_subj x) tb1 G1) as (tb2 & G1' & Hit).
        { intros Es Er. assert (unfreed (w_subj w) x = true) as Hux by (unfold unfreed; rewrite G2, <- Es, subject_eqb_refl; reflexivity).
          pose proof (count_two _ _ n m w x Hnth Hm E Hun Hux). lia. }
        exists tb2. cbn [s_bufs s_queue]. rewrite Hit. auto.
    - intros m x Hm Hl. cbn [s_watches] in Hm. rewrite (nth_error_set_nth n m w' w _ Hnth) in Hm.
      destruct (Nat.eqb m n) eqn:E; [|eauto]. apply Nat.eqb_eq in E. subst m. destruct (Ho n w Hnth Hl) as [Hf _]. congruence.
    - unfold refs_ok. cbn [s_bufs s_watches]. split; [|split].
      + intros s' tb2 Hg. specialize (Hcount s'). destruct (subject_eqb s' (w_subj w)) eqn:E2.
        * apply subject_eqb_eq in E2. subst s'. rewrite P2 in Hg. destruct (Nat.eqb (b_refs tb) 1); [discriminate|].
          injection Hg as <-. cbn [b_refs]. lia.
        * apply subject_eqb_neq in E2. rewrite P1 in Hg by assumption. rewrite (Hr1 s' tb2 Hg). lia.
      + intros s' Hpos. specialize (Hcount s'). destruct (subject_eqb s' (w_subj w)) eqn:E2.
        * apply subject_eqb_eq in E2. subst s'. rewrite P2. destruct (Nat.eqb (b_refs tb) 1) eqn:E3; [apply Nat.eqb_eq in E3; lia|discriminate].
        * apply subject_eqb_neq in E2. rewrite P1 by assumption. apply Hr2. lia.
      + intros m x Hm Hx. rewrite (nth_error_set_nth n m w' w _ Hnth) in Hm. destruct (Nat.eqb m n); [|eauto].
        injection Hm as <-. contradiction.
    - cbn [s_watches]. rewrite (length_set_nth n w' w _ Hnth). exact Hn.
    - cbn [s_watches]. rewrite (length_set_nth n w' w _ Hnth). exact Hd.
  Qed.

  Lemma INV_close st L D n : INV st L D -> INV (fst (watch_close st n)) L D.
  Proof.
    intros HI. unfold watch_close. destruct (nth_error (s_watches st) n) as [w|] eqn:Hnth; [|exact HI].
    pose proof HI as (Ht & Hq & Hb & Hc & Hw & Ho & (Hr1 & Hr2 & Hr3) & Hn & Hd).
    destruct (w_freed w) eqn:Hfr.
    - (* already released: nothing changes but the (already closed) state *)
      cbn [fst].
      assert (Hno : w_state w <> WOpen) by (intros E; specialize (Hr3 n w Hnth E); congruence).
      eapply (set_watch_frame st L D D n w); try eassumption; try reflexivity.
      + cbn. destruct (w_state w); [contradiction|reflexivity|reflexivity].
      + cbn. symmetry. exact Hfr.
      + intros E. contradiction.
      + intros Hge. destruct (Hw n w Hnth Hge) as (Hs & La & rest & H1 & H2 & H3). exists La, rest.
        split; [assumption|]. split; [exact H2|]. intros E. contradiction.
    - assert (Hun : (0 < count (w_subj w) (s_watches st))%nat).
      { destruct (set_nth_split n w w _ Hnth) as (l1 & l2 & -> & _ & _). rewrite count_app. unfold count at 2. cbn [filter].
        unfold unfreed at 1. rewrite Hfr, subject_eqb_refl. cbn. lia. }
      destruct (buf_get (w_subj w) (s_bufs st)) as [tb|] eqn:Hbuf; [|exfalso; exact (Hr2 _ Hun Hbuf)].
      unfold set_watch. cbn [s_res s_idx s_vsn s_queue s_bufs s_cache s_watches].
      change (firstn n (s_watches st) ++ ?x :: skipn (S n) (s_watches st)) with (set_nth n x (s_watches st)).
      destruct (Nat.eqb (b_refs tb) 1) eqn:Er; cbn [fst].
      + apply (INV_close_gen st L D n w tb); try assumption.
        * intros s' Hne. apply buf_get_del_other. exact Hne.
        * rewrite Er. apply buf_get_del_same.
        * intros s' sn Hg. split; [eapply cache_get_del_some; eassumption|]. intros _ ->. rewrite cache_get_del_same in Hg. discriminate.
      + apply (INV_close_gen st L D n w tb); try assumption.
        * intros s' Hne. apply buf_get_set_other. exact Hne.
        * rewrite Er. apply buf_get_set_same.
        * intros s' sn Hg. split; [exact Hg|]. apply Nat.eqb_neq in Er. intros E. contradiction.
  Qed.
End Inv.
