(* C18 — model of consul's resource storage backend:
     internal/storage/inmem/{store,watch,event_index,snapshot,backend,schema}.go
   and of the part of agent/consul/stream the watches ride on
     (event_publisher.go Publish/publishEvent/Subscribe/RefreshTopic, event_snapshot.go
      appendAndSplice/spliceFromTopicBuffer, subscription.go Next/Unsubscribe/forceClose).

   A sequential machine: eventLock + the memdb write transaction make every write atomic, and
   EventPublisher.lock makes Subscribe and publishEvent atomic.  The commit/publication gap is
   explicit: a commit appends a batch to [s_queue] (publishCh) and [OPublish] moves exactly one
   batch to the topic buffers (what EventPublisher.Run does for one channel receive).

   No proofs here.  Strings are byte lists; versions are numbers (0 = the empty version string,
   n = the decimal string of n: both backends produce decimal counters). *)
From Verif Require Import Base.Prelude.

Definition str := list N.
Definition star : str := [42%N].                       (* storage.Wildcard *)

Record rtype := RType { t_group : str; t_kind : str }.          (* storage.UnversionedType *)
Record tenancy := Ten { tn_part : str; tn_ns : str }.
(* the memdb primary key of a resource: type without GroupVersion, tenancy, name (indexFromID) *)
Record rid := RId { i_type : rtype; i_ten : tenancy; i_name : str }.

Record resource := Res {
  r_id : rid;
  r_gv : str;                        (* Id.Type.GroupVersion *)
  r_uid : str;                       (* Id.Uid *)
  r_version : N;
  r_data : N;                        (* opaque payload *)
  r_owner : option (rid * str)       (* Owner: key and uid (ownerIndexer ignores its GroupVersion) *)
}.

(* ---------- order and equality on keys: the radix tree orders rows by
   group\0kind\0partition\0namespace\0name\0, which for NUL-free fields is the
   lexicographic order field by field ---------- *)
Fixpoint str_cmp (a b : str) : comparison :=
  match a, b with
  | [], [] => Eq
  | [], _ :: _ => Lt
  | _ :: _, [] => Gt
  | x :: a', y :: b' => match N.compare x y with Eq => str_cmp a' b' | c => c end
  end.

Definition then_cmp (c : comparison) (d : comparison) : comparison :=
  match c with Eq => d | _ => c end.

Definition rid_cmp (a b : rid) : comparison :=
  then_cmp (str_cmp (t_group (i_type a)) (t_group (i_type b)))
  (then_cmp (str_cmp (t_kind (i_type a)) (t_kind (i_type b)))
  (then_cmp (str_cmp (tn_part (i_ten a)) (tn_part (i_ten b)))
  (then_cmp (str_cmp (tn_ns (i_ten a)) (tn_ns (i_ten b)))
            (str_cmp (i_name a) (i_name b))))).

Definition str_eqb (a b : str) : bool := match str_cmp a b with Eq => true | _ => false end.
Definition rid_eqb (a b : rid) : bool := match rid_cmp a b with Eq => true | _ => false end.
Definition rtype_eqb (a b : rtype) : bool :=
  str_eqb (t_group a) (t_group b) && str_eqb (t_kind a) (t_kind b).

Fixpoint has_prefix (p s : str) : bool :=
  match p, s with
  | [], _ => true
  | _ :: _, [] => false
  | x :: p', y :: s' => N.eqb x y && has_prefix p' s'
  end.

(* ---------- the resources table ---------- *)
Definition table := list resource.

Fixpoint lookup (k : rid) (t : table) : option resource :=
  match t with
  | [] => None
  | r :: t' => if rid_eqb k (r_id r) then Some r else lookup k t'
  end.

Definition remove (k : rid) (t : table) : table := filter (fun r => negb (rid_eqb k (r_id r))) t.

Fixpoint insert (r : resource) (t : table) : table :=
  match t with
  | [] => [r]
  | x :: t' => match rid_cmp (r_id r) (r_id x) with
               | Gt => x :: insert r t'
               | _ => r :: x :: t'
               end
  end.

(* memdb Insert on a unique index replaces the row with the same key *)
Definition upsert (r : resource) (t : table) : table := insert r (remove (r_id r) t).

(* ---------- queries (schema.go query.indexPrefix / query.matches) ---------- *)
Record query := Query { q_type : rtype; q_ten : tenancy; q_prefix : str }.

(* the radix prefix scan: the prefix stops at the first wildcarded tenancy field *)
Definition scan (q : query) (r : resource) : bool :=
  rtype_eqb (q_type q) (i_type (r_id r)) &&
  (if str_eqb (tn_part (q_ten q)) star then true
   else str_eqb (tn_part (q_ten q)) (tn_part (i_ten (r_id r))) &&
        (if str_eqb (tn_ns (q_ten q)) star then true
         else str_eqb (tn_ns (q_ten q)) (tn_ns (i_ten (r_id r))) &&
              has_prefix (q_prefix q) (i_name (r_id r)))).

Definition matches (q : query) (r : resource) : bool :=
  (str_eqb (tn_part (q_ten q)) star || str_eqb (tn_part (i_ten (r_id r))) (tn_part (q_ten q))) &&
  (str_eqb (tn_ns (q_ten q)) star || str_eqb (tn_ns (i_ten (r_id r))) (tn_ns (q_ten q))) &&
  has_prefix (q_prefix q) (i_name (r_id r)).

Definition list_txn (q : query) (t : table) : list resource :=
  filter (fun r => scan q r && matches q r) t.

Definition owner_eqb (o : option (rid * str)) (k : rid) (uid : str) : bool :=
  match o with
  | Some (k', u') => rid_eqb k k' && str_eqb uid u'
  | None => false
  end.

(* ---------- events and the publisher ---------- *)
Inductive wev := Upsert (r : resource) | Delete (r : resource) | EndOfSnapshot.

Inductive subject := SWild (t : rtype) | STen (t : rtype) (tn : tenancy).

Definition subject_eqb (a b : subject) : bool :=
  match a, b with
  | SWild t, SWild u => rtype_eqb t u
  | STen t x, STen u y => rtype_eqb t u && str_eqb (tn_part x) (tn_part y) && str_eqb (tn_ns x) (tn_ns y)
  | _, _ => false
  end.

Record pev := PEv { pe_subj : subject; pe_idx : N; pe_ev : wev }.       (* stream.Event *)

Definition batch := list pev.                          (* one Publish call / one bufferItem *)

(* a snapshot buffer: the batch the handler appended, (the endOfSnapshot framing item,) and the
   place in the topic buffer it was spliced to *)
Record snapshot := Snap { sn_idx : N; sn_batch : batch; sn_pos : nat }.

Record tbuf := TBuf { b_refs : nat; b_items : list batch }.

Inductive wstate := WOpen | WForceClosed | WUnsub.

Record watch := Watch {
  w_subj : subject;
  w_query : query;
  w_state : wstate;                  (* Subscription.state *)
  w_freed : bool;                    (* freeBuf can no longer touch the maps: its sync.Once has fired, or a restore dropped its buffer *)
  w_snap : snapshot;                 (* the snapshot buffer the subscription started on *)
  w_pos : nat;                       (* Subscription.currentItem, as an offset into [vstream] *)
  w_events : list pev;               (* Watch.events *)
  w_idx : N                          (* Watch.idx *)
}.

Record store := Store {
  s_res : table;
  s_idx : N;                         (* metadata row "index"; 2 when the row is absent *)
  s_vsn : N;                         (* Backend.vsn *)
  s_stale : nat;                     (* batches at the head of publishCh that carry an old generation: queued before a restore *)
  s_queue : list batch;              (* EventPublisher.publishCh: the batches of the current generation *)
  s_bufs : list (subject * tbuf);    (* EventPublisher.topicBuffers *)
  s_cache : list (subject * snapshot);   (* EventPublisher.snapCache *)
  s_watches : list watch
}.

Definition init : store := Store [] 2 0 0 [] [] [] [].

Definition set_res (st : store) (t : table) (i : N) (q : list batch) : store :=
  Store t i (s_vsn st) (s_stale st) q (s_bufs st) (s_cache st) (s_watches st).
Definition set_vsn (st : store) (v : N) : store :=
  Store (s_res st) (s_idx st) v (s_stale st) (s_queue st) (s_bufs st) (s_cache st) (s_watches st).

Inductive err := ENotFound | ECAS | EWrongUid | EWatchClosed | EOther.

Inductive out :=
| OutOk
| OutRes (r : resource)
| OutList (l : list resource)
| OutErr (e : err)
| OutGVM (r : resource)              (* GroupVersionMismatchError{Stored} *)
| OutEvent (e : wev)
| OutNoEvent                         (* Next would block *)
| OutWatch (n : nat)
| OutBool (b : bool).

(* publishEvent in watch.go: one copy per subject *)
Definition ev_resource (e : wev) : option resource :=
  match e with Upsert r | Delete r => Some r | EndOfSnapshot => None end.

Definition commit_batch (idx : N) (e : wev) (r : resource) : batch :=
  [PEv (SWild (i_type (r_id r))) idx e; PEv (STen (i_type (r_id r)) (i_ten (r_id r))) idx e].

(* Store.WriteCAS(res, vsn) *)
Definition store_write (st : store) (res : resource) (vsn : N) : store * out :=
  let commit :=
    let idx := (s_idx st + 1)%N in
    (set_res st (upsert res (s_res st)) idx (s_queue st ++ [commit_batch idx (Upsert res) res]), OutOk) in
  match lookup (r_id res) (s_res st) with
  | None => if negb (N.eqb vsn 0) then (st, OutErr ECAS) else commit
  | Some ex =>
      if negb (str_eqb (r_uid ex) (r_uid res)) then (st, OutErr EWrongUid)
      else if negb (N.eqb (r_version ex) vsn) then (st, OutErr ECAS)
      else commit
  end.

(* Store.DeleteCAS(id, vsn) *)
Definition store_delete (st : store) (k : rid) (uid : str) (vsn : N) : store * out :=
  match lookup k (s_res st) with
  | None => (st, OutOk)
  | Some ex =>
      if negb (str_eqb uid (r_uid ex)) then (st, OutOk)
      else if negb (N.eqb vsn (r_version ex)) then (st, OutErr ECAS)
      else let idx := (s_idx st + 1)%N in
           (set_res st (remove k (s_res st)) idx (s_queue st ++ [commit_batch idx (Delete ex) ex]), OutOk)
  end.

(* Backend.WriteCAS: the new version is drawn from the counter before the store is called *)
Definition with_version (r : resource) (v : N) : resource :=
  Res (r_id r) (r_gv r) (r_uid r) v (r_data r) (r_owner r).

Definition backend_write (st : store) (res : resource) : store * out :=
  let v := (s_vsn st + 1)%N in
  let stored := with_version res v in
  match store_write (set_vsn st v) stored (r_version res) with
  | (st', OutOk) => (st', OutRes stored)
  | (st', o) => (st', o)
  end.

(* Store.Read *)
Definition store_read (st : store) (k : rid) (gv uid : str) : out :=
  match lookup k (s_res st) with
  | None => OutErr ENotFound
  | Some r =>
      if negb (str_eqb uid []) && negb (str_eqb (r_uid r) uid) then OutErr ENotFound
      else if negb (str_eqb gv (r_gv r)) then OutGVM r
      else OutRes r
  end.

(* ---------- EventPublisher ---------- *)
Fixpoint buf_get (s : subject) (l : list (subject * tbuf)) : option tbuf :=
  match l with
  | [] => None
  | (s', b) :: l' => if subject_eqb s s' then Some b else buf_get s l'
  end.

Fixpoint buf_set (s : subject) (b : tbuf) (l : list (subject * tbuf)) : list (subject * tbuf) :=
  match l with
  | [] => [(s, b)]
  | (s', b') :: l' => if subject_eqb s s' then (s, b) :: l' else (s', b') :: buf_set s b l'
  end.

Definition buf_del (s : subject) (l : list (subject * tbuf)) : list (subject * tbuf) :=
  filter (fun e => negb (subject_eqb s (fst e))) l.

Fixpoint cache_get (s : subject) (l : list (subject * snapshot)) : option snapshot :=
  match l with
  | [] => None
  | (s', b) :: l' => if subject_eqb s s' then Some b else cache_get s l'
  end.

Definition cache_del (s : subject) (l : list (subject * snapshot)) : list (subject * snapshot) :=
  filter (fun e => negb (subject_eqb s (fst e))) l.

(* the events of a published batch that go to the buffer of subject s (groupedEvents[s]) *)
Definition route (s : subject) (b : batch) : batch := filter (fun e => subject_eqb s (pe_subj e)) b.

(* publishEvent: append each non-empty group to its topic buffer, if the buffer exists *)
Definition publish_batch (b : batch) (bufs : list (subject * tbuf)) : list (subject * tbuf) :=
  map (fun e => match route (fst e) b with
                | [] => e
                | g => (fst e, TBuf (b_refs (snd e)) (b_items (snd e) ++ [g]))
                end) bufs.

(* one receive from publishCh + publishBatch: a batch whose generation is not the publisher's current
   one (it was queued before a restore) is dropped; such batches are all ahead of the live ones *)
Definition publish_one (st : store) : store * out :=
  match s_stale st with
  | S k => (Store (s_res st) (s_idx st) (s_vsn st) k (s_queue st) (s_bufs st) (s_cache st) (s_watches st), OutBool true)
  | O =>
    match s_queue st with
    | [] => (st, OutBool false)
    | b :: q => (Store (s_res st) (s_idx st) (s_vsn st) (s_stale st) q (publish_batch b (s_bufs st)) (s_cache st) (s_watches st),
                 OutBool true)
    end
  end.

(* watchSnapshot: the query is rebuilt from the subject (no name prefix) *)
Definition subject_query (s : subject) : query :=
  match s with
  | SWild t => Query t (Ten star star) []
  | STen t tn => Query t tn []
  end.

Definition snapshot_batch (s : subject) (idx : N) (t : table) : batch :=
  map (fun r => PEv s idx (Upsert r)) (list_txn (subject_query s) t) ++ [PEv s idx EndOfSnapshot].

Definition batch_idx (b : batch) : option N :=
  match b with [] => None | e :: _ => Some (pe_idx e) end.

(* spliceFromTopicBuffer starting at the topic buffer's head (= its last item): the head itself is
   spliced in when its index is greater than the snapshot's, otherwise only what follows it *)
Definition splice_pos (items : list batch) (idx : N) : nat :=
  match last (map Some items) None with
  | Some it => match batch_idx it with
               | Some i => if N.ltb idx i then List.length items - 1 else List.length items
               | None => List.length items
               end
  | None => 0
  end.

(* Store.WatchList + EventPublisher.Subscribe (req.Index = 0) *)
Definition watch_subject (q : query) : subject :=
  if str_eqb (tn_part (q_ten q)) star || str_eqb (tn_ns (q_ten q)) star
  then SWild (q_type q) else STen (q_type q) (q_ten q).

Definition watch_open (st : store) (q : query) : store * out :=
  let s := watch_subject q in
  let tb := match buf_get s (s_bufs st) with Some b => b | None => TBuf 0 [] end in
  let tb' := TBuf (S (b_refs tb)) (b_items tb) in
  let bufs := buf_set s tb' (s_bufs st) in
  let '(snap, cache) :=
    match cache_get s (s_cache st) with
    | Some sn => (sn, s_cache st)
    | None => let sn := Snap (s_idx st) (snapshot_batch s (s_idx st) (s_res st))
                             (splice_pos (b_items tb) (s_idx st)) in
              (sn, s_cache st ++ [(s, sn)])
    end in
  let w := Watch s q WOpen false snap 0 [] 0 in
  (Store (s_res st) (s_idx st) (s_vsn st) (s_stale st) (s_queue st) bufs cache (s_watches st ++ [w]),
   OutWatch (List.length (s_watches st))).

(* what a subscription reads: the snapshot batch, the framing item, then the topic buffer from
   the splice point *)
Inductive raw := RBatch (b : batch) | RFrame.

Definition vstream (sn : snapshot) (items : list batch) : list raw :=
  RBatch (sn_batch sn) :: RFrame :: map RBatch (skipn (sn_pos sn) items).

(* Watch.Next's test on one event *)
Definition deliverable (q : query) (e : pev) : bool :=
  match ev_resource (pe_ev e) with
  | Some r => matches q r
  | None => true
  end.

(* first deliverable event of a list, and the events after it *)
Fixpoint drain (q : query) (evs : list pev) : option (pev * list pev) :=
  match evs with
  | [] => None
  | e :: r => if deliverable q e then Some (e, r) else drain q r
  end.

(* Watch.Next / nextEvent over the raw items available without blocking, once Watch.events is
   used up: framing items and items whose index is <= Watch.idx are skipped, the first item that
   passes sets Watch.idx, its first deliverable event is returned and the rest kept in
   Watch.events.  Result: new Watch.idx, number of raw items consumed, the event and the rest. *)
Fixpoint scan_raws (q : query) (widx : N) (raws : list raw) (n : nat)
  : N * nat * option (pev * list pev) :=
  match raws with
  | [] => (widx, n, None)
  | RFrame :: rs => scan_raws q widx rs (S n)
  | RBatch [] :: rs => scan_raws q widx rs (S n)
  | RBatch (e0 :: b) :: rs =>
      if N.leb (pe_idx e0) widx then scan_raws q widx rs (S n)
      else match drain q (e0 :: b) with
           | Some (e, rest) => (pe_idx e0, S n, Some (e, rest))
           | None => scan_raws q (pe_idx e0) rs (S n)
           end
  end.

Definition set_watch (st : store) (n : nat) (w : watch) : store :=
  Store (s_res st) (s_idx st) (s_vsn st) (s_stale st) (s_queue st) (s_bufs st) (s_cache st)
        (firstn n (s_watches st) ++ w :: skipn (S n) (s_watches st)).

Definition watch_items (st : store) (w : watch) : list batch :=
  match buf_get (w_subj w) (s_bufs st) with Some b => b_items b | None => [] end.

Definition watch_next (st : store) (n : nat) : store * out :=
  match nth_error (s_watches st) n with
  | None => (st, OutErr EOther)
  | Some w =>
      match drain (w_query w) (w_events w) with
      | Some (e, rest) =>
          (set_watch st n (Watch (w_subj w) (w_query w) (w_state w) (w_freed w) (w_snap w) (w_pos w) rest (w_idx w)),
           OutEvent (pe_ev e))
      | None =>
          (* Watch.events is exhausted; Subscription.Next checks the state first *)
          let w0 := Watch (w_subj w) (w_query w) (w_state w) (w_freed w) (w_snap w) (w_pos w) [] (w_idx w) in
          match w_state w with
          | WForceClosed => (set_watch st n w0, OutErr EWatchClosed)
          | WUnsub => (set_watch st n w0, OutErr EOther)
          | WOpen =>
              let raws := skipn (w_pos w) (vstream (w_snap w) (watch_items st w)) in
              match scan_raws (w_query w) (w_idx w) raws 0 with
              | (widx, k, Some (e, rest)) =>
                  (set_watch st n (Watch (w_subj w) (w_query w) WOpen (w_freed w) (w_snap w) (w_pos w + k) rest widx),
                   OutEvent (pe_ev e))
              | (widx, k, None) =>
                  (set_watch st n (Watch (w_subj w) (w_query w) WOpen (w_freed w) (w_snap w) (w_pos w + k) [] widx),
                   OutNoEvent)
              end
          end
      end
  end.

(* Watch.Close = Subscription.Unsubscribe: state change, then freeBuf once *)
Definition watch_close (st : store) (n : nat) : store * out :=
  match nth_error (s_watches st) n with
  | None => (st, OutErr EOther)
  | Some w =>
      let stt := match w_state w with WOpen => WUnsub | x => x end in
      let w' := Watch (w_subj w) (w_query w) stt true (w_snap w) (w_pos w) (w_events w) (w_idx w) in
      let st1 := set_watch st n w' in
      if w_freed w then (st1, OutOk)
      else match buf_get (w_subj w) (s_bufs st) with
           | None => (st1, OutOk)
           | Some b =>
               if Nat.eqb (b_refs b) 1
               then (Store (s_res st1) (s_idx st1) (s_vsn st1) (s_stale st1) (s_queue st1)
                           (buf_del (w_subj w) (s_bufs st1)) (cache_del (w_subj w) (s_cache st1)) (s_watches st1), OutOk)
               else (Store (s_res st1) (s_idx st1) (s_vsn st1) (s_stale st1) (s_queue st1)
                           (buf_set (w_subj w) (TBuf (b_refs b - 1) (b_items b)) (s_bufs st1)) (s_cache st1) (s_watches st1), OutOk)
           end
  end.

(* Restoration.Apply* + Commit (d82b299): a fresh database (no metadata row: index 2 again) holding the
   given rows, installed under eventLock (no writer is between its commit and its Publish) and,
   since 05f9dd3, from inside RefreshAllTopicsAfter, i.e. under the publisher's lock (no Subscribe
   between the replacement and the refresh; one step here). The refresh: the publisher's generation is advanced, so every batch still in publishCh is
   dropped when it is received (949dae4; [s_stale] counts them, [s_queue] keeps the live ones, which
   are all behind them); the cached snapshots and (2bf672d) the topic buffers are dropped and every
   subscription is force-closed.
   A watch that existed before the restore keeps a pointer to its dropped buffer: its freeBuf only
   decrements that orphan's counter (the map entries are removed only "if they still belong to this
   buffer"), so it can no longer touch the maps - modelled by setting [w_freed].
   Subscription.snapshotIndex (f559b0f, 716731d: inside Subscription.Next a batch with
   0 < index < the end-of-snapshot index is skipped; one AT that index is handed on) is not a
   separate field: the snapshot batch carries the same index as the framing item, is read before it
   and sets Watch.idx to it, and Watch.nextEvent's own filter (index <= Watch.idx) then skips every
   batch the subscription would skip, and the one at the snapshot's own index as well. *)
Definition restore_table (l : list resource) : table := fold_left (fun t r => upsert r t) l [].

Definition force_close (w : watch) : watch :=
  Watch (w_subj w) (w_query w) (match w_state w with WOpen => WForceClosed | x => x end)
        true (w_snap w) (w_pos w) (w_events w) (w_idx w).

Definition restore (st : store) (l : list resource) : store * out :=
  (Store (restore_table l) 2 (s_vsn st) (s_stale st + List.length (s_queue st)) [] [] [] (map force_close (s_watches st)), OutOk).

Inductive op :=
| OWrite (r : resource)                       (* Backend.WriteCAS; r_version r is the version presented *)
| OWriteS (r : resource) (vsn : N)            (* Store.WriteCAS: new version chosen by the caller (Raft: the log index) *)
| ODelete (k : rid) (uid : str) (vsn : N)
| ORead (k : rid) (gv uid : str)
| OList (q : query)
| OListByOwner (k : rid) (uid : str)
| OWatch (q : query)
| ONext (n : nat)
| OClose (n : nat)
| OPublish
| ORestore (l : list resource)
| OSnapshot
| OEvict (q : query).                        (* the snapshot-cache TTL timer firing for the subject of q *)

Definition step (st : store) (o : op) : store * out :=
  match o with
  | OWrite r => backend_write st r
  | OWriteS r v => store_write st r v
  | ODelete k uid v => store_delete st k uid v
  | ORead k gv uid => (st, store_read st k gv uid)
  | OList q => (st, OutList (list_txn q (s_res st)))
  | OListByOwner k uid => (st, OutList (filter (fun r => owner_eqb (r_owner r) k uid) (s_res st)))
  | OWatch q => watch_open st q
  | ONext n => watch_next st n
  | OClose n => watch_close st n
  | OPublish => publish_one st
  | ORestore l => restore st l
  | OSnapshot => (st, OutList (s_res st))
  | OEvict q => (Store (s_res st) (s_idx st) (s_vsn st) (s_stale st) (s_queue st) (s_bufs st)
                       (cache_del (watch_subject q) (s_cache st)) (s_watches st), OutOk)
  end.

Fixpoint run (st : store) (ops : list op) : store :=
  match ops with
  | [] => st
  | o :: ops' => run (fst (step st o)) ops'
  end.

Fixpoint outs (st : store) (ops : list op) : list out :=
  match ops with
  | [] => []
  | o :: ops' => snd (step st o) :: outs (fst (step st o)) ops'
  end.
