(* Lemmas about keys and the resources table of Resource/Model.v. *)
From Verif Require Import Base.Prelude Resource.Model.

Lemma str_cmp_eq a b : str_cmp a b = Eq <-> a = b.
Proof.
  revert b; induction a as [|x a IH]; intros [|y b]; cbn [str_cmp]; split; try congruence; try reflexivity.
  - destruct (N.compare x y) eqn:E; try congruence. intros H. apply N.compare_eq_iff in E. apply IH in H. congruence.
  - intros H; injection H as -> ->. rewrite N.compare_refl. apply IH; reflexivity.
Qed.

Lemma str_eqb_eq a b : str_eqb a b = true <-> a = b.
Proof. unfold str_eqb. destruct (str_cmp a b) eqn:E; split; try congruence; intros; try (apply str_cmp_eq; assumption).
  - apply str_cmp_eq in H. congruence.
  - apply str_cmp_eq in H. congruence.
Qed.

Lemma str_eqb_refl a : str_eqb a a = true.
Proof. apply str_eqb_eq; reflexivity. Qed.

Lemma str_eqb_neq a b : str_eqb a b = false <-> a <> b.
Proof. split; intros H.
  - intros E. apply str_eqb_eq in E. congruence.
  - destruct (str_eqb a b) eqn:E; [apply str_eqb_eq in E; contradiction | reflexivity].
Qed.

Lemma then_cmp_eq c d : then_cmp c d = Eq <-> c = Eq /\ d = Eq.
Proof. destruct c; cbn; split; try tauto; try (intros [? ?]; congruence); intros; try congruence. Qed.

Lemma rid_cmp_eq a b : rid_cmp a b = Eq <-> a = b.
Proof.
  unfold rid_cmp. rewrite !then_cmp_eq, !str_cmp_eq.
  destruct a as [[g k] [p n] nm], b as [[g' k'] [p' n'] nm']; cbn. split.
  - intros (-> & -> & -> & -> & ->); reflexivity.
  - intros H; injection H as -> -> -> -> ->; auto.
Qed.

Lemma rid_eqb_eq a b : rid_eqb a b = true <-> a = b.
Proof. unfold rid_eqb. destruct (rid_cmp a b) eqn:E; split; try congruence; intros H.
  - apply rid_cmp_eq; assumption.
  - apply rid_cmp_eq in H; congruence.
  - apply rid_cmp_eq in H; congruence.
Qed.

Lemma rid_eqb_refl a : rid_eqb a a = true.
Proof. apply rid_eqb_eq; reflexivity. Qed.

Lemma rid_eqb_neq a b : rid_eqb a b = false <-> a <> b.
Proof. split; intros H.
  - intros E. apply rid_eqb_eq in E. congruence.
  - destruct (rid_eqb a b) eqn:E; [apply rid_eqb_eq in E; contradiction | reflexivity].
Qed.

Lemma rid_eqb_sym a b : rid_eqb a b = rid_eqb b a.
Proof. destruct (rid_eqb a b) eqn:E.
  - apply rid_eqb_eq in E; subst. symmetry; apply rid_eqb_refl.
  - apply rid_eqb_neq in E. symmetry. apply rid_eqb_neq. congruence.
Qed.

Lemma rtype_eqb_eq a b : rtype_eqb a b = true <-> a = b.
Proof. unfold rtype_eqb. rewrite andb_true_iff, !str_eqb_eq. destruct a, b; cbn; split.
  - intros [-> ->]; reflexivity.
  - intros H; injection H as -> ->; auto.
Qed.

Lemma subject_eqb_eq a b : subject_eqb a b = true <-> a = b.
Proof.
  destruct a as [t|t [p n]], b as [u|u [p' n']]; cbn; split; try congruence.
  - intros H; apply rtype_eqb_eq in H; congruence.
  - intros H; injection H as ->; apply rtype_eqb_eq; reflexivity.
  - rewrite !andb_true_iff, rtype_eqb_eq, !str_eqb_eq. intros [[-> ->] ->]; reflexivity.
  - intros H; injection H as -> -> ->. rewrite !andb_true_iff, rtype_eqb_eq, !str_eqb_eq; auto.
Qed.

Lemma subject_eqb_refl a : subject_eqb a a = true.
Proof. apply subject_eqb_eq; reflexivity. Qed.

Lemma subject_eqb_neq a b : subject_eqb a b = false <-> a <> b.
Proof. split; intros H.
  - intros E. apply subject_eqb_eq in E. congruence.
  - destruct (subject_eqb a b) eqn:E; [apply subject_eqb_eq in E; contradiction | reflexivity].
Qed.

(* ---------- lookup / remove / insert / upsert ---------- *)
Lemma lookup_remove_same k t : lookup k (remove k t) = None.
Proof. induction t as [|r t IH]; cbn; [reflexivity|].
  destruct (rid_eqb k (r_id r)) eqn:E; cbn; [assumption|]. rewrite E. assumption.
Qed.

Lemma lookup_remove_other k k' t : k <> k' -> lookup k (remove k' t) = lookup k t.
Proof. intros Hn. induction t as [|r t IH]; cbn; [reflexivity|].
  destruct (rid_eqb k' (r_id r)) eqn:E; cbn.
  - apply rid_eqb_eq in E. subst. destruct (rid_eqb k (r_id r)) eqn:E2; [apply rid_eqb_eq in E2; congruence | assumption].
  - destruct (rid_eqb k (r_id r)); [reflexivity | assumption].
Qed.

Lemma lookup_insert_same r t : lookup (r_id r) (insert r t) = Some r.
Proof. induction t as [|x t IH]; cbn; [rewrite rid_eqb_refl; reflexivity|].
  destruct (rid_cmp (r_id r) (r_id x)) eqn:E; cbn; try (rewrite rid_eqb_refl; reflexivity).
  assert (rid_eqb (r_id r) (r_id x) = false) as -> by (unfold rid_eqb; rewrite E; reflexivity). assumption.
Qed.

Lemma lookup_insert_other k r t : k <> r_id r -> lookup k (insert r t) = lookup k t.
Proof. intros Hn. induction t as [|x t IH]; cbn.
  - apply rid_eqb_neq in Hn. rewrite Hn. reflexivity.
  - destruct (rid_cmp (r_id r) (r_id x)) eqn:E; cbn.
    + apply rid_eqb_neq in Hn. rewrite Hn. reflexivity.
    + apply rid_eqb_neq in Hn. rewrite Hn. reflexivity.
    + destruct (rid_eqb k (r_id x)); [reflexivity | assumption].
Qed.

Lemma lookup_upsert_same r t : lookup (r_id r) (upsert r t) = Some r.
Proof. apply lookup_insert_same. Qed.

Lemma lookup_upsert_other k r t : k <> r_id r -> lookup k (upsert r t) = lookup k t.
Proof. intros Hn. unfold upsert. rewrite lookup_insert_other by assumption. apply lookup_remove_other; assumption. Qed.

Lemma lookup_some_id k t r : lookup k t = Some r -> r_id r = k.
Proof. induction t as [|x t IH]; cbn; [congruence|].
  destruct (rid_eqb k (r_id x)) eqn:E; [|assumption]. intros H; injection H as <-. apply rid_eqb_eq in E; congruence.
Qed.

Lemma lookup_in k t r : lookup k t = Some r -> In r t.
Proof. induction t as [|x t IH]; cbn; [congruence|].
  destruct (rid_eqb k (r_id x)); [intros H; injection H as <-; left; reflexivity | intros H; right; auto].
Qed.

Lemma in_insert x r t : In x (insert r t) <-> x = r \/ In x t.
Proof. induction t as [|y t IH]; cbn; [intuition congruence|].
  destruct (rid_cmp (r_id r) (r_id y)); cbn; try rewrite IH; intuition congruence.
Qed.

Lemma in_remove x k t : In x (remove k t) <-> In x t /\ r_id x <> k.
Proof. unfold remove. rewrite filter_In, negb_true_iff, rid_eqb_neq. intuition congruence. Qed.

Lemma in_upsert x r t : In x (upsert r t) <-> x = r \/ (In x t /\ r_id x <> r_id r).
Proof. unfold upsert. rewrite in_insert, in_remove. tauto. Qed.

(* keys are unique *)
Definition keys (t : table) : list rid := map r_id t.

Lemma keys_insert_nodup r t : NoDup (keys t) -> ~ In (r_id r) (keys t) -> NoDup (keys (insert r t)).
Proof. induction t as [|y t IH]; cbn; intros Hnd Hni.
  - constructor; [intros []|constructor].
  - destruct (rid_cmp (r_id r) (r_id y)) eqn:E; cbn.
    + constructor; assumption.
    + constructor; assumption.
    + inversion Hnd; subst. constructor.
      * intros Hin. apply in_map_iff in Hin as (x & Hx & Hin). apply in_insert in Hin as [->|Hin].
        -- apply Hni. left. congruence.
        -- apply H1. apply in_map_iff. eauto.
      * apply IH; [assumption|]. intros Hin. apply Hni. right; assumption.
Qed.

Lemma keys_remove_nodup k t : NoDup (keys t) -> NoDup (keys (remove k t)).
Proof. induction t as [|y t IH]; cbn; intros Hnd; [constructor|].
  inversion Hnd; subst. destruct (rid_eqb k (r_id y)); cbn; [auto|].
  constructor; [|auto]. intros Hin. apply H1. apply in_map_iff in Hin as (x & Hx & Hin).
  apply in_remove in Hin as [Hin _]. apply in_map_iff; eauto.
Qed.

Lemma keys_upsert_nodup r t : NoDup (keys t) -> NoDup (keys (upsert r t)).
Proof. intros H. apply keys_insert_nodup; [apply keys_remove_nodup; assumption|].
  intros Hin. apply in_map_iff in Hin as (x & Hx & Hin). apply in_remove in Hin as [_ Hn]. congruence.
Qed.

Lemma restore_table_nodup l : NoDup (keys (restore_table l)).
Proof. unfold restore_table. assert (H: NoDup (keys [])) by constructor. revert H. generalize (@nil resource).
  induction l as [|r l IH]; cbn; intros t Ht; [assumption|]. apply IH. apply keys_upsert_nodup; assumption.
Qed.

Lemma in_lookup t r : NoDup (keys t) -> In r t -> lookup (r_id r) t = Some r.
Proof. induction t as [|y t IH]; cbn; intros Hnd Hin; [contradiction|].
  inversion Hnd; subst. destruct Hin as [->|Hin]; [rewrite rid_eqb_refl; reflexivity|].
  destruct (rid_eqb (r_id r) (r_id y)) eqn:E; [|auto].
  apply rid_eqb_eq in E. exfalso. apply H1. rewrite <- E. apply in_map; assumption.
Qed.

(* listing = exactly the stored rows that pass the scan and the filter *)
Lemma in_list_txn q t r : NoDup (keys t) ->
  (In r (list_txn q t) <-> lookup (r_id r) t = Some r /\ scan q r = true /\ matches q r = true).
Proof. intros Hnd. unfold list_txn. rewrite filter_In, andb_true_iff. split.
  - intros [Hin H]. split; [apply in_lookup; assumption | assumption].
  - intros [Hl H]. split; [eapply lookup_in; eassumption | assumption].
Qed.
