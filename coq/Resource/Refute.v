(* C18: the watch statement is false of the faithful model once a restore is in the schedule and a
   batch committed before it is still queued in publishCh.  (Topic buffers kept alive by unreleased
   watches used to be a second way; RefreshTopic drops them since 2bf672d.)  Both schedules were
   replayed on the real inmem.Store. *)
From Verif Require Import Base.Prelude Resource.Model Resource.TableProofs Resource.CasProofs
     Resource.WatchDefs.
Local Open Scope N_scope.

Definition xk (nm : str) : rid := RId (RType [103] [107]) (Ten [112] [110]) nm.
Definition xres (nm uid : str) (ver data : N) : resource := Res (xk nm) [118;49] uid ver data None.
Definition xq : query := Query (RType [103] [107]) (Ten [112] [110]) [].

(* (a) a batch committed before the restore is still queued when the new watch subscribes *)
Definition pre_a : list op := [OWrite (xres [97] [117;49] 0 1)].
Definition post_a : list op := [ONext 0; ONext 0; OPublish; ONext 0].

(* (b) the same residue makes a real event disappear: the stale batch carries index 3, the restore
   resets the event index to 2, and the first commit of the new epoch gets index 3 again *)
Definition pre_b : list op := [OWatch xq; OWrite (xres [97] [117;49] 0 1)].
Definition post_b : list op := [OPublish; ONext 1; ONext 1; OWrite (xres [98] [117;50] 0 2); OPublish; ONext 1].

Definition after_restore (pre : list op) : store := fst (step (run init pre) (ORestore [])).

Lemma glog_a : glog (after_restore pre_a) (OWatch xq :: post_a) = [].
Proof. vm_compute. reflexivity. Qed.

Lemma deliv_a : deliv 0 (after_restore pre_a) (OWatch xq :: post_a)
  = [EndOfSnapshot; Upsert (xres [97] [117;49] 1 1)].
Proof. vm_compute. reflexivity. Qed.

(* the stale upsert of "a" (deleted by the restore) is delivered after end-of-snapshot although nothing
   was committed since the restore: no choice of snapshot point explains the sequence *)
Theorem stale_event_after_restore :
  let st1 := after_restore pre_a in
  let ops := OWatch xq :: post_a in
  forallb no_restore ops = true /\ s_res st1 = [] /\
  forall Lp La rest, glog st1 ops = Lp ++ La ->
    deliv (List.length (s_watches st1)) st1 ops ++ rest <> ideal xq (replay (s_res st1) Lp) La.
Proof.
  cbn zeta. split; [reflexivity|]. split; [reflexivity|]. intros Lp La rest H.
  rewrite glog_a in H. destruct Lp; [|discriminate]. destruct La; [|discriminate].
  change (List.length (s_watches (after_restore pre_a))) with 0%nat. rewrite deliv_a.
  vm_compute. discriminate.
Qed.

Lemma glog_b : glog (after_restore pre_b) (OWatch xq :: post_b) = [(3, Upsert (xres [98] [117;50] 2 2))].
Proof. vm_compute. reflexivity. Qed.

Lemma deliv_b : deliv 1 (after_restore pre_b) (OWatch xq :: post_b)
  = [EndOfSnapshot; Upsert (xres [97] [117;49] 1 1)].
Proof. vm_compute. reflexivity. Qed.

(* the old event is delivered and the new commit (same index 3) is filtered out: with the queue empty
   and Next blocking, the watch has still not been given the commit of "b" *)
Theorem skipped_event_after_restore :
  let st1 := after_restore pre_b in
  let ops := OWatch xq :: post_b in
  forallb no_restore ops = true /\
  s_queue (run st1 ops) = [] /\ snd (step (run st1 ops) (ONext 1)) = OutNoEvent /\
  In (Upsert (xres [98] [117;50] 2 2)) (map snd (glog st1 ops)) /\
  ~ In (Upsert (xres [98] [117;50] 2 2)) (deliv 1 st1 ops) /\
  In (Upsert (xres [97] [117;49] 1 1)) (deliv 1 st1 ops) /\ lk (xk [97]) (run st1 ops) = None.
Proof.
  cbn zeta. split; [reflexivity|]. split; [vm_compute; reflexivity|]. split; [vm_compute; reflexivity|].
  rewrite glog_b, deliv_b. split; [left; reflexivity|]. split.
  - intros [H|[H|[]]]; discriminate.
  - split; [right; left; reflexivity|vm_compute; reflexivity].
Qed.

(* non-vacuity of the hypotheses used in Properties/C18.v *)
Lemma clean_init : clean init.
Proof. unfold clean, init. cbn. repeat split; try constructor. lia. Qed.

(* a restore of a store with nothing queued gives a clean state, whatever watches are still unreleased *)
Lemma restore_clean st l : s_queue st = [] -> clean (fst (step st (ORestore l))).
Proof.
  intros Hq. unfold clean. cbn. rewrite Hq. repeat split; try lia.
  apply Forall_forall. intros w Hw. apply in_map_iff in Hw as (x & <- & _). cbn. split; [reflexivity|].
  destruct (w_state x); discriminate.
Qed.

Lemma clean_after_restore : clean (after_restore [OWatch xq; OWrite (xres [97] [117;49] 0 1); OPublish]).
Proof. apply restore_clean. vm_compute. reflexivity. Qed.

(* and a run on which the watch theorem delivers something: two commits in the gap, then one more *)
Definition demo : list op :=
  [OWrite (xres [97] [117;49] 0 1); OWrite (xres [97] [117;49] 1 2); OWatch xq; ONext 0; ONext 0; OPublish; OPublish;
   ONext 0; OWrite (xres [97] [117;49] 2 3); OPublish; ONext 0].
Lemma demo_deliv : deliv 0 init demo = [Upsert (xres [97] [117;49] 2 2); EndOfSnapshot; Upsert (xres [97] [117;49] 3 3)].
Proof. vm_compute. reflexivity. Qed.
