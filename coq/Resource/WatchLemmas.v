(* C18, part 2 (stream lemmas): what a watch will be given as a function of the raw items ahead
   of it; Watch.Next against that function; buffer bookkeeping. *)
From Verif Require Import Base.Prelude Resource.Model Resource.TableProofs Resource.CasProofs Resource.WatchDefs.
Local Open Scope N_scope.

(* events a watch keeps of a list of published events *)
Definition evs (q : query) (l : list pev) : list wev := map pe_ev (filter (deliverable q) l).

(* everything Next will return from the raw items [raws], starting with Watch.idx = widx *)
Fixpoint fut_raws (q : query) (widx : N) (raws : list raw) : list wev :=
  match raws with
  | [] => []
  | RFrame :: rs => fut_raws q widx rs
  | RBatch [] :: rs => fut_raws q widx rs
  | RBatch (e0 :: b) :: rs =>
      if N.leb (pe_idx e0) widx then fut_raws q widx rs
      else evs q (e0 :: b) ++ fut_raws q (pe_idx e0) rs
  end.

(* Watch.idx after reading all of [raws] *)
Fixpoint end_idx (widx : N) (raws : list raw) : N :=
  match raws with
  | [] => widx
  | RFrame :: rs => end_idx widx rs
  | RBatch [] :: rs => end_idx widx rs
  | RBatch (e0 :: b) :: rs => if N.leb (pe_idx e0) widx then end_idx widx rs else end_idx (pe_idx e0) rs
  end.

Definition raw_le (m : N) (r : raw) : Prop :=
  match r with RFrame => True | RBatch b => forall e, In e b -> pe_idx e <= m end.

Lemma fut_raws_app q rs : forall widx X,
  fut_raws q widx (rs ++ X) = fut_raws q widx rs ++ fut_raws q (end_idx widx rs) X.
Proof.
  induction rs as [|r rs IH]; intros widx X; cbn; [reflexivity|].
  destruct r as [[|e0 b]|]; try apply IH.
  destruct (N.leb (pe_idx e0) widx); [apply IH|]. rewrite IH, app_assoc. reflexivity.
Qed.

Lemma end_idx_app rs : forall widx X, end_idx widx (rs ++ X) = end_idx (end_idx widx rs) X.
Proof.
  induction rs as [|r rs IH]; intros widx X; cbn; [reflexivity|].
  destruct r as [[|e0 b]|]; try apply IH. destruct (N.leb (pe_idx e0) widx); apply IH.
Qed.

Lemma end_idx_le m rs : forall widx, widx <= m -> Forall (raw_le m) rs -> end_idx widx rs <= m.
Proof.
  induction rs as [|r rs IH]; intros widx Hw Hf; cbn; [assumption|].
  inversion Hf; subst. destruct r as [[|e0 b]|]; try (apply IH; assumption).
  destruct (N.leb (pe_idx e0) widx); apply IH; try assumption. apply H1. left; reflexivity.
Qed.

Lemma end_idx_ge rs : forall widx, widx <= end_idx widx rs.
Proof.
  induction rs as [|r rs IH]; intros widx; cbn; [lia|].
  destruct r as [[|e0 b]|]; try apply IH.
  destruct (N.leb (pe_idx e0) widx) eqn:E; [apply IH|]. specialize (IH (pe_idx e0)). lia.
Qed.

(* items that are not newer than Watch.idx give nothing *)
Lemma fut_raws_all_le q rs : forall widx, Forall (raw_le widx) rs -> fut_raws q widx rs = [] /\ end_idx widx rs = widx.
Proof.
  induction rs as [|r rs IH]; intros widx Hf; cbn; [auto|].
  inversion Hf; subst. destruct r as [[|e0 b]|]; try (apply IH; assumption).
  assert (pe_idx e0 <= widx) as Hle by (apply H1; left; reflexivity).
  apply N.leb_le in Hle. rewrite Hle. apply IH; assumption.
Qed.

(* drain *)
Lemma drain_some q l e rest : drain q l = Some (e, rest) -> evs q l = pe_ev e :: evs q rest.
Proof.
  unfold evs. revert e rest; induction l as [|x l IH]; intros e rest; cbn; [discriminate|].
  destruct (deliverable q x) eqn:E.
  - intros H; injection H as <- <-. reflexivity.
  - apply IH.
Qed.

Lemma drain_none q l : drain q l = None -> evs q l = [].
Proof.
  unfold evs. induction l as [|x l IH]; cbn; [reflexivity|].
  destruct (deliverable q x); [discriminate|apply IH].
Qed.

Lemma drain_in q l e rest x : drain q l = Some (e, rest) -> In x rest -> In x l.
Proof.
  revert e rest; induction l as [|y l IH]; intros e rest; cbn; [discriminate|].
  destruct (deliverable q y).
  - intros H; injection H as <- <-. auto.
  - intros H Hin. right. eapply IH; eassumption.
Qed.

(* Watch.Next over the available raw items, against fut_raws *)
Lemma scan_raws_spec q rs : forall widx n widx' k res X,
  scan_raws q widx rs n = (widx', k, res) ->
  exists c, k = (n + c)%nat /\ (c <= List.length rs)%nat /\
  match res with
  | Some (e, rest) =>
      fut_raws q widx (rs ++ X) = pe_ev e :: evs q rest ++ fut_raws q widx' (skipn c rs ++ X)
  | None => c = List.length rs /\ fut_raws q widx (rs ++ X) = fut_raws q widx' X
  end.
Proof.
  induction rs as [|r rs IH]; intros widx n widx' k res X; cbn [scan_raws].
  - intros H; injection H as <- <- <-. exists 0%nat. cbn. split; [lia|]. split; [lia|]. auto.
  - assert (Hskip : scan_raws q widx rs (S n) = (widx', k, res) ->
             fut_raws q widx ((r :: rs) ++ X) = fut_raws q widx (rs ++ X) ->
             exists c, k = (n + c)%nat /\ (c <= List.length (r :: rs))%nat /\
               match res with
               | Some (e, rest) => fut_raws q widx ((r :: rs) ++ X) = pe_ev e :: evs q rest ++ fut_raws q widx' (skipn c (r :: rs) ++ X)
               | None => c = List.length (r :: rs) /\ fut_raws q widx ((r :: rs) ++ X) = fut_raws q widx' X
               end).
    { intros H Hf. destruct (IH _ _ _ _ _ X H) as (c & -> & Hc & Hres).
      exists (S c). cbn [List.length skipn]. split; [lia|]. split; [lia|]. rewrite Hf.
      destruct res as [[e rest]|]; [exact Hres|]. destruct Hres as [-> Hres]. auto. }
    destruct r as [[|e0 b]|].
    + intros H. apply Hskip; [exact H|reflexivity].
    + destruct (N.leb (pe_idx e0) widx) eqn:E.
      * intros H. apply Hskip; [exact H|]. cbn. rewrite E. reflexivity.
      * destruct (drain q (e0 :: b)) as [[e rest]|] eqn:Ed.
        -- intros H; injection H as <- <- <-. exists 1%nat. cbn [List.length skipn]. split; [lia|]. split; [lia|].
           cbn [app fut_raws]. rewrite E. rewrite (drain_some _ _ _ _ Ed). reflexivity.
        -- intros H. destruct (IH _ _ _ _ _ X H) as (c & -> & Hc & Hres).
           exists (S c). cbn [List.length skipn]. split; [lia|]. split; [lia|].
           cbn [app fut_raws]. rewrite E. rewrite (drain_none _ _ Ed). cbn [app].
           destruct res as [[e rest]|]; [exact Hres|]. destruct Hres as [-> Hres]. auto.
    + intros H. apply Hskip; [exact H|reflexivity].
Qed.

(* the index Watch.idx ends up with is the old one or that of an item read *)
Lemma scan_raws_idx q m rs : forall widx n widx' k res,
  scan_raws q widx rs n = (widx', k, res) -> widx <= m -> Forall (raw_le m) rs -> widx' <= m.
Proof.
  induction rs as [|r rs IH]; intros widx n widx' k res; cbn [scan_raws].
  - intros H; injection H as <- <- <-. auto.
  - intros H Hw Hf. inversion Hf; subst. destruct r as [[|e0 b]|]; try (eapply IH; eassumption).
    assert (pe_idx e0 <= m) by (apply H2; left; reflexivity).
    destruct (N.leb (pe_idx e0) widx); [eapply IH; eassumption|].
    destruct (drain q (e0 :: b)) as [[e rest]|].
    + injection H as <- <- <-. assumption.
    + eapply IH; eassumption.
Qed.

Lemma scan_raws_rest q m rs : forall widx n widx' k e rest,
  scan_raws q widx rs n = (widx', k, Some (e, rest)) -> Forall (raw_le m) rs -> forall x, In x rest -> pe_idx x <= m.
Proof.
  induction rs as [|r rs IH]; intros widx n widx' k e rest; cbn [scan_raws]; [discriminate|].
  intros H Hf. inversion Hf; subst. destruct r as [[|e0 b]|]; try (eapply IH; eassumption).
  destruct (N.leb (pe_idx e0) widx); [eapply IH; eassumption|].
  destruct (drain q (e0 :: b)) as [[e' rest']|] eqn:Ed.
  - injection H as <- <- <- <-. intros x Hx. apply H2. eapply drain_in; eassumption.
  - eapply IH; eassumption.
Qed.

(* ---------- routing ---------- *)
Definition sroutes (s : subject) (r : resource) : bool :=
  subject_eqb s (SWild (i_type (r_id r))) || subject_eqb s (STen (i_type (r_id r)) (i_ten (r_id r))).

Lemma route_commit s i e r :
  route s (commit_batch i e r) = if sroutes s r then [PEv s i e] else [].
Proof.
  unfold route, commit_batch, sroutes. cbn [filter pe_subj].
  destruct s as [t|t tn].
  - destruct (subject_eqb (SWild t) (SWild (i_type (r_id r)))) eqn:E1; cbn [orb].
    + apply subject_eqb_eq in E1. rewrite <- E1. reflexivity.
    + reflexivity.
  - cbn [subject_eqb orb]. destruct (rtype_eqb t (i_type (r_id r)) && str_eqb (tn_part tn) (tn_part (i_ten (r_id r))) &&
        str_eqb (tn_ns tn) (tn_ns (i_ten (r_id r)))) eqn:E; [|reflexivity].
    change (subject_eqb (STen t tn) (STen (i_type (r_id r)) (i_ten (r_id r))) = true) in E.
    apply subject_eqb_eq in E. rewrite <- E. reflexivity.
Qed.

(* the batch published for a commit *)
Definition lbatch (c : cev) : batch :=
  match ev_resource (snd c) with Some r => commit_batch (fst c) (snd c) r | None => [] end.

(* raw items the queued batches will become in the buffer of subject s *)
Definition qraw (s : subject) (b : batch) : list raw :=
  match route s b with [] => [] | g => [RBatch g] end.
Definition qraws (s : subject) (q : list batch) : list raw := flat_map (qraw s) q.

Lemma qraws_app s a b : qraws s (a ++ b) = qraws s a ++ qraws s b.
Proof. unfold qraws. apply flat_map_app. Qed.

(* what the commit c contributes to a watch on subject s with query q *)
Definition contrib (s : subject) (q : query) (c : cev) : list wev := evs q (route s (lbatch c)).

Lemma fut_raws_qraw_new s q widx c : widx < fst c ->
  fut_raws q widx (qraw s (lbatch c)) = contrib s q c /\
  (end_idx widx (qraw s (lbatch c)) <= fst c).
Proof.
  intros Hlt. unfold contrib, qraw, lbatch. destruct c as [i e]. cbn [fst snd] in *.
  destruct (ev_resource e) as [r|]; [|cbn; split; [reflexivity|lia]].
  rewrite route_commit. destruct (sroutes s r); cbn [fut_raws end_idx pe_idx].
  - assert (N.leb i widx = false) as -> by (apply N.leb_gt; lia). rewrite app_nil_r. split; [reflexivity|lia].
  - cbn. split; [reflexivity|lia].
Qed.

Lemma raw_le_qraws s m q : (forall b e, In b q -> In e b -> pe_idx e <= m) -> Forall (raw_le m) (qraws s q).
Proof.
  intros H. unfold qraws. apply Forall_forall. intros r Hr. apply in_flat_map in Hr as (b & Hb & Hr).
  unfold qraw in Hr. destruct (route s b) as [|g0 g] eqn:E; [contradiction|].
  destruct Hr as [<-|[]]. cbn. intros e He. apply (H b e Hb).
  assert (In e (route s b)) as Hin by (rewrite E; exact He). unfold route in Hin. apply filter_In in Hin. tauto.
Qed.

(* ---------- buffers and cache as finite maps ---------- *)
Lemma buf_get_set_same s b l : buf_get s (buf_set s b l) = Some b.
Proof. induction l as [|[s' b'] l IH]; cbn; [rewrite subject_eqb_refl; reflexivity|].
  destruct (subject_eqb s s') eqn:E; cbn; [rewrite subject_eqb_refl; reflexivity|]. rewrite E. exact IH. Qed.

Lemma buf_get_set_other s s' b l : s' <> s -> buf_get s' (buf_set s b l) = buf_get s' l.
Proof. intros Hn. induction l as [|[s2 b2] l IH]; cbn.
  - apply subject_eqb_neq in Hn. rewrite Hn. reflexivity.
  - destruct (subject_eqb s s2) eqn:E; cbn.
    + apply subject_eqb_eq in E. subst s2. apply subject_eqb_neq in Hn. rewrite Hn. reflexivity.
    + destruct (subject_eqb s' s2); [reflexivity|exact IH].
Qed.

Lemma buf_get_del_same s l : buf_get s (buf_del s l) = None.
Proof. induction l as [|[s' b'] l IH]; cbn; [reflexivity|].
  destruct (subject_eqb s s') eqn:E; cbn; [exact IH|]. rewrite E. exact IH. Qed.

Lemma buf_get_del_other s s' l : s' <> s -> buf_get s' (buf_del s l) = buf_get s' l.
Proof. intros Hn. induction l as [|[s2 b2] l IH]; cbn; [reflexivity|].
  destruct (subject_eqb s s2) eqn:E; cbn.
  - apply subject_eqb_eq in E. subst s2. apply subject_eqb_neq in Hn. rewrite Hn. exact IH.
  - destruct (subject_eqb s' s2); [reflexivity|exact IH].
Qed.

Lemma cache_get_del_same s l : cache_get s (cache_del s l) = None.
Proof. induction l as [|[s' b'] l IH]; cbn; [reflexivity|].
  destruct (subject_eqb s s') eqn:E; cbn; [exact IH|]. rewrite E. exact IH. Qed.

Lemma cache_get_del_other s s' l : s' <> s -> cache_get s' (cache_del s l) = cache_get s' l.
Proof. intros Hn. induction l as [|[s2 b2] l IH]; cbn; [reflexivity|].
  destruct (subject_eqb s s2) eqn:E; cbn.
  - apply subject_eqb_eq in E. subst s2. apply subject_eqb_neq in Hn. rewrite Hn. exact IH.
  - destruct (subject_eqb s' s2); [reflexivity|exact IH].
Qed.

Lemma cache_get_app_new s s' sn l : cache_get s l = None ->
  cache_get s' (l ++ [(s, sn)]) = if subject_eqb s' s then (match cache_get s' l with Some x => Some x | None => Some sn end) else cache_get s' l.
Proof. intros Hn. induction l as [|[s2 b2] l IH]; cbn.
  - destruct (subject_eqb s' s); reflexivity.
  - cbn in Hn. destruct (subject_eqb s s2) eqn:E; [discriminate|].
    destruct (subject_eqb s' s2) eqn:E2.
    + destruct (subject_eqb s' s); reflexivity.
    + apply IH. exact Hn.
Qed.

Lemma buf_get_publish s b l :
  buf_get s (publish_batch b l) =
  match buf_get s l with
  | Some tb => Some (match route s b with [] => tb | g => TBuf (b_refs tb) (b_items tb ++ [g]) end)
  | None => None
  end.
Proof.
  induction l as [|[s' tb] l IH]; cbn; [reflexivity|].
  destruct (subject_eqb s s') eqn:E.
  - apply subject_eqb_eq in E. subst s'.
    destruct (route s b) eqn:Er; cbn; rewrite subject_eqb_refl; reflexivity.
  - destruct (route s' b); cbn; rewrite E; exact IH.
Qed.

(* ---------- lists ---------- *)
Lemma In_skipn {A} (x : A) n : forall l, In x (skipn n l) -> In x l.
Proof. induction n as [|n IH]; intros l; [auto|]. destruct l as [|y l]; cbn; [auto|]. intros H. right. auto. Qed.

Lemma skipn_app_le {A} n (l x : list A) : (n <= List.length l)%nat -> skipn n (l ++ x) = skipn n l ++ x.
Proof. intros H. rewrite skipn_app. replace (n - List.length l)%nat with 0%nat by lia. reflexivity. Qed.

Lemma skipn_add {A} a b (l : list A) : skipn (a + b) l = skipn b (skipn a l).
Proof. revert l; induction a as [|a IH]; intros l; cbn; [reflexivity|]. destruct l; [destruct b; reflexivity|apply IH]. Qed.

(* replacing the n-th element *)
Definition set_nth {A} (n : nat) (x : A) (l : list A) : list A := firstn n l ++ x :: skipn (S n) l.

Lemma set_nth_split {A} n (x w : A) l : nth_error l n = Some w ->
  exists l1 l2, l = l1 ++ w :: l2 /\ List.length l1 = n /\ set_nth n x l = l1 ++ x :: l2.
Proof.
  intros H. apply nth_error_split in H as (l1 & l2 & -> & Hl). exists l1, l2. split; [reflexivity|]. split; [assumption|].
  unfold set_nth. subst n. rewrite firstn_app, firstn_all, Nat.sub_diag. cbn [firstn]. rewrite app_nil_r.
  replace (S (List.length l1)) with (List.length l1 + 1)%nat by lia.
  rewrite skipn_add, skipn_app, skipn_all, Nat.sub_diag. reflexivity.
Qed.

Lemma nth_error_set_nth {A} n m (x w : A) l : nth_error l n = Some w ->
  nth_error (set_nth n x l) m = if Nat.eqb m n then Some x else nth_error l m.
Proof.
  intros H. destruct (set_nth_split n x w l H) as (l1 & l2 & -> & Hl & ->). subst n.
  destruct (Nat.eqb m (List.length l1)) eqn:E.
  - apply Nat.eqb_eq in E. subst. rewrite nth_error_app2 by lia. rewrite Nat.sub_diag. reflexivity.
  - apply Nat.eqb_neq in E. destruct (Nat.lt_ge_cases m (List.length l1)).
    + rewrite !nth_error_app1 by lia. reflexivity.
    + rewrite !nth_error_app2 by lia. destruct (m - List.length l1)%nat eqn:Em; [lia|]. reflexivity.
Qed.

Lemma length_set_nth {A} n (x w : A) l : nth_error l n = Some w -> List.length (set_nth n x l) = List.length l.
Proof. intros H. destruct (set_nth_split n x w l H) as (l1 & l2 & -> & Hl & ->). rewrite !app_length. reflexivity. Qed.

Lemma filter_length_set_nth {A} (f : A -> bool) n (x w : A) l : nth_error l n = Some w ->
  (List.length (filter f (set_nth n x l)) + (if f w then 1 else 0) = List.length (filter f l) + (if f x then 1 else 0))%nat.
Proof.
  intros H. destruct (set_nth_split n x w l H) as (l1 & l2 & -> & Hl & ->).
  rewrite !filter_app, !app_length. cbn [filter]. destruct (f w), (f x); cbn [List.length]; lia.
Qed.
