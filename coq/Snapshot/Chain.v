(* What a restore gives for ANY reachable state, field by field (no [Fresh] hypothesis); the
   restored state as a fixed point of snapshot-then-restore (second generation: a snapshot OF a
   restored server); the one derived table of the core model (session-check links) after a
   restore. *)
From stdpp Require Import gmap strings.
From RecordUpdate Require Import RecordSet.
From Coq Require Import NArith.
From Verif Require Import Store.Model FSM.NonInterference Snapshot.Model Snapshot.Lemmas Snapshot.Defs Snapshot.Proofs Snapshot.Inv Snapshot.Cut.
Import RecordSetNotations.
Local Open Scope N_scope.

(* ---------- refresh touches the checks' copied service name, nothing else ---------- *)
Lemma refresh_fields s :
  kvs (refresh s) = kvs s /\ tombs (refresh s) = tombs s /\ sessions (refresh s) = sessions s /\
  schecks (refresh s) = schecks s /\ queries (refresh s) = queries s /\ nodes (refresh s) = nodes s /\
  services (refresh s) = services s /\ index (refresh s) = index s /\ lockdelay (refresh s) = lockdelay s.
Proof. destruct s; repeat split; reflexivity. Qed.

Lemma refresh_checks s nd cid :
  checks (refresh s) !! (nd, cid) = refresh_check s nd <$> checks s !! (nd, cid).
Proof.
  destruct s as [kv tb se sc qu no sv ch ix ld]. unfold refresh, set. cbn.
  rewrite map_lookup_imap. destruct (ch !! (nd, cid)); reflexivity.
Qed.

Lemma refresh_check_service s nd c : c_service (refresh_check s nd c) = c_service c.
Proof.
  unfold refresh_check. destruct (bool_decide (c_service c = "")); [reflexivity|].
  destruct (services s !! (nd, c_service c)); [|reflexivity]. destruct c; reflexivity.
Qed.

Lemma repl_fields s :
  kvs (repl s) = kvs s /\ tombs (repl s) = tombs s /\ sessions (repl s) = sessions s /\
  schecks (repl s) = schecks s /\ queries (repl s) = queries s /\ nodes (repl s) = nodes s /\
  services (repl s) = services s /\ checks (repl s) = checks s /\ index (repl s) = index s /\
  lockdelay (repl s) = ∅.
Proof. destruct s; repeat split; reflexivity. Qed.

Lemma Inv_repl s : Inv s -> Inv (repl s).
Proof. destruct s. intros H. exact H. Qed.

Lemma Inv_refresh s : Inv s -> Inv (refresh s).
Proof.
  intros (H1 & H2 & H3 & H4 & H5 & H6).
  destruct (refresh_fields s) as (Ek & Et & Es & Esc & Eq & En & Esv & Ei & _).
  unfold Inv, NodeIdUniq, NodeCreatePos, SvcNode, ChkRef, SCheckExact, IdxPresence.
  rewrite Ek, Et, Es, Esc, Eq, En, Esv, Ei.
  split; [exact H1|]. split; [exact H2|]. split; [exact H3|]. split; [|split; [exact H5|exact H6]].
  intros nd cid c Hc. rewrite refresh_checks in Hc.
  destruct (checks s !! (nd, cid)) as [c0|] eqn:E0; [|discriminate]. cbn in Hc. injection Hc as <-.
  rewrite refresh_check_service. exact (H4 nd cid c0 E0).
Qed.

(* the restored checks carry their service's current name *)
Lemma Fresh_refresh s : Fresh (refresh s).
Proof.
  intros nd cid c sv Hc Hne Hsv.
  destruct (refresh_fields s) as (_ & _ & _ & _ & _ & _ & Esv & _). rewrite Esv in Hsv.
  rewrite refresh_checks in Hc. destruct (checks s !! (nd, cid)) as [c0|] eqn:E0; [|discriminate].
  cbn in Hc. injection Hc as <-. rewrite refresh_check_service in Hne, Hsv.
  unfold refresh_check. rewrite bool_decide_eq_false_2 by exact Hne. rewrite Hsv. destruct c0; reflexivity.
Qed.

Lemma repl_refresh_repl s : repl (refresh (repl s)) = refresh (repl s).
Proof. destruct s; reflexivity. Qed.

(* ---------- the general round trip, field by field ---------- *)
Theorem roundtrip_frame li qm s :
  Inv s ->
  exists r, restore li (snapshot qm s) = Ok r /\
    kvs r = kvs s /\ tombs r = tombs s /\ sessions r = sessions s /\ schecks r = schecks s /\
    queries r = queries s /\ nodes r = nodes s /\ services r = services s /\ index r = index s /\
    lockdelay r = ∅ /\
    forall nd cid, checks r !! (nd, cid) = refresh_check s nd <$> checks s !! (nd, cid).
Proof.
  intros HI. exists (refresh (repl s)). split; [exact (roundtrip_general li s HI qm)|].
  destruct (refresh_fields (repl s)) as (Ek & Et & Es & Esc & Eq & En & Esv & Ei & El).
  destruct (repl_fields s) as (Rk & Rt & Rs & Rsc & Rq & Rn & Rsv & Rc & Ri & Rl).
  rewrite Ek, Et, Es, Esc, Eq, En, Esv, Ei, El, Rk, Rt, Rs, Rsc, Rq, Rn, Rsv, Ri, Rl.
  repeat (split; [reflexivity|]).
  intros nd cid. rewrite refresh_checks, Rc.
  destruct (checks s !! (nd, cid)) as [c|]; [|reflexivity]. cbn. f_equal.
Qed.

(* the session-check link table after a restore is exactly what the restored session rows say
   (Restore.Session rebuilds it; nothing of it is in the snapshot) *)
Theorem restored_session_checks li qm s r :
  Inv s -> restore li (snapshot qm s) = Ok r -> SCheckExact r.
Proof.
  intros HI Hr. rewrite (roundtrip_general li s HI qm) in Hr. injection Hr as <-.
  exact (proj1 (proj2 (proj2 (proj2 (proj2 (Inv_refresh _ (Inv_repl _ HI))))))).
Qed.

(* every modelled read except the node's check list is answered alike, Fresh or not *)
Theorem queries_general li qm s r q :
  Inv s -> restore li (snapshot qm s) = Ok r -> (forall nd, q <> QNodeChecks nd) ->
  run_query q r = run_query q s.
Proof.
  intros HI Hr Hq. rewrite (roundtrip_general li s HI qm) in Hr. injection Hr as <-.
  destruct s as [kv tb se sc qu no sv ch ix ld].
  destruct q; try reflexivity. exfalso. exact (Hq nd eq_refl).
Qed.

(* ---------- second generation ---------- *)
(* The state a restore produces is a fixed point: its own snapshot restores to exactly itself, for
   ALL header indexes and query indexes of the second snapshot -- no [Fresh] hypothesis, because a
   restore leaves every check fresh. *)
Theorem second_generation li qm li2 qm2 s r :
  Inv s -> restore li (snapshot qm s) = Ok r ->
  Inv r /\ Fresh r /\ restore li2 (snapshot qm2 r) = Ok r.
Proof.
  intros HI Hr. rewrite (roundtrip_general li s HI qm) in Hr. injection Hr as <-.
  assert (HI2 : Inv (refresh (repl s))) by (apply Inv_refresh, Inv_repl; exact HI).
  assert (HF2 : Fresh (refresh (repl s))) by apply Fresh_refresh.
  split; [exact HI2|]. split; [exact HF2|].
  rewrite (roundtrip li2 qm2 _ HI2 HF2). f_equal.
Qed.

(* ... and the rest of the history runs alike on the restored server and on a server restored from
   the restored server's snapshot taken [j] commands later (the chained cycle of the oracle). *)
Theorem chained li qm li2 qm2 s r (rest : list (N * cmd)) (j : nat) :
  Inv s -> restore li (snapshot qm s) = Ok r -> wf_log (firstn j rest) r ->
  let m := (run (firstn j rest) r).1 in
  Fresh m ->
  exists r2, restore li2 (snapshot qm2 m) = Ok r2 /\ r2 = repl m /\
    (run (skipn j rest) r2).2 = (run (skipn j rest) m).2 /\
    repl (run (skipn j rest) r2).1 = repl (run (skipn j rest) m).1.
Proof.
  intros HI Hr Hwf m Hf.
  destruct (second_generation li qm li2 qm2 s r HI Hr) as (HIr & _ & _).
  assert (HIm : Inv m) by (apply run_Inv; [exact Hwf|exact HIr]).
  exists (repl m). split; [exact (roundtrip li2 qm2 m HIm Hf)|]. split; [reflexivity|].
  pose proof (run_sim (skipn j rest) (repl m) m (repl_idem m)) as [Hs1 Hs2]. split; [exact Hs2|exact Hs1].
Qed.
