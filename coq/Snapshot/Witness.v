(* Concrete histories: a state that does NOT round-trip (a check that still carries the name its
   service had before it was re-registered under another name), why session ids must be unused,
   and a non-trivial state that meets every hypothesis of the theorems. *)
From stdpp Require Import gmap strings.
From RecordUpdate Require Import RecordSet.
From Coq Require Import NArith.
From Verif Require Import Store.Model Run.Store Snapshot.Model Snapshot.Lemmas Snapshot.Defs Snapshot.Proofs Snapshot.Inv.
Import RecordSetNotations.
Local Open Scope N_scope.

(* wf_log and Fresh are decidable on concrete inputs *)
Fixpoint wf_logb (log : list (N * cmd)) (s : st) : bool :=
  match log with
  | [] => true
  | (idx, c) :: rest =>
    bool_decide (0 < idx) &&
    match c with SessionCreate sid _ => bool_decide (sessions s !! sid = None) | _ => true end &&
    wf_logb rest (apply idx c s).1
  end.

Lemma wf_logb_ok log : forall s, wf_logb log s = true -> wf_log log s.
Proof.
  induction log as [|[idx c] log IH]; intros s H; cbn in *; [exact I|].
  apply andb_true_iff in H as [H H3]. apply andb_true_iff in H as [H1 H2].
  apply bool_decide_eq_true in H1. split; [|apply IH, H3]. split; [exact H1|].
  destruct c; try exact I. apply bool_decide_eq_true in H2. exact H2.
Qed.

Definition freshb (s : st) : bool :=
  forallb (fun '((nd, cid), c) =>
             bool_decide (c_service c = "") ||
             match services s !! (nd, c_service c) with
             | Some sv => bool_decide (c_svcname c = sv_name sv) | None => true end)
          (map_to_list (checks s)).

Lemma freshb_ok s : freshb s = true -> Fresh s.
Proof.
  intros H nd cid c sv Hc Hne Hsv. unfold freshb in H. rewrite forallb_forall in H.
  specialize (H ((nd, cid), c)). cbn in H. rewrite Hsv in H.
  assert (Hin : In ((nd, cid), c) (map_to_list (checks s))) by (apply elem_of_list_In, elem_of_map_to_list; exact Hc).
  specialize (H Hin). apply orb_true_iff in H as [H|H]; apply bool_decide_eq_true in H; [contradiction|exact H].
Qed.

(* ---------- the refutation of the unconditional round trip ---------- *)
(* register service s1 as "web" with a check on it, then re-register s1 as "db": the check still
   says "web"; the restore re-runs ensureCheckTxn, which copies "db" into it *)
Definition stale_log : list (N * cmd) :=
  [ (1, Register "n1" "" 1 false (Some ("s1", "web", 80)) [CheckReq "n1" "c1" 0 "s1" false "" 0 0]);
    (2, Register "n1" "" 1 false (Some ("s1", "db", 80)) []) ].
Definition stale_state : st := (run stale_log st0).1.

Lemma stale_wf : wf_log stale_log st0.
Proof. apply wf_logb_ok. vm_compute. reflexivity. Qed.

Lemma stale_names :
  c_svcname <$> checks stale_state !! ("n1", "c1") = Some "web" /\
  sv_name <$> services stale_state !! ("n1", "s1") = Some "db".
Proof. split; vm_compute; reflexivity. Qed.

Lemma stale_restore :
  exists r, restore 2 (snapshot (fun _ => 0) stale_state) = Ok r /\
            c_svcname <$> checks r !! ("n1", "c1") = Some "db".
Proof. eexists. split; vm_compute; reflexivity. Qed.

Theorem roundtrip_refuted :
  exists h, wf_log h st0 /\ let s := (run h st0).1 in
            exists li qm, restore li (snapshot qm s) <> Ok (repl s).
Proof.
  exists stale_log. split; [exact stale_wf|]. cbn zeta. exists 2, (fun _ => 0). fold stale_state.
  destruct stale_restore as (r & Hr & Hn). rewrite Hr. intros Heq. injection Heq as ->.
  pose proof (proj1 stale_names) as Hw. change (checks (repl stale_state)) with (checks stale_state) in Hn.
  rewrite Hw in Hn. discriminate.
Qed.

(* ---------- why SessionCreate must carry an unused id ---------- *)
(* the same id created twice (never emitted by Session.Apply): the second create overwrites the
   session row, the link of the first stays in session_checks; a restore rebuilds the links from
   the rows *)
Definition reuse_log : list (N * cmd) :=
  [ (1, Register "n1" "" 1 false None [CheckReq "n1" "c1" 0 "" false "" 0 0]);
    (2, SessionCreate "s1" (Sess "n1" "" false ["c1"] false 0));
    (3, SessionCreate "s1" (Sess "n1" "" false [] false 0)) ].

Theorem session_id_reuse_refuted :
  let s := (run reuse_log st0).1 in
  Fresh s /\ ~ wf_log reuse_log st0 /\ restore 3 (snapshot (fun _ => 0) s) <> Ok (repl s).
Proof.
  cbn zeta. split; [apply freshb_ok; vm_compute; reflexivity|]. split.
  - intros (_ & (_ & _) & (_ & H) & _). vm_compute in H. discriminate.
  - intros Heq.
    assert (H : forall r, restore 3 (snapshot (fun _ => 0) (run reuse_log st0).1) = Ok r ->
                          elements (schecks r) = elements (schecks (repl (run reuse_log st0).1))) by (intros r Hr; congruence).
    specialize (H _ Heq). vm_compute in H. discriminate.
Qed.

(* ---------- a non-trivial state meeting every hypothesis ---------- *)
(* two nodes (one with an id), a service with a service check, a node check bound to a session
   that holds a lock, a session-type check, a deleted key (tombstone), a prepared query bound to
   the session *)
Definition rich_log : list (N * cmd) :=
  [ (1, Register "n1" "11111111-1111-1111-1111-111111111111" 1 false (Some ("s1", "web", 80))
                 [CheckReq "n1" "c1" 0 "s1" false "" 0 0; CheckReq "n1" "c2" 0 "" false "" 1 0;
                  CheckReq "n1" "sc1" 2 "" true "lockA" 0 0]);
    (3, Register "n2" "" 2 false None [CheckReq "n2" "serfHealth" 0 "" false "" 0 0]);
    (4, SessionCreate "aaaa" (Sess "n1" "lockA" false ["c2"] true 0));
    (6, KVS VLock (KVReq "a/b" [1; 2] 7 "aaaa" 0 0));
    (7, KVS VSet (KVReq "b" [] 0 "" 0 0));
    (9, KVS VDelete (KVReq "b" [] 0 "" 0 0));
    (10, QuerySet "q1" "aaaa");
    (12, Txn [TKV VSet (KVReq "a" [3] 0 "" 0 0); TService CSet "n2" "s2" "db" 81 0]) ].
Definition rich_state : st := (run rich_log st0).1.

Lemma rich_wf : wf_log rich_log st0.
Proof. apply wf_logb_ok. vm_compute. reflexivity. Qed.
Lemma rich_fresh : Fresh rich_state.
Proof. apply freshb_ok. vm_compute. reflexivity. Qed.
Lemma rich_nontrivial :
  size (kvs rich_state) = 2%nat /\ size (tombs rich_state) = 1%nat /\ size (sessions rich_state) = 1%nat /\
  size (schecks rich_state) = 1%nat /\ size (queries rich_state) = 1%nat /\ size (nodes rich_state) = 2%nat /\
  size (services rich_state) = 2%nat /\ size (checks rich_state) = 4%nat /\ size (index rich_state) = 4%nat /\
  kv_session <$> kvs rich_state !! "a/b" = Some "aaaa" /\
  List.length (snapshot (fun _ => 0) rich_state) = 17%nat.
Proof. repeat split; vm_compute; reflexivity. Qed.
