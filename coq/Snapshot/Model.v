(* Snapshot and restore of the core state store (property C02).

   Model of agent/consul/fsm/snapshot_ce.go (persistCE, the restore* functions) and of the
   state.Restore methods they call, over the core store model of Store/Model.v.  Shaped like the
   code: [snapshot] writes the records in the order of persistCE (per node: the node, its
   services, its checks; then sessions, KVs, tombstones, prepared queries, and the index table
   verbatim); [restore] replays them one by one into an empty store, exactly as FSM.Restore feeds
   the restorers:

     RegisterRequest  -> Restore.Registration = ensureRegistrationTxn(idx=LastIndex, preserveIndexes=true)
                         (the preserveIndexes=true paths of ensureNodeTxn / ensureServiceTxn /
                          ensureCheckTxn are the [_p] functions below)
     Session          -> insertSessionTxn(..., updateMax=true): row, check links, index "sessions" max-merged
     DirEntry         -> insertKVTxn(..., updateMax=true)
     Tombstone        -> Graveyard.RestoreTxn (updateMax=true)
     PreparedQuery    -> row + indexUpdateMaxTxn "prepared-queries"
     IndexEntry       -> IndexRestore: a plain insert, i.e. it OVERWRITES

   The lock-delay map (Store.lockDelay) is local to a server: it is not in the snapshot and a
   restored store starts with an empty one.  No proofs in this file. *)
From stdpp Require Import gmap strings.
From RecordUpdate Require Import RecordSet.
From Coq Require Import NArith.
From Verif Require Import Store.Model.
Import RecordSetNotations.
Local Open Scope N_scope.

(* ---------- snapshot records ---------- *)
Inductive rec :=
| SNode (nd : string) (n : node)                                   (* RegisterRequest, no service, no check *)
| SService (nd : string) (n : node) (sid : string) (sv : service)  (* the same request with Service set *)
| SCheck (nd : string) (n : node) (cid : string) (c : check)       (* the same request with Check set *)
| SSession (sid : string) (ss : session)
| SKV (k : string) (e : kvent)
| STomb (k : string) (idx : N)            (* written as a DirEntry {Key, ModifyIndex} *)
| SQuery (qid sess : string) (modify : N) (* the model's query rows do not carry their ModifyIndex:
                                             [snapshot] takes it from an arbitrary function *)
| SIndex (k : string) (v : N).

#[global] Instance rec_eq_dec : EqDecision rec. Proof. solve_decision. Defined.

(* ---------- Persist ---------- *)
Definition sorted_keys {V} (m : gmap string V) : list string := ssort (elements (dom m)).

(* persistNodes: for every node (memdb order = by name) the node, then Services(node), then Checks(node) *)
Definition snap_node (s : st) (nd : string) : list rec :=
  match nodes s !! nd with
  | None => []
  | Some n =>
    SNode nd n ::
    omap (fun sid => SService nd n sid <$> services s !! (nd, sid)) (services_of_node nd s) ++
    omap (fun cid => SCheck nd n cid <$> checks s !! (nd, cid)) (checks_of_node nd s)
  end.

Definition snap_nodes (s : st) : list rec := concat (snap_node s <$> sorted_keys (nodes s)).
Definition snap_sessions (s : st) : list rec :=
  omap (fun sid => SSession sid <$> sessions s !! sid) (sorted_keys (sessions s)).
Definition snap_kvs (s : st) : list rec := omap (fun k => SKV k <$> kvs s !! k) (sorted_keys (kvs s)).
Definition snap_tombs (s : st) : list rec := omap (fun k => STomb k <$> tombs s !! k) (sorted_keys (tombs s)).
Definition snap_queries (qm : string -> N) (s : st) : list rec :=
  omap (fun q => (fun sess => SQuery q sess (qm q)) <$> queries s !! q) (sorted_keys (queries s)).
Definition snap_index (s : st) : list rec := omap (fun k => SIndex k <$> index s !! k) (sorted_keys (index s)).

(* persistCE, restricted to the modelled tables, in its order *)
Definition snapshot (qm : string -> N) (s : st) : list rec :=
  snap_nodes s ++ snap_sessions s ++ snap_kvs s ++ snap_tombs s ++ snap_queries qm s ++ snap_index s.

(* ---------- Restore ---------- *)
(* indexUpdateMaxTxn *)
Definition index_update_max (k : string) (v : N) (s : st) : st :=
  match index s !! k with
  | Some cur => if bool_decide (v <= cur) then s else set_index k v s
  | None => set_index k v s
  end.

(* ensureNodeTxn with preserveIndexes = true: [n] carries the saved create/modify indexes *)
Definition ensure_node_p (idx : N) (nd : string) (n : node) (s : st) : result st :=
  let id := n_id n in
  let addr := n_addr n in
  r ← (if bool_decide (id = "") then Ok (None, s) else
       match node_by_id id s with
       | Some (oname, on) =>
         if bool_decide (oname = nd) then Ok (Some on, s)
         else if similar_clash false nd id s then Err ESimilarName s
         else s' ← delete_node idx oname s; Ok (Some on, s')
       | None => if similar_clash true nd id s then Err ESimilarName s else Ok (None, s)
       end);
  let '(n0, s1) := r in
  let n1 := match n0 with Some x => Some x | None => nodes s1 !! nd end in
  match n1 with
  | Some x =>
    if bool_decide (n_id x = id) && bool_decide (n_addr x = addr)
       && bool_decide (nodes s1 !! nd = Some x)
    then Ok s1
    else Ok (s1 <| nodes ::= <[nd := Node id addr (n_create x) idx]> |>)
  | None =>
    (* "if this isn't a snapshot or there were no saved indexes" *)
    if bool_decide (n_create n = 0)
    then Ok (s1 <| nodes ::= <[nd := Node id addr idx idx]> |>)
    else Ok (s1 <| nodes ::= <[nd := Node id addr (n_create n) (n_modify n)]> |>)
  end.

(* ensureServiceTxn with preserveIndexes = true *)
Definition ensure_service_p (nd svc : string) (sv : service) (s : st) : result st :=
  match nodes s !! nd with
  | None => Err EMissingNode s
  | Some _ =>
    match services s !! (nd, svc) with
    | Some x =>
      if bool_decide (sv_name x = sv_name sv) && bool_decide (sv_port x = sv_port sv) then Ok s
      else Ok (s <| services ::= <[(nd, svc) := Svc (sv_name sv) (sv_port sv) (sv_create x) (sv_modify x)]> |>)
    | None => Ok (s <| services ::= <[(nd, svc) := sv]> |>)
    end
  end.

(* Restore.Registration = ensureRegistrationTxn(tx, idx, preserveIndexes=true, req, restore=true)
   for a request that carries at most one service and one check (what persistNodes writes) *)
Definition restore_registration (idx : N) (nd : string) (n : node)
           (svc : option (string * service)) (chk : option (string * check)) (s : st) : result st :=
  s1 ← (if changes_node (n_id n) (n_addr n) false (nodes s !! nd) then ensure_node_p idx nd n s else Ok s);
  s2 ← (match svc with
        | None => Ok s1
        | Some (sid, sv) =>
          match services s1 !! (nd, sid) with
          | Some x => if bool_decide (sv_name x = sv_name sv) && bool_decide (sv_port x = sv_port sv) then Ok s1
                      else ensure_service_p nd sid sv s1
          | None => ensure_service_p nd sid sv s1
          end
        end);
  match chk with
  | None => Ok s2
  | Some (cid, c) => ensure_check_p true idx nd cid c s2
  end.

(* one restorer call; [li] = SnapshotHeader.LastIndex *)
Definition restore_rec (li : N) (s : st) (r : rec) : result st :=
  match r with
  | SNode nd n => restore_registration li nd n None None s
  | SService nd n sid sv => restore_registration li nd n (Some (sid, sv)) None s
  | SCheck nd n cid c => restore_registration li nd n None (Some (cid, c)) s
  | SSession sid ss =>
    Ok (index_update_max "sessions" (s_create ss)
          (s <| sessions ::= <[sid := ss]> |>
             <| schecks ::= fun m => list_to_set ((fun cid => (s_node ss, cid, sid)) <$> s_checks ss) ∪ m |>))
  | SKV k e => Ok (index_update_max "kvs" (kv_modify e) (s <| kvs ::= <[k := e]> |>))
  | STomb k i => Ok (index_update_max "tombstones" i (s <| tombs ::= <[k := i]> |>))
  | SQuery q sess m => Ok (index_update_max "prepared-queries" m (s <| queries ::= <[q := sess]> |>))
  | SIndex k v => Ok (set_index k v s)
  end.

(* FSM.Restore: a NEW store is built from the stream and swapped in; any restorer error fails the
   whole restore.  The new store's lock-delay map is empty. *)
Definition restore (li : N) (recs : list rec) : result st := rfold (restore_rec li) recs st0.

(* SnapshotHeader.LastIndex = the maximum of the index rows named like tables (state.Snapshot());
   the catalog rows are not modelled, so [li] is a free input here (the run feeds the header's
   real value) and the theorems quantify over every value of it. *)

(* ---------- what a restore does to the health checks (finding: check-service-fields) ----------
   ensureCheckTxn copies the service's CURRENT name into the check each time it stores the check;
   a service re-registered under another name leaves the old name in its checks until they are
   stored again -- which a restore does. *)
Definition refresh_check (s : st) (nd : string) (c : check) : check :=
  if bool_decide (c_service c = "") then c
  else match services s !! (nd, c_service c) with
       | Some sv => c <| c_svcname := sv_name sv |>
       | None => c
       end.
Definition refresh (s : st) : st :=
  s <| checks ::= map_imap (fun k c => Some (refresh_check s k.1 c)) |>.

(* the modelled read queries: result and reported index *)
Inductive query :=
| QKVGet (k : string) | QKVListAll | QSessionGet (sid : string) | QSessionList
| QNode (nd : string) | QNodeServices (nd : string) | QNodeChecks (nd : string) | QQueryGet (qid : string).

Inductive qres :=
| QRkv (idx : N) (e : option kvent)
| QRkvs (idx : N) (l : list (string * kvent))
| QRsess (idx : N) (x : option session)
| QRsessions (idx : N) (l : list (string * session))
| QRnode (x : option node)
| QRservices (l : list (string * service))
| QRchecks (l : list (string * check))
| QRquery (idx : N) (x : option string).

Definition idx_of (k : string) (s : st) : N := default 0 (index s !! k).

(* KVSGet and KVSList of the whole tree report kvsMaxIndex = max(kvs row, tombstones row) of the
   index table; SessionGet/List the sessions row; PreparedQueryGet the prepared-queries row; the
   catalog reads report indexes from catalog index rows that the core model does not have, so only
   their results are modelled. *)
Definition run_query (q : query) (s : st) : qres :=
  match q with
  | QKVGet k => QRkv (N.max (idx_of "kvs" s) (idx_of "tombstones" s)) (kvs s !! k)
  | QKVListAll => QRkvs (N.max (idx_of "kvs" s) (idx_of "tombstones" s))
                       (omap (fun k => (fun e => (k, e)) <$> kvs s !! k) (sorted_keys (kvs s)))
  | QSessionGet sid => QRsess (idx_of "sessions" s) (sessions s !! sid)
  | QSessionList => QRsessions (idx_of "sessions" s)
                               (omap (fun k => (fun e => (k, e)) <$> sessions s !! k) (sorted_keys (sessions s)))
  | QNode nd => QRnode (nodes s !! nd)
  | QNodeServices nd => QRservices (omap (fun sid => (fun sv => (sid, sv)) <$> services s !! (nd, sid)) (services_of_node nd s))
  | QNodeChecks nd => QRchecks (omap (fun cid => (fun c => (cid, c)) <$> checks s !! (nd, cid)) (checks_of_node nd s))
  | QQueryGet qid => QRquery (idx_of "prepared-queries" s) (queries s !! qid)
  end.
