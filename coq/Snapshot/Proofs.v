(* The round trip: for a state satisfying the reachable-state invariant, restoring its snapshot
   gives back the replicated state, with every service check carrying its service's current name. *)
From stdpp Require Import gmap strings.
From RecordUpdate Require Import RecordSet.
From Coq Require Import NArith.
From Verif Require Import Store.Model Snapshot.Model Snapshot.Lemmas Snapshot.Defs.
Import RecordSetNotations.
Local Open Scope N_scope.

Lemma node_by_id_None id t :
  (forall nm n', nodes t !! nm = Some n' -> n_id n' <> id) -> node_by_id id t = None.
Proof.
  intros H. unfold node_by_id.
  destruct (filter _ _) as [|[nm n'] l] eqn:E; [reflexivity|exfalso].
  assert (Hin : (nm, n') ∈ filter (fun kn : string * node => n_id kn.2 = id) (map_to_list (nodes t)))
    by (rewrite E; left).
  apply elem_of_list_filter in Hin as [Hid Hin]. apply elem_of_map_to_list in Hin.
  exact (H nm n' Hin Hid).
Qed.

(* ---------- replaying a list of keys of a source map ---------- *)
Definition ins_all {V} (src : gmap string V) (l : list string) (m0 : gmap string V) : gmap string V :=
  fold_left (fun acc k => match src !! k with Some e => <[k := e]> acc | None => acc end) l m0.

Lemma ins_all_lookup {V} (src : gmap string V) l : forall m0 k,
  ins_all src l m0 !! k =
  match src !! k with Some e => if decide (k ∈ l) then Some e else m0 !! k | None => m0 !! k end.
Proof.
  unfold ins_all. induction l as [|x l IH]; intros m0 k; cbn [fold_left].
  - destruct (src !! k); [rewrite decide_False by (intros H; inversion H)|]; reflexivity.
  - rewrite IH. destruct (src !! k) as [e|] eqn:Ek.
    + destruct (decide (k ∈ l)) as [Hin|Hnin].
      * rewrite decide_True by (right; exact Hin). reflexivity.
      * destruct (decide (k = x)) as [->|Hne].
        -- rewrite decide_True by left. rewrite Ek, lookup_insert. reflexivity.
        -- rewrite decide_False by (intros H; apply elem_of_cons in H as [H|H]; contradiction).
           destruct (src !! x); [rewrite lookup_insert_ne by congruence|]; reflexivity.
    + destruct (src !! x) as [e|] eqn:Ex; [|reflexivity].
      rewrite lookup_insert_ne by (intros ->; congruence). reflexivity.
Qed.

Lemma ins_all_full {V} (src : gmap string V) : ins_all src (sorted_keys src) ∅ = src.
Proof.
  apply map_eq. intros k. rewrite ins_all_lookup. destruct (src !! k) as [e|] eqn:Ek; [|apply lookup_empty].
  rewrite decide_True; [reflexivity|]. apply elem_of_sorted_keys. rewrite Ek. eauto.
Qed.

Lemma ins_all_over {V} (src ix : gmap string V) : dom ix ⊆ dom src -> ins_all src (sorted_keys src) ix = src.
Proof.
  intros Hd. apply map_eq. intros k. rewrite ins_all_lookup. destruct (src !! k) as [e|] eqn:Ek.
  - rewrite decide_True; [reflexivity|]. apply elem_of_sorted_keys. rewrite Ek. eauto.
  - apply not_elem_of_dom. intros Hin. apply Hd in Hin. apply elem_of_dom in Hin as [? Hin]. congruence.
Qed.

(* indexUpdateMaxTxn on the index map alone *)
Definition ium_ix (k : string) (v : N) (ix : gmap string N) : gmap string N :=
  match ix !! k with
  | Some cur => if bool_decide (v <= cur) then ix else <[k := v]> ix
  | None => <[k := v]> ix
  end.

Lemma ium_eq k v t : index_update_max k v t = t <| index := ium_ix k v (index t) |>.
Proof.
  unfold index_update_max, ium_ix, set_index. destruct t as [a b c d e f g h ix j]. cbn.
  destruct (ix !! k) as [cur|]; [destruct (bool_decide (v <= cur))|]; reflexivity.
Qed.

Lemma ium_ix_dom k v ix : dom (ium_ix k v ix) ⊆ {[k]} ∪ dom ix.
Proof.
  unfold ium_ix. destruct (ix !! k) as [cur|]; [destruct (bool_decide _)|]; try rewrite dom_insert; set_solver.
Qed.

Definition ix_all {V} (key : string) (val : string -> V -> N) (src : gmap string V) (l : list string)
           (ix : gmap string N) : gmap string N :=
  fold_left (fun acc k => match src !! k with Some e => ium_ix key (val k e) acc | None => acc end) l ix.

Lemma ix_all_dom {V} key val (src : gmap string V) l : forall ix, dom (ix_all key val src l ix) ⊆ {[key]} ∪ dom ix.
Proof.
  unfold ix_all. induction l as [|x l IH]; intros ix; cbn [fold_left]; [set_solver|].
  etrans; [apply IH|]. destruct (src !! x); [|set_solver].
  pose proof (ium_ix_dom key (val x v) ix). set_solver.
Qed.

Lemma ix_all_empty {V} key val (src : gmap string V) ix : src = ∅ -> ix_all key val src (sorted_keys src) ix = ix.
Proof. intros ->. unfold sorted_keys. rewrite dom_empty_L, elements_empty. reflexivity. Qed.

Lemma ix_all_within {V} key val (src : gmap string V) ix (D : gset string) :
  dom ix ⊆ D -> (src <> ∅ -> key ∈ D) -> dom (ix_all key val src (sorted_keys src) ix) ⊆ D.
Proof.
  intros Hix Hkey. destruct (decide (src = ∅)) as [He|Hne]; [rewrite ix_all_empty by exact He; exact Hix|].
  etrans; [apply ix_all_dom|]. apply union_subseteq. split; [apply singleton_subseteq_l, Hkey, Hne|exact Hix].
Qed.

Section roundtrip.
Context (li : N) (s : st).
Hypothesis HI : Inv s.

(* the store under construction while the registration records are replayed: [DN], [DS], [DC]
   say which nodes / services / checks have been restored so far *)
Record PS (DN : string -> Prop) (DS DC : string * string -> Prop) (t : st) : Prop := {
  ps_kvs : kvs t = ∅; ps_tombs : tombs t = ∅; ps_sessions : sessions t = ∅; ps_schecks : schecks t = ∅;
  ps_queries : queries t = ∅; ps_index : index t = ∅; ps_delay : lockdelay t = ∅;
  ps_n_in : forall n, DN n -> nodes t !! n = nodes s !! n;
  ps_n_dom : forall n, is_Some (nodes t !! n) -> DN n;
  ps_s_in : forall k, DS k -> services t !! k = services s !! k;
  ps_s_dom : forall k, is_Some (services t !! k) -> DS k;
  ps_c_in : forall k, DC k -> checks t !! k = refresh_check s k.1 <$> checks s !! k;
  ps_c_dom : forall k, is_Some (checks t !! k) -> DC k
}.

Lemma ps_n_out DN DS DC t n : PS DN DS DC t -> ~ DN n -> nodes t !! n = None.
Proof. intros HP Hn. apply eq_None_not_Some. intros Hs. apply Hn, (ps_n_dom _ _ _ _ HP), Hs. Qed.
Lemma ps_s_out DN DS DC t k : PS DN DS DC t -> ~ DS k -> services t !! k = None.
Proof. intros HP Hn. apply eq_None_not_Some. intros Hs. apply Hn, (ps_s_dom _ _ _ _ HP), Hs. Qed.
Lemma ps_c_out DN DS DC t k : PS DN DS DC t -> ~ DC k -> checks t !! k = None.
Proof. intros HP Hn. apply eq_None_not_Some. intros Hs. apply Hn, (ps_c_dom _ _ _ _ HP), Hs. Qed.

Lemma PS_proper DN DS DC DN' DS' DC' t :
  (forall x, DN x <-> DN' x) -> (forall x, DS x <-> DS' x) -> (forall x, DC x <-> DC' x) ->
  PS DN DS DC t -> PS DN' DS' DC' t.
Proof.
  intros H1 H2 H3 [? ? ? ? ? ? ? A B C D E F]. split; try assumption.
  - intros n Hn. apply A, H1, Hn.
  - intros n Hn. apply H1, B, Hn.
  - intros k Hk. apply C, H2, Hk.
  - intros k Hk. apply H2, D, Hk.
  - intros k Hk. apply E, H3, Hk.
  - intros k Hk. apply H3, F, Hk.
Qed.

Lemma PS_st0 : PS (fun _ => False) (fun _ => False) (fun _ => False) st0.
Proof.
  split; try reflexivity; try (intros; contradiction);
    intros k [x Hx]; cbn in Hx; rewrite lookup_empty in Hx; discriminate.
Qed.

Lemma step_node DN DS DC t nd n :
  PS DN DS DC t -> ~ DN nd -> nodes s !! nd = Some n ->
  exists t', restore_rec li t (SNode nd n) = Ok t' /\ PS (fun x => x = nd \/ DN x) DS DC t'.
Proof.
  intros HP Hnd Hn. destruct HI as (Huniq & Hpos & _).
  pose proof (ps_n_out _ _ _ _ _ HP Hnd) as Hnone.
  exists (t <| nodes ::= <[nd := n]> |>). split.
  - cbn [restore_rec]. unfold restore_registration. rewrite Hnone. cbn [changes_node].
    unfold ensure_node_p.
    assert (Hfirst : (if bool_decide (n_id n = "") then Ok (None, t) else
              match node_by_id (n_id n) t with
              | Some (oname, on) =>
                if bool_decide (oname = nd) then Ok (Some on, t)
                else if similar_clash false nd (n_id n) t then Err ESimilarName t
                else s' ← delete_node li oname t; Ok (Some on, s')
              | None => if similar_clash true nd (n_id n) t then Err ESimilarName t else Ok (None, t)
              end) = (Ok (None, t) : result (option node * st))).
    { destruct (bool_decide (n_id n = "")) eqn:Eid; [reflexivity|]. apply bool_decide_eq_false in Eid.
      rewrite node_by_id_None.
      - unfold similar_clash. rewrite Hnone. reflexivity.
      - intros nm n' Hnm Hid.
        assert (Hd : DN nm) by (apply (ps_n_dom _ _ _ _ HP); rewrite Hnm; eauto).
        rewrite (ps_n_in _ _ _ _ HP nm Hd) in Hnm.
        assert (nm = nd) by (eapply (Huniq nm nd n' n); [exact Hnm|exact Hn|exact Hid|rewrite Hid; exact Eid]).
        subst. contradiction. }
    rewrite Hfirst. cbn. rewrite Hnone.
    rewrite bool_decide_eq_false_2 by (eapply Hpos; exact Hn).
    rewrite node_eta. reflexivity.
  - destruct HP as [? ? ? ? ? ? ? A B C D E F]. split; try assumption.
    + intros x Hx; cbn. destruct (decide (x = nd)) as [->|Hne]; [rewrite lookup_insert; symmetry; exact Hn|].
      rewrite lookup_insert_ne by congruence. apply A. destruct Hx as [->|Hx]; [contradiction|exact Hx].
    + intros x Hx. cbn in Hx. destruct (decide (x = nd)) as [->|Hne]; [left; reflexivity|].
      rewrite lookup_insert_ne in Hx by congruence. right. apply B, Hx.
Qed.

Lemma step_service DN DS DC t nd n sid sv :
  PS DN DS DC t -> DN nd -> nodes s !! nd = Some n -> services s !! (nd, sid) = Some sv -> ~ DS (nd, sid) ->
  exists t', restore_rec li t (SService nd n sid sv) = Ok t' /\ PS DN (fun k => k = (nd, sid) \/ DS k) DC t'.
Proof.
  intros HP Hnd Hn Hsv Hns.
  pose proof (ps_n_in _ _ _ _ HP nd Hnd) as Hnode. rewrite Hn in Hnode.
  pose proof (ps_s_out _ _ _ _ _ HP Hns) as Hnone.
  exists (t <| services ::= <[(nd, sid) := sv]> |>). split.
  - cbn [restore_rec]. unfold restore_registration. rewrite Hnode. cbn [changes_node].
    rewrite !bool_decide_eq_true_2 by reflexivity. cbn.
    rewrite Hnone. unfold ensure_service_p. rewrite Hnode, Hnone. reflexivity.
  - destruct HP as [? ? ? ? ? ? ? A B C D E F]. split; try assumption.
    + intros k Hk; cbn. destruct (decide (k = (nd, sid))) as [->|Hne]; [rewrite lookup_insert; symmetry; exact Hsv|].
      rewrite lookup_insert_ne by congruence. apply C. destruct Hk as [->|Hk]; [contradiction|exact Hk].
    + intros k Hk. cbn in Hk. destruct (decide (k = (nd, sid))) as [->|Hne]; [left; reflexivity|].
      rewrite lookup_insert_ne in Hk by congruence. right. apply D, Hk.
Qed.

Lemma sessions_of_check_nil nd cid t : schecks t = ∅ -> sessions_of_check nd cid t = [].
Proof. intros H. unfold sessions_of_check. rewrite H, elements_empty. reflexivity. Qed.

Lemma step_check DN DS DC t nd n cid c :
  PS DN DS DC t -> DN nd -> nodes s !! nd = Some n -> checks s !! (nd, cid) = Some c -> ~ DC (nd, cid) ->
  (c_service c <> "" -> DS (nd, c_service c)) ->
  exists t', restore_rec li t (SCheck nd n cid c) = Ok t' /\ PS DN DS (fun k => k = (nd, cid) \/ DC k) t'.
Proof.
  intros HP Hnd Hn Hc Hnc Hsvc. destruct HI as (_ & _ & _ & Href & _).
  pose proof (ps_n_in _ _ _ _ HP nd Hnd) as Hnode. rewrite Hn in Hnode.
  pose proof (ps_c_out _ _ _ _ _ HP Hnc) as Hnone.
  exists (t <| checks ::= <[(nd, cid) := refresh_check s nd c]> |>). split.
  - cbn [restore_rec]. unfold restore_registration. rewrite Hnode. cbn [changes_node].
    rewrite !bool_decide_eq_true_2 by reflexivity. cbn.
    unfold ensure_check_p, ensure_check_with. rewrite Hnode.
    assert (Hres : resolve_service nd c t = Ok (refresh_check s nd c)).
    { unfold resolve_service, refresh_check. destruct (bool_decide (c_service c = "")) eqn:E; [reflexivity|].
      apply bool_decide_eq_false in E.
      rewrite (ps_s_in _ _ _ _ HP _ (Hsvc E)).
      destruct (Href nd cid c Hc) as [_ Hs]. destruct (Hs E) as [sv Hsv]. rewrite Hsv. reflexivity. }
    rewrite Hres, bind_Ok.
    assert (Hinv : invalidate_if_critical (fun i sid s' => delete_session (fuel_of s') i sid s') li nd cid
                     (refresh_check s nd c) t = Ok t).
    { unfold invalidate_if_critical. destruct (bool_decide _); [|reflexivity].
      rewrite sessions_of_check_nil by (apply (ps_schecks _ _ _ _ HP)). reflexivity. }
    rewrite Hinv, bind_Ok. unfold store_check. rewrite Hnone. cbn. rewrite check_set_same. reflexivity.
  - destruct HP as [? ? ? ? ? ? ? A B C D E F]. split; try assumption.
    + intros k Hk; cbn. destruct (decide (k = (nd, cid))) as [->|Hne]; [rewrite lookup_insert, Hc; reflexivity|].
      rewrite lookup_insert_ne by congruence. apply E. destruct Hk as [->|Hk]; [contradiction|exact Hk].
    + intros k Hk. cbn in Hk. destruct (decide (k = (nd, cid))) as [->|Hne]; [left; reflexivity|].
      rewrite lookup_insert_ne in Hk by congruence. right. apply F, Hk.
Qed.

Lemma svc_phase DN DC nd n l : forall (t : st) (DS : string * string -> Prop),
  NoDup l -> PS DN DS DC t -> DN nd -> nodes s !! nd = Some n ->
  (forall sid, sid ∈ l -> ~ DS (nd, sid)) ->
  exists t', rfold (restore_rec li) (omap (fun sid => SService nd n sid <$> services s !! (nd, sid)) l) t = Ok t' /\
             PS DN (fun k => DS k \/ (k.1 = nd /\ k.2 ∈ l /\ is_Some (services s !! k))) DC t'.
Proof.
  induction l as [|x l IH]; intros t DS Hnd HP Hd Hn Hfresh.
  - exists t. split; [reflexivity|]. eapply PS_proper; [| | |exact HP]; try reflexivity.
    intros k. split; [intros H; left; exact H|intros [H|(_ & H & _)]; [exact H|inversion H]].
  - apply NoDup_cons in Hnd as [Hx Hnd]. cbn [omap list_omap].
    destruct (services s !! (nd, x)) as [sv|] eqn:Esv; cbn [fmap option_fmap option_map].
    + destruct (step_service DN DS DC t nd n x sv HP Hd Hn Esv) as (t1 & Ht1 & HP1);
        [apply Hfresh; left|].
      destruct (IH t1 _ Hnd HP1 Hd Hn) as (t2 & Ht2 & HP2).
      { intros sid Hsid [Heq|Hds]; [injection Heq as ->; contradiction|].
        eapply Hfresh; [right; exact Hsid|exact Hds]. }
      exists t2. split; [cbn [rfold]; rewrite Ht1, bind_Ok; exact Ht2|].
      eapply PS_proper; [| | |exact HP2]; try reflexivity.
      intros k. split.
      * intros [[->|H]|(H1 & H2 & H3)].
        -- right. cbn. split; [reflexivity|]. split; [left|rewrite Esv; eauto].
        -- left. exact H.
        -- right. split; [exact H1|]. split; [right; exact H2|exact H3].
      * intros [H|(H1 & H2 & H3)]; [left; right; exact H|].
        apply elem_of_cons in H2 as [H2|H2].
        -- left. left. destruct k as [k1 k2]. cbn in *. subst. reflexivity.
        -- right. split; [exact H1|]. split; [exact H2|exact H3].
    + destruct (IH t DS Hnd HP Hd Hn) as (t2 & Ht2 & HP2).
      { intros sid Hsid. apply Hfresh. right. exact Hsid. }
      exists t2. split; [exact Ht2|].
      eapply PS_proper; [| | |exact HP2]; try reflexivity.
      intros k. split.
      * intros [H|(H1 & H2 & H3)]; [left; exact H|right]. split; [exact H1|]. split; [right; exact H2|exact H3].
      * intros [H|(H1 & H2 & H3)]; [left; exact H|].
        apply elem_of_cons in H2 as [H2|H2].
        -- exfalso. destruct k as [k1 k2]. cbn in *. subst. rewrite Esv in H3. destruct H3 as [? H3]. discriminate.
        -- right. split; [exact H1|]. split; [exact H2|exact H3].
Qed.

Lemma chk_phase DN DS nd n l : forall (t : st) (DC : string * string -> Prop),
  NoDup l -> PS DN DS DC t -> DN nd -> nodes s !! nd = Some n ->
  (forall cid, cid ∈ l -> ~ DC (nd, cid)) ->
  (forall cid c, checks s !! (nd, cid) = Some c -> c_service c <> "" -> DS (nd, c_service c)) ->
  exists t', rfold (restore_rec li) (omap (fun cid => SCheck nd n cid <$> checks s !! (nd, cid)) l) t = Ok t' /\
             PS DN DS (fun k => DC k \/ (k.1 = nd /\ k.2 ∈ l /\ is_Some (checks s !! k))) t'.
Proof.
  induction l as [|x l IH]; intros t DC Hnd HP Hd Hn Hfresh Hsvc.
  - exists t. split; [reflexivity|]. eapply PS_proper; [| | |exact HP]; try reflexivity.
    intros k. split; [intros H; left; exact H|intros [H|(_ & H & _)]; [exact H|inversion H]].
  - apply NoDup_cons in Hnd as [Hx Hnd]. cbn [omap list_omap].
    destruct (checks s !! (nd, x)) as [c|] eqn:Ec; cbn [fmap option_fmap option_map].
    + destruct (step_check DN DS DC t nd n x c HP Hd Hn Ec) as (t1 & Ht1 & HP1);
        [apply Hfresh; left|apply (Hsvc x c Ec)|].
      destruct (IH t1 _ Hnd HP1 Hd Hn) as (t2 & Ht2 & HP2).
      { intros cid Hcid [Heq|Hds]; [injection Heq as ->; contradiction|].
        eapply Hfresh; [right; exact Hcid|exact Hds]. }
      { exact Hsvc. }
      exists t2. split; [cbn [rfold]; rewrite Ht1, bind_Ok; exact Ht2|].
      eapply PS_proper; [| | |exact HP2]; try reflexivity.
      intros k. split.
      * intros [[->|H]|(H1 & H2 & H3)].
        -- right. cbn. split; [reflexivity|]. split; [left|rewrite Ec; eauto].
        -- left. exact H.
        -- right. split; [exact H1|]. split; [right; exact H2|exact H3].
      * intros [H|(H1 & H2 & H3)]; [left; right; exact H|].
        apply elem_of_cons in H2 as [H2|H2].
        -- left. left. destruct k as [k1 k2]. cbn in *. subst. reflexivity.
        -- right. split; [exact H1|]. split; [exact H2|exact H3].
    + destruct (IH t DC Hnd HP Hd Hn) as (t2 & Ht2 & HP2).
      { intros cid Hcid. apply Hfresh. right. exact Hcid. }
      { exact Hsvc. }
      exists t2. split; [exact Ht2|].
      eapply PS_proper; [| | |exact HP2]; try reflexivity.
      intros k. split.
      * intros [H|(H1 & H2 & H3)]; [left; exact H|right]. split; [exact H1|]. split; [right; exact H2|exact H3].
      * intros [H|(H1 & H2 & H3)]; [left; exact H|].
        apply elem_of_cons in H2 as [H2|H2].
        -- exfalso. destruct k as [k1 k2]. cbn in *. subst. rewrite Ec in H3. destruct H3 as [? H3]. discriminate.
        -- right. split; [exact H1|]. split; [exact H2|exact H3].
Qed.

Lemma node_phase DN DS DC t nd n :
  PS DN DS DC t -> ~ DN nd -> nodes s !! nd = Some n ->
  (forall k, DS k -> DN k.1) -> (forall k, DC k -> DN k.1) ->
  exists t', rfold (restore_rec li) (snap_node s nd) t = Ok t' /\
             PS (fun x => x = nd \/ DN x)
                (fun k => DS k \/ (k.1 = nd /\ is_Some (services s !! k)))
                (fun k => DC k \/ (k.1 = nd /\ is_Some (checks s !! k))) t'.
Proof.
  intros HP Hnd Hn HDS HDC. destruct HI as (_ & _ & _ & Href & _).
  unfold snap_node. rewrite Hn. cbn [rfold].
  destruct (step_node DN DS DC t nd n HP Hnd Hn) as (t1 & Ht1 & HP1). rewrite Ht1, bind_Ok, rfold_app.
  destruct (svc_phase _ DC nd n (services_of_node nd s) t1 DS (NoDup_services_of_node nd s) HP1) as (t2 & Ht2 & HP2);
    [left; reflexivity|exact Hn|intros sid _ Hds; apply Hnd, (HDS _ Hds)|].
  rewrite Ht2, bind_Ok.
  destruct (chk_phase _ _ nd n (checks_of_node nd s) t2 DC (NoDup_checks_of_node nd s) HP2) as (t3 & Ht3 & HP3);
    [left; reflexivity|exact Hn|intros cid _ Hdc; apply Hnd, (HDC _ Hdc)| |].
  { intros cid c Hc Hne. right. cbn. split; [reflexivity|].
    destruct (Href nd cid c Hc) as [_ Hs]. specialize (Hs Hne).
    split; [apply elem_of_services_of_node; exact Hs|exact Hs]. }
  exists t3. split; [exact Ht3|].
  eapply PS_proper; [| | |exact HP3]; [reflexivity| |].
  - intros [k1 k2]. cbn. split.
    + intros [H|(H1 & H2 & H3)]; [left; exact H|right; split; [exact H1|exact H3]].
    + intros [H|(H1 & H3)]; [left; exact H|right]. split; [exact H1|]. split; [subst; apply elem_of_services_of_node; exact H3|exact H3].
  - intros [k1 k2]. cbn. split.
    + intros [H|(H1 & H2 & H3)]; [left; exact H|right; split; [exact H1|exact H3]].
    + intros [H|(H1 & H3)]; [left; exact H|right]. split; [exact H1|]. split; [subst; apply elem_of_checks_of_node; exact H3|exact H3].
Qed.

Lemma nodes_phase l : forall (t : st) (DN : string -> Prop) (DS DC : string * string -> Prop),
  NoDup l -> (forall nd, nd ∈ l -> ~ DN nd /\ is_Some (nodes s !! nd)) ->
  (forall k, DS k -> DN k.1) -> (forall k, DC k -> DN k.1) ->
  PS DN DS DC t ->
  exists t', rfold (restore_rec li) (concat (snap_node s <$> l)) t = Ok t' /\
             PS (fun x => DN x \/ x ∈ l)
                (fun k => DS k \/ (k.1 ∈ l /\ is_Some (services s !! k)))
                (fun k => DC k \/ (k.1 ∈ l /\ is_Some (checks s !! k))) t'.
Proof.
  induction l as [|x l IH]; intros t DN DS DC Hnd Hl HDS HDC HP.
  - exists t. split; [reflexivity|]. eapply PS_proper; [| | |exact HP].
    + intros y. split; [intros H; left; exact H|intros [H|H]; [exact H|inversion H]].
    + intros k. split; [intros H; left; exact H|intros [H|[H _]]; [exact H|inversion H]].
    + intros k. split; [intros H; left; exact H|intros [H|[H _]]; [exact H|inversion H]].
  - apply NoDup_cons in Hnd as [Hx Hnd]. cbn [fmap list_fmap concat]. rewrite rfold_app.
    destruct (Hl x) as [Hdx [n Hn]]; [left|].
    destruct (node_phase DN DS DC t x n HP Hdx Hn HDS HDC) as (t1 & Ht1 & HP1). rewrite Ht1, bind_Ok.
    pose proof (fun H1 H2 H3 => IH t1 _ _ _ Hnd H1 H2 H3 HP1) as IH'. cbv beta in IH'.
    destruct IH' as (t2 & Ht2 & HP2).
    + intros nd Hin. destruct (Hl nd) as [Hd Hs]; [right; exact Hin|]. split; [|exact Hs].
      intros [->|Hd']; [contradiction|contradiction].
    + intros k [H|[H _]]; [right; apply HDS, H|left; exact H].
    + intros k [H|[H _]]; [right; apply HDC, H|left; exact H].
    + exists t2. split; [exact Ht2|]. eapply PS_proper; [| | |exact HP2].
      * intros y. split.
        -- intros [[->|H]|H]; [right; left|left; exact H|right; right; exact H].
        -- intros [H|H]; [left; right; exact H|]. apply elem_of_cons in H as [->|H]; [left; left; reflexivity|right; exact H].
      * intros k. split.
        -- intros [[H|[H1 H2]]|[H1 H2]]; [left; exact H|right; split; [rewrite H1; left|exact H2]|right; split; [right; exact H1|exact H2]].
        -- intros [H|[H1 H2]]; [left; left; exact H|]. apply elem_of_cons in H1 as [H1|H1];
             [left; right; split; [exact H1|exact H2]|right; split; [exact H1|exact H2]].
      * intros k. split.
        -- intros [[H|[H1 H2]]|[H1 H2]]; [left; exact H|right; split; [rewrite H1; left|exact H2]|right; split; [right; exact H1|exact H2]].
        -- intros [H|[H1 H2]]; [left; left; exact H|]. apply elem_of_cons in H1 as [H1|H1];
             [left; right; split; [exact H1|exact H2]|right; split; [exact H1|exact H2]].
Qed.

(* ---------- the registration records ---------- *)
Definition reg_state : st := St ∅ ∅ ∅ ∅ ∅ (nodes s) (services s) (checks (refresh s)) ∅ ∅.

Lemma reg_phase : rfold (restore_rec li) (snap_nodes s) st0 = Ok reg_state.
Proof.
  destruct HI as (_ & _ & Hsn & Href & _).
  pose proof (fun H1 H2 H3 => nodes_phase (sorted_keys (nodes s)) st0 _ _ _ (NoDup_sorted_keys _) H1 H2 H3 PS_st0) as Hph.
  cbv beta in Hph. destruct Hph as (t & Ht & HP).
  - intros nd Hin. split; [tauto|apply elem_of_sorted_keys, Hin].
  - tauto.
  - tauto.
  - unfold snap_nodes. rewrite Ht. f_equal.
    destruct HP as [H1 H2 H3 H4 H5 H6 H7 A B C D E F]. destruct t as [kv tb se sc qu no sv ch ix ld]. cbn in *.
    subst. unfold reg_state. f_equal.
    + apply map_eq. intros k. destruct (nodes s !! k) as [x|] eqn:Ek.
      * rewrite <- Ek. apply A. right. apply elem_of_sorted_keys. rewrite Ek. eauto.
      * apply eq_None_not_Some. intros Hs. destruct (B k Hs) as [[]|Hin].
        apply elem_of_sorted_keys in Hin. rewrite Ek in Hin. destruct Hin; discriminate.
    + apply map_eq. intros k. destruct (services s !! k) as [x|] eqn:Ek.
      * rewrite <- Ek. apply C. right. split; [|rewrite Ek; eauto]. destruct k as [k1 k2].
        apply elem_of_sorted_keys. exact (Hsn k1 k2 x Ek).
      * apply eq_None_not_Some. intros Hs. destruct (D k Hs) as [[]|[_ Hin]].
        rewrite Ek in Hin. destruct Hin; discriminate.
    + apply map_eq. intros k. cbn. rewrite map_lookup_imap. destruct (checks s !! k) as [x|] eqn:Ek.
      * cbn. rewrite E; [rewrite Ek; reflexivity|]. right. split; [|rewrite Ek; eauto]. destruct k as [k1 k2].
        apply elem_of_sorted_keys. exact (proj1 (Href k1 k2 x Ek)).
      * cbn. apply eq_None_not_Some. intros Hs. destruct (F k Hs) as [[]|[_ Hin]].
        rewrite Ek in Hin. destruct Hin; discriminate.
Qed.

(* ---------- sessions, KVs, tombstones, prepared queries ---------- *)
Definition links (sid : string) (ss : session) : gset (string * string * string) :=
  list_to_set ((fun cid => (s_node ss, cid, sid)) <$> s_checks ss).
Definition sc_all (l : list string) (sc : gset (string * string * string)) : gset (string * string * string) :=
  fold_left (fun acc sid => match sessions s !! sid with Some ss => links sid ss ∪ acc | None => acc end) l sc.

Lemma elem_of_sc_all l : forall sc m,
  m ∈ sc_all l sc <-> m ∈ sc \/ exists sid ss, sid ∈ l /\ sessions s !! sid = Some ss /\ m ∈ links sid ss.
Proof.
  unfold sc_all. induction l as [|x l IH]; intros sc m; cbn [fold_left].
  - split; [intros H; left; exact H|intros [H|(sid & ss & H & _)]; [exact H|inversion H]].
  - rewrite IH. split.
    + intros [H|(sid & ss & H1 & H2 & H3)].
      * destruct (sessions s !! x) as [ss|] eqn:Ex; [|left; exact H].
        apply elem_of_union in H as [H|H]; [right; exists x, ss; split; [left|split; [exact Ex|exact H]]|left; exact H].
      * right. exists sid, ss. split; [right; exact H1|split; assumption].
    + intros [H|(sid & ss & H1 & H2 & H3)].
      * left. destruct (sessions s !! x); [apply elem_of_union; right|]; exact H.
      * apply elem_of_cons in H1 as [->|H1].
        -- left. rewrite H2. apply elem_of_union. left. exact H3.
        -- right. exists sid, ss. split; [exact H1|split; assumption].
Qed.

Lemma sess_phase l : forall kv tb se sc qu no sv ch ix ld,
  rfold (restore_rec li) (omap (fun sid => SSession sid <$> sessions s !! sid) l) (St kv tb se sc qu no sv ch ix ld) =
  Ok (St kv tb (ins_all (sessions s) l se) (sc_all l sc) qu no sv ch
         (ix_all "sessions" (fun _ ss => s_create ss) (sessions s) l ix) ld).
Proof.
  induction l as [|x l IH]; intros; [reflexivity|]. cbn [omap list_omap].
  unfold ins_all, sc_all, ix_all. cbn [fold_left].
  destruct (sessions s !! x) as [ss|] eqn:Ex; cbn [fmap option_fmap option_map]; [|apply IH].
  rewrite rfold_cons. cbn [restore_rec]. rewrite bind_Ok, ium_eq. cbn -[restore_rec ium_ix]. apply IH.
Qed.

Lemma kv_phase l : forall kv tb se sc qu no sv ch ix ld,
  rfold (restore_rec li) (omap (fun k => SKV k <$> kvs s !! k) l) (St kv tb se sc qu no sv ch ix ld) =
  Ok (St (ins_all (kvs s) l kv) tb se sc qu no sv ch
         (ix_all "kvs" (fun _ e => kv_modify e) (kvs s) l ix) ld).
Proof.
  induction l as [|x l IH]; intros; [reflexivity|]. cbn [omap list_omap].
  unfold ins_all, ix_all. cbn [fold_left].
  destruct (kvs s !! x) as [e|] eqn:Ex; cbn [fmap option_fmap option_map]; [|apply IH].
  rewrite rfold_cons. cbn [restore_rec]. rewrite bind_Ok, ium_eq. cbn -[restore_rec ium_ix]. apply IH.
Qed.

Lemma tomb_phase l : forall kv tb se sc qu no sv ch ix ld,
  rfold (restore_rec li) (omap (fun k => STomb k <$> tombs s !! k) l) (St kv tb se sc qu no sv ch ix ld) =
  Ok (St kv (ins_all (tombs s) l tb) se sc qu no sv ch
         (ix_all "tombstones" (fun _ i => i) (tombs s) l ix) ld).
Proof.
  induction l as [|x l IH]; intros; [reflexivity|]. cbn [omap list_omap].
  unfold ins_all, ix_all. cbn [fold_left].
  destruct (tombs s !! x) as [e|] eqn:Ex; cbn [fmap option_fmap option_map]; [|apply IH].
  rewrite rfold_cons. cbn [restore_rec]. rewrite bind_Ok, ium_eq. cbn -[restore_rec ium_ix]. apply IH.
Qed.

Lemma query_phase (qm : string -> N) l : forall kv tb se sc qu no sv ch ix ld,
  rfold (restore_rec li) (omap (fun q => (fun sess => SQuery q sess (qm q)) <$> queries s !! q) l)
        (St kv tb se sc qu no sv ch ix ld) =
  Ok (St kv tb se sc (ins_all (queries s) l qu) no sv ch
         (ix_all "prepared-queries" (fun q _ => qm q) (queries s) l ix) ld).
Proof.
  induction l as [|x l IH]; intros; [reflexivity|]. cbn [omap list_omap].
  unfold ins_all, ix_all. cbn [fold_left].
  destruct (queries s !! x) as [e|] eqn:Ex; cbn [fmap option_fmap option_map]; [|apply IH].
  rewrite rfold_cons. cbn [restore_rec]. rewrite bind_Ok, ium_eq. cbn -[restore_rec ium_ix]. apply IH.
Qed.

Lemma index_phase l : forall kv tb se sc qu no sv ch ix ld,
  rfold (restore_rec li) (omap (fun k => SIndex k <$> index s !! k) l) (St kv tb se sc qu no sv ch ix ld) =
  Ok (St kv tb se sc qu no sv ch (ins_all (index s) l ix) ld).
Proof.
  induction l as [|x l IH]; intros; [reflexivity|]. cbn [omap list_omap].
  unfold ins_all. cbn [fold_left].
  destruct (index s !! x) as [e|] eqn:Ex; cbn [fmap option_fmap option_map]; [|apply IH].
  rewrite rfold_cons. cbn [restore_rec]. rewrite bind_Ok. cbn -[restore_rec]. apply IH.
Qed.

Lemma sc_all_full : sc_all (sorted_keys (sessions s)) ∅ = schecks s.
Proof.
  destruct HI as (_ & _ & _ & _ & Hex & _).
  apply sets.set_eq. intros [[n c] sid]. split.
  - intros H. apply elem_of_sc_all in H as [H|(sid' & ss & H1 & H2 & H3)]; [set_solver|].
    unfold links in H3. apply elem_of_list_to_set, elem_of_list_fmap in H3 as (cid & Heq & Hin).
    injection Heq as -> -> ->. apply Hex. exists ss. split; [exact H2|split; [reflexivity|exact Hin]].
  - intros H. apply Hex in H as (ss & H1 & H2 & H3). apply elem_of_sc_all. right. exists sid, ss.
    split; [apply elem_of_sorted_keys; rewrite H1; eauto|].
    split; [exact H1|]. unfold links. apply elem_of_list_to_set, elem_of_list_fmap. exists c. subst. split; [reflexivity|exact H3].
Qed.

(* ---------- the round trip ---------- *)
Theorem roundtrip_general (qm : string -> N) : restore li (snapshot qm s) = Ok (refresh (repl s)).
Proof.
  pose proof HI as (_ & _ & _ & _ & _ & Hk & Ht & Hs & Hq).
  unfold restore, snapshot. rewrite rfold_app, reg_phase, bind_Ok. unfold reg_state.
  unfold snap_sessions. rewrite rfold_app, sess_phase, bind_Ok.
  unfold snap_kvs. rewrite rfold_app, kv_phase, bind_Ok.
  unfold snap_tombs. rewrite rfold_app, tomb_phase, bind_Ok.
  unfold snap_queries. rewrite rfold_app, query_phase, bind_Ok.
  unfold snap_index. rewrite index_phase.
  rewrite !ins_all_full, sc_all_full. rewrite ins_all_over.
  - destruct s; reflexivity.
  - (* every index row an updateMax created is a row of the snapshot's index table *)
    apply ix_all_within; [|intros H; apply elem_of_dom, Hq, H].
    apply ix_all_within; [|intros H; apply elem_of_dom, Ht, H].
    apply ix_all_within; [|intros H; apply elem_of_dom, Hk, H].
    apply ix_all_within; [|intros H; apply elem_of_dom, Hs, H].
    rewrite dom_empty_L. set_solver.
Qed.

End roundtrip.

(* a state whose service checks carry their services' current names is a fixed point of [refresh] *)
Lemma refresh_check_fresh s nd cid c : Fresh s -> checks s !! (nd, cid) = Some c -> refresh_check s nd c = c.
Proof.
  intros Hf Hc. unfold refresh_check. destruct (bool_decide (c_service c = "")) eqn:E; [reflexivity|].
  apply bool_decide_eq_false in E. destruct (services s !! (nd, c_service c)) as [sv|] eqn:Esv; [|reflexivity].
  rewrite <- (Hf nd cid c sv Hc E Esv). destruct c; reflexivity.
Qed.

Lemma refresh_fresh s : Fresh s -> refresh s = s.
Proof.
  intros Hf.
  assert (Hc : map_imap (fun (k : string * string) c => Some (refresh_check s k.1 c)) (checks s) = checks s).
  { apply map_eq. intros [nd cid]. rewrite map_lookup_imap. destruct (checks s !! (nd, cid)) as [c|] eqn:Ec; [|reflexivity].
    cbn. f_equal. exact (refresh_check_fresh _ nd cid c Hf Ec). }
  assert (E : forall (t : st) f, f (checks t) = checks t -> t <| checks ::= f |> = t)
    by (intros [kv tb se sc qu no sv ch ix ld] f H; cbn in H; unfold set; cbn; rewrite H; reflexivity).
  unfold refresh. apply E. exact Hc.
Qed.

Lemma Fresh_repl s : Fresh s -> Fresh (repl s).
Proof. intros Hf. exact Hf. Qed.

Theorem roundtrip li qm s : Inv s -> Fresh s -> restore li (snapshot qm s) = Ok (repl s).
Proof.
  intros HI Hf. rewrite (roundtrip_general li s HI qm). f_equal. apply refresh_fresh. exact Hf.
Qed.
