(* The reachable-state invariant [Inv] (Snapshot/Defs.v) holds after every well-formed history.

   Part 1: what the session/check cascades do to the catalog "shape" (nodes, services, and which
           service each check names): nothing.
   Part 2: the catalog part of the invariant (ids unique, create indexes positive, no orphans).
   Part 3: the session-link and index-row parts, for which the catalog rows are irrelevant.
   Part 4: [apply] and [run]. *)
From stdpp Require Import gmap strings.
From RecordUpdate Require Import RecordSet.
From Coq Require Import NArith.
From Verif Require Import Store.Model Store.Inv Snapshot.Model Snapshot.Lemmas Snapshot.Defs.
Import RecordSetNotations.
Local Open Scope N_scope.

(* ================================================================ Part 1: the catalog shape *)
Definition cmap (s : st) : gmap (string * string) string := c_service <$> checks s.

Definition shape_eq (s p : st) : Prop :=
  nodes p = nodes s /\ services p = services s /\ cmap p = cmap s.

Lemma shape_eq_refl s : shape_eq s s.
Proof. repeat split. Qed.
Lemma shape_eq_trans a b c : shape_eq a b -> shape_eq b c -> shape_eq a c.
Proof. intros (H1 & H2 & H3) (H4 & H5 & H6). repeat split; congruence. Qed.

Lemma cmap_lookup s k : cmap s !! k = c_service <$> checks s !! k.
Proof. unfold cmap. apply lookup_fmap. Qed.

Lemma drop_session_shape idx sid ss s : shape_eq s (drop_session idx sid ss s).
Proof.
  unfold drop_session. cbn zeta.
  pose proof (release_or_delete_keys_frame idx sid ss (set_index "sessions" idx (s <| sessions ::= delete sid |>)))
    as (_ & _ & _ & Hn & Hs & Hc).
  match goal with |- context [bool_decide ?P] => destruct (bool_decide P) end;
    unfold shape_eq, cmap; cbn; rewrite Hn, Hs, Hc; repeat split.
Qed.

(* ensureCheckTxn: on success the check (nd, cid) names hc's service, whose registration exists *)
Definition check_spec (nd cid : string) (hc : check) (s : st) (r : result st) : Prop :=
  match r with
  | Ok s' => nodes s' = nodes s /\ services s' = services s /\
             cmap s' = <[(nd, cid) := c_service hc]> (cmap s) /\
             is_Some (nodes s !! nd) /\
             (c_service hc <> "" -> is_Some (services s !! (nd, c_service hc)))
  | Err _ p => shape_eq s p
  end.

Lemma ensure_check_with_shape del pre idx nd cid hc s :
  (forall i sid t, outcome (shape_eq t) id (del i sid t)) ->
  check_spec nd cid hc s (ensure_check_with del pre idx nd cid hc s).
Proof.
  intros Hdel. unfold ensure_check_with.
  destruct (nodes s !! nd) as [n|] eqn:En; [|apply shape_eq_refl].
  assert (Htail : forall hc1, c_service hc1 = c_service hc ->
            (c_service hc <> "" -> is_Some (services s !! (nd, c_service hc))) ->
            check_spec nd cid hc s
              (s1 ← invalidate_if_critical del idx nd cid hc1 s;
               Ok (store_check pre idx nd cid hc1 (checks s !! (nd, cid)) s1))).
  { intros hc1 Hsvc Hok.
    assert (Hi : outcome (shape_eq s) id (invalidate_if_critical del idx nd cid hc1 s)).
    { unfold invalidate_if_critical. destruct (bool_decide _); [|apply shape_eq_refl].
      apply rfold_outcome; [|apply shape_eq_refl]. intros sid t Ht. specialize (Hdel idx sid t).
      destruct (del idx sid t); cbn in *; eapply shape_eq_trans; eassumption. }
    destruct (invalidate_if_critical del idx nd cid hc1 s) as [s1|e p]; cbn in Hi; [|exact Hi].
    rewrite bind_Ok. cbn [check_spec]. destruct Hi as (Hn & Hs & Hc).
    assert (Hcm : cmap (store_check pre idx nd cid hc1 (checks s !! (nd, cid)) s1) = <[(nd, cid) := c_service hc]> (cmap s)).
    { unfold store_check. destruct (checks s !! (nd, cid)) as [x|] eqn:Ex.
      - destruct (negb (check_same x hc1)) eqn:Esame.
        + unfold cmap in *. cbn. rewrite fmap_insert. cbn. rewrite Hc, Hsvc. reflexivity.
        + rewrite Hc. symmetry. apply insert_id. rewrite cmap_lookup, Ex. cbn. f_equal.
          apply negb_false_iff in Esame. unfold check_same in Esame.
          repeat (apply andb_true_iff in Esame as [Esame ?]).
          match goal with H : bool_decide (c_service x = c_service hc1) = true |- _ => apply bool_decide_eq_true in H; rewrite H end.
          exact Hsvc.
      - unfold cmap in *. cbn. rewrite fmap_insert. cbn. rewrite Hc, Hsvc. reflexivity. }
    assert (Hfr : nodes (store_check pre idx nd cid hc1 (checks s !! (nd, cid)) s1) = nodes s1 /\
                  services (store_check pre idx nd cid hc1 (checks s !! (nd, cid)) s1) = services s1).
    { unfold store_check. destruct (match checks s !! (nd, cid) with Some x => negb (check_same x hc1) | None => true end); split; reflexivity. }
    destruct Hfr as [Hfn Hfs]. rewrite Hfn, Hfs. repeat split; try assumption. rewrite En. eauto. }
  unfold resolve_service. destruct (bool_decide (c_service hc = "")) eqn:Ee.
  - rewrite bind_Ok. apply Htail; [reflexivity|]. apply bool_decide_eq_true in Ee. intros Hne. contradiction.
  - destruct (services s !! (nd, c_service hc)) as [sv|] eqn:Esv; [|apply shape_eq_refl].
    rewrite bind_Ok. apply Htail; [destruct hc; reflexivity|]. intros _. eauto.
Qed.

Lemma delete_session_shape fuel : forall idx sid s, outcome (shape_eq s) id (delete_session fuel idx sid s).
Proof.
  induction fuel as [|fuel IH]; intros idx sid s; cbn [delete_session]; [apply shape_eq_refl|].
  destruct (sessions s !! sid) as [ss|]; [|apply shape_eq_refl].
  pose proof (drop_session_shape idx sid ss s) as H4.
  set (s4 := drop_session idx sid ss s) in *.
  assert (Hfold : outcome (shape_eq s4) id
            (rfold (fun s' cid =>
                      match checks s4 !! (s_node ss, cid) with
                      | None => Ok s'
                      | Some c => ensure_check_with (delete_session fuel) true idx (s_node ss) cid
                                    (c <| c_status := critical |> <| c_output := OInvalid sid |>) s'
                      end) (session_checks_of_node (s_node ss) (s_name ss) s4) s4)).
  { apply rfold_outcome; [|apply shape_eq_refl]. intros cid s' Hs'.
    destruct (checks s4 !! (s_node ss, cid)) as [c|] eqn:Ec; [|exact Hs'].
    pose proof (ensure_check_with_shape (delete_session fuel) true idx (s_node ss) cid
                  (c <| c_status := critical |> <| c_output := OInvalid sid |>) s' (fun i sd t => IH i sd t)) as Hx.
    destruct (ensure_check_with _ _ _ _ _ _ s') as [s''|e p]; cbn in *.
    - destruct Hx as (Hn & Hs & Hc & _). destruct Hs' as (Hn' & Hs'' & Hc').
      repeat split; [congruence|congruence|]. rewrite Hc, Hc'. apply insert_id.
      rewrite cmap_lookup, Ec. destruct c; reflexivity.
    - eapply shape_eq_trans; eassumption. }
  destruct (rfold _ _ s4) as [s'|e p]; cbn in *; eapply shape_eq_trans; eassumption.
Qed.

Lemma delete_session_top_shape idx sid s : outcome (shape_eq s) id (delete_session_top idx sid s).
Proof. apply delete_session_shape. Qed.

Lemma ensure_check_p_shape pre idx nd cid hc s : check_spec nd cid hc s (ensure_check_p pre idx nd cid hc s).
Proof.
  unfold ensure_check_p. apply ensure_check_with_shape. intros i sid t. apply delete_session_shape.
Qed.

(* deleteCheckTxn removes exactly the check, whatever the cascade does *)
Lemma delete_check_shape idx nd cid s :
  outcome (fun p => nodes p = nodes s /\ services p = services s /\ cmap p = delete (nd, cid) (cmap s)) id
          (delete_check idx nd cid s).
Proof.
  unfold delete_check. destruct (checks s !! (nd, cid)) as [c|] eqn:Ec.
  - set (s1 := s <| checks ::= delete (nd, cid) |>).
    assert (H1 : nodes s1 = nodes s /\ services s1 = services s /\ cmap s1 = delete (nd, cid) (cmap s)).
    { repeat split. unfold cmap, s1. cbn. apply fmap_delete. }
    assert (Hf : outcome (shape_eq s1) id (rfold (fun s' sid => delete_session_top idx sid s') (sessions_of_check nd cid s1) s1)).
    { apply rfold_outcome; [|apply shape_eq_refl]. intros sid t Ht.
      pose proof (delete_session_top_shape idx sid t) as Hx.
      destruct (delete_session_top idx sid t); cbn in *; eapply shape_eq_trans; eassumption. }
    destruct H1 as (A & B & C).
    destruct (rfold _ _ s1) as [s'|e p]; cbn in *; destruct Hf as (A' & B' & C'); unfold id;
      rewrite A', B', C'; repeat split; assumption.
  - cbn. repeat split. symmetry. apply delete_notin. rewrite cmap_lookup, Ec. reflexivity.
Qed.

(* ================================================================ Part 2: the catalog invariant *)
Definition CatS (no : gmap string node) (sv : gmap (string * string) service)
           (cm : gmap (string * string) string) : Prop :=
  (forall n1 n2 a b, no !! n1 = Some a -> no !! n2 = Some b -> n_id a = n_id b -> n_id a <> "" -> n1 = n2) /\
  (forall n a, no !! n = Some a -> n_create a <> 0) /\
  (forall nd sid x, sv !! (nd, sid) = Some x -> is_Some (no !! nd)) /\
  (forall nd cid v, cm !! (nd, cid) = Some v -> is_Some (no !! nd) /\ (v <> "" -> is_Some (sv !! (nd, v)))).

Definition Cat (s : st) : Prop := CatS (nodes s) (services s) (cmap s).

Lemma Cat_iff s : Cat s <-> NodeIdUniq s /\ NodeCreatePos s /\ SvcNode s /\ ChkRef s.
Proof.
  unfold Cat, CatS, NodeIdUniq, NodeCreatePos, SvcNode, ChkRef. split.
  - intros (A & B & C & D). repeat split; try assumption.
    + eapply (D nd cid (c_service c)). rewrite cmap_lookup, H. reflexivity.
    + eapply (D nd cid (c_service c)). rewrite cmap_lookup, H. reflexivity.
  - intros (A & B & C & D). repeat split; try assumption.
    + rewrite cmap_lookup in H. destruct (checks s !! (nd, cid)) as [c|] eqn:Ec; [|discriminate].
      exact (proj1 (D nd cid c Ec)).
    + rewrite cmap_lookup in H. destruct (checks s !! (nd, cid)) as [c|] eqn:Ec; [|discriminate].
      cbn in H. injection H as <-. exact (proj2 (D nd cid c Ec)).
Qed.

Lemma Cat_shape s p : shape_eq s p -> Cat s -> Cat p.
Proof. intros (A & B & C). unfold Cat. rewrite A, B, C. tauto. Qed.

Lemma CatS_check_sub no sv cm cm' : cm' ⊆ cm -> CatS no sv cm -> CatS no sv cm'.
Proof.
  intros Hsub (A & B & C & D). repeat split; try assumption.
  - eapply D. eapply lookup_weaken; eassumption.
  - eapply D. eapply lookup_weaken; eassumption.
Qed.

Lemma CatS_check_insert no sv cm nd cid v :
  is_Some (no !! nd) -> (v <> "" -> is_Some (sv !! (nd, v))) -> CatS no sv cm -> CatS no sv (<[(nd, cid) := v]> cm).
Proof.
  intros Hn Hs (A & B & C & D). repeat split; try assumption.
  - destruct (decide ((nd0, cid0) = (nd, cid))) as [Heq|Hne].
    + injection Heq as -> ->. exact Hn.
    + rewrite lookup_insert_ne in H by congruence. eapply D; eassumption.
  - destruct (decide ((nd0, cid0) = (nd, cid))) as [Heq|Hne].
    + injection Heq as -> ->. rewrite lookup_insert in H. injection H as <-. exact Hs.
    + rewrite lookup_insert_ne in H by congruence. eapply D; eassumption.
Qed.

Lemma CatS_service_insert no sv cm nd sid x :
  is_Some (no !! nd) -> CatS no sv cm -> CatS no (<[(nd, sid) := x]> sv) cm.
Proof.
  intros Hn (A & B & C & D). repeat split; try assumption.
  - intros nd' sid' x' H. destruct (decide ((nd', sid') = (nd, sid))) as [Heq|Hne].
    + injection Heq as -> ->. exact Hn.
    + rewrite lookup_insert_ne in H by congruence. eapply C; eassumption.
  - eapply D; eassumption.
  - intros Hv. destruct (decide ((nd0, v) = (nd, sid))) as [Heq|Hne].
    + rewrite Heq, lookup_insert. eauto.
    + rewrite lookup_insert_ne by congruence. eapply D; eassumption.
Qed.

Lemma CatS_service_delete no sv cm nd svc :
  (forall cid, cm !! (nd, cid) = Some svc -> svc = "") -> CatS no sv cm -> CatS no (delete (nd, svc) sv) cm.
Proof.
  intros Hno (A & B & C & D). repeat split; try assumption.
  - intros nd' sid' x' H. apply lookup_delete_Some in H as [_ H]. eapply C; eassumption.
  - eapply D; eassumption.
  - intros Hv. destruct (decide ((nd0, v) = (nd, svc))) as [Heq|Hne].
    + injection Heq as -> ->. exfalso. apply Hv. eapply Hno. eassumption.
    + rewrite lookup_delete_ne by congruence. eapply D; eassumption.
Qed.

Lemma CatS_node_insert no sv cm nd id addr c m :
  c <> 0 -> (forall nm x, no !! nm = Some x -> nm <> nd -> id <> "" -> n_id x <> id) ->
  CatS no sv cm -> CatS (<[nd := Node id addr c m]> no) sv cm.
Proof.
  intros Hc Hid (A & B & C & D). repeat split.
  - intros n1 n2 a b H1 H2 Hab Hne.
    destruct (decide (n1 = nd)) as [->|N1]; destruct (decide (n2 = nd)) as [->|N2]; [reflexivity| | |].
    + rewrite lookup_insert in H1. injection H1 as <-. rewrite lookup_insert_ne in H2 by congruence.
      cbn in *. exfalso. eapply (Hid n2 b H2 N2); [exact Hne|symmetry; exact Hab].
    + rewrite lookup_insert in H2. injection H2 as <-. rewrite lookup_insert_ne in H1 by congruence.
      cbn in *. exfalso. eapply (Hid n1 a H1 N1); [rewrite <- Hab; exact Hne|exact Hab].
    + rewrite lookup_insert_ne in H1, H2 by congruence. eapply A; eassumption.
  - intros n a H. destruct (decide (n = nd)) as [->|N]; [rewrite lookup_insert in H; injection H as <-; exact Hc|].
    rewrite lookup_insert_ne in H by congruence. eapply B; eassumption.
  - intros nd' sid x H. destruct (decide (nd' = nd)) as [->|N]; [rewrite lookup_insert; eauto|].
    rewrite lookup_insert_ne by congruence. eapply C; eassumption.
  - destruct (decide (nd0 = nd)) as [->|N]; [rewrite lookup_insert; eauto|].
    rewrite lookup_insert_ne by congruence. eapply D; eassumption.
  - eapply D; eassumption.
Qed.

Lemma CatS_node_delete no sv cm nd :
  (forall sid, sv !! (nd, sid) = None) -> (forall cid, cm !! (nd, cid) = None) ->
  CatS no sv cm -> CatS (delete nd no) sv cm.
Proof.
  intros Hs Hc (A & B & C & D). repeat split.
  - intros n1 n2 a b H1 H2. apply lookup_delete_Some in H1 as [_ H1]. apply lookup_delete_Some in H2 as [_ H2].
    eapply A; eassumption.
  - intros n a H. apply lookup_delete_Some in H as [_ H]. eapply B; eassumption.
  - intros nd' sid x H. destruct (decide (nd' = nd)) as [->|N]; [rewrite Hs in H; discriminate|].
    rewrite lookup_delete_ne by congruence. eapply C; eassumption.
  - destruct (decide (nd0 = nd)) as [->|N]; [rewrite Hc in H; discriminate|].
    rewrite lookup_delete_ne by congruence. eapply D; eassumption.
  - eapply D; eassumption.
Qed.

(* folding deleteCheckTxn over a list of check ids of node [nd] *)
Definition less_checks (s p : st) : Prop :=
  nodes p = nodes s /\ services p = services s /\ cmap p ⊆ cmap s.

Lemma less_checks_refl s : less_checks s s.
Proof. split; [reflexivity|split; reflexivity]. Qed.
Lemma less_checks_trans a b c : less_checks a b -> less_checks b c -> less_checks a c.
Proof. intros (A & B & C) (D & E & F). repeat split; [congruence|congruence|etrans; eassumption]. Qed.
Lemma less_checks_Cat s p : less_checks s p -> Cat s -> Cat p.
Proof. intros (A & B & C) H. unfold Cat. rewrite A, B. eapply CatS_check_sub; eassumption. Qed.

Lemma fold_delete_check idx nd l : forall s,
  match rfold (fun s' cid => delete_check idx nd cid s') l s with
  | Ok p => less_checks s p /\ forall cid, cid ∈ l -> cmap p !! (nd, cid) = None
  | Err _ p => less_checks s p
  end.
Proof.
  induction l as [|x l IH]; intros s; [split; [apply less_checks_refl|intros cid H; inversion H]|].
  rewrite rfold_cons. pose proof (delete_check_shape idx nd x s) as Hx.
  destruct (delete_check idx nd x s) as [s1|e p]; cbn in Hx; destruct Hx as (A & B & C).
  - rewrite bind_Ok. assert (H1 : less_checks s s1) by (repeat split; try assumption; rewrite C; apply delete_subseteq).
    specialize (IH s1). destruct (rfold _ l s1) as [p|e p].
    + destruct IH as [H2 H3]. split; [eapply less_checks_trans; eassumption|].
      intros cid Hin. apply elem_of_cons in Hin as [->|Hin]; [|apply H3, Hin].
      destruct H2 as (_ & _ & Hsub). apply eq_None_not_Some. intros [v Hv].
      eapply lookup_weaken in Hv; [|exact Hsub]. rewrite C, lookup_delete in Hv. discriminate.
    + eapply less_checks_trans; eassumption.
  - rewrite bind_Err. repeat split; try assumption. rewrite C. apply delete_subseteq.
Qed.

Lemma delete_service_Cat idx nd svc s :
  Cat s ->
  match delete_service idx nd svc s with
  | Ok p => nodes p = nodes s /\ cmap p ⊆ cmap s /\ services p = delete (nd, svc) (services s) /\ Cat p
  | Err _ p => less_checks s p /\ Cat p
  end.
Proof.
  intros HC. unfold delete_service. destruct (services s !! (nd, svc)) as [x|] eqn:Ex.
  - pose proof (fold_delete_check idx nd (checks_of_service nd svc s) s) as Hf.
    destruct (rfold _ _ s) as [s1|e p].
    + rewrite bind_Ok. destruct Hf as [(A & B & C) Hgone]. cbn.
      split; [exact A|]. split; [exact C|]. split; [rewrite B; reflexivity|].
      unfold Cat.
      change (CatS (nodes s1) (delete (nd, svc) (services s1)) (cmap s1)).
      rewrite A, B. apply CatS_service_delete.
      * intros cid Hc. exfalso.
        assert (Hin : cid ∈ checks_of_service nd svc s).
        { apply elem_of_checks_of_service. eapply lookup_weaken in Hc; [|exact C].
          rewrite cmap_lookup in Hc. destruct (checks s !! (nd, cid)) as [c|]; [|discriminate].
          cbn in Hc. injection Hc as Hc. eauto. }
        rewrite (Hgone cid Hin) in Hc. discriminate.
      * eapply CatS_check_sub; [exact C|exact HC].
    + rewrite bind_Err. split; [exact Hf|eapply less_checks_Cat; eassumption].
  - split; [reflexivity|]. split; [reflexivity|]. split; [symmetry; apply delete_notin; exact Ex|exact HC].
Qed.

Definition less_cat (s p : st) : Prop :=
  nodes p = nodes s /\ services p ⊆ services s /\ cmap p ⊆ cmap s.
Lemma less_cat_trans a b c : less_cat a b -> less_cat b c -> less_cat a c.
Proof. intros (A & B & C) (D & E & F). repeat split; [congruence|etrans; eassumption|etrans; eassumption]. Qed.

Lemma fold_delete_service idx nd l : forall s, Cat s ->
  match rfold (fun s' svc => delete_service idx nd svc s') l s with
  | Ok p => less_cat s p /\ Cat p /\ forall sid, sid ∈ l -> services p !! (nd, sid) = None
  | Err _ p => less_cat s p /\ Cat p
  end.
Proof.
  induction l as [|x l IH]; intros s HC;
    [split; [split; [reflexivity|split; reflexivity]|split; [exact HC|intros sid H; inversion H]]|].
  rewrite rfold_cons. pose proof (delete_service_Cat idx nd x s HC) as Hx.
  destruct (delete_service idx nd x s) as [s1|e p].
  - rewrite bind_Ok. destruct Hx as (A & B & C & D).
    assert (H1 : less_cat s s1) by (split; [exact A|split; [rewrite C; apply delete_subseteq|exact B]]).
    specialize (IH s1 D). destruct (rfold _ l s1) as [p|e p].
    + destruct IH as (H2 & H3 & H4). split; [eapply less_cat_trans; eassumption|]. split; [exact H3|].
      intros sid Hin. apply elem_of_cons in Hin as [->|Hin]; [|apply H4, Hin].
      destruct H2 as (_ & Hsub & _). apply eq_None_not_Some. intros [v Hv].
      eapply lookup_weaken in Hv; [|exact Hsub]. rewrite C, lookup_delete in Hv. discriminate.
    + destruct IH as (H2 & H3). split; [eapply less_cat_trans; eassumption|exact H3].
  - rewrite bind_Err. destruct Hx as ((A & B & C) & D). split; [|exact D].
    split; [exact A|split; [rewrite B; reflexivity|exact C]].
Qed.

Lemma fold_session_top_shape idx l : forall s,
  outcome (shape_eq s) id (rfold (fun s' sid => delete_session_top idx sid s') l s).
Proof.
  intros s. apply rfold_outcome; [|apply shape_eq_refl]. intros sid t Ht.
  pose proof (delete_session_top_shape idx sid t) as Hx.
  destruct (delete_session_top idx sid t); cbn in *; eapply shape_eq_trans; eassumption.
Qed.

Lemma delete_node_Cat idx nd s :
  Cat s ->
  match delete_node idx nd s with
  | Ok p => nodes p = delete nd (nodes s) /\ Cat p
  | Err _ p => Cat p
  end.
Proof.
  intros HC. unfold delete_node. destruct (nodes s !! nd) as [n|] eqn:En.
  - pose proof (fold_delete_service idx nd (services_of_node nd s) s HC) as H1.
    destruct (rfold _ (services_of_node nd s) s) as [s1|e p]; [|rewrite bind_Err; exact (proj2 H1)].
    rewrite bind_Ok. destruct H1 as ((A1 & B1 & C1) & D1 & G1).
    pose proof (fold_delete_check idx nd (checks_of_node nd s1) s1) as H2.
    destruct (rfold _ (checks_of_node nd s1) s1) as [s2|e p];
      [|rewrite bind_Err; eapply less_checks_Cat; eassumption].
    rewrite bind_Ok. destruct H2 as ((A2 & B2 & C2) & G2). cbn zeta.
    set (s3 := s2 <| nodes ::= delete nd |>).
    assert (HC3 : Cat s3).
    { unfold Cat, s3. change (CatS (delete nd (nodes s2)) (services s2) (cmap s2)). apply CatS_node_delete.
      - intros sid. rewrite B2. apply eq_None_not_Some. intros [v Hv].
        assert (Hin : sid ∈ services_of_node nd s).
        { apply elem_of_services_of_node. eapply lookup_weaken in Hv; [|exact B1]. eauto. }
        rewrite (G1 sid Hin) in Hv. discriminate.
      - intros cid. apply eq_None_not_Some. intros [v Hv].
        assert (Hin : cid ∈ checks_of_node nd s1).
        { apply elem_of_checks_of_node. eapply lookup_weaken in Hv; [|exact C2].
          rewrite cmap_lookup in Hv. destruct (checks s1 !! (nd, cid)); [eauto|discriminate]. }
        rewrite (G2 cid Hin) in Hv. discriminate.
      - eapply (less_checks_Cat s1 s2); [split; [exact A2|split; [exact B2|exact C2]]|exact D1]. }
    pose proof (fold_session_top_shape idx (sessions_of_node nd s3) s3) as H3.
    destruct (rfold _ (sessions_of_node nd s3) s3) as [p|e p]; cbn in H3.
    + split; [|eapply Cat_shape; eassumption]. destruct H3 as (A3 & _). rewrite A3. unfold s3. cbn. rewrite A2, A1. reflexivity.
    + eapply Cat_shape; eassumption.
  - split; [|exact HC]. symmetry. apply delete_notin. exact En.
Qed.

Lemma node_by_id_Some id s nm n : node_by_id id s = Some (nm, n) -> nodes s !! nm = Some n /\ n_id n = id.
Proof.
  unfold node_by_id. destruct (filter _ _) as [|x l] eqn:E; [discriminate|]. intros H. injection H as ->.
  assert (Hin : (nm, n) ∈ filter (fun kn : string * node => n_id kn.2 = id) (map_to_list (nodes s))) by (rewrite E; left).
  apply elem_of_list_filter in Hin as [Hid Hin]. apply elem_of_map_to_list in Hin. split; assumption.
Qed.

Lemma node_by_id_None_inv id s : node_by_id id s = None -> forall nm n, nodes s !! nm = Some n -> n_id n <> id.
Proof.
  unfold node_by_id. destruct (filter _ _) as [|x l] eqn:E; [|discriminate]. intros _ nm n Hn Hid.
  assert (Hin : (nm, n) ∈ filter (fun kn : string * node => n_id kn.2 = id) (map_to_list (nodes s))).
  { apply elem_of_list_filter. split; [exact Hid|apply elem_of_map_to_list; exact Hn]. }
  rewrite E in Hin. inversion Hin.
Qed.

Lemma ensure_node_Cat idx nd nid addr s : idx <> 0 -> Cat s -> outcome Cat id (ensure_node idx nd nid addr s).
Proof.
  intros Hidx HC. unfold ensure_node.
  (* the final insertion, given that no OTHER node of s1 carries the nid *)
  assert (Hfin : forall (n0 : option node) s1, Cat s1 ->
            (forall x, n0 = Some x -> n_create x <> 0) ->
            (forall nm x, nodes s1 !! nm = Some x -> nm <> nd -> nid <> "" -> n_id x <> nid) ->
            outcome Cat id
              (let n1 := match n0 with Some x => Some x | None => nodes s1 !! nd end in
               match n1 with
               | Some x => if bool_decide (n_id x = nid) && bool_decide (n_addr x = addr) && bool_decide (nodes s1 !! nd = Some x)
                           then Ok s1 else Ok (s1 <| nodes ::= <[nd := Node nid addr (n_create x) idx]> |>)
               | None => Ok (s1 <| nodes ::= <[nd := Node nid addr idx idx]> |>)
               end)).
  { intros n0 s1 HC1 Hn0 Hoth. cbn zeta.
    assert (Hins : forall c, c <> 0 -> Cat (s1 <| nodes ::= <[nd := Node nid addr c idx]> |>)).
    { intros c Hc. unfold Cat. change (CatS (<[nd := Node nid addr c idx]> (nodes s1)) (services s1) (cmap s1)).
      apply CatS_node_insert; [exact Hc|exact Hoth|exact HC1]. }
    destruct n0 as [x|].
    - destruct (_ && _); cbn; [exact HC1|apply Hins, (Hn0 x eq_refl)].
    - destruct (nodes s1 !! nd) as [x|] eqn:Ex.
      + destruct (_ && _); cbn; [exact HC1|apply Hins]. destruct HC1 as (_ & B & _). eapply B; exact Ex.
      + cbn. apply Hins, Hidx. }
  destruct (bool_decide (nid = "")) eqn:Eid.
  - apply bool_decide_eq_true in Eid. rewrite bind_Ok. apply (Hfin None s HC); [discriminate|].
    intros nm x _ _ Hne. contradiction.
  - apply bool_decide_eq_false in Eid.
    destruct (node_by_id nid s) as [[oname on]|] eqn:Eby.
    + apply node_by_id_Some in Eby as [Hon Hid].
      assert (Hcr : n_create on <> 0) by (destruct HC as (_ & B & _); eapply B; exact Hon).
      destruct (bool_decide (oname = nd)) eqn:Eon.
      * apply bool_decide_eq_true in Eon. subst oname. rewrite bind_Ok.
        apply (Hfin (Some on) s HC); [intros x [= <-]; exact Hcr|].
        intros nm x Hx Hne _ Hxid. apply Hne. destruct HC as (A & _).
        eapply (A nm nd x on); [exact Hx|exact Hon|congruence|congruence].
      * destruct (similar_clash false nd nid s); [exact HC|].
        pose proof (delete_node_Cat idx oname s HC) as Hd.
        destruct (delete_node idx oname s) as [s'|e p]; [|exact Hd].
        rewrite !bind_Ok. destruct Hd as [Hnodes HC'].
        apply (Hfin (Some on) s' HC'); [intros x [= <-]; exact Hcr|].
        intros nm x Hx Hne _ Hxid. rewrite Hnodes in Hx. apply lookup_delete_Some in Hx as [Hno Hx].
        apply Hno. destruct HC as (A & _). symmetry.
        eapply (A nm oname x on); [exact Hx|exact Hon|congruence|congruence].
    + destruct (similar_clash true nd nid s); [exact HC|]. rewrite bind_Ok.
      apply (Hfin None s HC); [discriminate|].
      intros nm x Hx _ _. eapply node_by_id_None_inv; eassumption.
Qed.

Lemma ensure_service_Cat idx nd svc name port s : Cat s -> outcome Cat id (ensure_service idx nd svc name port s).
Proof.
  intros HC. unfold ensure_service. destruct (nodes s !! nd) as [n|] eqn:En; [|exact HC].
  assert (Hins : forall x, Cat (s <| services ::= <[(nd, svc) := x]> |>)).
  { intros x. unfold Cat. change (CatS (nodes s) (<[(nd, svc) := x]> (services s)) (cmap s)).
    apply CatS_service_insert; [rewrite En; eauto|exact HC]. }
  destruct (services s !! (nd, svc)) as [x|]; [destruct (_ && _)|]; cbn; [exact HC|apply Hins|apply Hins].
Qed.

Lemma check_spec_Cat nd cid hc s r : Cat s -> check_spec nd cid hc s r -> outcome Cat id r.
Proof.
  intros HC. destruct r as [s'|e p]; cbn.
  - intros (A & B & C & D & E). unfold Cat. rewrite A, B, C. apply CatS_check_insert; assumption.
  - intros H. eapply Cat_shape; eassumption.
Qed.

Lemma ensure_check_p_Cat pre idx nd cid hc s : Cat s -> outcome Cat id (ensure_check_p pre idx nd cid hc s).
Proof. intros HC. eapply check_spec_Cat; [exact HC|apply ensure_check_p_shape]. Qed.

Lemma delete_check_Cat idx nd cid s : Cat s -> outcome Cat id (delete_check idx nd cid s).
Proof.
  intros HC. pose proof (delete_check_shape idx nd cid s) as H.
  destruct (delete_check idx nd cid s) as [p|e p]; cbn in *; destruct H as (A & B & C);
    (eapply (less_checks_Cat s p); [split; [exact A|split; [exact B|rewrite C; apply delete_subseteq]]|exact HC]).
Qed.

Lemma delete_session_top_Cat idx sid s : Cat s -> outcome Cat id (delete_session_top idx sid s).
Proof.
  intros HC. pose proof (delete_session_top_shape idx sid s) as H.
  destruct (delete_session_top idx sid s); cbn in *; eapply Cat_shape; eassumption.
Qed.

Lemma delete_service_Cat' idx nd svc s : Cat s -> outcome Cat id (delete_service idx nd svc s).
Proof.
  intros HC. pose proof (delete_service_Cat idx nd svc s HC) as H.
  destruct (delete_service idx nd svc s); cbn; [exact (proj2 (proj2 (proj2 H)))|exact (proj2 H)].
Qed.

Lemma delete_node_Cat' idx nd s : Cat s -> outcome Cat id (delete_node idx nd s).
Proof.
  intros HC. pose proof (delete_node_Cat idx nd s HC) as H.
  destruct (delete_node idx nd s); cbn; [exact (proj2 H)|exact H].
Qed.

(* a state that differs only outside the catalog rows *)
Definition cat_same (s p : st) : Prop := nodes p = nodes s /\ services p = services s /\ checks p = checks s.
Lemma cat_same_Cat s p : cat_same s p -> Cat s -> Cat p.
Proof. intros (A & B & C). unfold Cat, cmap. rewrite A, B, C. tauto. Qed.

Lemma session_create_Cat idx sid ss s : Cat s -> outcome Cat id (session_create idx sid ss s).
Proof.
  intros HC. unfold session_create. destruct (bool_decide (sid = "")); [exact HC|].
  destruct (nodes s !! s_node ss); [|exact HC]. destruct (forallb _ _); [|exact HC].
  apply rfold_outcome.
  - intros cid t Ht. match goal with |- context [checks ?s1 !! ?k] => destruct (checks s1 !! k) end; [|exact Ht].
    apply ensure_check_p_Cat. exact Ht.
  - eapply cat_same_Cat; [|exact HC]. repeat split.
Qed.

(* ================================================================ Part 3: predicates that ignore the catalog rows *)
Section catfree.
Context (P : st -> Prop).
Hypothesis cf_checks : forall s f, P s -> P (s <| checks ::= f |>).
Hypothesis cf_nodes : forall s f, P s -> P (s <| nodes ::= f |>).
Hypothesis cf_services : forall s f, P s -> P (s <| services ::= f |>).
Hypothesis Hdrop : drop_ok P.

Lemma cf_ensure_check_with del pre idx nd cid hc :
  (forall i sid s, P s -> outcome P id (del i sid s)) ->
  forall s, P s -> outcome P id (ensure_check_with del pre idx nd cid hc s).
Proof.
  intros Hdel s Hs. unfold ensure_check_with. destruct (nodes s !! nd); [|exact Hs].
  unfold resolve_service.
  assert (Htail : forall hc1, outcome P id (s1 ← invalidate_if_critical del idx nd cid hc1 s;
                                           Ok (store_check pre idx nd cid hc1 (checks s !! (nd, cid)) s1))).
  { intros hc1.
    assert (Hi : outcome P id (invalidate_if_critical del idx nd cid hc1 s)).
    { unfold invalidate_if_critical. destruct (bool_decide _); [|exact Hs].
      apply rfold_outcome; [|exact Hs]. intros sid t Ht. apply Hdel, Ht. }
    destruct (invalidate_if_critical del idx nd cid hc1 s) as [s1|e p]; cbn in *; [|exact Hi].
    unfold store_check. destruct (match checks s !! (nd, cid) with Some x => negb (check_same x hc1) | None => true end);
      [apply cf_checks|]; exact Hi. }
  destruct (bool_decide (c_service hc = "")); [rewrite bind_Ok; apply Htail|].
  destruct (services s !! (nd, c_service hc)); [rewrite bind_Ok; apply Htail|exact Hs].
Qed.

Lemma cf_delete_session fuel : forall idx sid s, P s -> outcome P id (delete_session fuel idx sid s).
Proof.
  induction fuel as [|fuel IH]; intros idx sid s Hs; cbn [delete_session]; [exact Hs|].
  destruct (sessions s !! sid) as [ss|] eqn:Ess; [|exact Hs].
  apply rfold_outcome; [|apply Hdrop; assumption].
  intros cid t Ht. destruct (checks (drop_session idx sid ss s) !! (s_node ss, cid)); [|exact Ht].
  apply cf_ensure_check_with; [|exact Ht]. intros i sd u Hu. apply IH, Hu.
Qed.

Lemma cf_delete_session_top idx sid s : P s -> outcome P id (delete_session_top idx sid s).
Proof. apply cf_delete_session. Qed.

Lemma cf_ensure_check_p pre idx nd cid hc s : P s -> outcome P id (ensure_check_p pre idx nd cid hc s).
Proof.
  intros Hs. unfold ensure_check_p. apply cf_ensure_check_with; [|exact Hs].
  intros i sid u Hu. apply cf_delete_session, Hu.
Qed.

Lemma cf_delete_check idx nd cid s : P s -> outcome P id (delete_check idx nd cid s).
Proof.
  intros Hs. unfold delete_check. destruct (checks s !! (nd, cid)); [|exact Hs].
  apply rfold_outcome; [|apply cf_checks, Hs]. intros sid t Ht. apply cf_delete_session_top, Ht.
Qed.

Lemma cf_delete_service idx nd svc s : P s -> outcome P id (delete_service idx nd svc s).
Proof.
  intros Hs. unfold delete_service. destruct (services s !! (nd, svc)); [|exact Hs].
  pose proof (rfold_outcome P (fun s' cid => delete_check idx nd cid s') (checks_of_service nd svc s)
                (fun cid t Ht => cf_delete_check idx nd cid t Ht) s Hs) as Hr.
  destruct (rfold _ _ s) as [s1|e p]; cbn in *; [apply cf_services|]; exact Hr.
Qed.

Lemma cf_delete_node idx nd s : P s -> outcome P id (delete_node idx nd s).
Proof.
  intros Hs. unfold delete_node. destruct (nodes s !! nd); [|exact Hs].
  pose proof (rfold_outcome P (fun s' svc => delete_service idx nd svc s') (services_of_node nd s)
                (fun svc t Ht => cf_delete_service idx nd svc t Ht) s Hs) as Hr1.
  destruct (rfold _ _ s) as [s1|e p]; cbn in Hr1; [rewrite bind_Ok|exact Hr1].
  pose proof (rfold_outcome P (fun s' cid => delete_check idx nd cid s') (checks_of_node nd s1)
                (fun cid t Ht => cf_delete_check idx nd cid t Ht) s1 Hr1) as Hr2.
  destruct (rfold _ _ s1) as [s2|e p]; cbn in Hr2; [rewrite bind_Ok|exact Hr2].
  cbn zeta. apply rfold_outcome; [|apply cf_nodes, Hr2]. intros sid t Ht. apply cf_delete_session_top, Ht.
Qed.

Lemma cf_ensure_node idx nd nid addr s : P s -> outcome P id (ensure_node idx nd nid addr s).
Proof.
  intros Hs. unfold ensure_node.
  assert (Hfin : forall (n0 : option node) s1, P s1 ->
            outcome P id
              (let n1 := match n0 with Some x => Some x | None => nodes s1 !! nd end in
               match n1 with
               | Some x => if bool_decide (n_id x = nid) && bool_decide (n_addr x = addr) && bool_decide (nodes s1 !! nd = Some x)
                           then Ok s1 else Ok (s1 <| nodes ::= <[nd := Node nid addr (n_create x) idx]> |>)
               | None => Ok (s1 <| nodes ::= <[nd := Node nid addr idx idx]> |>)
               end)).
  { intros n0 s1 Hs1. cbn zeta. destruct n0 as [x|]; [|destruct (nodes s1 !! nd) as [x|]].
    - destruct (_ && _); cbn; [exact Hs1|apply cf_nodes, Hs1].
    - destruct (_ && _); cbn; [exact Hs1|apply cf_nodes, Hs1].
    - cbn. apply cf_nodes, Hs1. }
  destruct (bool_decide (nid = "")); [rewrite bind_Ok; apply (Hfin None), Hs|].
  destruct (node_by_id nid s) as [[oname on]|].
  - destruct (bool_decide (oname = nd)); [rewrite bind_Ok; apply (Hfin (Some on)), Hs|].
    destruct (similar_clash false nd nid s); [exact Hs|].
    pose proof (cf_delete_node idx oname s Hs) as Hd.
    destruct (delete_node idx oname s) as [s'|e p]; cbn in Hd; [|exact Hd].
    rewrite !bind_Ok. apply (Hfin (Some on)), Hd.
  - destruct (similar_clash true nd nid s); [exact Hs|]. rewrite bind_Ok. apply (Hfin None), Hs.
Qed.

Lemma cf_ensure_service idx nd svc name port s : P s -> outcome P id (ensure_service idx nd svc name port s).
Proof.
  intros Hs. unfold ensure_service. destruct (nodes s !! nd); [|exact Hs].
  destruct (services s !! (nd, svc)); [destruct (_ && _)|]; cbn; [exact Hs|apply cf_services, Hs|apply cf_services, Hs].
Qed.
End catfree.

(* ---------- the session-link and index-row parts ---------- *)
Definition Q (s : st) : Prop := SCheckExact s /\ IdxPresence s.

Lemma ne_sub {K} `{Countable K} {V} (m' m : gmap K V) : m' ⊆ m -> m' <> ∅ -> m <> ∅.
Proof.
  intros Hsub Hne ->. apply Hne. apply map_empty. intros k. apply eq_None_not_Some. intros [v Hv].
  eapply lookup_weaken in Hv; [|exact Hsub]. rewrite lookup_empty in Hv. discriminate.
Qed.

Lemma IdxPresence_step s p :
  dom (index s) ⊆ dom (index p) ->
  (kvs p <> ∅ -> kvs s <> ∅ \/ is_Some (index p !! "kvs")) ->
  (tombs p <> ∅ -> tombs s <> ∅ \/ is_Some (index p !! "tombstones")) ->
  (sessions p <> ∅ -> sessions s <> ∅ \/ is_Some (index p !! "sessions")) ->
  (queries p <> ∅ -> queries s <> ∅ \/ is_Some (index p !! "prepared-queries")) ->
  IdxPresence s -> IdxPresence p.
Proof.
  intros Hd Hk Ht Hs Hq (A & B & C & D).
  assert (Hup : forall k, is_Some (index s !! k) -> is_Some (index p !! k)).
  { intros k Hk'. apply elem_of_dom. apply Hd. apply elem_of_dom. exact Hk'. }
  repeat split.
  - intros H. destruct (Hk H) as [H'|H']; [apply Hup, A, H'|exact H'].
  - intros H. destruct (Ht H) as [H'|H']; [apply Hup, B, H'|exact H'].
  - intros H. destruct (Hs H) as [H'|H']; [apply Hup, C, H'|exact H'].
  - intros H. destruct (Hq H) as [H'|H']; [apply Hup, D, H'|exact H'].
Qed.

Lemma Q_frame s p :
  sessions p = sessions s -> schecks p = schecks s -> kvs p = kvs s -> tombs p = tombs s ->
  queries p = queries s -> index p = index s -> Q s -> Q p.
Proof.
  intros A B C D E F [H1 H2]. split.
  - unfold SCheckExact. rewrite A, B. exact H1.
  - unfold IdxPresence. rewrite A, C, D, E, F. exact H2.
Qed.

Lemma Q_cf_checks s f : Q s -> Q (s <| checks ::= f |>).
Proof. apply Q_frame; reflexivity. Qed.
Lemma Q_cf_nodes s f : Q s -> Q (s <| nodes ::= f |>).
Proof. apply Q_frame; reflexivity. Qed.
Lemma Q_cf_services s f : Q s -> Q (s <| services ::= f |>).
Proof. apply Q_frame; reflexivity. Qed.

Lemma dom_set_index k v s : dom (index s) ⊆ dom (index (set_index k v s)).
Proof. unfold set_index. cbn. rewrite dom_insert. set_solver. Qed.

Lemma set_index_has k v s : is_Some (index (set_index k v s) !! k).
Proof. unfold set_index. cbn. rewrite lookup_insert. eauto. Qed.

Lemma drop_session_schecks_eq idx sid ss s :
  schecks (drop_session idx sid ss s) = filter (fun m => m.2 <> sid) (schecks s).
Proof.
  unfold drop_session. cbn zeta.
  match goal with |- context [bool_decide ?P] => destruct (bool_decide P) end; cbn;
    rewrite (proj1 (proj2 (release_or_delete_keys_frame _ _ _ _))); reflexivity.
Qed.

(* the four tables and the index after the keys step *)
Definition keys_ok (s p : st) : Prop :=
  dom (index s) ⊆ dom (index p) /\
  (kvs p <> ∅ -> kvs s <> ∅) /\ (kvs p = kvs s \/ is_Some (index p !! "kvs")) /\
  (tombs p = tombs s \/ is_Some (index p !! "tombstones")).

Lemma release_or_delete_keys_idx idx sid ss s : keys_ok s (release_or_delete_keys idx sid ss s).
Proof.
  unfold release_or_delete_keys.
  destruct (bool_decide _); [split; [reflexivity|split; [tauto|split; left; reflexivity]]|].
  set (held := filter (fun kv : string * kvent => kv_session kv.2 = sid) (kvs s)).
  assert (Hdel : keys_ok s (set_index "kvs" idx
           (set_index "tombstones" idx
              (s <| tombs ::= fun t => ((fun _ => idx) <$> held) ∪ t |>
                 <| kvs ::= filter (fun kv => kv_session kv.2 <> sid) |>)))).
  { unfold keys_ok, set_index. cbn. split; [rewrite !dom_insert; set_solver|].
    split; [intros Hne; eapply ne_sub; [|exact Hne]; apply map_filter_subseteq|].
    split; right; [rewrite lookup_insert; eauto|].
    rewrite lookup_insert_ne by discriminate. rewrite lookup_insert. eauto. }
  assert (Hrel : keys_ok s (set_index "kvs" idx
           (s <| kvs ::= fmap (fun e => if bool_decide (kv_session e = sid)
                                        then KV (kv_value e) (kv_flags e) "" (kv_lock e) (kv_create e) idx
                                        else e) |>))).
  { unfold keys_ok, set_index. cbn. split; [rewrite !dom_insert; set_solver|].
    split; [intros Hne Heq; apply Hne; rewrite Heq; apply fmap_empty|].
    split; [right; rewrite lookup_insert; eauto|left; reflexivity]. }
  destruct (s_delete ss); destruct (s_delay ss); assumption.
Qed.

Lemma Q_drop_ok : drop_ok Q.
Proof.
  intros s idx sid ss [Hex Hip] Hss. split.
  - (* links *)
    intros n c sd. rewrite drop_session_schecks_eq, drop_session_sessions. split.
    + intros Hin. apply elem_of_filter in Hin as [Hne Hin]. cbn in Hne.
      apply Hex in Hin as (ss' & H1 & H2 & H3). exists ss'. split; [|split; assumption].
      rewrite lookup_delete_ne by congruence. exact H1.
    + intros (ss' & H1 & H2 & H3). apply lookup_delete_Some in H1 as [Hne H1].
      apply elem_of_filter. split; [cbn; congruence|]. apply Hex. exists ss'. split; [exact H1|split; assumption].
  - (* index rows *)
    unfold drop_session. cbn zeta.
    set (s0 := s <| sessions ::= delete sid |>).
    set (s1 := set_index "sessions" idx s0).
    assert (E0 : index s0 = index s) by reflexivity.
    pose proof (release_or_delete_keys_idx idx sid ss s1) as (Kd & Kne & Kk & Kt).
    pose proof (release_or_delete_keys_frame idx sid ss s1) as (Fs & _ & Fq & _).
    set (s2 := release_or_delete_keys idx sid ss s1) in *.
    assert (H2 : IdxPresence s2).
    { eapply (IdxPresence_step s s2); [| | | | |exact Hip].
      - etrans; [|exact Kd]. rewrite <- E0. exact (dom_set_index "sessions" idx s0).
      - intros Hne. destruct Kk as [Kk|Kk]; [left; rewrite Kk in Hne; exact Hne|right; exact Kk].
      - intros Hne. destruct Kt as [Kt|Kt]; [left; rewrite Kt in Hne; exact Hne|right; exact Kt].
      - intros _. right. apply elem_of_dom. apply Kd. apply elem_of_dom.
        exact (set_index_has "sessions" idx s0).
      - intros Hne. left. rewrite Fq in Hne. exact Hne. }
    match goal with |- context [bool_decide ?P] => destruct (bool_decide P) end.
    + eapply (IdxPresence_step s2); [reflexivity|intros H; left; exact H|intros H; left; exact H|intros H; left; exact H|intros H; left; exact H|exact H2].
    + eapply (IdxPresence_step s2); [| | | | |exact H2]; cbn.
      * rewrite dom_insert. set_solver.
      * intros H; left; exact H.
      * intros H; left; exact H.
      * intros H; left; exact H.
      * intros _. right. rewrite lookup_insert. eauto.
Qed.

(* ---------- KV primitives ---------- *)
Lemma Q_kv s p :
  sessions p = sessions s -> schecks p = schecks s -> queries p = queries s ->
  dom (index s) ⊆ dom (index p) ->
  (kvs p <> ∅ -> kvs s <> ∅ \/ is_Some (index p !! "kvs")) ->
  (tombs p <> ∅ -> tombs s <> ∅ \/ is_Some (index p !! "tombstones")) ->
  Q s -> Q p.
Proof.
  intros A B C D E F [H1 H2]. split.
  - unfold SCheckExact. rewrite A, B. exact H1.
  - eapply (IdxPresence_step s p); [exact D|exact E|exact F| | |exact H2].
    + intros H. left. rewrite A in H. exact H.
    + intros H. left. rewrite C in H. exact H.
Qed.

Lemma kvs_set_Q idx k e upd s : Q s -> Q (kvs_set idx k e upd s).1.
Proof.
  intros HQ. unfold kvs_set.
  destruct (kvs s !! k) as [x|]; [destruct (kv_same x _); cbn; [exact HQ|]|cbn];
    (eapply (Q_kv s); [reflexivity|reflexivity|reflexivity| | | |exact HQ]; cbn;
     [rewrite dom_insert; set_solver|intros _; right; rewrite lookup_insert; eauto|intros H; left; exact H]).
Qed.

Lemma kvs_delete_Q idx k s : Q s -> Q (kvs_delete idx k s).
Proof.
  intros HQ. unfold kvs_delete. destruct (kvs s !! k); [|exact HQ].
  eapply (Q_kv s); [reflexivity|reflexivity|reflexivity| | | |exact HQ]; cbn.
  - rewrite !dom_insert. set_solver.
  - intros _. right. rewrite lookup_insert. eauto.
  - intros _. right. rewrite lookup_insert_ne by discriminate. rewrite lookup_insert. eauto.
Qed.

Lemma kvs_delete_tree_Q idx p s : Q s -> Q (kvs_delete_tree idx p s).
Proof.
  intros HQ. unfold kvs_delete_tree. destruct (bool_decide _); [exact HQ|].
  destruct (bool_decide (p = "")); (eapply (Q_kv s); [reflexivity|reflexivity|reflexivity| | | |exact HQ]; cbn).
  - rewrite !dom_insert. set_solver.
  - intros _. right. rewrite lookup_insert. eauto.
  - intros H. left. eapply ne_sub; [|exact H]. apply map_filter_subseteq.
  - rewrite !dom_insert. set_solver.
  - intros _. right. rewrite lookup_insert. eauto.
  - intros _. right. rewrite lookup_insert_ne by discriminate. rewrite lookup_insert. eauto.
Qed.

Lemma kvs_delete_cas_Q idx cidx k s : Q s -> Q (kvs_delete_cas idx cidx k s).2.
Proof.
  intros HQ. unfold kvs_delete_cas. destruct (kvs s !! k); [|exact HQ].
  destruct (bool_decide _); cbn; [apply kvs_delete_Q; exact HQ|exact HQ].
Qed.

Lemma kvs_set_cas_Q idx k e s : Q s -> Q (kvs_set_cas idx k e s).2.1.
Proof.
  intros HQ. unfold kvs_set_cas. destruct (kvs s !! k).
  - destruct (bool_decide (kv_modify e = 0)); cbn; [exact HQ|].
    destruct (bool_decide _); cbn; [apply kvs_set_Q; exact HQ|exact HQ].
  - destruct (bool_decide _); cbn; [apply kvs_set_Q; exact HQ|exact HQ].
Qed.

Lemma kvs_lock_Q idx k e s : Q s -> outcome Q (fun r => r.2.1) (kvs_lock idx k e s).
Proof.
  intros HQ. unfold kvs_lock. destruct (bool_decide (kv_session e = "")); [exact HQ|].
  destruct (sessions s !! kv_session e); [|exact HQ].
  destruct (kvs s !! k) as [x|].
  - destruct (bool_decide (kv_session x = kv_session e)); cbn; [apply kvs_set_Q; exact HQ|].
    destruct (bool_decide (kv_session x = "")); cbn; [apply kvs_set_Q; exact HQ|exact HQ].
  - cbn. apply kvs_set_Q; exact HQ.
Qed.

Lemma kvs_unlock_Q idx k e s : Q s -> outcome Q (fun r => r.2.1) (kvs_unlock idx k e s).
Proof.
  intros HQ. unfold kvs_unlock. destruct (bool_decide (kv_session e = "")); [exact HQ|].
  destruct (kvs s !! k) as [x|]; [|exact HQ].
  destruct (bool_decide _); cbn; [apply kvs_set_Q; exact HQ|exact HQ].
Qed.

Lemma reap_Q upto s : Q s -> Q (reap_tombstones upto s).
Proof.
  intros HQ. unfold reap_tombstones.
  eapply (Q_kv s); [reflexivity|reflexivity|reflexivity|reflexivity| | |exact HQ]; cbn.
  - intros H. left. exact H.
  - intros H. left. eapply ne_sub; [|exact H]. apply map_filter_subseteq.
Qed.

(* ---------- sessions and queries ---------- *)
Lemma session_create_Q idx sid ss s :
  sessions s !! sid = None -> Q s -> outcome Q id (session_create idx sid ss s).
Proof.
  intros Hfresh HQ. unfold session_create. destruct (bool_decide (sid = "")); [exact HQ|].
  destruct (nodes s !! s_node ss); [|exact HQ]. destruct (forallb _ _); [|exact HQ].
  apply rfold_outcome.
  - intros cid t Ht. match goal with |- context [checks ?s1 !! ?k] => destruct (checks s1 !! k) end; [|exact Ht].
    apply (cf_ensure_check_p Q Q_cf_checks Q_drop_ok). exact Ht.
  - destruct HQ as [Hex Hip]. split.
    + intros n0 c sd. cbn. rewrite elem_of_union, elem_of_list_to_set, elem_of_list_fmap. split.
      * intros [(cid & Heq & Hin)|Hin].
        -- injection Heq as -> -> ->. exists (ss <| s_create := idx |>). rewrite lookup_insert. repeat split. exact Hin.
        -- apply Hex in Hin as (ss' & H1 & H2 & H3). exists ss'. split; [|split; assumption].
           rewrite lookup_insert_ne by (intros ->; congruence). exact H1.
      * intros (ss' & H1 & H2 & H3). destruct (decide (sd = sid)) as [->|Hne].
        -- rewrite lookup_insert in H1. injection H1 as <-. cbn in *. left. exists c. subst. split; [reflexivity|exact H3].
        -- rewrite lookup_insert_ne in H1 by congruence. right. apply Hex. exists ss'. split; [exact H1|split; assumption].
    + eapply (IdxPresence_step s); [| | | | |exact Hip]; cbn.
      * rewrite dom_insert. set_solver.
      * intros H; left; exact H.
      * intros H; left; exact H.
      * intros _. right. rewrite lookup_insert. eauto.
      * intros H; left; exact H.
Qed.

Lemma query_set_Q idx qid sess s : Q s -> outcome Q id (query_set idx qid sess s).
Proof.
  intros HQ. unfold query_set. destruct (_ || _); [|exact HQ]. cbn. destruct HQ as [Hex Hip]. split; [exact Hex|].
  eapply (IdxPresence_step s); [| | | | |exact Hip]; cbn.
  - rewrite dom_insert. set_solver.
  - intros H; left; exact H.
  - intros H; left; exact H.
  - intros H; left; exact H.
  - intros _. right. rewrite lookup_insert. eauto.
Qed.

Lemma query_delete_Q idx qid s : Q s -> Q (query_delete idx qid s).
Proof.
  intros HQ. unfold query_delete. destruct (queries s !! qid); [|exact HQ]. destruct HQ as [Hex Hip]. split; [exact Hex|].
  eapply (IdxPresence_step s); [| | | | |exact Hip]; cbn.
  - rewrite dom_insert. set_solver.
  - intros H; left; exact H.
  - intros H; left; exact H.
  - intros H; left; exact H.
  - intros _. right. rewrite lookup_insert. eauto.
Qed.

(* ================================================================ Part 4: commands and histories *)
Section compose.
Context (P : st -> Prop).
Hypothesis bb_node : forall idx nd nid addr s, idx <> 0 -> P s -> outcome P id (ensure_node idx nd nid addr s).
Hypothesis bb_service : forall idx nd svc name port s, P s -> outcome P id (ensure_service idx nd svc name port s).
Hypothesis bb_check : forall pre idx nd cid hc s, P s -> outcome P id (ensure_check_p pre idx nd cid hc s).
Hypothesis bb_del_node : forall idx nd s, P s -> outcome P id (delete_node idx nd s).
Hypothesis bb_del_service : forall idx nd svc s, P s -> outcome P id (delete_service idx nd svc s).
Hypothesis bb_del_check : forall idx nd cid s, P s -> outcome P id (delete_check idx nd cid s).
Hypothesis bb_del_session : forall idx sid s, P s -> outcome P id (delete_session_top idx sid s).
Hypothesis bb_kvs_set : forall idx k e upd s, P s -> P (kvs_set idx k e upd s).1.
Hypothesis bb_kvs_delete : forall idx k s, P s -> P (kvs_delete idx k s).
Hypothesis bb_kvs_delete_tree : forall idx p s, P s -> P (kvs_delete_tree idx p s).
Hypothesis bb_kvs_delete_cas : forall idx cidx k s, P s -> P (kvs_delete_cas idx cidx k s).2.
Hypothesis bb_kvs_set_cas : forall idx k e s, P s -> P (kvs_set_cas idx k e s).2.1.
Hypothesis bb_kvs_lock : forall idx k e s, P s -> outcome P (fun r => r.2.1) (kvs_lock idx k e s).
Hypothesis bb_kvs_unlock : forall idx k e s, P s -> outcome P (fun r => r.2.1) (kvs_unlock idx k e s).
Hypothesis bb_reap : forall upto s, P s -> P (reap_tombstones upto s).
Hypothesis bb_session_create : forall idx sid ss s, sessions s !! sid = None -> P s -> outcome P id (session_create idx sid ss s).
Hypothesis bb_query_set : forall idx qid sess s, P s -> outcome P id (query_set idx qid sess s).
Hypothesis bb_query_delete : forall idx qid s, P s -> P (query_delete idx qid s).

Lemma c_registration idx nd nid addr skip svc cks s :
  idx <> 0 -> P s -> outcome P id (ensure_registration idx nd nid addr skip svc cks s).
Proof.
  intros Hidx Hs. unfold ensure_registration.
  apply (bind_outcome P P id id).
  { destruct (changes_node _ _ _ _); [|exact Hs]. apply bb_node; assumption. }
  intros s1 Hs1. apply (bind_outcome P P id id).
  { destruct svc as [[[sid name] port]|]; [|exact Hs1].
    destruct (services s1 !! (nd, sid)) as [x|]; [destruct (_ && _); [exact Hs1|]|]; apply bb_service; exact Hs1. }
  intros s2 Hs2. apply rfold_outcome; [|exact Hs2].
  intros c t Ht. destruct (bool_decide _); [|exact Ht]. apply bb_check. exact Ht.
Qed.

Lemma bind_fst {B} (m : result st) (k : st -> result (st * B)) :
  outcome P id m -> (forall s', P s' -> outcome P fst (k s')) -> outcome P fst (m ≫= k).
Proof. intros Hm Hk. destruct m as [a|e p]; cbn in *; [apply Hk; exact Hm|exact Hm]. Qed.

Lemma c_txn_kv idx v q s : P s -> outcome P fst (txn_kv idx v q s).
Proof.
  intros Hs. unfold txn_kv. destruct v; cbn.
  - pose proof (bb_kvs_set idx (q_key q) (ent_of q) false s Hs) as Hx.
    destruct (kvs_set _ _ _ _ _) as [s' e']. exact Hx.
  - apply bb_kvs_delete; exact Hs.
  - pose proof (bb_kvs_delete_cas idx (q_index q) (q_key q) s Hs) as Hx.
    destruct (kvs_delete_cas _ _ _ _) as [[] s']; cbn; [exact Hx|exact Hs].
  - apply bb_kvs_delete_tree; exact Hs.
  - pose proof (bb_kvs_set_cas idx (q_key q) (ent_of q) s Hs) as Hx.
    destruct (kvs_set_cas _ _ _ _) as [[] [s' e']]; cbn; [exact Hx|exact Hs].
  - pose proof (bb_kvs_lock idx (q_key q) (ent_of q) s Hs) as Hx.
    destruct (kvs_lock _ _ _ _) as [[[] [s' e']]|er p]; cbn; [exact Hx|exact Hs|exact Hx].
  - pose proof (bb_kvs_unlock idx (q_key q) (ent_of q) s Hs) as Hx.
    destruct (kvs_unlock _ _ _ _) as [[[] [s' e']]|er p]; cbn; [exact Hx|exact Hs|exact Hx].
  - destruct (kvs s !! q_key q); exact Hs.
  - destruct (kvs s !! q_key q); exact Hs.
  - exact Hs.
  - destruct (kvs s !! q_key q); [destruct (bool_decide _)|]; exact Hs.
  - destruct (kvs s !! q_key q); [destruct (bool_decide _)|]; exact Hs.
  - destruct (kvs s !! q_key q); exact Hs.
Qed.

Lemma c_txn_node idx v nd nid addr cidx s : idx <> 0 -> P s -> outcome P fst (txn_node idx v nd nid addr cidx s).
Proof.
  intros Hidx Hs. unfold txn_node.
  assert (Hreply : forall s', P s' ->
     outcome P fst
       (match (if bool_decide (nid = "") then (fun n => (nd, n)) <$> nodes s' !! nd else node_by_id nid s') with
        | Some (nm, n) => Ok (s', [RNode nm n]) | None => Ok (s', []) end)).
  { intros s' Hs'. destruct (if bool_decide (nid = "") then _ else _) as [[nm n]|]; exact Hs'. }
  destruct v.
  - destruct (if bool_decide (nid = "") then _ else _) as [[nm n]|]; exact Hs.
  - apply bind_fst; [apply bb_node; assumption|exact Hreply].
  - destruct (cas_ok _ _ _); [|exact Hs]. apply bind_fst; [apply bb_node; assumption|exact Hreply].
  - apply bind_fst; [apply bb_del_node; exact Hs|intros s' Hs'; exact Hs'].
  - destruct (nodes s !! nd) as [x|]; [|exact Hs]. destruct (bool_decide (n_modify x = cidx)); [|exact Hs].
    apply bind_fst; [apply bb_del_node; exact Hs|intros s' Hs'; exact Hs'].
Qed.

Lemma c_txn_service idx v nd svc name port cidx s : P s -> outcome P fst (txn_service idx v nd svc name port cidx s).
Proof.
  intros Hs. unfold txn_service.
  assert (Hreply : forall s', P s' ->
     outcome P fst (match services s' !! (nd, svc) with
                    | Some x => Ok (s', [RService nd svc x]) | None => Ok (s', []) end)).
  { intros s' Hs'. destruct (services s' !! (nd, svc)); exact Hs'. }
  destruct v.
  - destruct (services s !! (nd, svc)); exact Hs.
  - apply bind_fst; [apply bb_service; exact Hs|exact Hreply].
  - destruct (cas_ok _ _ _); [|exact Hs]. apply bind_fst; [apply bb_service; exact Hs|exact Hreply].
  - apply bind_fst; [apply bb_del_service; exact Hs|intros s' Hs'; exact Hs'].
  - destruct (services s !! (nd, svc)) as [x|]; [|exact Hs]. destruct (bool_decide (sv_modify x = cidx)); [|exact Hs].
    apply bind_fst; [apply bb_del_service; exact Hs|intros s' Hs'; exact Hs'].
Qed.

Lemma c_txn_check idx v c s : P s -> outcome P fst (txn_check idx v c s).
Proof.
  intros Hs. unfold txn_check.
  assert (Hreply : forall s', P s' ->
     outcome P fst (match checks s' !! (cr_node c, cr_id c) with
                    | Some x => Ok (s', [RCheck (cr_node c) (cr_id c) x]) | None => Ok (s', []) end)).
  { intros s' Hs'. destruct (checks s' !! _); exact Hs'. }
  destruct v.
  - destruct (checks s !! _); exact Hs.
  - apply bind_fst; [apply bb_check; exact Hs|exact Hreply].
  - destruct (cas_ok _ _ _); [|exact Hs]. apply bind_fst; [apply bb_check; exact Hs|exact Hreply].
  - apply bind_fst; [apply bb_del_check; exact Hs|intros s' Hs'; exact Hs'].
  - destruct (checks s !! _) as [x|]; [|exact Hs]. destruct (bool_decide (c_modify x = cr_index c)); [|exact Hs].
    apply bind_fst; [apply bb_del_check; exact Hs|intros s' Hs'; exact Hs'].
Qed.

Lemma c_txn_op idx op s : idx <> 0 -> P s -> outcome P fst (txn_op idx op s).
Proof.
  intros Hidx Hs. destruct op; cbn [txn_op].
  - apply c_txn_kv; exact Hs.
  - apply c_txn_node; assumption.
  - apply c_txn_service; exact Hs.
  - apply c_txn_check; exact Hs.
  - destruct (sessions s !! sid); [|exact Hs].
    apply bind_fst; [apply bb_del_session; exact Hs|intros s' Hs'; exact Hs'].
Qed.

Lemma c_txn_dispatch idx ops : idx <> 0 -> forall i s, P s -> P (txn_dispatch idx i ops s).1.1.
Proof.
  intros Hidx. induction ops as [|op ops IH]; intros i s Hs; cbn; [exact Hs|].
  pose proof (c_txn_op idx op s Hidx Hs) as Hop.
  destruct (txn_op idx op s) as [[s' r]|e sp]; cbn in Hop.
  - specialize (IH (S i) s' Hop). destruct (txn_dispatch idx (S i) ops s') as [[s'' rs] es]. exact IH.
  - specialize (IH (S i) sp Hop). destruct (txn_dispatch idx (S i) ops sp) as [[s'' rs] es]. exact IH.
Qed.

Lemma c_of_unit (r : result st) s : P s -> outcome P id r -> P (of_unit r s).1.
Proof. intros Hs Hr. destruct r as [s'|e p]; cbn; [exact Hr|exact Hs]. Qed.

Theorem c_apply idx c s : wf_cmd idx c s -> P s -> P (apply idx c s).1.
Proof.
  intros [Hpos Hwf] Hs. assert (Hidx : idx <> 0) by lia. destruct c; cbn.
  - unfold apply_kvs. destruct v; cbn; try exact Hs.
    + apply bb_kvs_set; exact Hs.
    + apply bb_kvs_delete; exact Hs.
    + pose proof (bb_kvs_delete_cas idx (q_index q) (q_key q) s Hs) as Hx.
      destruct (kvs_delete_cas _ _ _ _) as [ok s']. exact Hx.
    + apply bb_kvs_delete_tree; exact Hs.
    + pose proof (bb_kvs_set_cas idx (q_key q) (ent_of q) s Hs) as Hx.
      destruct (kvs_set_cas _ _ _ _) as [[] [s' e']]; cbn; [exact Hx|exact Hs].
    + pose proof (bb_kvs_lock idx (q_key q) (ent_of q) s Hs) as Hx.
      destruct (kvs_lock _ _ _ _) as [[[] [s' e']]|er p]; cbn; [exact Hx|exact Hs|exact Hs].
    + pose proof (bb_kvs_unlock idx (q_key q) (ent_of q) s Hs) as Hx.
      destruct (kvs_unlock _ _ _ _) as [[[] [s' e']]|er p]; cbn; [exact Hx|exact Hs|exact Hs].
  - pose proof (bb_session_create idx sid ss s Hwf Hs) as Hx.
    destruct (session_create idx sid ss s); cbn; [exact Hx|exact Hs].
  - apply c_of_unit; [exact Hs|]. apply bb_del_session; exact Hs.
  - apply c_of_unit; [exact Hs|]. apply c_registration; assumption.
  - destruct (negb (bool_decide (svc = ""))); [|destruct (negb (bool_decide (cid = "")))];
      (apply c_of_unit; [exact Hs|]).
    + apply bb_del_service; exact Hs.
    + apply bb_del_check; exact Hs.
    + apply bb_del_node; exact Hs.
  - unfold txn_rw. pose proof (c_txn_dispatch idx ops Hidx 0%nat s Hs) as Hx.
    destruct (txn_dispatch idx 0 ops s) as [[s' rs] es]. destruct es; cbn; [exact Hx|exact Hs].
  - apply bb_reap; exact Hs.
  - apply c_of_unit; [exact Hs|]. apply bb_query_set; exact Hs.
  - apply bb_query_delete; exact Hs.
Qed.

Theorem c_run log : forall s, wf_log log s -> P s -> P (run log s).1.
Proof.
  induction log as [|[idx c] log IH]; intros s Hwf Hs; cbn; [exact Hs|].
  destruct Hwf as [Hc Hrest]. pose proof (c_apply idx c s Hc Hs) as Ha.
  destruct (apply idx c s) as [s' r]. cbn in *. specialize (IH s' Hrest Ha).
  destruct (run log s') as [s'' rs]. exact IH.
Qed.
End compose.

(* ---------- the catalog part is untouched by the KV / query primitives ---------- *)
Lemma cat_same_refl s : cat_same s s.
Proof. repeat split. Qed.

Lemma kvs_set_cat idx k e upd s : cat_same s (kvs_set idx k e upd s).1.
Proof. unfold kvs_set. destruct (kvs s !! k) as [x|]; [destruct (kv_same x _)|]; repeat split. Qed.
Lemma kvs_delete_cat idx k s : cat_same s (kvs_delete idx k s).
Proof. unfold kvs_delete. destruct (kvs s !! k); repeat split. Qed.
Lemma kvs_delete_tree_cat idx p s : cat_same s (kvs_delete_tree idx p s).
Proof. unfold kvs_delete_tree. destruct (bool_decide _); [repeat split|]. destruct (bool_decide (p = "")); repeat split. Qed.
Lemma kvs_delete_cas_cat idx cidx k s : cat_same s (kvs_delete_cas idx cidx k s).2.
Proof.
  unfold kvs_delete_cas. destruct (kvs s !! k); [|repeat split].
  destruct (bool_decide _); cbn; [apply kvs_delete_cat|repeat split].
Qed.
Lemma kvs_set_cas_cat idx k e s : cat_same s (kvs_set_cas idx k e s).2.1.
Proof.
  unfold kvs_set_cas. destruct (kvs s !! k).
  - destruct (bool_decide (kv_modify e = 0)); cbn; [repeat split|].
    destruct (bool_decide _); cbn; [apply kvs_set_cat|repeat split].
  - destruct (bool_decide _); cbn; [apply kvs_set_cat|repeat split].
Qed.
Lemma kvs_lock_cat idx k e s : outcome (cat_same s) (fun r => r.2.1) (kvs_lock idx k e s).
Proof.
  unfold kvs_lock. destruct (bool_decide (kv_session e = "")); [apply cat_same_refl|].
  destruct (sessions s !! kv_session e); [|apply cat_same_refl].
  destruct (kvs s !! k) as [x|].
  - destruct (bool_decide (kv_session x = kv_session e)); cbn; [apply kvs_set_cat|].
    destruct (bool_decide (kv_session x = "")); cbn; [apply kvs_set_cat|apply cat_same_refl].
  - cbn. apply kvs_set_cat.
Qed.
Lemma kvs_unlock_cat idx k e s : outcome (cat_same s) (fun r => r.2.1) (kvs_unlock idx k e s).
Proof.
  unfold kvs_unlock. destruct (bool_decide (kv_session e = "")); [apply cat_same_refl|].
  destruct (kvs s !! k) as [x|]; [|apply cat_same_refl].
  destruct (bool_decide _); cbn; [apply kvs_set_cat|apply cat_same_refl].
Qed.

Lemma outcome_impl {A} (P1 P2 : st -> Prop) (proj : A -> st) r :
  (forall s, P1 s -> P2 s) -> outcome P1 proj r -> outcome P2 proj r.
Proof. intros H. destruct r; cbn; apply H. Qed.

Theorem apply_Cat idx c s : wf_cmd idx c s -> Cat s -> Cat (apply idx c s).1.
Proof.
  apply (c_apply Cat).
  - intros; apply ensure_node_Cat; assumption.
  - intros; apply ensure_service_Cat; assumption.
  - intros; apply ensure_check_p_Cat; assumption.
  - intros; apply delete_node_Cat'; assumption.
  - intros; apply delete_service_Cat'; assumption.
  - intros; apply delete_check_Cat; assumption.
  - intros; apply delete_session_top_Cat; assumption.
  - intros i k e upd t Ht. eapply cat_same_Cat; [apply kvs_set_cat|exact Ht].
  - intros i k t Ht. eapply cat_same_Cat; [apply kvs_delete_cat|exact Ht].
  - intros i p t Ht. eapply cat_same_Cat; [apply kvs_delete_tree_cat|exact Ht].
  - intros i ci k t Ht. eapply cat_same_Cat; [apply kvs_delete_cas_cat|exact Ht].
  - intros i k e t Ht. eapply cat_same_Cat; [apply kvs_set_cas_cat|exact Ht].
  - intros i k e t Ht. eapply outcome_impl; [|apply kvs_lock_cat]. intros p Hp. eapply cat_same_Cat; eassumption.
  - intros i k e t Ht. eapply outcome_impl; [|apply kvs_unlock_cat]. intros p Hp. eapply cat_same_Cat; eassumption.
  - intros u t Ht. eapply cat_same_Cat; [|exact Ht]. repeat split.
  - intros i sid ss t _ Ht. apply session_create_Cat; exact Ht.
  - intros i q se t Ht. unfold query_set. destruct (_ || _); cbn; [|exact Ht]. eapply cat_same_Cat; [|exact Ht]. repeat split.
  - intros i q t Ht. unfold query_delete. destruct (queries t !! q); [|exact Ht]. eapply cat_same_Cat; [|exact Ht]. repeat split.
Qed.

Theorem apply_Q idx c s : wf_cmd idx c s -> Q s -> Q (apply idx c s).1.
Proof.
  apply (c_apply Q).
  - intros; apply (cf_ensure_node Q Q_cf_checks Q_cf_nodes Q_cf_services Q_drop_ok); assumption.
  - intros; apply (cf_ensure_service Q Q_cf_services); assumption.
  - intros; apply (cf_ensure_check_p Q Q_cf_checks Q_drop_ok); assumption.
  - intros; apply (cf_delete_node Q Q_cf_checks Q_cf_nodes Q_cf_services Q_drop_ok); assumption.
  - intros; apply (cf_delete_service Q Q_cf_checks Q_cf_services Q_drop_ok); assumption.
  - intros; apply (cf_delete_check Q Q_cf_checks Q_drop_ok); assumption.
  - intros; apply (cf_delete_session_top Q Q_cf_checks Q_drop_ok); assumption.
  - intros; apply kvs_set_Q; assumption.
  - intros; apply kvs_delete_Q; assumption.
  - intros; apply kvs_delete_tree_Q; assumption.
  - intros; apply kvs_delete_cas_Q; assumption.
  - intros; apply kvs_set_cas_Q; assumption.
  - intros; apply kvs_lock_Q; assumption.
  - intros; apply kvs_unlock_Q; assumption.
  - intros; apply reap_Q; assumption.
  - intros; apply session_create_Q; assumption.
  - intros; apply query_set_Q; assumption.
  - intros; apply query_delete_Q; assumption.
Qed.

Lemma Inv_iff s : Inv s <-> Cat s /\ Q s.
Proof. unfold Inv, Q. rewrite Cat_iff. tauto. Qed.

Theorem apply_Inv idx c s : wf_cmd idx c s -> Inv s -> Inv (apply idx c s).1.
Proof.
  intros Hwf HI. apply Inv_iff in HI as [HC HQ]. apply Inv_iff.
  split; [apply apply_Cat|apply apply_Q]; assumption.
Qed.

Theorem run_Inv log : forall s, wf_log log s -> Inv s -> Inv (run log s).1.
Proof.
  induction log as [|[idx c] log IH]; intros s Hwf Hs; cbn; [exact Hs|].
  destruct Hwf as [Hc Hrest]. pose proof (apply_Inv idx c s Hc Hs) as Ha.
  destruct (apply idx c s) as [s' r]. cbn in *. specialize (IH s' Hrest Ha).
  destruct (run log s') as [s'' rs]. exact IH.
Qed.

Lemma Inv_st0 : Inv st0.
Proof.
  unfold Inv. split; [|split; [|split; [|split; [|split]]]].
  - intros n1 n2 a b H. cbn in H. rewrite lookup_empty in H. discriminate.
  - intros n a H. cbn in H. rewrite lookup_empty in H. discriminate.
  - intros nd sid sv H. cbn in H. rewrite lookup_empty in H. discriminate.
  - intros nd cid c H. cbn in H. rewrite lookup_empty in H. discriminate.
  - intros n c sid. split; [intros H; set_solver|intros (ss & H & _); cbn in H; rewrite lookup_empty in H; discriminate].
  - unfold IdxPresence. repeat split; intros H; contradiction.
Qed.

Theorem reachable_Inv s : reachable s -> Inv s.
Proof. intros (log & Hwf & ->). apply run_Inv; [exact Hwf|apply Inv_st0]. Qed.
